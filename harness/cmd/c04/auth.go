package main

// Driver "auth" (C04): an in-process frps per case (real server.Service on 127.0.4.x) and scripted
// peers that speak pkg/msg on network connections and on an internal (net.Pipe) listener handled
// by svr.HandleListener(l, true).  Every step's reply class and the server state seen through the
// verif accessors are written into a Coq case; Corr/C04.v replays the same events on Model/Auth.v.

import (
	"crypto/md5"
	"encoding/hex"
	"fmt"
	"io"
	"net"
	"os"
	"sort"
	"strconv"
	"strings"
	"sync"
	"time"

	"github.com/fatedier/frp/pkg/auth"
	v1 "github.com/fatedier/frp/pkg/config/v1"
	"github.com/fatedier/frp/pkg/msg"
	netpkg "github.com/fatedier/frp/pkg/util/net"
	"verifharness/hx"
)

func init() { drivers["auth"] = runAuth }

// ownKey is the harness's own md5(token ++ decimal ts) — deliberately NOT util.GetAuthKey.
func ownKey(token string, ts int64) string {
	sum := md5.Sum([]byte(token + strconv.FormatInt(ts, 10)))
	return hex.EncodeToString(sum[:])
}

const otherToken = "some-other-token"

type scenario struct {
	method    string   // token | oidc
	scopes    []string // additional scopes as configured (duplicates possible)
	transport string   // tcp | websocket | tls | kcp | quic
	barrage   bool
	emptyTok  bool // token method with an EMPTY auth.token (frps started without a token): the credential is md5("" ++ ts)
	expiry    bool // OIDC: a short-lived token is used while valid and replayed after it expired
	plugin    bool // a scripted NewWorkConn server plugin (http) rewrites / rejects the content
}

func (sc scenario) hasScope(s string) bool {
	for _, x := range sc.scopes {
		if x == s {
			return true
		}
	}
	return false
}

type peerSess struct {
	sid      int
	rid      string
	conn     net.Conn
	rw       io.ReadWriter
	internal bool
	pass     bool
	inbox    chan msg.Message
	closed   chan struct{}
	dead     bool // harness knows the server dropped it (replaced or closed)
	proxies  map[string]bool
}

func (p *peerSess) reader() {
	for {
		m, err := msg.ReadMsg(p.rw)
		if err != nil {
			close(p.closed)
			return
		}
		select {
		case p.inbox <- m:
		default: // never block the server's send loop
		}
	}
}

func (p *peerSess) wait(d time.Duration, pred func(msg.Message) bool) (msg.Message, bool) {
	t := time.NewTimer(d)
	defer t.Stop()
	for {
		select {
		case m := <-p.inbox:
			if pred(m) {
				return m, true
			}
		case <-p.closed:
			// drain what is left
			for {
				select {
				case m := <-p.inbox:
					if pred(m) {
						return m, true
					}
				default:
					return nil, false
				}
			}
		case <-t.C:
			return nil, false
		}
	}
}

type osess struct {
	rid     string
	pool    int
	proxies []string
	lp      int
	pass    bool
	user    string
}

type snap struct {
	sessions []osess
	pxys     []string
	subjects []string
}

type caseCtx struct {
	g                 *hx.Gen
	idx               int
	sc                scenario
	s                 *hx.Server
	il                *netpkg.InternalListener
	oidc              *oidcWorld
	token             string
	tStart            []time.Time
	sess              []*peerSess // all sessions ever established, by sid
	ended             []string    // run ids of sessions that ended
	nconn             int
	hashTS            map[int64]bool
	oidcKey           map[string]bool
	steps             []string
	fails             []map[string]any
	dist              map[string]int
	extra             []net.Conn
	accepted, refused int
	shortSub          map[string]string // per-case short-lived OIDC tokens -> subject
	shortUntil        map[string]int    // -> first step index at which the token is no longer valid
	plug              *plugStub
	expiredRefused    int
	lastLoginKey      string
	forceLP           string // force the next Login plugin answer: same | user | goodkey | badkey | reject
}

func (cx *caseCtx) fail(key, what string) {
	cx.fails = append(cx.fails, map[string]any{"key": key, "what": what, "case": fmt.Sprintf("case %d step %d scenario %+v", cx.idx, len(cx.steps), cx.sc)})
}

func (cx *caseCtx) dial(internal bool) (net.Conn, error) {
	cx.nconn++
	if internal {
		c1, c2 := net.Pipe()
		if err := cx.il.PutConn(c1); err != nil {
			return nil, err
		}
		return c2, nil
	}
	return dialTransport(cx.s, cx.sc.transport)
}

func (cx *caseCtx) snapshot() snap {
	var sn snap
	for _, v := range cx.s.Svc.VerifC04Sessions() {
		lp := -1
		for i, t := range cx.tStart {
			if !t.After(v.LastPing) {
				lp = i
			}
		}
		sn.sessions = append(sn.sessions, osess{rid: v.RunID, pool: v.PoolLen, proxies: v.Proxies, lp: lp, pass: v.AlwaysPass, user: v.User})
	}
	sn.pxys = cx.s.Svc.VerifC04ProxyNames()
	if oc, ok := cx.s.Svc.VerifC04AuthVerifier().(*auth.OidcAuthConsumer); ok {
		sn.subjects = oc.VerifC04Subjects()
	}
	return sn
}

func (cx *caseCtx) poolTotal() int {
	n := 0
	for _, v := range cx.s.Svc.VerifC04Sessions() {
		n += v.PoolLen
	}
	return n
}

func (cx *caseCtx) hasRID(rid string) bool {
	for _, v := range cx.s.Svc.VerifC04Sessions() {
		if v.RunID == rid {
			return true
		}
	}
	return false
}

func bytesList(xs []string) string {
	it := make([]string, len(xs))
	for i, x := range xs {
		it[i] = hx.HxS(x)
	}
	return hx.List(it)
}

func (sn snap) coq() string {
	ss := make([]string, len(sn.sessions))
	for i, o := range sn.sessions {
		ss[i] = fmt.Sprintf("c4OS %s %d %s %s %s %s", hx.HxS(o.rid), o.pool, bytesList(o.proxies), hx.Z(int64(o.lp)), hx.Bool(o.pass), hx.HxS(o.user))
	}
	return fmt.Sprintf("(c4SN %s %s %s)", hx.List(ss), bytesList(sn.pxys), bytesList(sn.subjects))
}

func (cx *caseCtx) emit(kind string, ev string, code int, rid string) {
	sn := cx.snapshot()
	cx.steps = append(cx.steps, fmt.Sprintf("c4ST (%s) %d %s %s", ev, code, hx.HxS(rid), sn.coq()))
	cx.dist[fmt.Sprintf("%s:%d", kind, code)]++
	if code >= 10 {
		cx.refused++
	} else {
		cx.accepted++
	}
}

func (cx *caseCtx) live() []*peerSess {
	var r []*peerSess
	for _, p := range cx.sess {
		if !p.dead {
			r = append(r, p)
		}
	}
	return r
}

// ---- credentials -----------------------------------------------------------------------------

type cred struct {
	key  string
	ts   int64
	kind string
}

var tsChoices = []int64{0, 1, -1, 1700000000, 4102444800, 9223372036854775807, -9223372036854775808}

func (cx *caseCtx) pickTS() int64 {
	if cx.g.Chance(0.6) {
		return time.Now().Unix() + int64(cx.g.Intn(7)) - 3
	}
	return tsChoices[cx.g.Intn(len(tsChoices))]
}

// makeCred returns a key for the configured method; good=true asks for a valid credential.
func (cx *caseCtx) makeCred(good bool) cred {
	ts := cx.pickTS()
	if cx.sc.method == "oidc" {
		c := cx.oidc.pick(cx.g, good)
		c.ts = ts
		cx.oidcKey[c.key] = true
		return c
	}
	cx.hashTS[ts] = true
	right := ownKey(cx.token, ts)
	if good {
		return cred{right, ts, "right"}
	}
	switch cx.g.Intn(11) {
	case 0:
		return cred{ownKey("nope", ts), ts, "wrong"}
	case 1:
		return cred{ownKey(cx.token, ts+1), ts, "other-ts"}
	case 2:
		return cred{"", ts, "empty"}
	case 3:
		return cred{ownKey(otherToken, ts), ts, "other-token"}
	case 4:
		return cred{right[:31], ts, "trunc31"}
	case 5:
		return cred{right[:8], ts, "trunc8"}
	case 6:
		return cred{right + "0", ts, "extended"}
	case 7:
		b := []byte(right)
		if b[31] == '0' {
			b[31] = '1'
		} else {
			b[31] = '0'
		}
		return cred{string(b), ts, "flip-last"}
	case 8:
		b := []byte(right)
		if b[0] == 'f' {
			b[0] = 'e'
		} else {
			b[0] = 'f'
		}
		return cred{string(b), ts, "flip-first"}
	case 9:
		u := strings.ToUpper(right)
		if u == right {
			u = "X" + right[1:]
		}
		return cred{u, ts, "upper"}
	default:
		return cred{cx.token, ts, "token-itself"}
	}
}

// ---- steps -------------------------------------------------------------------------------------

func classifyVerr(e string) int {
	switch {
	case strings.Contains(e, "token in login doesn't match"):
		return 1
	case strings.Contains(e, "token in heartbeat doesn't match"):
		return 2
	case strings.Contains(e, "token in NewWorkConn doesn't match"):
		return 3
	case strings.Contains(e, "invalid OIDC token in login"):
		return 4
	case strings.Contains(e, "invalid OIDC token in ping"):
		return 5
	case strings.Contains(e, "received different OIDC subject"):
		return 6
	}
	return 9
}

func (cx *caseCtx) begin() int {
	cx.tStart = append(cx.tStart, time.Now())
	return len(cx.tStart) - 1
}

func (cx *caseCtx) stepLogin(internal bool, good bool, rid string, alwaysPass bool, pool int, specType string) {
	cx.stepLoginCred(internal, cx.makeCred(good), rid, alwaysPass, pool, specType)
}

func (cx *caseCtx) stepLoginCred(internal bool, cr cred, rid string, alwaysPass bool, pool int, specType string) {
	now := cx.begin()
	connID := cx.nconn
	conn, err := cx.dial(internal)
	if err != nil {
		cx.fail("dial", "dial failed: "+err.Error())
		return
	}
	user := ""
	if cx.g.Chance(0.3) {
		user = "u" + fmt.Sprint(cx.g.Intn(3))
	}
	lm := &msg.Login{Version: "0.61.0", Hostname: "h", Os: "linux", Arch: "amd64", User: user, PrivilegeKey: cr.key,
		Timestamp: cr.ts, RunID: rid, PoolCount: pool, Metas: map[string]string{},
		ClientSpec: msg.ClientSpec{Type: specType, AlwaysAuthPass: alwaysPass}}
	lterm := func(key string, ts int64, usr string) string {
		return fmt.Sprintf("(c4L %s %s %s %s %s %s %s)", hx.HxS(rid), cx.keyTerm(key), hx.Z(ts), hx.HxS(usr), hx.Z(int64(pool)), hx.HxS(specType), hx.Bool(alwaysPass))
	}
	plugTerm := "AuLPlugSame"
	if cx.plug != nil {
		r := cx.g.Intn(100)
		if f, ok := map[string]int{"same": 0, "user": 30, "goodkey": 45, "badkey": 60, "reject": 80}[cx.forceLP]; ok {
			r = f
		}
		cx.forceLP = ""
		switch {
		case r < 30:
			cx.plug.setLogin(plugBehaviour{kind: "same"})
		case r < 45: // only the identity changes
			cx.plug.setLogin(plugBehaviour{kind: "rewrite", setUser: true, user: "plug-user"})
			plugTerm = "(AuLPlugRewrite " + lterm(cr.key, cr.ts, "plug-user") + ")"
		case r < 60: // the plugin supplies a valid credential
			c2 := cx.makeCred(true)
			cx.plug.setLogin(plugBehaviour{kind: "rewrite", setKey: true, key: c2.key, ts: c2.ts, setUser: true, user: "brokered"})
			plugTerm = "(AuLPlugRewrite " + lterm(c2.key, c2.ts, "brokered") + ")"
		case r < 80: // the plugin replaces the credential by an invalid one
			c2 := cx.makeCred(false)
			cx.plug.setLogin(plugBehaviour{kind: "rewrite", setKey: true, key: c2.key, ts: c2.ts})
			plugTerm = "(AuLPlugRewrite " + lterm(c2.key, c2.ts, user) + ")"
		default:
			cx.plug.setLogin(plugBehaviour{kind: "reject"})
			plugTerm = "AuLPlugReject"
		}
	}
	evf := func(gen string) string {
		return fmt.Sprintf("AuEFirst %s %d %d %s (AuFLogin %s %s)", hx.Bool(internal), connID, now, hx.HxS(gen), lterm(cr.key, cr.ts, user), plugTerm)
	}
	kind := "login"
	if internal {
		kind = "login-internal"
	}
	if alwaysPass {
		kind += "+passflag"
	}
	if err := msg.WriteMsg(conn, lm); err != nil {
		cx.fail("login-write", "cannot write Login: "+err.Error())
		conn.Close()
		return
	}
	_ = conn.SetReadDeadline(time.Now().Add(5 * time.Second))
	var resp msg.LoginResp
	if err := msg.ReadMsgInto(conn, &resp); err != nil {
		cx.fail("login-noresp", "no LoginResp: "+err.Error())
		conn.Close()
		cx.emit(kind, evf(""), 99, "")
		return
	}
	_ = conn.SetReadDeadline(time.Time{})
	if resp.Error != "" {
		if !hx.ConnClosedWithin(conn, 2*time.Second) {
			cx.fail("refused-login-left-open", "LoginResp carried an error but the connection was not closed")
		}
		conn.Close()
		cx.emit(kind+":"+cr.kind, evf(""), 10+classifyVerr(resp.Error), "")
		return
	}
	gen := ""
	if rid == "" {
		gen = resp.RunID
	}
	cx.lastLoginKey = cr.key
	var rw io.ReadWriter = conn
	if !internal {
		rw, err = netpkg.NewCryptoReadWriter(conn, []byte(cx.s.Cfg.Auth.Token))
		if err != nil {
			cx.fail("crypto", err.Error())
			return
		}
	}
	// a live session under the same run id has been replaced
	for _, p := range cx.live() {
		if p.rid == resp.RunID {
			p.dead = true
			cx.ended = append(cx.ended, p.rid)
		}
	}
	p := &peerSess{sid: len(cx.sess), rid: resp.RunID, conn: conn, rw: rw, internal: internal, pass: internal && alwaysPass,
		inbox: make(chan msg.Message, 512), closed: make(chan struct{}), proxies: map[string]bool{}}
	cx.sess = append(cx.sess, p)
	go p.reader()
	cx.emit(kind+":"+cr.kind, evf(gen), 1, resp.RunID)
}

func (cx *caseCtx) stepWorkConn(internal bool, rid string, good bool) {
	cx.stepWorkConnCred(internal, rid, cx.makeCred(good))
}

func (cx *caseCtx) stepWorkConnCred(internal bool, rid string, cr cred) {
	now := cx.begin()
	connID := cx.nconn
	conn, err := cx.dial(internal)
	if err != nil {
		cx.fail("dial", "dial failed: "+err.Error())
		return
	}
	cx.extra = append(cx.extra, conn)
	plugTerm := "AuPlugSame"
	if cx.plug != nil {
		switch r := cx.g.Intn(100); {
		case r < 35:
			cx.plug.set(plugBehaviour{kind: "same"})
		case r < 60:
			c2 := cx.makeCred(true)
			cx.plug.set(plugBehaviour{kind: "rewrite", key: c2.key, ts: c2.ts})
			plugTerm = fmt.Sprintf("(AuPlugRewrite %s %s)", cx.keyTerm(c2.key), hx.Z(c2.ts))
		case r < 85:
			c2 := cx.makeCred(false)
			cx.plug.set(plugBehaviour{kind: "rewrite", key: c2.key, ts: c2.ts})
			plugTerm = fmt.Sprintf("(AuPlugRewrite %s %s)", cx.keyTerm(c2.key), hx.Z(c2.ts))
		default:
			cx.plug.set(plugBehaviour{kind: "reject"})
			plugTerm = "AuPlugReject"
		}
	}
	ev := fmt.Sprintf("AuEFirst %s %d %d [] (AuFWorkConn %s %s %s %s)", hx.Bool(internal), connID, now, hx.HxS(rid), cx.keyTerm(cr.key), hx.Z(cr.ts), plugTerm)
	before := cx.poolTotal()
	if err := msg.WriteMsg(conn, &msg.NewWorkConn{RunID: rid, PrivilegeKey: cr.key, Timestamp: cr.ts}); err != nil {
		cx.fail("workconn-write", err.Error())
		return
	}
	type rd struct {
		m   *msg.StartWorkConn
		err error
	}
	ch := make(chan rd, 1)
	go func() {
		_ = conn.SetReadDeadline(time.Now().Add(3 * time.Second))
		var sw msg.StartWorkConn
		err := msg.ReadMsgInto(conn, &sw)
		ch <- rd{&sw, err}
	}()
	code := 98
	deadline := time.Now().Add(2500 * time.Millisecond)
loop:
	for time.Now().Before(deadline) {
		select {
		case r := <-ch:
			if r.err != nil {
				if ne, ok := r.err.(net.Error); ok && ne.Timeout() {
					break loop
				}
				code = 20 // closed without a message
			} else if r.m.Error != "" {
				code = 30 + classifyVerr(r.m.Error)
				if !hx.ConnClosedWithin(conn, 2*time.Second) {
					cx.fail("refused-workconn-left-open", "StartWorkConn carried an error but the connection was not closed")
				}
			} else {
				code = 97 // handed to a user connection: cannot happen in this driver
			}
			break loop
		default:
		}
		if cx.poolTotal() > before {
			code = 2
			break
		}
		time.Sleep(300 * time.Microsecond)
	}
	if code == 98 {
		cx.fail("workconn-limbo", "work connection neither pooled nor closed within 2.5 s")
	}
	cx.emit("workconn:"+cr.kind+":"+strings.Fields(strings.Trim(plugTerm, "()"))[0], ev, code, "")
}

func (cx *caseCtx) stepVisitor(internal bool, rid, proxy string) {
	now := cx.begin()
	connID := cx.nconn
	conn, err := cx.dial(internal)
	if err != nil {
		cx.fail("dial", err.Error())
		return
	}
	defer conn.Close()
	ts := time.Now().Unix()
	_ = msg.WriteMsg(conn, &msg.NewVisitorConn{RunID: rid, ProxyName: proxy, SignKey: ownKey("wrong-sk", ts), Timestamp: ts})
	_ = conn.SetReadDeadline(time.Now().Add(3 * time.Second))
	var resp msg.NewVisitorConnResp
	code := 98
	ok := false
	if err := msg.ReadMsgInto(conn, &resp); err != nil {
		cx.fail("visitor-noresp", "no NewVisitorConnResp: "+err.Error())
	} else if resp.Error == "" {
		code, ok = 3, true
	} else {
		if strings.Contains(resp.Error, "no client control found") {
			code = 22
		} else {
			code = 23
		}
		if !hx.ConnClosedWithin(conn, 2*time.Second) {
			cx.fail("refused-visitor-left-open", "NewVisitorConnResp carried an error but the connection was not closed")
		}
	}
	ev := fmt.Sprintf("AuEFirst %s %d %d [] (AuFVisitor %s %s)", hx.Bool(internal), connID, now, hx.HxS(rid), hx.Bool(ok))
	cx.emit("visitor", ev, code, "")
}

// messages that are neither Login, NewWorkConn nor NewVisitorConn
func otherMessages(key string, ts int64) []msg.Message {
	return []msg.Message{
		&msg.Ping{PrivilegeKey: key, Timestamp: ts},
		&msg.NewProxy{ProxyName: "first-msg-proxy", ProxyType: "tcp", RemotePort: 0},
		&msg.CloseProxy{ProxyName: "x"},
		&msg.Pong{},
		&msg.LoginResp{RunID: "abc"},
		&msg.StartWorkConn{ProxyName: "x"},
		&msg.ReqWorkConn{},
		&msg.NewProxyResp{ProxyName: "x"},
		&msg.UDPPacket{Content: "aGk="},
		&msg.NatHoleVisitor{ProxyName: "x", SignKey: key, Timestamp: ts},
		&msg.NatHoleClient{ProxyName: "x"},
		&msg.NatHoleReport{Sid: "s", Success: true},
		&msg.NewVisitorConnResp{ProxyName: "x"},
	}
}

func typeByteOf(m msg.Message) int64 {
	var b countingBuf
	_ = msg.WriteMsg(&b, m)
	if len(b.b) == 0 {
		return -1
	}
	return int64(b.b[0])
}

type countingBuf struct{ b []byte }

func (c *countingBuf) Write(p []byte) (int, error) { c.b = append(c.b, p...); return len(p), nil }

func (cx *caseCtx) stepOtherFirst(internal bool) {
	now := cx.begin()
	connID := cx.nconn
	conn, err := cx.dial(internal)
	if err != nil {
		cx.fail("dial", err.Error())
		return
	}
	defer conn.Close()
	ts := time.Now().Unix()
	ms := otherMessages(ownKey(cx.token, ts), ts)
	m := ms[cx.g.Intn(len(ms))]
	_ = msg.WriteMsg(conn, m)
	code := 24
	// nothing may come back and the connection must be closed
	_ = conn.SetReadDeadline(time.Now().Add(3 * time.Second))
	buf := make([]byte, 64)
	n, err := conn.Read(buf)
	if n > 0 {
		code = 96
		cx.fail("other-first-answered", fmt.Sprintf("first message of type %T was answered with %d bytes", m, n))
	} else if ne, ok := err.(net.Error); ok && ne.Timeout() {
		code = 95
		cx.fail("other-first-left-open", fmt.Sprintf("connection opened with a %T was not closed", m))
	}
	ev := fmt.Sprintf("AuEFirst %s %d %d [] (AuFOther %d)", hx.Bool(internal), connID, now, typeByteOf(m))
	cx.emit(fmt.Sprintf("other-first:%T", m), ev, code, "")
}

func isBarrier(m msg.Message) bool {
	r, ok := m.(*msg.NewProxyResp)
	return ok && r.ProxyName == "zz-barrier"
}

// barrier: the dispatcher handles messages of one session in order; an invalid NewProxy is answered
// without any state change, so its reply proves that everything sent before has been handled.
func (cx *caseCtx) barrier(p *peerSess) bool {
	if err := msg.WriteMsg(p.rw, &msg.NewProxy{ProxyName: "zz-barrier", ProxyType: "bogus-type"}); err != nil {
		return false
	}
	_, ok := p.wait(3*time.Second, isBarrier)
	return ok
}

// deadSession: a message on the connection of a session the server has dropped
func (cx *caseCtx) deadCode(p *peerSess) int {
	select {
	case <-p.closed:
		return 7
	case <-time.After(2 * time.Second):
		cx.fail("dropped-session-conn-open", "control connection of a replaced/closed session still open")
		return 94
	}
}

func (cx *caseCtx) stepPing(p *peerSess, good bool) { cx.stepPingCred(p, cx.makeCred(good)) }

func (cx *caseCtx) stepPingCred(p *peerSess, cr cred) {
	now := cx.begin()
	ev := fmt.Sprintf("AuELater %d %d (AuLPing %s %s)", p.sid, now, cx.keyTerm(cr.key), hx.Z(cr.ts))
	if p.dead {
		cx.emit("ping-dead", ev, cx.deadCode(p), p.rid)
		return
	}
	code := 98
	if err := msg.WriteMsg(p.rw, &msg.Ping{PrivilegeKey: cr.key, Timestamp: cr.ts}); err == nil {
		if m, ok := p.wait(3*time.Second, func(m msg.Message) bool { _, ok := m.(*msg.Pong); return ok }); ok {
			if e := m.(*msg.Pong).Error; e == "" {
				code = 4
			} else {
				code = 40 + classifyVerr(e)
			}
		}
	}
	if code == 98 {
		cx.fail("ping-unanswered", "live session did not answer a Ping")
	}
	cx.emit("ping:"+cr.kind, ev, code, p.rid)
}

func (cx *caseCtx) stepNewProxy(p *peerSess, name, typ string) {
	now := cx.begin()
	cfgOK := typ != "bogus"
	mk := func(runOK bool) string {
		return fmt.Sprintf("AuELater %d %d (AuLNewProxy %s %s %s)", p.sid, now, hx.HxS(name), hx.Bool(cfgOK), hx.Bool(runOK))
	}
	if p.dead {
		cx.emit("newproxy-dead", mk(true), cx.deadCode(p), p.rid)
		return
	}
	np := &msg.NewProxy{ProxyName: name, ProxyType: typ}
	if typ == "stcp" {
		np.Sk = "sk"
	}
	code, runOK := 98, true
	if err := msg.WriteMsg(p.rw, np); err == nil {
		if m, ok := p.wait(3*time.Second, func(m msg.Message) bool { r, ok := m.(*msg.NewProxyResp); return ok && r.ProxyName == name }); ok {
			e := m.(*msg.NewProxyResp).Error
			switch {
			case e == "":
				code = 5
				p.proxies[name] = true
			case strings.Contains(e, "already exists"):
				code = 52
			case !cfgOK:
				code = 51
			default:
				code, runOK = 53, false
			}
		}
	}
	if code == 98 {
		cx.fail("newproxy-unanswered", "live session did not answer a NewProxy")
	}
	cx.emit("newproxy:"+typ, mk(runOK), code, p.rid)
}

func (cx *caseCtx) stepCloseProxy(p *peerSess, name string) {
	now := cx.begin()
	ev := fmt.Sprintf("AuELater %d %d (AuLCloseProxy %s)", p.sid, now, hx.HxS(name))
	if p.dead {
		cx.emit("closeproxy-dead", ev, cx.deadCode(p), p.rid)
		return
	}
	code := 6
	if err := msg.WriteMsg(p.rw, &msg.CloseProxy{ProxyName: name}); err != nil || !cx.barrier(p) {
		code = 98
		cx.fail("closeproxy-barrier", "session stopped answering after CloseProxy")
	}
	delete(p.proxies, name)
	cx.emit("closeproxy", ev, code, p.rid)
}

func (cx *caseCtx) stepLaterOther(p *peerSess) {
	now := cx.begin()
	ts := time.Now().Unix()
	k := ownKey(cx.token, ts)
	ms := []msg.Message{
		&msg.Login{PrivilegeKey: k, Timestamp: ts, RunID: "later-login", ClientSpec: msg.ClientSpec{AlwaysAuthPass: true}},
		&msg.NewWorkConn{RunID: p.rid, PrivilegeKey: k, Timestamp: ts},
		&msg.NewVisitorConn{ProxyName: "x"},
		&msg.Pong{}, &msg.LoginResp{}, &msg.StartWorkConn{}, &msg.ReqWorkConn{}, &msg.NewProxyResp{},
	}
	m := ms[cx.g.Intn(len(ms))]
	ev := fmt.Sprintf("AuELater %d %d (AuLOther %d)", p.sid, now, typeByteOf(m))
	if p.dead {
		cx.emit("later-other-dead", ev, cx.deadCode(p), p.rid)
		return
	}
	code := 6
	if err := msg.WriteMsg(p.rw, m); err != nil || !cx.barrier(p) {
		code = 98
		cx.fail("later-other-barrier", fmt.Sprintf("session stopped answering after a %T on the control channel", m))
	}
	cx.emit(fmt.Sprintf("later-other:%T", m), ev, code, p.rid)
}

func (cx *caseCtx) stepClose(p *peerSess) {
	cx.begin()
	ev := fmt.Sprintf("AuEClose %d", p.sid)
	if p.dead {
		p.conn.Close()
		cx.emit("close-dead", ev, 7, p.rid)
		return
	}
	p.conn.Close()
	code := 98
	for i := 0; i < 3000; i++ {
		if !cx.hasRID(p.rid) {
			code = 8
			break
		}
		time.Sleep(time.Millisecond)
	}
	if code == 98 {
		cx.fail("close-session-stays", "session still in the table 3 s after its control connection was closed")
	}
	p.dead = true
	cx.ended = append(cx.ended, p.rid)
	cx.emit("close", ev, code, p.rid)
}

// ---- case generation ----------------------------------------------------------------------------

func (cx *caseCtx) pickRID(forWork bool) string {
	lv := cx.live()
	r := cx.g.Intn(100)
	switch {
	case r < 60 && len(lv) > 0:
		return lv[cx.g.Intn(len(lv))].rid
	case r < 75 && len(cx.ended) > 0:
		return cx.ended[cx.g.Intn(len(cx.ended))]
	case r < 90:
		return fmt.Sprintf("unknown-%d", cx.g.Intn(1000))
	case r < 95 && forWork:
		return ""
	default:
		if len(lv) > 0 { // near miss of a live run id
			return lv[0].rid + "x"
		}
		return "nobody"
	}
}

func (cx *caseCtx) anySession() *peerSess {
	if len(cx.sess) == 0 {
		return nil
	}
	lv := cx.live()
	if len(lv) > 0 && cx.g.Chance(0.9) {
		return lv[cx.g.Intn(len(lv))]
	}
	return cx.sess[cx.g.Intn(len(cx.sess))]
}

func (cx *caseCtx) randomStep(pBad float64) {
	internal := cx.g.Chance(0.2)
	good := !cx.g.Chance(pBad)
	r := cx.g.Intn(100)
	p := cx.anySession()
	switch {
	case r < 22 || p == nil && r < 50:
		rid := ""
		switch x := cx.g.Intn(10); {
		case x < 2:
			rid = fmt.Sprintf("c%d-r%d", cx.idx, cx.g.Intn(4))
		case x < 4 && len(cx.live()) > 0:
			rid = cx.live()[cx.g.Intn(len(cx.live()))].rid
		}
		pool := []int{0, 0, 1, 2, 5, 7, 100, -1, -50}[cx.g.Intn(9)]
		st := ""
		if cx.g.Chance(0.3) {
			st = "ssh-tunnel"
		}
		cx.stepLogin(internal, good, rid, cx.g.Chance(0.4), pool, st)
	case r < 42:
		cx.stepWorkConn(internal, cx.pickRID(true), good)
	case r < 47:
		name := "nope"
		if cx.g.Chance(0.5) {
			for _, q := range cx.live() {
				for n := range q.proxies {
					name = n
				}
			}
		}
		cx.stepVisitor(internal, cx.pickRID(false), name)
	case r < 55:
		cx.stepOtherFirst(internal)
	case p == nil:
		cx.stepOtherFirst(internal)
	case r < 72:
		cx.stepPing(p, good)
	case r < 84:
		name := fmt.Sprintf("c%d-p%d", cx.idx, cx.g.Intn(5))
		typ := []string{"tcp", "stcp", "stcp", "bogus"}[cx.g.Intn(4)]
		cx.stepNewProxy(p, name, typ)
	case r < 89:
		cx.stepCloseProxy(p, fmt.Sprintf("c%d-p%d", cx.idx, cx.g.Intn(5)))
	case r < 95:
		cx.stepLaterOther(p)
	default:
		cx.stepClose(p)
	}
}

func scopeTerm(s string) string {
	if s == "HeartBeats" {
		return "AuScHeartBeats"
	}
	return "AuScNewWorkConns"
}

func (cx *caseCtx) keyTerm(k string) string {
	if _, ok := cx.shortSub[k]; ok {
		return hx.HxS(k)
	}
	if cx.oidc != nil {
		if n, ok := cx.oidc.names[k]; ok {
			return n
		}
	}
	return hx.HxS(k)
}

func runCase(seed int64, idx int, addr string, sc scenario, ow *oidcWorld) (string, []map[string]any, map[string]int, [2]int, error) {
	g := hx.NewGen(seed*1000003 + int64(idx))
	cx := &caseCtx{g: g, idx: idx, sc: sc, token: hx.DefaultToken, hashTS: map[int64]bool{}, oidcKey: map[string]bool{}, dist: map[string]int{},
		shortSub: map[string]string{}, shortUntil: map[string]int{}}
	if sc.method == "oidc" {
		cx.oidc = ow
	}
	il := netpkg.NewInternalListener()
	cx.il = il
	if sc.plugin {
		ps, perr := newPlugStub(addr)
		if perr != nil {
			return "", nil, nil, [2]int{}, fmt.Errorf("plugin stub could not start: %v", perr)
		}
		cx.plug = ps
		defer cx.plug.close()
	}
	mutate := func(c *v1.ServerConfig) {
		for _, x := range sc.scopes {
			c.Auth.AdditionalScopes = append(c.Auth.AdditionalScopes, v1.AuthScope(x))
		}
		if sc.emptyTok {
			c.Auth.Token = ""
			cx.token = ""
		}
		if sc.method == "oidc" {
			c.Auth.Method = v1.AuthMethodOIDC
			c.Auth.Token = ""
			c.Auth.OIDC.Issuer = ow.issuer
			c.Auth.OIDC.Audience = ""
			cx.token = ""
		}
		configureTransport(c, addr, sc.transport)
		if cx.plug != nil {
			c.HTTPPlugins = []v1.HTTPPluginOptions{{Name: "c04-stub", Addr: cx.plug.addr, Path: "/handler", Ops: []string{"Login", "NewWorkConn"}}}
		}
	}
	// the bind port is probed and then bound (hx.FreePort): another check running at the same time may take it in between
	var s *hx.Server
	var err error
	for attempt := 0; attempt < 4; attempt++ {
		s, err = hx.StartServer(addr, mutate)
		if err == nil {
			break
		}
		if s != nil {
			s.Close()
		}
		time.Sleep(time.Duration(20*(attempt+1)) * time.Millisecond)
	}
	if err != nil {
		return "", nil, nil, [2]int{}, err
	}
	cx.s = s
	go s.Svc.HandleListener(il, true)
	defer func() {
		for _, p := range cx.sess {
			p.conn.Close()
		}
		for _, c := range cx.extra {
			c.Close()
		}
		il.Close()
		s.Close()
	}()

	cx.dist["case-transport:"+sc.transport]++
	cx.dist["case-method:"+sc.method]++
	if sc.expiry {
		cx.dist["case-scenario:oidc-expiry"]++
	}
	if sc.plugin {
		cx.dist["case-scenario:workconn-plugin"]++
	}
	if sc.emptyTok {
		cx.dist["case-scenario:empty-token"]++
	}
	nsteps := 8 + g.Intn(14)
	pBad := 0.45
	if sc.barrage {
		// one good session with a proxy, then a long run of refused attempts, then proof of life
		cx.stepLogin(false, true, "", false, 1, "")
		if len(cx.live()) == 1 {
			cx.stepNewProxy(cx.live()[0], fmt.Sprintf("c%d-keep", idx), "stcp")
			cx.stepWorkConn(false, cx.live()[0].rid, true)
		}
		for i := 0; i < 40; i++ {
			cx.randomBad()
		}
		if lv := cx.live(); len(lv) > 0 {
			cx.stepPing(lv[0], true)
			cx.stepNewProxy(lv[0], fmt.Sprintf("c%d-after", idx), "stcp")
			cx.stepWorkConn(false, lv[0].rid, true)
		} else {
			cx.fail("barrage-victim-gone", "the established session did not survive a barrage of refused attempts")
		}
	} else if sc.expiry {
		cx.expiryScenario()
		for i := 0; i < 4; i++ {
			cx.randomStep(pBad)
		}
	} else {
		for i := 0; i < nsteps; i++ {
			cx.randomStep(pBad)
		}
		if sc.plugin {
			// the Login plugin chain is consulted on the internal listener with the always-pass flag too
			cx.forceLP = "reject"
			cx.stepLogin(true, false, "", true, 1, "ssh-tunnel")
			cx.forceLP = "user"
			cx.stepLogin(cx.g.Chance(0.3), true, "", false, 1, "")
			cx.forceLP = "badkey"
			cx.stepLogin(false, true, "", false, 1, "")
			cx.forceLP = "goodkey"
			cx.stepLogin(false, false, "", false, 1, "")
			for i := 0; i < 6; i++ {
				if lv := cx.live(); len(lv) > 0 {
					cx.stepWorkConn(false, lv[cx.g.Intn(len(lv))].rid, cx.g.Chance(0.6))
				} else {
					cx.stepLogin(false, true, "", false, 2, "")
				}
			}
		}
	}

	// tables
	var ht []string
	tss := make([]int64, 0, len(cx.hashTS))
	for ts := range cx.hashTS {
		tss = append(tss, ts)
	}
	sort.Slice(tss, func(i, j int) bool { return tss[i] < tss[j] })
	for _, ts := range tss {
		ht = append(ht, fmt.Sprintf("(%s, %s)", hx.Z(ts), hx.HxS(ownKey(cx.token, ts))))
	}
	var ot []string
	if cx.oidc != nil {
		ks := make([]string, 0, len(cx.oidcKey))
		for k := range cx.oidcKey {
			ks = append(ks, k)
		}
		sort.Strings(ks)
		for _, k := range ks {
			sub, ok := cx.oidc.subject[k]
			until := 1000000
			if s2, short := cx.shortSub[k]; short {
				sub, ok = s2, true
				if u, exp := cx.shortUntil[k]; exp {
					until = u
				}
			}
			ot = append(ot, fmt.Sprintf("(%s, %s)", cx.keyTerm(k), hx.Opt(fmt.Sprintf("(%s, %d)", hx.HxS(sub), until), ok)))
		}
	}
	scs := make([]string, len(sc.scopes))
	for i, x := range sc.scopes {
		scs[i] = scopeTerm(x)
	}
	method := "AuToken"
	if sc.method == "oidc" {
		method = "AuOidc"
	}
	text := fmt.Sprintf("CAuth (c4CFG %s %s %s %d %d) %s %s %s", method, hx.HxS(cx.token), hx.List(scs),
		s.Cfg.Transport.MaxPoolCount, s.Cfg.Transport.HeartbeatTimeout, hx.List(ht), hx.List(ot), hx.List(cx.steps))
	return text, cx.fails, cx.dist, [2]int{cx.accepted, cx.refused}, nil
}

// randomBad: an attempt that must be refused (or, for later messages, must not change anything)
func (cx *caseCtx) randomBad() {
	internal := cx.g.Chance(0.15)
	switch cx.g.Intn(8) {
	case 0, 1:
		rid := ""
		if cx.g.Chance(0.5) && len(cx.live()) > 0 {
			rid = cx.live()[0].rid // try to take over the victim's run id
		}
		// from the network the flag is worthless; on the internal listener a bad key without the flag
		cx.stepLogin(internal, false, rid, !internal, cx.g.Intn(3), "ssh-tunnel")
	case 2:
		cx.stepWorkConn(internal, cx.pickRID(true), false)
	case 3:
		cx.stepWorkConn(internal, fmt.Sprintf("unknown-%d", cx.g.Intn(1000)), true)
	case 4:
		cx.stepOtherFirst(internal)
	case 5:
		cx.stepVisitor(internal, cx.pickRID(false), "nope")
	case 6:
		if lv := cx.live(); len(lv) > 0 {
			cx.stepPing(lv[0], false)
		}
	case 7:
		if len(cx.ended) > 0 {
			cx.stepWorkConn(internal, cx.ended[0], true)
		} else {
			cx.stepOtherFirst(internal)
		}
	}
}

func subsetsOfScopes() [][]string {
	return [][]string{{}, {"HeartBeats"}, {"NewWorkConns"}, {"HeartBeats", "NewWorkConns"}, {"NewWorkConns", "HeartBeats", "NewWorkConns"}}
}

func runAuth(cfg *hx.RunCfg) error {
	hx.Quiet()
	g := hx.NewGen(cfg.Seed)
	var ow *oidcWorld
	var err error
	ow, err = newOidcWorld("127.0.4.200")
	if err != nil {
		return err
	}
	defer ow.close()

	type job struct {
		idx int
		sc  scenario
	}
	jobs := make([]job, cfg.N)
	transports := availableTransports()
	for i := range jobs {
		sc := scenario{method: "token", transport: "tcp"}
		if i%3 == 2 {
			sc.method = "oidc"
		}
		sc.scopes = subsetsOfScopes()[(i/3+i)%5]
		if i%7 == 5 {
			sc.transport = transports[(i/7)%len(transports)]
		}
		sc.barrage = i%10 == 9
		sc.emptyTok = sc.method == "token" && i%8 == 1
		if !sc.barrage && i%5 == 3 {
			sc.plugin = true
			sc.scopes = [][]string{{"NewWorkConns"}, {"HeartBeats", "NewWorkConns"}, {"NewWorkConns"}, {}, {"NewWorkConns", "HeartBeats", "NewWorkConns"}}[(i/5)%5]
		}
		if sc.method == "oidc" && len(sc.scopes) > 0 && !sc.barrage && !sc.plugin && (i/3)%3 == 0 {
			sc.expiry = true
		}
		jobs[i] = job{i, sc}
	}
	_ = g
	type res struct {
		text  string
		fails []map[string]any
		dist  map[string]int
		ar    [2]int
		err   error
	}
	results := make([]res, cfg.N)
	const workers = 8
	var wg sync.WaitGroup
	ch := make(chan job)
	for w := 0; w < workers; w++ {
		wg.Add(1)
		addr := fmt.Sprintf("127.0.4.%d", 10+w)
		go func() {
			defer wg.Done()
			for j := range ch {
				t, f, d, ar, err := runCase(cfg.Seed, j.idx, addr, j.sc, ow)
				results[j.idx] = res{t, f, d, ar, err}
			}
		}()
	}
	hbCh := make(chan []map[string]any, 1)
	go func() { hbCh <- heartbeatScenario("127.0.4.30") }()
	for _, j := range jobs {
		ch <- j
	}
	close(ch)
	wg.Wait()
	hbFails := <-hbCh

	cf := &hx.CaseFile{
		Imports: "From FRP Require Import Corr.C04.\nOpen Scope Z_scope.\n" + ow.coqDefs(),
		Typ:     "case",
		Tail: "Definition M := Eval vm_compute in mismatches check_case cases.\nPrint M.\n" +
			"Definition NLOGINOK := Eval vm_compute in c04_count_code 1 cases.\nPrint NLOGINOK.\n" +
			"Definition NLOGINREFUSED := Eval vm_compute in c04_count_codes_in 10 19 cases.\nPrint NLOGINREFUSED.\n" +
			"Definition NWORKPOOLED := Eval vm_compute in c04_count_code 2 cases.\nPrint NWORKPOOLED.\n" +
			"Definition NWORKSILENT := Eval vm_compute in c04_count_code 20 cases.\nPrint NWORKSILENT.\n" +
			"Definition NWORKAUTHREFUSED := Eval vm_compute in c04_count_codes_in 30 39 cases.\nPrint NWORKAUTHREFUSED.\n" +
			"Definition NPONG := Eval vm_compute in c04_count_code 4 cases.\nPrint NPONG.\n" +
			"Definition NPONGERR := Eval vm_compute in c04_count_codes_in 40 49 cases.\nPrint NPONGERR.\n" +
			"Definition NPROXYOK := Eval vm_compute in c04_count_code 5 cases.\nPrint NPROXYOK.\n" +
			"Definition NOTHERFIRST := Eval vm_compute in c04_count_code 24 cases.\nPrint NOTHERFIRST.\n" +
			"Definition NINTERNALPASS := Eval vm_compute in c04_count_internal_pass cases.\nPrint NINTERNALPASS.\n" +
			"Definition NNETWORKCLAIM := Eval vm_compute in c04_count_network_claim cases.\nPrint NNETWORKCLAIM.\n" +
			"Definition NOIDCEXPIREDREFUSED := Eval vm_compute in c04_count_expired_refused cases.\nPrint NOIDCEXPIREDREFUSED.\n" +
			"Definition NPLUGREWRITEREFUSED := Eval vm_compute in c04_count_rewrite_refused cases.\nPrint NPLUGREWRITEREFUSED.\n" +
			"Definition NPLUGREWRITEPOOLED := Eval vm_compute in c04_count_rewrite_pooled cases.\nPrint NPLUGREWRITEPOOLED.\n" +
			"Definition NPLUGREJECT := Eval vm_compute in c04_count_code 39 cases.\nPrint NPLUGREJECT.\n" +
			"Definition NEMPTYTOKENREFUSED := Eval vm_compute in c04_count_empty_token_refused cases.\nPrint NEMPTYTOKENREFUSED.\n" +
			"Definition NLOGINPLUGBADKEY := Eval vm_compute in c04_count_login_plugin_rewrite_refused cases.\nPrint NLOGINPLUGBADKEY.\n" +
			"Definition NLOGINPLUGOK := Eval vm_compute in c04_count_login_plugin_rewrite_ok cases.\nPrint NLOGINPLUGOK.\n" +
			"Definition NLOGINPLUGREJECT := Eval vm_compute in c04_count_code 19 cases.\nPrint NLOGINPLUGREJECT.\n" +
			"Definition NINTERNALPASSPLUGREJECT := Eval vm_compute in c04_count_internal_pass_plugin_reject cases.\nPrint NINTERNALPASSPLUGREJECT.\n",
	}
	dist := map[string]int{}
	distinct := map[string]bool{}
	var fails []map[string]any
	samples := []string{}
	for i, r := range results {
		if r.err != nil {
			return fmt.Errorf("case %d: %v", i, r.err)
		}
		cf.Cases = append(cf.Cases, r.text)
		for k, v := range r.dist {
			dist[k] += v
		}
		if r.ar[0] > 0 && r.ar[1] > 0 {
			distinct[r.text] = true
		}
		fails = append(fails, r.fails...)
		if len(samples) < 3 && len(r.text) < 6000 {
			samples = append(samples, r.text)
		}
	}
	fails = append(fails, hbFails...)
	if err := cf.Write(cfg.Out); err != nil {
		return err
	}
	cfg.St["heartbeat_scenario"] = map[string]any{"ran": true, "failures": len(hbFails)}
	cfg.St["cases"] = len(cf.Cases)
	cfg.St["distinct_nontrivial"] = len(distinct)
	cfg.St["distribution"] = dist
	cfg.St["samples"] = samples
	if fails == nil {
		fails = []map[string]any{}
	}
	cfg.St["impl_failures"] = fails
	cfg.St["transports"] = transports
	if len(fails) > 0 {
		fmt.Fprintln(os.Stderr, "impl failures:", len(fails))
	}
	return nil
}

// heartbeatScenario (real seconds, runs beside the generated cases): HeartBeats scope on, heartbeat timeout 1 s.
// Session A sends only pings with a wrong key every 100 ms, session B valid ones, session C (internal listener,
// always-pass) pings without any key.  After 3.5 s A must be gone (heartbeats without a valid key do not keep a
// session alive) while B and C are still there.
func heartbeatScenario(addr string) []map[string]any {
	var fails []map[string]any
	bad := func(key, what string) {
		fails = append(fails, map[string]any{"key": key, "what": what, "case": "heartbeat scenario (timeout 1 s, HeartBeats scope on)"})
	}
	il := netpkg.NewInternalListener()
	s, err := hx.StartServer(addr, func(c *v1.ServerConfig) {
		c.Auth.AdditionalScopes = []v1.AuthScope{v1.AuthScopeHeartBeats}
		c.Transport.HeartbeatTimeout = 1
	})
	if err != nil {
		bad("hb-setup", err.Error())
		return fails
	}
	defer s.Close()
	go s.Svc.HandleListener(il, true)
	defer il.Close()
	cx := &caseCtx{g: hx.NewGen(1), sc: scenario{method: "token", transport: "tcp", scopes: []string{"HeartBeats"}}, s: s, il: il,
		token: hx.DefaultToken, hashTS: map[int64]bool{}, oidcKey: map[string]bool{}, dist: map[string]int{}}
	cx.stepLogin(false, true, "hb-a", false, 0, "")
	cx.stepLogin(false, true, "hb-b", false, 0, "")
	cx.stepLogin(true, false, "hb-c", true, 0, "ssh-tunnel")
	if len(cx.live()) != 3 {
		bad("hb-setup", "could not establish the three sessions")
		return fails
	}
	a, b, c := cx.sess[0], cx.sess[1], cx.sess[2]
	defer a.conn.Close()
	defer b.conn.Close()
	defer c.conn.Close()
	end := time.Now().Add(3500 * time.Millisecond)
	for time.Now().Before(end) {
		ts := time.Now().Unix()
		_ = msg.WriteMsg(a.rw, &msg.Ping{PrivilegeKey: ownKey(otherToken, ts), Timestamp: ts})
		_ = msg.WriteMsg(b.rw, &msg.Ping{PrivilegeKey: ownKey(hx.DefaultToken, ts), Timestamp: ts})
		_ = msg.WriteMsg(c.rw, &msg.Ping{})
		time.Sleep(100 * time.Millisecond)
	}
	if cx.hasRID("hb-a") {
		bad("invalid-pings-kept-session-alive", "a session sending only heartbeats with a wrong key was still alive 3.5 s after login with heartbeatTimeout = 1 s")
	}
	if !cx.hasRID("hb-b") {
		bad("valid-pings-did-not-keep-alive", "a session sending valid heartbeats every 100 ms was torn down")
	}
	if !cx.hasRID("hb-c") {
		bad("always-pass-pings-did-not-keep-alive", "an always-pass (internal) session sending heartbeats was torn down")
	}
	return fails
}

// expiryScenario: an OIDC token is presented while valid (ping, work connection) and the SAME raw token is
// presented again after it expired; the verifier must be consulted every time, so the replays are refused.
func (cx *caseCtx) expiryScenario() {
	cx.stepLogin(false, true, "", false, 1, "")
	lv := cx.live()
	if len(lv) == 0 {
		return
	}
	p := lv[0]
	// whose subject? the login used one of alice/bob/carol; use the same subject so that continuity holds
	sub := cx.oidc.subject[cx.lastLoginKey]
	exp := time.Now().Unix() + 2
	tok := cx.oidc.mint(sub, exp)
	cx.shortSub[tok] = sub
	cx.oidcKey[tok] = true
	c := cred{key: tok, ts: 0, kind: "jwt-short"}
	cx.stepPingCred(p, c)
	cx.stepWorkConnCred(false, p.rid, c)
	if !time.Now().Before(time.Unix(exp, 0).Add(-300 * time.Millisecond)) {
		// too slow: the token may have expired during the "valid" uses; make the case say nothing about expiry
		cx.fail("expiry-scenario-too-slow", "the valid uses of the short-lived token did not finish 300 ms before its expiry")
		return
	}
	time.Sleep(time.Until(time.Unix(exp, 0).Add(400 * time.Millisecond)))
	cx.shortUntil[tok] = len(cx.tStart) // the next step is the first one at which the token is invalid
	c.kind = "jwt-short-expired"
	cx.stepPingCred(p, c)
	cx.stepWorkConnCred(false, p.rid, c)
	cx.stepLoginCred(false, c, "", false, 0, "")
	cx.stepPingCred(p, c)
}
