(* C04 correspondence: observed behaviour of an in-process frps (real server.Service, scripted peers)
   against Model/Auth.v, step by step, plus property monitors evaluated on the observed trace alone. *)
From FRP Require Export Corr.Common Model.Auth Model.SshGate.
Open Scope Z_scope.

(* ---- observation classes (what the scripted peer and the verif accessor saw) ------------------
   1 LoginResp ok | 2 work connection pooled | 3 NewVisitorConnResp ok | 4 Pong ok | 5 NewProxyResp ok
   6 no reply, session still answers | 7 no such session | 8 session gone after close | 9 sweep done
   1x LoginResp{Error} + close (x = error text class; 19: refused by the Login plugin chain) | 20 closed silently (unknown run id / pool full)
   22/23 NewVisitorConnResp{Error} + close | 24 closed silently (first message of another type)
   3x StartWorkConn{Error} + close (39: refused by the plugin chain) | 4x Pong{Error} | 51/52/53 NewProxyResp{Error} *)
Definition c04_verr_code (e : au_verr) : Z :=
  match e with
  | AuErrTokenLogin => 1 | AuErrTokenPing => 2 | AuErrTokenWork => 3
  | AuErrOidcLogin => 4 | AuErrOidcInvalid => 5 | AuErrOidcSubject => 6
  end.

Definition c04_out_code (o : au_out) : Z :=
  match o with
  | AuOLoginOk _ _ => 1
  | AuOWorkPooled => 2
  | AuOVisitorOk => 3
  | AuOPong => 4
  | AuOProxyOk => 5
  | AuONone => 6
  | AuONoSession => 7
  | AuOClosed => 8
  | AuOChecked => 9
  | AuORefused (AuRLogin e) => 10 + c04_verr_code e
  | AuORefused AuRLoginPlugin => 19
  | AuORefused AuRWorkUnknownRun => 20
  | AuORefused AuRWorkPoolFull => 20
  | AuORefused AuRVisitorUnknownRun => 22
  | AuORefused AuRVisitorRefused => 23
  | AuORefused AuRFirstType => 24
  | AuORefused (AuRWorkAuth e) => 30 + c04_verr_code e
  | AuORefused AuRWorkPlugin => 39
  | AuOPongErr e => 40 + c04_verr_code e
  | AuOProxyErrCfg => 51 | AuOProxyErrExists => 52 | AuOProxyErrRun => 53
  end.

Definition c04_refusal_code (z : Z) : bool :=
  (10 <=? z) && negb (z =? 0).

(* one session as seen through server.VerifC04Sessions *)
Record c04_osess := {
  os_rid : bytes; os_pool : Z; os_proxies : list bytes; os_last_ping : Z; os_pass : bool;
  os_user : bytes     (* ctl.loginMsg.User: the identity the rest of the server sees *)
}.

(* server state snapshot after a step: sessions (sorted by run id), proxy.Manager names, OIDC subjects *)
Record c04_snap := { sn_sessions : list c04_osess; sn_pxys : list bytes; sn_subjects : list bytes }.

Record c04_step := { cs_event : au_event; cs_code : Z; cs_rid : bytes (* run id in LoginResp *); cs_snap : c04_snap }.

(* short constructors for the case files *)
Definition c4L rid key ts user pool ty pass : au_login :=
  {| al_rid := rid; al_key := key; al_ts := ts; al_user := user; al_pool := pool;
     al_spec := {| asp_type := ty; asp_always_pass := pass |} |}.
Definition c4OS rid pool proxies lp pass user : c04_osess :=
  {| os_rid := rid; os_pool := pool; os_proxies := proxies; os_last_ping := lp; os_pass := pass; os_user := user |}.
Definition c4SN ss px sub : c04_snap := {| sn_sessions := ss; sn_pxys := px; sn_subjects := sub |}.
Definition c4ST ev code rid sn : c04_step := {| cs_event := ev; cs_code := code; cs_rid := rid; cs_snap := sn |}.
Definition c4CFG m token scopes maxpool hb : au_cfg :=
  {| ac_method := m; ac_token := token; ac_scopes := scopes; ac_max_pool := maxpool; ac_hb_timeout := hb |}.

(* the authentication keys of a legacy frps.ini [common] section *)
Record c04_ini := {
  ini_method : bytes;          (* authentication_method *)
  ini_token : bytes;           (* token *)
  ini_hb : bool; ini_wc : bool;  (* authenticate_heartbeats, authenticate_new_work_conns *)
  ini_issuer : bytes; ini_audience : bytes;   (* oidc_issuer, oidc_audience *)
  ini_skip_expiry : bool; ini_skip_issuer : bool   (* oidc_skip_expiry_check, oidc_skip_issuer_check *)
}.
(* v1.AuthServerConfig after loading *)
Record c04_v1auth := {
  v1_method : bytes; v1_token : bytes; v1_scopes : list au_scope;
  v1_issuer : bytes; v1_audience : bytes; v1_skip_expiry : bool; v1_skip_issuer : bool
}.
Definition c4INI m t hb wc iss aud se si : c04_ini :=
  {| ini_method := m; ini_token := t; ini_hb := hb; ini_wc := wc; ini_issuer := iss; ini_audience := aud;
     ini_skip_expiry := se; ini_skip_issuer := si |}.
Definition c4V1 m t sc iss aud se si : c04_v1auth :=
  {| v1_method := m; v1_token := t; v1_scopes := sc; v1_issuer := iss; v1_audience := aud; v1_skip_expiry := se; v1_skip_issuer := si |}.
Definition c4TF sig sub iss aud until : au_token_facts :=
  {| atf_sig_ok := sig; atf_sub := sub; atf_iss_ok := iss; atf_aud := aud; atf_valid_until := until |}.

(* every key arrives in the field of the same meaning (method defaults to "token") *)
Definition c04_ini_expected (i : c04_ini) : c04_v1auth :=
  {| v1_method := match ini_method i with [] => hx "746f6b656e" | m => m end;
     v1_token := ini_token i;
     v1_scopes := (if ini_hb i then [AuScHeartBeats] else []) ++ (if ini_wc i then [AuScNewWorkConns] else []);
     v1_issuer := ini_issuer i; v1_audience := ini_audience i;
     v1_skip_expiry := ini_skip_expiry i; v1_skip_issuer := ini_skip_issuer i |}.

Fixpoint c04_scopes_eqb (a b : list au_scope) : bool :=
  match a, b with
  | [], [] => true
  | x :: a', y :: b' => au_scope_eqb x y && c04_scopes_eqb a' b'
  | _, _ => false
  end.
Definition c04_v1_eqb (a b : c04_v1auth) : bool :=
  bytes_eqb (v1_method a) (v1_method b) && bytes_eqb (v1_token a) (v1_token b) && c04_scopes_eqb (v1_scopes a) (v1_scopes b) &&
  bytes_eqb (v1_issuer a) (v1_issuer b) && bytes_eqb (v1_audience a) (v1_audience b) &&
  Bool.eqb (v1_skip_expiry a) (v1_skip_expiry b) && Bool.eqb (v1_skip_issuer a) (v1_skip_issuer b).
Definition c04_policy_of (v : c04_v1auth) : au_oidc_policy :=
  {| aop_audience := v1_audience v; aop_skip_expiry := v1_skip_expiry v; aop_skip_issuer := v1_skip_issuer v |}.

Inductive case :=
| CAuth (cfg : au_cfg) (hash_tab : list (Z * bytes)) (oidc_tab : list (bytes * option (bytes * Z))) (steps : list c04_step)
(* one ssh connection to the tunnel gateway of a fresh frps (driver sshgw): configuration of authorized_keys, the ssh
   authentication attempts the peer makes in order, --token / --user of the command line, the virtual client's login
   timestamp and pool count (oracles), and what was seen: ssh handshake accepted, session in the table, proxy
   registered, that session's always-pass flag, session table size *)
| CSsh (cfg : au_cfg) (hash_tab : list (Z * bytes)) (keys : sg_keys) (attempts : list sg_attempt)
       (cmd_token cmd_user : bytes) (ts pool : Z) (lplug : au_lplug) (ssh_ok session proxy pass : bool) (nsessions : Z)
       (user : bytes)   (* ctl.loginMsg.User of the session, [] if none *)
(* authentication settings given as a legacy frps.ini and as the equivalent toml, both loaded by the real
   config.LoadServerConfig, and — for OIDC — what a frps started from the ini-loaded configuration did with tokens whose
   properties the harness knows by construction (driver ini) *)
| CIni (ini : c04_ini) (from_ini from_toml : c04_v1auth) (tokens : list (au_token_facts * bool)).

(* ---- oracles from tables ------------------------------------------------------------------------ *)

Fixpoint c04_hash_lookup (ts : Z) (t : list (Z * bytes)) : option bytes :=
  match t with
  | [] => None
  | (z, k) :: r => if z =? ts then Some k else c04_hash_lookup ts r
  end.

(* OIDC oracle table: token -> None (never valid) | Some (subject, until): valid while now < until (the harness
   mints short-lived tokens and knows at which step they stop being valid) *)
Fixpoint c04_oidc_lookup (k : bytes) (t : list (bytes * option (bytes * Z))) : option (option (bytes * Z)) :=
  match t with
  | [] => None
  | (k', v) :: r => if bytes_eqb k' k then Some v else c04_oidc_lookup k r
  end.

(* H: md5 of (token, ts) as computed by the harness's own md5 (not frp's GetAuthKey); the table holds the
   configured token only.  The 1-byte answer for a missing entry cannot equal a 32-character key and
   [c04_tables_complete] makes the case fail when an entry is missing. *)
Definition c04_H (cfg : au_cfg) (t : list (Z * bytes)) (token : bytes) (ts : Z) : bytes :=
  if bytes_eqb token (ac_token cfg) then
    match c04_hash_lookup ts t with Some k => k | None => [x00] end
  else [x01].

Definition c04_oidc (t : list (bytes * option (bytes * Z))) (k : bytes) (now : Z) : option bytes :=
  match c04_oidc_lookup k t with
  | Some (Some (sub, until)) => if now <? until then Some sub else None
  | _ => None
  end.

Definition c04_event_keys (e : au_event) : list (bytes * Z) :=
  match e with
  | AuEFirst _ _ _ _ (AuFLogin l (AuLPlugRewrite l')) => [(al_key l, al_ts l); (al_key l', al_ts l')]
  | AuEFirst _ _ _ _ (AuFLogin l _) => [(al_key l, al_ts l)]
  | AuEFirst _ _ _ _ (AuFWorkConn _ k ts (AuPlugRewrite k' ts')) => [(k, ts); (k', ts')]
  | AuEFirst _ _ _ _ (AuFWorkConn _ k ts _) => [(k, ts)]
  | AuELater _ _ (AuLPing k ts) => [(k, ts)]
  | _ => []
  end.

Definition c04_tables_complete (cfg : au_cfg) (ht : list (Z * bytes)) (ot : list (bytes * option (bytes * Z)))
  (steps : list c04_step) : bool :=
  forallb (fun st =>
    forallb (fun kt : bytes * Z =>
        match ac_method cfg with
        | AuToken => match c04_hash_lookup (snd kt) ht with Some _ => true | None => false end
        | AuOidc => match c04_oidc_lookup (fst kt) ot with Some _ => true | None => false end
        end) (c04_event_keys (cs_event st))) steps.

(* ---- comparison of the model state with a snapshot ------------------------------------------------ *)

Fixpoint c04_bytes_list_eqb (a b : list bytes) : bool :=
  match a, b with
  | [], [] => true
  | x :: a', y :: b' => bytes_eqb x y && c04_bytes_list_eqb a' b'
  | _, _ => false
  end.

Definition c04_subset (a b : list bytes) : bool := forallb (fun x => au_mem x b) a.
Definition c04_same_set (a b : list bytes) : bool :=
  Nat.eqb (length a) (length b) && c04_subset a b && c04_subset b a.

Definition c04_sess_matches (x : au_session) (o : c04_osess) : bool :=
  bytes_eqb (as_rid x) (os_rid o) &&
  (Z.of_nat (length (as_pool x)) =? os_pool o) &&
  c04_same_set (as_proxies x) (os_proxies o) &&
  (as_last_ping x =? os_last_ping o) &&
  Bool.eqb (au_verifier_eqb (as_verifier x) AuAlwaysPass) (os_pass o) &&
  bytes_eqb (al_user (as_login x)) (os_user o).

Definition c04_sessions_match (s : au_state) (sn : c04_snap) : bool :=
  Nat.eqb (length (at_sessions s)) (length (sn_sessions sn)) &&
  forallb (fun o => match au_find_rid (os_rid o) (at_sessions s) with
                    | Some x => c04_sess_matches x o
                    | None => false
                    end) (sn_sessions sn).

Definition c04_pxys_match (s : au_state) (sn : c04_snap) : bool :=
  c04_same_set (map fst (at_pxys s)) (sn_pxys sn).

Definition c04_subjects_match (cfg : au_cfg) (s : au_state) (sn : c04_snap) : bool :=
  match ac_method cfg with
  | AuToken => true
  | AuOidc => c04_bytes_list_eqb (at_subjects s) (sn_subjects sn)    (* append order is deterministic *)
  end.

(* full codes: 100*(step index+1) + reason; reasons: 1 reply class differs | 2 session table differs | 3 proxy table
   differs | 4 OIDC subject list differs | 5 run id in LoginResp differs *)
Fixpoint c04_walk (cfg : au_cfg) (H : bytes -> Z -> bytes) (oi : bytes -> Z -> option bytes)
  (s : au_state) (i : Z) (steps : list c04_step) : Z :=
  match steps with
  | [] => 0
  | st :: r =>
      let '(s', o) := au_step H oi cfg s (cs_event st) in
      if negb (c04_out_code o =? cs_code st) then 100 * (i + 1) + 1
      else if negb (match o with AuOLoginOk rid _ => bytes_eqb rid (cs_rid st) | _ => true end) then 100 * (i + 1) + 5
      else if negb (c04_sessions_match s' (cs_snap st)) then 100 * (i + 1) + 2
      else if negb (c04_pxys_match s' (cs_snap st)) then 100 * (i + 1) + 3
      else if negb (c04_subjects_match cfg s' (cs_snap st)) then 100 * (i + 1) + 4
      else c04_walk cfg H oi s' (i + 1) r
  end.

(* ---- property monitors on the observed trace alone (no model state involved) ------------------------ *)

Definition c04_osess_eqb (a b : c04_osess) : bool :=
  bytes_eqb (os_rid a) (os_rid b) && (os_pool a =? os_pool b) &&
  c04_bytes_list_eqb (os_proxies a) (os_proxies b) && (os_last_ping a =? os_last_ping b) &&
  Bool.eqb (os_pass a) (os_pass b) && bytes_eqb (os_user a) (os_user b).

Fixpoint c04_osess_list_eqb (a b : list c04_osess) : bool :=
  match a, b with
  | [], [] => true
  | x :: a', y :: b' => c04_osess_eqb x y && c04_osess_list_eqb a' b'
  | _, _ => false
  end.

Definition c04_snap_eqb (a b : c04_snap) : bool :=
  c04_osess_list_eqb (sn_sessions a) (sn_sessions b) && c04_bytes_list_eqb (sn_pxys a) (sn_pxys b) &&
  c04_bytes_list_eqb (sn_subjects a) (sn_subjects b).

Definition c04_empty_snap : c04_snap := {| sn_sessions := []; sn_pxys := []; sn_subjects := [] |}.

Definition c04_has_rid (rid : bytes) (sn : c04_snap) : bool :=
  existsb (fun o => bytes_eqb (os_rid o) rid) (sn_sessions sn).

Definition c04_find_osess (rid : bytes) (sn : c04_snap) : option c04_osess :=
  find (fun o => bytes_eqb (os_rid o) rid) (sn_sessions sn).

(* did the message carry the configured credential (token method: the key of the token for that timestamp;
   OIDC: a token the verifier maps to a subject — for ping / work connection one that logged in)? *)
Definition c04_cred_login (cfg : au_cfg) (H : bytes -> Z -> bytes) (oi : bytes -> Z -> option bytes) (now : Z) (k : bytes) (ts : Z) : bool :=
  match ac_method cfg with
  | AuToken => bytes_eqb k (H (ac_token cfg) ts)
  | AuOidc => match oi k now with Some _ => true | None => false end
  end.

Definition c04_cred_msg (cfg : au_cfg) (H : bytes -> Z -> bytes) (oi : bytes -> Z -> option bytes) (subjects : list bytes) (now : Z) (k : bytes) (ts : Z) : bool :=
  match ac_method cfg with
  | AuToken => bytes_eqb k (H (ac_token cfg) ts)
  | AuOidc => match oi k now with Some sub => au_mem sub subjects | None => false end
  end.

(* one step of the observed trace satisfies C04, given the snapshot before it.  0 = fine. *)
Definition c04_monitor_step (cfg : au_cfg) (H : bytes -> Z -> bytes) (oi : bytes -> Z -> option bytes) (before : c04_snap) (st : c04_step) : Z :=
  let after := cs_snap st in
  let code := cs_code st in
  (* M1: anything answered with a refusal leaves no trace in the server state *)
  if c04_refusal_code code && negb (c04_snap_eqb before after) then 1
  else match cs_event st with
  | AuEFirst internal _ now _ (AuFLogin l0 lplug) =>
      (* M2: a session is created only if the Login plugin chain let the login through and what it RETURNED carries the
         credential, or arrived on the internal listener with the flag *)
      if code =? 1 then
        match au_lplug_apply lplug l0 with
        | None => 8
        | Some l =>
            if negb (c04_cred_login cfg H oi now (al_key l) (al_ts l) || (internal && asp_always_pass (al_spec l))) then 2 else 0
        end
      else 0
  | AuEFirst _ _ now _ (AuFWorkConn rid k0 ts0 plug) =>
      (* M3: a work connection is pooled only for a known run id, only if the plugin chain let it through and,
         with the scope on and a session held to the configured verifier, only if what the chain RETURNED carries
         a credential that is valid now *)
      if code =? 2 then
        match c04_find_osess rid before with
        | None => 3
        | Some o =>
            match au_plug_apply plug k0 ts0 with
            | None => 7
            | Some (k, ts) =>
                if au_has_scope AuScNewWorkConns (ac_scopes cfg) && negb (os_pass o) &&
                   negb (c04_cred_msg cfg H oi (sn_subjects before) now k ts) then 4 else 0
            end
        end
      else 0
  | AuEFirst _ _ _ _ (AuFOther _) => if code =? 24 then 0 else 5     (* M4: other first messages are cut off *)
  | AuELater _ now (AuLPing k ts) =>
      (* M5: liveness refreshed (Pong without error) only with the credential when the scope is on and the
         session is held to the configured verifier (cs_rid names the session for later messages);
         a Pong with an error that refreshes anyway is caught by M1 *)
      if (code =? 4) && au_has_scope AuScHeartBeats (ac_scopes cfg) &&
         negb (c04_cred_msg cfg H oi (sn_subjects before) now k ts) then
        match c04_find_osess (cs_rid st) before with
        | Some o => if os_pass o then 0 else 6
        | None => 0
        end
      else 0
  | _ => 0
  end.

Fixpoint c04_monitor (cfg : au_cfg) (H : bytes -> Z -> bytes) (oi : bytes -> Z -> option bytes) (before : c04_snap) (i : Z) (steps : list c04_step) : Z :=
  match steps with
  | [] => 0
  | st :: r =>
      let m := c04_monitor_step cfg H oi before st in
      if negb (m =? 0) then 100 * (i + 1) + 10 + m
      else c04_monitor cfg H oi (cs_snap st) (i + 1) r
  end.

(* monitor for the ssh gateway, from the case data alone: a session (or a proxy) only for an authorised key or the right token *)
Definition c04_ssh_key_authorised (keys : sg_keys) (attempts : list sg_attempt) : bool :=
  match keys with
  | SgFile l => existsb (fun a => match a with
                                  | SgPublicKey k true => match sg_lookup k l with Some _ => true | None => false end
                                  | _ => false end) attempts
  | _ => false
  end.

Definition c04_ssh_monitor (cfg : au_cfg) (keys : sg_keys) (attempts : list sg_attempt) (cmd_token : bytes)
  (lplug : au_lplug) (session proxy : bool) (nsessions : Z) : Z :=
  if (session || proxy || (0 <? nsessions)) &&
     negb (c04_ssh_key_authorised keys attempts || bytes_eqb cmd_token (ac_token cfg)) then 18
  else if (session || proxy || (0 <? nsessions)) && match lplug with AuLPlugReject => true | _ => false end then 19
  else 0.

Definition C04_holds (c : case) : bool :=
  match c with
  | CAuth cfg ht ot steps => c04_monitor cfg (c04_H cfg ht) (c04_oidc ot) c04_empty_snap 0 steps =? 0
  | CSsh cfg _ keys attempts cmd_token _ _ _ lplug _ session proxy _ n _ =>
      c04_ssh_monitor cfg keys attempts cmd_token lplug session proxy n =? 0
  | CIni ini _ _ tokens =>
      (* a token the policy WRITTEN IN THE INI must reject is never accepted *)
      forallb (fun ta : au_token_facts * bool =>
                 negb (snd ta && au_token_unacceptable (c04_policy_of (c04_ini_expected ini)) (fst ta) 0)) tokens
  end.

(* 0 = model and implementation agree and the monitors hold; 99 = oracle tables incomplete (harness bug);
   otherwise 100*(step+1) + reason: 1..5 correspondence (see c04_walk), 11..18 monitor codes 1..8 *)
Definition check_case_full (c : case) : Z :=
  match c with
  | CAuth cfg ht ot steps =>
      if negb (c04_tables_complete cfg ht ot steps) then 99
      else
        let m := c04_monitor cfg (c04_H cfg ht) (c04_oidc ot) c04_empty_snap 0 steps in
        if negb (m =? 0) then m
        else c04_walk cfg (c04_H cfg ht) (c04_oidc ot) au_init 0 steps
  | CSsh cfg ht keys attempts cmd_token cmd_user ts pool lplug ssh_ok session proxy pass n user =>
      (* reasons: 18 monitor (session without authorised key or right token) | 19 monitor (session although the Login plugin
         rejected) | 21 ssh handshake outcome differs | 22 session / no session differs | 23 proxy registered differs |
         24 always-pass flag differs | 25 table size | 26 the session's user is not the one the plugin chain returned *)
      if negb (match c04_hash_lookup ts ht with Some _ => true | None => false end) then 99
      else
        let m := c04_ssh_monitor cfg keys attempts cmd_token lplug session proxy n in
        if negb (m =? 0) then 100 + m
        else
          let '(s', o) := sg_step (c04_H cfg ht) (fun _ _ => None) cfg keys au_init 0 0 [x67] attempts cmd_token cmd_user ts pool lplug in
          let m_ssh := match o with SgRefusedAtSsh => false | _ => true end in
          let m_sess := match o with SgForwarded (AuOLoginOk _ _) => true | _ => false end in
          if negb (Bool.eqb m_ssh ssh_ok) then 121
          else if negb (Bool.eqb m_sess session) then 122
          else if negb (Bool.eqb m_sess proxy) then 123
          else if m_sess && negb (Bool.eqb (sg_always_pass keys) pass) then 124
          else if negb (Z.of_nat (length (at_sessions s')) =? n) then 125
          else if negb (match at_sessions s' with x :: _ => bytes_eqb (al_user (as_login x)) user | [] => true end) then 126
          else 0
  | CIni ini from_ini from_toml tokens =>
      (* reasons: 31 the ini did not load into the fields its keys name | 32 the toml did not | 33 a token was treated
         differently from what the policy written in the ini says | 34 monitor: a token that policy must reject was accepted *)
      if negb (C04_holds c) then 134
      else if negb (c04_v1_eqb from_ini (c04_ini_expected ini)) then 131
      else if negb (c04_v1_eqb from_toml (c04_ini_expected ini)) then 132
      else if negb (forallb (fun ta : au_token_facts * bool =>
                      Bool.eqb (match au_oidc_policy_verify (c04_policy_of (c04_ini_expected ini)) (fst ta) 0 with Some _ => true | None => false end)
                               (snd ta)) tokens) then 133
      else 0
  end.

(* the reason alone (stable key for reports); the failing step is [check_case_full c / 100 - 1] *)
Definition check_case (c : case) : Z := check_case_full c mod 100.

(* ---- counters for the evidence: which model branches the cases reached ------------------------------ *)
Definition c04_case_codes (c : case) : list Z :=
  match c with CAuth _ _ _ steps => map cs_code steps | _ => [] end.
Definition c04_count_code (z : Z) (l : list case) : Z :=
  fold_left (fun acc c => acc + count_if (fun x => x =? z) (c04_case_codes c)) l 0.
Definition c04_count_codes_in (lo hi : Z) (l : list case) : Z :=
  fold_left (fun acc c => acc + count_if (fun x => (lo <=? x) && (x <=? hi)) (c04_case_codes c)) l 0.
Definition c04_count_internal_pass (l : list case) : Z :=
  fold_left (fun acc c => match c with CSsh _ _ _ _ _ _ _ _ _ _ _ _ _ _ _ => acc | CIni _ _ _ _ => acc | CAuth _ _ _ steps =>
     acc + count_if (fun st => match cs_event st with
                               | AuEFirst true _ _ _ (AuFLogin lg _) => asp_always_pass (al_spec lg) && (cs_code st =? 1)
                               | _ => false end) steps end) l 0.
Definition c04_count_network_claim (l : list case) : Z :=
  fold_left (fun acc c => match c with CSsh _ _ _ _ _ _ _ _ _ _ _ _ _ _ _ => acc | CIni _ _ _ _ => acc | CAuth _ _ _ steps =>
     acc + count_if (fun st => match cs_event st with
                               | AuEFirst false _ _ _ (AuFLogin lg _) => asp_always_pass (al_spec lg) && negb (cs_code st =? 1)
                               | _ => false end) steps end) l 0.

(* a token that WAS valid (table entry with a subject) presented at or after the step it stopped being valid,
   and refused (login 14, work connection 35, ping 45) *)
Definition c04_count_expired_refused (l : list case) : Z :=
  fold_left (fun acc c => match c with CSsh _ _ _ _ _ _ _ _ _ _ _ _ _ _ _ => acc | CIni _ _ _ _ => acc | CAuth cfg _ ot steps =>
     match ac_method cfg with
     | AuToken => acc
     | AuOidc =>
       acc + count_if (fun st =>
         existsb (fun kt : bytes * Z =>
            match c04_oidc_lookup (fst kt) ot, cs_event st with
            | Some (Some (_, until)), AuEFirst _ _ now _ _ | Some (Some (_, until)), AuELater _ now _ =>
                (until <=? now) && ((cs_code st =? 14) || (cs_code st =? 35) || (cs_code st =? 45))
            | _, _ => false
            end) (c04_event_keys (cs_event st))) steps
     end end) l 0.

Definition c04_is_rewrite (e : au_event) : bool :=
  match e with AuEFirst _ _ _ _ (AuFWorkConn _ _ _ (AuPlugRewrite _ _)) => true | _ => false end.
Definition c04_count_rewrite_refused (l : list case) : Z :=
  fold_left (fun acc c => match c with CSsh _ _ _ _ _ _ _ _ _ _ _ _ _ _ _ => acc | CIni _ _ _ _ => acc | CAuth _ _ _ steps =>
     acc + count_if (fun st => c04_is_rewrite (cs_event st) && (30 <=? cs_code st) && (cs_code st <=? 38)) steps end) l 0.
Definition c04_count_rewrite_pooled (l : list case) : Z :=
  fold_left (fun acc c => match c with CSsh _ _ _ _ _ _ _ _ _ _ _ _ _ _ _ => acc | CIni _ _ _ _ => acc | CAuth _ _ _ steps =>
     acc + count_if (fun st => c04_is_rewrite (cs_event st) && (cs_code st =? 2)) steps end) l 0.

(* ---- ssh gateway counters --------------------------------------------------------------------------------- *)
Definition c04_ssh_count (p : sg_keys -> list sg_attempt -> bytes -> au_cfg -> bool -> bool -> bool) (l : list case) : Z :=
  count_if (fun c => match c with
                     | CSsh cfg _ keys attempts tok _ _ _ _ ssh_ok session _ _ _ _ => p keys attempts tok cfg ssh_ok session
                     | _ => false end) l.
Definition c04_starts_with_publickey (a : list sg_attempt) : bool :=
  match a with SgPublicKey _ _ :: _ => true | _ => false end.
(* the attack of the batch-3 seed: no keys file, straight to publickey, wrong/no token -> must not get a session *)
Definition c04_ssh_attack_refused := c04_ssh_count (fun keys a tok cfg ssh_ok session =>
  sg_no_client_auth keys && c04_starts_with_publickey a && negb (bytes_eqb tok (ac_token cfg)) && negb session).
Definition c04_ssh_session_by_key := c04_ssh_count (fun keys a tok cfg ssh_ok session =>
  session && c04_ssh_key_authorised keys a && negb (bytes_eqb tok (ac_token cfg))).
Definition c04_ssh_session_by_token := c04_ssh_count (fun keys a tok cfg ssh_ok session =>
  session && sg_no_client_auth keys && bytes_eqb tok (ac_token cfg)).
Definition c04_ssh_refused_at_ssh := c04_ssh_count (fun keys a tok cfg ssh_ok session => negb ssh_ok).
Definition c04_ssh_refused_at_login := c04_ssh_count (fun keys a tok cfg ssh_ok session => ssh_ok && negb session).

(* cases whose configured token is empty (token method) and in which a login with a non-matching key was refused *)
Definition c04_count_empty_token_refused (l : list case) : Z :=
  fold_left (fun acc c => match c with
     | CAuth cfg _ _ steps =>
         match ac_method cfg, ac_token cfg with
         | AuToken, [] => acc + count_if (fun st => (cs_code st =? 11) || (cs_code st =? 33) || (cs_code st =? 42)) steps
         | _, _ => acc
         end
     | _ => acc end) l 0.

(* gateway sessions refused because the Login plugin rejected although the ssh key was authorised *)
Definition c04_ssh_plugin_refused (l : list case) : Z :=
  count_if (fun c => match c with
                     | CSsh _ _ keys attempts _ _ _ _ AuLPlugReject ssh_ok session _ _ _ _ =>
                         ssh_ok && negb session && c04_ssh_key_authorised keys attempts
                     | _ => false end) l.
Definition c04_ssh_plugin_user (l : list case) : Z :=
  count_if (fun c => match c with
                     | CSsh _ _ _ _ _ _ _ _ (AuLPlugRewrite _) _ session _ _ _ _ => session
                     | _ => false end) l.
(* ini driver *)
Definition c04_ini_cases (l : list case) : Z := count_if (fun c => match c with CIni _ _ _ _ => true | _ => false end) l.
Definition c04_ini_unacceptable_refused (l : list case) : Z :=
  fold_left (fun acc c => match c with
     | CIni ini _ _ toks => acc + count_if (fun ta : au_token_facts * bool =>
          negb (snd ta) && au_token_unacceptable (c04_policy_of (c04_ini_expected ini)) (fst ta) 0) toks
     | _ => acc end) l 0.
Definition c04_ini_waived_accepted (l : list case) : Z :=
  fold_left (fun acc c => match c with
     | CIni ini _ _ toks => acc + count_if (fun ta : au_token_facts * bool =>
          snd ta && (negb (atf_iss_ok (fst ta)) || (atf_valid_until (fst ta) <=? 0))) toks
     | _ => acc end) l 0.
Definition c04_count_login_plugin_rewrite_refused (l : list case) : Z :=
  fold_left (fun acc c => match c with
     | CAuth _ _ _ steps => acc + count_if (fun st => match cs_event st with
            | AuEFirst _ _ _ _ (AuFLogin _ (AuLPlugRewrite _)) => (10 <=? cs_code st) && (cs_code st <=? 18)
            | _ => false end) steps
     | _ => acc end) l 0.
Definition c04_count_login_plugin_rewrite_ok (l : list case) : Z :=
  fold_left (fun acc c => match c with
     | CAuth _ _ _ steps => acc + count_if (fun st => match cs_event st with
            | AuEFirst _ _ _ _ (AuFLogin _ (AuLPlugRewrite _)) => cs_code st =? 1
            | _ => false end) steps
     | _ => acc end) l 0.
Definition c04_count_internal_pass_plugin_reject (l : list case) : Z :=
  fold_left (fun acc c => match c with
     | CAuth _ _ _ steps => acc + count_if (fun st => match cs_event st with
            | AuEFirst true _ _ _ (AuFLogin lg AuLPlugReject) => asp_always_pass (al_spec lg) && (cs_code st =? 19)
            | _ => false end) steps
     | _ => acc end) l 0.
