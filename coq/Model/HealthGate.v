(* C19 — composition of Model/Health.v and Model/Wrapper.v: a health-checked wrapper together with
   the monitor NewWrapper creates for it.  Model only, no proofs.  Prefix hg_.

   The monitor's callbacks are the wrapper's statusNormalCallback / statusFailedCallback
   (NewWrapper passes exactly these two), so a probe step feeds the emitted events into the wrapper
   as PWHealth 0 / PWHealth 1.  The wake-up the callbacks send is not part of the step: whether the
   worker takes it at once or at its next interval is a later HGTick; theorems hold for every
   interleaving of probes and wrapper operations. *)
From Coq Require Import List ZArith Bool.
From FRP Require Import Model.Health Model.Wrapper.
Import ListNotations.
Open Scope Z_scope.

Record hg_state := {
  hg_m : hm_state;
  hg_w : pw_state;
  hg_hist : list bool         (* ghost: doCheck error of every probe processed so far, oldest first *)
}.

Definition hg_init : hg_state := {| hg_m := hm_init; hg_w := pw_init true; hg_hist := [] |}.

Inductive hg_op :=
| HGProbe (p : hm_probe)                            (* one iteration of Monitor.checkWorker *)
| HGTick (now : Z)                                  (* one iteration of Wrapper.checkWorker *)
| HGResp (now : Z) (resp_err run_ok : bool)
| HGWork
| HGStop.

Definition hg_callback (w : pw_state) (e : hm_event) : pw_state :=
  fst (pw_step {| pw_wait := 0; pw_errto := 0 |} w (PWHealth (match e with HMNormal => 0 | HMFailed => 1 end))).

Definition hg_wop (o : hg_op) : option pw_op :=
  match o with
  | HGProbe _ => None
  | HGTick now => Some (PWTick now)
  | HGResp now e r => Some (PWResp now e r)
  | HGWork => Some PWWork
  | HGStop => Some PWStop
  end.

Definition hg_step (k : hm_kind) (c : hm_cfg) (t : pw_timing) (s : hg_state) (o : hg_op)
  : hg_state * list pw_out :=
  match o with
  | HGProbe p =>
      let '(m', evs) := hm_step k c (hg_m s) p in
      ({| hg_m := m'; hg_w := fold_left hg_callback evs (hg_w s); hg_hist := hg_hist s ++ [hm_probe_err k p] |}, [])
  | _ =>
      match hg_wop o with
      | Some wo => let '(w', outs) := pw_step t (hg_w s) wo in
                   ({| hg_m := hg_m s; hg_w := w'; hg_hist := hg_hist s |}, outs)
      | None => (s, [])
      end
  end.

(* per step: state before, op, outputs *)
Fixpoint hg_run (k : hm_kind) (c : hm_cfg) (t : pw_timing) (s : hg_state) (ops : list hg_op)
  : hg_state * list (hg_state * hg_op * list pw_out) :=
  match ops with
  | [] => (s, [])
  | o :: r =>
      let '(s1, out) := hg_step k c t s o in
      let '(s2, tr) := hg_run k c t s1 r in
      (s2, (s, o, out) :: tr)
  end.
