package main

// t5w: the facts property C05 needs about what is handed to which cipher -> coq/gen/GenWire.v
//
//	(a) pkg/auth/token.go: assignments of SetLogin / SetPing / SetNewWorkConn to message fields
//	(b) server/control.go, client/control.go: NewCryptoReadWriter(conn, key) + NewDispatcher(...) and guard
//	(c) every libio.WithEncryption(rwc, key) call site under server/ and client/: guard and key
//	    (+ the key argument of every call of a function whose key is a parameter)
//	(d) pkg/config/v1/proxy.go: the assignments of every MarshalToMsg method
//	(e) every composite literal / field assignment of a msg.* value under client/ and server/, and
//	    the message type of every msg.WriteMsg(conn, m) call
//	(f) pkg/util/net/tls.go: FRPTLSHeadByte and the case conditions of the first-byte switch
//
// Expressions are classified syntactically (types of Model/WireTypes.v); anything that mentions
// a secret-bearing identifier in a form not recognised becomes XUnknown, any guard not recognised
// becomes GUnknown: the reflective checkers of Model/Wire.v return false on them.

import (
	"bytes"
	"fmt"
	"go/ast"
	"go/parser"
	"go/printer"
	"go/token"
	"os"
	"path/filepath"
	"sort"
	"strconv"
	"strings"

	"veriftranslator/tx"
)

func main() { tx.Main(tx.Unit{Name: "T5W", File: "GenWire.v", Fn: gen}) }

var fset = token.NewFileSet()

func text(e ast.Node) string {
	var b bytes.Buffer
	_ = printer.Fprint(&b, fset, e)
	s := strings.Join(strings.Fields(b.String()), " ")
	if len(s) > 120 {
		s = s[:120]
	}
	return s
}

var secretNames = map[string]string{
	"Token": "KTok", "token": "KTok",
	"SecretKey": "KSk", "Secretkey": "KSk", "secretKey": "KSk", "sk": "KSk", "Sk": "KSk",
	"HTTPPassword": "KPwd", "HTTPPwd": "KPwd", "httpPassword": "KPwd", "Password": "KPwd", "password": "KPwd",
}

func lastName(e ast.Expr) string {
	switch x := e.(type) {
	case *ast.Ident:
		return x.Name
	case *ast.SelectorExpr:
		return x.Sel.Name
	case *ast.ParenExpr:
		return lastName(x.X)
	}
	return ""
}

func mentionsSecret(e ast.Node) bool {
	found := false
	ast.Inspect(e, func(n ast.Node) bool {
		if id, ok := n.(*ast.Ident); ok {
			if _, ok := secretNames[id.Name]; ok {
				found = true
			}
		}
		return !found
	})
	return found
}

func isSel(e ast.Expr, pkg, name string) bool {
	s, ok := e.(*ast.SelectorExpr)
	if !ok || s.Sel.Name != name {
		return false
	}
	id, ok := s.X.(*ast.Ident)
	return ok && id.Name == pkg
}

// stripBytes removes a []byte(...) conversion
func stripBytes(e ast.Expr) ast.Expr {
	if c, ok := e.(*ast.CallExpr); ok && len(c.Args) == 1 {
		if at, ok := c.Fun.(*ast.ArrayType); ok && at.Len == nil {
			if id, ok := at.Elt.(*ast.Ident); ok && id.Name == "byte" {
				return c.Args[0]
			}
		}
	}
	return e
}

// classify renders a Go expression as a wexpr; params = []byte / string parameters of the enclosing function
func classify(e ast.Expr, params map[string]bool) string {
	e = stripBytes(e)
	if p, ok := e.(*ast.ParenExpr); ok {
		return classify(p.X, params)
	}
	if c, ok := e.(*ast.CallExpr); ok {
		if isSel(c.Fun, "util", "GetAuthKey") && len(c.Args) == 2 {
			if k, ok := secretNames[lastName(c.Args[0])]; ok && !mentionsSecret(c.Args[1]) {
				switch c.Args[0].(type) {
				case *ast.Ident, *ast.SelectorExpr:
					return "(XAuthKey " + k + ")"
				}
			}
			return "(XUnknown " + tx.CoqString(text(e)) + ")"
		}
		// time.Now().Unix()
		if s, ok := c.Fun.(*ast.SelectorExpr); ok && s.Sel.Name == "Unix" && len(c.Args) == 0 {
			if c2, ok := s.X.(*ast.CallExpr); ok && isSel(c2.Fun, "time", "Now") {
				return "XTimeNow"
			}
		}
	}
	switch x := e.(type) {
	case *ast.Ident:
		if params[x.Name] {
			return "(XParam " + tx.CoqString(x.Name) + ")"
		}
		if k, ok := secretNames[x.Name]; ok {
			return "(XSecret " + k + ")"
		}
	case *ast.SelectorExpr:
		if k, ok := secretNames[x.Sel.Name]; ok {
			return "(XSecret " + k + ")"
		}
	}
	if mentionsSecret(e) {
		return "(XUnknown " + tx.CoqString(text(e)) + ")"
	}
	return "(XOther " + tx.CoqString(text(e)) + ")"
}

func classifyGuard(e ast.Expr) string {
	if p, ok := e.(*ast.ParenExpr); ok {
		return classifyGuard(p.X)
	}
	switch e.(type) {
	case *ast.Ident, *ast.SelectorExpr:
		switch lastName(e) {
		case "UseEncryption", "useEncryption":
			return "GUseEnc"
		case "UseCompression", "useCompression":
			return "GUseComp"
		case "ConnEncrypted", "ctlConnEncrypted", "connEncrypted":
			return "GConnEnc"
		}
	}
	return "(GUnknown " + tx.CoqString(text(e)) + ")"
}

type pending struct {
	fi fileInfo
	fd *ast.FuncDecl
}

type fileInfo struct {
	rel string
	f   *ast.File
}

func parseDir(rel string, out *[]fileInfo) error {
	root := filepath.Join(tx.Repo, rel)
	return filepath.Walk(root, func(p string, info os.FileInfo, err error) error {
		if err != nil {
			return err
		}
		if info.IsDir() || !strings.HasSuffix(p, ".go") || strings.HasSuffix(p, "_test.go") || strings.HasSuffix(p, "_verif.go") {
			return nil
		}
		f, err := parser.ParseFile(fset, p, nil, 0)
		if err != nil {
			return err
		}
		r, _ := filepath.Rel(tx.Repo, p)
		*out = append(*out, fileInfo{filepath.ToSlash(r), f})
		return nil
	})
}

func parseOne(rel string) (*ast.File, error) {
	return parser.ParseFile(fset, filepath.Join(tx.Repo, rel), nil, 0)
}

// msgType returns T for msg.T, *msg.T, &msg.T{...}, msg.T{...}
func msgType(e ast.Expr) (string, bool) {
	switch x := e.(type) {
	case *ast.StarExpr:
		return msgType(x.X)
	case *ast.UnaryExpr:
		if x.Op == token.AND {
			return msgType(x.X)
		}
	case *ast.CompositeLit:
		return msgType(x.Type)
	case *ast.SelectorExpr:
		if id, ok := x.X.(*ast.Ident); ok && id.Name == "msg" {
			return x.Sel.Name, true
		}
	}
	return "", false
}

func funcParams(fd *ast.FuncDecl) map[string]bool {
	ps := map[string]bool{}
	if fd.Type.Params == nil {
		return ps
	}
	for _, fl := range fd.Type.Params.List {
		t := text(fl.Type)
		if t == "[]byte" || t == "string" {
			for _, n := range fl.Names {
				ps[n.Name] = true
			}
		}
	}
	return ps
}

// msgVars maps identifiers of fd bound to a message value to their message type
func msgVars(fd *ast.FuncDecl) map[string]string {
	m := map[string]string{}
	if fd.Type.Params != nil {
		for _, fl := range fd.Type.Params.List {
			if t, ok := msgType(fl.Type); ok {
				for _, n := range fl.Names {
					m[n.Name] = t
				}
			}
		}
	}
	if fd.Body == nil {
		return m
	}
	ast.Inspect(fd.Body, func(n ast.Node) bool {
		switch x := n.(type) {
		case *ast.AssignStmt:
			if len(x.Lhs) == len(x.Rhs) {
				for i := range x.Lhs {
					if id, ok := x.Lhs[i].(*ast.Ident); ok {
						if _, isLit := stripAddr(x.Rhs[i]).(*ast.CompositeLit); isLit {
							if t, ok := msgType(x.Rhs[i]); ok {
								m[id.Name] = t
							}
						}
					}
				}
			}
		case *ast.ValueSpec:
			if x.Type != nil {
				if t, ok := msgType(x.Type); ok {
					for _, n := range x.Names {
						m[n.Name] = t
					}
				}
			}
		case *ast.FuncLit:
			if x.Type.Params != nil {
				for _, fl := range x.Type.Params.List {
					if t, ok := msgType(fl.Type); ok {
						for _, n := range fl.Names {
							m[n.Name] = t
						}
					}
				}
			}
		}
		return true
	})
	return m
}

func stripAddr(e ast.Expr) ast.Expr {
	if u, ok := e.(*ast.UnaryExpr); ok && u.Op == token.AND {
		return u.X
	}
	return e
}

// innermostIf returns the innermost IfStmt whose Body (resp. Else) contains pos
func innermostIf(root ast.Node, pos token.Pos) (cond ast.Expr, inElse bool, found bool) {
	ast.Inspect(root, func(n ast.Node) bool {
		is, ok := n.(*ast.IfStmt)
		if !ok {
			return true
		}
		if is.Body.Pos() <= pos && pos < is.Body.End() {
			cond, inElse, found = is.Cond, false, true
		} else if is.Else != nil && is.Else.Pos() <= pos && pos < is.Else.End() {
			if _, chained := is.Else.(*ast.IfStmt); !chained {
				cond, inElse, found = is.Cond, true, true
			}
		}
		return true
	})
	return
}

func q(s string) string { return tx.CoqString(s) }

func gen() ([]byte, error) {
	var b bytes.Buffer
	b.WriteString("(* GENERATED by translator unit t5w -- do not edit *)\n")
	b.WriteString("From FRP Require Import Model.WireTypes.\nLocal Open Scope string_scope.\n")
	b.WriteString("Definition T5W_translated : bool := true.\n")

	// (f) head byte and the switch of CheckAndEnableTLSServerConnWithTimeout
	tf, err := parseOne("pkg/util/net/tls.go")
	if err != nil {
		return nil, err
	}
	head := int64(-1)
	var sniffCases []string
	for _, d := range tf.Decls {
		switch x := d.(type) {
		case *ast.GenDecl:
			for _, s := range x.Specs {
				if vs, ok := s.(*ast.ValueSpec); ok {
					for i, n := range vs.Names {
						if n.Name == "FRPTLSHeadByte" && i < len(vs.Values) {
							if bl, ok := vs.Values[i].(*ast.BasicLit); ok {
								if v, err := strconv.ParseInt(bl.Value, 0, 32); err == nil {
									head = v
								}
							}
						}
					}
				}
			}
		case *ast.FuncDecl:
			if x.Name.Name != "CheckAndEnableTLSServerConnWithTimeout" || x.Body == nil {
				continue
			}
			ast.Inspect(x.Body, func(n ast.Node) bool {
				sw, ok := n.(*ast.SwitchStmt)
				if !ok || sw.Tag != nil {
					return true
				}
				for _, c := range sw.Body.List {
					cc := c.(*ast.CaseClause)
					cond := "default"
					if len(cc.List) == 1 {
						cond = text(cc.List[0])
					} else if len(cc.List) > 1 {
						cond = "multi"
					}
					var body bytes.Buffer
					for _, st := range cc.Body {
						body.WriteString(text(st))
						body.WriteString("; ")
					}
					sniffCases = append(sniffCases, fmt.Sprintf("(%s, %s)", q(cond), q(body.String())))
				}
				return false
			})
		}
	}
	fmt.Fprintf(&b, "Definition frp_tls_head_byte : Z := %d%%Z.\n", head)
	fmt.Fprintf(&b, "Definition sniff_shape_today : sniff_shape := %s.\n", sniffShape(tf))
	fmt.Fprintf(&b, "Definition sniff_cases : list (string * string) := [\n  %s\n].\n", strings.Join(sniffCases, ";\n  "))

	// (a) auth setters
	af, err := parseOne("pkg/auth/token.go")
	if err != nil {
		return nil, err
	}
	var auth []string
	seenSetter := map[string]bool{}
	for _, d := range af.Decls {
		fd, ok := d.(*ast.FuncDecl)
		if !ok || fd.Body == nil || !strings.HasPrefix(fd.Name.Name, "Set") {
			continue
		}
		seenSetter[fd.Name.Name] = true
		mv := msgVars(fd)
		ast.Inspect(fd.Body, func(n ast.Node) bool {
			as, ok := n.(*ast.AssignStmt)
			if !ok {
				return true
			}
			for i, l := range as.Lhs {
				se, ok := l.(*ast.SelectorExpr)
				if !ok {
					continue
				}
				id, ok := se.X.(*ast.Ident)
				if !ok {
					continue
				}
				if _, isMsg := mv[id.Name]; !isMsg {
					continue
				}
				rhs := "(XUnknown \"tuple assignment\")"
				if len(as.Lhs) == len(as.Rhs) {
					rhs = classify(as.Rhs[i], nil)
				}
				auth = append(auth, fmt.Sprintf("mk_auth_set %s %s %s", q(fd.Name.Name), q(se.Sel.Name), rhs))
			}
			return true
		})
	}
	for _, need := range []string{"SetLogin", "SetPing", "SetNewWorkConn"} {
		if !seenSetter[need] {
			auth = append(auth, fmt.Sprintf("mk_auth_set %s \"?\" (XUnknown \"setter not found\")", q(need)))
		}
	}
	writeList(&b, "auth_sets", "auth_set", auth)

	// files of client/ and server/
	var files []fileInfo
	if err := parseDir("client", &files); err != nil {
		return nil, err
	}
	if err := parseDir("server", &files); err != nil {
		return nil, err
	}
	sort.Slice(files, func(i, j int) bool { return files[i].rel < files[j].rel })

	var ctl, enc, calls, lits, writes []string
	// functions whose cipher key is a parameter
	keyParamFuncs := map[string]bool{}
	var fds []pending
	for _, fi := range files {
		for _, d := range fi.f.Decls {
			if fd, ok := d.(*ast.FuncDecl); ok && fd.Body != nil {
				fds = append(fds, pending{fi, fd})
			}
		}
	}
	for _, p := range fds {
		fi, fd := p.fi, p.fd
		params := funcParams(fd)
		mv := msgVars(fd)
		ast.Inspect(fd.Body, func(n ast.Node) bool {
			switch x := n.(type) {
			case *ast.CallExpr:
				switch {
				case isSel(x.Fun, "libio", "WithEncryption") && len(x.Args) == 2:
					guard := "GAlways"
					if cond, inElse, ok := innermostIf(fd.Body, x.Pos()); ok {
						if inElse {
							guard = "(GUnknown " + q("else of "+text(cond)) + ")"
						} else if isErrCheck(cond) {
							guard = "(GUnknown " + q(text(cond)) + ")"
						} else {
							guard = classifyGuard(cond)
						}
					}
					key := classify(x.Args[1], params)
					if strings.HasPrefix(key, "(XParam") {
						keyParamFuncs[fd.Name.Name] = true
					}
					enc = append(enc, fmt.Sprintf("mk_enc_site %s %s %s %s %s", q(fi.rel), q(fd.Name.Name), guard, key, q(text(x.Args[0]))))
				case isSel(x.Fun, "netpkg", "NewCryptoReadWriter") && len(x.Args) == 2:
					ctl = append(ctl, ctlSite(fi.rel, fd, x, params))
				case isSel(x.Fun, "msg", "WriteMsg") && len(x.Args) == 2:
					typ := "Message"
					if t, ok := msgType(x.Args[1]); ok {
						typ = t
					} else if id, ok := x.Args[1].(*ast.Ident); ok {
						if t, ok := mv[id.Name]; ok {
							typ = t
						}
					} else if u, ok := x.Args[1].(*ast.UnaryExpr); ok && u.Op == token.AND {
						if id, ok := u.X.(*ast.Ident); ok {
							if t, ok := mv[id.Name]; ok {
								typ = t
							}
						} else {
							typ = "?" + text(x.Args[1])
						}
					} else {
						typ = "?" + text(x.Args[1])
					}
					writes = append(writes, fmt.Sprintf("mk_clear_write %s %s %s %s", q(fi.rel), q(fd.Name.Name), q(text(x.Args[0])), q(typ)))
				}
			case *ast.CompositeLit:
				if t, ok := msgType(x.Type); ok {
					var fs []string
					for _, el := range x.Elts {
						if kv, ok := el.(*ast.KeyValueExpr); ok {
							fs = append(fs, fmt.Sprintf("(%s, %s)", q(text(kv.Key)), classify(kv.Value, nil)))
						} else {
							fs = append(fs, fmt.Sprintf("(\"?\", (XUnknown %s))", q("positional "+text(el))))
						}
					}
					lits = append(lits, fmt.Sprintf("mk_msg_lit %s %s %s [%s]", q(fi.rel), q(fd.Name.Name), q(t), strings.Join(fs, "; ")))
				}
			case *ast.AssignStmt:
				for i, l := range x.Lhs {
					// x.F = e  and  x.F[k] = e (a map-typed field such as Metas)
					if ix, ok := l.(*ast.IndexExpr); ok {
						l = ix.X
					}
					se, ok := l.(*ast.SelectorExpr)
					if !ok {
						continue
					}
					id, ok := se.X.(*ast.Ident)
					if !ok {
						continue
					}
					t, isMsg := mv[id.Name]
					if !isMsg {
						continue
					}
					rhs := "(XUnknown \"tuple assignment\")"
					if len(x.Lhs) == len(x.Rhs) {
						rhs = classify(x.Rhs[i], nil)
					} else if len(x.Rhs) == 1 {
						// x.F, err = f(...): the field receives (a component of) the call's result
						rhs = classify(x.Rhs[0], nil)
					}
					lits = append(lits, fmt.Sprintf("mk_msg_lit %s %s %s [(%s, %s)]", q(fi.rel), q(fd.Name.Name+":assign"), q(t), q(se.Sel.Name), rhs))
				}
			}
			return true
		})
	}
	// calls of functions whose key is a parameter: the last argument is the key
	for _, p := range fds {
		fi, fd := p.fi, p.fd
		params := funcParams(fd)
		ast.Inspect(fd.Body, func(n ast.Node) bool {
			c, ok := n.(*ast.CallExpr)
			if !ok {
				return true
			}
			name := lastName(c.Fun)
			if keyParamFuncs[name] && len(c.Args) > 0 {
				calls = append(calls, fmt.Sprintf("mk_call_key %s %s %s %s", q(fi.rel), q(fd.Name.Name), q(name), classify(c.Args[len(c.Args)-1], params)))
			}
			return true
		})
	}
	writeList(&b, "ctl_sites", "ctl_site", ctl)
	writeList(&b, "enc_sites", "enc_site", enc)
	writeList(&b, "call_keys", "call_key", calls)
	writeList(&b, "msg_lits", "msg_lit", lits)
	writeList(&b, "clear_writes", "clear_write", writes)

	// (d) MarshalToMsg flows
	pf, err := parseOne("pkg/config/v1/proxy.go")
	if err != nil {
		return nil, err
	}
	var flows []string
	for _, d := range pf.Decls {
		fd, ok := d.(*ast.FuncDecl)
		if !ok || fd.Name.Name != "MarshalToMsg" || fd.Recv == nil || fd.Body == nil {
			continue
		}
		recvT := strings.TrimPrefix(text(fd.Recv.List[0].Type), "*")
		mname := ""
		if fd.Type.Params != nil && len(fd.Type.Params.List) == 1 && len(fd.Type.Params.List[0].Names) == 1 {
			mname = fd.Type.Params.List[0].Names[0].Name
		}
		for _, st := range fd.Body.List {
			flows = append(flows, marshalStmt(recvT, mname, st)...)
		}
	}
	writeList(&b, "marshal_flows", "marshal_flow", flows)

	// (h) the force flag handed to the first-byte sniff, and the HandleListener call sites
	var sniffSites, lcalls []string
	for _, p := range fds {
		fi, fd := p.fi, p.fd
		if !strings.HasPrefix(fi.rel, "server/") {
			continue
		}
		ast.Inspect(fd.Body, func(n ast.Node) bool {
			c, ok := n.(*ast.CallExpr)
			if !ok {
				return true
			}
			if isSel(c.Fun, "netpkg", "CheckAndEnableTLSServerConnWithTimeout") && len(c.Args) == 4 {
				guard := "SgNone"
				if cond, inElse, ok := innermostIf(fd.Body, c.Pos()); ok {
					guard = "(SgUnknown " + q(text(cond)) + ")"
					if u, isU := cond.(*ast.UnaryExpr); isU && !inElse && u.Op == token.NOT && lastName(u.X) == "internal" {
						if _, isId := u.X.(*ast.Ident); isId {
							guard = "SgNotInternal"
						}
					}
				}
				sniffSites = append(sniffSites, fmt.Sprintf("mk_sniff_site %s %s %s %s", q(fi.rel), q(fd.Name.Name), guard, forceExpr(fd, c.Args[2])))
			}
			if se, ok := c.Fun.(*ast.SelectorExpr); ok && se.Sel.Name == "HandleListener" && len(c.Args) == 2 {
				lcalls = append(lcalls, fmt.Sprintf("mk_listener_call %s %s", q(text(c.Args[0])), q(text(c.Args[1]))))
			}
			return true
		})
	}
	writeList(&b, "sniff_sites", "sniff_site", sniffSites)
	writeList(&b, "listener_calls", "listener_call", lcalls)

	// (i) which *tls.Config every TLS-terminating site of the server receives
	var tlsUses []string
	originArgs := []string{}
	fieldIsOrigin := tlsFieldInit(fds)
	for _, p := range fds {
		fi, fd := p.fi, p.fd
		if !strings.HasPrefix(fi.rel, "server/") {
			continue
		}
		ast.Inspect(fd.Body, func(n ast.Node) bool {
			c, ok := n.(*ast.CallExpr)
			if !ok {
				return true
			}
			switch {
			case isSel(c.Fun, "transport", "NewServerTLSConfig"):
				for _, a := range c.Args {
					originArgs = append(originArgs, text(a))
				}
			case isSel(c.Fun, "netpkg", "CheckAndEnableTLSServerConnWithTimeout") && len(c.Args) == 4:
				tlsUses = append(tlsUses, fmt.Sprintf("mk_tls_use %s %s %s %s", q(fi.rel), q(fd.Name.Name), q("sniff"), tlsCfgExpr(fd, c.Args[1], fieldIsOrigin)))
			case isSel(c.Fun, "quic", "ListenAddr") && len(c.Args) == 3:
				tlsUses = append(tlsUses, fmt.Sprintf("mk_tls_use %s %s %s %s", q(fi.rel), q(fd.Name.Name), q("quic.ListenAddr"), tlsCfgExpr(fd, c.Args[1], fieldIsOrigin)))
			case isSel(c.Fun, "tls", "Server") || isSel(c.Fun, "tls", "NewListener") || isSel(c.Fun, "tls", "Listen"):
				cfgArg := c.Args[len(c.Args)-1]
				tlsUses = append(tlsUses, fmt.Sprintf("mk_tls_use %s %s %s %s", q(fi.rel), q(fd.Name.Name), q(text(c.Fun)), tlsCfgExpr(fd, cfgArg, fieldIsOrigin)))
			}
			return true
		})
	}
	writeList(&b, "tls_uses", "tls_use", tlsUses)
	{
		var qs []string
		for _, a := range originArgs {
			qs = append(qs, q(a))
		}
		fmt.Fprintf(&b, "Definition tls_origin_args : list string := [%s].\n", strings.Join(qs, "; "))
	}
	// inside the sniff: every tls.Server call is given the function's own tlsConfig parameter
	{
		var calls []string
		for _, d := range tf.Decls {
			fd, ok := d.(*ast.FuncDecl)
			if !ok || fd.Name.Name != "CheckAndEnableTLSServerConnWithTimeout" || fd.Body == nil {
				continue
			}
			param := "?"
			if fd.Type.Params != nil && len(fd.Type.Params.List) >= 2 && len(fd.Type.Params.List[1].Names) == 1 {
				param = fd.Type.Params.List[1].Names[0].Name
			}
			reassigned := false
			ast.Inspect(fd.Body, func(n ast.Node) bool {
				switch x := n.(type) {
				case *ast.CallExpr:
					if isSel(x.Fun, "tls", "Server") && len(x.Args) == 2 {
						same := "false"
						if id, ok := x.Args[1].(*ast.Ident); ok && id.Name == param {
							same = "true"
						}
						calls = append(calls, same)
					}
				case *ast.AssignStmt:
					for _, l := range x.Lhs {
						if strings.HasPrefix(text(l), param) {
							reassigned = true
						}
					}
				}
				return true
			})
			if reassigned {
				calls = append(calls, "false")
			}
		}
		fmt.Fprintf(&b, "Definition sniff_tls_server_calls : list bool := [%s].\n", strings.Join(calls, "; "))
	}

	// (g) shape of NewCryptoReadWriter: the cipher must be built for every key value
	cf, err := parseOne("pkg/util/net/conn.go")
	if err != nil {
		return nil, err
	}
	fmt.Fprintf(&b, "Definition crypto_rw_shape : crw_shape := %s.\n", crwShape(cf))
	return b.Bytes(), nil
}

// crwShape accepts exactly: <r> := crypto.NewReader(rw, key); <w>, err := crypto.NewWriter(rw, key);
// if err != nil { return nil, err }; return struct{...}{Reader: <r>, Writer: <w>}, nil
// (in this order of appearance, names free).  Any other statement, in particular any other return,
// gives CrwUnknown.
func crwShape(f *ast.File) string {
	unknown := func(why string) string { return "(CrwUnknown " + q(why) + ")" }
	for _, d := range f.Decls {
		fd, ok := d.(*ast.FuncDecl)
		if !ok || fd.Name.Name != "NewCryptoReadWriter" || fd.Body == nil {
			continue
		}
		if fd.Type.Params == nil || len(fd.Type.Params.List) != 2 || len(fd.Type.Params.List[0].Names) != 1 || len(fd.Type.Params.List[1].Names) != 1 {
			return unknown("parameters")
		}
		rw, key := fd.Type.Params.List[0].Names[0].Name, fd.Type.Params.List[1].Names[0].Name
		isCall := func(e ast.Expr, fn string) bool {
			c, ok := e.(*ast.CallExpr)
			if !ok || !isSel(c.Fun, "crypto", fn) || len(c.Args) != 2 {
				return false
			}
			a, ok1 := c.Args[0].(*ast.Ident)
			k, ok2 := c.Args[1].(*ast.Ident)
			return ok1 && ok2 && a.Name == rw && k.Name == key
		}
		reader, writer, errv := "", "", ""
		sawErrCheck, sawReturn := false, false
		for _, st := range fd.Body.List {
			if sawReturn {
				return unknown("statement after the final return")
			}
			switch x := st.(type) {
			case *ast.AssignStmt:
				switch {
				case len(x.Lhs) == 1 && len(x.Rhs) == 1 && isCall(x.Rhs[0], "NewReader") && reader == "":
					reader = lastName(x.Lhs[0])
				case len(x.Lhs) == 2 && len(x.Rhs) == 1 && isCall(x.Rhs[0], "NewWriter") && writer == "":
					writer, errv = lastName(x.Lhs[0]), lastName(x.Lhs[1])
				default:
					return unknown(text(st))
				}
			case *ast.IfStmt:
				// if err != nil { return nil, err }
				be, ok := x.Cond.(*ast.BinaryExpr)
				if !ok || x.Init != nil || x.Else != nil || errv == "" || lastName(be.X) != errv || be.Op != token.NEQ || lastName(be.Y) != "nil" || len(x.Body.List) != 1 {
					return unknown(text(x.Cond))
				}
				r, ok := x.Body.List[0].(*ast.ReturnStmt)
				if !ok || len(r.Results) != 2 || lastName(r.Results[0]) != "nil" || lastName(r.Results[1]) != errv {
					return unknown("return inside " + text(x.Cond))
				}
				sawErrCheck = true
			case *ast.ReturnStmt:
				if len(x.Results) != 2 || lastName(x.Results[1]) != "nil" {
					return unknown(text(st))
				}
				cl, ok := x.Results[0].(*ast.CompositeLit)
				if !ok || len(cl.Elts) != 2 {
					return unknown(text(st))
				}
				got := map[string]string{}
				for _, el := range cl.Elts {
					kv, ok := el.(*ast.KeyValueExpr)
					if !ok {
						return unknown(text(st))
					}
					got[lastName(kv.Key)] = lastName(kv.Value)
				}
				if reader == "" || writer == "" || got["Reader"] != reader || got["Writer"] != writer {
					return unknown(text(st))
				}
				sawReturn = true
			default:
				return unknown(text(st))
			}
		}
		if !sawReturn || !sawErrCheck {
			return unknown("no final return of the cipher pair")
		}
		return "CrwAlways"
	}
	return unknown("NewCryptoReadWriter not found")
}

// tlsFieldInit: the identifier the struct field tlsConfig is initialised from in a composite literal
// (function name, identifier), and whether the field is assigned anywhere else under server/.
func tlsFieldInit(fds []pending) bool {
	init := map[string]string{}
	initFd := map[string]*ast.FuncDecl{}
	other := false
	for _, p := range fds {
		if !strings.HasPrefix(p.fi.rel, "server/") {
			continue
		}
		fn := p.fd.Name.Name
		ast.Inspect(p.fd.Body, func(n ast.Node) bool {
			switch x := n.(type) {
			case *ast.KeyValueExpr:
				if k, ok := x.Key.(*ast.Ident); ok && k.Name == "tlsConfig" {
					if v, ok := x.Value.(*ast.Ident); ok {
						if _, dup := init[fn]; dup {
							other = true
						}
						init[fn] = v.Name
						initFd[fn] = p.fd
					} else {
						other = true
					}
				}
			case *ast.AssignStmt:
				for _, l := range x.Lhs {
					if se, ok := l.(*ast.SelectorExpr); ok && se.Sel.Name == "tlsConfig" {
						other = true
					}
					// a field of the shared object modified in place: svr.tlsConfig.X = ...
					if se, ok := l.(*ast.SelectorExpr); ok {
						if in, ok := se.X.(*ast.SelectorExpr); ok && in.Sel.Name == "tlsConfig" {
							other = true
						}
					}
				}
			}
			return true
		})
	}
	if other || len(init) != 1 {
		return false
	}
	for fn, id := range init {
		return isOriginIdent(initFd[fn], id)
	}
	return false
}

// singleDef returns the only definition of identifier name in fd (nil if none or several)
func singleDef(fd *ast.FuncDecl, name string) ast.Expr {
	var defs []ast.Expr
	bad := false
	ast.Inspect(fd.Body, func(n ast.Node) bool {
		if x, ok := n.(*ast.AssignStmt); ok {
			for i, l := range x.Lhs {
				if li, ok := l.(*ast.Ident); ok && li.Name == name {
					if len(x.Rhs) == 1 {
						defs = append(defs, x.Rhs[0])
					} else if len(x.Lhs) == len(x.Rhs) {
						defs = append(defs, x.Rhs[i])
					} else {
						bad = true
					}
				}
			}
		}
		return true
	})
	if bad || len(defs) != 1 {
		return nil
	}
	return defs[0]
}

// fieldsAssigned lists the fields assigned through identifier name in fd (name.F = ...), "?" for anything deeper
func fieldsAssigned(fd *ast.FuncDecl, name string) []string {
	var fs []string
	ast.Inspect(fd.Body, func(n ast.Node) bool {
		if x, ok := n.(*ast.AssignStmt); ok {
			for _, l := range x.Lhs {
				if strings.HasPrefix(text(l), name+".") {
					if se, ok := l.(*ast.SelectorExpr); ok {
						if id, ok := se.X.(*ast.Ident); ok && id.Name == name {
							fs = append(fs, se.Sel.Name)
							continue
						}
					}
					fs = append(fs, "?"+text(l))
				}
			}
		}
		return true
	})
	return fs
}

func isOriginIdent(fd *ast.FuncDecl, name string) bool {
	d := singleDef(fd, name)
	c, ok := d.(*ast.CallExpr)
	return ok && isSel(c.Fun, "transport", "NewServerTLSConfig") && len(fieldsAssigned(fd, name)) == 0
}

// tlsCfgExpr classifies the *tls.Config expression e used in fd
func tlsCfgExpr(fd *ast.FuncDecl, e ast.Expr, fieldIsOrigin bool) string {
	unknown := func() string { return "(TcUnknown " + q(text(e)) + ")" }
	switch x := e.(type) {
	case *ast.SelectorExpr:
		// <recv>.tlsConfig: the struct field, initialised once from the origin in the constructor
		if x.Sel.Name != "tlsConfig" || !fieldIsOrigin {
			return unknown()
		}
		return "TcOrigin"
	case *ast.Ident:
		if isOriginIdent(fd, x.Name) {
			return "TcOrigin"
		}
		d := singleDef(fd, x.Name)
		if c, ok := d.(*ast.CallExpr); ok && len(c.Args) == 0 {
			if se, ok := c.Fun.(*ast.SelectorExpr); ok && se.Sel.Name == "Clone" {
				if id, ok := se.X.(*ast.Ident); ok && isOriginIdent(fd, id.Name) {
					var qs []string
					for _, f := range fieldsAssigned(fd, x.Name) {
						qs = append(qs, q(f))
					}
					return "(TcClone [" + strings.Join(qs, "; ") + "])"
				}
			}
		}
		if d != nil {
			return "(TcUnknown " + q(text(d)) + ")"
		}
	}
	return unknown()
}

// sniffShape: control flow of CheckAndEnableTLSServerConnWithTimeout.  Top-level statements before the
// switch: no return and no branching except exactly "if <err> != nil { return }"; the switch is the last
// statement but the final bare return; its default clause starts with "if <3rd parameter> { ...; return }".
func sniffShape(f *ast.File) string {
	unknown := func(why string) string { return "(SsUnknown " + q(why) + ")" }
	for _, d := range f.Decls {
		fd, ok := d.(*ast.FuncDecl)
		if !ok || fd.Name.Name != "CheckAndEnableTLSServerConnWithTimeout" || fd.Body == nil {
			continue
		}
		var pnames []string
		for _, fl := range fd.Type.Params.List {
			for _, n := range fl.Names {
				pnames = append(pnames, n.Name)
			}
		}
		if len(pnames) != 4 {
			return unknown("parameters")
		}
		tlsOnly := pnames[2]
		errChecks, sawSwitch := 0, false
		for _, st := range fd.Body.List {
			if sawSwitch {
				if r, ok := st.(*ast.ReturnStmt); ok && len(r.Results) == 0 {
					continue
				}
				return unknown("after the switch: " + text(st))
			}
			switch x := st.(type) {
			case *ast.AssignStmt, *ast.ExprStmt, *ast.DeclStmt:
				hasRet := false
				ast.Inspect(st, func(n ast.Node) bool {
					switch n.(type) {
					case *ast.ReturnStmt, *ast.FuncLit:
						hasRet = true
					}
					return true
				})
				if hasRet {
					return unknown(text(st))
				}
			case *ast.IfStmt:
				be, ok := x.Cond.(*ast.BinaryExpr)
				if !ok || x.Init != nil || x.Else != nil || be.Op != token.NEQ || lastName(be.X) != "err" || lastName(be.Y) != "nil" || len(x.Body.List) != 1 {
					return unknown("before the switch: if " + text(x.Cond))
				}
				if r, ok := x.Body.List[0].(*ast.ReturnStmt); !ok || len(r.Results) != 0 {
					return unknown("before the switch: body of if " + text(x.Cond))
				}
				errChecks++
			case *ast.SwitchStmt:
				sawSwitch = true
				if x.Tag != nil || x.Init != nil {
					return unknown("switch with tag")
				}
				okDefault := false
				for _, c := range x.Body.List {
					cc := c.(*ast.CaseClause)
					if cc.List != nil {
						continue
					}
					if len(cc.Body) == 0 {
						return unknown("empty default")
					}
					is, ok := cc.Body[0].(*ast.IfStmt)
					if !ok || is.Init != nil || is.Else != nil || len(is.Body.List) == 0 {
						return unknown("default clause")
					}
					id, ok := is.Cond.(*ast.Ident)
					if !ok || id.Name != tlsOnly {
						return unknown("default clause: if " + text(is.Cond))
					}
					if r, ok := is.Body.List[len(is.Body.List)-1].(*ast.ReturnStmt); !ok || len(r.Results) != 0 {
						return unknown("default clause: no return under " + tlsOnly)
					}
					okDefault = true
				}
				if !okDefault {
					return unknown("no default clause")
				}
			default:
				return unknown("before the switch: " + text(st))
			}
		}
		if !sawSwitch || errChecks != 1 {
			return unknown(fmt.Sprintf("switch=%v err checks=%d", sawSwitch, errChecks))
		}
		return "SsOk"
	}
	return unknown("function not found")
}

// isConfigForce: <x>.cfg.Transport.TLS.Force
func isConfigForce(e ast.Expr) bool {
	names := []string{"Force", "TLS", "Transport", "cfg"}
	for _, n := range names {
		se, ok := e.(*ast.SelectorExpr)
		if !ok || se.Sel.Name != n {
			return false
		}
		e = se.X
	}
	_, ok := e.(*ast.Ident)
	return ok
}

// forceExpr resolves the tlsOnly argument: the config field itself, or a local variable assigned
// exactly once in the function, from the config field.
func forceExpr(fd *ast.FuncDecl, arg ast.Expr) string {
	if isConfigForce(arg) {
		return "FConfigForce"
	}
	id, ok := arg.(*ast.Ident)
	if !ok {
		return "(FUnknown " + q(text(arg)) + ")"
	}
	var defs []ast.Expr
	other := false
	ast.Inspect(fd.Body, func(n ast.Node) bool {
		switch x := n.(type) {
		case *ast.AssignStmt:
			for i, l := range x.Lhs {
				if li, ok := l.(*ast.Ident); ok && li.Name == id.Name {
					if len(x.Lhs) == len(x.Rhs) {
						defs = append(defs, x.Rhs[i])
					} else {
						other = true
					}
				}
			}
		case *ast.ValueSpec:
			for i, nm := range x.Names {
				if nm.Name == id.Name {
					if i < len(x.Values) {
						defs = append(defs, x.Values[i])
					} else {
						other = true
					}
				}
			}
		case *ast.IncDecStmt:
			if li, ok := x.X.(*ast.Ident); ok && li.Name == id.Name {
				other = true
			}
		case *ast.UnaryExpr:
			if li, ok := x.X.(*ast.Ident); ok && x.Op == token.AND && li.Name == id.Name {
				other = true
			}
		}
		return true
	})
	if other || len(defs) != 1 {
		return "(FUnknown " + q(fmt.Sprintf("%s assigned %d times", id.Name, len(defs))) + ")"
	}
	if isConfigForce(defs[0]) {
		return "FConfigForce"
	}
	return "(FUnknown " + q(text(defs[0])) + ")"
}

func isErrCheck(e ast.Expr) bool {
	be, ok := e.(*ast.BinaryExpr)
	if !ok {
		return false
	}
	id, ok := be.X.(*ast.Ident)
	return ok && (id.Name == "err" || id.Name == "errRet")
}

// marshalStmt: m.F = expr | if cond { m.F = expr } | c.Base.MarshalToMsg(m) (recorded as a flow "<embedded>")
func marshalStmt(recv, mname string, st ast.Stmt) []string {
	switch x := st.(type) {
	case *ast.AssignStmt:
		var out []string
		for i, l := range x.Lhs {
			se, ok := l.(*ast.SelectorExpr)
			if !ok {
				out = append(out, fmt.Sprintf("mk_marshal_flow %s \"?\" (XUnknown %s)", q(recv), q(text(st))))
				continue
			}
			if id, ok := se.X.(*ast.Ident); !ok || id.Name != mname || len(x.Lhs) != len(x.Rhs) {
				out = append(out, fmt.Sprintf("mk_marshal_flow %s \"?\" (XUnknown %s)", q(recv), q(text(st))))
				continue
			}
			out = append(out, fmt.Sprintf("mk_marshal_flow %s %s %s", q(recv), q(se.Sel.Name), classify(x.Rhs[i], nil)))
		}
		return out
	case *ast.IfStmt:
		var out []string
		if x.Init != nil || x.Else != nil || mentionsSecret(x.Cond) {
			return []string{fmt.Sprintf("mk_marshal_flow %s \"?\" (XUnknown %s)", q(recv), q(text(x.Cond)))}
		}
		for _, s := range x.Body.List {
			out = append(out, marshalStmt(recv, mname, s)...)
		}
		return out
	case *ast.ExprStmt:
		if c, ok := x.X.(*ast.CallExpr); ok && lastName(c.Fun) == "MarshalToMsg" {
			return nil // embedded base config: its own method is translated separately
		}
	}
	return []string{fmt.Sprintf("mk_marshal_flow %s \"?\" (XUnknown %s)", q(recv), q(text(st)))}
}

// ctlSite: cryptoRW, err := netpkg.NewCryptoReadWriter(conn, key) inside `if guard { ... NewDispatcher(X) } else { ... NewDispatcher(Y) }`
func ctlSite(rel string, fd *ast.FuncDecl, call *ast.CallExpr, params map[string]bool) string {
	guard := "GAlways"
	result, dthen, delse := "?", "?", "?"
	var theIf *ast.IfStmt
	ast.Inspect(fd.Body, func(n ast.Node) bool {
		if is, ok := n.(*ast.IfStmt); ok && is.Body.Pos() <= call.Pos() && call.Pos() < is.Body.End() {
			if !isErrCheck(is.Cond) {
				theIf = is
			}
		}
		return true
	})
	findDisp := func(n ast.Node) string {
		r := "?"
		cnt := 0
		ast.Inspect(n, func(m ast.Node) bool {
			if c, ok := m.(*ast.CallExpr); ok && isSel(c.Fun, "msg", "NewDispatcher") && len(c.Args) == 1 {
				r = text(c.Args[0])
				cnt++
			}
			return true
		})
		if cnt != 1 {
			return "?"
		}
		return r
	}
	var scope ast.Node = fd.Body
	if theIf != nil {
		guard = classifyGuard(theIf.Cond)
		scope = theIf.Body
		dthen = findDisp(theIf.Body)
		if theIf.Else != nil {
			delse = findDisp(theIf.Else)
		}
	} else {
		dthen = findDisp(fd.Body)
	}
	ast.Inspect(scope, func(n ast.Node) bool {
		if as, ok := n.(*ast.AssignStmt); ok && len(as.Rhs) == 1 && as.Rhs[0] == ast.Expr(call) && len(as.Lhs) >= 1 {
			result = text(as.Lhs[0])
		}
		return true
	})
	return fmt.Sprintf("mk_ctl_site %s %s %s %s %s %s %s %s", q(rel), q(fd.Name.Name), guard, classify(call.Args[1], params),
		q(text(call.Args[0])), q(result), q(dthen), q(delse))
}

func writeList(b *bytes.Buffer, name, typ string, items []string) {
	fmt.Fprintf(b, "Definition %s : list %s := [\n", name, typ)
	for i, it := range items {
		sep := ";"
		if i == len(items)-1 {
			sep = ""
		}
		fmt.Fprintf(b, "  %s%s\n", it, sep)
	}
	b.WriteString("].\n")
}
