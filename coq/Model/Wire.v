(* C05 — symbolic (Dolev-Yao style) account of what frpc and frps hand to the transport on the
   frpc<->frps path.  Which fields a message carries, under which guard a cipher layer is installed
   and with which key are NOT hard-wired: they are read from the tables translator unit t5w
   regenerates from the Go source on every run (record [tables], built in Properties/Corr from
   gen/GenWire.v), so the theorems are about what today's code says.
   Model only: no proofs here. *)
From FRP Require Export Model.Bytes Model.WireTypes Model.Sniff Model.TlsPolicy.
Open Scope Z_scope.

Module Wire.
Import TlsPolicy.

(* ---------- terms ---------- *)
Inductive atom :=
| ATok                 (* auth.token *)
| ASk (p : Z)          (* secretKey of stcp/xtcp/sudp proxy p (shared with its visitors) *)
| APwd (p : Z)         (* httpPassword of proxy p *)
| APayload (c : Z)     (* tunnelled bytes c *)
| AUser                (* control-message content: the user name in Login *)
| AProxyName (p : Z)   (* control-message content: the proxy name *)
| AHttpUser (p : Z).   (* control-message content: httpUser of proxy p *)

Definition is_secret (a : atom) : bool :=
  match a with ATok | ASk _ | APwd _ => true | _ => false end.
Definition is_payload (a : atom) : bool := match a with APayload _ => true | _ => false end.

Definition atom_eqb (a b : atom) : bool :=
  match a, b with
  | ATok, ATok | AUser, AUser => true
  | ASk x, ASk y | APwd x, APwd y | APayload x, APayload y
  | AProxyName x, AProxyName y | AHttpUser x, AHttpUser y => x =? y
  | _, _ => false
  end.

Inductive term :=
| TAtom (a : atom)
| TTs (ts : Z)
| TRaw (label : string)            (* bytes carrying none of the atoms: head byte, websocket upgrade, fixed fields *)
| THash (l : list term)            (* md5 of the concatenation (util.GetAuthKey) *)
| TCipher (k : atom) (t : term)    (* golib crypto (AES-128-CFB, key derived from k) *)
| TComp (t : term)                 (* snappy *)
| TTls (t : term)                  (* crypto/tls record layer *)
| TMsg (name : string) (fields : list term)
| TBad (why : string).             (* a fact the model needs is missing/unknown in today's tables *)

(* atoms an observer who can open ciphers keyed by the atoms in [knows] reads off a term;
   never under a hash, never under TLS *)
Fixpoint visible (knows : atom -> bool) (t : term) : list atom :=
  match t with
  | TAtom a => [a]
  | TTs _ | TRaw _ | TBad _ | THash _ | TTls _ => []
  | TCipher k t' => if knows k then visible knows t' else []
  | TComp t' => visible knows t'
  | TMsg _ fs => (fix go (l : list term) : list atom :=
                    match l with [] => [] | x :: r => visible knows x ++ go r end) fs
  end.

(* the same, but compressed data is not claimed to be readable: atoms certainly readable *)
Fixpoint visible_sure (knows : atom -> bool) (t : term) : list atom :=
  match t with
  | TAtom a => [a]
  | TTs _ | TRaw _ | TBad _ | THash _ | TTls _ | TComp _ => []
  | TCipher k t' => if knows k then visible_sure knows t' else []
  | TMsg _ fs => (fix go (l : list term) : list atom :=
                    match l with [] => [] | x :: r => visible_sure knows x ++ go r end) fs
  end.

Fixpoint has_bad (t : term) : bool :=
  match t with
  | TBad _ => true
  | TAtom _ | TTs _ | TRaw _ => false
  | THash l | TMsg _ l => (fix go (l : list term) : bool :=
                    match l with [] => false | x :: r => has_bad x || go r end) l
  | TCipher _ t' | TComp t' | TTls t' => has_bad t'
  end.

Definition nobody (_ : atom) : bool := false.
Definition visible_all (knows : atom -> bool) (l : list term) : list atom := flat_map (visible knows) l.
Definition visible_sure_all (knows : atom -> bool) (l : list term) : list atom := flat_map (visible_sure knows) l.

(* ---------- today's facts ---------- *)
Record tables := mk_tables {
  tb_auth : list auth_set;
  tb_ctl : list ctl_site;
  tb_enc : list enc_site;
  tb_calls : list call_key;
  tb_lits : list msg_lit;
  tb_writes : list clear_write;
  tb_flows : list marshal_flow;
  tb_crw : crw_shape;
  tb_sniff : list sniff_site;
  tb_listeners : list listener_call;
  tb_tls_uses : list tls_use;
  tb_tls_origin : list string;      (* arguments of the one transport.NewServerTLSConfig call *)
  tb_tls_server_calls : list bool;
  tb_sniff_shape : sniff_shape }. (* per tls.Server call inside the sniff: is it given the function's tlsConfig parameter *)

Definition find_enc (T : tables) (file func : string) : option enc_site :=
  find (fun s => String.eqb (es_file s) file && String.eqb (es_func s) func) (tb_enc T).
Definition find_ctl (T : tables) (file : string) : option ctl_site :=
  find (fun s => String.eqb (cs_file s) file) (tb_ctl T).
Definition find_call (T : tables) (file func callee : string) : option call_key :=
  find (fun s => String.eqb (ck_file s) file && String.eqb (ck_func s) func && String.eqb (ck_callee s) callee) (tb_calls T).
Definition find_lit (T : tables) (file func typ : string) : option msg_lit :=
  find (fun s => String.eqb (ml_file s) file && String.eqb (ml_func s) func && String.eqb (ml_type s) typ) (tb_lits T).
Definition auth_fields (T : tables) (func : string) : list (string * wexpr) :=
  map (fun a => (as_field a, as_expr a)) (filter (fun a => String.eqb (as_func a) func) (tb_auth T)).
Definition flows_of (T : tables) (cfg : string) : list (string * wexpr) :=
  map (fun f => (mf_field f, mf_expr f)) (filter (fun f => String.eqb (mf_cfg f) cfg) (tb_flows T)).

(* ---------- configuration and history ---------- *)
Inductive pkind := PkTcp | PkHttp | PkStcp | PkSudp.
Inductive vkind := VkStcp | VkSudp.
Record pcfg := mk_pcfg { p_id : Z; p_kind : pkind; p_enc : bool; p_comp : bool }.
Record vcfg := mk_vcfg { v_id : Z; v_kind : vkind; v_sk : Z; v_enc : bool; v_comp : bool }.

Record wcfg := mk_wcfg {
  w_client : client_transport;   (* completed client transport config *)
  w_server_addr : string;
  w_force : bool;                (* completed server TLS.Force *)
  w_internal : bool;             (* session of the in-process ssh tunnel gateway (not on a network path) *)
  w_token_empty : bool;          (* auth.token = "" (oidc method, or token method without a token): the token is public *)
  w_scope_hb : bool;             (* auth.additionalScopes contains HeartBeats *)
  w_scope_nwc : bool;            (* ... NewWorkConns *)
  w_pair_ok : bool;              (* oracle: the configured certificate files load *)
  w_read_ok : bool }.

Inductive dir := Up | Down.      (* Up: frps -> frpc (user's bytes), Down: frpc -> frps *)

Inductive wevent :=
| ELogin (ts : Z)
| ENewProxy (p : pcfg)
| EPing (ts : Z)
| EWorkConn (p : pcfg) (ts : Z)              (* ReqWorkConn, new connection, NewWorkConn, StartWorkConn for p *)
| EPayload (p : pcfg) (d : dir) (c : Z)      (* bytes c on a work connection of p *)
| EVisitorConn (v : vcfg) (ts : Z)           (* new connection, NewVisitorConn, NewVisitorConnResp *)
| EVisitorPayload (v : vcfg) (d : dir) (c : Z).

(* ---------- client dial plan and server sniff ---------- *)
Definition is_quic (c : wcfg) : bool := String.eqb (ct_protocol (w_client c)) "quic".

(* client/connector.go: Open() handles quic on its own, every other protocol goes through realConnect *)
Definition plan (c : wcfg) : dial_result :=
  if is_quic c
  then open_quic (fun _ _ => w_pair_ok c) (fun _ => w_read_ok c) (w_client c) (w_server_addr c)
  else real_connect (fun _ _ => w_pair_ok c) (fun _ => w_read_ok c) (w_client c) (w_server_addr c).

Definition conn_tls (c : wcfg) : bool := plan_has_tls (plan c).

Definition is_wss (c : wcfg) : bool := String.eqb (ct_protocol (w_client c)) "wss".

(* first byte the server's sniff sees: inside the websocket stream when the websocket layer is outermost;
   22 = record type of a TLS ClientHello (crypto/tls, observed); otherwise the first byte of the plain
   protocol: yamux version 0 when tcpMux is on, else the message type byte 'o' of Login *)
Definition first_byte (c : wcfg) : Z :=
  let ls := match plan_layers (plan c) with LWebsocket :: r => r | l => l end in
  match ls with
  | LHeadByte :: _ => Sniff.frp_tls_head_byte
  | LTls :: _ => Sniff.tls_handshake_byte
  | _ => if from_ptr (ct_tcp_mux (w_client c)) then 0 else 111
  end.

(* HandleListener sniffs the first byte on the tcp, kcp, websocket and tls listeners;
   HandleQUICListener hands every stream to handleConnection without any sniff (None) *)
Definition sniffed (c : wcfg) : option Sniff.out :=
  if is_quic c then None else Some (Sniff.sniff (w_force c) (byte_of_Z (first_byte c))).

(* the server goes on to interpret protocol messages on this connection.  wss is terminated by
   nobody on frps: after TLS it reads "GET " where a message type / yamux header is expected. *)
Definition accepted (c : wcfg) : bool :=
  match plan c with
  | DialErr => false
  | DialPlan _ _ _ =>
      match sniffed c with Some o => negb (Sniff.is_err o) | None => true end && negb (is_wss c)
  end.

(* bytes the dial hooks write when a connection is opened, outermost layer first *)
Fixpoint open_items (ls : list layer) (under_tls : bool) : list term :=
  let wrap := fun t : term => if under_tls then TTls t else t in
  match ls with
  | [] => []
  | LHeadByte :: r => wrap (TRaw "head-byte") :: open_items r under_tls
  | LWebsocket :: r => wrap (TRaw "websocket-upgrade") :: open_items r under_tls
  | LTls :: r => open_items r true
  | LQuic :: r => open_items r true
  end.

Definition conn_open (c : wcfg) : list term := open_items (plan_layers (plan c)) false.

Definition tr (c : wcfg) (t : term) : term := if conn_tls c then TTls t else t.

(* what everybody knows: the token, when it is the empty string.  golib crypto derives the AES key
   from the key bytes and a fixed salt, so a cipher keyed by the empty token can be opened by anyone *)
Definition public (c : wcfg) (a : atom) : bool :=
  match a with ATok => w_token_empty c | _ => false end.

(* ---------- messages ---------- *)
Definition field_term (ctx : skind -> atom) (meta : string -> option atom) (ts : Z) (f : string * wexpr) : term :=
  match snd f with
  | XAuthKey k => THash [TAtom (ctx k); TTs ts]
  | XSecret k => TAtom (ctx k)
  | XTimeNow => TTs ts
  | XParam n => TBad n
  | XOther s => match meta (fst f) with Some a => TAtom a | None => TRaw s end
  | XUnknown s => TBad s
  end.

Definition no_meta (_ : string) : option atom := None.
Definition ctx0 (k : skind) : atom := match k with KTok => ATok | KSk => ASk 0 | KPwd => APwd 0 end.
Definition ctxp (p : Z) (k : skind) : atom := match k with KTok => ATok | KSk => ASk p | KPwd => APwd p end.

Definition msg_of (name : string) (o : option (list (string * wexpr))) ctx meta ts : term :=
  match o with
  | Some fs => TMsg name (map (field_term ctx meta ts) fs)
  | None => TBad name
  end.

Definition lit_fields (T : tables) (file func typ : string) : option (list (string * wexpr)) :=
  match find_lit T file func typ with Some l => Some (ml_fields l) | None => None end.

(* client/service.go login(): &msg.Login{...} then authSetter.SetLogin *)
Definition login_msg (T : tables) (ts : Z) : term :=
  msg_of "Login"
    (match lit_fields T "client/service.go" "login" "Login" with
     | Some fs => Some (fs ++ auth_fields T "SetLogin") | None => None end)
    ctx0 (fun f => if String.eqb f "User" then Some AUser else None) ts.

(* client/control.go heartbeatWorker: &msg.Ping{} then SetPing (scope guarded) *)
Definition ping_msg (T : tables) (c : wcfg) (ts : Z) : term :=
  TMsg "Ping" (map (field_term ctx0 no_meta ts) (if w_scope_hb c then auth_fields T "SetPing" else [])).

(* client/control.go handleReqWorkConn: &msg.NewWorkConn{RunID} then SetNewWorkConn (scope guarded) *)
Definition nwc_msg (T : tables) (c : wcfg) (ts : Z) : term :=
  msg_of "NewWorkConn"
    (match lit_fields T "client/control.go" "handleReqWorkConn" "NewWorkConn" with
     | Some fs => Some (fs ++ (if w_scope_nwc c then auth_fields T "SetNewWorkConn" else [])) | None => None end)
    ctx0 no_meta ts.

(* client/visitor/stcp.go handleConn resp. client/visitor/sudp.go getNewVisitorConn: &msg.NewVisitorConn{...} *)
Definition nvc_msg (T : tables) (v : vcfg) (ts : Z) : term :=
  msg_of "NewVisitorConn"
    (match v_kind v with
     | VkStcp => lit_fields T "client/visitor/stcp.go" "handleConn" "NewVisitorConn"
     | VkSudp => lit_fields T "client/visitor/sudp.go" "getNewVisitorConn" "NewVisitorConn"
     end)
    (ctxp (v_sk v)) (fun f => if String.eqb f "ProxyName" then Some (AProxyName (v_sk v)) else None) ts.

Definition cfg_struct (k : pkind) : string :=
  match k with PkTcp => "TCPProxyConfig" | PkHttp => "HTTPProxyConfig" | PkStcp => "STCPProxyConfig"
             | PkSudp => "SUDPProxyConfig" end.

(* pkg/config/v1/proxy.go: <T>ProxyConfig.MarshalToMsg = ProxyBaseConfig.MarshalToMsg + own fields *)
Definition newproxy_msg (T : tables) (p : pcfg) : term :=
  TMsg "NewProxy"
    (map (field_term (ctxp (p_id p))
            (fun f => if String.eqb f "ProxyName" then Some (AProxyName (p_id p))
                      else if String.eqb f "HTTPUser" then Some (AHttpUser (p_id p)) else None) 0)
         (flows_of T "ProxyBaseConfig" ++ flows_of T (cfg_struct (p_kind p)))).

(* server/proxy/proxy.go GetWorkConnFromPool: &msg.StartWorkConn{ProxyName: pxy.GetName(), ...} *)
Definition swc_msg (T : tables) (p : pcfg) : term :=
  msg_of "StartWorkConn" (lit_fields T "server/proxy/proxy.go" "GetWorkConnFromPool" "StartWorkConn")
    (ctxp (p_id p)) (fun f => if String.eqb f "ProxyName" then Some (AProxyName (p_id p)) else None) 0.

(* ---------- layers ---------- *)
Definition key_atom (ctx : skind -> atom) (k : wexpr) : option atom :=
  match k with XSecret s => Some (ctx s) | _ => None end.

(* control channel: NewCryptoReadWriter(conn, token) + NewDispatcher(cryptoRW) under the guard *)
Definition ctl_layer (T : tables) (file : string) (c : wcfg) (t : term) : term :=
  match find_ctl T file with
  | None => TBad file
  | Some s =>
      let on := match cs_guard s with
                | GConnEnc => Some (negb (w_internal c))
                | GAlways => Some true
                | _ => None end in
      match on, key_atom ctx0 (cs_key s) with
      | Some true, Some k =>
          if String.eqb (cs_disp_then s) (cs_result s)
          then match tb_crw T with
               | CrwAlways => TCipher k t       (* for every key value, the empty one included *)
               | CrwUnknown w => TBad w
               end
          else t
      | Some false, Some _ =>
          if String.eqb (cs_disp_else s) (cs_result s) then TBad file else t
      | _, _ => TBad file
      end
  end.

Definition c2s (T : tables) := ctl_layer T "client/control.go".
Definition s2c (T : tables) := ctl_layer T "server/control.go".

Definition guard_on (g : wguard) (enc comp : bool) : option bool :=
  match g with GUseEnc => Some enc | GUseComp => Some comp | GAlways => Some true | _ => None end.

Definition resolve_key (T : tables) (s : enc_site) (caller_file caller_func : string) : wexpr :=
  match es_key s with
  | XParam _ =>
      match find_call T caller_file caller_func (es_func s) with Some c => ck_key c | None => XUnknown "unresolved" end
  | k => k
  end.

(* libio.WithEncryption(rwc, key) under its guard, at the named site *)
Definition enc_layer (T : tables) (file func cfile cfunc : string) (ctx : skind -> atom) (enc comp : bool) (t : term) : term :=
  match find_enc T file func with
  | None => TBad func
  | Some s =>
      match guard_on (es_guard s) enc comp, key_atom ctx (resolve_key T s cfile cfunc) with
      | Some true, Some k => TCipher k t
      | Some false, Some _ => t
      | _, _ => TBad func
      end
  end.

Definition comp_layer (comp : bool) (t : term) : term := if comp then TComp t else t.

(* bytes of a work connection of proxy p: the writer's stack is  payload -> compression -> encryption -> conn *)
Definition payload_term (T : tables) (p : pcfg) (d : dir) (c : Z) : term :=
  let inner := comp_layer (p_comp p) (TAtom (APayload c)) in
  match d with
  | Up =>
      match p_kind p with
      | PkHttp => enc_layer T "server/proxy/http.go" "GetRealConn" "" "" (ctxp (p_id p)) (p_enc p) (p_comp p) inner
      | _ => enc_layer T "server/proxy/proxy.go" "handleUserTCPConnection" "" "" (ctxp (p_id p)) (p_enc p) (p_comp p) inner
      end
  | Down =>
      match p_kind p with
      | PkSudp => enc_layer T "client/proxy/sudp.go" "InWorkConn" "" "" (ctxp (p_id p)) (p_enc p) (p_comp p) inner
      | _ => enc_layer T "client/proxy/proxy.go" "HandleTCPWorkConnection" "client/proxy/proxy.go" "InWorkConn"
                       (ctxp (p_id p)) (p_enc p) (p_comp p) inner
      end
  end.

(* bytes of a visitor connection: client/visitor/stcp.go handleConn resp. server/visitor/visitor.go NewConn *)
Definition vpayload_term (T : tables) (v : vcfg) (d : dir) (c : Z) : term :=
  let inner := comp_layer (v_comp v) (TAtom (APayload c)) in
  match d with
  | Down =>
      match v_kind v with
      | VkStcp => enc_layer T "client/visitor/stcp.go" "handleConn" "" "" (ctxp (v_sk v)) (v_enc v) (v_comp v) inner
      | VkSudp => enc_layer T "client/visitor/sudp.go" "getNewVisitorConn" "" "" (ctxp (v_sk v)) (v_enc v) (v_comp v) inner
      end
  | Up => enc_layer T "server/visitor/visitor.go" "NewConn" "" "" (ctxp (v_sk v)) (v_enc v) (v_comp v) inner
  end.

(* ---------- listeners of frps and the force flag each one hands to the sniff ---------- *)
Inductive lkind := LkTcp | LkTlsMux | LkKcp | LkWebsocket | LkQuic | LkSsh.

(* the second argument of the svr.HandleListener(l, internal) call that serves the listener *)
Definition listener_expr (l : lkind) : option string :=
  match l with
  | LkTcp => Some "svr.listener" | LkTlsMux => Some "svr.tlsListener" | LkKcp => Some "svr.kcpListener"
  | LkWebsocket => Some "svr.websocketListener" | LkSsh => Some "svr.sshTunnelListener"
  | LkQuic => None                       (* HandleQUICListener: no sniff at all, QUIC is TLS *)
  end%string.

Definition listener_internal (T : tables) (l : lkind) : option bool :=
  match listener_expr l with
  | None => None
  | Some e =>
      match filter (fun c => String.eqb (lc_listener c) e) (tb_listeners T) with
      | [c] => if String.eqb (lc_internal c) "false" then Some false
               else if String.eqb (lc_internal c) "true" then Some true else None
      | _ => None
      end
  end.

Inductive force_res :=
| NoSniff                 (* the listener's connections never reach the sniff *)
| ForceIs (b : bool)      (* the sniff is called with tlsOnly = b *)
| ForceBad.               (* today's tables do not determine it *)

(* server/service.go HandleListener: if !internal { forceTLS := svr.cfg.Transport.TLS.Force; sniff(..., forceTLS, ...) } *)
Definition sniff_force (T : tables) (configured : bool) (l : lkind) : force_res :=
  match l with
  | LkQuic => NoSniff
  | _ =>
      match listener_internal T l, tb_sniff T with
      | Some true, [s] => match ss_guard s with SgNotInternal => NoSniff | _ => ForceBad end
      | Some false, [s] =>
          match ss_guard s, ss_force s with
          | SgNotInternal, FConfigForce | SgNone, FConfigForce => ForceIs configured
          | _, _ => ForceBad
          end
      | _, _ => ForceBad
      end
  end.

(* ---------- which tls.Config each listener terminates TLS with ---------- *)
(* fields a clone may set without touching the identity rule *)
Definition harmless_tls_fields : list string := ["NextProtos"; "MinVersion"; "MaxVersion"]%string.

(* does the configuration a site receives still carry ClientAuth / ClientCAs / Certificates of the origin *)
Definition preserves_identity (e : tlscfg_expr) : bool :=
  match e with
  | TcOrigin => true
  | TcClone fs => forallb (fun f => existsb (String.eqb f) harmless_tls_fields) fs
  | TcUnknown _ => false
  end.

Definition tls_consumer (l : lkind) : option string :=
  match l with
  | LkQuic => Some "quic.ListenAddr"
  | LkSsh => None                       (* in-process, no TLS *)
  | _ => Some "sniff"                   (* HandleListener -> CheckAndEnableTLSServerConnWithTimeout -> tls.Server *)
  end%string.

(* the server policy (Model/TlsPolicy.v: new_server_tls) in force on listener l; None = not determined /
   not the configured one *)
Definition listener_policy (T : tables) (p : server_policy) (l : lkind) : option server_policy :=
  match tls_consumer l with
  | None => None
  | Some cns =>
      match filter (fun u => String.eqb (tu_consumer u) cns) (tb_tls_uses T) with
      | [u] => if preserves_identity (tu_cfg u) &&
                  (match l with LkQuic => true | _ => forallb (fun b => b) (tb_tls_server_calls T) end)
               then Some p else None
      | _ => None
      end
  end.

Definition network_kinds : list lkind := [LkTcp; LkTlsMux; LkKcp; LkWebsocket; LkQuic].

Definition ends_with_field (s f : string) : bool :=
  let n := String.length s in let m := String.length f in
  (m <=? n)%nat && String.eqb (String.substring (n - m) m s) f.

(* every TLS-terminating site of the server is one of the two known consumers and receives the object built by
   NewServerTLSConfig(cfg.Transport.TLS.CertFile, KeyFile, TrustedCaFile) itself or an identity-preserving clone *)
Definition tlscfg_ok (T : tables) : bool :=
  forallb (fun u => (String.eqb (tu_consumer u) "sniff" || String.eqb (tu_consumer u) "quic.ListenAddr") &&
                    preserves_identity (tu_cfg u)) (tb_tls_uses T) &&
  forallb (fun l => match tls_consumer l with
                    | Some cns => (length (filter (fun u => String.eqb (tu_consumer u) cns) (tb_tls_uses T)) =? 1)%nat
                    | None => false end) network_kinds &&
  forallb (fun b => b) (tb_tls_server_calls T) && negb (length (tb_tls_server_calls T) =? 0)%nat &&
  match tb_tls_origin T with
  | [a; b; c] => ends_with_field a ".Transport.TLS.CertFile" && ends_with_field b ".Transport.TLS.KeyFile" &&
                 ends_with_field c ".Transport.TLS.TrustedCaFile"
  | _ => false
  end.

Definition sniffing_kinds : list lkind := [LkTcp; LkTlsMux; LkKcp; LkWebsocket].

Definition lkind_eqb (a b : lkind) : bool :=
  match a, b with
  | LkTcp, LkTcp | LkTlsMux, LkTlsMux | LkKcp, LkKcp | LkWebsocket, LkWebsocket | LkQuic, LkQuic | LkSsh, LkSsh => true
  | _, _ => false
  end.

(* every network listener served by HandleListener hands the configured flag to the sniff;
   only the in-process ssh gateway listener is internal *)
Definition sniff_ok (T : tables) : bool :=
  forallb (fun l => match sniff_force T true l, sniff_force T false l with
                    | ForceIs true, ForceIs false => true | _, _ => false end) sniffing_kinds &&
  match sniff_force T true LkSsh with NoSniff => true | _ => false end &&
  (length (tb_listeners T) =? 5)%nat &&
  match tb_sniff_shape T with SsOk => true | SsUnknown _ => false end.

(* the frps listener a client configuration arrives on *)
Definition listener_of (c : wcfg) : lkind :=
  if is_quic c then LkQuic
  else if String.eqb (ct_protocol (w_client c)) "kcp" then LkKcp
  else if String.eqb (ct_protocol (w_client c)) "websocket" then LkWebsocket
  else if conn_tls c then LkTlsMux else LkTcp.

(* ---------- the wire ---------- *)
Record wstate := mk_wstate { ws_up : bool }.
Definition init : wstate := {| ws_up := false |}.

Definition step (T : tables) (c : wcfg) (s : wstate) (e : wevent) : wstate * list term :=
  match e with
  | ELogin ts =>
      if ws_up s then (s, [])
      else match plan c with
           | DialErr => (s, [])
           | DialPlan _ _ _ =>
               if accepted c
               then ({| ws_up := true |},
                     conn_open c ++ [tr c (login_msg T ts); tr c (TMsg "LoginResp" [TRaw "version"; TRaw "run_id"])])
               else (s, conn_open c ++ [tr c (login_msg T ts)])
           end
  | _ =>
      if negb (ws_up s) then (s, []) else
      match e with
      | ELogin _ => (s, [])
      | ENewProxy p =>
          (s, [tr c (c2s T c (newproxy_msg T p));
               tr c (s2c T c (TMsg "NewProxyResp" [TAtom (AProxyName (p_id p)); TRaw "remote_addr"]))])
      | EPing ts =>
          (s, [tr c (c2s T c (ping_msg T c ts)); tr c (s2c T c (TMsg "Pong" []))])
      | EWorkConn p ts =>
          (s, [tr c (s2c T c (TMsg "ReqWorkConn" []))] ++ conn_open c ++
              [tr c (nwc_msg T c ts); tr c (swc_msg T p)])
      | EPayload p d x => (s, [tr c (payload_term T p d x)])
      | EVisitorConn v ts =>
          (s, conn_open c ++ [tr c (nvc_msg T v ts);
                              tr c (TMsg "NewVisitorConnResp" [TAtom (AProxyName (v_sk v))])])
      | EVisitorPayload v d x => (s, [tr c (vpayload_term T v d x)])
      end
  end.

Fixpoint run (T : tables) (c : wcfg) (s : wstate) (h : list wevent) : wstate * list term :=
  match h with
  | [] => (s, [])
  | e :: r =>
      let '(s1, o1) := step T c s e in
      let '(s2, o2) := run T c s1 r in (s2, o1 ++ o2)
  end.

Definition wire (T : tables) (c : wcfg) (h : list wevent) : list term := snd (run T c init h).

(* ---------- reflective checkers over today's tables ---------- *)
Definition expr_safe (e : wexpr) : bool :=
  match e with XAuthKey _ | XTimeNow | XOther _ => true | XSecret _ | XParam _ | XUnknown _ => false end.

Definition fields_safe (fs : list (string * wexpr)) : bool := forallb (fun f => expr_safe (snd f)) fs.

(* every literal of a message type (anywhere in client/ server/) carries no secret in any field *)
Definition lits_ok (T : tables) : bool := forallb (fun l => fields_safe (ml_fields l)) (tb_lits T).

Definition auth_ok (T : tables) : bool :=
  forallb (fun a => expr_safe (as_expr a)) (tb_auth T) &&
  existsb (fun a => String.eqb (as_func a) "SetLogin" && String.eqb (as_field a) "PrivilegeKey" &&
                    match as_expr a with XAuthKey KTok => true | _ => false end) (tb_auth T).

(* message types written with msg.WriteMsg on something that is not the dispatcher *)
Definition clear_types : list string :=
  ["Login"; "LoginResp"; "NewWorkConn"; "StartWorkConn"; "NewVisitorConn"; "NewVisitorConnResp";
   "UDPPacket"; "Ping"; "NatHoleSid"; "NatHoleResp"; "Message"]%string.
Definition writes_ok (T : tables) : bool :=
  forallb (fun w => existsb (String.eqb (cw_type w)) clear_types && negb (String.eqb (cw_type w) "NewProxy")) (tb_writes T).

Definition ctl_site_ok (s : ctl_site) : bool :=
  match cs_guard s, cs_key s with
  | GConnEnc, XSecret KTok =>
      String.eqb (cs_disp_then s) (cs_result s) && negb (String.eqb (cs_disp_else s) (cs_result s))
  | _, _ => false
  end.
Definition ctl_ok (T : tables) : bool :=
  match find_ctl T "client/control.go", find_ctl T "server/control.go" with
  | Some a, Some b => ctl_site_ok a && ctl_site_ok b
  | _, _ => false
  end && (length (tb_ctl T) =? 2)%nat &&
  match tb_crw T with CrwAlways => true | CrwUnknown _ => false end.

(* the flows of MarshalToMsg may carry secrets (they ride under the control cipher) but nothing unknown *)
Definition flows_ok (T : tables) : bool :=
  forallb (fun f => match mf_expr f with XUnknown _ | XParam _ => false | _ => true end) (tb_flows T).

Definition site_key_kind (T : tables) (s : enc_site) : option skind :=
  match es_key s with
  | XSecret k => Some k
  | XParam _ =>
      (* every caller passes a secret of one kind per call; recorded per caller *)
      None
  | _ => None
  end.

Definition enc_site_ok (T : tables) (s : enc_site) : bool :=
  match es_guard s with
  | GUseEnc =>
      match es_key s with
      | XSecret KTok | XSecret KSk => true
      | XParam _ =>
          let cs := filter (fun c => String.eqb (ck_callee c) (es_func s)) (tb_calls T) in
          negb (length cs =? 0)%nat &&
          forallb (fun c => match ck_key c with XSecret KTok | XSecret KSk => true | _ => false end) cs
      | _ => false
      end
  | _ => false
  end.

Definition site_key (T : tables) (file func cfile cfunc : string) : option wexpr :=
  match find_enc T file func with
  | Some s => Some (resolve_key T s cfile cfunc)
  | None => None
  end.

Definition same_key (a b : option wexpr) (k : skind) : bool :=
  match a, b with
  | Some (XSecret x), Some (XSecret y) =>
      match x, y, k with KTok, KTok, KTok | KSk, KSk, KSk => true | _, _, _ => false end
  | _, _ => false
  end.

(* both ends of each tunnel kind install the layer with the same key *)
Definition pairs_ok (T : tables) : bool :=
  same_key (site_key T "server/proxy/proxy.go" "handleUserTCPConnection" "" "")
           (site_key T "client/proxy/proxy.go" "HandleTCPWorkConnection" "client/proxy/proxy.go" "InWorkConn") KTok &&
  same_key (site_key T "server/proxy/http.go" "GetRealConn" "" "")
           (site_key T "client/proxy/proxy.go" "HandleTCPWorkConnection" "client/proxy/proxy.go" "InWorkConn") KTok &&
  same_key (site_key T "server/visitor/visitor.go" "NewConn" "" "")
           (site_key T "client/visitor/stcp.go" "handleConn" "" "") KSk &&
  same_key (site_key T "server/proxy/proxy.go" "handleUserTCPConnection" "" "")
           (site_key T "client/proxy/sudp.go" "InWorkConn" "" "") KTok &&
  same_key (site_key T "server/visitor/visitor.go" "NewConn" "" "")
           (site_key T "client/visitor/sudp.go" "getNewVisitorConn" "" "") KSk.

Definition enc_ok (T : tables) : bool :=
  forallb (enc_site_ok T) (tb_enc T) && pairs_ok T && (9 <=? Z.of_nat (length (tb_enc T))).

Definition facts_ok (T : tables) : bool :=
  auth_ok T && lits_ok T && writes_ok T && ctl_ok T && flows_ok T && enc_ok T && sniff_ok T && tlscfg_ok T.

End Wire.
