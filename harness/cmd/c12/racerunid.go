package main

// Driver "racerunid" (not part of the check): a statistical replay of the unsynchronised
// Control.runID (written by Replaced under cm.mu, read by Start without a lock).  Session A is
// parked right before ctl.Start(); a second login B with the same run id runs Add (Replaced(A))
// at about the same time.  We count what A's peer sees: its run id, a read error, or a LoginResp
// whose RunID is empty (Start read the cleared field and wrote before Replaced closed the conn).

import (
	"fmt"
	"time"

	"github.com/fatedier/frp/pkg/msg"
	"github.com/fatedier/frp/pkg/util/verifhook"
	"verifharness/hx"
)

func init() { drivers["racerunid"] = runRaceRunID }

func runRaceRunID(cfg *hx.RunCfg) error {
	hx.Quiet()
	s, err := hx.StartServer("127.0.12.3", nil)
	if err != nil {
		return err
	}
	defer s.Close()
	g := hx.NewGen(cfg.Seed)
	counts := map[string]int{}
	for i := 0; i < cfg.N; i++ {
		rid := fmt.Sprintf("c12race%09d", i)
		parked := make(chan chan struct{}, 4)
		first := true
		verifhook.Install(func(point, key string) {
			if point == "svc.regctl.after_wait" && key == rid && first {
				first = false
				ch := make(chan struct{})
				parked <- ch
				<-ch
			}
		})
		resA := make(chan string, 1)
		go func() {
			p, r, err := s.Login(hx.LoginOpts{RunID: rid, Mutate: func(l *msg.Login) { l.Hostname = "A" }})
			switch {
			case err != nil:
				resA <- "read-error"
			case p == nil:
				resA <- "refused"
			case r.RunID == "":
				p.Close()
				resA <- "EMPTY-RUNID-DELIVERED"
			default:
				p.Close()
				resA <- "own-runid"
			}
		}()
		var rel chan struct{}
		select {
		case rel = <-parked:
		case <-time.After(3 * time.Second):
			return fmt.Errorf("A never reached after_wait")
		}
		go func() {
			p, _, _ := s.Login(hx.LoginOpts{RunID: rid, Mutate: func(l *msg.Login) { l.Hostname = "B" }})
			if p != nil {
				p.Close()
			}
		}()
		d := time.Duration(g.Intn(1200)) * time.Microsecond
		t0 := time.Now()
		for time.Since(t0) < d {
		}
		close(rel)
		select {
		case r := <-resA:
			counts[r]++
		case <-time.After(5 * time.Second):
			counts["A-hung"]++
		}
		verifhook.Install(nil)
		time.Sleep(2 * time.Millisecond)
	}
	fmt.Println("racerunid:", counts)
	cfg.St["cases"] = cfg.N
	cfg.St["distribution"] = counts
	return nil
}
