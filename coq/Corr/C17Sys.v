(* C17 correspondence, system level: what a running frps did with the first bytes of fresh
   connections (driver firstbytes) and with the byte stream of an established control channel
   (driver readloop), against Model/FrameSys.v. *)
From FRP Require Export Corr.C17 Model.FrameSys Model.FrameSysLogin.
Open Scope Z_scope.

Definition sys_type_byte (name : string) : option byte :=
  match byte_of_name name with Some z => Some (byte_of_Z z) | None => None end.

Inductive sys_case :=
(* tls: 0 = bytes written on the raw socket; 1 = the driver wrote 0x17, completed a TLS handshake
        and wrote [input] inside it.
   window: 1 = the driver watched the connection for a short while, 2 = for longer than connReadTimeout.
   json: what encoding/json made of the body of the first frame: 0 rejected | 1 a message | 2 JSON null (nil message).
   orc: 0 handler refuses silently | 1 refuses with a reply | 2 accepts (run id orc_rid).
   obs_closed: 0 still open at the end of the window | 1 closed by the server promptly |
               2 closed by the server after about connReadTimeout.
   obs_reply: 0 none | 1 LoginResp ok | 2 LoginResp error | 3 StartWorkConn error |
              4 NewVisitorConnResp error | 5 NewVisitorConnResp ok | 6 other bytes. *)
| CFirst (tls : Z) (input : bytes) (eof : bool) (window : Z) (json : Z) (orc : Z) (orc_rid : bytes)
         (before : fs_state) (obs_closed obs_reply : Z) (after : fs_state) (a_ping a_tunnel : bool)
(* An authenticated Login (valid key for its timestamp) with the given pool_count as first message of a frps
   running in a CHILD process with transport.maxPoolCount = max_pool; the handler oracle is COMPUTED from
   the translated NewControl clamp (fs_login_oracle).  The session table of the child is not observable;
   alive = the child process still runs afterwards, a_ping / a_tunnel = the bystander session still works. *)
| CLoginX (input : bytes) (pool_count max_pool : Z) (rid : bytes) (obs_closed obs_reply : Z) (alive a_ping a_tunnel : bool)
(* mode: 0 = the whole stream written at once, 1 = the driver waits for the reply to every message
   that has one before it writes the next.  bad_bodies: the bodies encoding/json rejects, null_bodies: those it reads as JSON null (oracle).
   obs_replies: type bytes of the messages received on the control channel, in order. *)
| CLoop (mode : Z) (stream : bytes) (eof : bool) (bad_bodies null_bodies : list bytes) (rid : bytes)
        (before : fs_state) (obs_replies : list Z) (obs_closed : Z) (after : fs_state) (a_ping a_tunnel : bool).

Fixpoint session_eqb (a b : fs_state) : bool :=
  match a, b with
  | [], [] => true
  | (r, ps) :: a', (r', ps') :: b' =>
      bytes_eqb r r' &&
      (fix go (x y : list bytes) : bool :=
         match x, y with
         | [], [] => true
         | p :: x', q :: y' => bytes_eqb p q && go x' y'
         | _, _ => false
         end) ps ps' && session_eqb a' b'
  | _, _ => false
  end.

(* the effect of session rid's OWN handlers on its entry (NewProxy adds a proxy name) is not modelled:
   while that session lives its proxy list is not compared; all other entries are compared exactly *)
Definition strip_proxies (rid : bytes) (st : fs_state) : fs_state :=
  map (fun x : fs_session => if bytes_eqb (fst x) rid then (fst x, []) else x) st.

Definition close_code_ok (k : fs_close) (window obs : Z) : bool :=
  match k with
  | KeepOpen => obs =? 0
  | CloseNow => obs =? 1
  | CloseAtTimeout => if window =? 2 then obs =? 2 else obs =? 0
  | CloseTlsFail => if window =? 2 then (obs =? 1) || (obs =? 2) else true
  | ServerDown => obs =? 1      (* the process is gone: every connection is reset *)
  end.

Definition reply_code_ok (r : fs_reply) (obs : Z) : bool :=
  match r with
  | RNone => obs =? 0 | RLoginOk => obs =? 1 | RLoginErr => obs =? 2 | RStartWorkConnErr => obs =? 3
  | RVisitorErr => obs =? 4 | RVisitorOk => obs =? 5 | RTlsAny => true
  end.

Definition first_event (tls : Z) (input : bytes) (eof : bool) (json : Z) (orc : Z) (orc_rid : bytes) : fs_first_ev :=
  {| fe_conn := 1;
     (* under TLS the raw bytes are 0x17 followed by the TLS library's records (more than mux_need
        bytes; the model only consults the oracle fe_inner for them) *)
     fe_bytes := if tls =? 1 then x17 :: repeat x16 15 else input;
     fe_eof := eof;
     fe_inner := if tls =? 1 then Some input else None;
     fe_json := if json =? 1 then JMsg else if json =? 2 then JNull else JBad;
     fe_handler := if orc =? 2 then HAccept orc_rid else if orc =? 1 then HRefuseReply else HRefuseSilent |}.

(* golib mux on the bind port: len("GET /~!frp") bytes are needed to classify a connection *)
Definition ws_prefix_bytes : bytes := bs "GET /~!frp".
Definition mux_need_bytes : Z := blen ws_prefix_bytes.

Definition model_first (ev : fs_first_ev) (st : fs_state) : option (option (fs_state * fs_first_out)) :=
  match sys_type_byte "Login", sys_type_byte "NewWorkConn", sys_type_byte "NewVisitorConn" with
  | Some tl, Some tw, Some tv => Some (fs_first_step registered tl tw tv false mux_need_bytes ws_prefix_bytes st ev)
  | _, _, _ => None
  end.

Fixpoint zlist_prefix (a b : list Z) : bool :=
  match a, b with
  | [], _ => true
  | x :: a', y :: b' => (x =? y) && zlist_prefix a' b'
  | _ :: _, [] => false
  end.
Fixpoint zlist_eqb (a b : list Z) : bool :=
  match a, b with
  | [], [] => true
  | x :: a', y :: b' => (x =? y) && zlist_eqb a' b'
  | _, _ => false
  end.

Definition loop_jok (bad : list bytes) (t : byte) (b : bytes) : bool := negb (existsb (bytes_eqb b) bad).

Definition loop_needs_more (e : fs_loop_end) : bool :=
  match e with EndEOF => true | EndFrame e' => fs_needs_more e' | _ => false end.

Definition loop_jnull (nulls : list bytes) (t : byte) (b : bytes) : bool := existsb (bytes_eqb b) nulls.

Definition model_loop (stream : bytes) (bad nulls : list bytes)
  : option (list Z * fs_loop_end) :=
  match sys_type_byte "Ping", sys_type_byte "Pong", sys_type_byte "NewProxy", sys_type_byte "NewProxyResp" with
  | Some tpi, Some tpo, Some tnp, Some tnr =>
      let '(_, out) := fs_stream_step registered (loop_jok bad) (loop_jnull nulls) [] 1 [] stream in
      let ms := so_dispatched out in
      let e := so_end out in
      Some (flat_map (fun m : byte * bytes =>
                        match fs_reply_type tpi tpo tnp tnr (fst m) with
                        | Some r => [Z_of_byte r] | None => [] end) ms, e)
  | _, _, _, _ => None
  end.

(* 0 = model and implementation agree *)
Definition check_sys (c : sys_case) : Z :=
  match c with
  | CFirst tls input eof window json orc orc_rid before obs_closed obs_reply after a_ping a_tunnel =>
      match model_first (first_event tls input eof json orc orc_rid) before with
      | None => 20
      | Some None => 21
      | Some (Some (st', out)) =>
          if negb (close_code_ok (fo_close out) window obs_closed) then 22
          else if negb (reply_code_ok (fo_reply out) obs_reply) then 23
          else if negb (session_eqb st' after) then 24
          else if negb a_ping then 25
          else if negb a_tunnel then 26
          else 0
      end
  | CLoginX input pool maxp rid obs_closed obs_reply alive a_ping a_tunnel =>
      let ev := {| fe_conn := 1; fe_bytes := input; fe_eof := false; fe_inner := None; fe_json := JMsg;
                   fe_handler := fs_login_oracle pool maxp rid |} in
      (* property monitor on the observed trace first: the server must survive, whatever the model says *)
      if negb alive then 27
      else if negb a_ping then 25
      else if negb a_tunnel then 26
      else match model_first ev [] with
           | None => 20
           | Some None => 21
           | Some (Some (_, out)) =>
               match fo_act out, fo_close out with
               | ActLogin, KeepOpen =>
                   if negb (obs_closed =? 0) then 22 else if negb (reply_code_ok (fo_reply out) obs_reply) then 23 else 0
               | _, _ => 28   (* the generated frame was not dispatched as a Login that is kept *)
               end
           end
  | CLoop mode stream eof bad nulls rid before obs_replies obs_closed after a_ping a_tunnel =>
      match model_loop stream bad nulls with
      | None => 30
      | Some (expected, e) =>
          let ends := negb (loop_needs_more e) || eof in
          match e with
          | EndFuel => 31
          | _ =>
              if negb (if mode =? 1 then zlist_eqb obs_replies expected else zlist_prefix obs_replies expected) then 32
              else if negb (obs_closed =? (if ends then 1 else 0)) then 33
              else if negb (session_eqb (if ends then fs_del_session rid before else strip_proxies rid before)
                                            (if ends then after else strip_proxies rid after)) then 34
              else if negb a_ping then 35
              else if negb a_tunnel then 36
              else 0
          end
      end
  end.

(* which model branches the cases reached *)
Definition first_close_kind (c : sys_case) : option fs_close :=
  match c with
  | CFirst tls input eof _ json orc orc_rid before _ _ _ _ _ =>
      match model_first (first_event tls input eof json orc orc_rid) before with
      | Some (Some (_, out)) => Some (fo_close out)
      | _ => None
      end
  | _ => None
  end.
Definition first_act (c : sys_case) : option first_action :=
  match c with
  | CFirst tls input eof _ json orc orc_rid before _ _ _ _ _ =>
      match model_first (first_event tls input eof json orc orc_rid) before with
      | Some (Some (_, out)) => Some (fo_act out)
      | _ => None
      end
  | _ => None
  end.
Definition is_loginx c := match c with CLoginX _ _ _ _ _ _ _ _ _ => true | _ => false end.
Definition is_loginx_below_slack c := match c with CLoginX _ p _ _ _ _ _ _ _ => p <? -10 | _ => false end.
Definition is_close_now c := match first_close_kind c with Some CloseNow => true | _ => false end.
Definition is_close_timeout c := match first_close_kind c with Some CloseAtTimeout => true | _ => false end.
Definition is_keep_open c := match first_close_kind c with Some KeepOpen => true | _ => false end.
Definition is_tls_fail c := match first_close_kind c with Some CloseTlsFail => true | _ => false end.
Definition is_tls_inner c := match c with CFirst 1 _ _ _ _ _ _ _ _ _ _ _ _ => true | _ => false end.
Definition is_dispatched c := match first_act c with Some ActClose | None => false | Some _ => true end.
Definition loop_end_of (c : sys_case) : option fs_loop_end :=
  match c with
  | CLoop _ stream _ bad nulls _ _ _ _ _ _ _ => match model_loop stream bad nulls with Some (_, e) => Some e | None => None end
  | _ => None
  end.
Definition is_end_frame c := match loop_end_of c with Some (EndFrame e) => negb (fs_needs_more e) | _ => false end.
Definition is_end_json c := match loop_end_of c with Some (EndJson _) => true | _ => false end.
Definition is_end_short c := match loop_end_of c with Some e => loop_needs_more e | None => false end.
Definition loop_dispatched (c : sys_case) : Z :=
  match c with
  | CLoop _ stream _ bad _ _ _ _ _ _ _ _ =>
      Z.of_nat (length (fst (fs_read_loop registered (loop_jok bad) stream)))
  | _ => 0
  end.
Fixpoint sum_by {A} (f : A -> Z) (l : list A) : Z :=
  match l with [] => 0 | x :: r => f x + sum_by f r end.
