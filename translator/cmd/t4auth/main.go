// T4auth (property C04): the shape of frp's credential checks, regenerated from source on every run.
//
//	pkg/auth/token.go        TokenAuthSetterVerifier.VerifyLogin / VerifyPing / VerifyNewWorkConn as a
//	                         statement list: `if !slices.Contains(auth.additionalAuthScopes, v1.AuthScopeX) { return nil }`
//	                         -> GaIfNoScopeRetNil "AuthScopeX";  `if !util.ConstantTimeEqString(util.GetAuthKey(T, TS), K)
//	                         { return <error> }` -> GaIfKeyMismatchRetErr T TS K (THAT argument order);  `return nil` -> GaRetNil
//	pkg/util/util/util.go    ConstantTimeEqString: `return subtle.ConstantTimeCompare([]byte(a), []byte(b)) == 1` -> GaCtFull "a" "b"
//	pkg/ssh/gateway.go, server.go   see sshGateway below
//	server/service.go        RegisterControl: which condition selects auth.AlwaysPassVerifier, into what (local variable or
//	                         field), whose VerifyLogin is called and returned on error, what is handed to NewControl, the
//	                         order verify < NewControl < ctlManager.Add < Start, and how many assignments to a field named
//	                         authVerifier the file contains.
//
// Receiver, parameter names and single-assignment locals (`x := e`) are normalised away, so renaming them or naming a
// sub-expression does not change the output.  Anything else that is not recognised becomes GaUnknown "<source>", which
// the checker / interpreter in coq/Model/AuthShape.v refuses.
package main

import (
	"bytes"
	"fmt"
	"go/ast"
	"go/parser"
	"go/printer"
	"go/token"
	"path/filepath"
	"sort"
	"strings"

	"veriftranslator/tx"
)

func main() { tx.Main(tx.Unit{Name: "T4auth", File: "GenAuth.v", Fn: gen}) }

type env struct {
	fset  *token.FileSet
	subst map[string]string // identifier -> replacement text
}

func (e *env) raw(n ast.Node) string {
	var b bytes.Buffer
	_ = printer.Fprint(&b, e.fset, n)
	return strings.Join(strings.Fields(b.String()), " ")
}

// render prints an expression with identifier substitution (receiver/parameter normalisation, inlined locals).
func (e *env) render(x ast.Expr) string {
	switch v := x.(type) {
	case *ast.Ident:
		if r, ok := e.subst[v.Name]; ok {
			return r
		}
		return v.Name
	case *ast.SelectorExpr:
		return e.render(v.X) + "." + v.Sel.Name
	case *ast.ParenExpr:
		return "(" + e.render(v.X) + ")"
	case *ast.UnaryExpr:
		return v.Op.String() + e.render(v.X)
	case *ast.BinaryExpr:
		return e.render(v.X) + " " + v.Op.String() + " " + e.render(v.Y)
	case *ast.BasicLit:
		return v.Value
	case *ast.CallExpr:
		args := make([]string, len(v.Args))
		for i, a := range v.Args {
			args[i] = e.render(a)
		}
		var fun string
		if at, ok := v.Fun.(*ast.ArrayType); ok {
			fun = e.raw(at)
		} else {
			fun = e.render(v.Fun)
		}
		return fun + "(" + strings.Join(args, ", ") + ")"
	}
	return e.raw(x)
}

func isCall(x ast.Expr, name string) (*ast.CallExpr, bool) {
	c, ok := x.(*ast.CallExpr)
	if !ok {
		return nil, false
	}
	var b bytes.Buffer
	_ = printer.Fprint(&b, token.NewFileSet(), c.Fun)
	return c, b.String() == name
}

func returnsNil(b *ast.BlockStmt) bool {
	if len(b.List) != 1 {
		return false
	}
	r, ok := b.List[0].(*ast.ReturnStmt)
	if !ok || len(r.Results) != 1 {
		return false
	}
	id, ok := r.Results[0].(*ast.Ident)
	return ok && id.Name == "nil"
}

func returnsNonNil(b *ast.BlockStmt) bool {
	if len(b.List) != 1 {
		return false
	}
	r, ok := b.List[0].(*ast.ReturnStmt)
	if !ok || len(r.Results) != 1 {
		return false
	}
	id, ok := r.Results[0].(*ast.Ident)
	return !(ok && id.Name == "nil")
}

func findFunc(f *ast.File, recv, name string) *ast.FuncDecl {
	for _, d := range f.Decls {
		fd, ok := d.(*ast.FuncDecl)
		if !ok || fd.Name.Name != name {
			continue
		}
		if recv == "" && fd.Recv == nil {
			return fd
		}
		if recv != "" && fd.Recv != nil && len(fd.Recv.List) == 1 {
			var b bytes.Buffer
			_ = printer.Fprint(&b, token.NewFileSet(), fd.Recv.List[0].Type)
			if strings.TrimPrefix(b.String(), "*") == recv {
				return fd
			}
		}
	}
	return nil
}

func paramNames(fd *ast.FuncDecl) []string {
	var out []string
	for _, p := range fd.Type.Params.List {
		for _, n := range p.Names {
			out = append(out, n.Name)
		}
	}
	return out
}

// verifyBody translates one Verify* method of TokenAuthSetterVerifier.
func verifyBody(fset *token.FileSet, fd *ast.FuncDecl) []string {
	e := &env{fset: fset, subst: map[string]string{}}
	if len(fd.Recv.List[0].Names) == 1 {
		e.subst[fd.Recv.List[0].Names[0].Name] = "auth"
	}
	if ps := paramNames(fd); len(ps) == 1 {
		e.subst[ps[0]] = "m"
	}
	var out []string
	unknown := func(s ast.Stmt) { out = append(out, "GaUnknown "+tx.CoqString(e.raw(s))) }
	for _, s := range fd.Body.List {
		switch v := s.(type) {
		case *ast.AssignStmt:
			if v.Tok == token.DEFINE && len(v.Lhs) == 1 && len(v.Rhs) == 1 {
				if id, ok := v.Lhs[0].(*ast.Ident); ok {
					e.subst[id.Name] = e.render(v.Rhs[0])
					continue
				}
			}
			unknown(s)
		case *ast.IfStmt:
			not, ok := v.Cond.(*ast.UnaryExpr)
			if v.Init != nil || v.Else != nil || !ok || not.Op != token.NOT {
				unknown(s)
				continue
			}
			cond := not.X
			// a named local holding the call is inlined through render -> re-parse is avoided by looking at the AST
			if id, ok := cond.(*ast.Ident); ok {
				_ = id
				unknown(s)
				continue
			}
			if c, ok := isCall(cond, "slices.Contains"); ok && len(c.Args) == 2 && returnsNil(v.Body) &&
				e.render(c.Args[0]) == "auth.additionalAuthScopes" {
				out = append(out, "GaIfNoScopeRetNil "+tx.CoqString(strings.TrimPrefix(e.render(c.Args[1]), "v1.")))
				continue
			}
			if c, ok := isCall(cond, "util.ConstantTimeEqString"); ok && len(c.Args) == 2 && returnsNonNil(v.Body) {
				a := e.render(c.Args[0])
				const pfx = "util.GetAuthKey("
				if strings.HasPrefix(a, pfx) && strings.HasSuffix(a, ")") {
					parts := strings.Split(a[len(pfx):len(a)-1], ", ")
					if len(parts) == 2 {
						out = append(out, fmt.Sprintf("GaIfKeyMismatchRetErr %s %s %s", tx.CoqString(parts[0]), tx.CoqString(parts[1]),
							tx.CoqString(e.render(c.Args[1]))))
						continue
					}
				}
			}
			unknown(s)
		case *ast.ReturnStmt:
			if len(v.Results) == 1 {
				if id, ok := v.Results[0].(*ast.Ident); ok && id.Name == "nil" {
					out = append(out, "GaRetNil")
					continue
				}
			}
			unknown(s)
		default:
			unknown(s)
		}
	}
	return out
}

func ctEq(fset *token.FileSet, fd *ast.FuncDecl) string {
	e := &env{fset: fset, subst: map[string]string{}}
	ps := paramNames(fd)
	if len(ps) != 2 {
		return "GaCtUnknown " + tx.CoqString("parameters: "+strings.Join(ps, ","))
	}
	e.subst[ps[0]], e.subst[ps[1]] = "a", "b"
	if len(fd.Body.List) != 1 {
		return "GaCtUnknown " + tx.CoqString(e.raw(fd.Body))
	}
	r, ok := fd.Body.List[0].(*ast.ReturnStmt)
	if !ok || len(r.Results) != 1 {
		return "GaCtUnknown " + tx.CoqString(e.raw(fd.Body))
	}
	be, ok := r.Results[0].(*ast.BinaryExpr)
	if !ok || be.Op != token.EQL || e.render(be.Y) != "1" {
		return "GaCtUnknown " + tx.CoqString(e.raw(r))
	}
	c, ok := isCall(be.X, "subtle.ConstantTimeCompare")
	if !ok || len(c.Args) != 2 {
		return "GaCtUnknown " + tx.CoqString(e.raw(r))
	}
	arg := func(x ast.Expr) (string, bool) {
		cc, ok := x.(*ast.CallExpr)
		if !ok || len(cc.Args) != 1 {
			return "", false
		}
		if at, ok := cc.Fun.(*ast.ArrayType); !ok || e.raw(at) != "[]byte" {
			return "", false
		}
		id, ok := cc.Args[0].(*ast.Ident)
		if !ok {
			return "", false
		}
		return e.render(id), true
	}
	x, ok1 := arg(c.Args[0])
	y, ok2 := arg(c.Args[1])
	if !ok1 || !ok2 {
		return "GaCtUnknown " + tx.CoqString(e.raw(r))
	}
	return fmt.Sprintf("GaCtFull %s %s", tx.CoqString(x), tx.CoqString(y))
}

func coqList(xs []string) string { return "[" + strings.Join(xs, "; ") + "]" }

func conjuncts(e *env, x ast.Expr) []string {
	if p, ok := x.(*ast.ParenExpr); ok {
		return conjuncts(e, p.X)
	}
	if b, ok := x.(*ast.BinaryExpr); ok && b.Op == token.LAND {
		return append(conjuncts(e, b.X), conjuncts(e, b.Y)...)
	}
	return []string{e.render(x)}
}

func regControl(fset *token.FileSet, f *ast.File) (string, error) {
	fd := findFunc(f, "Service", "RegisterControl")
	if fd == nil {
		return "", fmt.Errorf("RegisterControl not found")
	}
	e := &env{fset: fset, subst: map[string]string{}}
	if len(fd.Recv.List[0].Names) == 1 {
		e.subst[fd.Recv.List[0].Names[0].Name] = "svr"
	}
	if ps := paramNames(fd); len(ps) == 3 {
		e.subst[ps[0]], e.subst[ps[1]], e.subst[ps[2]] = "ctlConn", "loginMsg", "internal"
	}
	alias := map[string]string{} // local -> local it was defined from
	init := map[string]string{}  // local -> rendered non-identifier initialiser
	locals := map[string]bool{}
	ast.Inspect(fd.Body, func(n ast.Node) bool {
		if a, ok := n.(*ast.AssignStmt); ok && a.Tok == token.DEFINE && len(a.Lhs) == len(a.Rhs) {
			for i, l := range a.Lhs {
				id, ok := l.(*ast.Ident)
				if !ok {
					continue
				}
				locals[id.Name] = true
				if r, ok := a.Rhs[i].(*ast.Ident); ok && locals[r.Name] {
					alias[id.Name] = r.Name
				} else {
					init[id.Name] = e.render(a.Rhs[i])
				}
			}
		}
		return true
	})
	root := func(n string) string {
		for i := 0; i < 10; i++ {
			if a, ok := alias[n]; ok {
				n = a
			} else {
				break
			}
		}
		return n
	}
	var bypass []string
	ast.Inspect(fd.Body, func(n ast.Node) bool {
		is, ok := n.(*ast.IfStmt)
		if !ok {
			return true
		}
		for _, s := range is.Body.List {
			a, ok := s.(*ast.AssignStmt)
			if !ok || len(a.Lhs) != 1 || len(a.Rhs) != 1 || e.render(a.Rhs[0]) != "auth.AlwaysPassVerifier" {
				continue
			}
			cs := conjuncts(e, is.Cond)
			sort.Strings(cs)
			q := make([]string, len(cs))
			for i, c := range cs {
				q[i] = tx.CoqString(c)
			}
			lhs, local := e.render(a.Lhs[0]), false
			if id, ok := a.Lhs[0].(*ast.Ident); ok && locals[id.Name] {
				lhs, local = root(id.Name), true
			}
			bypass = append(bypass, fmt.Sprintf("(%s, %s, %v)", coqList(q), tx.CoqString(lhs), local))
		}
		return true
	})
	// any other place that mentions AlwaysPassVerifier (e.g. a field assignment outside an if) is counted
	mentions := 0
	ast.Inspect(fd.Body, func(n ast.Node) bool {
		if s, ok := n.(*ast.SelectorExpr); ok && s.Sel.Name == "AlwaysPassVerifier" {
			mentions++
		}
		return true
	})
	verifyRecv, verifyReturns, ncArg := "?", false, "?"
	type ev struct {
		pos  token.Pos
		name string
	}
	var order []ev
	ast.Inspect(fd.Body, func(n ast.Node) bool {
		switch v := n.(type) {
		case *ast.IfStmt:
			if a, ok := v.Init.(*ast.AssignStmt); ok && len(a.Rhs) == 1 {
				if c, ok := a.Rhs[0].(*ast.CallExpr); ok {
					if s, ok := c.Fun.(*ast.SelectorExpr); ok && s.Sel.Name == "VerifyLogin" && returnsNonNil(v.Body) &&
						len(c.Args) == 1 && e.render(c.Args[0]) == "loginMsg" {
						if cond := e.render(v.Cond); strings.HasSuffix(cond, "!= nil") {
							verifyReturns = true
						}
					}
				}
			}
		case *ast.CallExpr:
			if s, ok := v.Fun.(*ast.SelectorExpr); ok {
				switch {
				case s.Sel.Name == "VerifyLogin":
					if id, ok := s.X.(*ast.Ident); ok {
						verifyRecv = root(id.Name)
					} else {
						verifyRecv = e.render(s.X)
					}
					order = append(order, ev{v.Pos(), "verify"})
				case s.Sel.Name == "Add" && strings.HasSuffix(e.render(s.X), "ctlManager"):
					order = append(order, ev{v.Pos(), "add"})
				case s.Sel.Name == "Start":
					order = append(order, ev{v.Pos(), "start"})
				}
			}
			if id, ok := v.Fun.(*ast.Ident); ok && id.Name == "NewControl" {
				order = append(order, ev{v.Pos(), "newcontrol"})
				if len(v.Args) > 4 {
					if a, ok := v.Args[4].(*ast.Ident); ok {
						ncArg = root(a.Name)
					} else {
						ncArg = e.render(v.Args[4])
					}
				}
			}
		}
		return true
	})
	sort.Slice(order, func(i, j int) bool { return order[i].pos < order[j].pos })
	os := make([]string, len(order))
	for i, o := range order {
		os[i] = tx.CoqString(o.name)
	}
	// assignments to a field named authVerifier anywhere in the file (the constructor uses a composite literal)
	fieldAssigns := 0
	ast.Inspect(f, func(n ast.Node) bool {
		if a, ok := n.(*ast.AssignStmt); ok {
			for _, l := range a.Lhs {
				if s, ok := l.(*ast.SelectorExpr); ok && s.Sel.Name == "authVerifier" {
					fieldAssigns++
				}
			}
		}
		return true
	})
	rootInit := init[verifyRecv]
	return fmt.Sprintf("{| rc_bypass := %s;\n     rc_bypass_mentions := %d;\n     rc_verify_recv := %s; rc_verify_returns := %v; rc_newcontrol_arg := %s;\n     rc_root_init := %s;\n     rc_order := %s;\n     rc_field_assigns := %d |}",
		coqList(bypass), mentions, tx.CoqString(verifyRecv), verifyReturns, tx.CoqString(ncArg), tx.CoqString(rootInit), coqList(os), fieldAssigns), nil
}

// sshGateway translates the three facts of pkg/ssh that decide who gets a virtual-client session without a token:
// gateway.go NewGateway `sshConfig.NoClientAuth = <expr>`, the top-level statements of the PublicKeyCallback literal
// (classified: definitions verbatim, `if C fail` / `if C SUCCESS` by what the returns inside do, `return success|fail`),
// and server.go TunnelServer.Run `AlwaysAuthPass: <expr>`.
func sshGateway(fset *token.FileSet, gf, sf *ast.File) (string, error) {
	ng := findFunc(gf, "", "NewGateway")
	if ng == nil {
		return "", fmt.Errorf("NewGateway not found")
	}
	e := &env{fset: fset, subst: map[string]string{}}
	var nca []string
	var cb *ast.FuncLit
	cbCount := 0
	ast.Inspect(ng.Body, func(n ast.Node) bool {
		a, ok := n.(*ast.AssignStmt)
		if !ok || len(a.Lhs) != 1 || len(a.Rhs) != 1 {
			return true
		}
		if sel, ok := a.Lhs[0].(*ast.SelectorExpr); ok {
			switch sel.Sel.Name {
			case "NoClientAuth":
				nca = append(nca, tx.CoqString(e.raw(a.Rhs[0])))
			case "PublicKeyCallback":
				cbCount++
				if fl, ok := a.Rhs[0].(*ast.FuncLit); ok {
					cb = fl
				}
			}
		}
		return true
	})
	// other callbacks that could authenticate a peer (password, keyboard-interactive, NoClientAuthCallback ...)
	var otherCbs []string
	ast.Inspect(gf, func(n ast.Node) bool {
		if a, ok := n.(*ast.AssignStmt); ok {
			for _, l := range a.Lhs {
				if sel, ok := l.(*ast.SelectorExpr); ok && strings.HasSuffix(sel.Sel.Name, "Callback") &&
					sel.Sel.Name != "PublicKeyCallback" && sel.Sel.Name != "AuthLogCallback" && sel.Sel.Name != "BannerCallback" {
					otherCbs = append(otherCbs, tx.CoqString(sel.Sel.Name))
				}
			}
		}
		return true
	})
	success := func(r *ast.ReturnStmt) bool {
		if len(r.Results) != 2 {
			return false
		}
		id, ok := r.Results[1].(*ast.Ident)
		return ok && id.Name == "nil"
	}
	var stmts []string
	nsuccess := 0
	if cb == nil || cbCount != 1 {
		stmts = append(stmts, tx.CoqString(fmt.Sprintf("?PublicKeyCallback assigned %d times / not a function literal", cbCount)))
	} else {
		ast.Inspect(cb.Body, func(n ast.Node) bool {
			if r, ok := n.(*ast.ReturnStmt); ok && success(r) {
				nsuccess++
			}
			return true
		})
		for _, st := range cb.Body.List {
			switch v := st.(type) {
			case *ast.AssignStmt:
				stmts = append(stmts, tx.CoqString(e.raw(v)))
			case *ast.IfStmt:
				ok := false
				ast.Inspect(v, func(n ast.Node) bool {
					if r, isr := n.(*ast.ReturnStmt); isr && success(r) {
						ok = true
					}
					return true
				})
				kind := "fail"
				if ok {
					kind = "SUCCESS"
				}
				init := ""
				if v.Init != nil {
					init = e.raw(v.Init) + "; "
				}
				stmts = append(stmts, tx.CoqString("if "+init+e.raw(v.Cond)+" "+kind))
			case *ast.ReturnStmt:
				if success(v) {
					stmts = append(stmts, tx.CoqString("return success"))
				} else {
					stmts = append(stmts, tx.CoqString("return fail"))
				}
			default:
				stmts = append(stmts, tx.CoqString("?"+e.raw(st)))
			}
		}
	}
	run := findFunc(sf, "TunnelServer", "Run")
	if run == nil {
		return "", fmt.Errorf("TunnelServer.Run not found")
	}
	e2 := &env{fset: fset, subst: map[string]string{}}
	if len(run.Recv.List[0].Names) == 1 {
		e2.subst[run.Recv.List[0].Names[0].Name] = "s"
	}
	var aap []string
	ast.Inspect(sf, func(n ast.Node) bool {
		switch v := n.(type) {
		case *ast.KeyValueExpr:
			if id, ok := v.Key.(*ast.Ident); ok && id.Name == "AlwaysAuthPass" {
				aap = append(aap, tx.CoqString(e2.render(v.Value)))
			}
		case *ast.AssignStmt:
			for i, l := range v.Lhs {
				if sel, ok := l.(*ast.SelectorExpr); ok && sel.Sel.Name == "AlwaysAuthPass" && i < len(v.Rhs) {
					aap = append(aap, tx.CoqString("assigned: "+e2.render(v.Rhs[i])))
				}
			}
		}
		return true
	})
	return fmt.Sprintf("{| sgw_no_client_auth := %s;\n     sgw_callback := %s;\n     sgw_callback_success_returns := %d;\n     sgw_other_callbacks := %s;\n     sgw_always_auth_pass := %s |}",
		coqList(nca), coqList(stmts), nsuccess, coqList(otherCbs), coqList(aap)), nil
}

// newAuthVerifier: pkg/auth/auth.go NewAuthVerifier as (case label, statements) pairs, and how often the file mentions
// AlwaysPassVerifier (the configured verifier must never be the always-pass one).
func newAuthVerifier(fset *token.FileSet, f *ast.File) (string, error) {
	fd := findFunc(f, "", "NewAuthVerifier")
	if fd == nil {
		return "", fmt.Errorf("NewAuthVerifier not found")
	}
	e := &env{fset: fset, subst: map[string]string{}}
	var cases []string
	other := 0
	for _, st := range fd.Body.List {
		sw, ok := st.(*ast.SwitchStmt)
		if !ok {
			if r, isr := st.(*ast.ReturnStmt); isr && len(r.Results) == 1 && e.raw(r.Results[0]) == "authVerifier" {
				continue
			}
			other++
			continue
		}
		for _, cc := range sw.Body.List {
			cl := cc.(*ast.CaseClause)
			var labels, body []string
			for _, l := range cl.List {
				labels = append(labels, e.raw(l))
			}
			for _, b := range cl.Body {
				body = append(body, tx.CoqString(e.raw(b)))
			}
			cases = append(cases, fmt.Sprintf("(%s, %s)", tx.CoqString(e.raw(sw.Tag)+": "+strings.Join(labels, ",")), coqList(body)))
		}
	}
	mentions := 0
	ast.Inspect(f, func(n ast.Node) bool {
		if id, ok := n.(*ast.Ident); ok && id.Name == "AlwaysPassVerifier" {
			mentions++
		}
		return true
	})
	return fmt.Sprintf("{| nav_cases := %s; nav_other_statements := %d; nav_always_pass_mentions := %d |}", coqList(cases), other, mentions), nil
}

// legacyAuth: pkg/config/legacy/conversion.go Convert_ServerCommonConf_To_v1 — which legacy field ends up in which field of
// out.Auth, whether written field by field or as a composite literal; scope appends as ("scope:<const>", <condition>).
func legacyAuth(fset *token.FileSet, f *ast.File) (string, error) {
	fd := findFunc(f, "", "Convert_ServerCommonConf_To_v1")
	if fd == nil {
		return "", fmt.Errorf("Convert_ServerCommonConf_To_v1 not found")
	}
	e := &env{fset: fset, subst: map[string]string{}}
	if ps := paramNames(fd); len(ps) == 1 {
		e.subst[ps[0]] = "conf"
	}
	var pairs []string
	add := func(k, v string) { pairs = append(pairs, fmt.Sprintf("(%s, %s)", tx.CoqString(k), tx.CoqString(v))) }
	var lit func(prefix string, x ast.Expr)
	lit = func(prefix string, x ast.Expr) {
		if cl, ok := x.(*ast.CompositeLit); ok {
			for _, el := range cl.Elts {
				if kv, ok := el.(*ast.KeyValueExpr); ok {
					lit(prefix+"."+e.raw(kv.Key), kv.Value)
				} else {
					add(prefix+".?", e.raw(el))
				}
			}
			return
		}
		add(prefix, e.render(x))
	}
	ast.Inspect(fd.Body, func(n ast.Node) bool {
		switch v := n.(type) {
		case *ast.IfStmt:
			for _, st := range v.Body.List {
				if a, ok := st.(*ast.AssignStmt); ok && len(a.Lhs) == 1 && len(a.Rhs) == 1 && strings.HasPrefix(e.raw(a.Lhs[0]), "out.Auth.AdditionalScopes") {
					if c, ok := isCall(a.Rhs[0], "append"); ok && len(c.Args) == 2 {
						add("scope:"+e.raw(c.Args[1]), e.render(v.Cond))
					} else {
						add("scope:?", e.raw(a.Rhs[0]))
					}
				}
			}
		case *ast.AssignStmt:
			if len(v.Lhs) == 1 && len(v.Rhs) == 1 {
				l := e.raw(v.Lhs[0])
				if strings.HasPrefix(l, "out.Auth") && !strings.HasPrefix(l, "out.Auth.AdditionalScopes") {
					lit(strings.TrimPrefix(l, "out."), v.Rhs[0])
				}
			}
		}
		return true
	})
	sort.Strings(pairs)
	return coqList(pairs), nil
}

// loginHook: server/service.go handleConnection, `case *msg.Login:` — the Login plugin chain is called exactly once, as a
// top-level statement of the case (no guard: every Login on every listener), and RegisterControl gets what it returned.
func loginHook(fset *token.FileSet, f *ast.File) (string, error) {
	fd := findFunc(f, "Service", "handleConnection")
	if fd == nil {
		return "", fmt.Errorf("handleConnection not found")
	}
	e := &env{fset: fset, subst: map[string]string{}}
	var body []ast.Stmt
	ast.Inspect(fd.Body, func(n ast.Node) bool {
		if cc, ok := n.(*ast.CaseClause); ok && len(cc.List) == 1 && e.raw(cc.List[0]) == "*msg.Login" {
			body = cc.Body
		}
		return true
	})
	if body == nil {
		return "", fmt.Errorf("case *msg.Login not found")
	}
	isPluginLogin := func(x ast.Expr) bool {
		c, ok := x.(*ast.CallExpr)
		if !ok {
			return false
		}
		s, ok := c.Fun.(*ast.SelectorExpr)
		return ok && s.Sel.Name == "Login" && strings.HasSuffix(e.raw(s.X), "pluginManager")
	}
	calls, top := 0, false
	for _, st := range body {
		ast.Inspect(st, func(n ast.Node) bool {
			if x, ok := n.(ast.Expr); ok && isPluginLogin(x) {
				calls++
			}
			return true
		})
		if a, ok := st.(*ast.AssignStmt); ok && len(a.Rhs) == 1 && isPluginLogin(a.Rhs[0]) {
			top = true
		}
	}
	mFromRet, regArgs := false, []string{}
	for _, st := range body {
		ast.Inspect(st, func(n ast.Node) bool {
			switch v := n.(type) {
			case *ast.AssignStmt:
				if len(v.Lhs) == 1 && len(v.Rhs) == 1 && e.raw(v.Lhs[0]) == "m" && e.raw(v.Rhs[0]) == "&retContent.Login" {
					mFromRet = true
				}
			case *ast.CallExpr:
				if s, ok := v.Fun.(*ast.SelectorExpr); ok && s.Sel.Name == "RegisterControl" {
					for _, a := range v.Args {
						regArgs = append(regArgs, tx.CoqString(e.raw(a)))
					}
				}
			}
			return true
		})
	}
	return fmt.Sprintf("{| lh_calls := %d; lh_toplevel := %v; lh_m_from_ret := %v; lh_regctl_args := %s |}", calls, top, mFromRet, coqList(regArgs)), nil
}

// managerLoginAdopt: pkg/plugin/server/manager.go Manager.Login — the statements under `if !res.Unchange`.
func managerLoginAdopt(fset *token.FileSet, f *ast.File) (string, error) {
	fd := findFunc(f, "Manager", "Login")
	if fd == nil {
		return "", fmt.Errorf("Manager.Login not found")
	}
	e := &env{fset: fset, subst: map[string]string{}}
	var out []string
	found := 0
	ast.Inspect(fd.Body, func(n ast.Node) bool {
		if is, ok := n.(*ast.IfStmt); ok && e.raw(is.Cond) == "!res.Unchange" {
			found++
			for _, st := range is.Body.List {
				out = append(out, tx.CoqString(e.raw(st)))
			}
		}
		return true
	})
	if found != 1 {
		out = append(out, tx.CoqString(fmt.Sprintf("?%d blocks `if !res.Unchange`", found)))
	}
	return coqList(out), nil
}

func gen() ([]byte, error) {
	fset := token.NewFileSet()
	tf, err := parser.ParseFile(fset, filepath.Join(tx.Repo, "pkg/auth/token.go"), nil, 0)
	if err != nil {
		return nil, err
	}
	uf, err := parser.ParseFile(fset, filepath.Join(tx.Repo, "pkg/util/util/util.go"), nil, 0)
	if err != nil {
		return nil, err
	}
	sf, err := parser.ParseFile(fset, filepath.Join(tx.Repo, "server/service.go"), nil, 0)
	if err != nil {
		return nil, err
	}
	var b bytes.Buffer
	b.WriteString("(* generated by translator unit t4auth from pkg/auth/token.go, pkg/util/util/util.go, server/service.go — do not edit *)\n")
	b.WriteString("From FRP Require Import Model.AuthShape.\nLocal Open Scope Z_scope.\nLocal Open Scope string_scope.\n\n")
	b.WriteString("Definition T4auth_translated : bool := true.\n\n")
	for _, m := range []struct{ fn, def string }{{"VerifyLogin", "gen_token_verify_login"}, {"VerifyPing", "gen_token_verify_ping"}, {"VerifyNewWorkConn", "gen_token_verify_workconn"}} {
		fd := findFunc(tf, "TokenAuthSetterVerifier", m.fn)
		if fd == nil {
			return nil, fmt.Errorf("TokenAuthSetterVerifier.%s not found", m.fn)
		}
		fmt.Fprintf(&b, "Definition %s : list ga_stmt :=\n  %s.\n\n", m.def, coqList(verifyBody(fset, fd)))
	}
	cd := findFunc(uf, "", "ConstantTimeEqString")
	if cd == nil {
		return nil, fmt.Errorf("ConstantTimeEqString not found")
	}
	fmt.Fprintf(&b, "Definition gen_ct_eq : ga_cteq := %s.\n\n", ctEq(fset, cd))
	rc, err := regControl(fset, sf)
	if err != nil {
		return nil, err
	}
	fmt.Fprintf(&b, "Definition gen_register_control : ga_regctl :=\n  %s.\n\n", rc)
	gwf, err := parser.ParseFile(fset, filepath.Join(tx.Repo, "pkg/ssh/gateway.go"), nil, 0)
	if err != nil {
		return nil, err
	}
	ssf, err := parser.ParseFile(fset, filepath.Join(tx.Repo, "pkg/ssh/server.go"), nil, 0)
	if err != nil {
		return nil, err
	}
	gw, err := sshGateway(fset, gwf, ssf)
	if err != nil {
		return nil, err
	}
	fmt.Fprintf(&b, "Definition gen_ssh_gateway : ga_sshgw :=\n  %s.\n\n", gw)
	af, err := parser.ParseFile(fset, filepath.Join(tx.Repo, "pkg/auth/auth.go"), nil, 0)
	if err != nil {
		return nil, err
	}
	nav, err := newAuthVerifier(fset, af)
	if err != nil {
		return nil, err
	}
	fmt.Fprintf(&b, "Definition gen_new_auth_verifier : ga_newverifier :=\n  %s.\n\n", nav)
	cvf, err := parser.ParseFile(fset, filepath.Join(tx.Repo, "pkg/config/legacy/conversion.go"), nil, 0)
	if err != nil {
		return nil, err
	}
	la, err := legacyAuth(fset, cvf)
	if err != nil {
		return nil, err
	}
	fmt.Fprintf(&b, "Definition gen_legacy_server_auth : list (string * string) :=\n  %s.\n\n", la)
	lh, err := loginHook(fset, sf)
	if err != nil {
		return nil, err
	}
	fmt.Fprintf(&b, "Definition gen_login_hook : ga_loginhook :=\n  %s.\n\n", lh)
	mgf, err := parser.ParseFile(fset, filepath.Join(tx.Repo, "pkg/plugin/server/manager.go"), nil, 0)
	if err != nil {
		return nil, err
	}
	ml, err := managerLoginAdopt(fset, mgf)
	if err != nil {
		return nil, err
	}
	fmt.Fprintf(&b, "Definition gen_manager_login_adopt : list string :=\n  %s.\n", ml)
	return b.Bytes(), nil
}
