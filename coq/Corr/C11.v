(* C11 correspondence: observed behaviour of an in-process frps (server/control.go, server/service.go,
   server/proxy/proxy.go; hand-off: pkg/util/vhost/vhost.go, server/group/tcp.go, tcpmux.go) driven by a
   scripted client, against Model/Pool.v. *)
From FRP Require Export Corr.Common Model.Pool gen.GenSendLoop gen.GenAcceptPaths.
Open Scope Z_scope.

(* A phase: run the listed threads, each for the given number of its own steps (64 = "until it blocks or
   finishes": stepping a blocked or finished thread is a no-op), then compare the number of ReqWorkConn the
   scripted client has received so far and len(workConnCh); -1 = not observed at this checkpoint. *)
Definition phase := (list (Z * Z) * Z * Z)%type.   (* thread ids and step counts are written as Z by the harness *)

Inductive case :=
| CPool (client_pc server_max : Z) (reqs : list preq) (dead : list Z)
        (wfail_from : Z)                           (* writes on the control connection fail from the k-th dequeued
                                                      message on; -1 = never *)
        (phases : list phase)
        (torn : bool)                              (* the session was ended during the case *)
        (conns : list (Z * Z))                     (* per work socket: 0 open+idle | 1 closed | 2+u bridged to user u *)
        (users : list (Z * Z))                     (* per user socket: 0 open, unserved | 1 closed | 2+c bridged to conn c *)
        (starts : list (Z * bytes * bytes * Z))  (* StartWorkConn read on conn: proxy name, src addr, src port *)
        (flows : list (Z * Z))                     (* payload written by user u was seen (decoded) on work conn c *)
| CHand (group : bool) (reqs : list hreq) (sched : list Z)
        (fates : list (Z * Z))                   (* per user socket: 1 accepted | 2 closed | 3 still open with no peer *)
| CVis (cap : Z) (reqs : list ireq) (sched : list Z)
       (loop_ended : Z)                           (* the accept loop: 0 still running | 1 seen to return | 2 not observable: the
                                                     listener is closed and the real accept goroutine had its time *)
       (fates : list (Z * Z))                     (* per visitor socket: 1 handed to the handler | 2 closed | 3 open, unserved *)
| CGroup (members : Z) (reqs : list greq) (sched : list Z)
         (picks : list bool)                      (* how each select with closeCh and hand-off both ready resolved: true = hand-off *)
         (fates : list (Z * Z))                   (* per user socket: 10+m returned by member m's Accept | 2 closed | 3 open with no peer *)
| CVh (reqs : list vhreq) (sched : list Z)
      (picks : list Z)                            (* which waiting sender each successful Accept returned *)
      (fates : list (Z * Z)).                     (* per user socket: 1 returned by Accept | 2 closed | 3 open with no peer *)

Definition sched_of (l : list (Z * Z)) : list nat :=
  List.concat (map (fun p => repeat (Z.to_nat (fst p)) (Z.to_nat (snd p))) l).

Definition cfg_of (client_pc server_max : Z) (reqs : list preq) (dead : list Z) (wfail_from : Z) : pcfg :=
  {| cf_client_pc := client_pc; cf_server_max := server_max; cf_reqs := reqs;
     cf_dead := fun c => existsb (Z.eqb (Z.of_nat c)) dead;
     (* capacity of sendCh and the send loop's reaction to a write error: as today's source says (T11send) *)
     cf_qcap := gen_sendch_cap;
     cf_wfail := fun k => (0 <=? wfail_from) && (wfail_from <=? k);
     cf_sl_survives := gen_sendloop_survives_write_error |}.

Definition conn_code (s : pst) (c : nat) : Z :=
  match pl_view s c with
  | VInPool => 0
  | VClosed => 1
  | VDelivered u => 2 + Z.of_nat u
  | VNone => 97 | VInFlight => 98 | VLost => 99
  end.

Definition user_code (s : pst) (u : nat) : Z :=
  match ps_user s u with
  | UOpen => 0
  | UClosed => 1
  | UBridged c => 2 + Z.of_nat c
  | UNone => 97
  end.

(* run the phases; first disagreement: 100*k + 1 (requests) / 100*k + 2 (pool length), k = phase number from 1 *)
Fixpoint run_phases (cfg : pcfg) (k : Z) (ps : list phase) (s : pst) : pst * Z :=
  match ps with
  | [] => (s, 0)
  | (l, oreq, olen) :: r =>
      let s1 := pl_run cfg (sched_of l) s in
      if negb ((oreq =? -1) || (oreq =? ps_sent s1)) then (s1, 100 * k + 1)
      else if negb ((olen =? -1) || (olen =? pl_pool_len s1)) then (s1, 100 * k + 2)
      else run_phases cfg (k + 1) r s1
  end.

Definition start_matches (s : pst) (o : Z * bytes * bytes * Z) : bool :=
  let '(c, proxy, src, sport) := o in
  existsb (fun e => (Z.of_nat (st_conn e) =? c) && bytes_eqb (st_proxy e) proxy && bytes_eqb (st_src e) src
                    && (st_sport e =? sport)) (ps_log s).

Definition hand_code (f : hfate) : Z :=
  match f with
  | HAccepted => 1
  | HClosedNoRoute | HClosedOnFail => 2
  | HLost => 3
  | HNew | HChosen => 8
  | HNoConn => 9
  end.

Definition vis_code (f : ifate) : Z :=
  match f with
  | IHandled => 1
  | IClosed => 2
  | IQueued => 3
  | IOffered => 8
  | INoConn => 9
  end.

Definition group_code (f : gfate) : Z :=
  match f with
  | GHandled m => 10 + Z.of_nat m
  | GRefused | GClosedOnFail => 2
  | GLost | GTaken _ => 3
  | GNew | GPending => 8
  | GNoConn => 9
  end.

(* the group model's two code-dependent flags, as today's source says *)
Definition group_cfg (members : Z) (reqs : list greq) (picks : list bool) : gcfg :=
  {| gc_reqs := reqs; gc_members := Z.to_nat members; gc_pick := fun k => nth k picks false;
     gc_close_on_fail := h_code_closes_on_fail;
     gc_recheck_drops := negb (group_accepts_ok gen_group_accepts) |}.

Definition vh_code (f : vhfate) : Z :=
  match f with
  | VhHandled => 1
  | VhClosedNoRoute | VhClosedOnFail => 2
  | VhPending => 3
  | VhNew => 8
  | VhNoConn => 9
  end.

Definition check_case (c : case) : Z :=
  match c with
  | CPool cpc smax reqs dead wf phases torn conns users starts flows =>
      let cfg := cfg_of cpc smax reqs dead wf in
      let '(s, code) := run_phases cfg 1 phases (pl_init cfg) in
      if negb (code =? 0) then code
      else if negb (forallb (fun p => conn_code s (Z.to_nat (fst p)) =? snd p) conns) then 3
      else if negb (forallb (fun p => user_code s (Z.to_nat (fst p)) =? snd p) users) then 4
      else if negb (forallb (start_matches s) starts) then 5
      else if negb (Z.of_nat (length (ps_log s)) =? Z.of_nat (length starts)) then 6
      else if negb (Bool.eqb torn (negb (ps_mapped s))) then 7
      else if negb (forallb (fun p => user_code s (Z.to_nat (fst p)) =? 2 + snd p) flows) then 8
      else 0
  | CHand group reqs sched fates =>
      let cfg := if group then h_group_cfg reqs else h_vhost_cfg reqs in
      let s := h_exec cfg (map Z.to_nat sched) in
      if forallb (fun p => hand_code (hs_fate s (Z.to_nat (fst p))) =? snd p) fates then 0 else 11
  | CVis cap reqs sched loop_ended fates =>
      let s := il_exec {| ic_cap := cap; ic_reqs := reqs |} (map Z.to_nat sched) in
      if negb (cap =? il_code_cap) then 40
      else if negb (forallb (fun p => vis_code (is_fate s (Z.to_nat (fst p))) =? snd p) fates) then 41
      else if negb ((loop_ended =? 2) ||
                    Bool.eqb (loop_ended =? 1)
                      (existsb (fun t => match is_thr s t with Some ILEnd => true | _ => false end)
                               (seq 0 (length reqs)))) then 42
      else 0
  | CVh reqs sched picks fates =>
      let cfg := {| vc_reqs := reqs; vc_pick := fun k => Z.to_nat (nth k picks (-1));
                    vc_close_releases := gen_vhost_handoff_released_by_close |} in
      let s := v_exec cfg (map Z.to_nat sched) in
      if forallb (fun p => vh_code (vs_fate s (Z.to_nat (fst p))) =? snd p) fates then 0 else 71
  | CGroup members reqs sched picks fates =>
      let s := g_exec (group_cfg members reqs picks) (map Z.to_nat sched) in
      if forallb (fun p => group_code (gs_fate s (Z.to_nat (fst p))) =? snd p) fates then 0 else 61
  end.

(* ---- the property as a monitor on the observations alone (no model run) ---- *)

Fixpoint nodup_z (l : list Z) : bool :=
  match l with [] => true | x :: r => negb (existsb (Z.eqb x) r) && nodup_z r end.

Definition C11_holds (c : case) : Z :=
  match c with
  | CPool cpc smax reqs dead wf phases torn conns users starts flows =>
      let pc := Z.max 0 (Z.min cpc smax) in
      (* pooled connections never exceed poolCount + 10 *)
      if negb (forallb (fun p : phase => snd p <=? pc + 10) phases) then 21
      (* advance requests: the first checkpoint is taken right after login *)
      else if negb (match phases with (_, oreq, _) :: _ => (oreq =? -1) || (oreq =? pc) || (0 <=? wf) | [] => true end) then 22
      (* a work connection is announced (hence consumed) at most once *)
      else if negb (nodup_z (map (fun o => fst (fst (fst o))) starts)) then 23
      (* after the session ended no work socket is left open and idle *)
      else if torn && existsb (fun p => snd p =? 0) conns then 24
      (* no user socket bridged to a conn that announces another user: conn code and user code are inverse *)
      else if negb (forallb (fun p => (snd p <? 2) ||
                       existsb (fun q => (fst q =? snd p - 2) && (snd q =? 2 + fst p)) conns) users) then 25
      (* write-fault cases end after every user's timeout has been waited for: none may still be open *)
      else if (0 <=? wf) && existsb (fun p => snd p =? 0) users then 26
      (* payload of user u shows up only on the work connection that was announced for u *)
      else if negb (forallb (fun f => existsb (fun q => (fst q =? snd f) && (snd q =? 2 + fst f)) conns) flows) then 27
      else 0
  | CHand _ _ _ fates =>
      if existsb (fun p => snd p =? 3) fates then 31 else 0
  | CVis _ _ _ loop_ended fates =>
      (* once the accept loop has returned no visitor connection is left open and unserved *)
      if (1 <=? loop_ended) && existsb (fun p => snd p =? 3) fates then 51 else 0
  | CGroup _ _ _ _ fates =>
      if existsb (fun p => snd p =? 3) fates then 62 else 0
  | CVh _ _ _ fates =>
      (* every case ends after Close and after every handle goroutine had its turn: nobody may be left in the hand-off *)
      if existsb (fun p => snd p =? 3) fates then 72 else 0
  end.

Definition case_wfail (c : case) : bool := match c with CPool _ _ _ _ wf _ _ _ _ _ _ => 0 <=? wf | _ => false end.
Definition is_pool (c : case) : bool := match c with CPool _ _ _ _ _ _ _ _ _ _ _ => true | _ => false end.
Definition case_torn (c : case) : bool := match c with CPool _ _ _ _ _ _ t _ _ _ _ => t | _ => false end.
Definition case_has_dead (c : case) : bool := match c with CPool _ _ _ (_ :: _) _ _ _ _ _ _ _ => true | _ => false end.
Definition case_has_closed_user (c : case) : bool :=
  match c with CPool _ _ _ _ _ _ _ _ us _ _ => existsb (fun p => snd p =? 1) us | _ => false end.
Definition case_has_bridged (c : case) : bool :=
  match c with CPool _ _ _ _ _ _ _ _ us _ _ => existsb (fun p => 2 <=? snd p) us | _ => false end.
