package main

// Part of driver httpauth that exercises the real dashboard (server.NewService with webServer user/password) and the
// real frpc admin API (client.NewService) on loopback.

import (
	"bufio"
	"context"
	"fmt"
	"io"
	"net"
	"net/http"
	"os"
	"strings"
	"time"

	"github.com/samber/lo"

	_ "github.com/fatedier/frp/assets/frps"
	"github.com/fatedier/frp/client"
	v1 "github.com/fatedier/frp/pkg/config/v1"
	"github.com/fatedier/frp/server"

)

func init() { extraParts = append(extraParts, (*run).webPart) }

type webReq struct {
	method, path string
	last         bool // must run after everything else (it stops the service when authorised)
}

var dashboardReqs = []webReq{
	{"GET", "/healthz", false}, {"POST", "/healthz", false},
	{"GET", "/metrics", false},
	{"GET", "/api/serverinfo", false}, {"POST", "/api/serverinfo", false},
	{"GET", "/api/proxy/tcp", false},
	{"GET", "/api/proxy/tcp/nosuch", false},
	{"GET", "/api/traffic/nosuch", false},
	{"DELETE", "/api/proxies", false}, {"GET", "/api/proxies", false},
	{"GET", "/favicon.ico", false},
	{"GET", "/static/", false}, {"PUT", "/static/x", false},
	{"GET", "/", false}, {"POST", "/", false},
	{"GET", "/no/such/route", false},
	{"GET", "/debug/pprof/cmdline", false}, {"GET", "/debug/pprof/", false},
}

var adminReqs = []webReq{
	{"GET", "/healthz", false},
	{"GET", "/api/reload", false}, {"POST", "/api/reload", false},
	{"GET", "/api/status", false},
	{"GET", "/api/config", false}, {"PUT", "/api/config", false}, {"DELETE", "/api/config", false},
	{"GET", "/favicon.ico", false},
	{"GET", "/static/", false},
	{"GET", "/", false},
	{"GET", "/api/nosuch", false},
	{"GET", "/debug/pprof/cmdline", false},
	{"POST", "/api/stop", true}, {"GET", "/api/stop", false},
}

func freePorts(ip string, n int) ([]int, error) {
	// ports 20700..20799 belong to this property; concurrent runs of this driver pick different ones by probing
	var out []int
	start := 20700 + (os.Getpid()%25)*4
	for p := start; len(out) < n && p < start+100; p++ {
		q := 20700 + (p-20700)%100
		ln, err := net.Listen("tcp", fmt.Sprintf("%s:%d", ip, q))
		if err != nil {
			continue
		}
		ln.Close()
		out = append(out, q)
	}
	if len(out) < n {
		return nil, fmt.Errorf("no free port in 20700..20799 on %s", ip)
	}
	return out, nil
}

func (r *run) webPart(grid []credKind) error {
	const ip = "127.0.7.250"
	for vi, variant := range []struct {
		user, pass string
		flags      bool
	}{{"admin", "apw", true}, {"", "", false}} {
		ports, err := freePorts(ip, 3)
		if err != nil {
			return err
		}
		scfg := &v1.ServerConfig{}
		scfg.BindAddr = ip
		scfg.BindPort = ports[0]
		scfg.EnablePrometheus = variant.flags
		scfg.WebServer = v1.WebServerConfig{Addr: ip, Port: ports[1], User: variant.user, Password: variant.pass, PprofEnable: variant.flags}
		scfg.Complete()
		svr, err := server.NewService(scfg)
		if err != nil {
			return fmt.Errorf("frps: %w", err)
		}
		sctx, scancel := context.WithCancel(context.Background())
		go svr.Run(sctx)

		ccfg := &v1.ClientCommonConfig{}
		ccfg.ServerAddr = ip
		ccfg.ServerPort = ports[0]
		ccfg.LoginFailExit = lo.ToPtr(false)
		ccfg.WebServer = v1.WebServerConfig{Addr: ip, Port: ports[2], User: variant.user, Password: variant.pass, PprofEnable: variant.flags}
		ccfg.Complete()
		cli, err := client.NewService(client.ServiceOptions{Common: ccfg})
		if err != nil {
			scancel()
			return fmt.Errorf("frpc: %w", err)
		}
		cctx, ccancel := context.WithCancel(context.Background())
		go func() { _ = cli.Run(cctx) }()
		time.Sleep(150 * time.Millisecond)

		flagsCoq := "[]"
		if variant.flags {
			flagsCoq = `["EnablePrometheus"%string; "PprofEnable"%string]`
		}
		csym := fmt.Sprintf("(mk_cfg %s %s)", r.sym.b(variant.user), r.sym.b(variant.pass))
		for which, set := range [][]webReq{dashboardReqs, adminReqs} {
			addr := fmt.Sprintf("%s:%d", ip, ports[1+which])
			name := []string{"dashboard", "admin"}[which]
			type item struct {
				rq     areq
				id     string
				last   bool
				status int
				err    string

				routerMiss bool
			}
			var items, lastItems []*item
			n := 0
			right := basic(variant.user, variant.pass)
			for _, wr := range set {
				kinds := grid
				for _, a := range kinds {
					n++
					raw := a.raw
					if a.kind == "right" {
						raw = right
					}
					it := &item{rq: areq{form: "FOrigin", proto: "PH11", method: wr.method, hdrHost: "frp.test", path: wr.path, auth: raw,
						pauth: right, casing: n % 3}, id: fmt.Sprintf("a%d-%d-%d", vi, which, n), last: wr.last}
					authorised := (variant.user == "" && variant.pass == "") || raw == right
					if wr.last && authorised {
						lastItems = append(lastItems, it)
					} else {
						items = append(items, it)
					}
				}
			}
			do := func(it *item) {
				c, err := net.DialTimeout("tcp", addr, 3*time.Second)
				if err != nil {
					it.err = err.Error()
					return
				}
				defer c.Close()
				_ = c.SetDeadline(time.Now().Add(10 * time.Second))
				_, _ = io.WriteString(c, it.rq.wire(it.id))
				resp, err := http.ReadResponse(bufio.NewReader(c), &http.Request{Method: it.rq.method})
				if err != nil {
					it.err = err.Error()
					return
				}
				body, _ := io.ReadAll(io.LimitReader(resp.Body, 4096))
				it.status = resp.StatusCode
				// gorilla's own 404 (no route) as opposed to a 404 answered by a handler that ran
				it.routerMiss = resp.StatusCode == 404 && string(body) == "404 page not found\n"
			}
			parallel(len(items), 32, func(i int) { do(items[i]) })
			// the authorised stop request: only the first one can be answered, the service goes down with it
			if len(lastItems) > 0 {
				do(lastItems[0])
				items = append(items, lastItems[0])
			}
			for _, it := range items {
				if it.err != "" {
					r.errs++
					r.fail("zz-driver-io:"+name, "the driver could not complete a request against the "+name+" server: "+it.err, it.rq.String())
					continue
				}
				public := it.rq.path == "/healthz"
				if (variant.user != "" || variant.pass != "") && it.rq.auth != right && !public &&
					it.status != 401 && !it.routerMiss && it.status != 405 {
					r.fail("served-without-credentials:"+name,
						fmt.Sprintf("%s configured with %q:%q answered %d to %s %s carrying Authorization %q", name, variant.user, variant.pass, it.status, it.rq.method, it.rq.path, it.rq.auth),
						it.rq.String())
				}
				if variant.flags && (variant.user != "" || variant.pass != "") && it.rq.auth == "" && strings.HasPrefix(it.rq.path, "/debug/pprof/") {
					r.notes["pprof_without_credentials_status:"+name+":"+it.rq.path] = it.status
				}
				r.addCase(fmt.Sprintf("CWeb %d %s %s %s %d", which, flagsCoq, csym, it.rq.coq(r.sym), it.status), it.rq.auth != "",
					"web:"+name, fmt.Sprintf("web:%s:status-%d", name, it.status))
			}
		}
		ccancel()
		cli.Close()
		scancel()
		_ = svr.Close()
		time.Sleep(50 * time.Millisecond)
	}
	r.cfg.St["parts_web"] = true
	return nil
}
