package main

// Driver "plugins" (C15): the real pkg/plugin/server Manager against Model/PluginChain.v.
//
//  level 1  chains of 0-4 Go values implementing the exported Plugin interface, each registered
//           for a random subset of operations and scripted with one raw (res, retContent, err)
//  level 2  the same chains as real HTTP plugins (NewHTTPPluginOptions) talking to stub HTTP
//           servers on 127.0.15.x: non-200, connection reset, close without reply, truncated
//           body, garbage JSON, reject, unchange=false with modified / absent / null content
//  level 3  (sys.go) an in-process frps with HTTP plugins, scripted peer observing the gated operation
//
// Oracle: the requests each stub received, in order (plugin id, op string, content JSON), and
// the manager's answer (content JSON / reject reason / generic error / panic).

import (
	"context"
	"crypto/sha256"
	"encoding/json"
	"errors"
	"fmt"
	"io"
	"net"
	"net/http"
	"sort"
	"strings"
	"sync"
	"sync/atomic"
	"time"

	v1 "github.com/fatedier/frp/pkg/config/v1"
	"github.com/fatedier/frp/pkg/msg"
	plugin "github.com/fatedier/frp/pkg/plugin/server"
	"verifharness/hx"
)

func init() { drivers["plugins"] = runPlugins }

var allOps = []string{"Login", "NewProxy", "CloseProxy", "Ping", "NewWorkConn", "NewUserConn"}

// ---- scripts ----------------------------------------------------------------------------

type script struct {
	http bool
	// raw
	isErr    bool
	errKind  string // ETransport ENon200 EMalformed
	reject   bool
	reason   string
	unchange bool
	content  any // pointer to content struct, or nil
	// http
	trFail  string // "" | "reset" | "close"
	status  int
	body    string // what the stub writes
	bodyCoq string // BReadFail | BGarbage | BParsed ...
	trunc   bool
	slowMs  int // the stub sleeps this long before it answers (system level, NewUserConn only)
}

func (s *script) coq() string {
	if s.http {
		tr := "TOk"
		if s.trFail != "" {
			tr = "TFail"
		}
		return fmt.Sprintf("ScHttp %s %d (%s)", tr, s.status, s.bodyCoq)
	}
	if s.isErr {
		return "ScRaw (HErr " + s.errKind + ")"
	}
	c := "None"
	if s.content != nil {
		c = "(Some " + coqHx(cid(mustJSON(s.content))) + ")"
	}
	return fmt.Sprintf("ScRaw (HRes {| h_reject := %s; h_reason := %s; h_unchange := %s; h_content := %s |})",
		coqBool(s.reject), coqHxS(s.reason), coqBool(s.unchange), c)
}

func (s *script) class() string {
	switch {
	case s.http && s.trFail != "":
		return "http-" + s.trFail
	case s.http && s.status != 200:
		return "http-non200"
	case s.http && s.trunc:
		return "http-truncated"
	case s.http && s.bodyCoq == "BGarbage":
		return "http-garbage"
	case s.http:
		return "http-" + s.rclass()
	case s.isErr:
		return "raw-err"
	}
	return "raw-" + s.rclass()
}

func (s *script) rclass() string {
	switch {
	case s.reject:
		return "reject"
	case s.unchange:
		return "accept-unchanged"
	case s.content == nil:
		return "accept-nil-content"
	}
	return "accept-modified"
}

// cid: the projection of a content compared with the model: a 64-bit digest of its JSON text
// (the model treats contents as opaque; full JSON texts make the Coq case files too slow to parse)
func cid(b []byte) []byte {
	h := sha256.Sum256(b)
	return h[:8]
}

func mustJSON(v any) []byte {
	b, err := json.Marshal(v)
	if err != nil {
		panic(err)
	}
	return b
}

// ---- contents ---------------------------------------------------------------------------

var tagStrings = []string{"alice", "bob", "web-1", "ssh", "p<2>&", "ünï", "", "a b", `q"t`, "x/y", "日本"}

func (g *gen) metas() map[string]string {
	switch g.intn(3) {
	case 0:
		return nil
	case 1:
		return map[string]string{}
	}
	return map[string]string{"k": g.pick(tagStrings), "z": "1"}
}

func (g *gen) userInfo() plugin.UserInfo {
	return plugin.UserInfo{User: g.pick(tagStrings), Metas: g.metas(), RunID: fmt.Sprintf("run%d", g.intn(50))}
}

func (g *gen) content(op string) any {
	switch op {
	case "Login":
		return &plugin.LoginContent{Login: msg.Login{Version: "0.61.0", Hostname: g.pick(tagStrings), Os: "linux", Arch: "amd64",
			User: g.pick(tagStrings), PrivilegeKey: fmt.Sprintf("%x", g.bytes(4)), Timestamp: int64(g.intn(1 << 30)),
			RunID: fmt.Sprintf("r%d", g.intn(100)), Metas: g.metas(), PoolCount: g.intn(5)},
			ClientAddress: fmt.Sprintf("127.0.15.%d:%d", g.intn(200), 1024+g.intn(5000))}
	case "NewProxy":
		np := msg.NewProxy{ProxyName: g.pick(tagStrings) + fmt.Sprint(g.intn(9)), ProxyType: g.pick([]string{"tcp", "udp", "http", "stcp"}),
			RemotePort: g.intn(65536), UseEncryption: g.chance(0.3), Metas: g.metas()}
		if g.chance(0.3) {
			np.CustomDomains = []string{"a.example.com", g.pick(tagStrings)}
		}
		return &plugin.NewProxyContent{User: g.userInfo(), NewProxy: np}
	case "CloseProxy":
		return &plugin.CloseProxyContent{User: g.userInfo(), CloseProxy: msg.CloseProxy{ProxyName: g.pick(tagStrings)}}
	case "Ping":
		return &plugin.PingContent{User: g.userInfo(), Ping: msg.Ping{PrivilegeKey: fmt.Sprintf("%x", g.bytes(4)), Timestamp: int64(g.intn(1 << 30))}}
	case "NewWorkConn":
		return &plugin.NewWorkConnContent{User: g.userInfo(), NewWorkConn: msg.NewWorkConn{RunID: fmt.Sprintf("r%d", g.intn(100)),
			PrivilegeKey: fmt.Sprintf("%x", g.bytes(4)), Timestamp: int64(g.intn(1 << 30))}}
	case "NewUserConn":
		return &plugin.NewUserConnContent{User: g.userInfo(), ProxyName: g.pick(tagStrings), ProxyType: g.pick([]string{"tcp", "stcp", "https", "tcpmux"}),
			RemoteAddr: fmt.Sprintf("10.0.0.%d:%d", g.intn(255), g.intn(65536))}
	}
	panic("op")
}

func zeroContent(op string) any {
	switch op {
	case "Login":
		return &plugin.LoginContent{}
	case "NewProxy":
		return &plugin.NewProxyContent{}
	case "CloseProxy":
		return &plugin.CloseProxyContent{}
	case "Ping":
		return &plugin.PingContent{}
	case "NewWorkConn":
		return &plugin.NewWorkConnContent{}
	case "NewUserConn":
		return &plugin.NewUserConnContent{}
	}
	panic("op")
}

var rejectReasons = []string{"", "no", "denied by policy", "quota exceeded: 5", "é", "send request to plugin error?"}

var garbageBodies = []string{`{"reject":false,"unchange":true}}`, `{"reject":false,"unchange":true}{"reject":true}`,
	`{"reject":false,"unchange":true}<html>502 Bad Gateway</html>`, `{"unchange":true} x`, "", "not json", "{", `{"reject": "yes"}`, `[1,2]`, `{"unchange":false,"content":"str"}`,
	`{"unchange":false,"content":{"user":5}}`, `{"reject":false,"unchange":true} trailing`, "\x00\x01\x02", `{"unchange":tru}`, `"reject"`, `{"reject":false,"unchange":true,"content":[1]}`}

var non200 = []int{201, 204, 400, 401, 403, 404, 500, 502, 503}

func (g *gen) script(op string, isHTTP bool) *script {
	return g.scriptWith(isHTTP, func() any { return g.content(op) }, true)
}

// scriptWith: mk yields the contents a plugin may answer with; allowNil permits the
// `"content": null` reply (it panics the manager, so the in-process system level avoids it)
func (g *gen) scriptWith(isHTTP bool, mk func() any, allowNil bool) *script {
	s := &script{http: isHTTP, status: 200}
	k := g.intn(100)
	if !allowNil && k >= 58 && k < 63 {
		k = 40
	}
	switch {
	case k < 30: // accept unchanged
		s.unchange = true
		if g.chance(0.3) {
			s.content = mk() // a content that must be ignored
		}
	case k < 58: // accept modified
		s.content = mk()
	case k < 63: // accept, unchange=false, null content
	case k < 75:
		s.reject = true
		s.reason = g.pick(rejectReasons)
		s.unchange = g.chance(0.5)
		if g.chance(0.5) {
			s.content = mk()
		}
	default:
		s.isErr = true
		s.errKind = g.pick([]string{"ETransport", "ENon200", "EMalformed"})
	}
	if !isHTTP {
		return s
	}
	// realise the same intent over HTTP
	absent := false
	if s.isErr {
		switch s.errKind {
		case "ETransport":
			switch g.intn(4) {
			case 0:
				s.trFail = "reset"
			case 1:
				s.trFail = "close"
			case 2:
				s.trFail = "refused" // nobody listens on the plugin's address (level 2 only; elsewhere realised as a reset)
			default:
				s.trunc = true
			}
		case "ENon200":
			s.status = non200[g.intn(len(non200))]
		}
	}
	// the body the stub would send (also sent with non-200 statuses: must not matter)
	valid := !(s.isErr && s.errKind == "EMalformed")
	if s.isErr && s.errKind != "EMalformed" {
		// a perfectly acceptable reply behind the failure
		s.unchange = g.chance(0.5)
		if !s.unchange {
			s.content = mk()
		}
	}
	if valid {
		m := map[string]any{}
		if s.reject || g.chance(0.7) {
			m["reject"] = s.reject
		}
		if s.reason != "" || g.chance(0.5) {
			m["reject_reason"] = s.reason
		}
		if s.unchange || g.chance(0.7) {
			m["unchange"] = s.unchange
		}
		cf := "CFNull"
		if s.content != nil {
			m["content"] = s.content
			cf = "(CFVal " + coqHx(cid(mustJSON(s.content))) + ")"
		} else if g.chance(0.5) && (allowNil || s.unchange || s.reject) {
			absent = true
			cf = "CFAbsent"
		} else if !allowNil && !s.unchange && !s.reject {
			c := mk()
			s.content = c
			m["content"] = c
			cf = "(CFVal " + coqHx(cid(mustJSON(c))) + ")"
		} else {
			m["content"] = nil
		}
		_ = absent
		s.body = string(mustJSON(m))
		if len(m) == 0 && g.chance(0.5) {
			s.body = "null"
		}
		s.bodyCoq = fmt.Sprintf("BParsed %s %s %s %s", coqBool(s.reject), coqHxS(s.reason), coqBool(s.unchange), cf)
	} else {
		s.body = garbageBodies[g.intn(len(garbageBodies))]
		s.bodyCoq = "BGarbage"
	}
	if s.trunc {
		s.bodyCoq = "BReadFail"
	}
	return s
}

// ---- recorder ---------------------------------------------------------------------------

type seenReq struct {
	id      int
	op      string
	content []byte
}

type recorder struct {
	mu   sync.Mutex
	reqs []seenReq
	bad  []string
}

func (r *recorder) add(id int, op string, c []byte) {
	r.mu.Lock()
	r.reqs = append(r.reqs, seenReq{id, op, append([]byte(nil), c...)})
	r.mu.Unlock()
}

func (r *recorder) take() []seenReq {
	r.mu.Lock()
	defer r.mu.Unlock()
	x := r.reqs
	r.reqs = nil
	return x
}

func coqSeen(reqs []seenReq) string {
	var it []string
	for _, q := range reqs {
		it = append(it, fmt.Sprintf("(%d, %s, %s)", q.id, coqStr(q.op), coqHx(cid(q.content))))
	}
	return coqList(it)
}

// ---- level 1: Go-value plugins ----------------------------------------------------------

type goStub struct {
	id  int
	ops []string
	sc  *script
	rec *recorder
}

func (s *goStub) Name() string { return fmt.Sprintf("p%d", s.id) }
func (s *goStub) IsSupport(op string) bool {
	for _, o := range s.ops {
		if o == op {
			return true
		}
	}
	return false
}
func (s *goStub) Handle(_ context.Context, op string, content any) (*plugin.Response, any, error) {
	s.rec.add(s.id, op, mustJSON(content))
	if s.sc.isErr {
		return nil, nil, errors.New("scripted " + s.sc.errKind)
	}
	res := &plugin.Response{Reject: s.sc.reject, RejectReason: s.sc.reason, Unchange: s.sc.unchange}
	if s.sc.content == nil {
		return res, nil, nil
	}
	res.Content = s.sc.content
	return res, s.sc.content, nil
}

// ---- level 2: HTTP stubs ----------------------------------------------------------------

type httpStub struct {
	onlyOp    string              // when set, the script applies to this op only; other ops are accepted unchanged and not recorded
	notes     []string            // proxy names of the CloseProxy notifications received while onlyOp is set
	token     string              // path token of the case this stub currently serves: /handler/<token>
	foreign   map[string][]string // requests that carry ANOTHER case's token (late asynchronous notifications): op:proxy per token
	noteDelay time.Duration       // every CloseProxy notification is answered only after this long (alive but slow)
	noteFail  uint64              // bit i set: the i-th notification is answered with a failure (500 / reset / garbage, by i mod 3)
	id        int
	ln        net.Listener
	srv       *http.Server
	mu        sync.Mutex
	sc        *script
	rec       *recorder
	addr      string
}

func newHTTPStub(id int, rec *recorder) (*httpStub, error) {
	return newHTTPStubAt(id, 10+id, rec)
}

func newHTTPStubAt(id, host int, rec *recorder) (*httpStub, error) {
	ln, err := net.Listen("tcp", fmt.Sprintf("127.0.15.%d:0", host))
	if err != nil {
		return nil, err
	}
	st := &httpStub{id: id, ln: ln, rec: rec, addr: ln.Addr().String()}
	st.srv = &http.Server{Handler: st}
	go func() { _ = st.srv.Serve(ln) }()
	return st, nil
}

func (st *httpStub) set(sc *script) {
	st.mu.Lock()
	st.sc = sc
	st.mu.Unlock()
}

// arm: the stub now serves the case with this path token
func (st *httpStub) arm(token string) {
	st.mu.Lock()
	st.token = token
	st.mu.Unlock()
}

var foreignRequests atomic.Int64

func (st *httpStub) ServeHTTP(w http.ResponseWriter, r *http.Request) {
	st.mu.Lock()
	sc := st.sc
	st.mu.Unlock()
	raw, _ := io.ReadAll(r.Body)
	var req struct {
		Version string          `json:"version"`
		Op      string          `json:"op"`
		Content json.RawMessage `json:"content"`
	}
	if err := json.Unmarshal(raw, &req); err != nil {
		st.rec.mu.Lock()
		st.rec.bad = append(st.rec.bad, "request body is not JSON: "+err.Error())
		st.rec.mu.Unlock()
	}
	if r.Method != "POST" || r.URL.Query().Get("op") != req.Op || r.URL.Query().Get("version") != req.Version ||
		req.Version != plugin.APIVersion || r.Header.Get("X-Frp-Reqid") == "" || !strings.HasPrefix(r.URL.Path, "/handler/") {
		st.rec.mu.Lock()
		st.rec.bad = append(st.rec.bad, fmt.Sprintf("malformed plugin request: %s %s op=%q version=%q", r.Method, r.URL.String(), req.Op, req.Version))
		st.rec.mu.Unlock()
	}
	// every case configures its plugins with its own path token: a request that carries another token
	// belongs to an earlier case (CloseProxy notifications are sent from goroutines that outlive the
	// session and the frps that started them) -- it is booked to that case and never to the current one
	tok := strings.TrimPrefix(r.URL.Path, "/handler/")
	st.mu.Lock()
	cur := st.token
	if tok != cur {
		if st.foreign == nil {
			st.foreign = map[string][]string{}
		}
		st.foreign[tok] = append(st.foreign[tok], req.Op)
	}
	only := st.onlyOp
	st.mu.Unlock()
	if tok != cur {
		foreignRequests.Add(1)
		w.Header().Set("Content-Type", "application/json")
		_, _ = io.WriteString(w, `{"reject":false,"unchange":true}`)
		return
	}
	if only != "" && req.Op != only {
		if req.Op == "CloseProxy" {
			var cp struct {
				ProxyName string `json:"proxy_name"`
			}
			_ = json.Unmarshal(req.Content, &cp)
			st.mu.Lock()
			idx := len(st.notes)
			st.notes = append(st.notes, cp.ProxyName)
			failing := idx < 64 && st.noteFail&(1<<uint(idx)) != 0
			delay := st.noteDelay
			st.mu.Unlock()
			if delay > 0 {
				time.Sleep(delay)
			}
			if failing {
				w.Header().Set("Connection", "close")
				switch idx % 3 {
				case 0:
					w.WriteHeader(500)
				case 1:
					if hj, ok := w.(http.Hijacker); ok {
						if c, _, err := hj.Hijack(); err == nil {
							if tc, ok := c.(*net.TCPConn); ok {
								_ = tc.SetLinger(0)
							}
							c.Close()
						}
					}
				default:
					_, _ = io.WriteString(w, "{not json")
				}
				return
			}
		}
		w.Header().Set("Content-Type", "application/json")
		_, _ = io.WriteString(w, `{"reject":false,"unchange":true}`)
		return
	}
	st.rec.add(st.id, req.Op, req.Content)
	if sc != nil && sc.slowMs > 0 {
		time.Sleep(time.Duration(sc.slowMs) * time.Millisecond)
	}
	if sc == nil {
		w.WriteHeader(599)
		return
	}
	w.Header().Set("Connection", "close")
	switch {
	case sc.trFail != "":
		hj, ok := w.(http.Hijacker)
		if !ok {
			return
		}
		c, _, err := hj.Hijack()
		if err != nil {
			return
		}
		if sc.trFail == "reset" || sc.trFail == "refused" {
			if tc, ok := c.(*net.TCPConn); ok {
				_ = tc.SetLinger(0)
			}
		}
		c.Close()
	case sc.trunc:
		hj, ok := w.(http.Hijacker)
		if !ok {
			return
		}
		c, bw, err := hj.Hijack()
		if err != nil {
			return
		}
		fmt.Fprintf(bw, "HTTP/1.1 200 OK\r\nContent-Type: application/json\r\nContent-Length: %d\r\nConnection: close\r\n\r\n%s", len(sc.body)+50, sc.body)
		bw.Flush()
		c.Close()
	default:
		w.Header().Set("Content-Type", "application/json")
		w.WriteHeader(sc.status)
		_, _ = io.WriteString(w, sc.body)
	}
}

// deadPort: a port on addr that was just bound and released: connecting to it is refused
func deadPort(addr string) int {
	l, err := net.Listen("tcp", addr+":0")
	if err != nil {
		return 1
	}
	p := l.Addr().(*net.TCPAddr).Port
	l.Close()
	return p
}

// ---- calling the manager ----------------------------------------------------------------

// callOp: kind 0 ok / 1 rejected / 2 generic error / 3 panic
func callOp(m *plugin.Manager, op string, c any) (kind int, payload []byte) {
	defer func() {
		if r := recover(); r != nil {
			kind, payload = 3, nil
		}
	}()
	var ret any
	var err error
	switch op {
	case "Login":
		ret, err = m.Login(c.(*plugin.LoginContent))
	case "NewProxy":
		ret, err = m.NewProxy(c.(*plugin.NewProxyContent))
	case "CloseProxy":
		err = m.CloseProxy(c.(*plugin.CloseProxyContent))
		ret = c
		if err != nil {
			return 2, nil
		}
	case "Ping":
		ret, err = m.Ping(c.(*plugin.PingContent))
	case "NewWorkConn":
		ret, err = m.NewWorkConn(c.(*plugin.NewWorkConnContent))
	case "NewUserConn":
		ret, err = m.NewUserConn(c.(*plugin.NewUserConnContent))
	}
	if err != nil {
		if err.Error() == "send "+op+" request to plugin error" {
			return 2, nil
		}
		return 1, []byte(err.Error())
	}
	return 0, cid(mustJSON(ret))
}

var opStringsPool = []string{"Login", "NewProxy", "CloseProxy", "Ping", "NewWorkConn", "NewUserConn", "login", "Ping ", "NewUserCon", "All"}

func (g *gen) opSubset(focus string) []string {
	var ops []string
	has := false
	for _, o := range allOps {
		p := 0.35
		if o == focus {
			p = 0.7
		}
		if g.chance(p) {
			ops = append(ops, o)
			if o == focus {
				has = true
			}
		}
	}
	if !has && g.chance(0.5) {
		// a near miss of the operation asked for: IsSupport compares the strings exactly
		switch g.intn(6) {
		case 0:
			ops = append(ops, strings.ToLower(focus))
		case 1:
			ops = append(ops, strings.ToUpper(focus))
		case 2:
			ops = append(ops, focus+" ")
		case 3:
			ops = append(ops, " "+focus)
		case 4:
			ops = append(ops, focus[:len(focus)-1])
		default:
			ops = append(ops, "Op"+focus)
		}
	} else if g.chance(0.1) {
		ops = append(ops, opStringsPool[6+g.intn(4)])
	}
	// registration order of the strings is irrelevant; shuffle so that nothing depends on it
	g.R.Shuffle(len(ops), func(i, j int) { ops[i], ops[j] = ops[j], ops[i] })
	return ops
}

func coqPlugins(ids []int, ops [][]string) string {
	var it []string
	for i, id := range ids {
		var os []string
		for _, o := range ops[i] {
			os = append(os, coqStr(o))
		}
		it = append(it, fmt.Sprintf("(%d, %s)", id, coqList(os)))
	}
	return coqList(it)
}

const c15Imports = "From FRP Require Import Corr.C15.\nImport PC.\nOpen Scope Z_scope.\nOpen Scope string_scope.\n"

const c15Tail = "Definition M := Eval vm_compute in mismatches check_case cases.\nPrint M.\n" +
	"Definition NOK := Eval vm_compute in (count_if (fun c => (case_result c =? 0)%Z) cases : Z).\nPrint NOK.\n" +
	"Definition NREJECTED := Eval vm_compute in (count_if (fun c => (case_result c =? 1)%Z) cases : Z).\nPrint NREJECTED.\n" +
	"Definition NERROR := Eval vm_compute in (count_if (fun c => (case_result c =? 2)%Z) cases : Z).\nPrint NERROR.\n" +
	"Definition NCRASH := Eval vm_compute in (count_if (fun c => (case_result c =? 3)%Z) cases : Z).\nPrint NCRASH.\n" +
	"Definition NTHREADED := Eval vm_compute in (count_if threaded cases : Z).\nPrint NTHREADED.\n" +
	"Definition NMULTI := Eval vm_compute in (count_if (fun c => (2 <=? n_consulted c)%Z) cases : Z).\nPrint NMULTI.\n" +
	"Definition NHTTP := Eval vm_compute in (count_if (is_level 2) cases : Z).\nPrint NHTTP.\n" +
	"Definition NSYS := Eval vm_compute in (count_if is_sys cases : Z).\nPrint NSYS.\n" +
	"Definition NNOTIFY := Eval vm_compute in (count_if is_notify cases : Z).\nPrint NNOTIFY.\n" +
	"Definition NDUPNAMES := Eval vm_compute in (count_if dup_names cases : Z).\nPrint NDUPNAMES.\n" +
	"Definition NUNREACHABLE := Eval vm_compute in (count_if has_blind cases : Z).\nPrint NUNREACHABLE.\n"

func runPlugins(cfg *runCfg) error {
	hx.Quiet()
	g := newGen(cfg.Seed)
	cf := &caseFile{Imports: c15Imports, Typ: "case", Tail: c15Tail}
	rec := &recorder{}
	var stubs []*httpStub
	for i := 1; i <= 4; i++ {
		st, err := newHTTPStub(i, rec)
		if err != nil {
			return err
		}
		stubs = append(stubs, st)
	}
	defer func() {
		for _, st := range stubs {
			st.srv.Close()
		}
	}()

	distinct := map[string]bool{}
	dist := map[string]int{}
	implFail := []map[string]string{}
	samples := []string{}

	nSys := 0
	if cfg.Tier == "quick" {
		nSys = cfg.N / 12
	} else {
		nSys = cfg.N / 20
	}
	nMgr := cfg.N - nSys
	for n := 0; n < nMgr; n++ {
		level := 1
		if g.chance(0.45) {
			level = 2
		}
		opi := g.intn(len(allOps))
		op := allOps[opi]
		np := g.intn(5)
		ids := make([]int, np)
		opsets := make([][]string, np)
		scripts := make([]*script, np)
		m := plugin.NewManager()
		var scCoq []string
		var blind []string
		for i := 0; i < np; i++ {
			ids[i] = i + 1
			opsets[i] = g.opSubset(op)
			scripts[i] = g.script(op, level == 2)
			scCoq = append(scCoq, fmt.Sprintf("(%d, %s)", ids[i], scripts[i].coq()))
			if level == 1 {
				m.Register(&goStub{id: ids[i], ops: opsets[i], sc: scripts[i], rec: rec})
			} else {
				stubs[i].set(scripts[i])
				stubs[i].arm(fmt.Sprintf("m%d", n))
				addr := "http://" + stubs[i].addr
				if scripts[i].trFail == "refused" {
					// an address of ours with no listener: the plugin cannot be reached at all
					addr = fmt.Sprintf("http://127.0.15.%d:%d", 40+i, deadPort(fmt.Sprintf("127.0.15.%d", 40+i)))
					blind = append(blind, fmt.Sprint(ids[i]))
				} else if g.chance(0.3) {
					addr = stubs[i].addr // NewHTTPPluginOptions adds the scheme
				}
				m.Register(plugin.NewHTTPPluginOptions(v1.HTTPPluginOptions{Name: fmt.Sprintf("p%d", ids[i]), Addr: addr, Path: fmt.Sprintf("/handler/m%d", n), Ops: opsets[i]}))
			}
		}
		c0 := g.content(op)
		c0json := mustJSON(c0)
		rec.take()
		kind, payload := callOp(m, op, c0)
		seen := rec.take()
		if level == 2 {
			for _, st := range stubs {
				st.set(nil)
				st.arm("")
			}
		}
		txt := fmt.Sprintf("CMgr %d %d %s %s %s %s %s %d %s %s", level, opi, coqPlugins(ids, opsets), coqList(scCoq), coqList(blind),
			coqHx(cid(mustJSON(zeroContent(op)))), coqHx(cid(c0json)), kind, coqHx(payload), coqSeen(seen))
		cf.Cases = append(cf.Cases, txt)
		if len(seen) > 0 {
			distinct[txt] = true
		}
		dist[fmt.Sprintf("level%d", level)]++
		dist["op:"+op]++
		dist[fmt.Sprintf("plugins:%d", np)]++
		dist[fmt.Sprintf("consulted:%d", len(seen))]++
		dist[fmt.Sprintf("result:%d", kind)]++
		for i, q := range seen {
			_ = i
			if q.id >= 1 && q.id <= np {
				dist["outcome:"+scripts[q.id-1].class()]++
			}
		}
		// property monitor on the Go side: nobody consulted who is not registered for op; panic is a finding
		for _, q := range seen {
			ok := false
			if q.id >= 1 && q.id <= np {
				for _, o := range opsets[q.id-1] {
					if o == op {
						ok = true
					}
				}
			}
			if !ok || q.op != op {
				implFail = append(implFail, map[string]string{"key": "impl:unregistered-consulted", "what": "a plugin not registered for the operation received a request", "case": txt})
			}
		}
		if len(samples) < 3 && len(seen) >= 2 {
			samples = append(samples, txt)
		}
	}
	rec.mu.Lock()
	for _, b := range rec.bad {
		implFail = append(implFail, map[string]string{"key": "impl:malformed-plugin-request", "what": b, "case": b})
	}
	rec.bad = nil
	rec.mu.Unlock()

	// level 3
	sysCases, sysDist, sysFail, err := runSysInChild(cfg, nSys)
	if err != nil {
		return err
	}
	for _, c := range sysCases {
		cf.Cases = append(cf.Cases, c)
		distinct[c] = true
	}
	for k, v := range sysDist {
		dist[k] += v
	}
	implFail = append(implFail, sysFail...)
	if len(sysCases) > 0 {
		samples = append(samples, sysCases[0])
	}

	if err := cf.Write(cfg.Out); err != nil {
		return err
	}
	keys := make([]string, 0, len(dist))
	for k := range dist {
		keys = append(keys, k)
	}
	sort.Strings(keys)
	cfg.St["cases"] = len(cf.Cases)
	cfg.St["distinct_nontrivial"] = len(distinct)
	cfg.St["distribution"] = dist
	for i := range samples {
		if len(samples[i]) > 1500 {
			samples[i] = samples[i][:1500] + "..."
		}
	}
	cfg.St["samples"] = samples
	cfg.St["impl_failures"] = implFail
	if nSys > 0 {
		crashed, detail := nullContentCrashProbe()
		cfg.St["null_content_reply_crashes_frps"] = crashed
		cfg.St["null_content_probe_detail"] = detail
	}
	_ = strings.Join
	return nil
}
