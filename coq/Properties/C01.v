(* C01 — TCP-class tunnels are byte-transparent end to end and never cross-wired.
   Only statements here; proofs live in Proofs/{Limit,Bucket,Stack,Bridge}Proofs.v.  Every theorem is
   followed by Print Assumptions.  Theorems marked "reflective" are computed over today's translator
   output (gen/GenStacks.v, unit t5).
   Modelled as lawful codecs / reliable pipes, NOT verified: AES-CFB, snappy, yamux, kcp, quic,
   websocket, TLS, the kernel.  "Eventually delivered" and "closed within bounded time" are observed
   by the tunnel driver with a tolerance.  The claim is partial. *)
From FRP Require Import Model.Limit Model.Bucket Model.Stack Model.Bridge Model.Bandwidth
  Proofs.LimitProofs Proofs.BucketProofs Proofs.StackProofs Proofs.BridgeProofs Proofs.BandwidthProofs gen.GenStacks.
From Coq Require Import Lia.
Open Scope list_scope.
Open Scope Z_scope.

(* ---- the limiter wrapper is lossless ---- *)

(* Writer.Write: for ALL p and every burst b > 0 the loop returns normally with count |p|; the inner
   writes concatenate to exactly p; each is non-empty and <= b (so WaitN never fails on the burst) *)
Theorem C01_limit_write_lossless : forall b p, 0 < b ->
  exists l, limit_write_full b p = Some (blen p, l) /\ limit_write b p = Some l /\
            List.concat l = p /\ Forall (fun c => 0 < blen c <= b) l.
Proof. exact limit_write_lossless. Qed.
Print Assumptions C01_limit_write_lossless.

(* Reader.Read: any sequence of reads (buffer size, how much the inner reader hands over) returns a
   prefix of the stream, followed by exactly the unread rest; each slice <= burst *)
Theorem C01_limit_read_lossless : forall b reads s, 0 < b ->
  let '(outs, eof, rest) := limit_read_seq b s reads in
  List.concat outs ++ rest = s /\ Forall (fun c => blen c <= b) outs /\ (eof = true -> rest = []).
Proof. exact limit_read_lossless. Qed.
Print Assumptions C01_limit_read_lossless.

Theorem C01_limit_read_shrinks : forall b s plen offer, 0 < b ->
  let '(out, _, _, n) := limit_read1 b s plen offer in
  blen out = n /\ n <= b /\ n <= Z.max 0 plen.
Proof. exact limit_read_shrinks. Qed.
Print Assumptions C01_limit_read_shrinks.

(* ---- the bandwidth bound ---- *)

(* One limiter is shared by both directions and all connections of a proxy; [reqs] is the history of
   its reservations (request time in ns, bytes) in mutex order, with a monotonic clock and sizes within
   the burst (guaranteed by the two theorems above).  For ANY contiguous segment of the history, from
   the reservation acting at a_j to the one acting at a_i:
       bytes granted  <=  burst + rate * (a_i - a_j)   [+ rate/10^9: waits are truncated to whole ns]
   (everything scaled by G = 10^9 because rate is per second and time in ns). *)
Theorem C01_bucket_bound : forall rate burst st reqs pre aj nj mid ai ni post, 0 < rate ->
  reqs_ok burst st reqs ->
  bk_run rate burst st reqs = Some (pre ++ (aj, nj) :: mid ++ (ai, ni) :: post) ->
  BK_G * (nj + sumn mid + ni) <= BK_G * burst + rate * (ai - aj) + rate.
Proof. intros rate burst st reqs pre aj nj mid ai ni post Hr. exact (bucket_bound_segment rate burst Hr st reqs pre aj nj mid ai ni post). Qed.
Print Assumptions C01_bucket_bound.

(* hence: the bytes let through (act time) in ANY window [T, T + D] never exceed limit x D + one burst *)
Theorem C01_bucket_interval : forall rate burst st reqs outs T D, 0 < rate -> 0 <= burst -> 0 <= D ->
  reqs_ok burst st reqs -> bk_run rate burst st reqs = Some outs ->
  BK_G * sumn (filter (in_window T D) outs) <= BK_G * burst + rate * D + rate.
Proof. intros rate burst st reqs outs T D Hr. exact (bucket_bound_interval rate burst Hr st reqs outs T D). Qed.
Print Assumptions C01_bucket_interval.

(* ---- the limit AS CONFIGURED: string -> BandwidthQuantity -> limiter ---- *)

(* reflective over today's pkg/config/types and the two proxy constructors: bytes = int64(f * float64(base)) with
   MB = 1048576, KB = 1024; the limiter is rate.NewLimiter(bytes, bytes), created iff bytes > 0 and the mode names
   that side (client constructor: mode client, server constructor: mode server) *)
Theorem C01_bandwidth_table_ok : bw_table_ok bw_scale_expr bw_units limiter_ctors = true.
Proof. vm_compute. reflexivity. Qed.
Print Assumptions C01_bandwidth_table_ok.

(* the byte count is the configured decimal quantity (ip.fp with k fraction digits) times the unit, rounded
   down: never above what was configured and less than one byte per second below it - for EVERY quantity,
   fractional ones included *)
Theorem C01_bw_bytes_floor : forall ip fp k base, 0 <= ip -> 0 <= fp -> 0 < base ->
  10 ^ Z.of_nat k * bw_bytes ip fp k base <= (ip * 10 ^ Z.of_nat k + fp) * base /\
  (ip * 10 ^ Z.of_nat k + fp) * base < 10 ^ Z.of_nat k * (bw_bytes ip fp k base + 1).
Proof. exact bw_bytes_floor. Qed.
Print Assumptions C01_bw_bytes_floor.

(* every configured quantity worth at least one byte per second ("0.5MB", "1.5KB", "0.001MB") yields a limiter on
   the side the mode names (and none on the other side), in both enforcement modes *)
Theorem C01_bw_fraction_gets_limiter : forall ip fp k base, 0 <= ip -> 0 <= fp -> 0 < base ->
  10 ^ Z.of_nat k <= (ip * 10 ^ Z.of_nat k + fp) * base ->
  1 <= bw_bytes ip fp k base /\
  bw_limiter true (bw_bytes ip fp k base) = Some (bw_bytes ip fp k base, bw_bytes ip fp k base) /\
  bw_limiter false (bw_bytes ip fp k base) = None.
Proof. exact bw_fraction_gets_limiter. Qed.
Print Assumptions C01_bw_fraction_gets_limiter.

(* and with that limiter (rate = burst = the configured bytes b) the window bound reads: bytes <= b + b * D *)
Theorem C01_bandwidth_configured_rate_bound : forall b st reqs outs T D, 0 < b -> 0 <= D ->
  bw_limiter true b = Some (b, b) /\
  (reqs_ok b st reqs -> bk_run b b st reqs = Some outs ->
   BK_G * sumn (filter (in_window T D) outs) <= BK_G * b + b * D + b).
Proof. exact bw_configured_rate_bound. Qed.
Print Assumptions C01_bandwidth_configured_rate_bound.

(* ---- the wrapper stacks mirror each other ---- *)

(* reflective over today's GenStacks.v: for each of the three pairs of ends that carry TCP-class tunnels
   (frps<->frpc work connection; stcp visitor<->frps; xtcp visitor<->owner frpc), and for the four pairs formed by
   the remaining sites of the table (http, udp, sudp proxy leg, sudp visitor leg), and EVERY combination of
   the flags (encryption, compression, limiter on either side) both stacks are built from recognised
   constructs only, agree modulo the limiter, use the pair's key class on both ends, and put the cipher
   next to the wire below the compressor when both are on *)
Theorem C01_stacks_mirror : forall p, In p (c01_pairs enc_key_args) -> pair_mirrors stack_sites p.
Proof.
  exact (stacks_mirror_ok_sound T5_translated stack_sites enc_key_args visitor_conn_fields visitor_newconn_args
           (eq_refl true <: stacks_mirror_ok T5_translated stack_sites enc_key_args visitor_conn_fields visitor_newconn_args = true)).
Qed.
Print Assumptions C01_stacks_mirror.

(* mirrored stacks are transparent: for any lawful cipher family and compressor (laws stated in
   Model/Stream.v: round trip; decoding a prefix yields a prefix), any positive bursts, EVERY history of
   writes cs (every chunking): the stack accepts it; complete delivery of the wire bytes yields exactly
   the written bytes; any partial delivery w (any prefix of the wire bytes) yields a prefix of them *)
Theorem C01_mirror_transparent : forall (cipher : keyclass -> codec) (comp : codec),
  (forall k, codec_lawful (cipher k)) -> codec_lawful comp ->
  forall ba bb sa sb cs, 0 < ba -> 0 < bb -> erase_lim sa = erase_lim sb ->
  exists ws, st_write (sems cipher comp ba sa) cs = Some ws /\
    st_read (sems cipher comp bb sb) (st_flat ws) = st_flat cs /\
    forall w, st_prefix w (st_flat ws) -> st_prefix (st_read (sems cipher comp bb sb) w) (st_flat cs).
Proof. exact mirror_transparent. Qed.
Print Assumptions C01_mirror_transparent.

(* both together, in both directions, for today's code: what one end reads is a prefix of what the other wrote *)
Theorem C01_tunnel_transparent : forall (cipher : keyclass -> codec) (comp : codec),
  (forall k, codec_lawful (cipher k)) -> codec_lawful comp ->
  forall p, In p (c01_pairs enc_key_args) ->
  exists sa sb, find_site (fst (sp_a p)) (snd (sp_a p)) stack_sites = Some sa /\
                find_site (fst (sp_b p)) (snd (sp_b p)) stack_sites = Some sb /\
  forall fe fc la lb ba bb cs, 0 < ba -> 0 < bb ->
  exists x y, build_site fe fc la (sp_ka p) sa = Some x /\ build_site fe fc lb (sp_kb p) sb = Some y /\
    (exists ws, st_write (sems cipher comp ba x) cs = Some ws /\
       st_read (sems cipher comp bb y) (st_flat ws) = st_flat cs /\
       forall w, st_prefix w (st_flat ws) -> st_prefix (st_read (sems cipher comp bb y) w) (st_flat cs)) /\
    (exists ws, st_write (sems cipher comp bb y) cs = Some ws /\
       st_read (sems cipher comp ba x) (st_flat ws) = st_flat cs /\
       forall w, st_prefix w (st_flat ws) -> st_prefix (st_read (sems cipher comp ba x) w) (st_flat cs)).
Proof. exact (fun cipher comp Hc Hz p Hin => tunnel_transparent_of_mirror cipher comp Hc Hz stack_sites p (C01_stacks_mirror p Hin)). Qed.
Print Assumptions C01_tunnel_transparent.

(* reflective: the xtcp visitor does NOT hand a user connection to its fallback (stcp) visitor exactly when no fallback is
   configured - whatever the reason openTunnel failed (fallback timeout, its own 20 s timer, ...): one guard
   `FallbackTo == ""` before TransferConn(FallbackTo, userConn), nothing else.  The xtcp-falling-back-to-stcp instance
   of C01_tunnel_transparent (third pair: when a tunnel exists; otherwise the stcp pairs) rests on this. *)
Theorem C01_xtcp_fallback_decision :
  xtcp_fallback_ok xtcp_fallback = true /\
  forall err fallback, xtcp_user_conn_fate err fallback = 2 <-> (err = true /\ fallback = false).
Proof. split; [vm_compute; reflexivity|]. intros [] []; vm_compute; split; intros H; try discriminate H; try (destruct H; discriminate); auto. Qed.
Print Assumptions C01_xtcp_fallback_decision.

(* ---- sniff and replay ---- *)

Theorem C01_sniffed_prefix_replayed : forall incoming sniff reads,
  let r := sc_reads (sc_handover true (sc_sniff (sc_new incoming) sniff)) reads in
  List.concat (fst r) ++ sc_pending (snd r) ++ sc_conn (snd r) = incoming.
Proof. exact sniffed_prefix_replayed. Qed.
Print Assumptions C01_sniffed_prefix_replayed.

Theorem C01_unshared_drops_only_sniffed : forall incoming sniff reads,
  let s := sc_sniff (sc_new incoming) sniff in
  let r := sc_reads (sc_handover false s) reads in
  sc_pending s ++ List.concat (fst r) ++ sc_pending (snd r) ++ sc_conn (snd r) = incoming.
Proof. exact unshared_drops_only_sniffed. Qed.
Print Assumptions C01_unshared_drops_only_sniffed.

(* ---- naming, dispatch, proxy-protocol header ---- *)

(* reflective: today's GetWorkConnFromPool announces pxy.GetName() and the user's addresses, the client
   dispatches on startMsg.ProxyName through pm.proxies[name], and the proxy-protocol header is built from
   the message's src/dst and written to the local connection *)
Theorem C01_naming_table_ok :
  naming_ok start_work_conn_fields get_work_conn_args client_dispatch_args client_dispatch_lookup = true /\
  pp_ok pp_header_fields pp_field_assigns pp_writes = true /\
  (* handshake messages (NewVisitorConnResp, StartWorkConn) are read straight from the connection that is
     wrapped and joined afterwards: no buffering reader that could swallow the first tunnel bytes *)
  handshake_readers_ok handshake_readers = true.
Proof. vm_compute. repeat split; reflexivity. Qed.
Print Assumptions C01_naming_table_ok.

Theorem C01_no_cross_wiring : forall listeners tbl pc pool e ur ul wr wl c backend m,
  br_bridge listeners tbl pc pool e ur ul wr wl = Some (c, backend, m) ->
  exists p, br_listener e listeners = Some p /\ sw_name m = p /\ br_assoc p tbl = Some backend /\
            sw_src m = Some ur /\ sw_dst m = Some ul /\ In (c, true) pool.
Proof. exact no_cross_wiring. Qed.
Print Assumptions C01_no_cross_wiring.

Theorem C01_no_cross_wiring_distinct : forall listeners tbl pc pool e ur ul wr wl c backend m p q bq,
  br_bridge listeners tbl pc pool e ur ul wr wl = Some (c, backend, m) ->
  br_listener e listeners = Some p -> br_assoc q tbl = Some bq -> br_assoc p tbl <> Some bq -> backend <> bq.
Proof. exact no_cross_wiring_distinct. Qed.
Print Assumptions C01_no_cross_wiring_distinct.

Theorem C01_proxy_protocol_header_is_true_source : forall listeners tbl pc pool e ur ul wr wl c backend m,
  br_bridge listeners tbl pc pool e ur ul wr wl = Some (c, backend, m) -> a_port ur <> 0 ->
  br_client_header "" m = PPNone /\
  br_client_header "v1" m = PPHeader (pp_v1 ur ul) /\
  br_client_header "v2" m = PPHeader (pp_v2 ur ul) /\
  (addr_ok ur = true -> addr_ok ul = true -> forall rest, pp2_parse (pp_v2 ur ul ++ rest) = Some (ur, ul, rest)).
Proof. exact pp_header_true_source. Qed.
Print Assumptions C01_proxy_protocol_header_is_true_source.

(* ---- close propagation ---- *)

(* reflective: at ALL TEN sites that build a wrapper stack (client udp/sudp included), for every flag
   combination, every wrapper's close function (the limiter's included) closes the value it wraps; at the
   four sites that join a TCP-class tunnel libio.Join is called exactly once with the stack top on one side;
   pooled snappy objects are used only at sites that block in Join *)
Theorem C01_close_shapes_ok : closes_ok stack_sites = true.
Proof. vm_compute. reflexivity. Qed.
Print Assumptions C01_close_shapes_ok.

(* Join as a two-thread program over such a stack, for ALL schedules of the two goroutines and the two
   remote peers: (1) every close function runs at most once, all exactly once as soon as the stack is
   closed; (2) once a direction has ended Join is never stuck before both goroutines are done, each step
   decreases a measure <= 6, and concretely nine steps finish it; (3) then both underlying connections
   are closed. *)
Theorem C01_close_propagates : forall W, all_inner W = true ->
  forall st, (exists sched, st = j_run W sched (j_init W)) ->
  (Forall (fun n => 0 <= n <= 1) (j_calls st) /\
   (1 <= j_baseB st -> j_calls st = repeat 1 (length W) /\ (W <> [] -> j_baseB st = 1)) /\
   (j_baseB st = 0 -> j_calls st = repeat 0 (length W))) /\
  (j_all_done st = true -> 1 <= j_baseA st /\ 1 <= j_baseB st) /\
  (j_triggered st = true -> j_all_done st = false -> x_enabled st = true \/ y_enabled st = true) /\
  ((x_enabled st = true -> j_remaining (j_step W st EvX) = j_remaining st - 1) /\
   (y_enabled st = true -> j_remaining (j_step W st EvY) = j_remaining st - 1) /\
   0 <= j_remaining st <= 6 /\ (j_remaining st = 0 <-> j_all_done st = true)) /\
  (j_triggered st = true ->
   j_all_done (j_run W j_drain st) = true /\ 1 <= j_baseA (j_run W j_drain st) /\ 1 <= j_baseB (j_run W j_drain st)).
Proof. exact close_propagates_all. Qed.
Print Assumptions C01_close_propagates.

(* the defect that was repaired (limiter close function closing the reassigned variable) is exactly a
   shape the theorem excludes: with it the underlying connection is never closed from this end *)
Theorem C01_self_closing_limiter_refuted :
  let W := [CtSelf] in
  let st := j_run W [EvPeerA; EvX; EvX; EvX; EvY; EvY; EvY; EvX; EvY] (j_init W) in
  j_baseB st = 0 /\ j_y st = JCopy /\ y_enabled st = false.
Proof. vm_compute. repeat split. Qed.
Print Assumptions C01_self_closing_limiter_refuted.

(* ---- close propagation end to end: the clause "in every case the peer's connection is closed within
   bounded time" ---- *)

(* REFUTED for transport.protocol = kcp with tcpMux = false (finding F-C01b, KNOWN_FINDINGS key
   tunnel-close:kcp-without-tcpmux; replayed by the tunnel driver on every run): a raw kcp session has no
   close signalling, so for EVERY schedule in which the backend does not close by itself frpc's Join never
   leaves its initial state - the backend connection stays open whatever the user and frps do ... *)
Theorem C01_close_kcp_without_tcpmux_refuted :
  link_signals true false = false /\
  (forall Ws Wc sched, forallb not_backend_close sched = true ->
     e_cli (e2e_run (link_signals true false) Ws Wc sched (e2e_init Ws Wc)) = j_init Wc) /\
  (forall Ws Wc sched, forallb not_user_close sched = true ->
     e_srv (e2e_run (link_signals true false) Ws Wc sched (e2e_init Ws Wc)) = j_init Ws) /\
  (* witness: the user closes, frps closes the user connection and its end of the work connection,
     and the backend connection has still received no Close() *)
  (let st := e2e_run (link_signals true false) [CtInner] [CtInner] (EUserClose :: e2e_drain) (e2e_init [CtInner] [CtInner]) in
   j_all_done (e_srv st) = true /\ j_baseB (e_srv st) = 1 /\ j_baseA (e_cli st) = 0 /\ j_all_done (e_cli st) = false).
Proof.
  exact (conj eq_refl (conj e2e_close_nosignal_refuted_cli (conj e2e_close_nosignal_refuted_srv
           (conj eq_refl (conj eq_refl (conj eq_refl eq_refl)))))).
Qed.
Print Assumptions C01_close_kcp_without_tcpmux_refuted.

(* ... and it holds for every other combination (PARTIAL: excludes exactly protocol = kcp /\ tcpMux = false):
   from any reachable state of the two Joins in which a direction has ended on either side, a bounded number
   of steps ends both Joins with the user connection, both ends of the work connection and the backend
   connection closed.  The transports' close signalling itself (TCP FIN, yamux FIN, quic stream close,
   websocket close) is assumed, not verified; the tunnel driver observes it. *)
Theorem C01_close_end_to_end_partial : forall proto_is_kcp tcp_mux, negb (proto_is_kcp && negb tcp_mux) = true ->
  forall Ws Wc, all_inner Ws = true -> all_inner Wc = true ->
  forall sched, let st := e2e_run (link_signals proto_is_kcp tcp_mux) Ws Wc sched (e2e_init Ws Wc) in
  j_triggered (e_srv st) = true \/ j_triggered (e_cli st) = true ->
  e2e_closed (e2e_run (link_signals proto_is_kcp tcp_mux) Ws Wc e2e_drain st).
Proof. exact (fun k m H => eq_ind_r (fun b => forall Ws Wc, all_inner Ws = true -> all_inner Wc = true -> forall sched, let st := e2e_run b Ws Wc sched (e2e_init Ws Wc) in j_triggered (e_srv st) = true \/ j_triggered (e_cli st) = true -> e2e_closed (e2e_run b Ws Wc e2e_drain st)) e2e_close_partial H). Qed.
Print Assumptions C01_close_end_to_end_partial.

(* ---- the vhost muxer hands over a clean connection (https, tcpmux) ---- *)

(* reflective over today's vhost.Muxer.handle / tcpmux constructor: the success hook (tcpmux without
   passthrough: the CONNECT answer) is the only writer before the hand-off and comes BEFORE it, the hand-off is
   the last thing handle does to the connection, both sniffing deadlines are cleared before it, and the hook
   registered by tcpmux is sendConnectResponse writing httppkg.OkResponse() unless passthrough *)
Theorem C01_muxer_order_ok : mux_order_ok muxer_handle_events tcpmux_hooks connect_response = true.
Proof. vm_compute. reflexivity. Qed.
Print Assumptions C01_muxer_order_ok.

Theorem C01_muxer_deadlines_cleared : dl_at_handoff (false, false) muxer_handle_events = Some (false, false).
Proof. vm_compute. reflexivity. Qed.
Print Assumptions C01_muxer_deadlines_cleared.

(* for ALL schedules of the muxer goroutine and the proxy goroutine (which writes the backend's chunks to the
   same connection as soon as it owns it) and all backend chunks, what the user has received at any moment is a
   prefix of  answer ++ backend bytes  - also when the backend speaks first *)
Theorem C01_tcpmux_response_precedes_payload : forall R bs sched,
  exists rest, resp_bytes R (mux_prog_of muxer_handle_events) ++ List.concat bs
               = mh_out (mh_run R sched (mh_init (mux_prog_of muxer_handle_events) bs)) ++ rest.
Proof. exact (fun R bs sched => mux_response_precedes_payload R (mux_prog_of muxer_handle_events) bs sched (eq_refl true <: resp_before_handoff (mux_prog_of muxer_handle_events) = true)). Qed.
Print Assumptions C01_tcpmux_response_precedes_payload.

(* the excluded order (answer after the hand-off) really interleaves: backend bytes precede the answer *)
Theorem C01_response_after_handoff_refuted :
  mh_out (mh_run (hx "4f4b") [TMux; TProxy; TMux] (mh_init [MHandoff; MResp] [hx "6869"])) = hx "68694f4b".
Proof. vm_compute. reflexivity. Qed.
Print Assumptions C01_response_after_handoff_refuted.

(* reflective: the stcp visitor clears the 10 s handshake read deadline BEFORE it joins the visitor connection
   (not in a defer, which would run after the stream is over): no deadline is armed on an admitted stream *)
Theorem C01_visitor_deadline_cleared_before_join : visitor_events_ok stcp_visitor_events = true.
Proof. vm_compute. reflexivity. Qed.
Print Assumptions C01_visitor_deadline_cleared_before_join.

(* ---- tcpMux on: complete-then-EOF at close needs the receiver to drain within StreamCloseTimeout ---- *)

(* the relation the close-drain argument needs:  MaxStreamWindowSize x 1000 <= drain rate x StreamCloseTimeout(ms) *)
Theorem C01_close_drain_complete : forall timeout_ms rate window inflight,
  0 < rate -> 0 <= inflight <= window -> window * 1000 <= rate * timeout_ms ->
  drain_delivered timeout_ms rate inflight = inflight.
Proof. exact close_drain_complete. Qed.
Print Assumptions C01_close_drain_complete.

Theorem C01_close_drain_truncated : forall timeout_ms rate inflight,
  0 < rate -> 0 <= timeout_ms -> timeout_ms < drain_ms inflight rate ->
  drain_delivered timeout_ms rate inflight < inflight.
Proof. exact close_drain_truncated. Qed.
Print Assumptions C01_close_drain_truncated.

(* reflective over today's two yamux session sites and the pinned yamux module: only KeepAliveInterval (from
   tcpMuxKeepaliveInterval), LogOutput and MaxStreamWindowSize = 6 MiB are set, StreamCloseTimeout keeps yamux's
   default of 5 minutes; hence every receiver draining at >= 20972 B/s gets the complete stream *)
Theorem C01_yamux_close_config :
  yamux_cfg_ok yamux_cfg_sites yamux_window_bytes yamux_default_close_timeout_ms = true /\
  forall rate inflight, 20972 <= rate -> 0 <= inflight <= 6291456 ->
    drain_delivered yamux_default_close_timeout_ms rate inflight = inflight.
Proof.
  exact (conj (eq_refl true <: yamux_cfg_ok yamux_cfg_sites yamux_window_bytes yamux_default_close_timeout_ms = true) default_close_drain).
Qed.
Print Assumptions C01_yamux_close_config.

(* REFUTED below that rate (finding F-C01c, replayed with `work/h_c01 slowdrain -extra "8KB,4194304,0,up"`: the
   backend got 2 473 984 of 4 194 304 bytes followed by a clean end of stream after 5 min 1 s): with today's
   configuration a receiver draining at 8 KB/s loses the tail of a 4 MiB upload that was written and closed *)
Theorem C01_close_drain_slow_receiver_refuted :
  drain_delivered yamux_default_close_timeout_ms 8192 4194304 = 2457600 /\ 2457600 < 4194304.
Proof. vm_compute. split; reflexivity. Qed.
Print Assumptions C01_close_drain_slow_receiver_refuted.

(* ---- non-vacuity ---- *)
Example C01_example_codecs : (forall k, codec_lawful (toy_cipher k)) /\ codec_lawful toy_comp.
Proof. split; [exact toy_cipher_lawful|exact toy_comp_lawful]. Qed.

Example C01_example_bandwidth :
  bw_parse (hx "302e354d42") = BwOk 524288 /\ bw_parse (hx "312e354b42") = BwOk 1536 /\ bw_parse (hx "3235364b42") = BwOk 262144.
Proof. vm_compute. repeat split; reflexivity. Qed.

Example C01_example_limit : limit_write 3 (hx "0102030405060708") = Some [hx "010203"; hx "040506"; hx "0708"].
Proof. vm_compute. reflexivity. Qed.

Example C01_example_bucket :
  bk_run 10 10 bk_init [(0, 10); (0, 10); (0, 10)] = Some [(0, 10); (1000000000, 10); (2000000000, 10)] /\
  reqs_ok 10 bk_init [(0, 10); (0, 10); (0, 10)].
Proof. split; [vm_compute; reflexivity|]. unfold reqs_ok. cbn. repeat split; try (repeat constructor; cbn; lia); lia. Qed.

Example C01_example_pairs : length (c01_pairs enc_key_args) = 7%nat /\
  map (fun p => (sp_ka p, sp_kb p)) (firstn 3 (c01_pairs enc_key_args)) = [(None, Some KToken); (None, None); (None, Some KSecret)].
Proof. vm_compute. split; reflexivity. Qed.

Example C01_example_bridge :
  br_bridge [(7000, "a"); (7001, "b")] [("b", 81); ("a", 80)] 1 [(5, false); (6, true)] 7001
    {| a_ip := [10; 0; 0; 9]; a_port := 4321 |} {| a_ip := [127; 0; 1; 1]; a_port := 7001 |} localhost localhost
  = Some (6, 81, {| sw_name := "b"; sw_src := Some {| a_ip := [10; 0; 0; 9]; a_port := 4321 |};
                    sw_dst := Some {| a_ip := [127; 0; 1; 1]; a_port := 7001 |} |}).
Proof. vm_compute. reflexivity. Qed.

Example C01_example_close : all_inner [CtInner; CtInner; CtInner] = true /\
  j_triggered (j_run [CtInner; CtInner; CtInner] [EvPeerB] (j_init [CtInner; CtInner; CtInner])) = true.
Proof. vm_compute. split; reflexivity. Qed.
