// Harness for C11 (work-connection pool).  Drivers: pool (scripted client against an in-process
// frps), handoff (vhost / group hand-off channels).
package main

import "verifharness/hx"

var drivers = map[string]hx.DriverFn{}

func main() { hx.Main(drivers) }
