import os
from vlib import Check, V

PID = "C09"

MANIFEST = dict(
    text="Machine-checked theorems (Coq 8.16.1) over an executable model of ports.Manager (free/used/reserved tables, the "
         "reserved-port path, the five-tries random path with an observed-choice oracle, the OS probe as an oracle) and a layered "
         "model of TCPProxy/UDPProxy Run/Close, TCPGroup.Listen/CloseListener and RegisterProxy/CloseProxy's quota counter with "
         "an os_bound component: partition invariant for every history and oracle, acquire soundness, refusals change nothing, "
         "release frees, same port back, out-of-range refused, quota bounded and equal to the live weight, reported address is "
         "the bound address, accounting equals what is bound.  The models are tied to the code on every run by differential "
         "histories on the real ports.Manager, on real proxy objects and on an in-process frps with scripted clients.",
    note="Trusted: Coq kernel+VM; harness transcription; the kernel's port semantics enter only through the probe/listen oracles "
         "(observed by bind scans on a private loopback range). Steps of the layered model are the handlers' sequential semantics; "
         "interleavings inside one registration are covered by the schedule model (Model/PortSched.v, all schedules proved, five replayed through gates).",
    technique="Coq proof (invariants by induction over operation histories, all oracle values) + differential correspondence via vm_compute",
    design="4/C09")


def q(tier, quick, thorough):
    return quick if tier == "quick" else thorough


def need(c, driver, counters):
    """sanity: the branches the property names must have been reached by this run"""
    got = c.cov.get("coq_counters", {}).get(driver)
    if got is None:
        return
    for k in counters:
        if got.get(k, 0) <= 0:
            c.broken.append(dict(kind="coverage", name="driver %s never reached branch %s" % (driver, k),
                                 detail="counter %s = %s" % (k, got.get(k))))


def recipe(c: Check):
    c.build(["Properties/C09.vo", "Corr/C09.vo"], harness=["c09"], units=["c09facts"])
    c.obligations("C09")
    st = c.run_driver("ports", q(c.tier, 400, 6000), shards=q(c.tier, 8, 16))
    if st:
        for cfgname in ("cfg:zero-allowed", "cfg:unbindable-dropped"):
            if st.get("distribution", {}).get(cfgname, 0) <= 0:
                c.broken.append(dict(kind="coverage", name="driver ports never used configuration %s" % cfgname, detail=""))
    need(c, "ports", ["NB_RESERVED", "NB_RANDOM_OK", "NB_RANDOM_NONE", "NB_SPEC_OK", "NB_UNAVAIL", "NB_USED", "NB_NOTALLOWED",
                      "NB_RELEASE", "NB_RESERVED_OWNED"])
    c.run_driver("pxy", q(c.tier, 240, 3000), shards=q(c.tier, 8, 16))
    need(c, "pxy", ["NX_TCP_OK", "NX_TCP_REFUSED", "NX_TCP_LISTENFAIL", "NX_UDP_OK", "NX_UDP_REFUSED", "NX_UDP_LISTENFAIL",
                          "NX_GROUP_FIRST", "NX_GROUP_JOIN", "NX_GROUP_LISTENFAIL", "NX_GROUP_JOIN_REFUSED", "NX_CLOSE_TCP",
                          "NX_CLOSE_GROUP_LAST", "NX_CLOSE_GROUP_OTHER", "NX_CLOSE_UDP", "NX_CLOSE_UDP_AGAIN", "NX_SQUAT"])
    st = c.run_driver("portsys", q(c.tier, 60, 1000), shards=q(c.tier, 8, 16))
    if st and st.get("distribution", {}).get("same-port-back-expected", 0) <= 0:
        c.broken.append(dict(kind="coverage", name="driver portsys never exercised the same-port-back clause", detail=""))
    need(c, "portsys", ["NY_QUOTA_REFUSED", "NY_EXISTS_REFUSED", "NY_REGISTERED", "NY_RUN_REFUSED", "NY_CLOSE_OWN",
                        "NY_CLOSE_UNKNOWN", "NY_SESSION_END", "NY_LATE_CLOSE"])
    st = c.run_driver("cfgload", q(c.tier, 18, 180), shards=q(c.tier, 2, 8))
    need(c, "cfgload", ["NC_INI", "NC_TOML", "NC_YAML", "NC_JSON", "NC_REGISTERED", "NC_REFUSED"])
    if st:
        for k in ("ini-style-1", "ini-style-2"):
            if st.get("distribution", {}).get(k, 0) <= 0:
                c.broken.append(dict(kind="coverage", name="driver cfgload wrote no legacy ini list with blanks (%s)" % k, detail=""))
    st = c.run_driver("sched", q(c.tier, 24, 240), shards=q(c.tier, 4, 8))
    if st and st.get("distribution", {}).get("scenario:hangup-during-registration", 0) <= 0:
        c.broken.append(dict(kind="coverage", name="driver sched never replayed the hang-up during a registration", detail=""))
    need(c, "sched", ["NS_REGISTERED", "NS_NAME_EXISTS"])
    gate_in_source = False
    try:
        gate_in_source = "proxy.tcp.after_acquire" in open(os.path.join(os.environ.get("VERIF_REPO", "/repo"), "server/proxy/tcp.go")).read()
    except OSError:
        pass
    if gate_in_source:
        # the Acquire|Listen gate is compiled in: the three window schedules must have been replayed
        need(c, "sched", ["NS_LISTENFAIL", "NS_PORT_USED"])
        if st and not st.get("acquire_gate_present"):
            c.broken.append(dict(kind="coverage", name="gate proxy.tcp.after_acquire is in the source but never fired", detail=""))
    else:
        c.notes.append("gate proxy.tcp.after_acquire is not in this tree: the three Acquire|Listen window schedules were skipped")
    return c.finish(
        rule="ports driver: histories (6-27 ops) of Acquire/Release on the real ports.Manager (tcp and udp) over 127.0.9.1:20900+, "
             "ten allowPorts shapes (range, singles, overlapping, Single-with-range, port 0 / negative / >65535 listed, empty, ...), requested ports from "
             "{0, allowed, used, valid-but-not-allowed, -1, 65536, 70000}, four recurring names, a squatter binding/unbinding ports "
             "between operations; after each op the three tables (verif accessor) and a bind scan of the OS are recorded and compared "
             "with Model/Ports.v; the observed traces are also run through the property monitor. pxy driver: Run/Close histories "
             "(8-27 ops, four scripted ones first) on real TCPProxy/UDPProxy objects, the real TCPGroupCtl and two real managers: grouped "
             "and plain proxies, failing listens (non-local bind address), repeated Close of udp proxies, squatters; observed: result, "
             "both managers' tables, group table, bind scan of both protocols, and a user connection to every reported tcp address must "
             "reach the proxy. portsys driver: in-process frps on 127.0.9.2 with allowPorts and maxPortsPerClient in {0,1,2,3}, scripted "
             "pkg/msg clients: registrations (tcp/udp/grouped/stcp, duplicate names, over quota, refused ports), closes of own and unknown "
             "names, session ends with re-login, late udp Close, squatters; observed: NewProxyResp.RemoteAddr/Error, tables, bind scans. "
             "cfgload driver: allowPorts / maxPortsPerClient written into real legacy-ini (compact, blank after commas, blanks around "
             "every number and dash), toml, yaml and json files, loaded through config.LoadServerConfig, frps started from the loaded "
             "values, registrations inside / outside the configured set and server-chosen; enforced set and quota must be the configured "
             "ones (monitor) and today's parser model must agree with the loader. "
             "sched driver: six interleavings (the sixth: the control connection drops while its NewProxy is being handled) of two sessions' registrations / closes (duplicate names racing through Exist|Run|Add, "
             "close between name check and Acquire, remembered port asked for while another registration holds it unbound, same port "
             "in the Acquire|Listen window, squatter in that window) realised on the in-process frps by parking handler goroutines at "
             "verifhook gates, replayed on Model/PortSched.v. "
             "distinct = distinct case text; non-trivial = at least one successful acquisition/registration",
        assumptions=["OS probe (bind+close) and the random map iteration are oracles: the harness passes the observed values, the model rejects illegal ones",
                     "the 24 h reserved-entry cleaner is over-approximated in the model (may drop any entry) and not exercised"])
