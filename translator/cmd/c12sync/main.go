package main

// c12sync: server/control.go + server/proxy/proxy.go -> GenC12Sync.v
//
// The C12 model (Model/CtlMgr.v) rests on three structural facts about the source, read here on
// every run so that the reflective checks in Proofs/C12SyncCheck.v fail when one of them goes away:
//
//  c12_handlers : list (string * bool)
//      Control.registerMsgHandlers: every RegisterHandler(&msg.T{}, h) as (T, async) where async =
//      h is msg.AsyncHandler(...).  The model runs a session's NewProxy / CloseProxy handlers and its
//      teardown as ONE sequential thread, which holds only while those handlers run synchronously
//      in the dispatcher's read loop.
//  c12_crit : list (string * list string)
//      for proxy.Manager.Add / Del, ControlManager.Add / Del: the statements of the body as tokens
//      Lock | RLock | Unlock | RUnlock | DeferUnlock | DeferRUnlock | Check (map lookup deciding an early
//      return or guarding what follows) | Insert (map store) | Delete | DeleteIfSame (delete guarded by
//      the identity test c == ctl) | Replaced | Decl | Return | Call:<name> | Unknown:<text>.
//      The model takes pxyManager.Add (test + insert) and ControlManager.Add (lookup + Replaced + store)
//      as ONE atomic step each, and the late Del as delete-if-same.

import (
	"veriftranslator/tx"

	"bytes"
	"fmt"
	"go/ast"
	"go/parser"
	"go/printer"
	"go/token"
	"path/filepath"
	"strings"
)

func main() { tx.Main(tx.Unit{Name: "C12Sync", File: "GenC12Sync.v", Fn: gen}) }

var fset = token.NewFileSet()

func show(n ast.Node) string {
	var b bytes.Buffer
	_ = printer.Fprint(&b, fset, n)
	return strings.Join(strings.Fields(b.String()), " ")
}

func findMethod(f *ast.File, recv, name string) *ast.FuncDecl {
	for _, d := range f.Decls {
		fd, ok := d.(*ast.FuncDecl)
		if !ok || fd.Name.Name != name || fd.Recv == nil || len(fd.Recv.List) == 0 {
			continue
		}
		t := fd.Recv.List[0].Type
		if s, ok := t.(*ast.StarExpr); ok {
			t = s.X
		}
		if id, ok := t.(*ast.Ident); ok && id.Name == recv {
			return fd
		}
	}
	return nil
}

// mutex call: x.mu.Lock() etc.
func muCall(e ast.Expr) string {
	c, ok := e.(*ast.CallExpr)
	if !ok || len(c.Args) != 0 {
		return ""
	}
	s, ok := c.Fun.(*ast.SelectorExpr)
	if !ok {
		return ""
	}
	in, ok := s.X.(*ast.SelectorExpr)
	if !ok || in.Sel.Name != "mu" {
		return ""
	}
	switch s.Sel.Name {
	case "Lock", "Unlock", "RLock", "RUnlock":
		return s.Sel.Name
	}
	return ""
}

func isIndexOfField(e ast.Expr, field string) bool {
	ix, ok := e.(*ast.IndexExpr)
	if !ok {
		return false
	}
	s, ok := ix.X.(*ast.SelectorExpr)
	return ok && s.Sel.Name == field
}

func tokens(fd *ast.FuncDecl, table string) []string {
	var out []string
	for _, st := range fd.Body.List {
		switch s := st.(type) {
		case *ast.ExprStmt:
			if m := muCall(s.X); m != "" {
				out = append(out, m)
				continue
			}
			if c, ok := s.X.(*ast.CallExpr); ok {
				if id, ok := c.Fun.(*ast.Ident); ok && id.Name == "delete" && len(c.Args) == 2 {
					if sel, ok := c.Args[0].(*ast.SelectorExpr); ok && sel.Sel.Name == table {
						out = append(out, "Delete")
						continue
					}
				}
			}
			out = append(out, "Unknown:"+show(s))
		case *ast.DeferStmt:
			switch muCall(s.Call) {
			case "Unlock":
				out = append(out, "DeferUnlock")
			case "RUnlock":
				out = append(out, "DeferRUnlock")
			default:
				out = append(out, "Unknown:"+show(s))
			}
		case *ast.DeclStmt:
			out = append(out, "Decl")
		case *ast.ReturnStmt:
			out = append(out, "Return")
		case *ast.AssignStmt:
			switch {
			case len(s.Lhs) == 1 && s.Tok == token.ASSIGN && isIndexOfField(s.Lhs[0], table):
				out = append(out, "Insert")
			case len(s.Rhs) == 1 && isIndexOfField(s.Rhs[0], table):
				out = append(out, "Check")
			default:
				out = append(out, "Unknown:"+show(s))
			}
		case *ast.IfStmt:
			out = append(out, ifToken(s, table))
		default:
			out = append(out, "Unknown:"+show(st))
		}
	}
	return out
}

func ifToken(s *ast.IfStmt, table string) string {
	if s.Else != nil {
		return "Unknown:" + show(s)
	}
	// if _, ok := T[name]; ok { return err }        -> Check
	// if c, ok := T[id]; ok && c == ctl { delete }   -> DeleteIfSame ; without the identity test -> DeleteUnconditional
	if as, ok := s.Init.(*ast.AssignStmt); ok && len(as.Rhs) == 1 && isIndexOfField(as.Rhs[0], table) {
		if len(s.Body.List) == 1 {
			if _, ok := s.Body.List[0].(*ast.ReturnStmt); ok {
				// the condition is the "found" result of the lookup, whatever it is called
				if id, ok := s.Cond.(*ast.Ident); ok && len(as.Lhs) == 2 {
					if l, ok := as.Lhs[1].(*ast.Ident); ok && l.Name == id.Name {
						return "Check"
					}
				}
			}
			if es, ok := s.Body.List[0].(*ast.ExprStmt); ok {
				if c, ok := es.X.(*ast.CallExpr); ok {
					if id, ok := c.Fun.(*ast.Ident); ok && id.Name == "delete" {
						cond := show(s.Cond)
						// found && stored == the session passed in (names are free)
						if be, ok := s.Cond.(*ast.BinaryExpr); ok && be.Op == token.LAND && strings.Contains(cond, "==") && len(as.Lhs) == 2 && strings.Contains(cond, show(as.Lhs[0])+" ==") {
							return "DeleteIfSame"
						}
						return "DeleteUnconditional"
					}
				}
			}
		}
		return "Unknown:" + show(s)
	}
	// if ok { old.Replaced(ctl) }
	if s.Init == nil && len(s.Body.List) == 1 {
		if es, ok := s.Body.List[0].(*ast.ExprStmt); ok {
			if c, ok := es.X.(*ast.CallExpr); ok {
				if sel, ok := c.Fun.(*ast.SelectorExpr); ok && sel.Sel.Name == "Replaced" {
					if _, ok := s.Cond.(*ast.Ident); ok {
						return "Replaced"
					}
				}
			}
		}
	}
	// if pm.Exist(name) { return ... }   -> a test made through another method (its own critical section)
	if c, ok := s.Cond.(*ast.CallExpr); ok && s.Init == nil {
		if sel, ok := c.Fun.(*ast.SelectorExpr); ok {
			return "Call:" + sel.Sel.Name
		}
	}
	return "Unknown:" + show(s)
}

func handlers(fd *ast.FuncDecl) (regs []string, err error) {
	for _, st := range fd.Body.List {
		es, ok := st.(*ast.ExprStmt)
		if !ok {
			regs = append(regs, fmt.Sprintf("(%s, true)", tx.CoqString("Unknown:"+show(st))))
			continue
		}
		c, ok := es.X.(*ast.CallExpr)
		if !ok || len(c.Args) != 2 {
			regs = append(regs, fmt.Sprintf("(%s, true)", tx.CoqString("Unknown:"+show(st))))
			continue
		}
		sel, ok := c.Fun.(*ast.SelectorExpr)
		if !ok || sel.Sel.Name != "RegisterHandler" {
			regs = append(regs, fmt.Sprintf("(%s, true)", tx.CoqString("Unknown:"+show(st))))
			continue
		}
		// first argument: &msg.T{}
		typ := ""
		if u, ok := c.Args[0].(*ast.UnaryExpr); ok {
			if cl, ok := u.X.(*ast.CompositeLit); ok {
				if s2, ok := cl.Type.(*ast.SelectorExpr); ok {
					typ = s2.Sel.Name
				}
			}
		}
		if typ == "" {
			regs = append(regs, fmt.Sprintf("(%s, true)", tx.CoqString("Unknown:"+show(st))))
			continue
		}
		// second argument: ctl.handleX (synchronous) or msg.AsyncHandler(ctl.handleX); anything else counts as async
		async := true
		if s2, ok := c.Args[1].(*ast.SelectorExpr); ok {
			if id, ok := s2.X.(*ast.Ident); ok && id.Name == "ctl" && strings.HasPrefix(s2.Sel.Name, "handle") {
				async = false
			}
		}
		regs = append(regs, fmt.Sprintf("(%s, %v)", tx.CoqString(typ), async))
	}
	return regs, nil
}

func gen() ([]byte, error) {
	ctlF, err := parser.ParseFile(fset, filepath.Join(tx.Repo, "server/control.go"), nil, 0)
	if err != nil {
		return nil, err
	}
	pxyF, err := parser.ParseFile(fset, filepath.Join(tx.Repo, "server/proxy/proxy.go"), nil, 0)
	if err != nil {
		return nil, err
	}
	var b bytes.Buffer
	b.WriteString("(* generated by translator/cmd/c12sync from server/control.go and server/proxy/proxy.go — do not edit *)\n")
	b.WriteString("From Coq Require Import String List.\nImport ListNotations.\nLocal Open Scope string_scope.\n\n")
	b.WriteString("Definition C12Sync_translated : bool := true.\n\n")
	rh := findMethod(ctlF, "Control", "registerMsgHandlers")
	if rh == nil {
		return nil, fmt.Errorf("Control.registerMsgHandlers not found")
	}
	regs, _ := handlers(rh)
	b.WriteString("Definition c12_handlers : list (string * bool) := [\n  " + strings.Join(regs, ";\n  ") + "\n].\n\n")
	type fn struct {
		f          *ast.File
		recv, name string
		table      string
	}
	var rows []string
	for _, x := range []fn{{pxyF, "Manager", "Add", "pxys"}, {pxyF, "Manager", "Del", "pxys"}, {pxyF, "Manager", "Exist", "pxys"},
		{ctlF, "ControlManager", "Add", "ctlsByRunID"}, {ctlF, "ControlManager", "Del", "ctlsByRunID"}} {
		fd := findMethod(x.f, x.recv, x.name)
		if fd == nil || fd.Body == nil {
			return nil, fmt.Errorf("%s.%s not found", x.recv, x.name)
		}
		var ts []string
		for _, t := range tokens(fd, x.table) {
			ts = append(ts, tx.CoqString(t))
		}
		rows = append(rows, fmt.Sprintf("(%s, [%s])", tx.CoqString(x.recv+"."+x.name), strings.Join(ts, "; ")))
	}
	b.WriteString("Definition c12_crit : list (string * list string) := [\n  " + strings.Join(rows, ";\n  ") + "\n].\n\n")

	// client/service.go Service.login: where the run id is presented, where the answer's error is checked,
	// where the run id of the answer is remembered (in source order)
	cliF, err := parser.ParseFile(fset, filepath.Join(tx.Repo, "client/service.go"), nil, 0)
	if err != nil {
		return nil, err
	}
	lg := findMethod(cliF, "Service", "login")
	if lg == nil {
		return nil, fmt.Errorf("client Service.login not found")
	}
	var ct []string
	for _, st := range lg.Body.List {
		switch x := st.(type) {
		case *ast.AssignStmt:
			if len(x.Lhs) == 1 && show(x.Lhs[0]) == "svr.runID" {
				ct = append(ct, "AssignRunID:"+show(x.Rhs[0]))
				continue
			}
			for _, r := range x.Rhs {
				ast.Inspect(r, func(n ast.Node) bool {
					if cl, ok := n.(*ast.CompositeLit); ok && show(cl.Type) == "msg.Login" {
						for _, e := range cl.Elts {
							if kv, ok := e.(*ast.KeyValueExpr); ok && show(kv.Key) == "RunID" {
								ct = append(ct, "LoginCarries:"+show(kv.Value))
							}
						}
					}
					return true
				})
			}
		case *ast.IfStmt:
			if strings.Contains(show(x.Cond), "loginRespMsg.Error != \"\"") {
				last := x.Body.List[len(x.Body.List)-1]
				if _, ok := last.(*ast.ReturnStmt); ok {
					ct = append(ct, "IfRespErrorReturn")
				} else {
					ct = append(ct, "Unknown:"+show(x))
				}
			}
			ast.Inspect(x, func(n ast.Node) bool {
				if as, ok := n.(*ast.AssignStmt); ok && len(as.Lhs) == 1 && show(as.Lhs[0]) == "svr.runID" {
					ct = append(ct, "AssignRunIDNested:"+show(as.Rhs[0]))
				}
				return true
			})
		}
	}
	var cts []string
	for _, t := range ct {
		cts = append(cts, tx.CoqString(t))
	}
	b.WriteString("Definition c12_client_login : list string := [" + strings.Join(cts, "; ") + "].\n\n")

	// pkg/config/v1/proxy.go ProxyBaseConfig.UnmarshalFromMsg: what the proxy's own name (GetName) is made of
	cfgF, err := parser.ParseFile(fset, filepath.Join(tx.Repo, "pkg/config/v1/proxy.go"), nil, 0)
	if err != nil {
		return nil, err
	}
	um := findMethod(cfgF, "ProxyBaseConfig", "UnmarshalFromMsg")
	if um == nil {
		return nil, fmt.Errorf("ProxyBaseConfig.UnmarshalFromMsg not found")
	}
	nameRHS := "Unknown:no assignment to c.Name"
	for _, st := range um.Body.List {
		if as, ok := st.(*ast.AssignStmt); ok && len(as.Lhs) == 1 && show(as.Lhs[0]) == "c.Name" {
			nameRHS = show(as.Rhs[0])
		}
	}
	b.WriteString("Definition c12_name_assign : string := " + tx.CoqString(nameRHS) + ".\n\n")

	// server/proxy/{stcp,sudp}.go Run: the calls made (the model: Run = VisitorManager.Listen and nothing else;
	// in particular a failed Run closes nothing)
	var vrows []string
	for _, x := range []struct{ file, recv string }{{"server/proxy/stcp.go", "STCPProxy"}, {"server/proxy/sudp.go", "SUDPProxy"}} {
		f, err := parser.ParseFile(fset, filepath.Join(tx.Repo, x.file), nil, 0)
		if err != nil {
			return nil, err
		}
		run := findMethod(f, x.recv, "Run")
		if run == nil {
			return nil, fmt.Errorf("%s.Run not found", x.recv)
		}
		var ts []string
		ast.Inspect(run.Body, func(n ast.Node) bool {
			switch y := n.(type) {
			case *ast.DeferStmt:
				ts = append(ts, tx.CoqString("Defer"))
			case *ast.CallExpr:
				if sel, ok := y.Fun.(*ast.SelectorExpr); ok {
					switch sel.Sel.Name {
					case "Listen", "Close", "CloseListener":
						ts = append(ts, tx.CoqString(sel.Sel.Name))
					}
				}
			}
			return true
		})
		vrows = append(vrows, fmt.Sprintf("(%s, [%s])", tx.CoqString(x.recv+".Run"), strings.Join(ts, "; ")))
	}
	b.WriteString("Definition c12_vis_run : list (string * list string) := [\n  " + strings.Join(vrows, ";\n  ") + "\n].\n\n")

	// pkg/util/util/util.go RandIDWithLen: what happens when rand.Read fails; server/service.go RegisterControl:
	// what happens when RandID fails.  (The model: the RandID oracle may fail, and then there is no session.)
	utilF, err := parser.ParseFile(fset, filepath.Join(tx.Repo, "pkg/util/util/util.go"), nil, 0)
	if err != nil {
		return nil, err
	}
	var rt []string
	for _, d := range utilF.Decls {
		fd, ok := d.(*ast.FuncDecl)
		if !ok || fd.Name.Name != "RandIDWithLen" {
			continue
		}
		for i, st := range fd.Body.List {
			if as, ok := st.(*ast.AssignStmt); ok && strings.Contains(show(as.Rhs[0]), "rand.Read(") {
				rt = append(rt, "RandRead")
				if i+1 < len(fd.Body.List) {
					if ifs, ok := fd.Body.List[i+1].(*ast.IfStmt); ok && show(ifs.Cond) == "err != nil" && len(ifs.Body.List) == 1 {
						if r, ok := ifs.Body.List[0].(*ast.ReturnStmt); ok && len(r.Results) == 0 {
							rt = append(rt, "IfErrReturnErr")
							continue
						}
					}
					rt = append(rt, "Unknown:"+show(fd.Body.List[i+1]))
				}
			}
		}
	}
	svcF, err := parser.ParseFile(fset, filepath.Join(tx.Repo, "server/service.go"), nil, 0)
	if err != nil {
		return nil, err
	}
	if rc := findMethod(svcF, "Service", "RegisterControl"); rc != nil {
		ast.Inspect(rc.Body, func(n ast.Node) bool {
			blk, ok := n.(*ast.BlockStmt)
			if !ok {
				return true
			}
			for i, st := range blk.List {
				if as, ok := st.(*ast.AssignStmt); ok && len(as.Rhs) == 1 && show(as.Rhs[0]) == "util.RandID()" {
					rt = append(rt, "LoginRandID")
					if i+1 < len(blk.List) {
						if ifs, ok := blk.List[i+1].(*ast.IfStmt); ok && show(ifs.Cond) == "err != nil" && len(ifs.Body.List) == 1 && show(ifs.Body.List[0]) == "return err" {
							rt = append(rt, "IfErrRefuseLogin")
							continue
						}
						rt = append(rt, "Unknown:"+show(blk.List[i+1]))
					}
				}
			}
			return true
		})
	}
	var rts []string
	for _, t := range rt {
		rts = append(rts, tx.CoqString(t))
	}
	b.WriteString("Definition c12_randid : list string := [" + strings.Join(rts, "; ") + "].\n\n")

	// pkg/plugin/server/manager.go Manager.Login: what is handed to the plugins and what replaces the content.
	// (The model: the run id RegisterControl acts on is the one the client sent, plugins or not.)
	plgF, err := parser.ParseFile(fset, filepath.Join(tx.Repo, "pkg/plugin/server/manager.go"), nil, 0)
	if err != nil {
		return nil, err
	}
	var pt []string
	if lg := findMethod(plgF, "Manager", "Login"); lg != nil {
		for _, st := range lg.Body.List {
			fs, ok := st.(*ast.RangeStmt)
			if !ok {
				continue
			}
			for _, bs := range fs.Body.List {
				switch y := bs.(type) {
				case *ast.AssignStmt:
					if c, ok := y.Rhs[0].(*ast.CallExpr); ok && len(y.Rhs) == 1 {
						if sel, ok := c.Fun.(*ast.SelectorExpr); ok && sel.Sel.Name == "Handle" && len(c.Args) == 3 {
							pt = append(pt, "HandleArg:"+show(c.Args[2]))
							continue
						}
					}
					pt = append(pt, "Unknown:"+show(y))
				case *ast.IfStmt:
					switch show(y.Cond) {
					case "err != nil", "res.Reject":
						pt = append(pt, "Refuse")
					case "!res.Unchange":
						if len(y.Body.List) == 1 && show(y.Body.List[0]) == "content = retContent.(*LoginContent)" {
							pt = append(pt, "TakePluginContent")
						} else {
							pt = append(pt, "Unknown:"+show(y))
						}
					default:
						pt = append(pt, "Unknown:"+show(y))
					}
				default:
					pt = append(pt, "Unknown:"+show(bs))
				}
			}
		}
	}
	var pts []string
	for _, t := range pt {
		pts = append(pts, tx.CoqString(t))
	}
	b.WriteString("Definition c12_plugin_login : list string := [" + strings.Join(pts, "; ") + "].\n\n")

	// pkg/msg/handler.go: who closes the dispatcher's doneCh (transitively inside the file), and the shape of
	// the read loop: ReadMsg; on error close(doneCh) and return; otherwise call the handler in place
	hdlF, err := parser.ParseFile(fset, filepath.Join(tx.Repo, "pkg/msg/handler.go"), nil, 0)
	if err != nil {
		return nil, err
	}
	closes := map[string]bool{}
	calls := map[string][]string{}
	for _, d := range hdlF.Decls {
		fd, ok := d.(*ast.FuncDecl)
		if !ok || fd.Body == nil || fd.Recv == nil {
			continue
		}
		ast.Inspect(fd.Body, func(n ast.Node) bool {
			if c, ok := n.(*ast.CallExpr); ok {
				if id, ok := c.Fun.(*ast.Ident); ok && id.Name == "close" && len(c.Args) == 1 && strings.HasSuffix(show(c.Args[0]), ".doneCh") {
					closes[fd.Name.Name] = true
				}
				if sel, ok := c.Fun.(*ast.SelectorExpr); ok {
					if id, ok := sel.X.(*ast.Ident); ok && id.Name == "d" {
						calls[fd.Name.Name] = append(calls[fd.Name.Name], sel.Sel.Name)
					}
				}
			}
			return true
		})
	}
	for changed := true; changed; {
		changed = false
		for f, cs := range calls {
			for _, c := range cs {
				if closes[c] && !closes[f] {
					closes[f] = true
					changed = true
				}
			}
		}
	}
	var closers []string
	for _, d := range hdlF.Decls { // source order; helper methods that only exist to close are reported too
		if fd, ok := d.(*ast.FuncDecl); ok && closes[fd.Name.Name] {
			closers = append(closers, tx.CoqString(fd.Name.Name))
		}
	}
	b.WriteString("Definition c12_done_closers : list string := [" + strings.Join(closers, "; ") + "].\n")
	var rl []string
	if fd := findMethod(hdlF, "Dispatcher", "readLoop"); fd != nil && len(fd.Body.List) == 1 {
		if loop, ok := fd.Body.List[0].(*ast.ForStmt); ok && loop.Cond == nil {
			for _, st := range loop.Body.List {
				switch y := st.(type) {
				case *ast.AssignStmt:
					if strings.HasPrefix(show(y.Rhs[0]), "ReadMsg(") {
						rl = append(rl, "ReadMsg")
					} else {
						rl = append(rl, "Unknown:"+show(y))
					}
				case *ast.IfStmt:
					if show(y.Cond) == "err != nil" && len(y.Body.List) == 2 && strings.HasPrefix(show(y.Body.List[0]), "close(") && show(y.Body.List[1]) == "return" {
						rl = append(rl, "IfErrCloseDoneReturn")
					} else if strings.Contains(show(y), "handler(m)") && !strings.Contains(show(y), "go ") {
						rl = append(rl, "CallHandlerInPlace")
					} else {
						rl = append(rl, "Unknown:"+show(y))
					}
				default:
					rl = append(rl, "Unknown:"+show(st))
				}
			}
		}
	}
	var rls []string
	for _, t := range rl {
		rls = append(rls, tx.CoqString(t))
	}
	b.WriteString("Definition c12_readloop : list string := [" + strings.Join(rls, "; ") + "].\n\n")

	// server/proxy/http.go HTTPProxy.Run: a group membership is given back (UnRegister by proxy NAME) only by a
	// proxy whose Register succeeded: the closure is appended after the Register call, in both branches
	httpF, err := parser.ParseFile(fset, filepath.Join(tx.Repo, "server/proxy/http.go"), nil, 0)
	if err != nil {
		return nil, err
	}
	var ho []string
	if run := findMethod(httpF, "HTTPProxy", "Run"); run != nil {
		ast.Inspect(run.Body, func(n ast.Node) bool {
			c, ok := n.(*ast.CallExpr)
			if !ok {
				return true
			}
			if sel, ok := c.Fun.(*ast.SelectorExpr); ok && sel.Sel.Name == "Register" && strings.HasSuffix(show(sel.X), "HTTPGroupCtl") {
				ho = append(ho, tx.CoqString("Register"))
			}
			if id, ok := c.Fun.(*ast.Ident); ok && id.Name == "append" && strings.Contains(show(c), "HTTPGroupCtl.UnRegister(") {
				ho = append(ho, tx.CoqString("AppendUnRegister"))
				return false
			}
			return true
		})
	}
	b.WriteString("Definition c12_http_group_order : list string := [" + strings.Join(ho, "; ") + "].\n")
	return b.Bytes(), nil
}
