(* C06 correspondence: observed behaviour of the real vhost.Routers / HTTPReverseProxy / Muxers and of
   HTTPReverseProxy.ServeHTTP with its backend connection pool, against Model/Router.v and
   Model/HttpPool.v; and the property monitors (specification only: Model/RouteSpec.v). *)
From FRP Require Export Corr.Common Model.Router Model.RouteSpec Model.HttpPool Model.RouterSched gen.GenC06Route.
Open Scope Z_scope.

Inductive c06_op :=
| OAdd (d l u : bytes) (pay : Z) (ok : bool)          (* Add / Register / Listen: accepted? *)
| ODel (d l u : bytes)                                (* Del / UnRegister / Listener.Close *)
| OGet (h p u : bytes) (res : option Z)               (* raw Routers.Get: payload found *)
| OVhost (canon : bool) (h p u : bytes) (res : option Z)
| ODropped (canon : bool) (h p u : bytes) (res : option Z).
    (* Muxer.handle: a connection was routed (the client got the answer of the success hook), then the
       listener it was routed to closed before the hand-over; res = the listener that received the
       connection afterwards (must be None: the connection is closed, never handed to another route).
       The operation removes the routed triple from the table. *)
    (* getVhost / getListener: GetRouteConfig, or which Listener accepted a CONNECT / ClientHello;
       canon: the host went through CanonicalHost first (CONNECT) *)

Inductive case :=
| CRouter (kind : Z) (ops : list c06_op)      (* 0 Routers+HTTPReverseProxy, 2 HTTPSMuxer, 3 HTTPConnectTCPMuxer *)
| CCanon (h : bytes) (res : option bytes)     (* httppkg.CanonicalHost *)
| CAddRace (ops : list (rt_op Z)) (results : list bool) (gets : list (bytes * bytes * bytes * option Z))
    (* goroutines released at the same instant, one Routers.Add / Del each, on fresh triples:
       results[i] = call i returned nil; afterwards raw Routers.Get observations *)
| CHttp (ops : list (hp_op * hp_out)).        (* ServeHTTP histories *)

Definition optZ_eqb (a b : option Z) : bool :=
  match a, b with Some x, Some y => x =? y | None, None => true | _, _ => false end.
Definition optB_eqb (a b : option bytes) : bool :=
  match a, b with Some x, Some y => bytes_eqb x y | None, None => true | _, _ => false end.

Definition pay_of {P} (r : option (route P)) : option P := option_map rt_pay r.

Definition req_host (canon : bool) (h : bytes) : bytes := if canon then rt_canon_or_empty h else h.

(* model state, specification state, op index -> reason code (0 = all agree).
   codes: 10*i + reason; reason 1 Add outcome, 2 raw Get, 3 getVhost result differ from the model;
   5 Add outcome, 6 selected route differ from the specification (the property itself) *)
(* the walk of a case kind, with the split call and loop bound the translator read from today's source
   (kinds 2, 3: Muxer.getListener; else HTTPReverseProxy.getVhost) *)
Definition walk_other : rt_walk_src := mkWalkSrc RtSplitOther 3 [] [].
Definition src_walk (kind : Z) : rt_walk_src :=
  match rt_site_lookup (if (kind =? 2) || (kind =? 3) then "Muxer.getListener"%string else "HTTPReverseProxy.getVhost"%string)
                       c06_walk_sites with
  | Some w => w
  | None => walk_other
  end.

Fixpoint check_router (w : rt_walk_src) (s : rstate Z) (spec : list (route Z)) (i : Z) (ops : list c06_op) : Z :=
  match ops with
  | [] => 0
  | o :: r =>
      match o with
      | OAdd d l u pay ok =>
          let m := rt_add s d l u pay in
          let sp := rs_add spec d l u pay in
          if negb (Bool.eqb (match m with Some _ => true | None => false end) ok) then 10 * i + 1
          else if negb (Bool.eqb (match sp with Some _ => true | None => false end) ok) then 10 * i + 5
          else check_router w (match m with Some s' => s' | None => s end)
                            (match sp with Some x => x | None => spec end) (i + 1) r
      | ODel d l u => check_router w (rt_del s d l u) (rs_del spec d l u) (i + 1) r
      | OGet h p u res =>
          if optZ_eqb (pay_of (rt_get s h p u)) res then check_router w s spec (i + 1) r else 10 * i + 2
      | OVhost canon h p u res =>
          let h' := req_host canon h in
          if negb (optZ_eqb (pay_of (rt_get_vhost_g w s h' p u)) res) then 10 * i + 3
          else if negb (optZ_eqb (pay_of (rs_best_match spec h' p u)) res) then 10 * i + 6
          else check_router w s spec (i + 1) r
      | ODropped canon h p u res =>
          let h' := req_host canon h in
          match rt_get_vhost_g w s h' p u, rs_best_match spec h' p u with
          | Some x, Some y =>
              if negb (optZ_eqb None res) then 10 * i + 6
              else check_router w (rt_del s (rt_dom x) (rt_loc x) (rt_user x))
                                (rs_del spec (rt_dom y) (rt_loc y) (rt_user y)) (i + 1) r
          | _, _ => 10 * i + 3        (* the implementation routed it, the model finds no route *)
          end
      end
  end.

Definition hp_out_eqb (a b : hp_out) : bool :=
  match a, b with
  | HReached x, HReached y => x =? y
  | HNotFound, HNotFound => true
  | HRegOk, HRegOk => true | HRegConflict, HRegConflict => true | HDone, HDone => true
  | _, _ => false
  end.

(* reasons: 1 the model does not allow the observed Transport choice, 2 output differs from the
   model, 7 a request reached something else than the owner of the most specific current route
   (the property itself), 5 register outcome differs from the specification *)
Fixpoint check_http (with_monitor : bool) (st : hp_state) (spec : list (route Z)) (i : Z) (ops : list (hp_op * hp_out)) : Z :=
  match ops with
  | [] => 0
  | (o, out) :: r =>
      let mon :=
        match o with
        | HRegister d l u owner =>
            match rs_add spec d l u owner with
            | Some sp => (sp, hp_out_eqb out HRegOk, 5)
            | None => (spec, hp_out_eqb out HRegConflict, 5)
            end
        | HUnRegister d l u => (rs_del spec d l u, true, 0)
        | HBegin _ _ _ host path user _ => (spec, hp_out_eqb out (hp_spec_out (fun z => z) spec host path user), 7)
        | HEnd _ => (spec, true, 0)
        | HGroupJoin _ d l u owner =>
            match rs_add spec d l u owner with
            | Some sp => (sp, hp_out_eqb out HRegOk, 5)
            | None => (spec, hp_out_eqb out HRegConflict, 5)
            end
        | HGroupLeave d l u => (rs_del spec d l u, true, 0)
        | HConnect host user => (spec, hp_out_eqb out (hp_spec_out (fun z => z) spec host [] user), 7)
        | HBeginRaced _ _ _ host path user _ between =>
            (* either order is acceptable for a request that overlaps a route change *)
            let spec2 := match between with
                         | HRegister d l u owner => match rs_add spec d l u owner with Some sp => sp | None => spec end
                         | HUnRegister d l u => rs_del spec d l u
                         | _ => spec
                         end in
            (spec2, hp_out_eqb out (hp_spec_out (fun z => z) spec host path user) ||
                    hp_out_eqb out (hp_spec_out (fun z => z) spec2 host path user), 7)
        end in
      match mon with
      | (spec', ok, why) =>
          if with_monitor && negb ok then 10 * i + why
          else match hp_step st o with
               | None => 10 * i + 1
               | Some (st', mout) => if hp_out_eqb mout out then check_http with_monitor st' spec' (i + 1) r else 10 * i + 2
               end
      end
  end.

(* ---------- concurrent registrations: is there an order of the calls that explains the answers? ---------- *)
Fixpoint ra_insert_all {A} (x : A) (l : list A) : list (list A) :=
  match l with
  | [] => [[x]]
  | y :: r => (x :: l) :: map (cons y) (ra_insert_all x r)
  end.
Fixpoint ra_perms {A} (l : list A) : list (list A) :=
  match l with
  | [] => [[]]
  | x :: r => flat_map (ra_insert_all x) (ra_perms r)
  end.
Fixpoint ra_number {A} (i : nat) (l : list A) : list (nat * A) :=
  match l with [] => [] | x :: r => (i, x) :: ra_number (S i) r end.

(* run the numbered calls one after the other on the table model; false as soon as an answer differs *)
Fixpoint race_seq_ok (s : rstate Z) (order : list (nat * rt_op Z)) (results : list bool) : option (rstate Z) :=
  match order with
  | [] => Some s
  | (i, o) :: r =>
      match o with
      | RAdd d l u p =>
          match rt_add s d l u p, nth_error results i with
          | Some s', Some true => race_seq_ok s' r results
          | None, Some false => race_seq_ok s r results
          | _, _ => None
          end
      | RDel d l u => match nth_error results i with Some true => race_seq_ok (rt_del s d l u) r results | _ => None end
      end
  end.
Fixpoint race_seq_ok_spec (spec : list (route Z)) (order : list (nat * rt_op Z)) (results : list bool) : bool :=
  match order with
  | [] => true
  | (i, o) :: r =>
      match o with
      | RAdd d l u p =>
          match rs_add spec d l u p, nth_error results i with
          | Some sp, Some true => race_seq_ok_spec sp r results
          | None, Some false => race_seq_ok_spec spec r results
          | _, _ => false
          end
      | RDel d l u => match nth_error results i with Some true => race_seq_ok_spec (rs_del spec d l u) r results | _ => false end
      end
  end.

Definition race_gets_ok (s : rstate Z) (gets : list (bytes * bytes * bytes * option Z)) : bool :=
  forallb (fun g => match g with (h, p, u, res) => optZ_eqb (pay_of (rt_get s h p u)) res end) gets.

(* 0: some order of the calls explains all answers and the table afterwards; 8: none does
   (e.g. two registrations of one triple both accepted); 9: arity *)
Definition check_race (ops : list (rt_op Z)) (results : list bool) (gets : list (bytes * bytes * bytes * option Z)) : Z :=
  if negb (Nat.eqb (length ops) (length results)) || (5 <? Z.of_nat (length ops)) then 9
  else if existsb (fun order => match race_seq_ok rt_empty order results with
                                | Some s => race_gets_ok s gets
                                | None => false
                                end) (ra_perms (ra_number 0 ops))
       then 0 else 8.

Definition check_case (c : case) : Z :=
  match c with
  | CAddRace ops results gets => check_race ops results gets
  | CRouter k ops => check_router (src_walk k) rt_empty [] 0 ops
  | CCanon h res => if optB_eqb (rt_canonical_host h) res then 0 else 4
  | CHttp ops => check_http true hp_init [] 0 ops
  end.

(* model against implementation only (used where the model reproduces a recorded defect, so that the
   property monitor is evaluated separately) *)
Definition check_case_model_only (c : case) : Z :=
  match c with
  | CHttp ops => check_http false hp_init [] 0 ops
  | _ => check_case c
  end.

(* the property monitor alone, on an observed trace (specification only, no mechanism model) *)
Fixpoint C06_holds_router (spec : list (route Z)) (ops : list c06_op) : bool :=
  match ops with
  | [] => true
  | OAdd d l u pay ok :: r =>
      match rs_add spec d l u pay with
      | Some sp => ok && C06_holds_router sp r
      | None => negb ok && C06_holds_router spec r
      end
  | ODel d l u :: r => C06_holds_router (rs_del spec d l u) r
  | OGet _ _ _ _ :: r => C06_holds_router spec r
  | OVhost canon h p u res :: r =>
      optZ_eqb (pay_of (rs_best_match spec (req_host canon h) p u)) res && C06_holds_router spec r
  | ODropped canon h p u res :: r =>
      match rs_best_match spec (req_host canon h) p u with
      | Some y => optZ_eqb None res && C06_holds_router (rs_del spec (rt_dom y) (rt_loc y) (rt_user y)) r
      | None => false
      end
  end.

Fixpoint C06_holds_http (spec : list (route Z)) (ops : list (hp_op * hp_out)) : bool :=
  match ops with
  | [] => true
  | (HRegister d l u owner, out) :: r =>
      match rs_add spec d l u owner with
      | Some sp => hp_out_eqb out HRegOk && C06_holds_http sp r
      | None => hp_out_eqb out HRegConflict && C06_holds_http spec r
      end
  | (HUnRegister d l u, _) :: r => C06_holds_http (rs_del spec d l u) r
  | (HBegin _ _ _ host path user _, out) :: r =>
      hp_out_eqb out (hp_spec_out (fun z => z) spec host path user) && C06_holds_http spec r
  | (HEnd _, _) :: r => C06_holds_http spec r
  | (HGroupJoin _ d l u owner, out) :: r =>
      match rs_add spec d l u owner with
      | Some sp => hp_out_eqb out HRegOk && C06_holds_http sp r
      | None => hp_out_eqb out HRegConflict && C06_holds_http spec r
      end
  | (HGroupLeave d l u, _) :: r => C06_holds_http (rs_del spec d l u) r
  | (HConnect host user, out) :: r =>
      hp_out_eqb out (hp_spec_out (fun z => z) spec host [] user) && C06_holds_http spec r
  | (HBeginRaced _ _ _ host path user _ between, out) :: r =>
      let spec2 := match between with
                   | HRegister d l u owner => match rs_add spec d l u owner with Some sp => sp | None => spec end
                   | HUnRegister d l u => rs_del spec d l u
                   | _ => spec
                   end in
      (hp_out_eqb out (hp_spec_out (fun z => z) spec host path user) ||
       hp_out_eqb out (hp_spec_out (fun z => z) spec2 host path user)) && C06_holds_http spec2 r
  end.

Definition C06_holds (c : case) : bool :=
  match c with
  | CRouter _ ops => C06_holds_router [] ops
  | CCanon _ _ => true
  | CHttp ops => C06_holds_http [] ops
  | CAddRace ops results _ =>
      Nat.eqb (length ops) (length results) &&
      existsb (fun order => race_seq_ok_spec [] order results) (ra_perms (ra_number 0 ops))
  end.

(* racing rounds in which several goroutines registered the same triple *)
Definition race_counter (c : case) : Z :=
  match c with
  | CAddRace ops results _ => Z.of_nat (length (filter (fun b : bool => negb b) results))
  | _ => 0
  end.

(* ---------- counters: which model branches the cases reached ---------- *)
Definition sum_cases (f : case -> Z) (l : list case) : Z := fold_left (fun a c => a + f c) l 0.

(* classify every getVhost observation of a router history by the branch the model takes *)
Fixpoint count_router (what : Z) (s : rstate Z) (ops : list c06_op) : Z :=
  match ops with
  | [] => 0
  | OAdd d l u pay ok :: r =>
      (if (what =? 0) && negb ok then 1 else 0) +
      count_router what (match rt_add s d l u pay with Some s' => s' | None => s end) r
  | ODel d l u :: r => count_router what (rt_del s d l u) r
  | OGet _ _ _ _ :: r => count_router what s r
  | OVhost canon h p u _ :: r =>
      let h' := req_host canon h in
      (match rt_get_vhost s h' p u with
       | None => if what =? 1 then 1 else 0
       | Some x =>
           (if (what =? 2) && bytes_eqb (rt_dom x) (lower h') then 1 else 0) +
           (if (what =? 3) && negb (bytes_eqb (rt_dom x) (lower h')) && negb (bytes_eqb (rt_dom x) rt_star) then 1 else 0) +
           (if (what =? 4) && negb (bytes_eqb (rt_dom x) (lower h')) && bytes_eqb (rt_dom x) rt_star then 1 else 0) +
           (if (what =? 5) && negb (bytes_eqb u []) && bytes_eqb (rt_user x) u then 1 else 0) +
           (if (what =? 6) && negb (bytes_eqb u []) && bytes_eqb (rt_user x) [] then 1 else 0) +
           (if (what =? 7) && (1 <? blen (rt_loc x)) then 1 else 0) +
           (* a host of 9 or more labels served by a wildcard pattern of at most 3 labels *)
           (if (what =? 8) && (9 <=? Z.of_nat (length (rt_split h'))) && negb (bytes_eqb (rt_dom x) (lower h')) &&
               negb (bytes_eqb (rt_dom x) rt_star) && (Z.of_nat (length (rt_split (rt_dom x))) <=? 3) then 1 else 0)
       end) + count_router what s r
  | ODropped canon h p u _ :: r =>
      match rt_get_vhost s (req_host canon h) p u with
      | Some x => (if what =? 9 then 1 else 0) + count_router what (rt_del s (rt_dom x) (rt_loc x) (rt_user x)) r
      | None => count_router what s r
      end
  end.
Definition router_counter (what : Z) (c : case) : Z :=
  match c with CRouter _ ops => count_router what rt_empty ops | _ => 0 end.

(* HTTP histories: requests served over a reused idle connection; requests that found no route *)
Definition http_counter (what : Z) (c : case) : Z :=
  match c with
  | CHttp ops =>
      fold_left (fun a (oo : hp_op * hp_out) =>
        a + match oo with
            | (HBegin _ _ proto host _ _ dialed, out) =>
                (if (what =? 0) && negb dialed then 1 else 0) +
                (if (what =? 1) && hp_out_eqb out HNotFound then 1 else 0) +
                (if (what =? 2) && (proto =? 1) then 1 else 0) +
                (* Host headers that spell a pool key: they end in ".<b64>.<b64>..<id>", i.e. contain ".." *)
                (if (what =? 7) && hp_out_eqb out HNotFound && (4 <=? Z.of_nat (length (rt_split host))) &&
                    existsb (fun l => match l with [] => true | _ => false end) (rt_split host) then 1 else 0) +
                (if (what =? 6) && (9 <=? Z.of_nat (length (rt_split host))) && negb (hp_out_eqb out HNotFound) then 1 else 0)
            | (HRegister _ _ _ _, out) => if (what =? 3) && hp_out_eqb out HRegConflict then 1 else 0
            | (HConnect _ _, out) => if (what =? 4) && negb (hp_out_eqb out HNotFound) then 1 else 0
            | (HBeginRaced _ _ _ _ _ _ _ _, _) => if what =? 5 then 1 else 0
            | _ => 0
            end) ops 0
  | _ => 0
  end.

(* connections that were in flight while their route was unregistered, later reused or not: the
   number of HEnd whose connection key id is no longer registered *)
Definition is_router (c : case) : bool := match c with CRouter _ _ => true | _ => false end.
Definition is_http (c : case) : bool := match c with CHttp _ => true | _ => false end.

(* requests routed while the idle pool holds a connection made for an EARLIER registration of the
   same (host, location, user) triple: the situations in which a pool key without the registration
   number would hand the request to the former owner's backend *)
Fixpoint count_stale (st : hp_state) (ops : list (hp_op * hp_out)) : Z :=
  match ops with
  | [] => 0
  | (o, _) :: r =>
      (match o with
       | HBegin _ _ _ host path user _ =>
           match rt_get_vhost (hp_routes st) (rt_canon_or_empty host) path user with
           | Some x =>
               let rc := rt_pay x in
               if existsb (fun c => match cn_key c with
                                    | KRoute d l u _ i =>
                                        bytes_eqb (lower d) (lower (rc_dom rc)) && bytes_eqb l (rc_loc rc) &&
                                        bytes_eqb u (rc_user rc) && negb (i =? rc_id rc)
                                    | KHost _ => false
                                    end) (hp_idle st)
               then 1 else 0
           | None => 0
           end
       | _ => 0
       end) + match hp_step st o with Some (st', _) => count_stale st' r | None => 0 end
  end.
Definition stale_counter (c : case) : Z := match c with CHttp ops => count_stale hp_init ops | _ => 0 end.
