(* Proofs about Model/Relogin.v *)
From Coq Require Import ZArith List Bool Lia.
From FRP Require Import Model.Relogin.
Import ListNotations.
Open Scope Z_scope.

Lemma rl_lookup_app_none : forall n a b,
  rl_lookup n (a ++ b) = None <-> rl_lookup n a = None /\ rl_lookup n b = None.
Proof.
  intros n. induction a as [|[n' c'] r IH]; intros b; simpl.
  - split; [auto|intros [_ H]; exact H].
  - destruct (n' =? n); [split; [discriminate|intros [H _]; discriminate]|apply IH].
Qed.

Lemma rl_mem_false : forall n l, rl_mem n l = false <-> rl_lookup n l = None.
Proof. intros. unfold rl_mem. destruct (rl_lookup n l); split; congruence. Qed.

Lemma rl_add_spec : forall cfgs acc n c,
  In (n, c) (rl_add acc cfgs) <->
  In (n, c) acc \/ (rl_lookup n acc = None /\ rl_lookup n cfgs = Some c).
Proof.
  induction cfgs as [|[n' c'] r IH]; intros acc n c; simpl.
  - split; [auto|intros [H|[_ H]]; [exact H|discriminate]].
  - destruct (rl_mem n' acc) eqn:Em.
    + rewrite IH. split; intros [H|[H1 H2]]; auto; right; split; auto.
      * destruct (Z.eqb_spec n' n); auto. subst. unfold rl_mem in Em. rewrite H1 in Em. discriminate.
      * destruct (Z.eqb_spec n' n); auto. subst. unfold rl_mem in Em. rewrite H1 in Em. discriminate.
    + apply rl_mem_false in Em. rewrite IH. split.
      * intros [H|[H1 H2]].
        -- apply in_app_or in H. destruct H as [H|[H|[]]]; [left; exact H|].
           inversion H; subst. right. split; [exact Em|]. rewrite Z.eqb_refl. reflexivity.
        -- apply rl_lookup_app_none in H1. destruct H1 as [H1 H3]. right. split; [exact H1|].
           simpl in H3. destruct (n' =? n); [discriminate|exact H2].
      * intros [H|[H1 H2]].
        -- left. apply in_or_app. left. exact H.
        -- destruct (Z.eqb_spec n' n).
           ++ subst. inversion H2; subst. left. apply in_or_app. right. left. reflexivity.
           ++ right. split; [|exact H2]. apply rl_lookup_app_none. split; [exact H1|].
              simpl. destruct (Z.eqb_spec n' n); [contradiction|reflexivity].
Qed.

Lemma rl_fresh_spec : forall cfgs n c,
  In (n, c) (rl_fresh cfgs) <-> rl_lookup n cfgs = Some c.
Proof.
  intros. unfold rl_fresh, rl_update_all. simpl. rewrite rl_add_spec. simpl.
  split; [intros [[]|[_ H]]; exact H|intros H; right; auto].
Qed.

Lemma rl_lookup_in : forall n c l, In (n, c) l -> exists c', rl_lookup n l = Some c'.
Proof.
  intros n c. induction l as [|[n' c'] r IH]; intros H; [contradiction|].
  simpl. destruct (Z.eqb_spec n' n); [eexists; reflexivity|].
  destruct H as [H|H]; [inversion H; subst; contradiction|auto].
Qed.

Theorem rl_relogin_resends_all : forall cfg evs,
  let st := rl_run (rl_init cfg) evs in
  rl_phase_of st = PLogin ->
  let st' := rl_step st RLoginOk in
  rl_phase_of st' = PRunning /\
  exists m, rl_ctl st' = Some m /\ rl_history st' = m :: rl_history st /\
    (forall n c, In (n, c) m <-> rl_lookup n (rl_cfg st) = Some c) /\
    (forall n c, In (n, c) (rl_cfg st) -> exists c', In (n, c') m).
Proof.
  intros cfg evs st Hp st'. unfold st', rl_step. rewrite Hp. simpl.
  split; [reflexivity|]. exists (rl_fresh (rl_cfg st)).
  repeat split; try reflexivity.
  - apply rl_fresh_spec.
  - apply rl_fresh_spec.
  - intros n c H. destruct (rl_lookup_in n c _ H) as [c' H']. exists c'. apply rl_fresh_spec. exact H'.
Qed.

Definition rl_alive (s : rl_svc) : Prop :=
  rl_phase_of s = PLogin \/ (rl_phase_of s = PRunning /\ exists m, rl_ctl s = Some m).

Lemma rl_alive_step : forall s e, e <> RStop -> rl_alive s -> rl_alive (rl_step s e).
Proof.
  intros s e He [H|[H [m Hm]]]; unfold rl_step; rewrite H; destruct e; try contradiction;
    unfold rl_alive; cbn [rl_phase_of rl_ctl];
    first [ left; first [reflexivity|assumption]
          | right; split; [first [reflexivity|assumption]|try rewrite Hm; eauto] ].
Qed.

Lemma rl_alive_run : forall evs s, ~ In RStop evs -> rl_alive s -> rl_alive (rl_run s evs).
Proof.
  induction evs as [|e r IH]; intros s Hn Ha; simpl; auto.
  unfold rl_run in *. simpl. apply IH.
  - intro. apply Hn. right. auto.
  - apply rl_alive_step; auto. intro. subst. apply Hn. left. reflexivity.
Qed.

Theorem rl_never_gives_up : forall cfg evs,
  ~ In RStop evs ->
  let st := rl_run (rl_init cfg) evs in
  rl_phase_of st = PLogin \/ (rl_phase_of st = PRunning /\ exists m, rl_ctl st = Some m).
Proof.
  intros cfg evs Hn. apply (rl_alive_run evs (rl_init cfg) Hn). left. reflexivity.
Qed.

Theorem rl_session_end_relogin : forall cfg evs,
  let st := rl_run (rl_init cfg) evs in
  rl_phase_of st = PRunning -> rl_phase_of (rl_step st RSessionEnd) = PLogin.
Proof. intros cfg evs st H. unfold rl_step. rewrite H. reflexivity. Qed.
