// T9gr (property C02): glue between the vhost reverse proxy and http load-balancing groups, the lock shape
// of the group's dial functions, and the close of a quic stream.  Output gen/GenGroupGlue.v:
//
//	gen_group_glue : hg_glue            from pkg/util/vhost/http.go:
//	   hgl_choose_tok / hgl_choose_target   token ("=" or ":=") and first target of the statement in the Rewrite
//	                                        closure that calls rc.ChooseEndpointFn()
//	   hgl_urlhost_reads_endpoint           the expression assigned to req.URL.Host in the closure mentions `endpoint`
//	   hgl_info_endpoint_from               right-hand side of `reqRouteInfo.Endpoint = ...`
//	   hgl_connect_callee / _by_endpoint    in connectHandler, the call whose result is `remote`: callee and last argument
//	gen_group_dial_shapes : list (string * list lk_ev)    from server/group/http.go, functions createConn and
//	   createConnByEndpoint: g.mu.RLock() / g.mu.RUnlock() / defer g.mu.RUnlock() / the call of the member's
//	   CreateConnFn (`f(...)`), in source order; any other use of g.mu -> LkOther
//	gen_quic_close_calls : list string   from pkg/util/net/conn.go, (*wrapQuicStream).Close: the methods called on
//	   conn.Stream, in order
package main

import (
	"bytes"
	"fmt"
	"go/ast"
	"go/parser"
	"go/token"
	"path/filepath"
	"strings"

	"veriftranslator/tx"
)

func findFunc(f *ast.File, name, recv string, fset *token.FileSet) *ast.FuncDecl {
	for _, d := range f.Decls {
		fd, ok := d.(*ast.FuncDecl)
		if !ok || fd.Name.Name != name {
			continue
		}
		if recv == "" && fd.Recv == nil {
			return fd
		}
		if recv != "" && fd.Recv != nil && strings.TrimPrefix(src(fset, fd.Recv.List[0].Type), "*") == recv {
			return fd
		}
	}
	return nil
}

func genGroup() ([]byte, error) {
	fset := token.NewFileSet()
	f, err := parser.ParseFile(fset, filepath.Join(tx.Repo, "pkg/util/vhost/http.go"), nil, 0)
	if err != nil {
		return nil, err
	}
	ctor := findFunc(f, "NewHTTPReverseProxy", "", fset)
	if ctor == nil {
		return nil, fmt.Errorf("NewHTTPReverseProxy not found")
	}
	// the Rewrite closure
	var rewrite *ast.FuncLit
	ast.Inspect(ctor, func(n ast.Node) bool {
		if kv, ok := n.(*ast.KeyValueExpr); ok && src(fset, kv.Key) == "Rewrite" {
			if fl, ok := kv.Value.(*ast.FuncLit); ok {
				rewrite = fl
			}
		}
		return rewrite == nil
	})
	if rewrite == nil {
		return nil, fmt.Errorf("Rewrite closure not found")
	}
	tok, target, urlReads, infoFrom := "?", "?", false, "?"
	nChoose := 0
	ast.Inspect(rewrite, func(n ast.Node) bool {
		as, ok := n.(*ast.AssignStmt)
		if !ok {
			return true
		}
		if len(as.Rhs) == 1 {
			if c, ok := as.Rhs[0].(*ast.CallExpr); ok && strings.HasSuffix(src(fset, c.Fun), ".ChooseEndpointFn") {
				nChoose++
				tok = as.Tok.String()
				target = src(fset, as.Lhs[0])
			}
		}
		if len(as.Lhs) == 1 {
			switch src(fset, as.Lhs[0]) {
			case "req.URL.Host":
				if mentionsIdent(as.Rhs[0], "endpoint") {
					urlReads = true
				}
			case "reqRouteInfo.Endpoint":
				infoFrom = src(fset, as.Rhs[0])
			}
		}
		return true
	})
	if nChoose != 1 {
		tok = fmt.Sprintf("%d calls", nChoose)
	}
	callee, byEndpoint := "?", "?"
	if ch := findFunc(f, "connectHandler", "HTTPReverseProxy", fset); ch != nil {
		ast.Inspect(ch, func(n ast.Node) bool {
			as, ok := n.(*ast.AssignStmt)
			if ok && len(as.Lhs) >= 1 && src(fset, as.Lhs[0]) == "remote" && len(as.Rhs) == 1 {
				if c, ok := as.Rhs[0].(*ast.CallExpr); ok {
					callee = src(fset, c.Fun)
					if len(c.Args) > 0 {
						byEndpoint = src(fset, c.Args[len(c.Args)-1])
					}
				}
			}
			return true
		})
	}
	// lock shapes
	g, err := parser.ParseFile(fset, filepath.Join(tx.Repo, "server/group/http.go"), nil, 0)
	if err != nil {
		return nil, err
	}
	var shapes []string
	for _, name := range []string{"createConn", "createConnByEndpoint"} {
		fd := findFunc(g, name, "HTTPGroup", fset)
		if fd == nil {
			shapes = append(shapes, fmt.Sprintf("(%s, [LkOther %s])", tx.CoqString(name), tx.CoqString("function not found")))
			continue
		}
		var evs []string
		ast.Inspect(fd.Body, func(n ast.Node) bool {
			switch x := n.(type) {
			case *ast.DeferStmt:
				if src(fset, x.Call.Fun) == "g.mu.RUnlock" {
					evs = append(evs, "LkDeferRUnlock")
				} else if strings.HasPrefix(src(fset, x.Call.Fun), "g.mu.") {
					evs = append(evs, "LkOther "+tx.CoqString(src(fset, x)))
				}
				return false
			case *ast.CallExpr:
				switch fn := src(fset, x.Fun); {
				case fn == "g.mu.RLock":
					evs = append(evs, "LkRLock")
				case fn == "g.mu.RUnlock":
					evs = append(evs, "LkRUnlock")
				case strings.HasPrefix(fn, "g.mu."):
					evs = append(evs, "LkOther "+tx.CoqString(fn))
				case fn == "f":
					evs = append(evs, "LkDial")
				}
			}
			return true
		})
		shapes = append(shapes, fmt.Sprintf("(%s, [%s])", tx.CoqString(name), strings.Join(evs, "; ")))
	}
	// the endpoint id of a member (repair e71b6d4): what Register stores in g.endpoints[proxyName] and what
	// chooseEndpoint assigns to the name it returns
	endpointExpr, chooseExpr := "?", "?"
	if fd := findFunc(g, "Register", "HTTPGroup", fset); fd != nil {
		ast.Inspect(fd.Body, func(n ast.Node) bool {
			if as, ok := n.(*ast.AssignStmt); ok && len(as.Lhs) == 1 && src(fset, as.Lhs[0]) == "g.endpoints[proxyName]" {
				endpointExpr = src(fset, as.Rhs[0])
			}
			return true
		})
	}
	if fd := findFunc(g, "chooseEndpoint", "HTTPGroup", fset); fd != nil {
		ast.Inspect(fd.Body, func(n ast.Node) bool {
			if as, ok := n.(*ast.AssignStmt); ok && len(as.Lhs) == 1 && src(fset, as.Lhs[0]) == "name" && as.Tok == token.ASSIGN {
				chooseExpr = src(fset, as.Rhs[0])
			}
			return true
		})
	}
	// quic stream close
	var quicCalls []string
	if q, err := parser.ParseFile(fset, filepath.Join(tx.Repo, "pkg/util/net/conn.go"), nil, 0); err == nil {
		if fd := findFunc(q, "Close", "wrapQuicStream", fset); fd != nil {
			ast.Inspect(fd.Body, func(n ast.Node) bool {
				if c, ok := n.(*ast.CallExpr); ok {
					if fn := src(fset, c.Fun); strings.HasPrefix(fn, "conn.Stream.") {
						quicCalls = append(quicCalls, tx.CoqString(strings.TrimPrefix(fn, "conn.Stream.")))
					}
				}
				return true
			})
		}
	}
	var b bytes.Buffer
	b.WriteString("(* generated by translator unit T9gr from pkg/util/vhost/http.go, server/group/http.go, pkg/util/net/conn.go; do not edit *)\n")
	b.WriteString("From FRP Require Import Model.HttpAdmit.\nLocal Open Scope string_scope.\n\n")
	b.WriteString("Definition T9gr_translated : bool := true.\n")
	fmt.Fprintf(&b, "Definition gen_group_glue : hg_glue :=\n  {| hgl_choose_tok := %s; hgl_choose_target := %s; hgl_urlhost_reads_endpoint := %v; hgl_info_endpoint_from := %s;\n     hgl_connect_callee := %s; hgl_connect_by_endpoint := %s |}.\n",
		tx.CoqString(tok), tx.CoqString(target), urlReads, tx.CoqString(infoFrom), tx.CoqString(callee), tx.CoqString(byEndpoint))
	b.WriteString("Definition gen_group_dial_shapes : list (string * list lk_ev) :=\n  [" + strings.Join(shapes, ";\n   ") + "].\n")
	fmt.Fprintf(&b, "Definition gen_group_endpoint_id_expr : string := %s.\nDefinition gen_group_choose_returns : string := %s.\n", tx.CoqString(endpointExpr), tx.CoqString(chooseExpr))
	b.WriteString("Definition gen_quic_close_calls : list string := [" + strings.Join(quicCalls, "; ") + "].\n")
	return b.Bytes(), nil
}
