// Command c19: correspondence drivers for property C19 (client keeps exactly the
// configured-and-healthy proxies registered).
//
//	health     real client/health.Monitor against a scripted backend
//	reconcile  real client/proxy.Manager and client/visitor.Manager with a recording transporter
package main

import (
	"os"

	golog "github.com/fatedier/golib/log"

	frplog "github.com/fatedier/frp/pkg/util/log"

	"verifharness/hx"
)

var drivers = map[string]hx.DriverFn{}

func main() {
	// keep frp's logging out of the check logs
	devnull, _ := os.OpenFile(os.DevNull, os.O_WRONLY, 0)
	frplog.Logger = frplog.Logger.WithOptions(golog.WithOutput(devnull), golog.WithLevel(golog.ErrorLevel))
	hx.Main(drivers)
}
