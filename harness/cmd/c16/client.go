// C16, client side.  The frpc under test runs in a CHILD process (this binary re-executed with
// the sub-command "client"): a real client.Service with a rich configuration (every proxy kind that
// has client-side code of its own, plugins, visitors) talking to the scripted fake frps of the
// parent (fakesrv.go).  The local services are echo servers inside the child.
package main

import (
	"context"
	"fmt"
	"io"
	"net"
	"os"
	"path/filepath"
	"strconv"
	"syscall"
	"time"

	"github.com/fatedier/frp/client"
	"github.com/fatedier/frp/client/proxy"
	"github.com/fatedier/frp/pkg/config/types"
	v1 "github.com/fatedier/frp/pkg/config/v1"
	"verifharness/hx"
)

// names of the proxies the child registers; the fake server addresses StartWorkConn to them
const (
	pxWD    = "wd-tcp" // plain tcp -> echo; the watchdog's tunnel
	pxPP2   = "pp2"    // tcp, transport.proxyProtocolVersion v2
	pxPP1   = "pp1"    // tcp, v1
	pxEncZ  = "encz"   // tcp, useEncryption + useCompression
	pxLim   = "lim"    // tcp, client-side bandwidth limit, compression
	pxUDP   = "udp"    // udp -> udp echo
	pxUDPL  = "udplim" // udp, bandwidth limit + encryption
	pxHP    = "hp"     // plugin http_proxy
	pxSF    = "sf"     // plugin static_file
	pxS5    = "s5"     // plugin socks5
	pxUDS   = "uds"    // plugin unix_domain_socket + proxy protocol v2
	pxH2H   = "h2h"    // plugin http2http
	pxSTCP  = "stcp"
	pxSUDP  = "sudp"
	pxXTCP  = "xtcp"
	pxHTTP  = "http"   // type http with proxy protocol v1
	pxHPA   = "hpauth" // plugin http_proxy with credentials u / p
	pxS5A   = "s5auth" // plugin socks5 with credentials u / p
	pxSFA   = "sfauth" // plugin static_file with credentials u / p
	pxHS2H  = "hs2h"   // plugin https2http (self-signed certificate)
	skValue = "c16-sk"
)

var clientProxyNames = []string{pxWD, pxPP2, pxPP1, pxEncZ, pxLim, pxUDP, pxUDPL, pxHP, pxSF, pxS5, pxUDS, pxH2H, pxSTCP, pxSUDP, pxXTCP, pxHTTP, pxHPA, pxS5A, pxSFA, pxHS2H}

// kind of client-side handler behind each name (what the fake server sends after StartWorkConn)
var clientProxyKind = map[string]string{pxWD: "tcp", pxPP2: "tcp", pxPP1: "tcp", pxEncZ: "cipher", pxLim: "cipher", pxUDP: "udp", pxUDPL: "udp",
	pxHP: "http", pxSF: "http", pxS5: "socks", pxUDS: "tcp", pxH2H: "http", pxSTCP: "tcp", pxSUDP: "udp", pxXTCP: "xtcp", pxHTTP: "tcp", pxHPA: "http", pxS5A: "socks", pxSFA: "http", pxHS2H: "tls"}

func udpEcho(ip string) (*net.UDPConn, error) {
	c, err := net.ListenUDP("udp", &net.UDPAddr{IP: net.ParseIP(ip)})
	if err != nil {
		return nil, err
	}
	go func() {
		b := make([]byte, 65536)
		for {
			n, from, err := c.ReadFromUDP(b)
			if err != nil {
				return
			}
			_, _ = c.WriteToUDP(b[:n], from)
		}
	}()
	return c, nil
}

// clientMain: c16 client <ip> <serverPort> <stunAddr> <mux 0|1>
func clientMain(args []string) {
	hx.Quiet()
	// A message-driven resource leak must stay inside this process: few descriptors, so that a loop
	// opening sockets fails here instead of eating the machine's ephemeral ports.
	// (1400 = the 1024 sockets MakeHole may open at most for one NatHoleResp + room for everything else)
	_ = syscall.Setrlimit(syscall.RLIMIT_NOFILE, &syscall.Rlimit{Cur: 1400, Max: 1400})
	ip := args[0]
	serverPort, _ := strconv.Atoi(args[1])
	stun := args[2]
	mux := args[3] == "1"
	extraProxies := 0 // that many more plain tcp proxies ("bulk-<i>")
	if len(args) > 4 {
		extraProxies, _ = strconv.Atoi(args[4])
	}
	// the wrapper's timing constants: a proxy whose registration was refused or not answered retries soon
	proxy.VerifSetTiming(200*time.Millisecond, 1500*time.Millisecond, 1500*time.Millisecond)

	fail := func(err error) {
		fmt.Println("ERR", err)
		os.Exit(3)
	}
	echo, err := hx.StartEcho(ip, "")
	if err != nil {
		fail(err)
	}
	uecho, err := udpEcho(ip)
	if err != nil {
		fail(err)
	}
	uport := uecho.LocalAddr().(*net.UDPAddr).Port
	dir, err := os.MkdirTemp("", "c16client")
	if err != nil {
		fail(err)
	}
	defer os.RemoveAll(dir)
	_ = os.WriteFile(filepath.Join(dir, "index.html"), []byte("<html>c16</html>"), 0o644)
	sock := filepath.Join(dir, "echo.sock")
	if ul, err := net.Listen("unix", sock); err == nil {
		go func() {
			for {
				c, err := ul.Accept()
				if err != nil {
					return
				}
				go func() { defer c.Close(); _, _ = io.Copy(c, c) }()
			}
		}()
	}

	var pcs []v1.ProxyConfigurer
	tcp := func(name string, f func(b *v1.ProxyBaseConfig)) {
		c := &v1.TCPProxyConfig{}
		c.Name, c.Type = name, "tcp"
		c.LocalIP, c.LocalPort = ip, echo.Port()
		if f != nil {
			f(&c.ProxyBaseConfig)
		}
		pcs = append(pcs, c)
	}
	tcp(pxWD, nil)
	tcp(pxPP2, func(b *v1.ProxyBaseConfig) { b.Transport.ProxyProtocolVersion = "v2" })
	tcp(pxPP1, func(b *v1.ProxyBaseConfig) { b.Transport.ProxyProtocolVersion = "v1" })
	tcp(pxEncZ, func(b *v1.ProxyBaseConfig) { b.Transport.UseEncryption, b.Transport.UseCompression = true, true })
	tcp(pxLim, func(b *v1.ProxyBaseConfig) {
		q, _ := types.NewBandwidthQuantity("64KB")
		b.Transport.BandwidthLimit, b.Transport.BandwidthLimitMode = q, types.BandwidthLimitModeClient
		b.Transport.UseCompression = true
	})
	tcp(pxHP, func(b *v1.ProxyBaseConfig) {
		b.LocalPort = 0
		b.Plugin = v1.TypedClientPluginOptions{Type: v1.PluginHTTPProxy, ClientPluginOptions: &v1.HTTPProxyPluginOptions{Type: v1.PluginHTTPProxy}}
	})
	tcp(pxSF, func(b *v1.ProxyBaseConfig) {
		b.LocalPort = 0
		b.Plugin = v1.TypedClientPluginOptions{Type: v1.PluginStaticFile, ClientPluginOptions: &v1.StaticFilePluginOptions{Type: v1.PluginStaticFile, LocalPath: dir, StripPrefix: "static"}}
	})
	tcp(pxS5, func(b *v1.ProxyBaseConfig) {
		b.LocalPort = 0
		b.Plugin = v1.TypedClientPluginOptions{Type: v1.PluginSocks5, ClientPluginOptions: &v1.Socks5PluginOptions{Type: v1.PluginSocks5}}
	})
	tcp(pxHPA, func(b *v1.ProxyBaseConfig) {
		b.LocalPort = 0
		b.Plugin = v1.TypedClientPluginOptions{Type: v1.PluginHTTPProxy, ClientPluginOptions: &v1.HTTPProxyPluginOptions{Type: v1.PluginHTTPProxy, HTTPUser: "u", HTTPPassword: "p"}}
	})
	tcp(pxS5A, func(b *v1.ProxyBaseConfig) {
		b.LocalPort = 0
		b.Plugin = v1.TypedClientPluginOptions{Type: v1.PluginSocks5, ClientPluginOptions: &v1.Socks5PluginOptions{Type: v1.PluginSocks5, Username: "u", Password: "p"}}
	})
	tcp(pxSFA, func(b *v1.ProxyBaseConfig) {
		b.LocalPort = 0
		b.Plugin = v1.TypedClientPluginOptions{Type: v1.PluginStaticFile, ClientPluginOptions: &v1.StaticFilePluginOptions{Type: v1.PluginStaticFile, LocalPath: dir, StripPrefix: "static", HTTPUser: "u", HTTPPassword: "p"}}
	})
	tcp(pxHS2H, func(b *v1.ProxyBaseConfig) {
		b.LocalPort = 0
		b.Plugin = v1.TypedClientPluginOptions{Type: v1.PluginHTTPS2HTTP, ClientPluginOptions: &v1.HTTPS2HTTPPluginOptions{Type: v1.PluginHTTPS2HTTP,
			LocalAddr: net.JoinHostPort(ip, fmt.Sprint(echo.Port()))}}
	})
	tcp(pxUDS, func(b *v1.ProxyBaseConfig) {
		b.LocalPort = 0
		b.Transport.ProxyProtocolVersion = "v2"
		b.Plugin = v1.TypedClientPluginOptions{Type: v1.PluginUnixDomainSocket, ClientPluginOptions: &v1.UnixDomainSocketPluginOptions{Type: v1.PluginUnixDomainSocket, UnixPath: sock}}
	})
	tcp(pxH2H, func(b *v1.ProxyBaseConfig) {
		b.LocalPort = 0
		b.Plugin = v1.TypedClientPluginOptions{Type: v1.PluginHTTP2HTTP, ClientPluginOptions: &v1.HTTP2HTTPPluginOptions{Type: v1.PluginHTTP2HTTP,
			LocalAddr: net.JoinHostPort(ip, fmt.Sprint(echo.Port()))}}
	})
	{
		c := &v1.UDPProxyConfig{}
		c.Name, c.Type, c.LocalIP, c.LocalPort = pxUDP, "udp", ip, uport
		pcs = append(pcs, c)
		c2 := &v1.UDPProxyConfig{}
		c2.Name, c2.Type, c2.LocalIP, c2.LocalPort = pxUDPL, "udp", ip, uport
		q, _ := types.NewBandwidthQuantity("64KB")
		c2.Transport.BandwidthLimit, c2.Transport.BandwidthLimitMode = q, types.BandwidthLimitModeClient
		c2.Transport.UseEncryption = true
		pcs = append(pcs, c2)
		s := &v1.STCPProxyConfig{}
		s.Name, s.Type, s.LocalIP, s.LocalPort = pxSTCP, "stcp", ip, echo.Port()
		s.Secretkey, s.AllowUsers = skValue, []string{"*"}
		pcs = append(pcs, s)
		su := &v1.SUDPProxyConfig{}
		su.Name, su.Type, su.LocalIP, su.LocalPort = pxSUDP, "sudp", ip, uport
		su.Secretkey, su.AllowUsers = skValue, []string{"*"}
		pcs = append(pcs, su)
		x := &v1.XTCPProxyConfig{}
		x.Name, x.Type, x.LocalIP, x.LocalPort = pxXTCP, "xtcp", ip, echo.Port()
		x.Secretkey, x.AllowUsers = skValue, []string{"*"}
		pcs = append(pcs, x)
		h := &v1.HTTPProxyConfig{}
		h.Name, h.Type, h.LocalIP, h.LocalPort = pxHTTP, "http", ip, echo.Port()
		h.CustomDomains = []string{"c16.test"}
		h.Transport.ProxyProtocolVersion = "v1"
		pcs = append(pcs, h)
	}

	for i := 0; i < extraProxies; i++ {
		tcp(fmt.Sprintf("bulk-%d", i), nil)
	}
	// proxies with a tcp health check (1 s) against a local service that goes down and comes up every 300 ms
	if len(args) > 5 {
		if n, _ := strconv.Atoi(args[5]); n > 0 {
			fl, err := net.Listen("tcp", net.JoinHostPort(ip, "0"))
			if err != nil {
				fail(err)
			}
			fport := fl.Addr().(*net.TCPAddr).Port
			go func() {
				l := fl
				for {
					time.Sleep(300 * time.Millisecond)
					if l != nil {
						l.Close()
						l = nil
					} else {
						l, _ = net.Listen("tcp", net.JoinHostPort(ip, fmt.Sprint(fport)))
					}
				}
			}()
			for i := 0; i < n; i++ {
				port := fport
				if i%4 != 3 {
					port = echo.Port() // always up: its first probe of every session flips the status
				}
				tcp(fmt.Sprintf("hc-%d", i), func(b *v1.ProxyBaseConfig) {
					b.LocalPort = port
					b.HealthCheck = v1.HealthCheckConfig{Type: "tcp", IntervalSeconds: 1, TimeoutSeconds: 1, MaxFailed: 1}
				})
			}
		}
	}

	var vcs []v1.VisitorConfigurer
	ports := []int{}
	vbase := func(vb *v1.VisitorBaseConfig, name, typ, server string, port int) {
		vb.Name, vb.Type, vb.ServerName, vb.SecretKey = name, typ, server, skValue
		vb.BindAddr, vb.BindPort = ip, port
		ports = append(ports, port)
	}
	{
		sv := &v1.STCPVisitorConfig{}
		vbase(&sv.VisitorBaseConfig, "v-stcp", "stcp", pxSTCP, hx.FreePort(ip))
		sv.Transport.UseEncryption, sv.Transport.UseCompression = true, true
		vcs = append(vcs, sv)
		uv := &v1.SUDPVisitorConfig{}
		vbase(&uv.VisitorBaseConfig, "v-sudp", "sudp", pxSUDP, hx.FreeUDPPort(ip))
		vcs = append(vcs, uv)
		xv := &v1.XTCPVisitorConfig{}
		vbase(&xv.VisitorBaseConfig, "v-xtcp", "xtcp", pxXTCP, hx.FreePort(ip))
		xv.Protocol = "quic"
		vcs = append(vcs, xv)
		xk := &v1.XTCPVisitorConfig{}
		vbase(&xk.VisitorBaseConfig, "v-xtcp-kcp", "xtcp", pxXTCP, hx.FreePort(ip))
		xk.Protocol = "kcp"
		xk.FallbackTo, xk.FallbackTimeoutMs = "v-stcp", 300
		vcs = append(vcs, xk)
	}

	cc := &v1.ClientCommonConfig{}
	cc.ServerAddr, cc.ServerPort = ip, serverPort
	cc.Auth.Method, cc.Auth.Token = v1.AuthMethodToken, hx.DefaultToken
	cc.Auth.AdditionalScopes = []v1.AuthScope{v1.AuthScopeHeartBeats, v1.AuthScopeNewWorkConns}
	cc.Transport.TCPMux = &mux
	f := false
	cc.LoginFailExit = &f
	tlsOff := false
	cc.Transport.TLS.Enable = &tlsOff
	cc.Transport.HeartbeatInterval, cc.Transport.HeartbeatTimeout = 1, 4
	cc.Transport.DialServerTimeout = 2
	cc.Transport.PoolCount = 2
	cc.NatHoleSTUNServer = stun
	cc.Complete()
	for _, p := range pcs {
		p.Complete(cc.User)
	}
	for _, v := range vcs {
		v.Complete(cc)
	}
	svc, err := client.NewService(client.ServiceOptions{Common: cc, ProxyCfgs: pcs, VisitorCfgs: vcs})
	if err != nil {
		fail(err)
	}
	ctx, cancel := context.WithCancel(context.Background())
	runDone := make(chan struct{})
	go func() { _ = svc.Run(ctx); close(runDone) }()
	fmt.Printf("READY %d %d %d %d %d %d\n", echo.Port(), uport, ports[0], ports[1], ports[2], ports[3])
	_, _ = io.Copy(io.Discard, os.Stdin)
	// orderly shutdown (Service.stop runs, possibly in the middle of a re-login), not just exit
	cancel()
	select {
	case <-runDone:
	case <-time.After(2 * time.Second):
	}
}
