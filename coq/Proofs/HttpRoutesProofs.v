(* C19 — closing an http proxy at the server releases exactly the routes it registered *)
From Coq Require Import List ZArith Bool Lia.
From FRP Require Import Model.HttpRoutes.
Import ListNotations.
Open Scope Z_scope.

Lemma hr_route_eqb_eq : forall a b, hr_route_eqb a b = true <-> a = b.
Proof.
  intros [a1 a2] [b1 b2]. unfold hr_route_eqb. simpl. rewrite andb_true_iff, !Z.eqb_eq. split.
  - intros [H1 H2]. subst. reflexivity.
  - intros H. inversion H. auto.
Qed.

Lemma hr_mem_In : forall r t, hr_mem r t = true <-> In r t.
Proof.
  intros r t. unfold hr_mem. rewrite existsb_exists. split.
  - intros (x & Hx & He). apply hr_route_eqb_eq in He. subst. exact Hx.
  - intros H. exists r. split; auto. apply hr_route_eqb_eq. reflexivity.
Qed.

Lemma hr_remove_In : forall r t x, In x (hr_remove r t) <-> In x t /\ x <> r.
Proof.
  intros r t x. unfold hr_remove. rewrite filter_In. split.
  - intros [H1 H2]. split; auto. intros Heq. subst. rewrite (proj2 (hr_route_eqb_eq r r) eq_refl) in H2. discriminate.
  - intros [H1 H2]. split; auto. destruct (hr_route_eqb x r) eqn:E; auto. apply hr_route_eqb_eq in E. contradiction.
Qed.

Lemma hr_close_list_In : forall cap t x, In x (hr_close_list t cap) <-> In x t /\ ~ In x cap.
Proof.
  induction cap as [|c r IH]; intros t x; simpl.
  - tauto.
  - rewrite IH, hr_remove_In. split.
    + intros [[H1 H2] H3]. split; auto. intros [H|H]; auto.
    + intros [H1 H2]. split; [split|]; auto.
Qed.

Lemma hr_captured_per_iter : forall c, hr_captured true c = hr_expand c.
Proof. intros c. unfold hr_captured, hr_expand. f_equal. rewrite map_id. reflexivity. Qed.

Lemma hr_register_all_ok : forall rs t done,
  (forall r, In r rs -> ~ In r t) -> NoDup rs ->
  exists t', hr_register_all t rs rs done = (Some t', t') /\ (forall x, In x t' <-> In x t \/ In x rs).
Proof.
  induction rs as [|r rs IH]; intros t done Hd Hnd; simpl.
  - exists t. split; auto. intros x. tauto.
  - inversion Hnd as [|? ? Hn Hnd']; subst.
    assert (hr_mem r t = false) as ->.
    { destruct (hr_mem r t) eqn:E; auto. apply hr_mem_In in E. exfalso. apply (Hd r); auto. left; reflexivity. }
    destruct (IH (r :: t) (done ++ [r])) as (t' & H1 & H2); auto.
    + intros x Hx [Heq|Hin]; [subst; contradiction|]. apply (Hd x); auto. right; assumption.
    + exists t'. split; auto. intros x. rewrite H2. simpl. tauto.
Qed.

(* with the per-iteration copy: Run on a table that holds none of the proxy's routes succeeds, the table
   then holds exactly the old routes plus the proxy's; Close gives back exactly the old table; hence a
   later Run of ANY configuration whose routes are free in the old table (the same entry after a health
   recovery, the changed entry after a reload) succeeds again *)
Theorem hr_run_close_restores : forall t c,
  NoDup (hr_expand c) -> (forall r, In r (hr_expand c) -> ~ In r t) ->
  exists t', hr_run true t c = (Some t', t') /\
    (forall x, In x t' <-> In x t \/ In x (hr_expand c)) /\
    (forall x, In x (hr_close true t' c) <-> In x t) /\
    (forall c2, NoDup (hr_expand c2) -> (forall r, In r (hr_expand c2) -> ~ In r t) ->
       exists t2, hr_run true (hr_close true t' c) c2 = (Some t2, t2)).
Proof.
  intros t c Hnd Hd. unfold hr_run, hr_close. rewrite hr_captured_per_iter.
  destruct (hr_register_all_ok (hr_expand c) t [] Hd Hnd) as (t' & H1 & H2).
  exists t'. split; auto. split; auto.
  assert (Hc : forall x, In x (hr_close_list t' (hr_expand c)) <-> In x t).
  { intros x. rewrite hr_close_list_In, H2. split.
    - intros [[H|H] Hn]; auto. contradiction.
    - intros H. split; auto. intros Hin. apply (Hd x); auto. }
  split; auto.
  intros c2 Hnd2 Hd2. rewrite hr_captured_per_iter.
  destruct (hr_register_all_ok (hr_expand c2) (hr_close_list t' (hr_expand c)) []) as (t2 & G1 & _); auto.
  - intros r Hr Hin. apply Hc in Hin. apply (Hd2 r); auto.
  - exists t2. exact G1.
Qed.

(* why the copy matters: with closures over the loop variable, a subdomain with two locations is not
   released, and registering the same entry again is refused *)
Example hr_shared_variable_leaks :
  let c := {| hr_custom := []; hr_sub := Some 7; hr_locations := [1; 2] |} in
  match hr_run false [] c with
  | (Some t', _) => hr_close false t' c = [(7, 1)] /\ fst (hr_run false (hr_close false t' c) c) = None
  | _ => False
  end.
Proof. vm_compute. split; reflexivity. Qed.
