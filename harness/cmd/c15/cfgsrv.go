package main

// frps started the way cmd/frps starts it: a configuration FILE (TOML or JSON) written as an operator
// would write it, config.LoadServerConfig (decode + ServerConfig.Complete), validation.ValidateServerConfig,
// server.NewService, Run.  The httpPlugins entries keep the order and the names given -- duplicates,
// empty names and omitted names included: a plugin's name is a label, not a key.

import (
	"context"
	"encoding/json"
	"fmt"
	"net"
	"os"
	"strings"
	"time"

	"github.com/fatedier/frp/pkg/config"
	v1 "github.com/fatedier/frp/pkg/config/v1"
	"github.com/fatedier/frp/pkg/config/v1/validation"
	"github.com/fatedier/frp/server"
	"verifharness/hx"
)

type cfgEntry struct {
	name     string
	omitName bool // the entry has no `name` key at all
	addr     string
	path     string // /handler/<case token>
	ops      []string
}

type sysServer struct {
	Svc    *server.Service
	Cfg    *v1.ServerConfig
	Addr   string
	Port   int
	Text   string
	cancel context.CancelFunc
}

func tomlStr(s string) string { b, _ := json.Marshal(s); return string(b) }

func tomlStrs(l []string) string {
	var it []string
	for _, s := range l {
		it = append(it, tomlStr(s))
	}
	return "[" + strings.Join(it, ", ") + "]"
}

// gwCfg: the ssh tunnel gateway part of a configuration (nil = gateway off)
type gwCfg struct {
	port    int
	akFile  string // authorized_keys
	hostKey string // autoGenPrivateKeyPath
}

// seconds frps waits for a work connection; 1 only in the cases whose plugin answers later than that
var sysUserConnTimeout = 10

var sysGateway *gwCfg

// write the configuration as a legacy INI file ([common] + [plugin.<name>] sections; names are keys there)
var sysINI = false // set by the gateway scenarios around startFromConfigFile

func configText(addr string, port int, entries []cfgEntry, scopes bool, asJSON bool) string {
	return configTextWith(addr, port, entries, scopes, asJSON, sysUserConnTimeout, sysGateway, sysINI)
}

func configTextWith(addr string, port int, entries0 []cfgEntry, scopes bool, asJSON bool, sysUserConnTimeout int, gw *gwCfg, sysINI bool) string {
	entries := append([]cfgEntry(nil), entries0...)
	for i := range entries {
		if entries[i].path == "" {
			panic("cfgEntry without a case path")
		}
	}
	if sysINI {
		var b strings.Builder
		fmt.Fprintf(&b, "[common]\nbind_addr = %s\nbind_port = %d\nproxy_bind_addr = %s\nuser_conn_timeout = %d\ntcp_mux = false\n", addr, port, addr, sysUserConnTimeout)
		fmt.Fprintf(&b, "authentication_method = token\ntoken = %s\n", hx.DefaultToken)
		if scopes {
			b.WriteString("authenticate_heartbeats = true\nauthenticate_new_work_conns = true\n")
		}
		for _, e := range entries {
			fmt.Fprintf(&b, "\n[plugin.%s]\naddr = %s\npath = %s\nops = %s\n", e.name, e.addr, e.path, strings.Join(e.ops, ","))
		}
		return b.String()
	}
	if asJSON {
		m := map[string]any{"bindAddr": addr, "bindPort": port, "proxyBindAddr": addr,
			"userConnTimeout": sysUserConnTimeout,
			"transport":       map[string]any{"tcpMux": false},
			"auth":            map[string]any{"method": "token", "token": hx.DefaultToken}}
		if scopes {
			m["auth"].(map[string]any)["additionalScopes"] = []string{"HeartBeats", "NewWorkConns"}
		}
		var ps []map[string]any
		for _, e := range entries {
			p := map[string]any{"addr": e.addr, "path": e.path, "ops": e.ops}
			if e.ops == nil {
				p["ops"] = []string{}
			}
			if !e.omitName {
				p["name"] = e.name
			}
			ps = append(ps, p)
		}
		if len(ps) > 0 {
			m["httpPlugins"] = ps
		}
		if gw != nil {
			m["sshTunnelGateway"] = map[string]any{"bindPort": gw.port, "authorizedKeysFile": gw.akFile, "autoGenPrivateKeyPath": gw.hostKey}
		}
		b, _ := json.MarshalIndent(m, "", "  ")
		return string(b)
	}
	var b strings.Builder
	fmt.Fprintf(&b, "bindAddr = %s\nbindPort = %d\nproxyBindAddr = %s\nuserConnTimeout = %d\ntransport.tcpMux = false\n", tomlStr(addr), port, tomlStr(addr), sysUserConnTimeout)
	fmt.Fprintf(&b, "auth.method = \"token\"\nauth.token = %s\n", tomlStr(hx.DefaultToken))
	if scopes {
		b.WriteString("auth.additionalScopes = [\"HeartBeats\", \"NewWorkConns\"]\n")
	}
	if gw != nil {
		fmt.Fprintf(&b, "sshTunnelGateway.bindPort = %d\nsshTunnelGateway.authorizedKeysFile = %s\nsshTunnelGateway.autoGenPrivateKeyPath = %s\n",
			gw.port, tomlStr(gw.akFile), tomlStr(gw.hostKey))
	}
	for _, e := range entries {
		b.WriteString("\n[[httpPlugins]]\n")
		if !e.omitName {
			fmt.Fprintf(&b, "name = %s\n", tomlStr(e.name))
		}
		fmt.Fprintf(&b, "addr = %s\npath = %s\nops = %s\n", tomlStr(e.addr), tomlStr(e.path), tomlStrs(e.ops))
	}
	return b.String()
}

func startFromConfigFile(addr string, entries []cfgEntry, scopes bool, asJSON bool) (*sysServer, error) {
	return startFromConfigFileWith(addr, entries, scopes, asJSON, sysUserConnTimeout, sysGateway, sysINI)
}

// startFromConfigFileWith takes everything as parameters (used from the background scenario, which must not
// read the globals the sequential scenarios set around their own starts)
func startFromConfigFileWith(addr string, entries []cfgEntry, scopes bool, asJSON bool, uct int, gw *gwCfg, ini bool) (*sysServer, error) {
	sysINI := ini
	port := hx.FreePort(addr)
	text := configTextWith(addr, port, entries, scopes, asJSON, uct, gw, ini)
	ext := ".toml"
	if asJSON {
		ext = ".json"
	}
	if sysINI {
		ext = ".ini"
	}
	f, err := os.CreateTemp("", "c15frps*"+ext)
	if err != nil {
		return nil, err
	}
	defer os.Remove(f.Name())
	if _, err := f.WriteString(text); err != nil {
		return nil, err
	}
	f.Close()
	cfg, _, err := config.LoadServerConfig(f.Name(), true)
	if err != nil {
		return nil, fmt.Errorf("LoadServerConfig: %v\n%s", err, text)
	}
	if _, err := validation.ValidateServerConfig(cfg); err != nil {
		return nil, fmt.Errorf("ValidateServerConfig: %v\n%s", err, text)
	}
	svc, err := server.NewService(cfg)
	if err != nil {
		return nil, err
	}
	ctx, cancel := context.WithCancel(context.Background())
	go svc.Run(ctx)
	s := &sysServer{Svc: svc, Cfg: cfg, Addr: addr, Port: port, Text: text, cancel: cancel}
	for i := 0; i < 200; i++ {
		if hx.TCPBound(addr, port) {
			return s, nil
		}
		time.Sleep(5 * time.Millisecond)
	}
	return s, fmt.Errorf("frps did not come up on %s:%d", addr, port)
}

func (s *sysServer) Close() {
	s.cancel()
	_ = s.Svc.Close()
}

func (s *sysServer) Dial() (net.Conn, error) {
	return net.DialTimeout("tcp", net.JoinHostPort(s.Addr, fmt.Sprint(s.Port)), 2*time.Second)
}

var cfgNames = []string{"", "", "dup", "dup", "audit", "a", "b"}

// name for the i-th entry of a configuration: empty, omitted, shared or distinct
func (g *gen) cfgName() (string, bool) {
	if g.chance(0.25) {
		return "", true
	}
	return g.pick(cfgNames), false
}
