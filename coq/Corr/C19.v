(* C19 correspondence: observed behaviour of the real health.Monitor, proxy.Manager (with its
   wrappers) and visitor.Manager against Model/Health.v, Model/Wrapper.v, Model/Reconcile.v. *)
From FRP Require Export Corr.Common Model.Health Model.Wrapper Model.Reconcile Model.ClientSvc.
Open Scope Z_scope.

(* ---------- health ---------- *)
(* probe outcomes as the harness writes them: 0 accept | 1 refuse | 2 timeout | 1000+code *)
Definition c19_probe (z : Z) : hm_probe :=
  if z =? 0 then HPAccept else if z =? 1 then HPRefuse else if z =? 2 then HPTimeout else HPStatus (z - 1000).
Definition c19_kind (z : Z) : hm_kind := if z =? 0 then HKTcp else if z =? 1 then HKHttp else HKOther.
Definition c19_ev (e : hm_event) : Z := match e with HMNormal => 0 | HMFailed => 1 end.

Fixpoint c19_zlist_eqb (a b : list Z) : bool :=
  match a, b with
  | [], [] => true
  | x :: a', y :: b' => (x =? y) && c19_zlist_eqb a' b'
  | _, _ => false
  end.
Fixpoint c19_zll_eqb (a b : list (list Z)) : bool :=
  match a, b with
  | [], [] => true
  | x :: a', y :: b' => c19_zlist_eqb x y && c19_zll_eqb a' b'
  | _, _ => false
  end.

(* the property as a monitor on an observed trace, written against the specification
   (hm_spec_ok), not against the model's step function *)
Fixpoint c19_health_expected (max : Z) (seen : list bool) (errs : list bool) : list (list Z) :=
  match errs with
  | [] => []
  | e :: r =>
      let before := hm_spec_ok max seen in
      let after := hm_spec_ok max (seen ++ [e]) in
      (if negb before && after then [0] else if before && negb after then [1] else [])
        :: c19_health_expected max (seen ++ [e]) r
  end.

Definition c19_health_holds (kind max : Z) (probes : list Z) (events : list (list Z)) : bool :=
  let errs := map (fun p => hm_probe_err (c19_kind kind) (c19_probe p)) probes in
  c19_zll_eqb events (c19_health_expected (hm_norm_max max) [] errs).

(* ---------- reconcile: proxy manager with its wrappers ---------- *)
Inductive c19_rop :=
| ROUpdate (cfgs : list (Z * Z * bool))        (* name, value, monitor *)
| ROResp (name : Z) (resp_err run_ok : bool)
| ROHealth (name : Z) (h : Z)
| ROWork (name : Z)
| ROElapse (d : Z)                              (* the logical clock jumps by d *)
| ROSettle
| ROClose.

(* op, set of messages (kind 1 NewProxy / 2 CloseProxy, name, value), result, status rows
   (name, wrapper id, phase, Err <> "", value) *)
Definition c19_rstep : Type := c19_rop * list (Z * Z * Z) * Z * list (Z * Z * Z * Z * Z).

(* ---------- service path ---------- *)
Inductive c19_svop := SOLogin | SOLost | SOReload (p v : list (Z * Z)).

(* ---------- visitors ---------- *)
(* op (Some cfgs = UpdateAll with (name, value) entries, None = only keepVisitorsRunning rounds),
   names whose visitor.Run() fails at this step (bind port occupied by the harness),
   status rows (name, value, running 0/1, same visitor object as before the step 0/1),
   number of listeners of closed visitors that are still open *)
Definition c19_vstep : Type := option (list (Z * Z)) * list Z * list (Z * Z * Z * Z) * Z.

Inductive c19_case :=
| CHealth (kind maxFailed : Z) (hasN hasF : bool) (probes : list Z) (events : list (list Z))
| CRecon (w e : Z) (steps : list c19_rstep)
| CVis (steps : list c19_vstep)
(* system variant (real frpc against an in-process frps), quiescent reloads only: configuration
   set, set of NewProxy/CloseProxy requests the SERVER saw during the step (1/2, name, 0), status
   rows of the client afterwards (name, phase, value) *)
| CSys (steps : list (list (Z * Z * bool) * list (Z * Z * Z) * list (Z * Z * Z)))
(* service path (real frpc, reload through Service.UpdateAllConfigurer, outage and re-login):
   initial proxy / visitor sets, then per step the operation and, when the session is live afterwards,
   the proxy rows (name, value) and visitor rows (name, value, running) of the current Control *)
| CSvc (p0 v0 : list (Z * Z)) (steps : list (c19_svop * bool * list (Z * Z) * list (Z * Z * Z))).


Definition c19_cfg (x : Z * Z * bool) : rc_cfg :=
  let '(n, v, h) := x in {| rc_name := n; rc_val := v; rc_hc := h |}.

(* every wrapper ever created runs one checkWorker iteration *)
Definition c19_tick_all (t : pw_timing) (s : pm_state) (now : Z) : pm_state * list pm_out :=
  fold_left (fun acc id => let '(s1, o1) := acc in
                           let '(s2, o2) := pm_step t s1 (PMTick id now) in (s2, o1 ++ o2))
            (map Z.of_nat (seq 0 (Z.to_nat (pm_next s)))) (s, []).

Definition c19_model_step (t : pw_timing) (s : pm_state) (now : Z) (op : c19_rop)
  : pm_state * Z * list pm_out :=
  let now1 := now + 1 + match op with ROElapse d => d | _ => 0 end in
  let '(s1, o1) :=
    match op with
    | ROUpdate cfgs => pm_step t s (PMUpdate (map c19_cfg cfgs))
    | ROResp n e r => pm_step t s (PMResp n now1 e r)
    | ROHealth n h =>
        match rc_get (pm_map s) n with
        | Some en => if pw_mon (pe_w en) then pm_step t s (PMHealth (pe_id en) h) else (s, [])
        | None => (s, [])
        end
    | ROWork n => pm_step t s (PMWork n)
    | ROElapse _ => (s, [])
    | ROSettle => (s, [])
    | ROClose => pm_step t s PMClose
    end in
  let '(s2, o2) := c19_tick_all t s1 now1 in
  (s2, now1, o1 ++ o2).

Definition c19_msg_of (o : pm_out) : list (Z * Z * Z) :=
  match o with
  | PMNewProxy n v => [(1, n, 0)]   (* which configuration the wrapper holds is compared through the status rows *)
  | PMCloseProxy n => [(2, n, 0)]
  | PMPanic _ => [(8, 0, 0)]
  | _ => []
  end.
Definition c19_result_of (o : pm_out) : list Z :=
  match o with
  | PMRespOk _ => [1] | PMRespErr _ => [2] | PMRespIgnored _ => [3] | PMRespNotFound _ => [4]
  | PMWorkAccepted _ => [5] | PMWorkClosed _ => [6]
  | _ => []
  end.

Definition c19_t3_eqb (a b : Z * Z * Z) : bool :=
  let '(a1, a2, a3) := a in let '(b1, b2, b3) := b in (a1 =? b1) && (a2 =? b2) && (a3 =? b3).
Definition c19_t5_eqb (a b : Z * Z * Z * Z * Z) : bool :=
  let '(a1, a2, a3, a4, a5) := a in let '(b1, b2, b3, b4, b5) := b in
  (a1 =? b1) && (a2 =? b2) && (a3 =? b3) && (a4 =? b4) && (a5 =? b5).
Definition c19_set_eqb {A} (eqb : A -> A -> bool) (a b : list A) : bool :=
  forallb (fun x => existsb (eqb x) b) a && forallb (fun x => existsb (eqb x) a) b.

Definition c19_status_of (s : pm_state) : list (Z * Z * Z * Z * Z) :=
  map (fun ne : Z * pm_entry =>
         let e := snd ne in
         (fst ne, pe_id e, pw_phase_code (pw_ph (pe_w e)), (if pw_haserr (pe_w e) then 1 else 0), rc_val (pe_cfg e)))
      (pm_map s).

(* reason codes: 11 messages, 12 result, 13 status rows *)
Fixpoint c19_recon_check (t : pw_timing) (s : pm_state) (now : Z) (steps : list c19_rstep) : Z :=
  match steps with
  | [] => 0
  | (op, msgs, res, status) :: r =>
      let '(s1, now1, outs) := c19_model_step t s now op in
      let mm := flat_map c19_msg_of outs in
      let mr := match flat_map c19_result_of outs with x :: _ => x | [] => 0 end in
      if negb (c19_set_eqb c19_t3_eqb msgs mm) then 11
      else if negb (res =? mr) then 12
      else if negb (c19_set_eqb c19_t5_eqb status (c19_status_of s1)
                    && (Z.of_nat (length status) =? Z.of_nat (length (pm_map s1)))) then 13
      else c19_recon_check t s1 now1 r
  end.

(* the model's run of a case, for the coverage counters *)
Fixpoint c19_recon_outs (t : pw_timing) (s : pm_state) (now : Z) (steps : list c19_rstep)
  : list (c19_rop * pm_state * pm_state * list pm_out) :=
  match steps with
  | [] => []
  | (op, _, _, _) :: r =>
      let '(s1, now1, outs) := c19_model_step t s now op in
      (op, s, s1, outs) :: c19_recon_outs t s1 now1 r
  end.

Definition c19_health_model (kind maxFailed : Z) (hasN hasF : bool) (probes : list Z) : list (list Z) :=
  let c := {| hm_max := hm_norm_max maxFailed; hm_hasN := hasN; hm_hasF := hasF |} in
  map (map c19_ev) (snd (hm_run (c19_kind kind) c (map c19_probe probes))).

Definition c19_vcfg (x : Z * Z) : rc_cfg := {| rc_name := fst x; rc_val := snd x; rc_hc := false |}.
Definition c19_vok (blocked : list Z) (n : Z) : bool := negb (existsb (Z.eqb n) blocked).

(* the op, then keepVisitorsRunning rounds until nothing changes (one round suffices: idempotent) *)
Definition c19_vmodel_step (s : vm_state) (op : option (list (Z * Z))) (blocked : list Z) : vm_state * list vm_event :=
  let ok := c19_vok blocked in
  let '(s1, e1) := match op with
                   | Some cfgs => vm_update s (map c19_vcfg cfgs) ok
                   | None => (s, [])
                   end in
  let '(s2, e2) := vm_keep s1 ok in
  (s2, e1 ++ e2).

Definition c19_vstatus (s s' : vm_state) : list (Z * Z * Z * Z) :=
  map (fun nc : Z * rc_cfg =>
         let n := fst nc in
         (n, rc_val (snd nc),
          (match rc_get (vm_vis s') n with Some _ => 1 | None => 0 end),
          (match rc_get (vm_vis s) n, rc_get (vm_vis s') n with
           | Some a, Some b => if a =? b then 1 else 0
           | _, _ => 0 end)))
      (vm_cfgs s').

Definition c19_t4_eqb (a b : Z * Z * Z * Z) : bool :=
  let '(a1, a2, a3, a4) := a in let '(b1, b2, b3, b4) := b in
  (a1 =? b1) && (a2 =? b2) && (a3 =? b3) && (a4 =? b4).

(* reason codes: 21 status rows differ, 22 a closed visitor still listens *)
Fixpoint c19_vis_check (s : vm_state) (steps : list c19_vstep) : Z :=
  match steps with
  | [] => 0
  | (op, blocked, status, stale) :: r =>
      let '(s1, _) := c19_vmodel_step s op blocked in
      if negb (c19_set_eqb c19_t4_eqb status (c19_vstatus s s1)
               && (Z.of_nat (length status) =? Z.of_nat (length (vm_cfgs s1)))) then 21
      else if negb (stale =? 0) then 22
      else c19_vis_check s1 r
  end.

Fixpoint c19_vis_events (s : vm_state) (steps : list c19_vstep) : list vm_event :=
  match steps with
  | [] => []
  | (op, blocked, _, _) :: r =>
      let '(s1, ev) := c19_vmodel_step s op blocked in ev ++ c19_vis_events s1 r
  end.

(* the server answers every NewProxy with success: all waiting wrappers get their reply *)
Definition c19_reply_all (t : pw_timing) (s : pm_state) (now : Z) : pm_state :=
  fold_left (fun acc ne => let e := snd ne in
                           match rc_get (pm_map acc) (fst ne) with
                           | Some e' => if pw_phase_eqb (pw_ph (pe_w e')) PWWait
                                        then fst (pm_step t acc (PMResp (fst ne) now false true)) else acc
                           | None => acc
                           end) (pm_map s) s.

Definition c19_t3s_eqb := c19_t3_eqb.
(* reason codes: 31 server-side requests differ, 32 client status rows differ *)
Fixpoint c19_sys_check (t : pw_timing) (s : pm_state) (now : Z)
  (steps : list (list (Z * Z * bool) * list (Z * Z * Z) * list (Z * Z * Z))) : Z :=
  match steps with
  | [] => 0
  | (cfgs, evs, rows) :: r =>
      let '(s1, now1, outs) := c19_model_step t s now (ROUpdate cfgs) in
      let s2 := c19_reply_all t s1 now1 in
      let mrows := map (fun ne : Z * pm_entry =>
                          (fst ne, pw_phase_code (pw_ph (pe_w (snd ne))), rc_val (pe_cfg (snd ne)))) (pm_map s2) in
      if negb (c19_set_eqb c19_t3_eqb evs (flat_map c19_msg_of outs)) then 31
      else if negb (c19_set_eqb c19_t3_eqb rows mrows && (Z.of_nat (length rows) =? Z.of_nat (length mrows))) then 32
      else c19_sys_check t s2 now1 r
  end.

Definition c19_t2_eqb (a b : Z * Z) : bool := (fst a =? fst b) && (snd a =? snd b).
(* reason codes: 41 live/not live differs, 42 proxy rows, 43 visitor rows *)
Fixpoint c19_svc_check (t : pw_timing) (s : sv_state)
  (steps : list (c19_svop * bool * list (Z * Z) * list (Z * Z * Z))) : Z :=
  match steps with
  | [] => 0
  | (op, live, prow, vrow) :: r =>
      let ok := fun _ : Z => true in
      (* at a re-login a visitor's Run() can fail because the dead Control's visitor still holds the
         bind port (it is closed only after Control.Run); the observed result is the oracle *)
      let okl := fun n : Z => existsb (fun r : Z * Z * Z => (fst (fst r) =? n) && (snd r =? 1)) vrow in
      let s1 := sv_step t s (match op with
                             | SOLogin => SVLogin okl
                             | SOLost => SVLost
                             | SOReload p v => SVReload (map c19_vcfg p) (map c19_vcfg v) ok
                             end) in
      match sv_ctl s1 with
      | SvLive c =>
          let mp := map (fun ne : Z * pm_entry => (fst ne, rc_val (pe_cfg (snd ne)))) (pm_map (sc_pm c)) in
          let mv := map (fun nc : Z * rc_cfg =>
                           (fst nc, rc_val (snd nc),
                            match rc_get (vm_vis (sc_vm c)) (fst nc) with Some _ => 1 | None => 0 end))
                        (vm_cfgs (sc_vm c)) in
          if negb live then 41
          else if negb (c19_set_eqb c19_t2_eqb prow mp && (Z.of_nat (length prow) =? Z.of_nat (length mp))) then 42
          else if negb (c19_set_eqb c19_t3_eqb vrow mv && (Z.of_nat (length vrow) =? Z.of_nat (length mv))) then 43
          else c19_svc_check t s1 r
      | _ => if live then 41 else c19_svc_check t s1 r
      end
  end.

Definition c19_check_case (c : c19_case) : Z :=
  match c with
  | CHealth kind maxFailed hasN hasF probes events =>
      if negb (c19_zll_eqb events (c19_health_model kind maxFailed hasN hasF probes)) then 1
      else if hasN && hasF && negb (c19_health_holds kind maxFailed probes events) then 2
      else 0
  | CRecon w e steps =>
      c19_recon_check {| pw_wait := w; pw_errto := e |} pm_init 1000 steps
  | CVis steps => c19_vis_check vm_init steps
  | CSys steps => c19_sys_check {| pw_wait := 100; pw_errto := 100000 |} pm_init 1000 steps
  | CSvc p0 v0 steps =>
      c19_svc_check {| pw_wait := 100; pw_errto := 100000 |} (sv_init (map c19_vcfg p0) (map c19_vcfg v0)) steps
  end.



(* coverage counters: how many cases made the model withdraw / register again / survive a
   failure run that a success had interrupted *)
Definition c19_flat (l : list (list Z)) : list Z := List.concat l.
Definition c19_case_withdraws (c : c19_case) : bool :=
  match c with
  | CHealth k m n f p _ => existsb (Z.eqb 1) (c19_flat (c19_health_model k m n f p))
  | _ => false
  end.
Definition c19_case_reregisters (c : c19_case) : bool :=
  match c with
  | CHealth k m n f p _ => 2 <=? count_if (Z.eqb 0) (c19_flat (c19_health_model k m n f p))
  | _ => false
  end.
(* a failed probe, later a success, later a failed probe that does not withdraw although the
   failures before and after the success add up to maxFailed or more *)
Fixpoint c19_total_fails (errs : list bool) : Z :=
  match errs with [] => 0 | e :: r => (if e then 1 else 0) + c19_total_fails r end.
Definition c19_case_restarts_count (c : c19_case) : bool :=
  match c with
  | CHealth k m n f p _ =>
      let errs := map (fun x => hm_probe_err (c19_kind k) (c19_probe x)) p in
      let fired := count_if (Z.eqb 1) (c19_flat (c19_health_model k m n f p)) in
      (fired =? 0) && (hm_norm_max m <=? c19_total_fails errs) && hm_has_success errs
  | _ => false
  end.

Definition c19_recon_trace (c : c19_case) :=
  match c with
  | CRecon w e steps => c19_recon_outs {| pw_wait := w; pw_errto := e |} pm_init 1000 steps
  | _ => []
  end.
Definition c19_is_update (op : c19_rop) : bool := match op with ROUpdate _ => true | _ => false end.
(* an update that kept at least one wrapper (same id before and after) *)
Definition c19_case_keeps (c : c19_case) : bool :=
  existsb (fun x => let '(op, s, s1, _) := x in
                    c19_is_update op &&
                    existsb (fun ne : Z * pm_entry =>
                               match rc_get (pm_map s1) (fst ne) with
                               | Some e1 => pe_id e1 =? pe_id (snd ne)
                               | None => false
                               end) (pm_map s))
          (c19_recon_trace c).
(* an update that stopped a wrapper and started another one under the same name *)
Definition c19_case_replaces (c : c19_case) : bool :=
  existsb (fun x => let '(op, s, s1, _) := x in
                    c19_is_update op &&
                    existsb (fun ne : Z * pm_entry =>
                               match rc_get (pm_map s1) (fst ne) with
                               | Some e1 => negb (pe_id e1 =? pe_id (snd ne))
                               | None => false
                               end) (pm_map s))
          (c19_recon_trace c).
Fixpoint c19_has_dup (l : list Z) : bool :=
  match l with [] => false | x :: r => existsb (Z.eqb x) r || c19_has_dup r end.
Definition c19_case_has_duplicate (c : c19_case) : bool :=
  existsb (fun x => let '(op, _, _, _) := x in
                    match op with ROUpdate cfgs => c19_has_dup (map (fun y => fst (fst y)) cfgs) | _ => false end)
          (c19_recon_trace c).
(* a NewProxy sent by a wrapper that was in start error *)
Definition c19_case_retries_start_error (c : c19_case) : bool :=
  existsb (fun x => let '(op, s, s1, _) := x in
                    existsb (fun ne : Z * pm_entry =>
                               match pw_ph (pe_w (snd ne)), rc_get (pm_map s1) (fst ne) with
                               | PWStartErr, Some e1 => (pe_id e1 =? pe_id (snd ne)) && pw_phase_eqb (pw_ph (pe_w e1)) PWWait
                               | _, _ => false
                               end) (pm_map s))
          (c19_recon_trace c).
(* a wrapper withdrawn by a health failure while its NewProxy was unanswered (wait start -> check failed) *)
Definition c19_case_withdrawn_while_waiting (c : c19_case) : bool :=
  existsb (fun x => let '(op, s, s1, _) := x in
                    existsb (fun ne : Z * pm_entry =>
                               match pw_ph (pe_w (snd ne)), rc_get (pm_map s1) (fst ne) with
                               | PWWait, Some e1 => (pe_id e1 =? pe_id (snd ne)) && pw_phase_eqb (pw_ph (pe_w e1)) PWCheckFailed
                               | _, _ => false
                               end) (pm_map s))
          (c19_recon_trace c).
Definition c19_case_reaches_running (c : c19_case) : bool :=
  existsb (fun x => let '(_, _, s1, _) := x in
                    existsb (fun ne : Z * pm_entry => pw_phase_eqb (pw_ph (pe_w (snd ne))) PWRunning) (pm_map s1))
          (c19_recon_trace c).

Definition c19_case_vis_closes (c : c19_case) : bool :=
  match c with
  | CVis steps => existsb (fun e => match e with VMClosed _ _ => true | _ => false end) (c19_vis_events vm_init steps)
  | _ => false
  end.
Definition c19_case_vis_start_fails (c : c19_case) : bool :=
  match c with
  | CVis steps => existsb (fun e => match e with VMStartFailed _ => true | _ => false end) (c19_vis_events vm_init steps)
  | _ => false
  end.
(* a visitor whose start had failed is started by a later keep round *)
Fixpoint c19_started_after_failure (failed : list Z) (evs : list vm_event) : bool :=
  match evs with
  | [] => false
  | VMStartFailed n :: r => c19_started_after_failure (n :: failed) r
  | VMStarted _ n :: r => existsb (Z.eqb n) failed || c19_started_after_failure failed r
  | _ :: r => c19_started_after_failure failed r
  end.
Definition c19_case_vis_keep_restarts (c : c19_case) : bool :=
  match c with
  | CVis steps => c19_started_after_failure [] (c19_vis_events vm_init steps)
  | _ => false
  end.
Definition c19_case_vis_duplicate (c : c19_case) : bool :=
  match c with
  | CVis steps => existsb (fun x : c19_vstep => match fst (fst (fst x)) with
                                                | Some cfgs => c19_has_dup (map fst cfgs)
                                                | None => false end) steps
  | _ => false
  end.
