(* C13 correspondence: the real group controllers (server/group) driven through sequential
   histories and gate-driven schedules, compared with Model.Group.run on the same requests and
   the same schedule. *)
From FRP Require Export Corr.Common Model.Group.
Export Grp.
Open Scope Z_scope.

Definition kind_of (z : Z) : kind := if z =? 0 then KTcp else if z =? 1 then KHttp else KMux.

Definition mkj (m g key : Z) (par : list Z) (port pick : Z) (os lis mux : bool) : jreq :=
  {| j_m := m; j_group := g; j_key := key; j_par := par; j_port := port; j_pick := pick;
     j_os := os; j_lis := lis; j_mux := mux |}.

Definition ecode (e : jerr) : Z :=
  match e with
  | EParams => 1 | EDiffPort => 2 | EAuth => 3 | ERepeated => 4 | EPortUsed => 5 | EPortNotAllowed => 6
  | EPortUnavail => 7 | ENoPort => 8 | EListenFail => 9 | ERouteConflict => 10 | EMux => 11 | EOracle => 99
  end.

(* what the harness can see of a thread at the end of the schedule *)
Definition tcode (t : tst) : Z * Z :=
  match t with
  | TInit => (0, 0) | TLooked _ => (1, 0) | TMember _ p => (2, p) | TRefused e => (3, ecode e)
  | TLeft => (4, 0) | TLeaving => (11, 0) | THeld _ _ => (5, 0)
  | TConn CRefused => (6, 0) | TConn (CTo m) => (7, m) | TConn CStranded => (8, 0) | TConn CNoFunc => (9, 0)
  | TDone => (10, 0)
  end.

Definition zz_eqb (a b : Z * Z) : bool := (fst a =? fst b) && (snd a =? snd b).
Fixpoint lzz_eqb (a b : list (Z * Z)) : bool :=
  match a, b with
  | [], [] => true
  | x :: a', y :: b' => zz_eqb x y && lzz_eqb a' b'
  | _, _ => false
  end.

(* ctl.groups as (name, number of members), in table order *)
Definition tab_view (k : kind) (s : st) : list (Z * Z) :=
  map (fun e : Z * nat =>
         (fst e, match nth_error (s_heap s) (snd e) with
                 | Some g => Z.of_nat (length (members k g)) | None => -1 end)) (s_tab s).

Definition same_set (a b : list (Z * Z)) : bool :=
  Nat.eqb (length a) (length b) && forallb (fun x => existsb (zz_eqb x) b) a
  && forallb (fun x => existsb (zz_eqb x) a) b.

(* join threads that still hold a listener whose Accept already reported "closed" *)
Fixpoint dead_from (s : st) (i : Z) (ts : list tst) : list Z :=
  match ts with
  | [] => []
  | t :: r =>
      match t with
      | TMember gid _ =>
          match nth_error (s_heap s) gid with
          | Some g => if g_closed g then i :: dead_from s (i + 1) r else dead_from s (i + 1) r
          | None => dead_from s (i + 1) r
          end
      | _ => dead_from s (i + 1) r
      end
  end.

Inductive case :=
| CCase (k lo hi : Z) (reqs : list req) (sched : list nat)   (* sched: the atomic steps actually taken, in order *)
        (crashed : bool) (thr : list (Z * Z)) (tab : list (Z * Z))
        (used eps : list (list Z * bool)) (dead : list Z)
        (accepts : Z)        (* connections returned by all members' Accept calls together *)
(* a history through a whole frps: only what clients and users see *)
| CSys (k lo hi : Z) (reqs : list req) (sched : list nat) (thr : list (Z * Z)).

(* 0 = agrees *)
Definition check_case (c : case) : Z :=
  match c with
  | CCase kz lo hi reqs sched crashed thr tab used eps dead accepts =>
      let k := kind_of kz in
      match run k reqs sched (init lo hi reqs) with
      | Crashed => if crashed then 0 else 1
      | Run f =>
          if crashed then 2
          else if negb (lzz_eqb (map tcode (c_t f)) thr) then 3
          else if negb (same_set (tab_view k (c_s f)) tab) then 4
          else if negb (forallb (fun p : list Z * bool => Bool.eqb (rmem (fst p) (s_used (c_s f))) (snd p)) used) then 5
          else if negb (forallb (fun p : list Z * bool => Bool.eqb (ep_open k (c_s f) (fst p)) (snd p)) eps) then 6
          else if negb (lz_eqb (match k with KHttp => [] | _ => dead_from (c_s f) 0 (c_t f) end) dead) then 7
          (* every delivered connection was returned by exactly one Accept: no duplicates, no extras *)
          else if negb (match k with KHttp => true
                        | _ => count_if (fun t => match t with TConn (CTo _) => true | _ => false end) (c_t f) =? accepts end) then 8
          else 0
      end
  | CSys kz lo hi reqs sched thr =>
      match run (kind_of kz) reqs sched (init lo hi reqs) with
      | Crashed => 12
      | Run f => if lzz_eqb (map tcode (c_t f)) thr then 0 else 13
      end
  end.

(* ---- the property as a monitor on what was observed (used for counters) ---- *)
Definition model_world (c : case) : world :=
  match c with
  | CCase kz lo hi reqs sched _ _ _ _ _ _ _ => run (kind_of kz) reqs sched (init lo hi reqs)
  | CSys kz lo hi reqs sched _ => run (kind_of kz) reqs sched (init lo hi reqs)
  end.

Definition case_crashes (c : case) : bool := match model_world c with Crashed => true | _ => false end.
Definition case_lost (c : case) : bool := match model_world c with Run f => c_lost f | _ => false end.

(* endpoint without a group the controller knows (probed resources that are not held by the environment) *)
Definition case_orphan (c : case) : bool :=
  match c with
  | CCase kz _ _ _ _ _ _ _ used _ _ _ =>
      match model_world c with
      | Run f =>
          existsb (fun p : list Z * bool =>
                     snd p && negb (rmem (fst p) (s_env (c_s f)))
                     && negb (tab_has_live (kind_of kz) (c_s f) (fst p))) used
      | Crashed => false
      end
  | CSys _ _ _ _ _ _ => false
  end.

(* empty group object left in the table *)
Definition case_shell (c : case) : bool :=
  match c with
  | CCase _ _ _ _ _ _ _ tab _ _ _ _ => existsb (fun e : Z * Z => snd e =? 0) tab
  | CSys _ _ _ _ _ _ => false
  end.

Definition case_delivered (c : case) : Z :=
  match c with
  | CCase _ _ _ _ _ _ thr _ _ _ _ _ => count_if (fun t : Z * Z => fst t =? 7) thr
  | CSys _ _ _ _ _ thr => count_if (fun t : Z * Z => fst t =? 7) thr
  end.
Definition case_refused_join (c : case) : Z :=
  match c with
  | CCase _ _ _ _ _ _ thr _ _ _ _ _ => count_if (fun t : Z * Z => fst t =? 3) thr
  | CSys _ _ _ _ _ thr => count_if (fun t : Z * Z => fst t =? 3) thr
  end.
