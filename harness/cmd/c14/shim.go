package main

import "verifharness/hx"

var drivers = map[string]hx.DriverFn{}

func main() { hx.Main(drivers) }

type runCfg = hx.RunCfg
type caseFile = hx.CaseFile

var (
	coqZ    = hx.Z
	coqBool = hx.Bool
	coqList = hx.List
)

const corrImports = "From FRP Require Import Corr.C14.\nImport ListNotations.\nOpen Scope Z_scope.\n"
