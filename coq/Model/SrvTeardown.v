(* Model/SrvTeardown.v — registrations in flight when a session dies (server side).
     pkg/msg/handler.go   Dispatcher.readLoop: reads a message, calls its handler IN PLACE, reads again; a read
                          error closes doneCh (nothing else does)
     server/control.go    registerMsgHandlers (NewProxy / CloseProxy / Ping run in the read loop),
                          handleNewProxy (plugin chain, RegisterProxy: listener, ports, pxyManager.Add,
                          ctl.proxies[name] = pxy), worker: <-Done(); conn.Close(); close pool; for every proxy
                          in ctl.proxies: Close, pxyManager.Del; close(ctl.doneCh)
   A NewProxy that arrived at [sr_at] is read when the loop is free (if the connection has not ended yet) and
   its registration exists from [finish] = start + sr_dur (plugin calls + listen).  The connection ends at
   [cut] (peer gone, or the heartbeat watchdog closed it); the read loop notices at its next read.  The
   teardown releases what is registered at that moment; anything that lands later is LEAKED: held by a
   control nobody looks at again.  Time in ms.  No proofs in this file. *)
From Coq Require Import ZArith List Bool.
Import ListNotations.
Open Scope Z_scope.

Record sreg := { sr_at : Z; sr_name : Z; sr_dur : Z }.

(* the read loop over the NewProxy messages; [async] = the handler is started with `go`.
   Result: (finish instant, name) of every registration that was started, and the instant the loop is free *)
Fixpoint st_loop (async : bool) (free cut : Z) (l : list sreg) : list (Z * Z) * Z :=
  match l with
  | [] => ([], free)
  | r :: rest =>
      let start := Z.max (sr_at r) free in
      if cut <=? start then ([], free)              (* ReadMsg fails first: this and later messages are never handled *)
      else
        let finish := start + sr_dur r in
        let '(regs, free') := st_loop async (if async then start else finish) cut rest in
        ((finish, sr_name r) :: regs, free')
  end.

Record st_result := {
  st_detect : Z;                 (* the read error closes doneCh, worker() tears down *)
  st_released : list Z;          (* registrations the teardown found in ctl.proxies and closed *)
  st_leaked : list Z             (* registrations that landed after the teardown *)
}.

Definition st_run (async : bool) (free cut : Z) (l : list sreg) : st_result :=
  let '(regs, free') := st_loop async free cut l in
  let d := Z.max cut free' in
  {| st_detect := d;
     st_released := map snd (filter (fun p => fst p <=? d) regs);
     st_leaked := map snd (filter (fun p => d <? fst p) regs) |}.
