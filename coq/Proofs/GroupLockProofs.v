(* Soundness of the lock-structure check of Model/GroupLocks.v. *)
From Coq Require Import Lia.
From FRP Require Import Model.GroupLocks.
Local Open Scope string_scope.

Lemma walk_counts : forall evs hc hg ind dc nc n,
  lock_walk evs hc hg ind dc nc = Some n -> n = (nc + count_ctl_locks evs)%nat.
Proof.
  induction evs as [|e r IH]; simpl; intros hc hg ind dc nc n H; [inversion H; lia|].
  destruct e; simpl in *;
    repeat match type of H with
           | (if ?c then _ else _) = _ => destruct c eqn:?
           end; try discriminate; try (apply IH in H; simpl; lia).
Qed.

Lemma walk_covers : forall evs hc hg ind dc nc n,
  lock_walk evs hc hg ind dc nc = Some n ->
  forall pre ev post, evs = (pre ++ ev :: post)%list -> is_access ev = true -> ctl_held pre hc = true.
Proof.
  induction evs as [|e r IH]; intros hc hg ind dc nc n H pre ev post Heq Ha.
  - destruct pre; discriminate.
  - destruct pre as [|x pre]; simpl in Heq; inversion Heq; subst.
    + simpl. simpl in H. destruct ev; simpl in Ha; try discriminate;
        (destruct hc; [reflexivity|simpl in H; discriminate]).
    + simpl in H. destruct x; simpl;
        repeat match type of H with
               | (if ?c then _ else _) = _ => destruct c eqn:?
               end; try discriminate;
        try (eapply IH; [exact H|reflexivity|exact Ha]).
Qed.

(* what a successful check means: one controller critical section in the whole function, every
   access of the groups table / call into the group / endpoint operation happens while the controller
   mutex is held *)
Theorem atomic_ok_sound : forall evs, atomic_ok evs = true ->
  count_ctl_locks evs = 1%nat /\
  forall pre ev post, evs = (pre ++ ev :: post)%list -> is_access ev = true -> ctl_held pre false = true.
Proof.
  intros evs H. unfold atomic_ok in H.
  destruct (lock_walk evs false false false false 0) as [n|] eqn:E; [|discriminate].
  destruct n as [|[|n]]; try discriminate. split.
  - apply walk_counts in E. lia.
  - intros. eapply walk_covers; eassumption.
Qed.

Lemma sl_eqb_eq : forall a b, sl_eqb a b = true -> a = b.
Proof.
  induction a as [|x a IH]; destruct b as [|y b]; simpl; intro H; try discriminate; [reflexivity|].
  apply andb_prop in H. destruct H as [Ha Hl]. apply String.eqb_eq in Ha. subst. f_equal. apply IH. exact Hl.
Qed.

Theorem group_locks_ok_sound : forall facts, group_locks_ok facts = true ->
  map fst facts = expected_lock_functions /\
  forall f evs, In (f, evs) facts ->
    count_ctl_locks evs = 1%nat /\
    forall pre ev post, evs = (pre ++ ev :: post)%list -> is_access ev = true -> ctl_held pre false = true.
Proof.
  intros facts H. unfold group_locks_ok in H. apply andb_prop in H. destruct H as [H1 H2]. split.
  - clear H2. apply sl_eqb_eq. exact H1.
  - intros f evs Hin. rewrite forallb_forall in H2. apply atomic_ok_sound. apply (H2 _ Hin).
Qed.

Lemma member_walk_covers : forall evs hg, member_walk evs hg = true ->
  forall pre post, evs = (pre ++ GMemberCall :: post)%list -> grp_held pre hg = false.
Proof.
  induction evs as [|e r IH]; intros hg H pre post Heq.
  - destruct pre; discriminate.
  - destruct pre as [|x pre]; simpl in Heq; inversion Heq; subst.
    + simpl in *. destruct hg; [discriminate|reflexivity].
    + simpl in H. destruct x; simpl;
        repeat match type of H with
               | (if ?c then _ else _) = _ => destruct c eqn:?
               end; try discriminate;
        try (eapply IH; [exact H|reflexivity]).
      apply andb_prop in H. destruct H as [_ H]. eapply IH; [exact H|reflexivity].
Qed.

(* every call of a member's CreateConnFn happens while the group's mutex is NOT held *)
Theorem member_calls_ok_sound : forall facts, member_calls_ok facts = true ->
  map fst facts = expected_member_functions /\
  forall f evs, In (f, evs) facts ->
    forall pre post, evs = (pre ++ GMemberCall :: post)%list -> grp_held pre false = false.
Proof.
  intros facts H. unfold member_calls_ok in H. apply andb_prop in H. destruct H as [H _].
  apply andb_prop in H. destruct H as [H1 H2]. split; [apply sl_eqb_eq; exact H1|].
  intros f evs Hin pre post Heq. rewrite forallb_forall in H2. eapply member_walk_covers; [apply (H2 _ Hin)|exact Heq].
Qed.
