(* C18 — proofs about Model/Literals.v: decimal text, PortsRangeSlice, ParseRangeNumbers, number pairs *)
From Coq Require Import Decimal DecimalZ DecimalPos Lia.
From FRP Require Import Model.Literals Proofs.MsgObjProofs Proofs.CfgMsgProofs.
Open Scope Z_scope.

(* ---- decimal ---- *)
Lemma uint_of_bytes_of_uint u : lit_uint_of_bytes (lit_bytes_of_uint u) = Some u.
Proof. induction u; cbn; try rewrite IHu; reflexivity. Qed.

Definition is_digit (b : byte) : bool := (48 <=? Z_of_byte b) && (Z_of_byte b <=? 57).

Lemma bytes_of_uint_digits u : Forall (fun b => is_digit b = true) (lit_bytes_of_uint u).
Proof. induction u; cbn; constructor; try assumption; reflexivity. Qed.

Lemma bytes_of_uint_nonnil u : u <> Nil -> lit_bytes_of_uint u <> [].
Proof. destruct u; cbn; congruence. Qed.

Lemma parse_unsigned_digits s u :
  s <> [] -> Forall (fun b => is_digit b = true) s -> lit_uint_of_bytes s = Some u ->
  lit_parse_int64 s =
  (if (lit_int64_min <=? Z.of_uint u) && (Z.of_uint u <=? lit_int64_max) then Some (Z.of_uint u) else None).
Proof.
  intros Hne Hd Hu. unfold lit_parse_int64. destruct s as [|b r]; [congruence|].
  inversion Hd as [|? ? Hb _]; subst.
  assert (Hs : (b :: r) = b :: r) by reflexivity.
  destruct b; try discriminate Hb; rewrite Hu; reflexivity.
Qed.

Lemma itoa_parse_roundtrip n : lit_int64_min <= n <= lit_int64_max -> lit_parse_int64 (lit_itoa n) = Some n.
Proof.
  intros Hr. unfold lit_itoa. destruct n as [|p|p]; cbn [Z.to_int].
  - reflexivity.
  - rewrite (parse_unsigned_digits _ (Pos.to_uint p)).
    + unfold Z.of_uint. rewrite Unsigned.of_to. cbn [Z.of_N].
      destruct ((lit_int64_min <=? Z.pos p) && (Z.pos p <=? lit_int64_max)) eqn:E; [reflexivity|].
      apply andb_false_iff in E. destruct E as [E|E]; [apply Z.leb_gt in E|apply Z.leb_gt in E]; lia.
    + apply bytes_of_uint_nonnil, Unsigned.to_uint_nonnil.
    + apply bytes_of_uint_digits.
    + apply uint_of_bytes_of_uint.
  - unfold lit_parse_int64.
    pose proof (bytes_of_uint_nonnil _ (Unsigned.to_uint_nonnil p)) as Hne.
    destruct (lit_bytes_of_uint (Pos.to_uint p)) as [|b r] eqn:Eb; [congruence|].
    rewrite <- Eb, uint_of_bytes_of_uint. unfold Z.of_uint. rewrite Unsigned.of_to. cbn [Z.of_N Z.opp].
    destruct ((lit_int64_min <=? Z.neg p) && (Z.neg p <=? lit_int64_max)) eqn:E; [reflexivity|].
    apply andb_false_iff in E. destruct E as [E|E]; [apply Z.leb_gt in E|apply Z.leb_gt in E]; lia.
Qed.

(* ---- number pairs ---- *)
Lemma combine_fst {A B} (xs : list A) (ys : list B) : length xs = length ys -> map fst (combine xs ys) = xs.
Proof. revert ys. induction xs as [|x xs IH]; destruct ys; cbn; intros H; try discriminate; [reflexivity|]. f_equal. apply IH. lia. Qed.
Lemma combine_snd {A B} (xs : list A) (ys : list B) : length xs = length ys -> map snd (combine xs ys) = ys.
Proof. revert ys. induction xs as [|x xs IH]; destruct ys; cbn; intros H; try discriminate; [reflexivity|]. f_equal. apply IH. lia. Qed.

Lemma number_pairs_aligned a b l :
  number_range_pairs a b = PairsOk l ->
  exists xs ys, parse_range_numbers a = RNOk xs /\ parse_range_numbers b = RNOk ys /\
                length xs = length ys /\ l = combine xs ys /\ map fst l = xs /\ map snd l = ys.
Proof.
  unfold number_range_pairs. destruct (parse_range_numbers a) as [xs| |]; try discriminate.
  destruct (parse_range_numbers b) as [ys| |]; try discriminate.
  destruct (Nat.eqb (length xs) (length ys)) eqn:E; [|discriminate].
  apply Nat.eqb_eq in E. intros [= <-]. exists xs, ys. repeat split; auto using combine_fst, combine_snd.
Qed.

(* ---- rendered range lists ---- *)
Definition ports_range_wf (v : ports_range) : Prop :=
  (0 < pr_single v <= lit_int64_max /\ pr_start v = 0 /\ pr_end v = 0) \/
  (pr_single v = 0 /\ 0 <= pr_start v <= pr_end v /\ pr_end v <= lit_int64_max).

(* hi < MaxInt64: the real loop does not terminate for hi = MaxInt64 (Model: RNNoReturn) *)
Definition range_item_wf (i : range_item) : Prop :=
  match i with
  | RItemSingle n => 0 <= n <= lit_int64_max
  | RItemRange lo hi => 0 <= lo <= hi /\ hi < lit_int64_max
  end.

Definition render_item (i : range_item) : bytes :=
  match i with
  | RItemSingle n => lit_itoa n
  | RItemRange lo hi => lit_itoa lo ++ [lit_dash] ++ lit_itoa hi
  end.
Definition render_items (l : list range_item) : bytes := lit_join [lit_comma] (map render_item l).
Definition item_numbers (i : range_item) : list Z :=
  match i with RItemSingle n => [n] | RItemRange lo hi => zrange lo hi end.

Definition item_parsable (i : range_item) : Prop :=
  match i with
  | RItemSingle n => 0 <= n <= lit_int64_max
  | RItemRange lo hi => 0 <= lo <= hi /\ hi <= lit_int64_max
  end.

Definition okb (b : byte) : bool := is_digit b || Byte.eqb b lit_dash.

Lemma digit_not_dash b : is_digit b = true -> Byte.eqb b lit_dash = false.
Proof. destruct b; vm_compute; congruence. Qed.
Lemma okb_not_comma b : okb b = true -> Byte.eqb b lit_comma = false.
Proof. destruct b; vm_compute; congruence. Qed.
Lemma okb_not_space b : okb b = true -> lit_is_space b = false.
Proof. destruct b; vm_compute; congruence. Qed.
Lemma comma_not_space : lit_is_space lit_comma = false.
Proof. reflexivity. Qed.

Lemma itoa_nonneg_digits n : 0 <= n -> Forall (fun b => is_digit b = true) (lit_itoa n) /\ lit_itoa n <> [].
Proof.
  intros H. unfold lit_itoa. destruct n as [|p|p]; [| |lia]; cbn [Z.to_int].
  - split; [repeat constructor|discriminate].
  - split; [apply bytes_of_uint_digits|apply bytes_of_uint_nonnil, Unsigned.to_uint_nonnil].
Qed.

Lemma trim_right_id s : Forall (fun b => lit_is_space b = false) s -> lit_trim_right s = s.
Proof.
  induction 1 as [|b r Hb Hr IH]; [reflexivity|]. cbn [lit_trim_right]. rewrite IH.
  destruct r; [now rewrite Hb|reflexivity].
Qed.
Lemma trim_space_id s : Forall (fun b => lit_is_space b = false) s -> lit_trim_space s = s.
Proof.
  intros H. unfold lit_trim_space. destruct H as [|b r Hb Hr]; [reflexivity|].
  cbn [lit_trim_left]. rewrite Hb. apply trim_right_id. now constructor.
Qed.

Lemma byte_eqb_refl' b : Byte.eqb b b = true.
Proof. destruct b; reflexivity. Qed.

Lemma split_nosep sep s : Forall (fun b => Byte.eqb b sep = false) s -> lit_split sep s = (s, []).
Proof. induction 1 as [|b r Hb Hr IH]; [reflexivity|]. cbn [lit_split]. now rewrite IH, Hb. Qed.

Lemma split_app_sep sep a rest :
  Forall (fun b => Byte.eqb b sep = false) a ->
  lit_split sep (a ++ sep :: rest) = (a, fst (lit_split sep rest) :: snd (lit_split sep rest)).
Proof.
  induction 1 as [|b r Hb Hr IH].
  - cbn [app lit_split]. destruct (lit_split sep rest). cbn. now rewrite byte_eqb_refl'.
  - cbn [app lit_split]. rewrite IH, Hb. reflexivity.
Qed.

Lemma split_list_join sep items :
  items <> [] -> Forall (Forall (fun b => Byte.eqb b sep = false)) items ->
  lit_split_list sep (lit_join [sep] items) = items.
Proof.
  intros Hne H. unfold lit_split_list. induction H as [|x r Hx Hr IH]; [congruence|].
  destruct r as [|y r'].
  - cbn [lit_join]. now rewrite split_nosep.
  - change (lit_join [sep] (x :: y :: r')) with (x ++ sep :: lit_join [sep] (y :: r')).
    rewrite split_app_sep by exact Hx.
    specialize (IH ltac:(discriminate)). destruct (lit_split sep (lit_join [sep] (y :: r'))) as [h t].
    cbn [fst snd]. now rewrite IH.
Qed.

Lemma Forall_impl' {A} (P Q : A -> Prop) l : (forall x, P x -> Q x) -> Forall P l -> Forall Q l.
Proof. intros H. apply Forall_impl. exact H. Qed.

Lemma render_item_okb i : item_parsable i -> Forall (fun b => okb b = true) (render_item i).
Proof.
  assert (D : forall l, Forall (fun b => is_digit b = true) l -> Forall (fun b => okb b = true) l).
  { intros l. apply Forall_impl'. intros b Hb. unfold okb. now rewrite Hb. }
  destruct i as [n|lo hi]; cbn [item_parsable render_item].
  - intros H. apply D, itoa_nonneg_digits. lia.
  - intros [H1 H2]. apply Forall_app. split; [apply D, itoa_nonneg_digits; lia|].
    constructor; [reflexivity|]. apply D, itoa_nonneg_digits. lia.
Qed.

Lemma parse_render_item i : item_parsable i -> parse_range_item (render_item i) = Some i.
Proof.
  assert (ND : forall n, 0 <= n -> Forall (fun b => Byte.eqb b lit_dash = false) (lit_itoa n)).
  { intros n Hn. eapply Forall_impl'; [|apply itoa_nonneg_digits; exact Hn]. apply digit_not_dash. }
  assert (NS : forall n, 0 <= n -> lit_trim_space (lit_itoa n) = lit_itoa n).
  { intros n Hn. apply trim_space_id. eapply Forall_impl'; [|apply itoa_nonneg_digits; exact Hn].
    intros b Hb. apply okb_not_space. unfold okb. now rewrite Hb. }
  unfold parse_range_item. destruct i as [n|lo hi]; cbn [item_parsable render_item].
  - intros H. rewrite split_nosep by (apply ND; lia). rewrite NS by lia.
    rewrite itoa_parse_roundtrip; [reflexivity|unfold lit_int64_min; lia].
  - intros [H1 H2]. change (lit_itoa lo ++ [lit_dash] ++ lit_itoa hi) with (lit_itoa lo ++ lit_dash :: lit_itoa hi).
    rewrite split_app_sep by (apply ND; lia). rewrite split_nosep by (apply ND; lia). cbn [fst snd].
    rewrite !NS by lia. rewrite !itoa_parse_roundtrip by (unfold lit_int64_min; lia).
    destruct (hi <? lo) eqn:E; [apply Z.ltb_lt in E; lia|reflexivity].
Qed.

Lemma rendered_list_shape items :
  items <> [] -> Forall item_parsable items ->
  lit_split_list lit_comma (lit_trim_space (render_items items)) = map render_item items.
Proof.
  intros Hne Hp. unfold render_items.
  assert (Hok : Forall (Forall (fun b => okb b = true)) (map render_item items)).
  { apply Forall_map. eapply Forall_impl'; [|exact Hp]. apply render_item_okb. }
  rewrite trim_space_id.
  - apply split_list_join; [destruct items; [congruence|discriminate]|].
    eapply Forall_impl'; [|exact Hok]. intros l. apply Forall_impl'. apply okb_not_comma.
  - clear Hne Hp. induction Hok as [|x r Hx Hr IH]; [constructor|].
    destruct r as [|y r']; [cbn; eapply Forall_impl'; [|exact Hx]; apply okb_not_space|].
    change (lit_join [lit_comma] (x :: y :: r')) with (x ++ lit_comma :: lit_join [lit_comma] (y :: r')).
    apply Forall_app. split; [eapply Forall_impl'; [|exact Hx]; apply okb_not_space|].
    constructor; [reflexivity|exact IH].
Qed.

Lemma parse_items_rendered items :
  Forall item_parsable items -> parse_range_items (map render_item items) = Some items.
Proof.
  induction 1 as [|i r Hi Hr IH]; [reflexivity|]. cbn [map parse_range_items].
  now rewrite (parse_render_item i Hi), IH.
Qed.

(* PortsRangeSlice *)
Definition item_of_ports (v : ports_range) : range_item :=
  if 0 <? pr_single v then RItemSingle (pr_single v) else RItemRange (pr_start v) (pr_end v).

Lemma ports_range_roundtrip p :
  p <> [] -> Forall ports_range_wf p -> ports_parse (ports_string p) = Some p.
Proof.
  intros Hne Hwf.
  assert (Hs : ports_string p = render_items (map item_of_ports p)).
  { unfold ports_string, render_items. destruct p; [congruence|]. f_equal. rewrite map_map.
    apply map_ext. intros v. unfold pr_item_string, item_of_ports. destruct (0 <? pr_single v); reflexivity. }
  assert (Hp : Forall item_parsable (map item_of_ports p)).
  { apply Forall_map. eapply Forall_impl'; [|exact Hwf]. intros v [H|H]; unfold item_of_ports.
    - destruct (0 <? pr_single v) eqn:E; [cbn [item_parsable]; lia|apply Z.ltb_ge in E; lia].
    - destruct (0 <? pr_single v) eqn:E; [apply Z.ltb_lt in E; lia|cbn [item_parsable]; lia]. }
  unfold ports_parse. rewrite Hs, rendered_list_shape by (first [exact Hp | (destruct p; [congruence|discriminate])]).
  rewrite parse_items_rendered by exact Hp. f_equal. rewrite map_map.
  rewrite <- (map_id p) at 2. apply map_ext_in. intros v Hv.
  rewrite Forall_forall in Hwf. specialize (Hwf v Hv). destruct v as [s e g].
  unfold item_of_ports, ports_range_wf in *. cbn [pr_start pr_end pr_single] in *.
  destruct Hwf as [(H1 & Hs0 & He0)|(Hg & H2)]; subst.
  - destruct (0 <? g) eqn:E; [reflexivity|apply Z.ltb_ge in E; lia].
  - reflexivity.
Qed.

(* ParseRangeNumbers *)
Lemma parse_expand_rendered items acc :
  Forall range_item_wf items ->
  parse_expand (map render_item items) acc = RNOk (acc ++ flat_map item_numbers items).
Proof.
  intros H. revert acc. induction H as [|i r Hi Hr IH]; intros acc; [cbn; now rewrite app_nil_r|].
  cbn [map parse_expand flat_map].
  assert (Hp : item_parsable i) by (destruct i; cbn [item_parsable range_item_wf] in *; lia).
  rewrite (parse_render_item i Hp). destruct i as [n|lo hi]; cbn [item_numbers].
  - rewrite IH, <- app_assoc. reflexivity.
  - cbn [range_item_wf] in Hi. destruct (hi =? lit_int64_max) eqn:E; [apply Z.eqb_eq in E; lia|].
    rewrite IH, <- app_assoc. reflexivity.
Qed.

Lemma range_numbers_expand items :
  items <> [] -> Forall range_item_wf items ->
  parse_range_numbers (render_items items) = RNOk (flat_map item_numbers items).
Proof.
  intros Hne Hwf. unfold parse_range_numbers.
  assert (Hp : Forall item_parsable items).
  { eapply Forall_impl'; [|exact Hwf]. intros i Hi. destruct i; cbn [item_parsable range_item_wf] in *; lia. }
  rewrite rendered_list_shape by assumption. now rewrite parse_expand_rendered.
Qed.

(* what a range expands to: exactly lo .. hi, in order *)
Lemma zrange_spec lo hi : lo <= hi ->
  length (zrange lo hi) = Z.to_nat (hi - lo + 1) /\
  forall k, (k < Z.to_nat (hi - lo + 1))%nat -> nth_error (zrange lo hi) k = Some (lo + Z.of_nat k).
Proof.
  intros H. unfold zrange. split; [now rewrite map_length, seq_length|].
  intros k Hk. rewrite nth_error_map. rewrite nth_error_nth' with (d := O) by (now rewrite seq_length).
  rewrite seq_nth by exact Hk. reflexivity.
Qed.
