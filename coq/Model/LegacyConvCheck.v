(* C18 — the legacy ini conversion of the COMMON sections (gen/GenLegacyConv.v, from
   pkg/config/legacy/conversion.go and the `ini:"…"` tags of the legacy structs) against a pinned table
   "ini key -> file-format key of the v1 field it sets" (Golden/GoldenLegacyConv.v).  Model only. *)
From FRP Require Export Model.FlagsCheck.

Definition lc_conv : Type := string * string * string * string * list string * string * string.
Definition lc_entry : Type := string * string * string * string * string.  (* section, ini key, v1 key, form, guard *)

Definition lc_structs_code (code : string) : option string :=
  match code with
  | String "s" (String "t" (String "r" (String "u" (String "c" (String "t" (String "s" (String ":" n))))))) => Some n
  | _ => None
  end.

Definition lc_next (code : string) : option string :=
  match fc_next_struct code with Some n => Some n | None => lc_structs_code code end.

(* like fc_json_path, with "[]" = "an element of the slice" *)
Fixpoint lc_json_path (tbl : list (string * list (string * string * string * bool)))
         (sname : string) (path : list string) : option (list string) :=
  match path with
  | [] => Some []
  | f :: rest =>
      if String.eqb f "[]" then
        match lc_json_path tbl sname rest with Some r => Some ("[]" :: r)%string | None => None end
      else
      match cm_assoc sname tbl with
      | None => None
      | Some fs =>
          match find (fun x => String.eqb (fc_field_name x) f) fs with
          | None => None
          | Some (_, code, json, _) =>
              let seg := match json with EmptyString => [] | _ => [json] end in
              match rest with
              | [] => Some seg
              | _ =>
                  match lc_next code with
                  | None => None
                  | Some n =>
                      match lc_json_path tbl n rest with
                      | Some r => Some (seg ++ r)
                      | None => None
                      end
                  end
              end
          end
      end
  end.

Fixpoint lc_entries (tbl : list (string * list (string * string * string * bool))) (cs : list lc_conv) : option (list lc_entry) :=
  match cs with
  | [] => Some []
  | (sec, ini, _, root, path, form, guard) :: r =>
      if cm_str_prefix "Unknown:" form then None
      else match lc_json_path tbl root path, lc_entries tbl r with
           | Some p, Some es => Some ((sec, ini, String.concat "." p, form, guard) :: es)
           | _, _ => None
           end
  end.

Definition lc_entry_eqb (a b : lc_entry) : bool :=
  let '(a1, a2, a3, a4, a5) := a in let '(b1, b2, b3, b4, b5) := b in
  String.eqb a1 b1 && String.eqb a2 b2 && String.eqb a3 b3 && String.eqb a4 b4 && String.eqb a5 b5.

Definition lc_sec_ini (e : lc_entry) : string := let '(s, i, _, _, _) := e in (s ++ "/" ++ i)%string.
(* the target of an entry: distinct except for the appends to the same list (the form names the element) *)
Definition lc_sec_target (e : lc_entry) : string := let '(s, _, k, f, _) := e in (s ++ "/" ++ k ++ "/" ++ f)%string.

Definition lc_has_tag (k : string) : bool := negb (cm_str_prefix "-:" k).

Definition lc_all_ok (tbl : list (string * list (string * string * string * bool)))
           (golden : list lc_entry) (not_converted : list (string * string))
           (conv : list lc_conv) (keys : list (string * string * string)) : bool :=
  match lc_entries tbl conv with
  | None => false
  | Some es =>
      forallb (fun e => existsb (lc_entry_eqb e) golden) es &&
      forallb (fun g => existsb (lc_entry_eqb g) es) golden &&
      fc_nodup (map lc_sec_ini es) &&
      fc_nodup (map lc_sec_target es) &&
      (* every ini key of the legacy structs is converted or on the pinned not-converted list, never both *)
      forallb (fun k : string * string * string =>
                 let '(sec, ini, _) := k in
                 if lc_has_tag ini then
                   Bool.eqb (existsb (String.eqb (sec ++ "/" ++ ini)%string) (map lc_sec_ini es))
                            (negb (existsb (fun n : string * string => String.eqb (fst n) sec && String.eqb (snd n) ini) not_converted))
                 else true) keys &&
      forallb (fun n : string * string =>
                 existsb (fun k : string * string * string => let '(sec, ini, _) := k in String.eqb (fst n) sec && String.eqb (snd n) ini) keys)
              not_converted
  end.
