(* C09 — executable model of server/ports/ports.go (ports.Manager).  Model only: no proofs here.

   Go                                         model
   Manager.freePorts  map[int]struct{}        pm_free : list Z          (a set; insertion keeps it duplicate free)
   Manager.usedPorts  map[int]*PortCtx        pm_used : list (Z * pname) (port -> owner name)
   Manager.reservedPorts map[string]*PortCtx  pm_res  : list (pname * Z) (name -> last port)
   NewManager(allowPorts)                     pm_new ranges
   Acquire(name, port)                        pm_acquire probe choice s name port
   isPortAvailable (bind + close on the OS)   probe : Z -> bool           (oracle)
   `for k := range pm.freePorts` (5 tries)    choice : option Z           (observed choice, checked for legality)
   Release(port)                              pm_release s port
   cleanReservedPortsWorker                   pm_clean s name             (over-approximated: may drop any entry)

   PortCtx.Closed/UpdateTime are read only by the 24 h cleaner and are not modelled; the cleaner is
   over-approximated by a step that may delete any reserved entry at any time. *)
From FRP Require Export Model.Bytes.
Open Scope Z_scope.

Definition pname := string.

(* ---- finite sets / maps as lists (Go maps: the order is never observable) ---- *)
Fixpoint zmem (x : Z) (l : list Z) : bool :=
  match l with [] => false | y :: r => (x =? y) || zmem x r end.
Fixpoint zrem (x : Z) (l : list Z) : list Z :=
  match l with [] => [] | y :: r => if x =? y then zrem x r else y :: zrem x r end.
Definition zadd (x : Z) (l : list Z) : list Z := if zmem x l then l else x :: l.

Fixpoint uget (p : Z) (u : list (Z * pname)) : option pname :=
  match u with [] => None | (q, n) :: r => if p =? q then Some n else uget p r end.
Fixpoint udel (p : Z) (u : list (Z * pname)) : list (Z * pname) :=
  match u with [] => [] | (q, n) :: r => if p =? q then udel p r else (q, n) :: udel p r end.
Definition uset (p : Z) (n : pname) (u : list (Z * pname)) := (p, n) :: udel p u.

Fixpoint rget (n : pname) (r : list (pname * Z)) : option Z :=
  match r with [] => None | (m, p) :: t => if String.eqb n m then Some p else rget n t end.
Fixpoint rdel (n : pname) (r : list (pname * Z)) : list (pname * Z) :=
  match r with [] => [] | (m, p) :: t => if String.eqb n m then rdel n t else (m, p) :: rdel n t end.
Definition rset (n : pname) (p : Z) (r : list (pname * Z)) := (n, p) :: rdel n r.

Record pm := { pm_free : list Z; pm_used : list (Z * pname); pm_res : list (pname * Z) }.

(* ---- NewManager ---- *)
Definition pm_min_port := 1.
Definition pm_max_port := 65535.

Fixpoint zrange (start : Z) (n : nat) : list Z :=
  match n with O => [] | S k => start :: zrange (start + 1) k end.

(* types.PortsRange{Start, End, Single}.  NewManager keeps only bindable ports: a Single in 1..MaxPort,
   a range clamped to max(Start, MinPort) .. min(End, MaxPort) *)
Definition prange := (Z * Z * Z)%type.
Definition pr_expand (r : prange) : list Z :=
  let '(st, en, si) := r in
  if 0 <? si then (if si <=? pm_max_port then [si] else [])
  else let lo := Z.max st pm_min_port in
       let hi := Z.min en pm_max_port in
       zrange lo (Z.to_nat (hi - lo + 1)).

(* the ports NewManager puts into freePorts, in insertion order (duplicates possible here) *)
Definition pm_allowed (ranges : list prange) : list Z :=
  match ranges with
  | [] => zrange pm_min_port (Z.to_nat (pm_max_port - pm_min_port + 1))
  | _ => flat_map pr_expand ranges
  end.

Definition pm_new (ranges : list prange) : pm :=
  {| pm_free := fold_right zadd [] (pm_allowed ranges); pm_used := []; pm_res := [] |}.

(* ---- Acquire ---- *)
Inductive perr := EUsed | ENotAllowed | EUnavail | ENoAvail.
Inductive pres := POk (p : Z) | PErr (e : perr).

(* the four statements repeated in every success branch:
   usedPorts[realPort] = portCtx; reservedPorts[name] = portCtx; delete(freePorts, realPort) *)
Definition pm_take (s : pm) (name : pname) (p : Z) : pm :=
  {| pm_free := zrem p (pm_free s); pm_used := uset p name (pm_used s); pm_res := rset name p (pm_res s) |}.

Definition max_try_times := 5.

(* ErrNoAvailablePort out of the loop: the loop inspected min(5, |free|) distinct free ports and
   every one of them failed the probe *)
Definition pm_noavail_legal (probe : Z -> bool) (free : list Z) : bool :=
  let bad := Z.of_nat (length (filter (fun p => negb (probe p)) free)) in
  Z.min max_try_times (Z.of_nat (length free)) <=? bad.

(* the random path; [choice] = the port the loop stopped at (Some k) or "fell out of the loop" (None) *)
Definition pm_random (probe : Z -> bool) (choice : option Z) (s : pm) (name : pname) : option (pm * pres) :=
  match choice with
  | Some k =>
      if zmem k (pm_free s) && probe k then
        (* `if realPort == 0 { err = ErrNoAvailablePort }` runs after the tables were updated *)
        if k =? 0 then Some (pm_take s name k, PErr ENoAvail) else Some (pm_take s name k, POk k)
      else None
  | None => if pm_noavail_legal probe (pm_free s) then Some (s, PErr ENoAvail) else None
  end.

Definition pm_acquire (probe : Z -> bool) (choice : option Z) (s : pm) (name : pname) (port : Z)
  : option (pm * pres) :=
  if port =? 0 then
    match rget name (pm_res s) with
    | Some rp =>
        (* reserved path: the remembered port must still be free in the manager's own books and
           bindable right now *)
        if zmem rp (pm_free s) && probe rp then Some (pm_take s name rp, POk rp) else pm_random probe choice s name
    | None => pm_random probe choice s name
    end
  else if zmem port (pm_free s) then
    if probe port then Some (pm_take s name port, POk port) else Some (s, PErr EUnavail)
  else match uget port (pm_used s) with
       | Some _ => Some (s, PErr EUsed)
       | None => Some (s, PErr ENotAllowed)
       end.

(* ---- Release ---- *)
Definition pm_release (s : pm) (port : Z) : pm :=
  match uget port (pm_used s) with
  | Some _ => {| pm_free := zadd port (pm_free s); pm_used := udel port (pm_used s); pm_res := pm_res s |}
  | None => s
  end.

(* ---- cleaner (over-approximation) ---- *)
Definition pm_clean (s : pm) (n : pname) : pm :=
  {| pm_free := pm_free s; pm_used := pm_used s; pm_res := rdel n (pm_res s) |}.

(* ---- histories ---- *)
Inductive pop :=
| PAcq (name : pname) (port : Z) (probe : Z -> bool) (choice : option Z)
| PRel (port : Z)
| PClean (name : pname).

Inductive pout := OAcq (r : pres) | ONone.

Definition pm_step (s : pm) (o : pop) : option (pm * pout) :=
  match o with
  | PAcq n port probe ch =>
      match pm_acquire probe ch s n port with
      | Some (s', r) => Some (s', OAcq r)
      | None => None
      end
  | PRel port => Some (pm_release s port, ONone)
  | PClean n => Some (pm_clean s n, ONone)
  end.

(* None = some oracle value in the history is not one the code could have produced *)
Fixpoint pm_run (ops : list pop) (s : pm) : option pm :=
  match ops with
  | [] => Some s
  | o :: r => match pm_step s o with Some (s', _) => pm_run r s' | None => None end
  end.

(* the OS probe as the harness (and the layered model) derives it: a port can be bound iff it is a
   valid port number and nobody holds it.  Port 0 ("any port") can always be bound. *)
Definition probe_of (busy : list Z) (p : Z) : bool :=
  (0 <=? p) && (p <=? 65535) && negb (zmem p busy).
