// C16, frpc side: the virtual network (feature gate VirtualNet, plugin virtual_net, pkg/vnet).
//
// pkg/vnet opens a kernel TUN device named "utun" (root only, one per machine), so it cannot be part of the ordinary
// frpc child.  The child of this file ("c16 vnetplugin <ip>") runs the real vnet.Controller on a fake TUN device
// (hook pkg/vnet/c16_verif.go: VerifNewControllerWithTun) and the real virtual_net plugin: every connection accepted
// on the "server" port is handed to plugin.Handle exactly as BaseProxy.HandleTCPWorkConnection hands it a work
// connection (-> RegisterServerConn -> readLoopServer); connections on the "client" port become client routes
// (what the visitor plugin does -> readLoopClient); frames written to the "tun" port come out of the fake TUN
// device (-> Controller.Run -> handlePacket).  The parent writes frames [uint32 LE length][data].
package main

import (
	"bufio"
	"context"
	"encoding/binary"
	"fmt"
	"io"
	"net"
	"os"
	"time"

	v1 "github.com/fatedier/frp/pkg/config/v1"
	plugin "github.com/fatedier/frp/pkg/plugin/client"
	"github.com/fatedier/frp/pkg/vnet"
	"verifharness/hx"
)

type fakeTun struct {
	in     chan []byte
	closed chan struct{}
}

func (t *fakeTun) Read(p []byte) (int, error) {
	select {
	case b := <-t.in:
		return copy(p, b), nil
	case <-t.closed:
		return 0, io.EOF
	}
}
func (t *fakeTun) Write(p []byte) (int, error) { return len(p), nil }
func (t *fakeTun) Close() error                { close(t.closed); return nil }

func vnetPluginMain(args []string) {
	hx.Quiet()
	ip := args[0]
	tun := &fakeTun{in: make(chan []byte, 256), closed: make(chan struct{})}
	ctl := vnet.VerifNewControllerWithTun(v1.VirtualNetConfig{Address: "100.86.0.1/24"}, tun)
	go func() { _ = ctl.Run() }()
	listen := func() net.Listener {
		l, err := net.Listen("tcp", net.JoinHostPort(ip, "0"))
		if err != nil {
			fmt.Println("ERR", err)
			os.Exit(3)
		}
		return l
	}
	ls, lc, lt := listen(), listen(), listen()
	ctx := context.Background()
	go func() { // work connections of a virtual_net proxy
		for k := 0; ; k++ {
			conn, err := ls.Accept()
			if err != nil {
				return
			}
			name := fmt.Sprintf("vn%d", k)
			p, err := plugin.Create(v1.PluginVirtualNet, plugin.PluginContext{Name: name, VnetController: ctl}, &v1.VirtualNetPluginOptions{Type: v1.PluginVirtualNet})
			if err != nil {
				conn.Close()
				continue
			}
			p.Handle(ctx, &plugin.ConnectionInfo{Conn: conn, UnderlyingConn: conn})
		}
	}()
	go func() { // tunnel connections of a virtual_net visitor
		for k := 0; ; k++ {
			conn, err := lc.Accept()
			if err != nil {
				return
			}
			_, n, _ := net.ParseCIDR(fmt.Sprintf("100.86.%d.0/24", 1+k%200))
			_ = ctl.RegisterClientRoute(ctx, fmt.Sprintf("vr%d", k), []net.IPNet{*n}, conn)
		}
	}()
	go func() { // packets the local TUN device delivers
		for {
			conn, err := lt.Accept()
			if err != nil {
				return
			}
			go func() {
				defer conn.Close()
				br := bufio.NewReader(conn)
				for {
					var n uint32
					// (no empty packet: a TUN device never delivers one, and Controller.handlePacket looks at byte 0 unguarded)
					if binary.Read(br, binary.LittleEndian, &n) != nil || n == 0 || n > 4096 {
						return
					}
					b := make([]byte, n)
					if _, err := io.ReadFull(br, b); err != nil {
						return
					}
					select {
					case tun.in <- b:
					default:
					}
				}
			}()
		}
	}()
	port := func(l net.Listener) int { return l.Addr().(*net.TCPAddr).Port }
	fmt.Printf("READY %d %d %d\n", port(ls), port(lc), port(lt))
	_, _ = io.Copy(io.Discard, os.Stdin)
}

func vnetFrame(declared uint32, data []byte) []byte {
	b := make([]byte, 4, 4+len(data))
	binary.LittleEndian.PutUint32(b, declared)
	return append(b, data...)
}

// runVnetFrames: every first nibble x every length 0..40 (and some framing errors) on the three paths.
func runVnetFrames(seed int64, lane int) *epochOut {
	out := &epochOut{dist: map[string]int{}, counts: map[string]int64{}}
	ip := fmt.Sprintf("127.0.16.%d", 30+lane)
	ch, line, err := startChildProc("vnetplugin", ip)
	if err != nil {
		out.fails = append(out.fails, map[string]any{"key": "harness:vnet-child", "what": err.Error(), "case": "start"})
		return out
	}
	defer ch.stop()
	var ports [3]int
	fmt.Sscanf(line, "READY %d %d %d", &ports[0], &ports[1], &ports[2])
	g := hx.NewGen(seed*131 + 17)
	names := []string{"server-conn", "client-route", "tun"}
	dead := func(detail string) bool {
		if ch.alive() {
			return false
		}
		time.Sleep(30 * time.Millisecond)
		st := ch.stderr()
		where := crashFrame(st)
		out.fails = append(out.fails, map[string]any{"key": "frpc-crash:" + where, "what": "the vnet controller / virtual_net plugin process terminated: " + crashClass(st) + " in " + where,
			"case": fmt.Sprintf("seed %d vnet-frames: %s", seed, detail)})
		if len(st) > 4000 {
			st = st[:4000]
		}
		out.stderr = st
		return true
	}
	sent := int64(0)
	for path := 0; path < 3; path++ {
		for nib := 0; nib < 16; nib++ {
			conn, err := net.DialTimeout("tcp", net.JoinHostPort(ip, fmt.Sprint(ports[path])), time.Second)
			if err != nil {
				time.Sleep(100 * time.Millisecond)
				if dead(fmt.Sprintf("%s: dial", names[path])) {
					return out
				}
				continue
			}
			_ = conn.SetWriteDeadline(time.Now().Add(2 * time.Second))
			for n := 0; n <= 40; n++ {
				data := g.Bytes(n)
				if n > 0 {
					data[0] = byte(nib<<4) | data[0]&0x0f
				}
				if n == 0 {
					continue // a zero-length frame ends the connection (sent last, below)
				}
				_, _ = conn.Write(vnetFrame(uint32(n), data))
				sent++
			}
			// a well-formed IPv4 header (20 bytes) with odd IHL / total length values, then framing errors
			h := []byte{0x45, 0, 0, 20, 0, 0, 0, 0, 64, 17, 0, 0, 100, 86, 0, byte(2 + nib), 100, 86, byte(1 + nib), 9}
			h[0] = byte(4<<4 | nib)
			_, _ = conn.Write(vnetFrame(20, h))
			switch nib % 4 {
			case 0:
				_, _ = conn.Write(vnetFrame(0, nil))
			case 1:
				_, _ = conn.Write(vnetFrame(1<<20+1, []byte{1}))
			case 2:
				_, _ = conn.Write(vnetFrame(100, []byte{0x45, 0})) // declared longer than sent, then close
			}
			time.Sleep(3 * time.Millisecond)
			conn.Close()
			detail := fmt.Sprintf("%s: frames of 1..40 bytes with first nibble %#x", names[path], nib)
			time.Sleep(2 * time.Millisecond)
			if dead(detail) {
				return out // (the failing observation is reported under the crash key only)
			}
			out.cases = append(out.cases, caseRec{"client:directed:vnet-frames", names[path], detail, true, true})
			out.dist["directed:vnet-frames"]++
		}
	}
	// watchdog: the process is alive and still takes a connection and a well-formed packet on the server path
	conn, err := net.DialTimeout("tcp", net.JoinHostPort(ip, fmt.Sprint(ports[0])), time.Second)
	if err != nil {
		time.Sleep(100 * time.Millisecond) // a process that is just dying refuses connections before its exit is seen
		if !dead("watchdog") {
			out.fails = append(out.fails, map[string]any{"key": "frpc-wedged:vnet", "what": "the vnet process no longer accepts connections: " + err.Error(), "case": "watchdog"})
		}
		return out
	}
	_, werr := conn.Write(vnetFrame(20, []byte{0x45, 0, 0, 20, 0, 0, 0, 0, 64, 17, 0, 0, 100, 86, 0, 2, 100, 86, 0, 1}))
	conn.Close()
	time.Sleep(20 * time.Millisecond)
	if !dead("watchdog") && werr != nil {
		out.fails = append(out.fails, map[string]any{"key": "frpc-wedged:vnet", "what": "write to the vnet process failed: " + werr.Error(), "case": "watchdog"})
	}
	out.counts["vnet_frames"] = sent
	out.cases = append(out.cases, caseRec{"client:directed:vnet-frames", "watchdog", "alive, accepts a connection and a well-formed packet", true, true})
	return out
}
