package main

// Drivers "firstbytes" and "readloop" (C17, system level): an in-process frps with an established
// scripted session A (heartbeats + a tcp proxy that carries bytes); then
//   firstbytes: byte strings as the FIRST bytes of fresh raw (or TLS) connections,
//   readloop:   byte streams on the control channel of a second established session B,
// observing what the server does to that connection, what it replies, and that the session table,
// A's heartbeat and A's tunnel are unaffected.  Compared with Model/FrameSys.v (Corr/C17Sys.v).

import (
	"bytes"
	"crypto/tls"
	"fmt"
	"io"
	"math"
	"net"
	"reflect"
	"sort"
	"strings"
	"sync"
	"time"

	v1 "github.com/fatedier/frp/pkg/config/v1"
	"github.com/fatedier/frp/pkg/msg"
	"github.com/fatedier/frp/pkg/util/util"
	"github.com/fatedier/frp/server"

	"verifharness/hx"
)

func init() {
	drivers["firstbytes"] = runFirstBytes
	drivers["readloop"] = runReadLoop
}

const (
	shortWindow = 1500 * time.Millisecond
	longWindow  = 25 * time.Second
	fastLimit   = 5 * time.Second // a close observed earlier than this is "prompt", later is "after the read timeout"
)

// ---- session A: the bystander whose heartbeat and tunnel must keep working ----

type sessA struct {
	s     *hx.Server
	p     *hx.Peer
	mu    sync.Mutex // serialises writes on the control channel
	pong  chan struct{}
	rport int
	name  string
	dead  chan struct{}
}

func serveWork(w net.Conn) {
	defer w.Close()
	var sw msg.StartWorkConn
	if err := msg.ReadMsgInto(w, &sw); err != nil || sw.Error != "" {
		return
	}
	_, _ = io.Copy(w, w)
}

func startA(s *hx.Server, runID, proxy string) (*sessA, error) {
	p, resp, err := s.Login(hx.LoginOpts{RunID: runID, PoolCount: 0})
	if err != nil {
		return nil, err
	}
	if p == nil {
		return nil, fmt.Errorf("login of session A refused: %s", resp.Error)
	}
	a := &sessA{s: s, p: p, pong: make(chan struct{}, 64), dead: make(chan struct{}), name: proxy}
	a.rport = hx.FreePort(s.Addr)
	r, err := p.NewProxy(&msg.NewProxy{ProxyName: proxy, ProxyType: "tcp", RemotePort: a.rport})
	if err != nil {
		return nil, err
	}
	if r.Error != "" {
		return nil, fmt.Errorf("proxy of session A refused: %s", r.Error)
	}
	go func() {
		defer close(a.dead)
		for {
			m, err := msg.ReadMsg(p.RW)
			if err != nil {
				return
			}
			switch m.(type) {
			case *msg.Pong:
				select {
				case a.pong <- struct{}{}:
				default:
				}
			case *msg.ReqWorkConn:
				go func() {
					w, err := p.WorkConn(true)
					if err == nil {
						serveWork(w)
					}
				}()
			}
		}
	}()
	return a, nil
}

func (a *sessA) ping() bool {
	for {
		select {
		case <-a.pong:
			continue
		default:
		}
		break
	}
	a.mu.Lock()
	err := a.p.Ping(true)
	a.mu.Unlock()
	if err != nil {
		return false
	}
	select {
	case <-a.pong:
		return true
	case <-a.dead:
		return false
	case <-time.After(4 * time.Second):
		return false
	}
}

func (a *sessA) tunnel(g *gen) bool {
	u, err := net.DialTimeout("tcp", net.JoinHostPort(a.s.Addr, fmt.Sprint(a.rport)), 2*time.Second)
	if err != nil {
		return false
	}
	defer u.Close()
	payload := g.bytes(24)
	if _, err := u.Write(payload); err != nil {
		return false
	}
	_ = u.SetReadDeadline(time.Now().Add(4 * time.Second))
	back := make([]byte, len(payload))
	if _, err := io.ReadFull(u, back); err != nil {
		return false
	}
	return bytes.Equal(back, payload)
}

// sessions renders the session table as a Model.FrameSys.fs_state term (sorted by run id).
func sessions(svc *server.Service) string {
	var items []string
	for _, s := range svc.VerifC04Sessions() {
		var ps []string
		for _, n := range s.Proxies {
			ps = append(ps, coqHxS(n))
		}
		items = append(items, "("+coqHxS(s.RunID)+", "+coqList(ps)+")")
	}
	return coqList(items)
}

func waitSessions(svc *server.Service, want string, d time.Duration) bool {
	deadline := time.Now().Add(d)
	for {
		if sessions(svc) == want {
			return true
		}
		if time.Now().After(deadline) {
			return false
		}
		time.Sleep(5 * time.Millisecond)
	}
}

// ---- first bytes ----

type firstSpec struct {
	kind   string
	tls    int // 1 = real TLS handshake (0x17 + tls.Client), input goes inside
	input  []byte
	eof    bool
	window int // 1 short, 2 long
	orc    int // harness-side expectation of the handler: 0 silent refusal, 1 refusal with reply, 2 accept
	rid    string
	work   bool // an accepted work connection: serve it afterwards
}

type firstObs struct {
	closed int
	reply  int
	conn   net.Conn
	first  []byte // the bytes received
}

// jsonClass: what encoding/json (through the real msg.ReadMsg) makes of the first frame:
// 0 rejected / no frame, 1 a message, 2 JSON null (nil message, no error)
func jsonClass(in []byte) int {
	m, err := msg.ReadMsg(bytes.NewReader(in))
	if err != nil {
		return 0
	}
	if m == nil {
		return 2
	}
	return 1
}

func classifyReply(b []byte) int {
	if len(b) == 0 {
		return 0
	}
	r := bytes.NewReader(b)
	m, err := msg.ReadMsg(r)
	if err != nil || r.Len() != 0 {
		return 6
	}
	switch x := m.(type) {
	case *msg.LoginResp:
		if x.Error == "" {
			return 1
		}
		return 2
	case *msg.StartWorkConn:
		if x.Error != "" {
			return 3
		}
	case *msg.NewVisitorConnResp:
		if x.Error != "" {
			return 4
		}
		return 5
	}
	return 6
}

// observeFirst opens a connection, writes the bytes and watches it for the window.
func observeFirst(s *hx.Server, sp *firstSpec, win time.Duration) (o firstObs, err error) {
	raw, err := s.Dial()
	if err != nil {
		return o, err
	}
	var c net.Conn = raw
	start := time.Now()
	if sp.tls == 1 {
		if _, err := raw.Write([]byte{0x17}); err != nil {
			raw.Close()
			return o, err
		}
		tc := tls.Client(raw, &tls.Config{InsecureSkipVerify: true})
		_ = raw.SetDeadline(time.Now().Add(8 * time.Second))
		if err := tc.Handshake(); err != nil {
			raw.Close()
			return o, fmt.Errorf("tls handshake with frps: %v", err)
		}
		_ = raw.SetDeadline(time.Time{})
		c = tc
		start = time.Now()
	}
	if len(sp.input) > 0 {
		_, _ = c.Write(sp.input) // a reset while writing a long input is an observation, not a harness error
	}
	if sp.eof {
		switch x := c.(type) {
		case *net.TCPConn:
			_ = x.CloseWrite()
		case *tls.Conn:
			_ = x.CloseWrite()
		}
	}
	var got []byte
	buf := make([]byte, 4096)
	_ = c.SetReadDeadline(start.Add(win))
	for {
		n, err := c.Read(buf)
		got = append(got, buf[:n]...)
		if err != nil {
			if ne, ok := err.(net.Error); ok && ne.Timeout() {
				o.closed = 0
			} else if time.Since(start) < fastLimit {
				o.closed = 1
			} else {
				o.closed = 2
			}
			break
		}
	}
	_ = c.SetReadDeadline(time.Time{})
	o.reply = classifyReply(got)
	o.first = got
	o.conn = c
	return o, nil
}

func encodeMsg(m any) []byte {
	var b bytes.Buffer
	_ = msg.WriteMsg(&b, m)
	return b.Bytes()
}

const regTypes = "o1p2cwrsv3h4uinm56"

func firstSpecs(g *gen, n int, aRunID string) (seq, par []*firstSpec) {
	now := time.Now().Unix()
	goodKey := util.GetAuthKey(hx.DefaultToken, now)
	ping := encodeMsg(&msg.Ping{PrivilegeKey: goodKey, Timestamp: now})
	badLogin := func() []byte {
		return encodeMsg(&msg.Login{Version: "0.61.0", User: g.str(), PrivilegeKey: "0123456789abcdef", Timestamp: now, RunID: "c17-x"})
	}
	orcOf := func(t byte) int {
		// what the handlers answer to the generated (never valid) credentials / names
		switch t {
		case 'o', 'v':
			return 1
		}
		return 0
	}
	// (a) each of the 18 message types, reflection-filled valid frames
	rounds := 1 + n/200
	for r := 0; r < rounds; r++ {
		for _, proto := range msgProtos {
			pv := reflect.New(reflect.TypeOf(proto).Elem())
			g.fill(pv.Elem(), g.chance(0.3))
			if l, ok := pv.Interface().(*msg.Login); ok {
				l.RunID = "c17-y" // never the run id of a live session
			}
			if w, ok := pv.Interface().(*msg.NewWorkConn); ok && w.RunID == aRunID {
				w.RunID = "c17-z"
			}
			if v, ok := pv.Interface().(*msg.NewVisitorConn); ok && v.RunID == aRunID {
				v.RunID = "c17-z"
			}
			w := encodeMsg(pv.Interface())
			sp := &firstSpec{kind: "valid-" + pv.Elem().Type().Name(), input: w, window: 1, orc: orcOf(w[0])}
			if g.chance(0.15) {
				sp.tls = 1
			}
			seq = append(seq, sp)
		}
	}
	// (b) every type byte with a small body
	for t := 0; t < 256; t++ {
		seq = append(seq, &firstSpec{kind: "typebyte-sweep", input: frame(byte(t), 2, []byte("{}")), window: 1, orc: orcOf(byte(t))})
	}
	// (c) truncated frames: the peer half-closes (prompt close) or stays silent (close after the read timeout)
	nTrunc := 10 + n/40
	for i := 0; i < nTrunc; i++ {
		var f []byte
		switch g.intn(3) {
		case 0:
			f = badLogin()
		case 1:
			f = ping
		default:
			f = frame(regTypes[g.intn(18)], 30, g.bytes(30))
		}
		f = f[:1+g.intn(len(f)-1)]
		sp := &firstSpec{kind: "truncated", input: f, orc: 0}
		if g.chance(0.2) {
			sp.tls = 1
		}
		if i%2 == 0 {
			sp.eof, sp.window = true, 1
			seq = append(seq, sp)
		} else {
			sp.window = 2
			par = append(par, sp)
		}
	}
	// (d) oversize / negative / boundary lengths
	for _, t := range []byte{'o', 'h', 'w', 'v', 'p'} {
		for _, l := range []int64{math.MaxInt64, -1, 10241, math.MinInt64, 1 << 32, 65536} {
			seq = append(seq, &firstSpec{kind: "bad-length", input: frame(t, l, []byte(`{"version":"1"}`)), window: 1, orc: orcOf(t)})
		}
		// the largest admissible length with a body that never arrives
		par = append(par, &firstSpec{kind: "max-length-short-body", input: frame(t, 10240, []byte(`{"a":`)), window: 2})
		seq = append(seq, &firstSpec{kind: "max-length-short-body", input: frame(t, 10240, []byte(`{"a":`)), eof: true, window: 1})
	}
	// (e) garbage and wrongly typed JSON bodies under registered types, JSON null
	nGarb := 12 + n/20
	for i := 0; i < nGarb; i++ {
		t := regTypes[g.intn(18)]
		if i%3 == 0 {
			t = "owv"[g.intn(3)]
		}
		var body []byte
		switch g.intn(6) {
		case 0:
			body = g.bytes(g.intn(40))
		case 1:
			body = []byte(`{"version":123,"run_id":{},"proxy_name":[1]}`)
		case 2:
			body = []byte(`[]`)
		case 3:
			body = []byte(`{"timestamp":"now"`)
		case 4:
			body = []byte([]string{"null", " null ", "null\n"}[g.intn(3)])
		default:
			body = []byte(`"just a string"`)
		}
		sp := &firstSpec{kind: "json-body", input: frame(t, int64(len(body)), body), window: 1, orc: orcOf(t)}
		if g.chance(0.15) {
			sp.tls = 1
		}
		seq = append(seq, sp)
	}
	// (f) a frame followed by garbage
	nTrail := 8 + n/50
	for i := 0; i < nTrail; i++ {
		var f []byte
		orc := 0
		switch g.intn(4) {
		case 0:
			f = ping
		case 1:
			f, orc = badLogin(), 1
		case 2:
			f = frame(byte(g.intn(256)), 2, []byte("{}"))
			orc = orcOf(f[0])
		default:
			f = encodeMsg(&msg.NewWorkConn{RunID: "c17-nobody", PrivilegeKey: "k", Timestamp: now})
		}
		f = append(append([]byte{}, f...), g.bytes(1+g.intn(200))...)
		seq = append(seq, &firstSpec{kind: "frame-then-garbage", input: f, window: 1, orc: orc})
	}
	// (g) nothing at all
	for i := 0; i < 3; i++ {
		par = append(par, &firstSpec{kind: "silent", window: 2})
	}
	par = append(par, &firstSpec{kind: "silent-tls", tls: 1, window: 2})
	seq = append(seq, &firstSpec{kind: "silent-eof", eof: true, window: 1}, &firstSpec{kind: "silent-eof", eof: true, window: 1, tls: 1})
	// (h) random bytes; the harness does not know whether they are complete: long window, in parallel
	nRand := 20 + n/10
	for i := 0; i < nRand; i++ {
		in := g.bytes(1 + g.intn(40))
		if g.chance(0.5) {
			in[0] = regTypes[g.intn(18)]
		}
		par = append(par, &firstSpec{kind: "random", input: in, window: 2, orc: orcOf(in[0]), eof: g.chance(0.3)})
	}
	// a sample of definitely-bad inputs also under the long window (must still be closed promptly)
	for i := 0; i < 10; i++ {
		par = append(par, &firstSpec{kind: "typebyte-long-window", input: frame(byte(g.intn(256)), 2, []byte("{}")), window: 2})
	}
	for i := range par {
		if par[i].kind == "typebyte-long-window" {
			par[i].orc = orcOf(par[i].input[0])
		}
	}
	// (k) the listener mux in front of everything needs 10 bytes (len("GET /~!frp")) before it hands the
	// connection on: shorter inputs are held until EOF / its timeout whatever their first byte is
	for k := 1; k <= 12; k++ {
		in := append([]byte{0xc8}, bytes.Repeat([]byte{'x'}, k-1)...)
		par = append(par, &firstSpec{kind: "mux-boundary", input: in, window: 2})
		if k%3 == 0 {
			seq = append(seq, &firstSpec{kind: "mux-boundary", input: in, window: 1, eof: true})
		}
	}
	par = append(par, &firstSpec{kind: "mux-boundary", input: frame('o', 0, nil), window: 2},
		&firstSpec{kind: "mux-boundary", input: frame('o', 0, []byte("x")), window: 2, orc: 1},
		&firstSpec{kind: "mux-boundary", input: frame('h', 1, []byte("1")), window: 2})
	// (l) the websocket transport's prefix with a request that is not a websocket upgrade
	par = append(par, &firstSpec{kind: "websocket-prefix", input: []byte("GET /~!frp HTTP/1.1\r\nHost: x\r\n\r\n"), window: 2},
		&firstSpec{kind: "websocket-prefix", input: []byte("GET /~!frp\x00\xff junk\r\n\r\n"), window: 2})
	// (i) refused with a reply: known run id, wrong key
	seq = append(seq, &firstSpec{kind: "workconn-wrong-key", window: 1, orc: 1,
		input: encodeMsg(&msg.NewWorkConn{RunID: aRunID, PrivilegeKey: "0000", Timestamp: now})})
	// (j) accepted first messages (state changes are legitimate here)
	for i := 0; i < 2; i++ {
		rid := fmt.Sprintf("c17-fresh-%d", i)
		seq = append(seq, &firstSpec{kind: "login-accepted", window: 1, orc: 2, rid: rid, tls: i,
			input: encodeMsg(&msg.Login{Version: "0.61.0", PrivilegeKey: goodKey, Timestamp: now, RunID: rid})})
	}
	seq = append(seq, &firstSpec{kind: "workconn-accepted", window: 1, orc: 2, rid: aRunID, work: true,
		input: encodeMsg(&msg.NewWorkConn{RunID: aRunID, PrivilegeKey: goodKey, Timestamp: now})})
	return
}

func (sp *firstSpec) coq(before string, o firstObs, after string, aPing, aTunnel bool) string {
	return fmt.Sprintf("CFirst %d %s %s %d %d %d %s %s %d %d %s %s %s", sp.tls, coqHx(sp.input), coqBool(sp.eof), sp.window,
		jsonClass(sp.input), sp.orc, coqHxS(sp.rid), before, o.closed, o.reply, after, coqBool(aPing), coqBool(aTunnel))
}

func runFirstBytes(cfg *runCfg) error {
	hx.Quiet()
	g := newGen(cfg.Seed)
	// work connections are authenticated too, so that a NewWorkConn with a wrong key is REFUSED WITH A REPLY
	s, err := hx.StartServer("127.0.17.1", func(c *v1.ServerConfig) {
		c.Auth.AdditionalScopes = []v1.AuthScope{v1.AuthScopeNewWorkConns}
	})
	if err != nil {
		return err
	}
	defer s.Close()
	a, err := startA(s, "c17-A", "c17-a-tcp")
	if err != nil {
		return err
	}
	defer a.p.Close()
	if !a.ping() || !a.tunnel(g) {
		return fmt.Errorf("session A does not work before the first case")
	}
	baseline := sessions(s.Svc)
	seq, par := firstSpecs(g, cfg.N, a.p.RunID)

	cf := &caseFile{
		Imports: "From FRP Require Import Corr.C17Sys.\n",
		Typ:     "sys_case",
		Tail: "Definition M := Eval vm_compute in mismatches check_sys cases.\nPrint M.\n" +
			"Definition NCLOSENOW := Eval vm_compute in count_if is_close_now cases.\nPrint NCLOSENOW.\n" +
			"Definition NCLOSETIMEOUT := Eval vm_compute in count_if is_close_timeout cases.\nPrint NCLOSETIMEOUT.\n" +
			"Definition NKEEPOPEN := Eval vm_compute in count_if is_keep_open cases.\nPrint NKEEPOPEN.\n" +
			"Definition NTLSFAIL := Eval vm_compute in count_if is_tls_fail cases.\nPrint NTLSFAIL.\n" +
			"Definition NTLSINNER := Eval vm_compute in count_if is_tls_inner cases.\nPrint NTLSINNER.\n" +
			"Definition NDISPATCHED := Eval vm_compute in count_if is_dispatched cases.\nPrint NDISPATCHED.\n",
	}
	dist := map[string]int{}
	distinct := map[string]bool{}
	var samples []any
	var implFail []any
	fail := func(key, what, c string) {
		implFail = append(implFail, map[string]any{"key": key, "what": what, "case": c})
	}

	// parallel phase: everything that may have to wait for connReadTimeout, all at once
	type parRes struct {
		o   firstObs
		err error
	}
	pres := make([]parRes, len(par))
	var wg sync.WaitGroup
	for i := range par {
		wg.Add(1)
		go func(i int) {
			defer wg.Done()
			o, err := observeFirst(s, par[i], longWindow)
			pres[i] = parRes{o, err}
			if o.conn != nil {
				o.conn.Close()
			}
		}(i)
	}
	parDone := make(chan struct{})
	go func() { wg.Wait(); close(parDone) }()

	// sequential phase (runs while the parallel connections wait)
	win := shortWindow
	opens := 0
	for _, sp := range seq {
		before := sessions(s.Svc)
		o, err := observeFirst(s, sp, win)
		if err != nil {
			return fmt.Errorf("case %s: %v", sp.kind, err)
		}
		after := sessions(s.Svc)
		if sp.work && o.closed == 0 {
			go serveWork(o.conn)
		} else if o.conn != nil {
			o.conn.Close()
		}
		if o.closed == 0 {
			opens++
			if opens == 8 { // many connections are left open: keep the run short, the observation is the same
				win = 300 * time.Millisecond
			}
		}
		if after != before {
			// an accepted login: the session must disappear again once its connection is closed
			if !waitSessions(s.Svc, baseline, 5*time.Second) {
				fail("first:session-stuck", "the session table did not return to the baseline after a case", sp.kind)
			}
		}
		ap, at := a.ping(), a.tunnel(g)
		c := sp.coq(before, o, after, ap, at)
		cf.Cases = append(cf.Cases, c)
		dist[fmt.Sprintf("%s tls=%d closed=%d reply=%d", sp.kind, sp.tls, o.closed, o.reply)]++
		distinct[fmt.Sprintf("%d %x %v", sp.tls, sp.input, sp.eof)] = true
		if !ap {
			fail("first:A-heartbeat", "session A no longer answers Ping after first bytes on another connection", c)
		}
		if !at {
			fail("first:A-tunnel", "session A's tunnel no longer carries bytes after first bytes on another connection", c)
		}
		if len(samples) < 6 && len(sp.input) < 48 && (sp.kind != "typebyte-sweep" || len(samples) < 2) {
			samples = append(samples, map[string]any{"kind": sp.kind, "input_hex": fmt.Sprintf("%x", sp.input), "eof": sp.eof,
				"closed": o.closed, "reply": o.reply})
		}
	}

	// while the parallel phase is still waiting, A keeps exchanging heartbeats and carrying bytes
	apAll, atAll := true, true
	waiting := true
	for waiting {
		select {
		case <-parDone:
			waiting = false
		case <-time.After(250 * time.Millisecond):
		}
		apAll = a.ping() && apAll
		atAll = a.tunnel(g) && atAll
	}
	afterPar := sessions(s.Svc)
	for i, sp := range par {
		if pres[i].err != nil {
			return fmt.Errorf("case %s: %v", sp.kind, pres[i].err)
		}
		c := sp.coq(baseline, pres[i].o, afterPar, apAll, atAll)
		cf.Cases = append(cf.Cases, c)
		dist[fmt.Sprintf("%s tls=%d closed=%d reply=%d", sp.kind, sp.tls, pres[i].o.closed, pres[i].o.reply)]++
		distinct[fmt.Sprintf("%d %x %v", sp.tls, sp.input, sp.eof)] = true
	}
	if !apAll {
		fail("first:A-heartbeat", "session A stopped answering Ping while other connections were held open", "parallel phase")
	}
	if !atAll {
		fail("first:A-tunnel", "session A's tunnel stopped carrying bytes while other connections were held open", "parallel phase")
	}

	if err := cf.Write(cfg.Out); err != nil {
		return err
	}
	cfg.St["cases"] = len(cf.Cases)
	cfg.St["distinct_nontrivial"] = len(distinct)
	cfg.St["distribution"] = dist
	cfg.St["samples"] = samples
	cfg.St["impl_failures"] = implFail
	cfg.St["sequential"] = len(seq)
	cfg.St["parallel_long_window"] = len(par)
	return nil
}

// ---- read loop ----

var typeByteOf = func() map[reflect.Type]byte {
	m := map[reflect.Type]byte{}
	for _, p := range msgProtos {
		m[reflect.TypeOf(p)] = encodeMsg(p)[0]
	}
	return m
}()

type loopSpec struct {
	kind    string
	mode    int
	prefix  [][]byte // frames the loop must accept, in order
	replies []bool   // prefix[i] is answered (harness-side knowledge, used only to pace mode 1)
	tail    []byte   // the malformed frame and whatever follows it
	eof     bool
	bad     [][]byte
	nulls   [][]byte
}

func loopSpecs(g *gen, n int) []*loopSpec {
	var out []*loopSpec
	now := time.Now().Unix()
	goodKey := util.GetAuthKey(hx.DefaultToken, now)
	goodPing := func() []byte { return encodeMsg(&msg.Ping{PrivilegeKey: goodKey, Timestamp: now}) }
	for i := 0; i < n; i++ {
		sp := &loopSpec{mode: i % 2}
		k := g.intn(6)
		for j := 0; j < k; j++ {
			var f []byte
			rep := false
			switch g.intn(9) {
			case 0, 1, 2:
				f, rep = goodPing(), true
			case 3:
				f, rep = encodeMsg(&msg.Ping{PrivilegeKey: "bad", Timestamp: now}), true // answered by a Pong carrying an error
			case 4:
				f, rep = encodeMsg(&msg.NewProxy{ProxyName: fmt.Sprintf("c17-l%d-%d", i, j), ProxyType: "tcp", RemotePort: 0}), true
			case 5:
				f = encodeMsg(&msg.CloseProxy{ProxyName: "c17-none"})
			case 6:
				// message types without a handler on the server's control channel: read and ignored
				pv := reflect.New(reflect.TypeOf([]any{&msg.Login{}, &msg.Pong{}, &msg.StartWorkConn{}, &msg.ReqWorkConn{},
					&msg.UDPPacket{}, &msg.NewWorkConn{}, &msg.LoginResp{}, &msg.NatHoleSid{}}[g.intn(8)]).Elem())
				g.fill(pv.Elem(), true)
				f = encodeMsg(pv.Interface())
			case 7:
				// JSON null under a handled type: a nil message, no handler, the loop goes on
				body := []byte("null")
				f = frame('h', int64(len(body)), body)
				sp.nulls = append(sp.nulls, body)
			default:
				f, rep = encodeMsg(&msg.NewProxy{ProxyName: fmt.Sprintf("c17-l%d-%d", i, j), ProxyType: "no-such-type"}), true
			}
			if len(f)-9 > 10240 {
				f, rep = goodPing(), true
			}
			sp.prefix = append(sp.prefix, f)
			sp.replies = append(sp.replies, rep)
		}
		trailing := func() []byte {
			var b []byte
			for j := g.intn(4); j > 0; j-- {
				b = append(b, goodPing()...)
			}
			return b
		}
		switch g.intn(9) {
		case 0:
			t := byte(g.intn(256))
			for strings.IndexByte(regTypes, t) >= 0 {
				t = byte(g.intn(256))
			}
			sp.kind, sp.tail = "unknown-type", append([]byte{t}, trailing()...)
		case 1:
			sp.kind, sp.tail = "oversize", append(frame('h', []int64{10241, 65536, math.MaxInt64}[g.intn(3)], nil), trailing()...)
		case 2:
			sp.kind, sp.tail = "negative", append(frame('h', []int64{-1, math.MinInt64, -10240}[g.intn(3)], nil), trailing()...)
		case 3:
			body := g.bytes(1 + g.intn(30))
			body[0] = '#' // never valid JSON
			sp.kind, sp.tail, sp.bad = "garbage-json", append(frame("hpc"[g.intn(3)], int64(len(body)), body), trailing()...), [][]byte{body}
		case 4:
			body := []byte(`{"timestamp":"soon"}`)
			sp.kind, sp.tail, sp.bad = "wrong-typed-json", append(frame('h', int64(len(body)), body), trailing()...), [][]byte{body}
		case 5:
			f := goodPing()
			sp.kind, sp.tail, sp.eof = "truncated-eof", f[:1+g.intn(len(f)-1)], true
		case 6:
			sp.kind, sp.eof = "clean-eof", true
		case 7:
			f := goodPing()
			sp.kind, sp.tail = "truncated-hold", f[:1+g.intn(len(f)-1)]
			if i%4 != 3 { // few of these: each costs a window
				sp.eof, sp.kind = true, "truncated-eof"
			}
		default:
			body := []byte(`{"proxy_name":7}`)
			sp.kind, sp.tail, sp.bad = "wrong-typed-json", append(frame('p', int64(len(body)), body), trailing()...), [][]byte{body}
		}
		out = append(out, sp)
	}
	return out
}

func runReadLoop(cfg *runCfg) error {
	hx.Quiet()
	g := newGen(cfg.Seed)
	s, err := hx.StartServer("127.0.17.2", nil)
	if err != nil {
		return err
	}
	defer s.Close()
	a, err := startA(s, "c17-A", "c17-a-tcp")
	if err != nil {
		return err
	}
	defer a.p.Close()
	if !a.ping() || !a.tunnel(g) {
		return fmt.Errorf("session A does not work before the first case")
	}
	baseline := sessions(s.Svc)
	cf := &caseFile{
		Imports: "From FRP Require Import Corr.C17Sys.\n",
		Typ:     "sys_case",
		Tail: "Definition M := Eval vm_compute in mismatches check_sys cases.\nPrint M.\n" +
			"Definition NENDFRAME := Eval vm_compute in count_if is_end_frame cases.\nPrint NENDFRAME.\n" +
			"Definition NENDJSON := Eval vm_compute in count_if is_end_json cases.\nPrint NENDJSON.\n" +
			"Definition NENDSHORT := Eval vm_compute in count_if is_end_short cases.\nPrint NENDSHORT.\n" +
			"Definition NREAD := Eval vm_compute in sum_by loop_dispatched cases.\nPrint NREAD.\n",
	}
	dist := map[string]int{}
	distinct := map[string]bool{}
	var samples []any
	var implFail []any
	fail := func(key, what, c string) {
		implFail = append(implFail, map[string]any{"key": key, "what": what, "case": c})
	}
	win := shortWindow
	opens := 0
	for i, sp := range loopSpecs(g, cfg.N) {
		rid := fmt.Sprintf("c17-B%d", i)
		b, resp, err := s.Login(hx.LoginOpts{RunID: rid})
		if err != nil {
			return err
		}
		if b == nil {
			return fmt.Errorf("login of session B refused: %s", resp.Error)
		}
		before := sessions(s.Svc)
		var replies []string
		closed := 0
		// read replies until the connection ends or nothing arrives for the window
		readSome := func(want int, d time.Duration) {
			for got := 0; want < 0 || got < want; got++ {
				_ = b.Conn.SetReadDeadline(time.Now().Add(d))
				m, err := msg.ReadMsg(b.RW)
				if err != nil {
					if ne, ok := err.(net.Error); !(ok && ne.Timeout()) {
						closed = 1
					}
					return
				}
				if t, ok := typeByteOf[reflect.TypeOf(m)]; ok {
					replies = append(replies, coqZ(int64(t)))
				} else {
					replies = append(replies, coqZ(-1))
				}
			}
		}
		var stream []byte
		if sp.mode == 0 {
			for _, f := range sp.prefix {
				stream = append(stream, f...)
			}
			stream = append(stream, sp.tail...)
			if len(stream) > 0 {
				_, _ = b.RW.Write(stream)
			}
		} else {
			for j, f := range sp.prefix {
				stream = append(stream, f...)
				_, _ = b.RW.Write(f)
				if sp.replies[j] && closed == 0 {
					readSome(1, 3*time.Second)
				}
			}
			stream = append(stream, sp.tail...)
			if len(sp.tail) > 0 {
				_, _ = b.RW.Write(sp.tail)
			}
		}
		if sp.eof {
			_ = b.Conn.(*net.TCPConn).CloseWrite()
		}
		if closed == 0 {
			readSome(-1, win)
		}
		if closed == 0 {
			opens++
			if opens == 8 {
				win = 300 * time.Millisecond
			}
		} else {
			// the session is deleted by the worker goroutine once the connection is closed
			waitSessions(s.Svc, baseline, 3*time.Second)
		}
		after := sessions(s.Svc)
		b.Close()
		if !waitSessions(s.Svc, baseline, 5*time.Second) {
			fail("loop:session-stuck", "session B is still registered after its connection was closed", sp.kind)
		}
		ap, at := a.ping(), a.tunnel(g)
		var bad, nulls []string
		for _, x := range sp.bad {
			bad = append(bad, coqHx(x))
		}
		for _, x := range sp.nulls {
			nulls = append(nulls, coqHx(x))
		}
		c := fmt.Sprintf("CLoop %d %s %s %s %s %s %s %s %d %s %s %s", sp.mode, coqHx(stream), coqBool(sp.eof), coqList(bad), coqList(nulls),
			coqHxS(rid), before, coqList(replies), closed, after, coqBool(ap), coqBool(at))
		cf.Cases = append(cf.Cases, c)
		dist[fmt.Sprintf("%s mode=%d closed=%d", sp.kind, sp.mode, closed)]++
		distinct[fmt.Sprintf("%d %x %v", sp.mode, stream, sp.eof)] = true
		if !ap {
			fail("loop:A-heartbeat", "session A no longer answers Ping after a malformed frame on another session", c)
		}
		if !at {
			fail("loop:A-tunnel", "session A's tunnel no longer carries bytes after a malformed frame on another session", c)
		}
		if len(samples) < 4 && len(stream) < 120 {
			samples = append(samples, map[string]any{"kind": sp.kind, "mode": sp.mode, "stream_hex": fmt.Sprintf("%x", stream),
				"replies": replies, "closed": closed})
		}
	}
	if err := cf.Write(cfg.Out); err != nil {
		return err
	}
	keys := make([]string, 0, len(dist))
	for k := range dist {
		keys = append(keys, k)
	}
	sort.Strings(keys)
	cfg.St["cases"] = len(cf.Cases)
	cfg.St["distinct_nontrivial"] = len(distinct)
	cfg.St["distribution"] = dist
	cfg.St["samples"] = samples
	cfg.St["impl_failures"] = implFail
	return nil
}

// ---- probe: replay one first-bytes input by hand:  h_c17 probe -extra <hex>[,eof][,tls][,long] ----

func init() { drivers["probe"] = runProbe }

func runProbe(cfg *runCfg) error {
	hx.Quiet()
	s, err := hx.StartServer("127.0.17.3", nil)
	if err != nil {
		return err
	}
	defer s.Close()
	parts := strings.Split(cfg.Extra, ",")
	sp := &firstSpec{kind: "probe", window: 1}
	fmt.Sscanf(parts[0], "%x", &sp.input)
	win := shortWindow
	for _, p := range parts[1:] {
		switch p {
		case "eof":
			sp.eof = true
		case "tls":
			sp.tls = 1
		case "long":
			sp.window, win = 2, longWindow
		}
	}
	t0 := time.Now()
	o, err := observeFirst(s, sp, win)
	if err != nil {
		return err
	}
	fmt.Printf("input=%x eof=%v tls=%d closed=%d reply=%d after=%v json=%d sessions=%s\n", sp.input, sp.eof, sp.tls, o.closed, o.reply,
		time.Since(t0).Round(time.Millisecond), jsonClass(sp.input), sessions(s.Svc))
	return nil
}
