(* C08 proofs, second part: the stream behind the response frame, the single-leg xtcp tunnel, the loser of a
   registration race, sufficiency of key + allowed user *)
From FRP Require Import Model.Visitor Model.VisitorPath Proofs.VisitorProofs Proofs.FrameProofs.
From Coq Require Import Lia.
Open Scope Z_scope.

Section PathLaws.
  Variable enc_wr : bytes -> list bytes -> list bytes.
  Variable enc_rd : bytes -> bytes -> bytes.
  Variable comp_wr : list bytes -> list bytes.
  Variable comp_rd : bytes -> bytes.
  Hypothesis enc_law : forall k cs, enc_rd k (List.concat (enc_wr k cs)) = List.concat cs.
  Hypothesis comp_law : forall cs, comp_rd (List.concat (comp_wr cs)) = List.concat cs.

  (* whatever arrives together with the NewVisitorConnResp frame - a backend that speaks first, the cipher's IV -
     belongs to the stream: the visitor decodes exactly the frame and unwraps everything behind it *)
  Theorem response_then_stream reg t body st chunks :
    reg t = true -> blen body <= max_len ->
    visitor_after_resp enc_rd comp_rd reg st
      (encode_frame t body ++ List.concat (stack_wr enc_wr comp_wr st chunks)) = Some (body, List.concat chunks).
  Proof.
    intros Hr Hb. unfold visitor_after_resp. rewrite (frame_roundtrip reg t body _ Hr Hb). cbn [d_body d_rest].
    now rewrite (stack_law enc_wr enc_rd comp_wr comp_rd enc_law comp_law).
  Qed.

  (* xtcp: the two ends declare the same flags and hold the same key: transparent in both directions *)
  Theorem xtcp_transparent ue uc sk chunks :
    xtcp_deliver enc_wr enc_rd comp_wr comp_rd (vstack ue uc sk) (vstack ue uc sk) chunks = List.concat chunks.
  Proof. unfold xtcp_deliver. apply (stack_law enc_wr enc_rd comp_wr comp_rd enc_law comp_law). Qed.
End PathLaws.

(* ... and with different declarations at the two ends of the single xtcp leg it is not: a cipher that sends an
   initialisation vector first is lawful, and its vector reaches a receiver that does not decrypt *)
Theorem xtcp_mismatched_flags_refuted :
  exists (enc_wr : bytes -> list bytes -> list bytes) (enc_rd : bytes -> bytes -> bytes)
         (comp_wr : list bytes -> list bytes) (comp_rd : bytes -> bytes),
    (forall k cs, enc_rd k (List.concat (enc_wr k cs)) = List.concat cs) /\
    (forall cs, comp_rd (List.concat (comp_wr cs)) = List.concat cs) /\
    exists sk chunks,
      xtcp_deliver enc_wr enc_rd comp_wr comp_rd (vstack true false sk) (vstack false false sk) chunks <> List.concat chunks.
Proof.
  exists (fun _ cs => [x00] :: cs), (fun _ s => tl s), (fun cs => cs), (fun s => s).
  split; [reflexivity|]. split; [reflexivity|]. exists [], [[x01]]. cbn. discriminate.
Qed.

Section Race.
  Variable hash : bytes -> Z -> bytes.

  (* the loser of a registration race - its Exist check said "free", then somebody else registered the name -
     fails in Run ("repeated") or in Add ("in use"), and the incumbent's registration, listener and queue are
     exactly what they were *)
  Theorem race_loser_leaves_incumbent h rid k name sk allow r :
    sp_reg (spec_of h) name = Some r ->
    exists o, sys_step hash (sys_state hash h) (SRegisterLate rid k name sk allow) = (sys_state hash h, o) /\
              (o = ONoSession \/ o = OReg VLErrRepeated \/ o = ORegErrInUse) /\
              forall n, sp_reg (spec_of (h ++ [SRegisterLate rid k name sk allow])) n = sp_reg (spec_of h) n.
  Proof.
    intros Hr. destruct (state_refines_spec hash h) as [[Hnd Hok] [Hau Har]].
    assert (Hspec : forall n, sp_reg (spec_of (h ++ [SRegisterLate rid k name sk allow])) n = sp_reg (spec_of h) n).
    { intros n. unfold spec_of. rewrite fold_left_app. cbn [fold_left spec_step].
      fold (spec_of h). rewrite Hr. now destruct (sp_user (spec_of h) rid). }
    cbn [sys_step]. destruct (vget rid (s_users (sys_state hash h))) as [u|]; [|eauto 6].
    assert (Gp : vget name (s_pxys (sys_state hash h)) <> None).
    { intros G. apply (sys_reg_none_iff _ name Hok) in G. rewrite Har, Hr in G. discriminate. }
    destruct (run_add_cases (sys_state hash h) rid k name sk (vdefault_allow allow u) Hok) as [[G _]|[_ [E Ho]]]; [contradiction|].
    destruct (sys_run_add (sys_state hash h) rid k name sk (vdefault_allow allow u)) as [s1 o1]. cbn [fst snd] in *.
    subst s1. exists o1. split; [reflexivity|]. split; [tauto|exact Hspec].
  Qed.

  (* sufficiency at the listener: the right key and an allowed user are admitted (the queue being open and not full) *)
  Theorem key_and_user_admitted_stream t name b cid ts ue uc user :
    vget name t = Some b -> vallowed (vb_allow b) user = true -> vb_closed b = false ->
    (length (vb_queue b) < vq_cap)%nat ->
    exists t', vm_new_conn hash t name cid ts (hash (vb_sk b) ts) ue uc user true = (t', VOk).
  Proof.
    intros G Ha Hc Hq. unfold vm_new_conn. rewrite G, v_bytes_eqb_refl. cbn [negb].
    rewrite refusal_test, Ha. cbn [negb]. rewrite andb_false_r, Hc. apply Nat.ltb_lt in Hq. rewrite Hq. eauto.
  Qed.
End Race.
