package main

// Part (ii) of driver "visitors": the real nathole.Controller admission decision.

import (
	"fmt"
	"reflect"
	"strings"
	"time"

	"github.com/fatedier/frp/pkg/msg"
	"github.com/fatedier/frp/pkg/nathole"
	"github.com/fatedier/frp/pkg/transport"
	"verifharness/hx"
)

type nhOwner struct {
	name string
	ch   chan string
}

// tryRecvSid does one non-blocking receive over all owners' sid channels.
func tryRecvSid(owners []nhOwner) (int, string, bool) {
	cases := make([]reflect.SelectCase, 0, len(owners)+1)
	for _, o := range owners {
		cases = append(cases, reflect.SelectCase{Dir: reflect.SelectRecv, Chan: reflect.ValueOf(o.ch)})
	}
	cases = append(cases, reflect.SelectCase{Dir: reflect.SelectDefault})
	i, v, ok := reflect.Select(cases)
	if i == len(owners) || !ok {
		return -1, "", false
	}
	return i, v.String(), true
}

func nhCase(g *gen, dist map[string]int) (string, []map[string]string) {
	nathole.NatHoleTimeout = 0
	c, _ := nathole.NewController(time.Hour)
	var owners []nhOwner // every channel ever handed out (closed proxies included: they must stay silent)
	live := map[string]string{}
	allows := map[string][]string{}
	ht := newHTable()
	for _, s := range skPool {
		ht.addSk(s)
	}
	var ops, obs []string
	var fails []map[string]string
	n := 5 + g.Intn(14)
	for i := 0; i < n; i++ {
		r := g.Intn(100)
		if i < 2 {
			r = 0
		}
		switch {
		case r < 15:
			name, sk, allow := g.Pick(namePool), g.sk(), g.allow()
			ch, err := c.ListenClient(name, sk, allow)
			z := int64(0)
			if err != nil {
				z = 1
				if !strings.Contains(err.Error(), "repeated") {
					z = 99
				}
			} else {
				owners = append(owners, nhOwner{name, ch})
				live[name] = sk
				allows[name] = allow
			}
			ops = append(ops, fmt.Sprintf("NhListen %s %s %s", hx.HxS(name), hx.HxS(sk), coqStrs(allow)))
			obs = append(obs, obsZ(z))
			dist[fmt.Sprintf("nh-listen:%d", z)]++
		case r < 22:
			name := g.name()
			c.CloseClient(name)
			delete(live, name)
			ops = append(ops, fmt.Sprintf("NhClose %s", hx.HxS(name)))
			obs = append(obs, obsZ(0))
			dist["nh-close"]++
		default:
			name := g.liveName(live)
			ts := g.ts()
			ht.addTs(ts)
			realSk, isLive := live[name]
			if !isLive {
				realSk = g.sk()
			}
			sign, kind := g.sign(realSk, ts, 0.65)
			user := g.userFor(allows[name])
			pre := g.Chance(0.4)
			sendCh := make(chan msg.Message, 8)
			tr := transport.NewMessageTransporter(sendCh)
			m := &msg.NatHoleVisitor{TransactionID: "tx", ProxyName: name, PreCheck: pre, Protocol: "quic", SignKey: sign, Timestamp: ts}
			done := make(chan struct{})
			go func() { c.HandleVisitor(m, tr, user); close(done) }()
			// wait until HandleVisitor returned, or it is parked on the owner's channel with a session inserted
			mid := int64(0)
			notifiedIdx, sid, notified := -1, "", false
			others := int64(0)
			deadline := time.Now().Add(2 * time.Second)
		wait:
			for time.Now().Before(deadline) {
				select {
				case <-done:
					break wait
				case <-time.After(100 * time.Microsecond):
				}
				if cnt := c.VerifC08SessionCount(); cnt > 0 {
					if i, s, ok := tryRecvSid(owners); ok {
						mid = int64(cnt)
						notifiedIdx, sid, notified = i, s, true
						<-done
						break wait
					}
				}
			}
			// anything else delivered to any owner?
			for {
				i, s, ok := tryRecvSid(owners)
				if !ok {
					break
				}
				if !notified {
					notifiedIdx, sid, notified = i, s, true
				} else {
					others++
				}
			}
			fin := int64(c.VerifC08SessionCount())
			resp := int64(9)
			nresp := 0
		drain:
			for {
				select {
				case mm := <-sendCh:
					nresp++
					if r, ok := mm.(*msg.NatHoleResp); ok {
						resp = nhErrClass(r.Error)
						if r.Sid != "" || r.TransactionID != "tx" {
							resp = 98
						}
					} else {
						resp = 97
					}
				default:
					break drain
				}
			}
			if nresp > 1 {
				resp = 96
			}
			ownerName := ""
			if notified {
				ownerName = owners[notifiedIdx].name
				// the channel must be the one of the proxy currently registered under that name
				if _, isLive := live[ownerName]; !isLive {
					others++
				}
			}
			ops = append(ops, fmt.Sprintf("NhVisitor %s %s %s %s %s", hx.HxS(name), hx.Z(ts), hx.HxS(sign), hx.Bool(pre), hx.HxS(user)))
			obs = append(obs, obsNh(resp, notified, ownerName, sid, others, mid, fin))
			dist[fmt.Sprintf("nh-visitor:pre=%v:resp=%d:notified=%v", pre, resp, notified)]++
			dist["sign:"+kind]++
			if notified && isLive && !(contains(allows[name], user) || contains(allows[name], "*")) {
				fails = append(fails, map[string]string{"key": "nathole:owner-notified-for-user-outside-allowUsers",
					"what": "nathole.Controller.HandleVisitor opened a session and delivered a sid to the proxy owner for a correctly signed request of a user outside allowUsers",
					"case": fmt.Sprintf("%s allowUsers=%q", ops[len(ops)-1], allows[name])})
			}
			if fin != 0 || (!notified && mid != 0) {
				fails = append(fails, map[string]string{"key": "nathole:session-state-left-behind",
					"what": "a refused or pre-check NAT-hole request left a session in nathole.Controller.sessions",
					"case": ops[len(ops)-1]})
			}
			if notified && (pre || kind != "right") {
				fails = append(fails, map[string]string{"key": "nathole:owner-notified-without-key-or-in-precheck",
					"what": "nathole.Controller.HandleVisitor delivered a sid to the proxy owner for a pre-check or wrongly signed request",
					"case": ops[len(ops)-1]})
			}
		}
	}
	return fmt.Sprintf("CNh %s %s %s", ht.coq(), hx.List(ops), hx.List(obs)), fails
}
