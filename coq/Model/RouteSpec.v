(* C06 — the specification side: what "the most specific matching route" means, stated without
   reference to the mechanism of router.go (no maps, no sorting, no walk).  Model only: no proofs.

   A route set is a list of routes (order irrelevant).  A route matches a request (host, path, user)
   when its domain pattern matches the lower-cased host, its user restriction is the request's user
   or empty, and its location is a prefix of the path.  Specificity is the lexicographic order
     1. domain: the exact host, before wildcards "*.S" by decreasing length, before the catch-all "*";
     2. user:   restricted to the request's user before unrestricted;
     3. location: longer before shorter. *)
From FRP Require Export Model.Router.
Open Scope Z_scope.

(* s ends with t *)
Definition rs_is_suffix (t s : bytes) : bool := is_prefix (rev t) (rev s).

(* a wildcard pattern "*.S" needs at least two fixed labels (S contains a dot) and matches every
   host that ends with ".S" *)
Definition rs_wild_matches (pat host : bytes) : bool :=
  match pat with
  | star :: dotS =>
      Byte.eqb star "*"%byte &&
      match dotS with
      | d :: suf => Byte.eqb d rt_dot && rt_has rt_dot suf && rs_is_suffix dotS host
      | [] => false
      end
  | [] => false
  end.

Definition rs_dom_matches (pat host : bytes) : bool :=
  bytes_eqb pat host || bytes_eqb pat rt_star || rs_wild_matches pat host.

Definition rs_user_matches (ruser user : bytes) : bool :=
  bytes_eqb ruser user || bytes_eqb ruser [].

(* [host] is the request host as handed to getVhost; comparison ignores letter case *)
Definition rs_matches {P} (r : route P) (host path user : bytes) : bool :=
  rs_dom_matches (rt_dom r) (lower host) && rs_user_matches (rt_user r) user && is_prefix (rt_loc r) path.

(* specificity of a matching route, compared lexicographically; larger = more specific *)
Definition rs_dom_score (pat host : bytes) : Z :=
  if bytes_eqb pat host then blen host + 2 else blen pat.
Definition rs_user_score (ruser user : bytes) : Z := if bytes_eqb ruser user then 1 else 0.
Definition rs_score {P} (r : route P) (host path user : bytes) : Z * Z * Z :=
  (rs_dom_score (rt_dom r) (lower host), rs_user_score (rt_user r) user, blen (rt_loc r)).

Definition rs_lt3 (a b : Z * Z * Z) : bool :=
  match a, b with
  | (a1, a2, a3), (b1, b2, b3) =>
      (a1 <? b1) || ((a1 =? b1) && ((a2 <? b2) || ((a2 =? b2) && (a3 <? b3))))
  end.

(* the best matching route of a route set: a plain scan keeping the best so far *)
Definition rs_better {P} (host path user : bytes) (cur : option (route P)) (r : route P) : option (route P) :=
  if rs_matches r host path user then
    match cur with
    | None => Some r
    | Some c => if rs_lt3 (rs_score c host path user) (rs_score r host path user) then Some r else Some c
    end
  else cur.
Definition rs_best_match {P} (routes : list (route P)) (host path user : bytes) : option (route P) :=
  fold_left (rs_better host path user) routes None.

(* the (domain, location, user) triple of a route; triples are unique in a well-formed route set *)
Definition rs_same_triple {P} (a b : route P) : bool :=
  bytes_eqb (rt_dom a) (rt_dom b) && bytes_eqb (rt_loc a) (rt_loc b) && bytes_eqb (rt_user a) (rt_user b).

(* ---------- the specification as a state machine of its own: a plain set of routes ---------- *)
Definition rs_triple_is {P} (d l u : bytes) (r : route P) : bool :=
  bytes_eqb (rt_dom r) d && bytes_eqb (rt_loc r) l && bytes_eqb (rt_user r) u.

(* registering: refused iff the (lower-cased host, location, user) triple is taken *)
Definition rs_add {P} (routes : list (route P)) (d l u : bytes) (pay : P) : option (list (route P)) :=
  if existsb (rs_triple_is (lower d) l u) routes then None
  else Some (mkRoute (lower d) l u pay :: routes).

(* removing: exactly that triple disappears *)
Definition rs_del {P} (routes : list (route P)) (d l u : bytes) : list (route P) :=
  filter (fun r => negb (rs_triple_is (lower d) l u r)) routes.

Definition rs_step {P} (routes : list (route P)) (o : rt_op P) : list (route P) :=
  match o with
  | RAdd d l u p => match rs_add routes d l u p with Some r' => r' | None => routes end
  | RDel d l u => rs_del routes d l u
  end.
Definition rs_run {P} (hist : list (rt_op P)) : list (route P) := fold_left rs_step hist [].
