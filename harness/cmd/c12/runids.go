package main

// fresh_runid is a TEST, not a theorem: the model treats util.RandID as an oracle.  What is
// tested: every run id handed out to a login without run id is 16 lower-case hex characters and
// the ids are pairwise distinct over N logins (10^4 in the thorough tier), plus the same over
// direct calls of util.RandID.

import (
	"crypto/rand"
	"errors"
	"fmt"
	"os"
	"path/filepath"
	"regexp"

	"github.com/fatedier/frp/pkg/config"
	"github.com/fatedier/frp/pkg/util/util"
	"verifharness/hx"
)

type noEntropy struct{}

func (noEntropy) Read([]byte) (int, error) { return 0, errors.New("c12: no entropy") }

var hex16 = regexp.MustCompile(`^[0-9a-f]{16}$`)

func runRunIDs(cfg *hx.RunCfg) error {
	hx.Quiet()
	var fails []map[string]any
	seen := map[string]bool{}
	bad := func(key, what string) {
		fails = append(fails, map[string]any{"key": key, "what": what, "case": what})
	}
	for i := 0; i < 10000; i++ {
		id, err := util.RandID()
		if err != nil {
			bad("runid:randid-error", fmt.Sprintf("util.RandID failed: %v", err))
			break
		}
		if !hex16.MatchString(id) {
			bad("runid:not-16-hex", fmt.Sprintf("util.RandID returned %q", id))
			break
		}
		if seen[id] {
			bad("runid:duplicate", fmt.Sprintf("util.RandID returned %q twice within 10^4 calls", id))
			break
		}
		seen[id] = true
	}
	s, err := hx.StartServer("127.0.12.2", nil)
	if err != nil {
		return err
	}
	defer s.Close()
	// no entropy: util.RandID must FAIL (the model's oracle may refuse), and a fresh login must then be
	// refused rather than acknowledged with a guessable run id
	func() {
		old := rand.Reader
		rand.Reader = noEntropy{}
		defer func() { rand.Reader = old }()
		if id, err := util.RandID(); err == nil {
			bad("runid:no-entropy-still-an-id", fmt.Sprintf("util.RandID returned %q without error although crypto/rand failed", id))
		}
		p, resp, err := s.Login(hx.LoginOpts{})
		if p != nil {
			bad("runid:login-acknowledged-without-entropy", fmt.Sprintf("a fresh login was acknowledged with run id %q while crypto/rand failed", resp.RunID))
			p.Close()
		} else if err == nil && resp != nil && resp.Error == "" {
			bad("runid:login-acknowledged-without-entropy", "LoginResp without error while crypto/rand failed")
		}
	}()
	// legacy INI: the one configuration value the C12 model depends on (the per-client port quota) must arrive
	// unchanged through the legacy loader, as it does through TOML
	if cfg.Stats != "" {
		dir := filepath.Dir(cfg.Stats)
		ini := filepath.Join(dir, "c12_legacy_frps.ini")
		toml := filepath.Join(dir, "c12_frps.toml")
		_ = os.WriteFile(ini, []byte("[common]\nbind_port = 7000\nmax_ports_per_client = 3\n"), 0o644)
		_ = os.WriteFile(toml, []byte("bindPort = 7000\nmaxPortsPerClient = 3\n"), 0o644)
		ci, _, e1 := config.LoadServerConfig(ini, false)
		ct, _, e2 := config.LoadServerConfig(toml, false)
		if e1 != nil || e2 != nil || ci == nil || ct == nil {
			bad("legacy-ini:load-failed", fmt.Sprintf("loading the quota test configurations failed: %v %v", e1, e2))
		} else if ci.MaxPortsPerClient != 3 || ct.MaxPortsPerClient != 3 {
			bad("legacy-ini:max-ports-per-client", fmt.Sprintf("max_ports_per_client = 3 arrives as %d through the legacy ini loader and %d through toml", ci.MaxPortsPerClient, ct.MaxPortsPerClient))
		}
	}
	logins := 0
	seenL := map[string]bool{}
	for i := 0; i < cfg.N; i++ {
		p, resp, err := s.Login(hx.LoginOpts{})
		if err != nil || p == nil {
			bad("runid:login-failed", fmt.Sprintf("fresh login %d failed: %v %v", i, err, resp))
			break
		}
		logins++
		id := resp.RunID
		if !hex16.MatchString(id) {
			bad("runid:not-16-hex", fmt.Sprintf("LoginResp.RunID = %q", id))
		}
		if seenL[id] {
			bad("runid:duplicate", fmt.Sprintf("run id %q handed out twice within %d logins", id, i+1))
		}
		seenL[id] = true
		p.Close()
		if len(fails) > 0 {
			break
		}
	}
	cfg.St["cases"] = logins
	cfg.St["distinct_nontrivial"] = len(seenL)
	cfg.St["samples"] = []string{fmt.Sprintf("%d fresh logins, %d distinct 16-hex run ids; 10000 RandID calls, %d distinct", logins, len(seenL), len(seen))}
	cfg.St["distribution"] = map[string]int{"logins": logins, "distinct_runids": len(seenL), "randid_calls": len(seen)}
	cfg.St["impl_failures"] = fails
	return nil
}
