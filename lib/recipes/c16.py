import os
from vlib import Check, V

PID = "C16"

MANIFEST = dict(
    text="Partial by nature (crash-freedom of a whole Go process is not a theorem about a model of parts of it). Machine-checked "
         "(Coq 8.16.1) are the four mechanisms the property's anchors name: (1) the frame decoder is total, allocates <= 10240 bytes and "
         "never reads past its input on every byte string (C17's theorems over today's registry); (2) for EVERY Login.PoolCount and "
         "every server maximum (negative ones included) the channel capacity computed by NewControl is non-negative and the advance-request count is "
         "min(client, max) clamped at 0 - proved over Gallina code that translator unit T8a regenerates from server/control.go on every "
         "run; (3) channel discipline of teardown/hand-off is proved in the schedule models of C11/C12/C13 (their never-crash theorems); "
         "(4) every access site of every shared table (25 tables: sessions, proxies, routes, visitor listeners, NAT-hole clients and "
         "sessions, transporter registry, groups, ports, OIDC subject list, client managers) holds the owner's mutex - reflective "
         "theorem over the lock table that translator unit T4 regenerates from the Go sources on every run. The search for a concrete "
         "crashing input is a barrage against a real frps running in a child process (field-level mutation of all 18 message types, "
         "authenticated and unauthenticated, with concurrent registration/closure/group/visitor/NAT-hole traffic and a tunnel watchdog), a "
         "second barrage against a real frpc running in a child process (a scripted fake frps and fake STUN server send mutated answers on the "
         "control channel and on every work and visitor connection; watchdog: re-login, registration, bytes through the plain tcp proxy), and "
         "race-detector passes (frps: same-run-id re-login / registration overlaps; frpc: re-login while old handlers log, overlapping udp work "
         "connections, orderly shutdown) and an ssh-tunnel-gateway phase (anonymous ssh clients, adversarial exec payloads and forward requests) in both tiers.",
    note="Trusted: Coq kernel+VM; translator units T4 (syntactic, intra-procedural lock-state walk over go/ast with one level of "
         "callee-requires-lock) and T8a (straight-line integer code of NewControl, statement by statement into lets, any local names); harness transcription. Not modelled: goroutine "
         "scheduling of the whole process, third-party libraries (yamux, quic, kcp, net/http), memory exhaustion; of the client process "
         "(frpc) only its two manager tables are in the lock theorem, the rest of it is covered by the client barrage (search). A data race outside the listed tables, or a panic in code outside the four mechanisms, "
         "can only be found by the barrage (a search, not a proof).",
    technique="Coq proof over translator-regenerated code and lock table (reflection) + child-process barrage search",
    design="4/C16")


def q(tier, quick, thorough):
    return quick if tier == "quick" else thorough


DIRECTED = "stun-flood,listen-random-ports,sudp-close-under-traffic,sudp-close-under-traffic,many-proxies-drop,plugin-users,vnet-frames,health-stop,health-stop,health-stop,health-stop"


def race_build(wait=True, proc=None):
    """go build -race of the C16 harness binary -> work/h_c16_race (child processes of the race passes).
    Started in the background at the beginning of the recipe (the build cache makes it cheap after the first time)."""
    import subprocess
    from vlib import WORK, GOENV
    if proc is None:
        cmd = "cd %s/harness && go build -race -modfile=%s/harness.mod -tags verif -o %s/h_c16_race ./cmd/c16" % (V, WORK, WORK)
        return subprocess.Popen(cmd, shell=True, stdout=subprocess.PIPE, stderr=subprocess.STDOUT, env=dict(os.environ, **GOENV))
    out = proc.communicate(timeout=900)[0].decode("utf-8", "replace")
    return proc.returncode, out


def recipe(c: Check):
    from vlib import WORK
    c.build(["Properties/C16.vo", "Corr/C16.vo"], harness=["c16"], units=["t1", "t4", "t8a", "t11send"])
    c.obligations("C16")
    rb = race_build() if c.harness_ok else None
    locks = os.path.join(V, "coq/gen/GenLocks.v")
    race_child = os.path.join(WORK, "h_c16_race")
    c.run_driver("alloc", 0, shards=1, timeout=300)
    c.run_driver("barrage", q(c.tier, 350, 6000), shards=q(c.tier, 2, 8), timeout=q(c.tier, 300, 3000))
    # the client process: a real frpc in a child against a scripted fake frps (+ fake STUN server); two directed scenarios
    st = c.run_driver("clientbarrage", q(c.tier, 500, 6000), shards=q(c.tier, 2, 8), timeout=q(c.tier, 300, 3000),
                      extra="directed=%s;locks=%s" % (DIRECTED, locks))
    if st:
        c.cov["client_counts"] = st.get("counts")
        k = st.get("counts") or {}
        if k.get("watchdog_tunnels", 0) == 0 or k.get("work_conns", 0) == 0 or k.get("sessions", 0) < 2:
            c.broken.append(dict(kind="sanity", name="clientbarrage reached no watchdog tunnel / work connection / second session", detail=str(k)))
    if rb is not None:
        rc, out = race_build(proc=rb)
        if rc == 0:
            # race-detector pass (quick and thorough): the barrage weighted towards same-run-id re-logins overlapping registrations,
            # concurrent NewProxy/CloseProxy, groups, visitors and NAT-hole traffic, against a child built with -race
            st = c.run_driver("racebarrage", q(c.tier, 120, 1500), shards=q(c.tier, 1, 4), timeout=q(c.tier, 300, 3000),
                              env=dict(VERIF_C16_CHILD=race_child), extra=locks)
            if st:
                c.cov["race_reports"] = st.get("race_reports")
                c.cov["race_reports_frp_owned"] = st.get("race_reports_frp_owned")
                c.cov["race_reports_chan_close_vs_send"] = st.get("race_reports_chan_close_vs_send")
                c.cov["race_reports_outside_listed_tables"] = st.get("race_reports_outside_listed_tables")
            # frpc under the race detector (quick and thorough): short epochs weighted towards re-logins with work-connection handlers
            # still busy, overlapping udp work connections, orderly shutdown of the child; same rule as for frps, except the one
            # documented Wrapper.Phase pair
            st = c.run_driver("clientrace", q(c.tier, 280, 1500), shards=q(c.tier, 1, 4), timeout=q(c.tier, 300, 3000),
                              env=dict(VERIF_C16_CHILD=race_child), extra="locks=%s" % locks)
            if st:
                c.cov["client_race_reports"] = st.get("race_reports")
                c.cov["client_race_reports_frp_owned"] = st.get("race_reports_frp_owned")
                c.cov["client_race_reports_allowed_wrapper_phase"] = st.get("race_reports_allowed_wrapper_phase")
                c.cov["client_race_reports_chan_close_vs_send"] = st.get("race_reports_chan_close_vs_send")
            if c.tier == "thorough":
                # the unweighted client barrage against the race child as well
                st = c.run_driver("clientbarrage", 1500, shards=4, timeout=3000, env=dict(VERIF_C16_CHILD=race_child), extra="locks=%s" % locks)
                if st:
                    c.cov["client_race_reports_plain_barrage"] = st.get("race_reports")
                    c.cov["client_race_reports_plain_barrage_frp_owned"] = st.get("race_reports_frp_owned")
                # the unweighted barrage against the race child (as before); runs last: it re-uses the case file names of the first barrage
                st = c.run_driver("barrage", 1500, shards=4, timeout=3000, env=dict(VERIF_C16_CHILD=race_child), extra=locks)
                if st:
                    c.cov["race_reports_plain_barrage"] = st.get("race_reports")
        else:
            c.broken.append(dict(kind="harness-build", name="race-detector build of the C16 harness (go build -race)", detail=out[-1200:]))
    k = c.cov.get("coq_counters", {}).get("clientbarrage", {})
    if c.harness_ok and (k.get("NCLIENT", 0) == 0 or k.get("NCLIENTLOGIN", 0) < 2):
        c.broken.append(dict(kind="sanity", name="clientbarrage produced no client observations / fewer than two answered logins", detail=str(k)))
    k = c.cov.get("coq_counters", {}).get("alloc", {})
    if c.harness_ok and (k.get("NCLAMPLOW", 0) == 0 or k.get("NCLAMPHIGH", 0) == 0):
        c.broken.append(dict(kind="sanity", name="alloc driver reached no negative / no above-maximum PoolCount case", detail=str(k)))
    return c.finish(
        rule="alloc: grid of 19 Login.PoolCount values (0..MaxInt64, -1..MinInt64, around -10) x 4 server maxima against a real frps in a "
             "child process; observed number of ReqWorkConn vs Model/Alloc.v. barrage: PRNG-driven field-level mutation (adversarial ints, "
             "empty/9000-byte/non-UTF-8 strings, maps, slices) of all 18 message types sent as first message, as Login with a valid key, and "
             "on authenticated sessions, interleaved with 4 background goroutines doing concurrent xtcp/stcp/grouped tcp/grouped http "
             "registration+closure and NAT-hole pre-checks; every 25 messages a watchdog (fresh login, tcp proxy, user connection bridged to a "
             "work connection, bytes pass). clientbarrage: a real frpc (16 proxies: proxy protocol v1/v2, encryption+compression, bandwidth "
             "limit, udp, 5 plugins, stcp/sudp/xtcp, 4 visitors) in a child process against a scripted fake frps and fake STUN server: mutated "
             "LoginResp, all 18 message types field-mutated on the control channel, ReqWorkConn bursts, unsolicited NewProxyResp/NatHoleResp, odd "
             "JSON frames, garbage, dropped control connections; every work / visitor connection the child opens gets a mutated StartWorkConn / "
             "NewVisitorConnResp and payload for its handler; every 12 messages a watchdog (child alive; the standing session, else a re-login "
             "within 12 s, bridges bytes through the plain tcp proxy to the local echo and back); directed scenarios (STUN answers x120, "
             "ListenRandomPorts = MaxInt32, session end while datagrams pour into the sudp visitor); 136 proxies and a lost control connection, an enumeration of user requests to every plugin proxy incl. every authorization header "
             "variant); junk datagrams of every length 0..64 hit the sockets the child announces during hole punching; the frps barrage ends with "
             "directed phases: raw user requests on the tcpmux / vhost http / vhost https ports (missing and adversarial Host, absolute-form targets, "
             "huge headers, ClientHello variants), 14 complete NAT-hole exchanges (scripted owner + visitor) with adversarial address lists, 2 "
             "sessions whose peer writes without reading until the server's send queue is full and then resets (a login with the same run id "
             "must be answered), 40 rounds of "
             "udp proxies closed under datagram traffic and 40 anonymous ssh connections to the ssh tunnel gateway (exec payloads with free "
             "length fields, mutated frp command lines, tcpip-forward requests, unknown channel types, early ends; ssh watchdog: a well-formed "
             "tunnel carries a user connection). racebarrage: 120 barrage cases weighted towards same-run-id re-logins overlapping registrations "
             "against a frps child built with -race; a report on a listed shared table, or any report with an access made by frp code other than "
             "close-of-channel against send-on-channel, is a violation. clientrace: 280 client barrage steps in short epochs (re-logins while work "
             "connection handlers are busy, overlapping udp work connections, orderly shutdown) against an frpc child built with -race, same rule "
             "(one documented pair, Wrapper.Phase, is recorded only). distinct = distinct (kind, type, field values); non-trivial = every case",
        assumptions=["goroutine interleavings of the real process are sampled by the barrage, not enumerated",
                     "translator T4's lock-state analysis is syntactic; cross-checked in both tiers by the race detector where available",
                     "frpc's reconnect back-off (client/service.go) bounds the number of lost sessions per child to 8; every epoch uses a fresh child"])
