(* C02 — proofs about Model/HttpRewrite.v *)
From Coq Require Import Lia Permutation.
From FRP Require Import Model.HttpRewrite.
Open Scope Z_scope.

(* ---------------------------------------------------------------------------------------- *)
(* byte strings: decidable equality *)
Lemma hr_bytes_eqb_eq : forall a b, bytes_eqb a b = true <-> a = b.
Proof.
  induction a as [|x a IH]; destruct b as [|y b]; simpl; split; intro H; try reflexivity; try discriminate.
  - apply andb_true_iff in H. destruct H as [H1 H2]. apply Byte.byte_dec_bl in H1. apply IH in H2. congruence.
  - inversion H; subst. apply andb_true_iff. split. apply Byte.byte_dec_lb; reflexivity. apply IH; reflexivity.
Qed.

Lemma hr_bytes_eqb_refl : forall a, bytes_eqb a a = true.
Proof. intro a. apply hr_bytes_eqb_eq. reflexivity. Qed.

Lemma hr_bytes_eqb_neq : forall a b, a <> b -> bytes_eqb a b = false.
Proof.
  intros a b H. destruct (bytes_eqb a b) eqn:E; [|reflexivity].
  apply hr_bytes_eqb_eq in E. contradiction.
Qed.

Lemma hr_bytes_eqb_false : forall a b, bytes_eqb a b = false -> a <> b.
Proof. intros a b H E. subst. rewrite hr_bytes_eqb_refl in H. discriminate. Qed.

(* ---------------------------------------------------------------------------------------- *)
(* multimap laws *)
Lemma hr_get_app : forall k h1 h2, hr_get k (h1 ++ h2) = hr_get k h1 ++ hr_get k h2.
Proof.
  induction h1 as [|[k' v] h1 IH]; intros h2; simpl; [reflexivity|].
  destruct (bytes_eqb k' k); simpl; rewrite IH; reflexivity.
Qed.

Lemma hr_get_del_same : forall k h, hr_get k (hr_del k h) = [].
Proof.
  induction h as [|[k' v] h IH]; simpl; [reflexivity|].
  destruct (bytes_eqb k' k) eqn:E; [exact IH|]. simpl. rewrite E. exact IH.
Qed.

Lemma hr_get_del_other : forall k k' h, k' <> k -> hr_get k' (hr_del k h) = hr_get k' h.
Proof.
  intros k k' h Hn. induction h as [|[k0 v] h IH]; simpl; [reflexivity|].
  destruct (bytes_eqb k0 k) eqn:E.
  - apply hr_bytes_eqb_eq in E. subst k0. rewrite (hr_bytes_eqb_neq k k'); [exact IH|congruence].
  - simpl. destruct (bytes_eqb k0 k'); rewrite IH; reflexivity.
Qed.

Lemma hr_get_pairs_same : forall k vs, hr_get k (map (fun v => (k, v)) vs) = vs.
Proof. induction vs as [|v vs IH]; simpl; [reflexivity|]. rewrite hr_bytes_eqb_refl, IH. reflexivity. Qed.

Lemma hr_get_pairs_other : forall k k' vs, k' <> k -> hr_get k' (map (fun v => (k, v)) vs) = [].
Proof.
  intros k k' vs Hn. induction vs as [|v vs IH]; simpl; [reflexivity|].
  rewrite (hr_bytes_eqb_neq k k'); [exact IH|congruence].
Qed.

Lemma hr_get_assign_same : forall k vs h, hr_get k (hr_assign k vs h) = vs.
Proof. intros. unfold hr_assign. rewrite hr_get_app, hr_get_del_same, hr_get_pairs_same. reflexivity. Qed.

Lemma hr_get_assign_other : forall k k' vs h, k' <> k -> hr_get k' (hr_assign k vs h) = hr_get k' h.
Proof.
  intros. unfold hr_assign. rewrite hr_get_app, hr_get_del_other, hr_get_pairs_other by assumption.
  apply app_nil_r.
Qed.

Lemma hr_get_set_same : forall k v h, hr_get (hr_canon k) (hr_set k v h) = [v].
Proof. intros. unfold hr_set. apply hr_get_assign_same. Qed.

Lemma hr_get_set_other : forall k k' v h, k' <> hr_canon k -> hr_get k' (hr_set k v h) = hr_get k' h.
Proof. intros. unfold hr_set. apply hr_get_assign_other. assumption. Qed.

Lemma hr_get_set : forall k k' v h,
  hr_get k' (hr_set k v h) = if bytes_eqb (hr_canon k) k' then [v] else hr_get k' h.
Proof.
  intros. destruct (bytes_eqb (hr_canon k) k') eqn:E.
  - apply hr_bytes_eqb_eq in E. subst k'. apply hr_get_set_same.
  - apply hr_get_set_other. apply hr_bytes_eqb_false in E. congruence.
Qed.

(* the range loop: the last visited entry of a canonical key wins, the other keys are untouched *)
Lemma hr_get_set_all : forall cfg k h,
  hr_get k (hr_set_all cfg h) =
  match hr_last_for k cfg with Some v => [v] | None => hr_get k h end.
Proof.
  induction cfg as [|[k0 v0] cfg IH]; intros k h; simpl; [reflexivity|].
  unfold hr_set_all in *. simpl. rewrite IH.
  destruct (hr_last_for k cfg); [reflexivity|].
  rewrite hr_get_set. destruct (bytes_eqb (hr_canon k0) k); reflexivity.
Qed.

Lemma hr_get_del_all : forall ks k h,
  hr_get k (hr_del_all ks h) = if hr_mem k ks then [] else hr_get k h.
Proof.
  induction ks as [|k0 ks IH]; intros k h; simpl; [reflexivity|].
  unfold hr_del_all in *. simpl. rewrite IH.
  destruct (bytes_eqb k0 k) eqn:E; simpl.
  - apply hr_bytes_eqb_eq in E. subst k0. rewrite hr_get_del_same. destruct (hr_mem k ks); reflexivity.
  - rewrite hr_get_del_other; [reflexivity|]. apply hr_bytes_eqb_false in E. congruence.
Qed.

Lemma hr_mem_app : forall k a b, hr_mem k (a ++ b) = hr_mem k a || hr_mem k b.
Proof.
  induction a as [|x a IH]; intros b; simpl; [reflexivity|]. rewrite IH. apply orb_assoc.
Qed.

Lemma hr_mem_false_neq : forall k ks k', hr_mem k ks = false -> In k' ks -> k <> k'.
Proof.
  induction ks as [|x ks IH]; intros k' Hm Hin; simpl in *; [contradiction|].
  apply orb_false_iff in Hm. destruct Hm as [H1 H2]. destruct Hin as [->|Hin].
  - apply hr_bytes_eqb_false in H1. congruence.
  - apply IH; assumption.
Qed.

(* idempotence of the loop, key by key *)
Lemma hr_set_all_idempotent : forall cfg h k,
  hr_get k (hr_set_all cfg (hr_set_all cfg h)) = hr_get k (hr_set_all cfg h).
Proof.
  intros. rewrite (hr_get_set_all cfg k (hr_set_all cfg h)), (hr_get_set_all cfg k h).
  destruct (hr_last_for k cfg); reflexivity.
Qed.

(* when no two keys of the map share a canonical form, the visiting order is irrelevant *)

Lemma hr_last_for_in : forall k cfg v, hr_last_for k cfg = Some v ->
  exists k0, In (k0, v) cfg /\ hr_canon k0 = k.
Proof.
  induction cfg as [|[k0 v0] cfg IH]; intros v H; simpl in H; [discriminate|].
  destruct (hr_last_for k cfg) eqn:E.
  - inversion H; subst. destruct (IH v eq_refl) as [k1 [Hin Hc]]. exists k1. split; [right; exact Hin|exact Hc].
  - destruct (bytes_eqb (hr_canon k0) k) eqn:E2; [|discriminate].
    inversion H; subst. apply hr_bytes_eqb_eq in E2. exists k0. split; [left; reflexivity|exact E2].
Qed.

Lemma hr_last_for_none_notin : forall k cfg, hr_last_for k cfg = None -> ~ In k (hr_ckeys cfg).
Proof.
  induction cfg as [|[k0 v0] cfg IH]; intros H; simpl in *; [tauto|].
  destruct (hr_last_for k cfg) eqn:E; [discriminate|].
  destruct (bytes_eqb (hr_canon k0) k) eqn:E2; [discriminate|].
  apply hr_bytes_eqb_false in E2. intros [Hx|Hx]; [contradiction|]. exact (IH eq_refl Hx).
Qed.

Lemma hr_last_for_nodup : forall k cfg k0 v,
  NoDup (hr_ckeys cfg) -> In (k0, v) cfg -> hr_canon k0 = k -> hr_last_for k cfg = Some v.
Proof.
  induction cfg as [|[k1 v1] cfg IH]; intros k0 v Hnd Hin Hc; simpl in *; [contradiction|].
  inversion Hnd as [|x l Hnotin Hnd']; subst x l.
  destruct Hin as [Heq|Hin].
  - inversion Heq; subst k1 v1.
    destruct (hr_last_for k cfg) eqn:E.
    + exfalso. destruct (hr_last_for_in _ _ _ E) as [k2 [Hin2 Hc2]].
      apply Hnotin. unfold hr_ckeys. apply in_map_iff. exists (k2, b). simpl. split; [congruence|exact Hin2].
    + rewrite Hc, hr_bytes_eqb_refl. reflexivity.
  - rewrite (IH k0 v Hnd' Hin Hc). reflexivity.
Qed.

Lemma hr_set_all_order_irrelevant : forall cfg cfg' h k,
  NoDup (hr_ckeys cfg) -> Permutation cfg cfg' ->
  hr_get k (hr_set_all cfg h) = hr_get k (hr_set_all cfg' h).
Proof.
  intros cfg cfg' h k Hnd Hp. rewrite !hr_get_set_all.
  assert (Hnd' : NoDup (hr_ckeys cfg')).
  { unfold hr_ckeys. eapply Permutation_NoDup; [apply Permutation_map; exact Hp|exact Hnd]. }
  destruct (hr_last_for k cfg) eqn:E.
  - destruct (hr_last_for_in _ _ _ E) as [k0 [Hin Hc]].
    rewrite (hr_last_for_nodup k cfg' k0 b Hnd' (Permutation_in _ Hp Hin) Hc). reflexivity.
  - destruct (hr_last_for k cfg') eqn:E'; [|reflexivity].
    destruct (hr_last_for_in _ _ _ E') as [k0 [Hin Hc]].
    rewrite (hr_last_for_nodup k cfg k0 b Hnd (Permutation_in _ (Permutation_sym Hp) Hin) Hc) in E. discriminate.
Qed.

(* ---------------------------------------------------------------------------------------- *)
(* SetXForwarded *)
Lemma hr_canon_XFF : hr_canon hr_XFF = hr_XFF. Proof. vm_compute. reflexivity. Qed.
Lemma hr_canon_XFH : hr_canon hr_XFH = hr_XFH. Proof. vm_compute. reflexivity. Qed.
Lemma hr_canon_XFP : hr_canon hr_XFP = hr_XFP. Proof. vm_compute. reflexivity. Qed.
Lemma hr_XFF_XFH : hr_XFF <> hr_XFH. Proof. vm_compute. discriminate. Qed.
Lemma hr_XFF_XFP : hr_XFF <> hr_XFP. Proof. vm_compute. discriminate. Qed.
Lemma hr_XFH_XFP : hr_XFH <> hr_XFP. Proof. vm_compute. discriminate. Qed.


Lemma hr_xfwd_XFF : forall inr h,
  hr_get hr_XFF (hr_set_xforwarded inr h) =
  match hq_client_ip inr with Some ip => [hr_xff_value (hr_get hr_XFF h) ip] | None => [] end.
Proof.
  intros. unfold hr_set_xforwarded.
  rewrite hr_get_set_other by (rewrite hr_canon_XFP; exact hr_XFF_XFP).
  rewrite hr_get_set_other by (rewrite hr_canon_XFH; exact hr_XFF_XFH).
  destruct (hq_client_ip inr).
  - rewrite <- hr_canon_XFF at 1. apply hr_get_set_same.
  - unfold hr_hdel. rewrite hr_canon_XFF. apply hr_get_del_same.
Qed.

Lemma hr_xfwd_XFH : forall inr h, hr_get hr_XFH (hr_set_xforwarded inr h) = [hq_host inr].
Proof.
  intros. unfold hr_set_xforwarded.
  rewrite hr_get_set_other by (rewrite hr_canon_XFP; exact hr_XFH_XFP).
  rewrite <- hr_canon_XFH at 1. apply hr_get_set_same.
Qed.

Lemma hr_xfwd_XFP : forall inr h, hr_get hr_XFP (hr_set_xforwarded inr h) = [hr_proto inr].
Proof. intros. unfold hr_set_xforwarded. rewrite <- hr_canon_XFP at 1. apply hr_get_set_same. Qed.


Lemma hr_xfwd_other : forall inr h k, hr_mem k hr_xf3 = false ->
  hr_get k (hr_set_xforwarded inr h) = hr_get k h.
Proof.
  intros inr h k Hm.
  assert (k <> hr_XFF) by (apply (hr_mem_false_neq k hr_xf3); [exact Hm|simpl; tauto]).
  assert (k <> hr_XFH) by (apply (hr_mem_false_neq k hr_xf3); [exact Hm|simpl; tauto]).
  assert (k <> hr_XFP) by (apply (hr_mem_false_neq k hr_xf3); [exact Hm|simpl; tauto]).
  unfold hr_set_xforwarded.
  rewrite hr_get_set_other by (rewrite hr_canon_XFP; assumption).
  rewrite hr_get_set_other by (rewrite hr_canon_XFH; assumption).
  destruct (hq_client_ip inr).
  - apply hr_get_set_other. rewrite hr_canon_XFF. assumption.
  - unfold hr_hdel. rewrite hr_canon_XFF. apply hr_get_del_other. assumption.
Qed.

(* ---------------------------------------------------------------------------------------- *)
(* the Rewrite closure *)

Theorem hr_request_preserved : forall rc inr out,
  let r := hr_rewrite (Some rc) inr out in
  (* untouched parts *)
  hq_method r = hq_method out /\ hq_path r = hq_path out /\ hq_hasq r = hq_hasq out /\
  hq_query r = hq_query out /\ hq_body r = hq_body out /\
  (* headers outside the declared set and the X-Forwarded family *)
  (forall k, hr_mem k hr_xf3 = false -> hr_last_for k (hc_headers rc) = None ->
             hr_get k (hq_hdrs r) = hr_get k (hq_hdrs out)) /\
  (* declared headers: exactly the configured value *)
  (forall k v, hr_last_for k (hc_headers rc) = Some v -> hr_get k (hq_hdrs r) = [v]) /\
  (* Host rewritten iff configured *)
  hq_host r = hr_host_rule (hc_rewrite_host rc) (hq_host out) /\
  (* forwarding metadata *)
  (hr_last_for hr_XFF (hc_headers rc) = None ->
     hr_get hr_XFF (hq_hdrs r) =
     match hq_client_ip inr with
     | Some ip => [hr_xff_value (hr_get hr_XFF (hq_hdrs inr)) ip]
     | None => []
     end) /\
  (hr_last_for hr_XFH (hc_headers rc) = None -> hr_get hr_XFH (hq_hdrs r) = [hq_host inr]) /\
  (hr_last_for hr_XFP (hc_headers rc) = None -> hr_get hr_XFP (hq_hdrs r) = [hr_proto inr]) /\
  (* transport addressing *)
  hq_scheme r = hr_b "http" /\ hq_urlhost r = hr_pool_key rc.
Proof.
  intros rc inr out. cbn [hr_rewrite hr_with hq_method hq_path hq_hasq hq_query hq_body hq_hdrs hq_host hq_scheme hq_urlhost].
  repeat split.
  - intros k Hm Hl. rewrite hr_get_set_all, Hl. rewrite hr_xfwd_other by exact Hm.
    apply hr_get_assign_other. apply (hr_mem_false_neq k hr_xf3); [exact Hm|simpl; tauto].
  - intros k v Hl. rewrite hr_get_set_all, Hl. reflexivity.
  - intros Hl. rewrite hr_get_set_all, Hl, hr_xfwd_XFF, hr_get_assign_same. reflexivity.
  - intros Hl. rewrite hr_get_set_all, Hl. apply hr_xfwd_XFH.
  - intros Hl. rewrite hr_get_set_all, Hl. apply hr_xfwd_XFP.
Qed.

(* without a route (the request will end in the not-found page) nothing is declared *)
Theorem hr_request_no_route : forall inr out,
  let r := hr_rewrite None inr out in
  hq_method r = hq_method out /\ hq_path r = hq_path out /\ hq_query r = hq_query out /\
  hq_body r = hq_body out /\ hq_host r = hq_host out /\ hq_urlhost r = hq_host out /\
  (forall k, hr_mem k hr_xf3 = false -> hr_get k (hq_hdrs r) = hr_get k (hq_hdrs out)).
Proof.
  intros inr out. cbn [hr_rewrite hr_with hq_method hq_path hq_query hq_body hq_hdrs hq_host hq_urlhost].
  repeat split. intros k Hm. rewrite hr_xfwd_other by exact Hm.
  apply hr_get_assign_other. apply (hr_mem_false_neq k hr_xf3); [exact Hm|simpl; tauto].
Qed.

(* ---------------------------------------------------------------------------------------- *)
(* with the library's preprocessing in front: from the user's request to the backend's *)
Lemma hr_forwarding_family_xf3 : forall k, hr_mem k hr_forwarding_family = false -> hr_mem k hr_xf3 = false.
Proof.
  intros k H. unfold hr_forwarding_family in H. simpl in H. simpl.
  apply orb_false_iff in H. destruct H as [_ H]. exact H.
Qed.

Lemma hr_std_pre_hdrs : forall reenc inr k,
  hr_mem k (hr_hop_keys (hq_hdrs inr)) = false -> hr_mem k hr_forwarding_family = false ->
  hr_get k (hq_hdrs (hr_std_pre reenc inr)) = hr_get k (hq_hdrs inr).
Proof.
  intros reenc inr k Hhop Hfw. unfold hr_std_pre. cbn [hq_hdrs].
  rewrite hr_get_del_all, Hfw.
  assert (Hh : hr_mem k hr_hop_headers = false).
  { unfold hr_hop_keys in Hhop. rewrite hr_mem_app in Hhop. apply orb_false_iff in Hhop. tauto. }
  assert (Hte : k <> hr_canon (hr_b "Te")) by (apply (hr_mem_false_neq k hr_hop_headers); [exact Hh|vm_compute; tauto]).
  assert (Hup : k <> hr_canon (hr_b "Upgrade")) by (apply (hr_mem_false_neq k hr_hop_headers); [exact Hh|vm_compute; tauto]).
  assert (Hco : k <> hr_canon (hr_b "Connection")) by (apply (hr_mem_false_neq k hr_hop_headers); [exact Hh|vm_compute; tauto]).
  assert (Hbase : hr_get k (hr_remove_hop (hq_hdrs inr)) = hr_get k (hq_hdrs inr)).
  { unfold hr_remove_hop. rewrite hr_get_del_all, Hhop. reflexivity. }
  destruct (hr_is_empty (hr_upgrade_type (hq_hdrs inr)));
    destruct (hr_values_contain_token (hr_get (hr_b "Te") (hq_hdrs inr)) (hr_b "trailers"));
    repeat (rewrite hr_get_set_other by assumption); exact Hbase.
Qed.

Theorem hr_backend_view_preserved : forall rc reenc inr,
  let r := hr_backend_view (Some rc) reenc inr in
  hq_method r = hq_method inr /\ hq_path r = hq_path inr /\ hq_body r = hq_body inr /\
  (hr_query_clean (hq_query inr) = true -> hq_query r = hq_query inr /\ hq_hasq r = hq_hasq inr) /\
  (hr_query_clean (hq_query inr) = false -> hq_query r = reenc) /\
  (forall k, hr_mem k (hr_hop_keys (hq_hdrs inr)) = false -> hr_mem k hr_forwarding_family = false ->
             hr_last_for k (hc_headers rc) = None ->
             hr_get k (hq_hdrs r) = hr_get k (hq_hdrs inr)) /\
  (forall k v, hr_last_for k (hc_headers rc) = Some v -> hr_get k (hq_hdrs r) = [v]) /\
  hq_host r = hr_host_rule (hc_rewrite_host rc) (hq_host inr) /\
  (hr_last_for hr_XFF (hc_headers rc) = None ->
     hr_get hr_XFF (hq_hdrs r) =
     match hq_client_ip inr with
     | Some ip => [hr_xff_value (hr_get hr_XFF (hq_hdrs inr)) ip]
     | None => []
     end).
Proof.
  intros rc reenc inr. unfold hr_backend_view.
  destruct (hr_request_preserved rc inr (hr_std_pre reenc inr))
    as (Hm & Hp & Hq1 & Hq2 & Hb & Hother & Hdecl & Hhost & Hxff & _).
  cbv zeta in *.
  repeat split.
  - rewrite Hq2. unfold hr_std_pre. cbn [hq_query]. rewrite H. reflexivity.
  - rewrite Hq1. unfold hr_std_pre. cbn [hq_hasq]. rewrite H. reflexivity.
  - intro H. rewrite Hq2. unfold hr_std_pre. cbn [hq_query]. rewrite H. reflexivity.
  - intros k Hhop Hfw Hl. rewrite (Hother k (hr_forwarding_family_xf3 k Hfw) Hl).
    apply hr_std_pre_hdrs; assumption.
  - exact Hdecl.
  - exact Hxff.
Qed.

(* ---------------------------------------------------------------------------------------- *)
(* responses *)
Theorem hr_response_preserved : forall rc resp,
  let r := hr_std_resp (Some rc) resp in
  hs_status r = hs_status resp /\ hs_body r = hs_body resp /\
  (forall k, hr_mem k (hr_hop_keys (hs_hdrs resp)) = false -> hr_last_for k (hc_resp_headers rc) = None ->
             hr_get k (hs_hdrs r) = hr_get k (hs_hdrs resp)) /\
  (forall k v, hr_last_for k (hc_resp_headers rc) = Some v -> hr_get k (hs_hdrs r) = [v]).
Proof.
  intros rc resp. cbn [hr_std_resp hr_modify_response hs_status hs_body hs_hdrs]. repeat split.
  - intros k Hhop Hl. rewrite hr_get_set_all, Hl. unfold hr_remove_hop. rewrite hr_get_del_all, Hhop. reflexivity.
  - intros k v Hl. rewrite hr_get_set_all, Hl. reflexivity.
Qed.

(* the closure itself never touches the request, and only sets the configured keys *)
Theorem hr_modify_response_spec : forall rc resp k,
  hs_status (hr_modify_response rc resp) = hs_status resp /\
  hs_body (hr_modify_response rc resp) = hs_body resp /\
  hr_get k (hs_hdrs (hr_modify_response rc resp)) =
  match rc with
  | Some c => match hr_last_for k (hc_resp_headers c) with Some v => [v] | None => hr_get k (hs_hdrs resp) end
  | None => hr_get k (hs_hdrs resp)
  end.
Proof.
  intros [rc|] resp k; cbn [hr_modify_response hs_status hs_body hs_hdrs]; repeat split.
  apply hr_get_set_all.
Qed.

(* ---------------------------------------------------------------------------------------- *)
(* error mapping *)
Theorem hr_error_mapping_total : forall page e,
  hr_error_map page e = (504, []) \/ hr_error_map page e = (404, page).
Proof. intros page []; simpl; tauto. Qed.

Theorem hr_error_504_iff_timeout : forall page e,
  fst (hr_error_map page e) = 504 <-> e = HrErrNetTimeout.
Proof. intros page []; simpl; split; intro H; try discriminate; try reflexivity. Qed.

Theorem hr_serve_answers : forall page rc rt,
  (exists r, rt = HrRtResp r /\ hr_serve page rc rt = HrForwarded (hr_std_resp rc r) /\
             hs_status (hr_std_resp rc r) = hs_status r /\ hs_body (hr_std_resp rc r) = hs_body r) \/
  (exists e, rt = HrRtErr e /\
             (hr_serve page rc rt = HrErrorPage 504 [] /\ e = HrErrNetTimeout \/
              hr_serve page rc rt = HrErrorPage 404 page /\ e <> HrErrNetTimeout)).
Proof.
  intros page rc [r|e].
  - left. exists r. repeat split; destruct rc; reflexivity.
  - right. exists e. split; [reflexivity|]. destruct e; simpl; [right|left|right|right]; split; try reflexivity; discriminate.
Qed.

Theorem hr_connect_total : forall hj ok conn rb early,
  hr_connect hj ok conn rb early = HrConn500 \/ hr_connect hj ok conn rb early = HrConnNotFound \/
  (hj = true /\ ok = true /\ conn = true /\ hr_connect hj ok conn rb early = HrConnTunnel (rb ++ early)).
Proof. intros [] [] [] rb early; simpl; tauto. Qed.

(* keep-alive on a connection served by a plugin *)
Lemma hk_serve_uncompressed : forall pendings c,
  hk_compressed c = false -> hk_reader_failed c = false ->
  hk_serve c pendings = map (fun _ => true) pendings.
Proof.
  induction pendings as [|p r IH]; intros c Hc Hf; simpl; [reflexivity|].
  unfold hk_serve_one. rewrite Hf, Hc. simpl. f_equal. apply IH; reflexivity.
Qed.

Lemma hk_serve_failed : forall pendings c,
  hk_reader_failed c = true -> hk_serve c pendings = map (fun _ => false) pendings.
Proof.
  induction pendings as [|p r IH]; intros c Hf; simpl; [reflexivity|].
  unfold hk_serve_one. rewrite Hf. f_equal. apply IH. exact Hf.
Qed.

Theorem hk_keepalive_partial : forall compressed pendings,
  (compressed = false -> hk_serve (hk_fresh compressed) pendings = map (fun _ => true) pendings) /\
  (forall p r, pendings = p :: r -> exists rest, hk_serve (hk_fresh compressed) pendings = true :: rest).
Proof.
  intros compressed pendings. split.
  - intros ->. apply hk_serve_uncompressed; reflexivity.
  - intros p r ->. simpl. eexists. reflexivity.
Qed.

Theorem hk_keepalive_refuted :
  exists pendings, hk_serve (hk_fresh true) pendings <> map (fun _ => true) pendings /\
                   hk_serve (hk_fresh true) pendings = [true; false].
Proof. exists [true; true]. split; [discriminate|reflexivity]. Qed.

Theorem hk_keepalive_compressed_exact : forall p r,
  hk_serve (hk_fresh true) (p :: r) = true :: (if p then map (fun _ => false) r else hk_serve (hk_fresh true) r).
Proof.
  intros p r. simpl. destruct p; simpl; [|reflexivity]. f_equal. apply hk_serve_failed. reflexivity.
Qed.

(* ---------------------------------------------------------------------------------------- *)
(* the rewrite of a request uses its own route only *)
Theorem hr_rewrite_route_local : forall tbl tbl' sel inr out,
  (forall id, sel = Some id -> hr_find id tbl = hr_find id tbl') ->
  hr_rewrite_in tbl sel inr out = hr_rewrite_in tbl' sel inr out.
Proof.
  intros tbl tbl' [id|] inr out H; unfold hr_rewrite_in; [rewrite (H id eq_refl)|]; reflexivity.
Qed.

Lemma hr_find_app : forall id a b,
  hr_find id (a ++ b) = match hr_find id a with Some rc => Some rc | None => hr_find id b end.
Proof.
  induction a as [|x a IH]; intros b; simpl; [reflexivity|]. destruct (hc_id x =? id); [reflexivity|apply IH].
Qed.

(* replacing any OTHER route (e.g. by one with different headers) changes nothing *)
Theorem hr_rewrite_other_route_irrelevant : forall a b other other' id inr out,
  hc_id other <> id -> hc_id other' <> id ->
  hr_rewrite_in (a ++ other :: b) (Some id) inr out = hr_rewrite_in (a ++ other' :: b) (Some id) inr out.
Proof.
  intros a b other other' id inr out H1 H2. apply hr_rewrite_route_local.
  intros id0 Hid. inversion Hid; subst id0. rewrite !hr_find_app. simpl.
  apply Z.eqb_neq in H1. apply Z.eqb_neq in H2. rewrite H1, H2. reflexivity.
Qed.

(* ---------------------------------------------------------------------------------------- *)
(* plugins *)
Definition hr_plugin_forwarding (p : hr_plugin) (inr out r : hr_req) : Prop :=
  match p with
  | HrH2H | HrH2HS =>
      (* the three headers pass as they came in; no address is appended *)
      forall k, hr_mem k hr_xf3 = true -> hr_get k (hq_hdrs r) = hr_get k (hq_hdrs inr)
  | HrHS2H | HrHS2HS =>
      hr_get hr_XFF (hq_hdrs r) =
        match hq_client_ip inr with
        | Some ip => [hr_xff_value (hr_get hr_XFF (hq_hdrs inr)) ip]
        | None => []
        end /\
      hr_get hr_XFH (hq_hdrs r) = [hq_host inr] /\
      hr_get hr_XFP (hq_hdrs r) = [hr_proto inr]
  end.

Lemma hr_mem_xf3_cases : forall k, hr_mem k hr_xf3 = true -> k = hr_XFF \/ k = hr_XFH \/ k = hr_XFP.
Proof.
  intros k H. simpl in H. rewrite orb_false_r in H.
  apply orb_true_iff in H. destruct H as [H|H]; [left; symmetry; apply hr_bytes_eqb_eq; exact H|].
  apply orb_true_iff in H. destruct H as [H|H]; [right; left|right; right]; symmetry; apply hr_bytes_eqb_eq; exact H.
Qed.

Theorem hr_plugin_spec : forall p o inr out,
  let r := hr_plugin_rewrite p o inr out in
  hq_method r = hq_method out /\ hq_path r = hq_path out /\ hq_hasq r = hq_hasq out /\
  hq_query r = hq_query out /\ hq_body r = hq_body out /\
  hq_scheme r = hr_plugin_scheme p /\ hq_urlhost r = hp_local_addr o /\
  hq_host r = hr_host_rule (hp_rewrite_host o) (hq_host out) /\
  (forall k v, hr_last_for k (hp_headers o) = Some v -> hr_get k (hq_hdrs r) = [v]) /\
  (forall k, hr_mem k hr_xf3 = false -> hr_last_for k (hp_headers o) = None ->
             hr_get k (hq_hdrs r) = hr_get k (hq_hdrs out)) /\
  ((forall k, hr_mem k hr_xf3 = true -> hr_last_for k (hp_headers o) = None) ->
   hr_plugin_forwarding p inr out r).
Proof.
  intros p o inr out.
  cbn [hr_plugin_rewrite hr_with hq_method hq_path hq_hasq hq_query hq_body hq_hdrs hq_host hq_scheme hq_urlhost].
  repeat split.
  - intros k v Hl. rewrite hr_get_set_all, Hl. reflexivity.
  - intros k Hm Hl. rewrite hr_get_set_all, Hl.
    assert (k <> hr_XFF) by (apply (hr_mem_false_neq k hr_xf3); [exact Hm|simpl; tauto]).
    assert (k <> hr_XFH) by (apply (hr_mem_false_neq k hr_xf3); [exact Hm|simpl; tauto]).
    assert (k <> hr_XFP) by (apply (hr_mem_false_neq k hr_xf3); [exact Hm|simpl; tauto]).
    destruct p.
    + repeat (rewrite hr_get_assign_other by assumption). reflexivity.
    + repeat (rewrite hr_get_assign_other by assumption). reflexivity.
    + rewrite hr_xfwd_other by exact Hm. apply hr_get_assign_other. assumption.
    + rewrite hr_xfwd_other by exact Hm. apply hr_get_assign_other. assumption.
  - intros Hnone.
    assert (HF : hr_last_for hr_XFF (hp_headers o) = None) by (apply Hnone; vm_compute; reflexivity).
    assert (HH : hr_last_for hr_XFH (hp_headers o) = None) by (apply Hnone; vm_compute; reflexivity).
    assert (HP : hr_last_for hr_XFP (hp_headers o) = None) by (apply Hnone; vm_compute; reflexivity).
    destruct p; cbn [hr_plugin_forwarding hr_plugin_rewrite hr_with hq_hdrs].
    + intros k Hm. rewrite hr_get_set_all, (Hnone k Hm).
      pose proof (Hnone k Hm) as Hk. destruct (hr_mem_xf3_cases k Hm) as [E|[E|E]]; subst k.
      * rewrite hr_get_assign_other by exact hr_XFF_XFP.
        rewrite hr_get_assign_other by exact hr_XFF_XFH. apply hr_get_assign_same.
      * rewrite hr_get_assign_other by exact hr_XFH_XFP. apply hr_get_assign_same.
      * apply hr_get_assign_same.
    + intros k Hm. rewrite hr_get_set_all, (Hnone k Hm).
      pose proof (Hnone k Hm) as Hk. destruct (hr_mem_xf3_cases k Hm) as [E|[E|E]]; subst k.
      * rewrite hr_get_assign_other by exact hr_XFF_XFP.
        rewrite hr_get_assign_other by exact hr_XFF_XFH. apply hr_get_assign_same.
      * rewrite hr_get_assign_other by exact hr_XFH_XFP. apply hr_get_assign_same.
      * apply hr_get_assign_same.
    + rewrite !hr_get_set_all, HF, HH, HP. rewrite hr_xfwd_XFF, hr_xfwd_XFH, hr_xfwd_XFP, hr_get_assign_same. repeat split.
    + rewrite !hr_get_set_all, HF, HH, HP. rewrite hr_xfwd_XFF, hr_xfwd_XFH, hr_xfwd_XFP, hr_get_assign_same. repeat split.
Qed.

(* http2http / http2https deliver the X-Forwarded-For they received (which frps has extended) *)
Theorem hr_plugin_h2h_keeps_forwarded : forall p o reenc inr,
  p = HrH2H \/ p = HrH2HS -> hr_last_for hr_XFF (hp_headers o) = None ->
  hr_get hr_XFF (hq_hdrs (hr_plugin_backend_view p o reenc inr)) = hr_get hr_XFF (hq_hdrs inr).
Proof.
  intros p o reenc inr Hp Hl. unfold hr_plugin_backend_view, hr_plugin_rewrite. cbn [hr_with hq_hdrs].
  rewrite hr_get_set_all, Hl. destruct Hp; subst p.
  - rewrite hr_get_assign_other by exact hr_XFF_XFP.
    rewrite hr_get_assign_other by exact hr_XFF_XFH. apply hr_get_assign_same.
  - rewrite hr_get_assign_other by exact hr_XFF_XFP.
    rewrite hr_get_assign_other by exact hr_XFF_XFH. apply hr_get_assign_same.
Qed.
