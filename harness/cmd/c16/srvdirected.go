// C16, frps side: directed phases of the barrage that need a protocol of their own.
//
//	vhost-raw          raw user requests on vhostHTTPPort, vhostHTTPSPort (TLS ClientHello variants) and
//	                   tcpmuxHTTPConnectPort: missing / empty / adversarial Host, absolute-form targets, huge headers
//	nathole-exchange   a scripted owner (registered xtcp proxy, offers work connections, answers the NatHoleSid it gets
//	                   with NatHoleClient) and a scripted visitor (correctly signed NatHoleVisitor) whose address lists
//	                   are adversarial, so that the controller really analyses them
//	writer-never-reads a session that writes NewProxy / Ping without ever reading until the server stops reading too
//	                   (its answers fill the socket and the 100-slot send queue), then a reset; a login with the same
//	                   run id must be answered within a bound
package main

import (
	"crypto/tls"
	"fmt"
	"io"
	"net"
	"strings"
	"sync"
	"sync/atomic"
	"time"

	"github.com/fatedier/frp/pkg/msg"
	"github.com/fatedier/frp/pkg/util/util"
	"verifharness/hx"
)

var rawHTTPRequests = []string{
	"CONNECT / HTTP/1.1\r\n\r\n",
	"CONNECT  HTTP/1.1\r\n\r\n",
	"CONNECT x.test:80 HTTP/1.1\r\n\r\n",
	"CONNECT x.test:80 HTTP/1.1\r\nHost: \r\n\r\n",
	"CONNECT x.test:80 HTTP/1.1\r\nHost: x.test:80\r\nProxy-Authorization: Basic\r\n\r\n",
	"CONNECT [::1]:80 HTTP/1.1\r\nHost: [::1]:80\r\n\r\n",
	"CONNECT [::1 HTTP/1.1\r\nHost: [\r\n\r\n",
	"CONNECT : HTTP/1.1\r\nHost: :\r\n\r\n",
	"CONNECT :0 HTTP/1.0\r\n\r\n",
	"CONNECT * HTTP/1.1\r\nHost: *\r\n\r\n",
	"CONNECT a.sub.test:443 HTTP/1.1\r\nHost: A.SUB.TEST:443\r\nProxy-Authorization: Basic !!!\r\n\r\n",
	"GET / HTTP/1.1\r\n\r\n",
	"GET / HTTP/1.0\r\n\r\n",
	"GET / HTTP/1.1\r\nHost:\r\n\r\n",
	"GET / HTTP/1.1\r\nHost: :\r\n\r\n",
	"GET / HTTP/1.1\r\nHost: [\r\n\r\n",
	"GET / HTTP/1.1\r\nHost: ]:\r\n\r\n",
	"GET / HTTP/1.1\r\nHost: x.test:99999999999\r\n\r\n",
	"GET / HTTP/1.1\r\nHost: x.test\r\nHost: y.test\r\n\r\n",
	"GET http:/// HTTP/1.1\r\n\r\n",
	"GET http://x.test/ HTTP/1.1\r\n\r\n",
	"GET http://[::1/ HTTP/1.1\r\nHost: x.test\r\n\r\n",
	"GET http://x.test:80/a HTTP/1.1\r\nHost: y.test\r\nProxy-Authorization: Basic\r\n\r\n",
	"GET / HTTP/1.1\r\nHost: x.test\r\nAuthorization: Basic\r\n\r\n",
	"GET / HTTP/1.1\r\nHost: x.test\r\nAuthorization: Basic !!!\r\n\r\n",
	"GET / HTTP/1.1\r\nHost: x.test\r\nAuthorization: Basic " + strings.Repeat("QQ", 20000) + "\r\n\r\n",
	"GET / HTTP/1.1\r\nHost: " + strings.Repeat("h", 70000) + "\r\n\r\n",
	"GET / HTTP/1.1\r\nHost: x.test\r\nX: " + strings.Repeat("v", 1<<20) + "\r\n\r\n",
	"GET / HTTP/1.1\r\nHost: \xff\xfe.test\r\n\r\n",
	"GET / HTTP/1.1\r\nHost: x.test\r\nUpgrade: websocket\r\nConnection: Upgrade\r\n\r\n",
	"GET / HTTP/1.1\r\nHost: x.test\r\nContent-Length: -1\r\n\r\n",
	"POST / HTTP/1.1\r\nHost: x.test\r\nTransfer-Encoding: chunked\r\n\r\nFFFFFFFFFFFFFFFFF\r\n",
	"OPTIONS * HTTP/1.1\r\n\r\n",
	"PRI * HTTP/2.0\r\n\r\nSM\r\n\r\n",
	"\r\n\r\n", "GET\r\n\r\n", "GET / HTTP/9.9\r\nHost: x.test\r\n\r\n", "\x16\x03\x01\x00\x05\x01\x00\x00\x01\x00", "\x16\x03\x01\xff\xff", "\x16",
}

// tlsHello: TLS client hellos on the vhost https port (and the other ports): no SNI, unknown / odd SNI, cut short.
func tlsHello(g *hx.Gen, addr string, port int) string {
	names := []string{"", "unknown.test", "x.test", "A.SUB.TEST", strings.Repeat("s", 250) + ".test", "*.x.test", "xn--", "1.2.3.4"}
	name := names[g.Intn(len(names))]
	raw, err := net.DialTimeout("tcp", net.JoinHostPort(addr, fmt.Sprint(port)), time.Second)
	if err != nil {
		return "dial: " + err.Error()
	}
	defer raw.Close()
	_ = raw.SetDeadline(time.Now().Add(400 * time.Millisecond))
	if g.Chance(0.3) { // a real hello, cut after n bytes
		pr, pw := net.Pipe()
		go func() {
			_ = tls.Client(pw, &tls.Config{ServerName: name, InsecureSkipVerify: true}).Handshake()
			pw.Close()
		}()
		b := make([]byte, 4096)
		_ = pr.SetReadDeadline(time.Now().Add(300 * time.Millisecond))
		n, _ := pr.Read(b)
		pr.Close()
		cut := 0
		if n > 0 {
			cut = g.Intn(n)
		}
		_, _ = raw.Write(b[:cut])
		return fmt.Sprintf("ClientHello with SNI %q cut after %d of %d bytes", trunc(name, 30), cut, n)
	}
	_ = tls.Client(raw, &tls.Config{ServerName: name, InsecureSkipVerify: true}).Handshake()
	return fmt.Sprintf("ClientHello with SNI %q", trunc(name, 30))
}

func rawRequest(addr string, port int, req string) {
	conn, err := net.DialTimeout("tcp", net.JoinHostPort(addr, fmt.Sprint(port)), time.Second)
	if err != nil {
		return
	}
	defer conn.Close()
	_ = conn.SetDeadline(time.Now().Add(300 * time.Millisecond))
	_, _ = io.WriteString(conn, req)
	_, _ = io.Copy(io.Discard, io.LimitReader(conn, 1<<16))
}

var natholeAddrLists = [][]string{
	nil, {}, {""}, {"", ""}, {"192.168.1.7"}, {"localhost"}, {"["}, {"]"}, {":"}, {":0"}, {"[::1]"}, {"[::1]:7"}, {"::1"}, {"1.2.3.4:5", "["}, {"1.2.3.4:"}, {":::::"},
	{"\xff\xfe"}, {"\x00"}, {strings.Repeat("9", 9000)}, {"1.2.3.4:99999999999999999999"}, {"1.2.3.4:-1", "1.2.3.4:0"}, {"1.2.3.4:65536", "1.2.3.4:65537"},
	{"1.2.3.4:1000", "1.2.3.4:1001"}, {"1.2.3.4:1000", "5.6.7.8:2000"}, {"1.2.3.4:1000", "1.2.3.4:1000"}, {"127.0.16.1:4000", "127.0.16.1:4003", "127.0.16.1:4001"},
	{"1.2.3.4:1000"}, {"a:b", "c:d"}, {"[fe80::1%lo]:1", "[fe80::1%lo]:2"},
}

func pickAddrList(g *hx.Gen) []string {
	if g.Chance(0.05) {
		l := make([]string, 400)
		for i := range l {
			l[i] = fmt.Sprintf("10.0.%d.%d:%d", i/250, i%250, 1000+i)
		}
		return l
	}
	return natholeAddrLists[g.Intn(len(natholeAddrLists))]
}

// natholeExchange: one complete exchange through the controller.  mappedOK forces well-formed mapped lists on both sides
// (so that the analysis goes past the classification and uses the assisted lists).
func natholeExchange(g *hx.Gen, s *hx.Server, i int) string {
	owner, _, err := s.Login(hx.LoginOpts{User: "nho"})
	if err != nil || owner == nil {
		return "owner login refused"
	}
	defer owner.Close()
	name := fmt.Sprintf("nhx%d", i%3)
	if r, err := owner.NewProxy(&msg.NewProxy{ProxyName: name, ProxyType: "xtcp", Sk: "nk", AllowUsers: []string{"*"}}); err != nil || r.Error != "" {
		return "xtcp registration refused"
	}
	good := [][]string{{"1.2.3.4:1000", "1.2.3.4:1001"}, {"5.6.7.8:2000", "5.6.7.8:2000"}, {"1.2.3.4:1000", "9.9.9.9:1000"}}
	cm := &msg.NatHoleClient{TransactionID: fmt.Sprintf("c%d", i), ProxyName: name, MappedAddrs: pickAddrList(g), AssistedAddrs: pickAddrList(g)}
	vm := &msg.NatHoleVisitor{TransactionID: fmt.Sprintf("v%d", i), ProxyName: name, Protocol: g.Pick([]string{"quic", "kcp", "", "bogus"}),
		MappedAddrs: pickAddrList(g), AssistedAddrs: pickAddrList(g)}
	if g.Chance(0.6) {
		cm.MappedAddrs, vm.MappedAddrs = good[g.Intn(3)], good[g.Intn(3)]
	}
	ownerDone := make(chan string, 1)
	go func() { // the owner: offers a work connection when asked, reads StartWorkConn + NatHoleSid from it, answers with NatHoleClient
		deadline := time.Now().Add(1500 * time.Millisecond)
		for time.Now().Before(deadline) {
			m, err := owner.Recv(time.Until(deadline))
			if err != nil {
				ownerDone <- "owner: no ReqWorkConn"
				return
			}
			if _, ok := m.(*msg.ReqWorkConn); !ok {
				continue
			}
			w, err := owner.WorkConn(true)
			if err != nil {
				ownerDone <- "owner: work connection refused"
				return
			}
			defer w.Close()
			_ = w.SetReadDeadline(time.Now().Add(time.Second))
			var sw msg.StartWorkConn
			var sid msg.NatHoleSid
			if msg.ReadMsgInto(w, &sw) != nil || msg.ReadMsgInto(w, &sid) != nil {
				continue // a pooled connection used for something else
			}
			cm.Sid = sid.Sid
			_ = owner.Send(cm)
			r, err := owner.RecvUntil(1500*time.Millisecond, func(m msg.Message) bool { _, ok := m.(*msg.NatHoleResp); return ok })
			if err != nil {
				ownerDone <- "owner: no NatHoleResp"
				return
			}
			if g.Chance(0.5) {
				_ = owner.Send(&msg.NatHoleReport{Sid: g.Pick([]string{sid.Sid, "", "nosuchsid"}), Success: g.Chance(0.5)})
			}
			ownerDone <- "owner got: " + trunc(r.(*msg.NatHoleResp).Error, 40)
			return
		}
		ownerDone <- "owner: timeout"
	}()
	visitor, _, err := s.Login(hx.LoginOpts{User: "nhv"})
	if err != nil || visitor == nil {
		return "visitor login refused"
	}
	defer visitor.Close()
	ts := time.Now().Unix()
	vm.Timestamp, vm.SignKey = ts, util.GetAuthKey("nk", ts)
	_ = visitor.Send(vm)
	vres := "visitor: no NatHoleResp"
	if r, err := visitor.RecvUntil(2500*time.Millisecond, func(m msg.Message) bool { _, ok := m.(*msg.NatHoleResp); return ok }); err == nil {
		vres = "visitor got: " + trunc(r.(*msg.NatHoleResp).Error, 40)
	}
	ores := "owner: still waiting"
	select {
	case ores = <-ownerDone:
	case <-time.After(300 * time.Millisecond):
	}
	return fmt.Sprintf("client mapped %q assisted %q; visitor mapped %q assisted %q; %s; %s", trunc(fmt.Sprint(cm.MappedAddrs), 40), trunc(fmt.Sprint(cm.AssistedAddrs), 40),
		trunc(fmt.Sprint(vm.MappedAddrs), 40), trunc(fmt.Sprint(vm.AssistedAddrs), 40), vres, ores)
}

// writerNeverReads: returns "" (a login with the same run id was answered) or what is wrong.
func writerNeverReads(g *hx.Gen, s *hx.Server) (detail string, stalled string) {
	p, _, err := s.Login(hx.LoginOpts{User: "wnr"})
	if err != nil || p == nil {
		return "login refused", ""
	}
	rid := p.RunID
	tc, _ := p.Conn.(*net.TCPConn)
	if tc != nil {
		_ = tc.SetReadBuffer(4096)
	}
	// answers of about 9 kB each (the refused registration echoes the name) fill our receive buffer, the server's send buffer
	// and then its 100-slot send queue; from then on its read loop waits inside the handler and stops reading
	name := strings.Repeat("w", 9000)
	written, blocked := 0, false
	for i := 0; i < 4000 && !blocked; i++ {
		var m msg.Message = &msg.NewProxy{ProxyName: fmt.Sprintf("%s%d", name, i), ProxyType: "bogus"}
		if i%4 == 3 {
			m = &msg.Ping{}
		}
		_ = p.Conn.SetWriteDeadline(time.Now().Add(400 * time.Millisecond))
		if err := p.Send(m); err != nil {
			blocked = true
			break
		}
		written++
	}
	time.Sleep(50 * time.Millisecond)
	if tc != nil {
		_ = tc.SetLinger(0) // reset
	}
	p.Conn.Close()
	detail = fmt.Sprintf("%d messages written without reading (writer blocked: %v), then reset; login with the same run id", written, blocked)
	last := ""
	for attempt := 0; attempt < 3; attempt++ {
		done := make(chan string, 1)
		go func() {
			p2, resp, err := s.Login(hx.LoginOpts{User: "wnr", RunID: rid})
			switch {
			case err != nil:
				done <- "no answer: " + err.Error()
			case p2 == nil:
				done <- "ok (refused: " + resp.Error + ")"
			default:
				p2.Close()
				done <- "ok"
			}
		}()
		select {
		case last = <-done:
		case <-time.After(6 * time.Second):
			last = "no LoginResp within 6 s"
		}
		if strings.HasPrefix(last, "ok") {
			return detail + ": " + last, ""
		}
		time.Sleep(100 * time.Millisecond)
	}
	return detail, last
}

// clientHelloBytes: the first flight of a real TLS handshake with the given SNI.
func clientHelloBytes(name string) []byte {
	pr, pw := net.Pipe()
	go func() {
		_ = tls.Client(pw, &tls.Config{ServerName: name, InsecureSkipVerify: true}).Handshake()
		pw.Close()
	}()
	b := make([]byte, 4096)
	_ = pr.SetReadDeadline(time.Now().Add(500 * time.Millisecond))
	n, _ := pr.Read(b)
	pr.Close()
	return b[:n]
}

// handoffChurn: an https and a tcpmux proxy are closed and registered again every few milliseconds (CloseProxy / NewProxy,
// and once per round the whole session) while 8 users keep connecting to their routes: every user connection that is
// routed while its listener closes is in the muxer's hand-off (pkg/util/vhost Muxer.handle -> Listener.accept).
func handoffChurn(g *hx.Gen, c *child, s *hx.Server, d time.Duration) string {
	hello := clientHelloBytes("hc.test")
	connect := "CONNECT hm.test:80 HTTP/1.1\r\nHost: hm.test:80\r\n\r\n"
	stop := make(chan struct{})
	var users sync.WaitGroup
	var nUser int64
	for u := 0; u < 8; u++ {
		users.Add(1)
		go func(u int) {
			defer users.Done()
			for {
				select {
				case <-stop:
					return
				default:
				}
				port, payload := c.https, hello
				if u%2 == 1 {
					port, payload = c.tcpmux, []byte(connect)
				}
				conn, err := net.DialTimeout("tcp", net.JoinHostPort(c.addr, fmt.Sprint(port)), 300*time.Millisecond)
				if err != nil {
					time.Sleep(5 * time.Millisecond)
					continue
				}
				atomic.AddInt64(&nUser, 1)
				_, _ = conn.Write(payload)
				_ = conn.SetReadDeadline(time.Now().Add(15 * time.Millisecond))
				b := make([]byte, 64)
				_, _ = conn.Read(b)
				conn.Close()
			}
		}(u)
	}
	cycles := 0
	for t0 := time.Now(); time.Since(t0) < d && c.alive(); {
		p, _, err := s.Login(hx.LoginOpts{User: "hc"})
		if err != nil || p == nil {
			time.Sleep(10 * time.Millisecond)
			continue
		}
		for k := 0; k < 12 && c.alive() && time.Since(t0) < d; k++ {
			_, _ = p.NewProxy(&msg.NewProxy{ProxyName: "hc-https", ProxyType: "https", CustomDomains: []string{"hc.test"}})
			_, _ = p.NewProxy(&msg.NewProxy{ProxyName: "hc-mux", ProxyType: "tcpmux", Multiplexer: "httpconnect", CustomDomains: []string{"hm.test"}})
			time.Sleep(time.Duration(g.Intn(4000)) * time.Microsecond)
			_ = p.CloseProxy("hc-https")
			_ = p.CloseProxy("hc-mux")
			cycles++
			time.Sleep(time.Duration(g.Intn(2000)) * time.Microsecond)
		}
		_, _ = p.NewProxy(&msg.NewProxy{ProxyName: "hc-https", ProxyType: "https", CustomDomains: []string{"hc.test"}})
		time.Sleep(time.Duration(g.Intn(3000)) * time.Microsecond)
		p.Close() // the session ends with the proxy registered
	}
	close(stop)
	users.Wait()
	return fmt.Sprintf("%d close/register cycles of an https and a tcpmux proxy under %d user connections", cycles, atomic.LoadInt64(&nUser))
}

// refusedLoginsHeld: n logins with a wrong key; every peer reads the refusal and then just keeps its connection open.
// Returns the connections (to be closed by the caller after the watchdog ran) and how many the server closed itself.
func refusedLoginsHeld(s *hx.Server, n int) (string, []net.Conn) {
	var mu sync.Mutex
	var held []net.Conn
	refused, closedByServer := 0, 0
	var wg sync.WaitGroup
	sem := make(chan struct{}, 16)
	for i := 0; i < n; i++ {
		wg.Add(1)
		sem <- struct{}{}
		go func() {
			defer wg.Done()
			defer func() { <-sem }()
			conn, err := s.Dial()
			if err != nil {
				return
			}
			ts := time.Now().Unix()
			_ = conn.SetDeadline(time.Now().Add(2 * time.Second))
			if msg.WriteMsg(conn, &msg.Login{Version: "0.61.0", PrivilegeKey: util.GetAuthKey("wrong-token", ts), Timestamp: ts}) != nil {
				conn.Close()
				return
			}
			var resp msg.LoginResp
			ok := msg.ReadMsgInto(conn, &resp) == nil && resp.Error != ""
			mu.Lock()
			if ok {
				refused++
			}
			held = append(held, conn)
			mu.Unlock()
		}()
	}
	wg.Wait()
	time.Sleep(300 * time.Millisecond)
	mu.Lock()
	defer mu.Unlock()
	for _, h := range held { // has the server let go of it?
		_ = h.SetReadDeadline(time.Now().Add(time.Millisecond))
		b := make([]byte, 1)
		if _, err := h.Read(b); err != nil {
			if ne, isNet := err.(net.Error); !isNet || !ne.Timeout() {
				closedByServer++
			}
		}
	}
	return fmt.Sprintf("%d logins with a wrong key, %d refused, peers keep the connections open; %d of %d closed by the server after 300 ms", n, refused, closedByServer, len(held)), held
}

// workConnReset: a session registers a tcp proxy and answers every ReqWorkConn with a work connection that it resets (or
// closes) right after the NewWorkConn message, so that the server's StartWorkConn write hits a dead link; 6 users keep
// connecting to the remote port meanwhile.
func workConnReset(g *hx.Gen, s *hx.Server, pool int, d time.Duration) string {
	p, _, err := s.Login(hx.LoginOpts{User: "wr", PoolCount: pool})
	if err != nil || p == nil {
		return "login refused"
	}
	defer p.Close()
	port := hx.FreePort(s.Addr)
	if r, err := p.NewProxy(&msg.NewProxy{ProxyName: fmt.Sprintf("wr%d", port), ProxyType: "tcp", RemotePort: port}); err != nil || r.Error != "" {
		return "registration refused"
	}
	stop := make(chan struct{})
	var offered, users int64
	var wg sync.WaitGroup
	offer := func(how int) {
		w, err := p.WorkConn(true)
		if err != nil {
			return
		}
		atomic.AddInt64(&offered, 1)
		switch how {
		case 0:
			if tc, ok := w.(*net.TCPConn); ok {
				_ = tc.SetLinger(0)
			}
			w.Close()
		case 1:
			w.Close()
		default:
			time.Sleep(time.Duration(how) * 300 * time.Microsecond)
			if tc, ok := w.(*net.TCPConn); ok {
				_ = tc.SetLinger(0)
			}
			w.Close()
		}
	}
	wg.Add(1)
	go func() { // the owner: every ReqWorkConn gets two doomed work connections
		defer wg.Done()
		k := 0
		for {
			select {
			case <-stop:
				return
			default:
			}
			m, err := p.Recv(100 * time.Millisecond)
			if err != nil {
				if ne, ok := err.(net.Error); ok && ne.Timeout() {
					continue
				}
				return
			}
			if _, ok := m.(*msg.ReqWorkConn); ok {
				k++
				go offer(k % 5)
				go offer((k + 2) % 5)
			}
		}
	}()
	for u := 0; u < 6; u++ {
		wg.Add(1)
		go func() {
			defer wg.Done()
			for {
				select {
				case <-stop:
					return
				default:
				}
				conn, err := net.DialTimeout("tcp", net.JoinHostPort(s.Addr, fmt.Sprint(port)), 300*time.Millisecond)
				if err != nil {
					time.Sleep(5 * time.Millisecond)
					continue
				}
				atomic.AddInt64(&users, 1)
				_, _ = conn.Write([]byte("x"))
				_ = conn.SetReadDeadline(time.Now().Add(20 * time.Millisecond))
				b := make([]byte, 8)
				_, _ = conn.Read(b)
				conn.Close()
			}
		}()
	}
	time.Sleep(d)
	close(stop)
	wg.Wait()
	return fmt.Sprintf("pool count %d: %d work connections offered and reset at once, %d user connections", pool, atomic.LoadInt64(&offered), atomic.LoadInt64(&users))
}

func runServerDirected(cfg *hx.RunCfg, c *child, s *hx.Server, raceMode bool, record func(kind, typ, detail string, alive, wd bool),
	crashed func(kind, detail string) bool, fails *[]map[string]any) {
	scale := func(quick, thorough int) int {
		n := quick
		if cfg.Tier == "thorough" {
			n = thorough
		}
		if raceMode {
			n = (n + 1) / 2
		}
		return n
	}
	g := hx.NewGen(cfg.Seed + 7333)
	shown := map[string][]string{}
	rec0 := record
	record = func(kind, typ, detail string, alive, wd bool) {
		if len(shown[kind]) < 5 {
			shown[kind] = append(shown[kind], detail)
		}
		rec0(kind, typ, detail, alive, wd)
	}
	defer func() { cfg.St["directed_samples"] = shown }()
	// 1. raw user requests
	ports := []int{c.tcpmux, c.vhost, c.https}
	names := []string{"tcpmux", "vhost-http", "vhost-https"}
	n := scale(len(rawHTTPRequests)+20, 6*len(rawHTTPRequests))
	for i := 0; i < n && c.alive(); i++ {
		k := g.Intn(3)
		if i < len(rawHTTPRequests) {
			k = 0 // every request once on the tcpmux port (its handler goroutine has no recover), then by PRNG on all three
		}
		if ports[k] == 0 {
			continue
		}
		var detail string
		if (k == 2 && g.Chance(0.7)) || g.Chance(0.1) {
			detail = names[k] + ": " + tlsHello(g, c.addr, ports[k])
		} else {
			req := rawHTTPRequests[i%len(rawHTTPRequests)]
			if i >= len(rawHTTPRequests) {
				req = rawHTTPRequests[g.Intn(len(rawHTTPRequests))]
			}
			rawRequest(c.addr, ports[k], req)
			detail = names[k] + ": " + fmt.Sprintf("%q", trunc(req, 70))
		}
		if crashed("directed:vhost-raw", detail) {
			return
		}
		record("directed:vhost-raw", names[k], detail, true, true)
	}
	// 1b. user connections in the muxer's hand-off while their proxy closes
	if c.https > 0 && c.tcpmux > 0 {
		d := time.Duration(scale(1500, 8000)) * time.Millisecond
		detail := handoffChurn(g, c, s, d)
		time.Sleep(30 * time.Millisecond)
		if crashed("directed:vhost-handoff-churn", detail) {
			return
		}
		record("directed:vhost-handoff-churn", "CloseProxy", detail, true, true)
	}
	// 1c. refused logins whose peers keep their connections open: more of them than the child has descriptors
	if c.alive() && !raceMode { // a descriptor test: nothing for the race detector in it
		detail, held := refusedLoginsHeld(s, 1100)
		var werr error
		for try := 0; try < 3; try++ {
			if werr = watchdog(s); werr == nil {
				break
			}
			time.Sleep(200 * time.Millisecond)
		}
		for _, h := range held {
			h.Close()
		}
		if crashed("directed:refused-logins-held", detail) {
			return
		}
		if werr != nil {
			*fails = append(*fails, map[string]any{"key": "frps-wedged:descriptors-held-by-refused-logins", "what": "while the peers of refused logins keep their connections open frps serves nobody: " + werr.Error(),
				"case": detail})
		}
		record("directed:refused-logins-held", "Login", detail, true, werr == nil)
		time.Sleep(100 * time.Millisecond)
	}
	// 1d. work connections that are reset right after they were offered, while users connect
	for _, pool := range []int{0, 2} {
		if !c.alive() {
			break
		}
		detail := workConnReset(g, s, pool, time.Duration(scale(700, 3000))*time.Millisecond)
		time.Sleep(30 * time.Millisecond)
		if crashed("directed:workconn-reset", detail) {
			return
		}
		record("directed:workconn-reset", "NewWorkConn", detail, true, true)
	}
	// 2. structured NAT-hole exchanges
	n = scale(14, 150)
	for i := 0; i < n && c.alive(); i++ {
		detail := natholeExchange(g, s, i)
		time.Sleep(10 * time.Millisecond)
		if crashed("directed:nathole-exchange", detail) {
			return
		}
		record("directed:nathole-exchange", "NatHoleVisitor", detail, true, true)
	}
	// 3. a peer that writes without reading
	n = scale(2, 8)
	if raceMode && cfg.Tier != "thorough" {
		n = 0 // the quick race pass leaves this one to the plain barrage
	}
	for i := 0; i < n && c.alive(); i++ {
		detail, stalled := writerNeverReads(g, s)
		if crashed("directed:writer-never-reads", detail) {
			return
		}
		if stalled != "" {
			*fails = append(*fails, map[string]any{"key": "frps-stalled:writer-never-reads", "what": "a session whose peer wrote without reading and then reset the connection is never torn down: " +
				"a login with its run id is not answered (" + stalled + ")", "case": detail})
		}
		record("directed:writer-never-reads", "NewProxy", detail, true, stalled == "")
	}
}
