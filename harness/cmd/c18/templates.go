package main

// Templates: (1) Coq cases — generated template documents (text, {{ .Envs.X }}, range loops over
// parseNumberRangePair / parseNumberRange) through the real config.RenderWithTemplate with the
// environment values chosen by the harness, against Model/Template.v; (2) Go side — a templated
// configuration file against the same file with the values and the enumerated port pairs written
// out by the harness itself: both must load to the same structure.

import (
	"fmt"
	"strconv"
	"strings"

	"github.com/fatedier/frp/pkg/config"
	v1 "github.com/fatedier/frp/pkg/config/v1"

	"verifharness/hx"
)

var envNames = []string{"C18_ADDR", "C18_TOKEN", "X1", "EMPTY", "lower_name", "Ünï"}
var envValues = []string{"", "127.0.0.1", "frps.example.com", `q"uote`, "{{ .Envs.X1 }}", "ünïcödé 日本", "a\nb", "}}", "<no value>"}
var textPool = []string{"", "serverAddr = \"", "\"\n", "# comment }} { } \n", "[[proxies]]\n", "ünï ", "name = \"p-", "\"\nremotePort = ", "\n", " - ", "{ }x"}

func (d *drv) templateCase(g *gen) caseOut {
	// long outputs (wide ranges) would become very long hex literals in the case file: draw again
	for {
		c, n := d.templateCase1(g)
		if n <= 1500 {
			return c
		}
	}
}

func (d *drv) templateCase1(g *gen) (caseOut, int) {
	envs := map[string]string{}
	for _, n := range envNames {
		if g.chance(0.6) {
			envs[n] = g.pick(envValues)
		}
	}
	var src strings.Builder
	var segs []string
	kinds := ""
	for i := 0; i < 1+g.intn(5); i++ {
		switch g.intn(6) {
		case 0, 1:
			t := g.pick(textPool)
			src.WriteString(t)
			segs = append(segs, "TText "+hx.HxS(t))
		case 2, 3:
			n := g.pick(envNames)
			src.WriteString("{{ .Envs." + n + " }}")
			segs = append(segs, "TEnv "+hx.HxS(n))
			kinds += "e"
		case 4:
			a, _ := g.rangeText(g.chance(0.2))
			b, _ := g.rangeText(g.chance(0.2))
			if g.chance(0.6) {
				b = a
			}
			a = strings.ReplaceAll(a, "9223372036854775807", "9223372036854775806")
			b = strings.ReplaceAll(b, "9223372036854775807", "9223372036854775806")
			src.WriteString("{{ range $i, $v := parseNumberRangePair " + strconv.Quote(a) + " " + strconv.Quote(b) + " }}")
			var body []string
			for k := 0; k < 1+g.intn(4); k++ {
				switch g.intn(3) {
				case 0:
					t := g.pick(textPool)
					src.WriteString(t)
					body = append(body, "PSText "+hx.HxS(t))
				case 1:
					src.WriteString("{{ $v.First }}")
					body = append(body, "PSFirst")
				default:
					src.WriteString("{{ $v.Second }}")
					body = append(body, "PSSecond")
				}
			}
			src.WriteString("{{ end }}")
			segs = append(segs, fmt.Sprintf("TPairs %s %s %s", hx.HxS(a), hx.HxS(b), hx.List(body)))
			kinds += "p"
		default:
			a, _ := g.rangeText(g.chance(0.2))
			a = strings.ReplaceAll(a, "9223372036854775807", "9223372036854775806")
			pre, post := g.pick(textPool), g.pick(textPool)
			src.WriteString("{{ range $i, $n := parseNumberRange " + strconv.Quote(a) + " }}" + pre + "{{ $n }}" + post + "{{ end }}")
			segs = append(segs, fmt.Sprintf("TRange %s %s %s", hx.HxS(a), hx.HxS(pre), hx.HxS(post)))
			kinds += "r"
		}
	}
	out, err := config.RenderWithTemplate([]byte(src.String()), &config.Values{Envs: envs})
	res := "TErr"
	kind := "template-err"
	if err == nil {
		res = "(TOk " + hx.Hx(out) + ")"
		kind = "template-ok"
	}
	evs := []string{}
	for _, k := range hx.SortedKeys(envs) {
		evs = append(evs, "("+hx.HxS(k)+", "+hx.HxS(envs[k])+")")
	}
	items := []string{}
	for _, s := range segs {
		items = append(items, "("+s+")")
	}
	return caseOut{fmt.Sprintf("CTemplate %s %s %s", hx.List(evs), hx.List(items), res), kind}, len(out)
}

type prange struct{ lo, hi int64 }

func rangesText(rs []prange) string {
	parts := []string{}
	for _, r := range rs {
		if r.lo == r.hi {
			parts = append(parts, strconv.FormatInt(r.lo, 10))
		} else {
			parts = append(parts, fmt.Sprintf("%d-%d", r.lo, r.hi))
		}
	}
	return strings.Join(parts, ",")
}

func (d *drv) runTemplates(g *gen, n int) map[string]any {
	st := map[string]int{}
	for i := 0; i < n; i++ {
		addr := g.pick([]string{"127.0.0.1", "frps.example.com", "::1", ""})
		token := g.pick([]string{"secret", "ünï 日本", "", "t-1"})
		envs := map[string]string{"C18_ADDR": addr, "C18_TOKEN": token}
		if g.chance(0.2) {
			// an unset variable: text/template prints "<no value>" for a missing key of the map
			delete(envs, "C18_TOKEN")
			token = "<no value>"
			st["unset_variable_renders_no_value"]++
		}
		// two aligned range lists, enumerated by the harness itself
		var locals, remotes []prange
		for k := 0; k < 1+g.intn(3); k++ {
			lo := int64(1000 + g.intn(50000))
			w := int64(g.intn(4))
			locals = append(locals, prange{lo, lo + w})
			rlo := int64(10000 + g.intn(50000))
			remotes = append(remotes, prange{rlo, rlo + w})
		}
		typ := g.pick([]string{"tcp", "udp"})
		tpl := "serverAddr = \"{{ .Envs.C18_ADDR }}\"\nauth.token = \"{{ .Envs.C18_TOKEN }}\"\n" +
			"{{ range $i, $v := parseNumberRangePair \"" + rangesText(locals) + "\" \"" + rangesText(remotes) + "\" }}\n" +
			"[[proxies]]\nname = \"" + typ + "-{{ $v.First }}\"\ntype = \"" + typ + "\"\nlocalPort = {{ $v.First }}\nremotePort = {{ $v.Second }}\n{{ end }}\n"
		var plain strings.Builder
		plain.WriteString("serverAddr = " + jstr(addr) + "\nauth.token = " + jstr(token) + "\n")
		count := 0
		for k := range locals {
			for j := int64(0); j <= locals[k].hi-locals[k].lo; j++ {
				l, r := locals[k].lo+j, remotes[k].lo+j
				plain.WriteString(fmt.Sprintf("\n[[proxies]]\nname = \"%s-%d\"\ntype = \"%s\"\nlocalPort = %d\nremotePort = %d\n", typ, l, typ, l, r))
				count++
			}
		}
		rendered, err := config.RenderWithTemplate([]byte(tpl), &config.Values{Envs: envs})
		if err != nil {
			d.fail("template-render", "a well-formed templated configuration is rejected: "+err.Error(), tpl)
			continue
		}
		var a, b v1.ClientConfig
		e1 := config.LoadConfigure(rendered, &a, true)
		e2 := config.LoadConfigure([]byte(plain.String()), &b, true)
		if e1 != nil || e2 != nil {
			d.fail("template-load", fmt.Sprintf("rendered / written-out document rejected: %v / %v", e1, e2), tpl+"\n--- rendered ---\n"+string(rendered))
			continue
		}
		st["documents"]++
		st["pairs"] += count
		if len(a.Proxies) != count || dumpClient(&a) != dumpClient(&b) {
			d.fail("template-written-out", "the templated document does not load to the same structure as the document with the values and port pairs written out",
				tpl+"\n--- rendered ---\n"+string(rendered)+"\n--- written out ---\n"+plain.String())
		}
	}
	out := map[string]any{}
	for k, v := range st {
		out[k] = v
	}
	return out
}
