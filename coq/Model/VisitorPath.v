(* C08, second part: what happens before and after the admission decision.
   (1) the allowed-users value on its way from the owner's configuration to the server's default
       (pkg/config load in every format -> v1 config -> Complete -> MarshalToMsg -> NewProxy on the wire ->
        UnmarshalFromMsg -> server/proxy/{stcp,sudp,xtcp}.go Run);
   (2) which key each secret-proxy type uses for the stream wrapper on each end of each leg;
   (3) the visitor's stream right after the NewVisitorConnResp frame (the backend may speak first);
   (4) the single-leg xtcp tunnel.
   Model only: no proofs. *)
From FRP Require Export Model.Visitor Model.Frame.
Open Scope Z_scope.

(* ---------- (1) configuration ---------- *)
Inductive cfg_format := FToml | FYaml | FJson | FIni | FFlags.

(* what the owner wrote for allowUsers / allow_users / --allow_users *)
Inductive cfg_allow := CAbsent | CList (l : list bytes).

(* every loader yields the empty list for an absent key and the written list otherwise *)
Definition load_allow (f : cfg_format) (c : cfg_allow) : list bytes :=
  match c with CAbsent => [] | CList l => l end.

(* a stage of the plumbing: Some f = the value is handed on as f(value); the identity is what today's code has *)
Definition plumb_stage := list bytes -> list bytes.
Definition plumb_run (stages : list plumb_stage) (l : list bytes) : list bytes :=
  fold_left (fun acc f => f acc) stages l.

(* load, then the stages (ini conversion / MarshalToMsg / UnmarshalFromMsg), then the server's default *)
Definition effective_allow (stages : list plumb_stage) (f : cfg_format) (c : cfg_allow) (owner_user : bytes) : list bytes :=
  vdefault_allow (plumb_run stages (load_allow f c)) owner_user.

(* the answer a visitor holding the key gets from a proxy registered with that configuration *)
Definition cfg_admits (stages : list plumb_stage) (f : cfg_format) (c : cfg_allow) (owner_user visitor_user : bytes) : bool :=
  vallowed (effective_allow stages f c owner_user) visitor_user.

(* ---------- (2) keys ---------- *)
Inductive keyclass := KSecret | KToken | KNoKey.
Definition keyclass_eqb (a b : keyclass) : bool :=
  match a, b with KSecret, KSecret | KToken, KToken | KNoKey, KNoKey => true | _, _ => false end.

(* a leg of a secret proxy's data path and the key class of the wrapper at each of its ends *)
Inductive leg := LegVisitor (k : pkind)   (* visitor frpc <-> frps, stcp/sudp *)
               | LegWork (k : pkind)      (* frps <-> owner frpc, stcp/sudp *)
               | LegTunnel.               (* visitor frpc <-> owner frpc, xtcp, peer to peer *)

(* what the property needs: the secret key end to end where the server must not be able to read along
   (xtcp) and on the visitor leg; the token on the work leg (frps holds no per-proxy key there) *)
Definition leg_key (l : leg) : keyclass :=
  match l with LegVisitor _ => KSecret | LegWork _ => KToken | LegTunnel => KSecret end.

(* ---------- (3) the response frame, then the stream ---------- *)
Section AfterResponse.
  Variable enc_wr : bytes -> list bytes -> list bytes.
  Variable enc_rd : bytes -> bytes -> bytes.
  Variable comp_wr : list bytes -> list bytes.
  Variable comp_rd : bytes -> bytes.

  (* the visitor decodes exactly one frame from its connection; everything behind it is the wrapped stream *)
  Definition visitor_after_resp (reg : byte -> bool) (st : list vlayer) (s : bytes) : option (bytes * bytes) :=
    match decode_frame reg s with
    | DOk r _ _ => Some (d_body r, stack_rd enc_rd comp_rd st (d_rest r))
    | DErr _ _ _ => None
    end.

  (* (4) xtcp: one leg, the visitor's stack on one end and the owner's on the other *)
  Definition xtcp_deliver (sender receiver : list vlayer) (chunks : list bytes) : bytes :=
    stack_rd enc_rd comp_rd receiver (List.concat (stack_wr enc_wr comp_wr sender chunks)).
End AfterResponse.

(* ---------- (5) the handshake deadline of the stcp / sudp visitor ---------- *)
(* client/visitor/stcp.go handleConn, sudp.go getNewVisitorConn: SetReadDeadline(now + 10 s) guards the wait for
   NewVisitorConnResp and is cleared (SetReadDeadline(time.Time{})) before the stream is joined / handed out.
   Events in source order; a deferred call runs when the function returns, i.e. after the join. *)
Inductive hs_ev := HArm | HClear | HDeferArm | HDeferClear | HReadResp | HJoin.

Definition hs_ev_eqb (a b : hs_ev) : bool :=
  match a, b with
  | HArm, HArm | HClear, HClear | HDeferArm, HDeferArm | HDeferClear, HDeferClear | HReadResp, HReadResp | HJoin, HJoin => true
  | _, _ => false
  end.

(* is the deadline armed when [target] is reached?  None: the target is never reached *)
Fixpoint hs_armed_at (target : hs_ev) (armed : bool) (evs : list hs_ev) : option bool :=
  match evs with
  | [] => None
  | e :: r =>
      if hs_ev_eqb e target then Some armed
      else hs_armed_at target (match e with HArm => true | HClear => false | _ => armed end) r
  end.

(* a read on the admitted stream at age [t] (ms), the handshake deadline being [d]: it fails iff the deadline is
   still armed and has passed *)
Definition stream_read_ok (armed : bool) (d t : Z) : bool := negb armed || (t <? d).
