(* C02 — proofs about Model/HttpAdmit.v *)
From FRP Require Import Model.HttpAdmit Proofs.HttpRewriteProofs.
Open Scope Z_scope.

Lemma ht_get_conn_uncapped : forall s, fst (ht_get_conn 0 s) <> HtQueued.
Proof. intros s. unfold ht_get_conn. destruct (0 <? ht_idle s); simpl; discriminate. Qed.

(* without a cap no request of any history over any number of routes ever waits inside the transport *)
Theorem ht_never_queued : forall ops st, ~ In HtQueued (ht_run 0 st ops).
Proof.
  induction ops as [|op ops IH]; intros st; simpl; [tauto|].
  destruct op as [k|k keep]; simpl.
  - pose proof (ht_get_conn_uncapped (ht_find k st)) as H.
    destruct (ht_get_conn 0 (ht_find k st)) as [a s]. simpl in *.
    intros [Ha|Hin]; [congruence|]. exact (IH _ Hin).
  - apply IH.
Qed.

Lemma ht_lookup_reviewed : forall fs,
  forallb (fun f => ht_str_mem (fst f) ht_reviewed_fields) fs = true ->
  ht_lookup "MaxConnsPerHost" fs = None.
Proof.
  induction fs as [|[n v] fs IH]; simpl; intro H; [reflexivity|].
  apply andb_true_iff in H. destruct H as [H1 H2].
  destruct (String.eqb n "MaxConnsPerHost") eqn:E; [|exact (IH H2)].
  apply String.eqb_eq in E. subst n. vm_compute in H1. discriminate.
Qed.

Theorem ht_literal_ok_sound : forall nlits fs assigned,
  ht_literal_ok nlits fs assigned = true ->
  ht_max_conns fs = Some 0 /\ forall ops st, ~ In HtQueued (ht_run 0 st ops).
Proof.
  intros nlits fs assigned H. unfold ht_literal_ok in H.
  apply andb_true_iff in H. destruct H as [H _]. apply andb_true_iff in H. destruct H as [_ H].
  split; [|exact ht_never_queued].
  unfold ht_max_conns. rewrite (ht_lookup_reviewed fs H). reflexivity.
Qed.

(* the cap does matter: with 5 connections per key, the sixth concurrent exchange of a route waits,
   while another route is served *)
Definition ht_six (k : bytes) : list ht_op := repeat (HtRequest k) 6.
Theorem ht_cap5_queues : forall k k', k <> k' ->
  ht_run 5 [] (ht_six k ++ [HtRequest k']) = [HtDial; HtDial; HtDial; HtDial; HtDial; HtQueued; HtDial].
Proof.
  intros k k' Hne.
  pose proof (hr_bytes_eqb_neq k k' Hne) as Hn.
  pose proof (hr_bytes_eqb_refl k) as Hr.
  unfold ht_six. cbn -[bytes_eqb]. unfold ht_get_conn. cbn -[bytes_eqb].
  repeat (rewrite ?Hr, ?Hn; cbn -[bytes_eqb]). reflexivity.
Qed.

(* ---------------------------------------------------------------------------------------- *)
(* recycling of pooled compression resources *)
Theorem rc_sites_safe_sound : forall sites,
  rc_sites_safe sites = true ->
  sites <> [] /\
  forall file fn evs p, In (file, fn, evs) sites -> In p (rc_paths evs) -> rc_path_safe p false false = true.
Proof.
  intros sites H. destruct sites as [|s0 sites]; [discriminate|]. split; [discriminate|].
  intros file fn evs p Hin Hp. unfold rc_sites_safe in H.
  rewrite forallb_forall in H. specialize (H _ Hin). simpl in H.
  unfold rc_site_safe in H. rewrite forallb_forall in H. exact (H _ Hp).
Qed.

(* the shape with a deferred recycle next to an asynchronous hand-off is refused: on the path through the
   plugin the function returns, the deferred call fires, the stream is still being served *)
Example rc_defer_with_async_unsafe :
  rc_site_safe [RcIf [RcAcquire; RcDefer] false; RcIf [RcAsync] true; RcIf [RcClose] true; RcJoin] = false /\
  In [RcAcquire; RcDefer; RcAsync] (rc_paths [RcIf [RcAcquire; RcDefer] false; RcIf [RcAsync] true; RcIf [RcClose] true; RcJoin]).
Proof. split; vm_compute; tauto. Qed.
