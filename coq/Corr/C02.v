(* C02 correspondence: what an echoing backend saw and what the user got, against Model/HttpRewrite.v. *)
From FRP Require Export Corr.Common Model.HttpRewrite Model.HttpAdmit gen.GenVhostTransport gen.GenMuxDeadline gen.GenGroupGlue.
Open Scope Z_scope.

Fixpoint c02_list_eqb (a b : list bytes) : bool :=
  match a, b with
  | [], [] => true
  | x :: a', y :: b' => bytes_eqb x y && c02_list_eqb a' b'
  | _, _ => false
  end.

Definition c02_opt_eqb (a : option bytes) (b : bytes) : bool :=
  match a with Some x => bytes_eqb x b | None => true end.

(* keys as they stood on the wire -> http.Header keys (what net/http's reader does) *)
Definition c02_canon_hdrs (h : hr_hdrs) : hr_hdrs := map (fun kv => (hr_canon (fst kv), snd kv)) h.

(* multimap equality on the keys not in [skip]: same values, same multiplicity, same order per key *)
Definition c02_hdrs_eqb_except (skip : bytes -> bool) (a b : hr_hdrs) : bool :=
  forallb (fun kv => skip (fst kv) || c02_list_eqb (hr_get (fst kv) a) (hr_get (fst kv) b)) (a ++ b).

(* header lines of a request that belong to framing / addressing, compared elsewhere or not at all *)
Definition c02_req_framing : list bytes :=
  map hr_b ["Host"; "Content-Length"; "Transfer-Encoding"; "Trailer"]%string.
(* response lines written by net/http's server itself *)
Definition c02_resp_framing : list bytes :=
  map hr_b ["Content-Length"; "Transfer-Encoding"; "Connection"; "Trailer"]%string.
Definition c02_srv_defaults : list bytes := map hr_b ["Date"; "Content-Type"]%string.

Definition c02_in_req (r : hr_req) : hr_req :=
  {| hq_method := hq_method r; hq_path := hq_path r; hq_hasq := hq_hasq r; hq_query := hq_query r;
     hq_host := hq_host r; hq_hdrs := c02_canon_hdrs (hq_hdrs r); hq_body := hq_body r;
     hq_client_ip := hq_client_ip r; hq_tls := hq_tls r; hq_scheme := hq_scheme r; hq_urlhost := hq_urlhost r |}.

(* observed request as the backend logged it *)
Record c02_seen := {
  sn_method : bytes; sn_target : bytes; sn_hdrs : hr_hdrs (* all header lines, wire order, incl. Host *);
  sn_body : bytes; sn_route : Z (* which route's backend received it *)
}.

Inductive case :=
(* vhost reverse proxy: route config (as registered), the other routes' ids, the user's request as sent
   (raw header keys), the library's re-encoded query, what the backend of route [sn_route] saw, the dial
   address when a new backend connection was made, the remote address handed to CreateConnFn equals the
   user's, the backend's scripted answer, what the user received *)
| CFwd (rc : hr_route) (uq : hr_req) (reenc : bytes) (seen : c02_seen) (dial : option bytes) (remote_ok : bool)
       (resp : hr_resp) (got : hr_resp)
(* error paths: transport error class as arranged by the driver, the pages, the answer, elapsed ms, the
   bound, and whether a concurrent request to another route was served meanwhile *)
| CErr (e : hr_err) (deflt : bytes) (custom : option (option bytes)) (got_status : Z) (got_body : bytes)
       (elapsed_ms bound_ms : Z) (other_ok : bool)
(* a client plugin in isolation *)
| CPlug (p : hr_plugin) (o : hr_popts) (uq : hr_req) (reenc : bytes) (seen : c02_seen) (resp got : hr_resp)
(* an upgraded (kind 1) or CONNECT (kind 2) exchange through the vhost port: the backend accepted, then
   byte streams both ways (digests): what the user sent / the backend received, what the backend sent /
   the user received *)
| CTunnel (kind : Z) (accepted : bool) (up_sent up_recv down_sent down_recv : bytes)
(* a sequence of requests on one connection that ends in a client plugin (through frps): compression flag of
   the proxy, and for every request whether it was answered *)
| CKeep (compressed : bool) (answered : list bool)
(* k exchanges of one route held open at once (kind 1: upgraded connections, 2: backend not answering yet),
   [held] of them established; then a probe on the same route and one on another route: status and
   milliseconds to the complete answer, and the bound *)
| CAdmit (kind k held : Z) (same_status same_ms other_status other_ms bound_ms : Z)
(* one large POST on connection A overlapping k single-request connections through a compressed plugin proxy:
   A's status, digest sent / digest the backend received, how many of the k were answered correctly,
   elapsed and bound (ms) *)
| COverlap (k a_status : Z) (a_sent a_seen : bytes) (b_ok ms bound : Z)
(* a TLS connection routed by the real vhost HTTPS muxer (sniffing timeout [timeout] ms) and joined with a work
   connection that ends in the https2http plugin: the chunks the backend streamed with the age of the user
   connection (ms) at each write, the body the user received, the ages at which the user sent its requests
   and how many were answered *)
| CAged (timeout : Z) (chunks : list (Z * bytes)) (got : bytes) (req_ages : list Z) (answered : Z)
(* a request whose head is [head_bytes] long through the real vhost HTTP port: status the user got, digest of the
   large header value as sent and as the backend saw it ([] when the backend saw nothing) *)
| CBigHead (head_bytes status : Z) (sent seen : bytes)
(* a body of [size] bytes through an http proxy with a bandwidth limit of [limit] bytes/s (kind 1: response,
   server side limiter): status, digests sent / received, elapsed ms *)
| CLimited (kind limit size status : Z) (sent got : bytes) (ms : Z)
(* a request through a load-balancing group: as CFwd; hc_endpoint of [rc] is the endpoint id the request was pooled
   by (oracle: read off the dial address when a connection was dialled, else name#?), [member] / [mname] the backend
   id and the name of the member that served it; the id must be one of that member: mname # join-number *)
| CFwdG (rc : hr_route) (member : Z) (mname : bytes) (uq : hr_req) (reenc : bytes) (seen : c02_seen) (dial : option bytes) (resp got : hr_resp)
(* group g1/alpha closed, another group registered on the same triple (variant 0: member of another name, 1: same
   name): backend reached before, backend reached after, status after *)
| CRegroup (variant first second status : Z)
(* one member's dial stalls while a third member joins: probes sent, probes answered within the bound, ms the
   join took (-1: not within the bound), bound *)
| CGroupStall (probes answered join_ms bound : Z)
(* a large close-delimited answer through frps <-quic-> frpc: size, status, digests sent / received *)
| CQuic (size status : Z) (sent got : bytes)
(* a request through frps (route rc) and then a plugin of frpc *)
| CChain (rc : hr_route) (p : hr_plugin) (o : hr_popts) (plugin_client_ip : option bytes)
         (uq : hr_req) (reenc : bytes) (seen : c02_seen) (resp got : hr_resp).

Definition c02_header_of (k : bytes) (h : hr_hdrs) : bytes := hr_first (hr_get k h).

(* compare a predicted outgoing request with the backend's log; codes 1.. *)
Definition c02_check_seen (via_proxy : bool) (pred : hr_req) (seen : c02_seen) (expect_route : Z) : Z :=
  let sh := c02_canon_hdrs (sn_hdrs seen) in
  if negb (bytes_eqb (sn_method seen) (hq_method pred)) then 1
  else if negb (bytes_eqb (sn_target seen) (hr_wire_target via_proxy pred)) then 2
  else if negb (c02_list_eqb (hr_get (hr_b "Host") sh) [hq_host pred]) then 3
  else if negb (c02_hdrs_eqb_except (fun k => hr_mem k c02_req_framing) (hr_wire_hdrs pred) sh) then 4
  else if negb (bytes_eqb (sn_body seen) (hq_body pred)) then 5
  else if negb (sn_route seen =? expect_route) then 7
  else 0.

(* compare the predicted answer with what the user received; codes 11.. *)
Definition c02_check_got (pred got : hr_resp) : Z :=
  let gh := c02_canon_hdrs (hs_hdrs got) in
  let ph := hs_hdrs pred in
  if negb (hs_status got =? hs_status pred) then 11
  else if negb (c02_hdrs_eqb_except
                  (fun k => hr_mem k c02_resp_framing ||
                            (hr_mem k c02_srv_defaults && match hr_get k ph with [] => true | _ => false end) ||
                            (* net/http's server never sends Content-Type with a 304 *)
                            ((hs_status pred =? 304) && bytes_eqb k (hr_b "Content-Type")))
                  ph gh) then 12
  else if negb (bytes_eqb (hs_body got) (hs_body pred)) then 13
  else 0.

(* the property itself, read off the observation without the model (monitor): codes 21.. *)
Definition c02_declared (cfg : list (bytes * bytes)) (k : bytes) : bool :=
  match hr_last_for k cfg with Some _ => true | None => false end.

Definition c02_monitor_req (cfg : list (bytes * bytes)) (uq : hr_req) (seen : c02_seen) : Z :=
  let ih := hq_hdrs (c02_in_req uq) in
  let sh := c02_canon_hdrs (sn_hdrs seen) in
  if negb (bytes_eqb (sn_method seen) (hq_method uq)) then 21
  else if negb (bytes_eqb (sn_body seen) (hq_body uq)) then 22
  else if negb (forallb (fun kv =>
            let k := fst kv in
            hr_mem k (hr_hop_keys ih) || hr_mem k hr_forwarding_family || hr_mem k c02_req_framing ||
            c02_declared cfg k || c02_list_eqb (hr_get k ih) (hr_get k sh)) ih) then 23
  else if negb (forallb (fun kv =>
            match hr_last_for (hr_canon (fst kv)) cfg with
            | Some v => c02_list_eqb (hr_get (hr_canon (fst kv)) sh) [v] || hr_mem (hr_canon (fst kv)) c02_req_framing
            | None => true
            end) cfg) then 24
  else 0.

Definition c02_monitor_resp (cfg : list (bytes * bytes)) (resp got : hr_resp) : Z :=
  let rh := c02_canon_hdrs (hs_hdrs resp) in
  let gh := c02_canon_hdrs (hs_hdrs got) in
  if negb (hs_status got =? hs_status resp) then 26
  else if negb (bytes_eqb (hs_body got) (hs_body resp)) then 27
  else if negb (forallb (fun kv =>
            let k := fst kv in
            hr_mem k (hr_hop_keys rh) || hr_mem k c02_resp_framing || c02_declared cfg k ||
            ((hs_status resp =? 304) && bytes_eqb k (hr_b "Content-Type")) ||
            c02_list_eqb (hr_get k rh) (hr_get k gh)) rh) then 28
  else if negb (forallb (fun kv =>
            match hr_last_for (hr_canon (fst kv)) cfg with
            | Some v => c02_list_eqb (hr_get (hr_canon (fst kv)) gh) [v] || hr_mem (hr_canon (fst kv)) c02_resp_framing ||
                        ((hs_status resp =? 304) && bytes_eqb (hr_canon (fst kv)) (hr_b "Content-Type"))
            | None => true
            end) cfg) then 29
  else 0.

Definition c02_first_nonzero (l : list Z) : Z :=
  match filter (fun z => negb (z =? 0)) l with [] => 0 | z :: _ => z end.

Definition c02_canon_resp (r : hr_resp) : hr_resp :=
  {| hs_status := hs_status r; hs_hdrs := c02_canon_hdrs (hs_hdrs r); hs_body := hs_body r |}.

(* the request a plugin's HTTP server reads from what frps's transport wrote *)
Definition c02_relay (via_proxy : bool) (o : hr_req) (client_ip : option bytes) : hr_req :=
  {| hq_method := hq_method o; hq_path := hq_path o; hq_hasq := hq_hasq o; hq_query := hq_query o;
     hq_host := hq_host o; hq_hdrs := hr_wire_hdrs o; hq_body := hq_body o; hq_client_ip := client_ip;
     hq_tls := false; hq_scheme := if via_proxy then hq_scheme o else [];
     hq_urlhost := if via_proxy then hq_host o else [] |}.

Definition check_case (c : case) : Z :=
  match c with
  | CFwd rc uq reenc seen dial remote_ok resp got =>
      let i := c02_in_req uq in
      let via_proxy := negb (hr_is_empty (hq_urlhost i)) in
      let pred := hr_backend_view (Some rc) reenc i in
      c02_first_nonzero
        [ c02_check_seen via_proxy pred seen (hc_id rc);
          (if c02_opt_eqb dial (hq_urlhost pred ++ hr_b ":80") then 0 else 6);
          (if remote_ok then 0 else 8);
          c02_check_got (hr_std_resp (Some rc) (c02_canon_resp resp)) got;
          c02_monitor_req (hc_headers rc) uq seen;
          (if hr_query_clean (hq_query uq) then
             (if bytes_eqb (sn_target seen) (hr_wire_target via_proxy
                   (hr_with i (hr_host_rule (hc_rewrite_host rc) (hq_host i)) [] (hr_b "http") [])) then 0 else 25)
           else 0);
          c02_monitor_resp (hc_resp_headers rc) resp got ]
  | CErr e deflt custom got_status got_body elapsed bound other_ok =>
      let '(st, body) := hr_error_map (hr_not_found_content deflt custom) e in
      if negb (got_status =? st) then 31
      else if negb (bytes_eqb got_body body) then 32
      else if negb (elapsed <=? bound) then 33
      else if negb other_ok then 34
      else 0
  | CAdmit kind k held same_status same_ms other_status other_ms bound =>
      (* the model with today's transport literal: k requests of one route, then the two probes *)
      match ht_max_conns gen_vhost_transport_fields with
      | None => 60
      | Some max =>
          let key := hr_b "route" in
          let outs := ht_run max [] (repeat (HtRequest key) (Z.to_nat k) ++ [HtRequest key; HtRequest (hr_b "other")]) in
          let queued := existsb ht_is_queued outs in
          if negb (held =? k) then (if queued then 0 else 61)        (* some of the k never reached the backend *)
          else if queued then 62                                     (* model says waiting, all were admitted *)
          else if negb ((same_status =? 200) && (same_ms <=? bound)) then 63
          else if negb ((other_status =? 200) && (other_ms <=? bound)) then 64
          else 0
      end
  | COverlap k a_status a_sent a_seen b_ok ms bound =>
      if negb (a_status =? 200) then 71
      else if negb (bytes_eqb a_sent a_seen) then 72
      else if negb (b_ok =? k) then 73
      else if negb (ms <=? bound) then 74
      else 0
  | CAged timeout chunks got req_ages answered =>
      match mx_at_handoff gen_mux_handle_ops (false, false) with
      | Some (rd, wr) =>
          if negb (bytes_eqb (mx_deliver wr timeout chunks) got) then 81
          else if negb (rd || wr) && negb (mx_reads rd timeout req_ages =? answered) then 82
          else 0
      | None => 80
      end
  | CBigHead head_bytes status sent seen =>
      match hsv_head_admitted gen_vhost_server_fields head_bytes with
      | Some true => if negb (status =? 200) then 91 else if negb (bytes_eqb sent seen) then 92 else 0
      | Some false => if status =? 431 then 0 else 93
      | None => 90
      end
  | CLimited kind limit size status sent got ms =>
      if negb (status =? 200) then 95
      else if negb (bytes_eqb sent got) then 96
      else 0
  | CFwdG rc member mname uq reenc seen dial resp got =>
      let i := c02_in_req uq in
      let via_proxy := negb (hr_is_empty (hq_urlhost i)) in
      (* the endpoint the key carries is what today's glue makes of the chosen member *)
      let chosen := match hc_endpoint rc with Some e => e | None => [] end in
      let rc' := {| hc_domain := hc_domain rc; hc_location := hc_location rc; hc_user := hc_user rc;
                    hc_rewrite_host := hc_rewrite_host rc; hc_headers := hc_headers rc; hc_resp_headers := hc_resp_headers rc;
                    hc_endpoint := Some (hg_key_endpoint gen_group_glue chosen); hc_id := hc_id rc |} in
      let pred := hr_backend_view (Some rc') reenc i in
      c02_first_nonzero
        [ c02_check_seen via_proxy pred seen member;
          (if c02_opt_eqb dial (hq_urlhost (hr_backend_view (Some rc) reenc i) ++ hr_b ":80") then 0 else 6);
          (if is_prefix (mname ++ [x23]) chosen then 0 else 9);
          c02_check_got (hr_std_resp (Some rc) (c02_canon_resp resp)) got;
          c02_monitor_req (hc_headers rc) uq seen;
          c02_monitor_resp (hc_resp_headers rc) resp got ]
  | CRegroup variant first second status =>
      (* every join has its own endpoint id, hence its own pool key: the request after the regrouping reaches the
         new member's backend, whatever its name *)
      let expect := 2 in
      if negb (first =? 1) then 101 else if negb (second =? expect) then 102 else if negb (status =? 200) then 103 else 0
  | CGroupStall probes answered join_ms bound =>
      (* with three members in turn at most every third request meets the stalling one *)
      if (join_ms <? 0) || (bound <? join_ms) then 105
      else if answered * 2 <? probes then 106
      else 0
  | CQuic size status sent got =>
      if negb (status =? 200) then 108 else if negb (bytes_eqb sent got) then 109 else 0
  | CKeep compressed answered =>
      (* [pending] (was the server's background read in flight when the handler returned) is an oracle: it is
         read off the observation (the next request got no answer <-> the read had been interrupted); the model
         then has to reproduce the whole sequence: without compression every request answered, with compression
         answers up to the first interrupted read and none after it *)
      let pendings := map negb (tl answered) ++ [true] in
      let pred := hk_serve (hk_fresh compressed) pendings in
      if forallb (fun ab => Bool.eqb (fst ab) (snd ab)) (combine pred answered) then 0 else 51
  | CTunnel kind accepted us ur ds dr =>
      if negb accepted then 41
      else if negb (bytes_eqb us ur) then 42
      else if negb (bytes_eqb ds dr) then 43
      else 0
  | CPlug p o uq reenc seen resp got =>
      let i := c02_in_req uq in
      let pred := hr_plugin_backend_view p o reenc i in
      c02_first_nonzero
        [ c02_check_seen false pred seen 0;
          c02_check_got {| hs_status := hs_status resp; hs_hdrs := hr_remove_hop (c02_canon_hdrs (hs_hdrs resp));
                           hs_body := hs_body resp |} got;
          c02_monitor_resp [] resp got ]
  | CChain rc p o pip uq reenc seen resp got =>
      let i := c02_in_req uq in
      let via_proxy := negb (hr_is_empty (hq_urlhost i)) in
      let mid := hr_backend_view (Some rc) reenc i in
      let pred := hr_plugin_backend_view p o (hq_query mid) (c02_relay via_proxy mid pip) in
      c02_first_nonzero
        [ c02_check_seen false pred seen 0;
          c02_check_got (hr_std_resp (Some rc)
                           {| hs_status := hs_status resp; hs_hdrs := hr_remove_hop (c02_canon_hdrs (hs_hdrs resp));
                              hs_body := hs_body resp |}) got;
          c02_monitor_resp (hc_resp_headers rc) resp got ]
  end.

(* counters for the evidence: which model branches the cases reached *)
Definition is_fwd (c : case) : bool := match c with CFwd _ _ _ _ _ _ _ _ => true | _ => false end.
Definition c02_fwd (f : hr_route -> hr_req -> c02_seen -> hr_resp -> bool) (c : case) : bool :=
  match c with CFwd rc uq _ seen _ _ resp _ => f rc uq seen resp | _ => false end.
Definition has_rewrite_host := c02_fwd (fun rc _ _ _ => negb (hr_is_empty (hc_rewrite_host rc))).
Definition has_set_headers := c02_fwd (fun rc _ _ _ => match hc_headers rc with [] => false | _ => true end).
Definition has_resp_headers := c02_fwd (fun rc _ _ _ => match hc_resp_headers rc with [] => false | _ => true end).
Definition has_incoming_xff := c02_fwd (fun _ uq _ _ => match hr_get hr_XFF (c02_canon_hdrs (hq_hdrs uq)) with [] => false | _ => true end).
Definition has_multi_xff := c02_fwd (fun _ uq _ _ => match hr_get hr_XFF (c02_canon_hdrs (hq_hdrs uq)) with _ :: _ :: _ => true | _ => false end).
Definition has_hop := c02_fwd (fun _ uq _ _ => match hr_connection_listed (c02_canon_hdrs (hq_hdrs uq)) with [] => false | _ => true end).
Definition has_unclean_query := c02_fwd (fun _ uq _ _ => negb (hr_query_clean (hq_query uq))).
Definition has_absform := c02_fwd (fun _ uq _ _ => negb (hr_is_empty (hq_urlhost uq))).
Definition has_declared_overrides_user :=
  c02_fwd (fun rc uq _ _ => existsb (fun kv => c02_declared (hc_headers rc) (fst kv)) (c02_canon_hdrs (hq_hdrs uq))).
Definition has_collision := c02_fwd (fun rc _ _ _ =>
  negb (length (nodup (list_eq_dec Byte.byte_eq_dec) (hr_ckeys (hc_headers rc))) =? length (hc_headers rc))%nat).
Definition is_err504 (c : case) : bool := match c with CErr HrErrNetTimeout _ _ _ _ _ _ _ => true | _ => false end.
Definition is_err404 (c : case) : bool := match c with CErr HrErrNetTimeout _ _ _ _ _ _ _ => false | CErr _ _ _ _ _ _ _ _ => true | _ => false end.
Definition is_plug (p : hr_plugin) (c : case) : bool :=
  match c, p with
  | CPlug HrH2H _ _ _ _ _ _, HrH2H | CPlug HrH2HS _ _ _ _ _ _, HrH2HS
  | CPlug HrHS2H _ _ _ _ _ _, HrHS2H | CPlug HrHS2HS _ _ _ _ _ _, HrHS2HS => true
  | _, _ => false
  end.
Definition is_chain (c : case) : bool := match c with CChain _ _ _ _ _ _ _ _ _ => true | _ => false end.
Definition is_tunnel (k : Z) (c : case) : bool := match c with CTunnel k' _ _ _ _ _ => k' =? k | _ => false end.
Definition is_keep (comp : bool) (c : case) : bool := match c with CKeep k _ => Bool.eqb k comp | _ => false end.
Definition keep_lost (c : case) : bool := match c with CKeep _ a => existsb negb a | _ => false end.
Definition is_admit (kind : Z) (c : case) : bool := match c with CAdmit k' _ _ _ _ _ _ _ => k' =? kind | _ => false end.
Definition is_overlap (c : case) : bool := match c with COverlap _ _ _ _ _ _ _ => true | _ => false end.
Definition is_aged (c : case) : bool :=
  match c with CAged t chunks _ ages _ => existsb (fun ch => t <=? fst ch) chunks && existsb (fun a => t <=? a) ages | _ => false end.
Definition is_bighead (c : case) : bool := match c with CBigHead n _ _ _ => 20480 <? n | _ => false end.
Definition is_limited (c : case) : bool := match c with CLimited _ l s _ _ _ _ => l <? s | _ => false end.
Definition is_fwdg (c : case) : bool := match c with CFwdG _ _ _ _ _ _ _ _ _ => true | _ => false end.
Definition is_regroup (c : case) : bool := match c with CRegroup _ _ _ _ => true | _ => false end.
Definition is_groupstall (c : case) : bool := match c with CGroupStall _ _ _ _ => true | _ => false end.
Definition is_quic (c : case) : bool := match c with CQuic s _ _ _ => 1000000 <? s | _ => false end.
