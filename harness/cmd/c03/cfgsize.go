package main

// Part "cfgsize": the udp packet size AS CONFIGURED, in every configuration format, is the size used on both sides.
// Real files (TOML and LEGACY INI) are loaded by the real loader (pkg/config LoadServerConfig / LoadClientConfig); the
// loaded sizes go into an in-process frps + frpc; payloads above 1500 up to exactly the configured size must reach the
// backend and come back unchanged.

import (
	"fmt"
	"net"
	"os"
	"path/filepath"
	"time"

	"github.com/fatedier/frp/pkg/config"
	v1 "github.com/fatedier/frp/pkg/config/v1"
	"verifharness/hx"
)

func runCfgSize(cfg *hx.RunCfg, g *hx.Gen, dist map[string]int, fails *[]failure) []string {
	dir, err := os.MkdirTemp("", "c03cfg")
	if err != nil {
		addFail(fails, fail("cfgsize:setup", err.Error(), ""))
		return nil
	}
	defer os.RemoveAll(dir)
	size := []int{4096, 3000, 2048}[g.Intn(3)]
	enc, comp := g.Chance(0.5), g.Chance(0.5)
	var cases []string
	for format, name := range []string{"toml", "legacy-ini"} {
		cs, fs := cfgTunnel(dir, format, name, size, enc, comp, g, dist)
		cases = append(cases, cs...)
		for _, f := range fs {
			addFail(fails, f)
		}
	}
	return cases
}

// cfgTunnel: backend and frps first (their ports go into the files), then the files, the real loader, and a frps + frpc
// that use what the loader returned: the packet sizes and the udp proxy definition.
func cfgTunnel(dir string, format int, name string, size int, enc, comp bool, g *hx.Gen, dist map[string]int) (cases []string, fs []failure) {
	srvIP := fmt.Sprintf("127.0.3.%d", 94+format)
	w, err := newWorld("127.0.3.5", 2)
	if err != nil {
		return nil, []failure{fail("cfgsize:setup", err.Error(), "")}
	}
	defer w.close()
	remotePort := hx.FreeUDPPort(srvIP)
	pname := fmt.Sprintf("c03cfg%d", format)
	var srvText, cliText string
	if format == 0 {
		srvText = fmt.Sprintf("bindPort = 7000\nudpPacketSize = %d\n", size)
		cliText = fmt.Sprintf("serverAddr = \"127.0.0.1\"\nserverPort = 7000\nudpPacketSize = %d\n\n[[proxies]]\nname = \"%s\"\ntype = \"udp\"\n"+
			"localIP = \"127.0.3.5\"\nlocalPort = %d\nremotePort = %d\ntransport.useEncryption = %v\ntransport.useCompression = %v\n",
			size, pname, w.backendAddr().Port, remotePort, enc, comp)
	} else {
		srvText = fmt.Sprintf("[common]\nbind_port = 7000\nudp_packet_size = %d\n", size)
		cliText = fmt.Sprintf("[common]\nserver_addr = 127.0.0.1\nserver_port = 7000\nudp_packet_size = %d\n\n[%s]\ntype = udp\n"+
			"local_ip = 127.0.3.5\nlocal_port = %d\nremote_port = %d\nuse_encryption = %v\nuse_compression = %v\n",
			size, pname, w.backendAddr().Port, remotePort, enc, comp)
	}
	ext := []string{".toml", ".ini"}[format]
	sp, cp := filepath.Join(dir, "frps"+ext), filepath.Join(dir, "frpc"+ext)
	_ = os.WriteFile(sp, []byte(srvText), 0o644)
	_ = os.WriteFile(cp, []byte(cliText), 0o644)
	sc, _, err1 := config.LoadServerConfig(sp, true)
	cc, pxs, _, _, err2 := config.LoadClientConfig(cp, true)
	if err1 != nil || err2 != nil || sc == nil || cc == nil || len(pxs) != 1 {
		return nil, []failure{fail("cfgsize:setup", fmt.Sprintf("%s: load: %v %v (%d proxies)", name, err1, err2, len(pxs)), "")}
	}
	line := fmt.Sprintf("CCfgSize %d %d %d %d", format, size, cc.UDPPacketSize, sc.UDPPacketSize)
	cases = append(cases, line)
	hx.CountBy(dist, fmt.Sprintf("cfgsize %s configured=%d client=%d server=%d enc=%v comp=%v", name, size, cc.UDPPacketSize, sc.UDPPacketSize, enc, comp))
	if int(cc.UDPPacketSize) != size || int(sc.UDPPacketSize) != size {
		fs = append(fs, fail("cfgsize:not-as-configured", fmt.Sprintf("%s file with udp packet size %d: the loader gives frpc %d and frps %d",
			name, size, cc.UDPPacketSize, sc.UDPPacketSize), line))
	}
	pc, ok := pxs[0].(*v1.UDPProxyConfig)
	same := ok && pc.Name == pname && pc.LocalIP == "127.0.3.5" && pc.LocalPort == w.backendAddr().Port && pc.RemotePort == remotePort &&
		pc.Transport.UseEncryption == enc && pc.Transport.UseCompression == comp
	line2 := fmt.Sprintf("CCfgSize %d 1 %d 1", 10+format, map[bool]int{true: 1, false: 0}[same])
	cases = append(cases, line2)
	if !same {
		fs = append(fs, fail("cfgsize:proxy-not-as-configured", fmt.Sprintf("%s file: the udp proxy the loader returns differs from the file (name/localIP/localPort/remotePort/useEncryption/useCompression): %+v", name, pxs[0]), line2))
		return cases, fs
	}
	s, err := hx.StartServer(srvIP, func(c *v1.ServerConfig) { c.UDPPacketSize = sc.UDPPacketSize })
	if err != nil {
		if s != nil {
			s.Close()
		}
		return cases, append(fs, fail("cfgsize:setup", "frps: "+err.Error(), ""))
	}
	defer s.Close()
	c, err := s.StartClient([]v1.ProxyConfigurer{pc}, nil, func(c2 *v1.ClientCommonConfig) { c2.UDPPacketSize = cc.UDPPacketSize })
	if err != nil {
		return cases, append(fs, fail("cfgsize:setup", "frpc: "+err.Error(), ""))
	}
	defer c.Close()
	if !c.WaitProxyRunning(pc.Name, 5*time.Second) {
		return cases, append(fs, fail("cfgsize:setup", "proxy did not reach phase running", ""))
	}
	target := &net.UDPAddr{IP: net.ParseIP(srvIP), Port: pc.RemotePort}
	var sends []send
	up := false
	for t0 := time.Now(); time.Since(t0) < 10*time.Second && !up; {
		sends = append(sends, send{0, 1, mkPayload(g, 0, len(sends), 8+g.Intn(16))})
		idxs := w.sendBurst(sends, len(sends)-1, target)
		up = waitUntil(100*time.Millisecond, func() bool { return w.allDone(idxs) })
	}
	if !up {
		return cases, append(fs, fail("cfgsize:not-established", "no datagram got through within 10 s", ""))
	}
	time.Sleep(150 * time.Millisecond)
	for i, n := range []int{1501, size} {
		u := i % 2
		sends = append(sends, send{u, 2, mkPayload(g, u, len(sends), n)})
		idxs := w.sendBurst(sends, len(sends)-1, target)
		waitUntil(arriveWait, func() bool { return w.allDone(idxs) })
	}
	time.Sleep(30 * time.Millisecond)
	ov := w.observe(nil, nil)
	line3 := fmt.Sprintf("CSys %d 2 %s %s %s", 200+format, coqSends(sends), ov.backend, ov.urecv)
	cases = append(cases, line3)
	for _, f := range dedupe(w.monitor("cfgsize", sends, false)) {
		fs = append(fs, fail(f.key, fmt.Sprintf("%s configuration, udp packet size %d on both sides: %s", name, size, f.what), clip(line3, 1500)))
	}
	return cases, fs
}
