(* C18 — for every interleaving of loads, a load answers "rejected" exactly when it is strict and
   its document has an unknown key at some level — provided the lock covers the decode. *)
From FRP Require Import Model.StrictLoad.
From Coq Require Import Lia.
Open Scope Z_scope.

Lemma nth_upd_same {A} (l : list A) i x y : nth_error l i = Some y -> nth_error (sl_upd i x l) i = Some x.
Proof. revert i. induction l as [|a l IH]; intros [|i]; cbn; try discriminate; auto. Qed.

Lemma nth_upd_other {A} (l : list A) i j x : i <> j -> nth_error (sl_upd i x l) j = nth_error l j.
Proof.
  revert i j. induction l as [|a l IH]; intros [|i] [|j] H; cbn; try reflexivity; try congruence.
  apply IH. congruence.
Qed.

Definition th_inv (mu : option nat) (sw : bool) (i : nat) (t : sl_thread) : Prop :=
  let l := sl_ld t in
  match sl_todo t with
  | ALock :: rest =>
      mu <> Some i /\ sl_rej t = false /\ rest = ASet :: ATop :: map ANested (sl_nested l) ++ [AUnlock]
  | ASet :: rest =>
      mu = Some i /\ sl_rej t = false /\ rest = ATop :: map ANested (sl_nested l) ++ [AUnlock]
  | ATop :: rest =>
      mu = Some i /\ sw = sl_strict l /\ sl_rej t = false /\ rest = map ANested (sl_nested l) ++ [AUnlock]
  | ANested u :: rest =>
      mu = Some i /\ sw = sl_strict l /\
      exists seen todo, sl_nested l = seen ++ u :: todo /\ rest = map ANested todo ++ [AUnlock] /\
                        sl_rej t = sl_strict l && (sl_top l || existsb (fun b => b) seen)
  | AUnlock :: rest => rest = [] /\ mu = Some i /\ sl_rej t = sl_verdict l
  | [] => mu <> Some i /\ sl_rej t = sl_verdict l
  | ABad :: _ => False
  end.

Definition st_inv (s : sl_state) : Prop :=
  sl_crashed s = false /\
  forall i t, nth_error (sl_ths s) i = Some t -> th_inv (sl_mu s) (sl_sw s) i t.

(* a goroutine that does not hold the mutex is not affected by what the holder does *)
Lemma th_inv_idle mu sw i t mu' sw' :
  th_inv mu sw i t -> mu <> Some i -> mu' <> Some i -> th_inv mu' sw' i t.
Proof.
  unfold th_inv. destruct (sl_todo t) as [|[| | | |u|] rest]; intros H Hm Hm'; tauto.
Qed.

(* after the top level: either the unlock is next, or the first nested element *)
Lemma after_prefix_inv i t l rej seen todo :
  sl_ld t = l -> sl_nested l = seen ++ todo ->
  rej = sl_strict l && (sl_top l || existsb (fun b => b) seen) ->
  th_inv (Some i) (sl_strict l) i (mk_sl_thread l (map ANested todo ++ [AUnlock]) rej).
Proof.
  intros Hl Hn Hr. unfold th_inv. cbn [sl_ld sl_todo sl_rej]. destruct todo as [|u todo]; cbn [map app].
  - repeat split; auto. unfold sl_verdict, sl_has_unknown. rewrite Hn, app_nil_r. exact Hr.
  - repeat split; auto. exists seen, todo. auto.
Qed.

Lemma step_inv tid s : st_inv s -> st_inv (sl_step tid s).
Proof.
  intros Hs0. pose proof Hs0 as [Hc Hall]. unfold sl_step.
  destruct (nth_error (sl_ths s) tid) as [t|] eqn:Et; [|exact Hs0].
  pose proof (Hall tid t Et) as Ht. unfold th_inv in Ht.
  destruct (sl_todo t) as [|a rest] eqn:Etodo; [exact Hs0|].
  set (l := sl_ld t) in *.
  (* the other goroutines *)
  assert (Hother : forall mu' sw' x,
             (sl_mu s = Some tid \/ (sl_mu s = None /\ (mu' = Some tid \/ mu' = None))) ->
             (sl_mu s = Some tid -> mu' = Some tid \/ mu' = None) ->
             th_inv mu' sw' tid x ->
             forall i t', nth_error (sl_upd tid x (sl_ths s)) i = Some t' -> th_inv mu' sw' i t').
  { intros mu' sw' x Hmu Hmu' Hx i t' Hi. destruct (Nat.eq_dec tid i) as [<-|Hne].
    - rewrite (nth_upd_same _ _ _ _ Et) in Hi. injection Hi as <-. exact Hx.
    - rewrite (nth_upd_other _ _ _ _ Hne) in Hi. apply (th_inv_idle (sl_mu s) (sl_sw s)); [exact (Hall i t' Hi)| |].
      + destruct Hmu as [-> | [-> _]]; congruence.
      + destruct Hmu as [Hm | [_ [-> | ->]]]; [destruct (Hmu' Hm) as [-> | ->]|..]; congruence. }
  destruct a as [| | | |u|].
  - (* ALock *)
    destruct Ht as (Hm & Hr & Hrest).
    destruct (sl_mu s) as [h|] eqn:Emu; [exact Hs0|].
    split; [exact Hc|]. cbn [sl_mu sl_sw sl_ths]. apply Hother; [right; auto|discriminate|].
    unfold th_inv. cbn [sl_ld sl_todo sl_rej]. rewrite Hrest. auto.
  - (* ASet *)
    destruct Ht as (Hm & Hr & Hrest).
    split; [exact Hc|]. cbn [sl_mu sl_sw sl_ths]. apply Hother; [left; exact Hm|intros _; left; exact Hm|].
    unfold th_inv. cbn [sl_ld sl_todo sl_rej]. rewrite Hrest, Hm. auto.
  - (* AUnlock *)
    destruct Ht as (Hrest & Hm & Hr). rewrite Hm.
    split; [exact Hc|]. cbn [sl_mu sl_sw sl_ths]. apply Hother; [left; exact Hm|intros _; right; reflexivity|].
    unfold th_inv. cbn [sl_ld sl_todo sl_rej]. rewrite Hrest. split; [discriminate|exact Hr].
  - (* ATop *)
    destruct Ht as (Hm & Hs & Hr & Hrest).
    split; [exact Hc|]. cbn [sl_mu sl_sw sl_ths]. apply Hother; [left; exact Hm|intros _; left; exact Hm|].
    rewrite Hm, Hs, Hrest. apply (after_prefix_inv tid t l _ [] (sl_nested l)); auto.
    rewrite Hr. cbn. destruct (sl_strict l), (sl_top l); reflexivity.
  - (* ANested *)
    destruct Ht as (Hm & Hs & seen & todo & Hn & Hrest & Hr).
    split; [exact Hc|]. cbn [sl_mu sl_sw sl_ths]. apply Hother; [left; exact Hm|intros _; left; exact Hm|].
    rewrite Hm, Hs, Hrest. apply (after_prefix_inv tid t l _ (seen ++ [u]) todo); auto.
    + rewrite Hn, <- app_assoc. reflexivity.
    + rewrite Hr, existsb_app. cbn.
      destruct (sl_strict l), (sl_top l), (existsb (fun b => b) seen), u; reflexivity.
  - contradiction.
Qed.

Lemma init_inv sw0 loads : st_inv (sl_init sl_canonical sw0 loads).
Proof.
  split; [reflexivity|]. intros i t Hi. cbn [sl_init sl_ths sl_mu sl_sw] in *.
  rewrite nth_error_map in Hi. destruct (nth_error loads i) as [l|]; [|discriminate].
  injection Hi as <-. unfold th_inv. cbn [sl_ld sl_todo sl_rej sl_acts sl_canonical flat_map app].
  repeat split; discriminate.
Qed.

Lemma run_inv sched s : st_inv s -> st_inv (sl_run sched s).
Proof.
  revert s. induction sched as [|tid r IH]; intros s H; [exact H|]. cbn. apply IH, step_inv, H.
Qed.

(* For every number of loads, every initial value of the switch and EVERY schedule: the process does
   not crash, and each load that has returned answered "rejected" exactly when it was strict and its
   document has an unknown key at the top level or in any nested typed element. *)
Theorem strict_every_level_all_schedules sw0 loads sched :
  let s := sl_run sched (sl_init sl_canonical sw0 loads) in
  sl_crashed s = false /\
  forall i t, nth_error (sl_ths s) i = Some t -> sl_todo t = [] -> sl_rej t = sl_verdict (sl_ld t).
Proof.
  cbv zeta. destruct (run_inv sched _ (init_inv sw0 loads)) as [Hc Hall]. split; [exact Hc|].
  intros i t Hi Hdone. specialize (Hall i t Hi). unfold th_inv in Hall. rewrite Hdone in Hall. tauto.
Qed.

(* the loads do not change identity: the i-th goroutine still carries the i-th load *)
Lemma step_loads tid s : map sl_ld (sl_ths (sl_step tid s)) = map sl_ld (sl_ths s).
Proof.
  unfold sl_step. destruct (nth_error (sl_ths s) tid) as [t|] eqn:Et; [|reflexivity].
  assert (U : forall todo r, map sl_ld (sl_upd tid (mk_sl_thread (sl_ld t) todo r) (sl_ths s)) = map sl_ld (sl_ths s)).
  { intros todo r. revert tid Et. induction (sl_ths s) as [|a l IH]; intros [|k] E; cbn in *; try discriminate.
    - injection E as ->. reflexivity.
    - f_equal. now apply IH. }
  destruct (sl_todo t) as [|[| | | |u|] rest]; try reflexivity; cbn [sl_ths]; try apply U;
    destruct (sl_mu s); cbn [sl_ths]; try reflexivity; apply U.
Qed.

Lemma run_loads sched s : map sl_ld (sl_ths (sl_run sched s)) = map sl_ld (sl_ths s).
Proof. revert s. induction sched as [|tid r IH]; intros s; [reflexivity|]. cbn. now rewrite IH, step_loads. Qed.

(* tie to the source: what the reflective obligation over the translator's tables gives *)
Lemma discipline_gives_canonical events su mu :
  sl_discipline_ok events su mu = true -> sl_prog_of events false = sl_canonical.
Proof.
  unfold sl_discipline_ok. intros H. apply andb_true_iff in H. destruct H as [H _].
  revert H. generalize (sl_prog_of events false). unfold sl_canonical.
  intros p. repeat (destruct p as [|[] p]; cbn; try discriminate). reflexivity.
Qed.

Theorem strict_all_schedules_of_discipline events su mu :
  sl_discipline_ok events su mu = true ->
  forall sw0 loads sched,
  let s := sl_run sched (sl_init (sl_prog_of events false) sw0 loads) in
  sl_crashed s = false /\
  map sl_ld (sl_ths s) = loads /\
  forall i t, nth_error (sl_ths s) i = Some t -> sl_todo t = [] -> sl_rej t = sl_verdict (sl_ld t).
Proof.
  intros H sw0 loads sched. cbv zeta. rewrite (discipline_gives_canonical _ _ _ H).
  destruct (strict_every_level_all_schedules sw0 loads sched) as [Hc Hall].
  split; [exact Hc|]. split; [|exact Hall].
  rewrite run_loads. cbn [sl_init sl_ths]. rewrite map_map. cbn [sl_ld]. apply map_id.
Qed.

(* the lock has to cover the decode: with the Unlock right after the write of the switch there is a
   schedule in which a strict load accepts a document with an unknown nested key *)
Lemma early_unlock_refuted :
  exists sched,
    let s := sl_run sched (sl_init [ILock; ISet; IUnlock; IDecode] false
                             [mk_sl_load true false [true]; mk_sl_load false false []]) in
    exists t, nth_error (sl_ths s) 0 = Some t /\ sl_todo t = [] /\ sl_rej t = false /\ sl_verdict (sl_ld t) = true.
Proof.
  exists [0; 0; 0; 1; 1; 0; 0]%nat. vm_compute. eexists. repeat split.
Qed.
