// c02: correspondence drivers for property C02 (HTTP proxying preserves requests and responses
// apart from declared rewrites).  Drivers: http (vhost.HTTPReverseProxy in isolation: forwarding,
// errors, timeouts), plugin (the four client plugins through plugin.Create), sys (in-process
// frps + real frpc: tunnel options, plugin chain, WebSocket upgrade, CONNECT).
package main

import "verifharness/hx"

var drivers = map[string]hx.DriverFn{
	"http":   driveHTTP,
	"plugin": drivePlugin,
	"sys":    driveSys,
}

func main() { hx.Main(drivers) }
