package main

import "verifharness/hx"

var drivers = map[string]hx.DriverFn{}

func main() { hx.Main(drivers) }
