(* C08 proofs, second part: the stream behind the response frame, the single-leg xtcp tunnel, the loser of a
   registration race, sufficiency of key + allowed user *)
From FRP Require Import Model.Visitor Model.VisitorPath Proofs.VisitorProofs Proofs.FrameProofs.
From Coq Require Import Lia.
Open Scope Z_scope.

Section PathLaws.
  Variable enc_wr : bytes -> list bytes -> list bytes.
  Variable enc_rd : bytes -> bytes -> bytes.
  Variable comp_wr : list bytes -> list bytes.
  Variable comp_rd : bytes -> bytes.
  Hypothesis enc_law : forall k cs, enc_rd k (List.concat (enc_wr k cs)) = List.concat cs.
  Hypothesis comp_law : forall cs, comp_rd (List.concat (comp_wr cs)) = List.concat cs.

  (* whatever arrives together with the NewVisitorConnResp frame - a backend that speaks first, the cipher's IV -
     belongs to the stream: the visitor decodes exactly the frame and unwraps everything behind it *)
  Theorem response_then_stream reg t body st chunks :
    reg t = true -> blen body <= max_len ->
    visitor_after_resp enc_rd comp_rd reg st
      (encode_frame t body ++ List.concat (stack_wr enc_wr comp_wr st chunks)) = Some (body, List.concat chunks).
  Proof.
    intros Hr Hb. unfold visitor_after_resp. rewrite (frame_roundtrip reg t body _ Hr Hb). cbn [d_body d_rest].
    now rewrite (stack_law enc_wr enc_rd comp_wr comp_rd enc_law comp_law).
  Qed.

  (* xtcp: the two ends declare the same flags and hold the same key: transparent in both directions *)
  Theorem xtcp_transparent ue uc sk chunks :
    xtcp_deliver enc_wr enc_rd comp_wr comp_rd (vstack ue uc sk) (vstack ue uc sk) chunks = List.concat chunks.
  Proof. unfold xtcp_deliver. apply (stack_law enc_wr enc_rd comp_wr comp_rd enc_law comp_law). Qed.
End PathLaws.

(* ... and with different declarations at the two ends of the single xtcp leg it is not: a cipher that sends an
   initialisation vector first is lawful, and its vector reaches a receiver that does not decrypt *)
Theorem xtcp_mismatched_flags_refuted :
  exists (enc_wr : bytes -> list bytes -> list bytes) (enc_rd : bytes -> bytes -> bytes)
         (comp_wr : list bytes -> list bytes) (comp_rd : bytes -> bytes),
    (forall k cs, enc_rd k (List.concat (enc_wr k cs)) = List.concat cs) /\
    (forall cs, comp_rd (List.concat (comp_wr cs)) = List.concat cs) /\
    exists sk chunks,
      xtcp_deliver enc_wr enc_rd comp_wr comp_rd (vstack true false sk) (vstack false false sk) chunks <> List.concat chunks.
Proof.
  exists (fun _ cs => [x00] :: cs), (fun _ s => tl s), (fun cs => cs), (fun s => s).
  split; [reflexivity|]. split; [reflexivity|]. exists [], [[x01]]. cbn. discriminate.
Qed.

Section Race.
  Variable hash : bytes -> Z -> bytes.

  (* the loser of a registration race - its Exist check said "free", then somebody else registered the name -
     fails in Run ("repeated") or in Add ("in use"), and the incumbent's registration, listener and queue are
     exactly what they were *)
  Theorem race_loser_leaves_incumbent h rid k name sk allow r :
    sp_reg (spec_of h) name = Some r ->
    exists o, sys_step hash (sys_state hash h) (SRegisterLate rid k name sk allow) = (sys_state hash h, o) /\
              (o = ONoSession \/ o = OReg VLErrRepeated \/ o = ORegErrInUse) /\
              forall n, sp_reg (spec_of (h ++ [SRegisterLate rid k name sk allow])) n = sp_reg (spec_of h) n.
  Proof.
    intros Hr. destruct (state_refines_spec hash h) as [[Hnd Hok] [Hau Har]].
    assert (Hspec : forall n, sp_reg (spec_of (h ++ [SRegisterLate rid k name sk allow])) n = sp_reg (spec_of h) n).
    { intros n. unfold spec_of. rewrite fold_left_app. cbn [fold_left spec_step].
      fold (spec_of h). rewrite Hr. now destruct (sp_user (spec_of h) rid). }
    cbn [sys_step]. destruct (vget rid (s_users (sys_state hash h))) as [u|]; [|eauto 6].
    assert (Gp : vget name (s_pxys (sys_state hash h)) <> None).
    { intros G. apply (sys_reg_none_iff _ name Hok) in G. rewrite Har, Hr in G. discriminate. }
    destruct (run_add_cases (sys_state hash h) rid k name sk (vdefault_allow allow u) Hok) as [[G _]|[_ [E Ho]]]; [contradiction|].
    destruct (sys_run_add (sys_state hash h) rid k name sk (vdefault_allow allow u)) as [s1 o1]. cbn [fst snd] in *.
    subst s1. exists o1. split; [reflexivity|]. split; [tauto|exact Hspec].
  Qed.

  (* sufficiency at the listener: the right key and an allowed user are admitted (the queue being open and not full) *)
  Theorem key_and_user_admitted_stream t name b cid ts ue uc user :
    vget name t = Some b -> vallowed (vb_allow b) user = true -> vb_closed b = false ->
    (length (vb_queue b) < vq_cap)%nat ->
    exists t', vm_new_conn hash t name cid ts (hash (vb_sk b) ts) ue uc user true = (t', VOk).
  Proof.
    intros G Ha Hc Hq. unfold vm_new_conn. rewrite G, v_bytes_eqb_refl. cbn [negb].
    rewrite refusal_test, Ha. cbn [negb]. rewrite andb_false_r, Hc. apply Nat.ltb_lt in Hq. rewrite Hq. eauto.
  Qed.
End Race.

(* ---------- every listener in the table of a reachable state is open ---------- *)
Definition vm_open (t : vtable) : Prop := forall n b, vget n t = Some b -> vb_closed b = false.

Section Open.
  Variable hash : bytes -> Z -> bytes.

  Lemma run_add_open s rid k name sk eff :
    sys_tables_ok s -> vm_open (s_vm s) -> vm_open (s_vm (fst (sys_run_add s rid k name sk eff))).
  Proof.
    intros Hok Ho. destruct (run_add_cases s rid k name sk eff Hok) as [[_ E]|[_ [E _]]]; rewrite E; [|exact Ho].
    cbn [fst]. unfold reg_state. destruct (is_hole k); [exact Ho|]. cbn [s_vm]. intros n b G.
    destruct (v_bytes_dec n name) as [->|Hne].
    - rewrite vget_cons_same in G. now injection G as <-.
    - rewrite vget_cons_other in G by assumption. now apply (Ho n).
  Qed.

  Lemma open_step s op :
    sys_inv s -> vm_open (s_vm s) -> vm_open (s_vm (fst (sys_step hash s op))).
  Proof.
    intros [Hnd Hok] Ho.
    assert (Hlogout : forall rid, vm_open (s_vm (sys_logout s rid))).
    { intros rid n b' G. unfold sys_logout in G. cbn [s_vm] in G.
      assert (Hl : forall name o k, In (name, (o, k)) (s_pxys s) ->
                     vget name (s_pxys s) = Some (o, k) \/ vget name (s_pxys s) = None)
        by (intros; left; now apply In_vget_nodup).
      destruct (close_owned_spec rid (s_pxys s) s Hok Hl) as (_ & _ & Hok' & _ & _ & Hn).
      destruct (Hn n) as [Hn1 Hn2]. destruct (owned_in (s_pxys s) rid n).
      - specialize (Hok' n). rewrite (Hn1 eq_refl) in Hok'. destruct Hok'; congruence.
      - destruct (Hn2 eq_refl) as (_ & Hv & _). rewrite Hv in G. now apply (Ho n). }
    destruct op as [rid user|rid|rid k name sk allow|rid k name sk allow|rid name|rid name ts sign ue uc cid eok|rid name ts sign pre sid dl|sid|name|rid claimed answers];
      cbn [sys_step].
    - cbn [fst]. unfold sys_login. cbn [s_vm]. apply Hlogout.
    - cbn [fst]. apply Hlogout.
    - destruct (vget rid (s_users s)) as [u|]; [|exact Ho].
      destruct (vget name (s_pxys s)); [exact Ho|]. now apply run_add_open.
    - destruct (vget rid (s_users s)) as [u|]; [|exact Ho]. now apply run_add_open.
    - destruct (vget name (s_pxys s)) as [[o' k]|]; [destruct (bytes_eqb o' rid)|]; cbn [fst]; try exact Ho.
      destruct (close_one_lookups s name k) as (_ & _ & _ & Hoth & Hk). intros n b G.
      destruct (v_bytes_dec n name) as [->|Hne].
      + destruct (is_hole k); destruct Hk as [Hk1 Hk2]; [rewrite Hk2 in G; now apply (Ho name)|congruence].
      + destruct (Hoth n Hne) as (_ & Hv & _). rewrite Hv in G. now apply (Ho n).
    - destruct (sys_resolve_user s rid) as [user|]; [|exact Ho].
      destruct (vm_new_conn hash (s_vm s) name cid ts sign ue uc user eok) as [vm' v] eqn:Ev. cbn [fst s_vm].
      destruct v; try (apply vm_new_conn_not_ok_same in Ev; [subst vm'; exact Ho|discriminate]).
      apply vm_new_conn_ok_inv in Ev as (b & G & _ & _ & _ & ->). intros n b' G'.
      destruct (v_bytes_dec n name) as [->|Hne].
      + rewrite vget_vset_same in G'. now injection G' as <-.
      + rewrite vget_vset_other in G' by assumption. now apply (Ho n).
    - destruct (vget rid (s_users s)) as [user|]; [|exact Ho].
      destruct (vnh_handle_visitor _ _ _ _ _ _ _ _ _) as [nh' v]. exact Ho.
    - exact Ho.
    - unfold vm_accept. destruct (vget name (s_vm s)) as [b|] eqn:G; [|exact Ho].
      destruct (vb_queue b) as [|c0 q]; [exact Ho|]. cbn [fst s_vm]. intros n b' G'.
      destruct (v_bytes_dec n name) as [->|Hne].
      + rewrite vget_vset_same in G'. injection G' as <-. cbn. now apply (Ho name).
      + rewrite vget_vset_other in G' by assumption. now apply (Ho n).
    - destruct (plugin_login claimed answers) as [user|]; cbn [fst]; [|exact Ho].
      unfold sys_login. cbn [s_vm]. apply Hlogout.
  Qed.

  Lemma open_run : forall h s, sys_inv s -> (exists sp, sys_abs s sp) -> vm_open (s_vm s) ->
    vm_open (s_vm (fold_left (fun s op => fst (sys_step hash s op)) h s)).
  Proof.
    induction h as [|op h IH]; intros s Hi [sp Ha] Ho; cbn [fold_left]; [exact Ho|].
    destruct (step_refines hash s sp op Hi Ha) as [Hi' Ha']. apply IH; [exact Hi'|eauto|now apply open_step].
  Qed.

  Theorem reachable_listeners_open h : vm_open (s_vm (sys_state hash h)).
  Proof.
    unfold sys_state. destruct (init_refines) as [Hi Ha]. apply open_run; [exact Hi|eauto|].
    intros n b G. discriminate.
  Qed.

  (* sufficiency over histories: a live stcp/sudp registration admits every visitor that holds its key and whose
     user is allowed, as long as the owner's accept queue is not full - whatever happened before, including refused
     duplicate registrations of the same name *)
  Theorem key_and_user_admitted_live h name r rid user ts ue uc cid :
    sp_reg (spec_of h) name = Some r -> is_hole (vr_kind r) = false ->
    spec_visitor_user (spec_of h) rid = Some user ->
    In user (vr_allow r) \/ In vstar (vr_allow r) ->
    (forall b, vget name (s_vm (sys_state hash h)) = Some b -> (length (vb_queue b) < vq_cap)%nat) ->
    exists s', sys_step hash (sys_state hash h) (SVisitorConn rid name ts (hash (vr_sk r) ts) ue uc cid true) = (s', OVis VOk).
  Proof.
    intros Hr Hk Hu Ha Hq. destruct (state_refines_spec hash h) as [[Hnd Hok] [Hau Har]].
    pose proof (reachable_listeners_open h) as Hopen.
    rewrite <- Har in Hr. unfold sys_reg in Hr. pose proof (Hok name) as Hn.
    destruct (vget name (s_pxys (sys_state hash h))) as [[o k]|]; [|discriminate].
    destruct (is_hole k) eqn:Ek.
    - destruct (vget name (nh_cfgs (s_nh (sys_state hash h)))); [|discriminate]. injection Hr as <-. cbn in Hk. congruence.
    - destruct (vget name (s_vm (sys_state hash h))) as [b|] eqn:G; [|discriminate]. injection Hr as <-.
      cbn [vr_sk vr_allow] in *. cbn [sys_step]. rewrite resolve_user_spec, Hu.
      destruct (key_and_user_admitted_stream hash (s_vm (sys_state hash h)) name b cid ts ue uc user G) as [t' E].
      + now apply vallowed_spec.
      + now apply (Hopen name).
      + now apply Hq.
      + rewrite E. eauto.
  Qed.
End Open.

(* ---------- Login plugins: the authenticated user is the one that comes out of the plugin chain ---------- *)
Lemma plugin_login_reject c : forall answers, In PReject answers -> plugin_login c answers = None.
Proof.
  intros answers. revert c. induction answers as [|a r IH]; intros c Hin; [destruct Hin|].
  destruct a; cbn; [reflexivity| |]; (destruct Hin as [H|H]; [discriminate|now apply IH]).
Qed.

(* once a plugin has rewritten the user, what the client claimed plays no part any more *)
Theorem plugin_rewrite_forgets_claim u : forall pre post c1 c2,
  plugin_login c1 (pre ++ PRewrite u :: post) = plugin_login c2 (pre ++ PRewrite u :: post).
Proof.
  induction pre as [|a pre IH]; intros post c1 c2; cbn; [reflexivity|].
  destruct a; [reflexivity|apply IH|apply IH].
Qed.

Theorem plugin_rewrite_last_wins : forall answers c u,
  ~ In PReject answers -> plugin_login c (answers ++ [PRewrite u]) = Some u.
Proof.
  induction answers as [|a r IH]; intros c u Hn; cbn; [reflexivity|].
  destruct a; [exfalso; apply Hn; now left| |]; apply IH; intros H; apply Hn; now right.
Qed.

(* the session's user - the one the allowed-users lists are checked against - is the outcome of the chain *)
Theorem session_user_is_after_plugins h rid claimed answers :
  sp_user (spec_of (h ++ [SLoginVia rid claimed answers])) rid =
  match plugin_login claimed answers with Some u => Some u | None => sp_user (spec_of h) rid end.
Proof.
  unfold spec_of. rewrite fold_left_app. cbn [fold_left spec_step].
  destruct (plugin_login claimed answers); [|reflexivity]. cbn. unfold vupd. now rewrite v_bytes_eqb_refl.
Qed.

(* ---------- the handshake deadline ---------- *)
Theorem join_reads_never_time_out evs :
  hs_armed_at HJoin false evs = Some false -> forall d t, stream_read_ok false d t = true.
Proof. reflexivity. Qed.

(* the order of the code: arm, read the response, clear, join: armed during the handshake, cleared for the stream *)
Theorem handshake_order_ok :
  hs_armed_at HReadResp false [HArm; HReadResp; HClear; HJoin] = Some true /\
  hs_armed_at HJoin false [HArm; HReadResp; HClear; HJoin] = Some false.
Proof. split; reflexivity. Qed.

(* a reset that is deferred runs after the join: the deadline stays armed and an old stream's reads fail *)
Theorem deferred_reset_refuted :
  hs_armed_at HJoin false [HArm; HDeferClear; HReadResp; HJoin] = Some true /\
  exists d t, stream_read_ok true d t = false.
Proof. split; [reflexivity|]. exists 10000, 10500. reflexivity. Qed.
