(* C20: proofs about Model/NatHoleCtl (session table of the NAT-hole controller under schedules). *)
From FRP Require Import Model.NatHoleCtl Proofs.NatHoleProofs.
From Coq Require Import Lia.
Open Scope Z_scope.

Lemma nh_NoDup_snoc {A} (l : list A) x : NoDup l -> ~ In x l -> NoDup (l ++ [x]).
Proof.
  induction l as [|a r IH]; cbn; intros H Hn; [constructor; [intros []|constructor]|].
  inversion H as [|? ? Ha Hr]; subst. constructor.
  - intros Hi. apply in_app_or in Hi. destruct Hi as [Hi|[->|[]]]; [contradiction|apply Hn; now left].
  - apply IH; [assumption|]. intros Hi. apply Hn. now right.
Qed.

Section CtlProofs.
  Variable D : nh_data.
  Variable auth : bytes -> Z -> bytes.

  (* ---- a session is created only for a correctly signed request naming a live proxy (and an allowed user) ---- *)
  Lemma ctl_find_cfg_in name l c : ctl_find_cfg name l = Some c -> In c l /\ cc_name c = name.
  Proof.
    induction l as [|x r IH]; cbn; [discriminate|].
    destruct (bytes_eqb name (cc_name x)) eqn:E.
    - intros [= <-]. apply nh_bytes_eqb_eq in E. split; [now left|congruence].
    - intros H. destruct (IH H). split; [now right|assumption].
  Qed.

  Lemma ctl_session_only_if_signed_and_live st vm tr user st' outs :
    ctl_step D auth st (EvVisitor vm tr user) = Some (st', outs) ->
    (st_sess st' = st_sess st /\ exists e, outs = [OutReply tr (nh_err_resp (vm_tid vm) e)] /\
       (e = NeNone -> vm_precheck vm = true)) \/
    (exists cfg s, In cfg (st_cfgs st) /\ cc_name cfg = vm_proxy vm /\ vm_precheck vm = false /\
       vm_signkey vm = auth (cc_sk cfg) (vm_ts vm) /\ ctl_allowed cfg user = true /\
       st_sess st' = st_sess st ++ [s] /\ ss_sid s = st_next_sid st /\ ss_vmsg s = vm /\ ss_vtr s = tr /\
       ss_chan s = cc_chan cfg /\ ss_in_table s = true /\ ss_pc s = PcNotify /\ outs = []).
  Proof.
    cbn. destruct (vm_precheck vm) eqn:Ep.
    - destruct (ctl_find_cfg (vm_proxy vm) (st_cfgs st)) as [cfg|]; [destruct (ctl_allowed cfg user)|];
        intros [= <- <-]; left; (split; [reflexivity|]); eexists; (split; [reflexivity|]); intros; reflexivity || discriminate.
    - destruct (ctl_find_cfg (vm_proxy vm) (st_cfgs st)) as [cfg|] eqn:Ef.
      2:{ intros [= <- <-]. left. split; [reflexivity|]. eexists. split; [reflexivity|discriminate]. }
      destruct (bytes_eqb (vm_signkey vm) (auth (cc_sk cfg) (vm_ts vm))) eqn:Es; cbn.
      2:{ intros [= <- <-]. left. split; [reflexivity|]. eexists. split; [reflexivity|discriminate]. }
      destruct (ctl_allowed cfg user) eqn:Ea; cbn.
      2:{ intros [= <- <-]. left. split; [reflexivity|]. eexists. split; [reflexivity|discriminate]. }
      intros [= <- <-]. right. apply ctl_find_cfg_in in Ef. destruct Ef as [Ef1 Ef2]. apply nh_bytes_eqb_eq in Es.
      eexists cfg, _. cbn. repeat split; try assumption; reflexivity.
  Qed.

  (* no other event ever adds a session *)
  Lemma ctl_update_sids t f l : (forall s, ss_sid (f s) = ss_sid s) -> map ss_sid (ctl_update t f l) = map ss_sid l.
  Proof.
    intros Hf. unfold ctl_update. rewrite map_map. apply map_ext. intros s. destruct (ss_sid s =? t); [apply Hf|reflexivity].
  Qed.

  Lemma ctl_other_events_add_no_session st e st' outs :
    ctl_step D auth st e = Some (st', outs) ->
    (forall vm tr user, e <> EvVisitor vm tr user) ->
    map ss_sid (st_sess st') = map ss_sid (st_sess st).
  Proof.
    intros H Hne. destruct e; try (exfalso; eapply Hne; reflexivity); cbn in H;
      repeat match type of H with
             | match ?x with _ => _ end = _ => destruct x eqn:?; try discriminate
             | (if ?x then _ else _) = _ => destruct x eqn:?; try discriminate
             end; injection H as <- <-; cbn; try reflexivity; apply ctl_update_sids; intros; reflexivity.
  Qed.

  (* ---- invariant: a session is in the table exactly while its HandleVisitor has not returned ---- *)
  Definition ctl_done (pc : ctl_pc) : bool := match pc with PcDoneTimeout | PcDoneComplete => true | _ => false end.
  Definition ctl_sess_ok (s : ctl_sess) : Prop := ss_in_table s = negb (ctl_done (ss_pc s)).

  Definition ctl_inv (st : ctl_state) : Prop :=
    NoDup (map ss_sid (st_sess st)) /\ Forall (fun s => ss_sid s < st_next_sid st) (st_sess st) /\
    Forall ctl_sess_ok (st_sess st) /\ nh_inv D (st_an st).

  Lemma ctl_find_some t l s : ctl_find t l = Some s -> In s l /\ ss_sid s = t.
  Proof.
    induction l as [|x r IH]; cbn; [discriminate|]. destruct (ss_sid x =? t) eqn:E.
    - intros [= <-]. split; [now left|lia].
    - intros H. destruct (IH H). split; [now right|assumption].
  Qed.

  Lemma ctl_find_unique l t s x :
    NoDup (map ss_sid l) -> ctl_find t l = Some s -> In x l -> ss_sid x = t -> x = s.
  Proof.
    induction l as [|a r IH]; cbn; intros Hnd Hf Hin Hx; [contradiction|].
    inversion Hnd as [|? ? Hna Hr]; subst. destruct (ss_sid a =? ss_sid x) eqn:E.
    - injection Hf as <-. destruct Hin as [->|Hin]; [reflexivity|].
      exfalso. apply Hna. apply in_map_iff. exists x. split; [lia|assumption].
    - destruct Hin as [->|Hin]; [lia|]. apply IH; auto.
  Qed.

  Lemma ctl_update_forall (P : ctl_sess -> Prop) t f l :
    Forall P l -> (forall x, In x l -> ss_sid x = t -> P x -> P (f x)) -> Forall P (ctl_update t f l).
  Proof.
    intros H Hf. unfold ctl_update. apply Forall_forall. intros y Hy. apply in_map_iff in Hy.
    destruct Hy as [x [<- Hx]]. rewrite Forall_forall in H.
    destruct (ss_sid x =? t) eqn:E; [apply Hf; [assumption|lia|apply H; assumption]|apply H; assumption].
  Qed.

  Lemma ctl_inv_init : ctl_inv ctl_init.
  Proof. repeat split; try constructor. apply nh_inv_nil. Qed.

  Lemma ctl_inv_ext st st' :
    st_sess st' = st_sess st -> st_next_sid st' = st_next_sid st -> st_an st' = st_an st -> ctl_inv st -> ctl_inv st'.
  Proof. unfold ctl_inv. intros -> -> ->. tauto. Qed.

  Hypothesis OK : nh_data_ok D = true.

  (* thread events: the record found is the only one with that sid; [f] keeps the sid and re-establishes ctl_sess_ok *)
  Lemma ctl_inv_update st t s f an :
    ctl_inv st -> ctl_find t (st_sess st) = Some s -> nh_inv D an ->
    (forall x, ss_sid (f x) = ss_sid x) -> ctl_sess_ok (f s) ->
    ctl_inv {| st_cfgs := st_cfgs st; st_alive := st_alive st; st_busy := st_busy st; st_closedch := st_closedch st; st_deadctl := st_deadctl st; st_next_chan := st_next_chan st; st_next_sid := st_next_sid st;
               st_sess := ctl_update t f (st_sess st); st_an := an |}.
  Proof.
    intros [H1 [H2 [H3 H4]]] Hf Han Hsid Hok. unfold ctl_inv; cbn. split; [|split; [|split]].
    - rewrite ctl_update_sids; assumption.
    - apply ctl_update_forall; [assumption|]. intros x _ _ Hx. rewrite Hsid. exact Hx.
    - apply ctl_update_forall; [assumption|]. intros x Hin Hx _.
      rewrite (ctl_find_unique _ _ _ _ H1 Hf Hin Hx). exact Hok.
    - exact Han.
  Qed.

  Lemma ctl_step_inv st e st' outs : ctl_inv st -> ctl_step D auth st e = Some (st', outs) -> ctl_inv st'.
  Proof.
    intros Hinv H. pose proof Hinv as [H1 [H2 [H3 H4]]]. destruct e; cbn in H.
    - destruct (ctl_find_cfg name (st_cfgs st)); injection H as <- <-; exact Hinv.
    - injection H as <- <-. exact Hinv.
    - (* ProxyClose *) injection H as <- <-. exact Hinv.
    - (* HandoverDone *) destruct (ctl_zin ch (st_busy st)); [|discriminate]. injection H as <- <-. exact Hinv.
    - (* LoopExit *) destruct (ctl_zin ch (st_alive st) && ctl_zin ch (st_closedch st)); [|discriminate]. injection H as <- <-. exact Hinv.
    - (* Visitor *)
      destruct (ctl_session_only_if_signed_and_live st vm tr user st' outs H)
        as [[E _]|(cfg & s & _ & _ & _ & _ & _ & E & Hsid & _ & _ & _ & Ht & Hp & _)].
      + assert (Hst : st_next_sid st' = st_next_sid st /\ st_an st' = st_an st).
        { revert H E. cbn. destruct (vm_precheck vm); repeat match goal with |- context [match ?x with _ => _ end] => destruct x end;
            intros [= <- _] E; cbn in E; try (split; reflexivity);
            exfalso; apply (f_equal (@length _)) in E; rewrite app_length in E; cbn in E; lia. }
        destruct Hst as [Hn Ha]. unfold ctl_inv. rewrite E, Hn, Ha. exact Hinv.
      + assert (Hst : st_next_sid st' = st_next_sid st + 1 /\ st_an st' = st_an st).
        { revert H E. cbn. destruct (vm_precheck vm); repeat match goal with |- context [match ?x with _ => _ end] => destruct x end;
            intros [= <- _] E; cbn in E; try (split; reflexivity);
            exfalso; apply (f_equal (@length _)) in E; rewrite app_length in E; cbn in E; lia. }
        destruct Hst as [Hn Ha]. unfold ctl_inv. rewrite E, Hn, Ha. split; [|split; [|split]].
        * rewrite map_app. cbn. apply nh_NoDup_snoc. { exact H1. }
          intros Hin. apply in_map_iff in Hin. destruct Hin as [x [Hx Hin]]. rewrite Forall_forall in H2.
          specialize (H2 _ Hin). lia.
        * apply Forall_app. split; [eapply Forall_impl; [|exact H2]; intros; cbn in *; lia|].
          constructor; [lia|constructor].
        * apply Forall_app. split; [assumption|]. constructor; [|constructor]. unfold ctl_sess_ok. now rewrite Ht, Hp.
        * assumption.
    - (* Deliver *)
      destruct (ctl_find t (st_sess st)) as [s|] eqn:Ef; [|discriminate].
      destruct (ss_pc s) eqn:Ep; try discriminate. destruct (ctl_zin (ss_chan s) (st_alive st)); [|discriminate].
      injection H as <- <-.
      apply (ctl_inv_ext (ctl_with_sess st (ctl_update t (ctl_set_pc PcWait) (st_sess st)))); try reflexivity.
      apply (ctl_inv_update st t s); try assumption; [reflexivity|].
      apply ctl_find_some in Ef. destruct Ef as [Ef _]. rewrite Forall_forall in H3. specialize (H3 _ Ef).
      unfold ctl_sess_ok in *. cbn. now rewrite H3, Ep.
    - (* GiveUp *)
      destruct (ctl_find t (st_sess st)) as [s|] eqn:Ef; [|discriminate].
      destruct (ss_pc s) eqn:Ep; try discriminate.
      injection H as <- <-. apply (ctl_inv_update st t s); try assumption; reflexivity.
    - (* Client *)
      destruct (ctl_parse_sid (cm_sid cm)) as [t|]; [|injection H as <- <-; exact Hinv].
      unfold ctl_lookup in H. destruct (ctl_find t (st_sess st)) as [s|] eqn:Ef; [|injection H as <- <-; exact Hinv].
      destruct (ss_in_table s); injection H as <- <-; [|exact Hinv].
      apply (ctl_inv_update st t s); try assumption; [reflexivity|].
      apply ctl_find_some in Ef. destruct Ef as [Ef _]. rewrite Forall_forall in H3. exact (H3 _ Ef).
    - (* Wake *)
      destruct (ctl_find t (st_sess st)) as [s|] eqn:Ef; [|discriminate].
      destruct (ss_pc s) eqn:Ep; try discriminate. destruct (ss_token s); [|discriminate].
      injection H as <- <-. apply (ctl_inv_update st t s); try assumption; [reflexivity|].
      apply ctl_find_some in Ef. destruct Ef as [Ef _]. rewrite Forall_forall in H3. specialize (H3 _ Ef).
      unfold ctl_sess_ok in *. cbn. now rewrite H3, Ep.
    - (* Timeout *)
      destruct (ctl_find t (st_sess st)) as [s|] eqn:Ef; [|discriminate].
      destruct (ss_pc s) eqn:Ep; try discriminate.
      injection H as <- <-. apply (ctl_inv_update st t s); try assumption; reflexivity.
    - (* Analyse *)
      destruct (ctl_find t (st_sess st)) as [s|] eqn:Ef; [|discriminate].
      destruct (ss_pc s) eqn:Ep; try discriminate. destruct (ss_client s) as [[cm ctr]|] eqn:Ec; [|discriminate].
      pose proof (ctl_find_some _ _ _ Ef) as [Ein _]. rewrite Forall_forall in H3. specialize (H3 _ Ein).
      unfold nh_analysis in H.
      destruct (nh_classify (cm_mapped cm) _) as [cf|ce].
      2:{ injection H as <- <-. apply (ctl_inv_update st t s); try assumption; [reflexivity|].
          unfold ctl_sess_ok in *. cbn. now rewrite H3, Ep. }
      destruct (nh_classify (vm_mapped (ss_vmsg s)) _) as [vf|ve].
      2:{ injection H as <- <-. apply (ctl_inv_update st t s); try assumption; [reflexivity|].
          unfold ctl_sess_ok in *. cbn. now rewrite H3, Ep. }
      destruct (nh_get_recommand_ok D OK (st_an st) (nh_analysis_key (ss_vmsg s) vf cm cf) cf vf H4) as [a' [r [E [Ha' _]]]].
      rewrite E in H. destruct (nh_read_timeouts (nd_timing D) (rc_cbeh r) (rc_vbeh r)) as [[vrt crt]|]; [|discriminate H].
      injection H as <- <-. apply (ctl_inv_update st t s); try assumption; [reflexivity|].
      unfold ctl_sess_ok in *. cbn. now rewrite H3, Ep.
    - (* SendV *)
      destruct (ctl_find t (st_sess st)) as [s|] eqn:Ef; [|discriminate].
      destruct (ss_pc s) as [| | |[] cs| | |] eqn:Ep; try discriminate. destruct (ss_resps s) as [[rv rc]|]; [|discriminate].
      injection H as <- <-. apply (ctl_inv_update st t s); try assumption; [reflexivity|].
      apply ctl_find_some in Ef. destruct Ef as [Ef _]. rewrite Forall_forall in H3. specialize (H3 _ Ef).
      unfold ctl_sess_ok in *. cbn. rewrite H3, Ep. destruct cs; reflexivity.
    - (* SendC *)
      destruct (ctl_find t (st_sess st)) as [s|] eqn:Ef; [|discriminate].
      destruct (ss_pc s) as [| | |vs []| | |] eqn:Ep; try discriminate. destruct (ss_resps s) as [[rv rc]|]; [|discriminate].
      destruct (ss_client s) as [[cm ctr]|]; [|discriminate].
      injection H as <- <-. apply (ctl_inv_update st t s); try assumption; [reflexivity|].
      apply ctl_find_some in Ef. destruct Ef as [Ef _]. rewrite Forall_forall in H3. specialize (H3 _ Ef).
      unfold ctl_sess_ok in *. cbn. rewrite H3, Ep. destruct vs; reflexivity.
    - (* SleepDone *)
      destruct (ctl_find t (st_sess st)) as [s|] eqn:Ef; [|discriminate].
      destruct (ss_pc s) eqn:Ep; try discriminate.
      injection H as <- <-. apply (ctl_inv_update st t s); try assumption; reflexivity.
    - (* Report *)
      destruct (ctl_parse_sid sid) as [t|]; [|injection H as <- <-; exact Hinv].
      destruct (ctl_lookup t (st_sess st)) as [s|]; [|injection H as <- <-; exact Hinv].
      destruct success; [|injection H as <- <-; exact Hinv].
      destruct (ss_reco s) as [[[k m] i]|]; injection H as <- <-; [|exact Hinv].
      unfold ctl_inv; cbn. repeat split; try assumption. now apply nh_report_inv.
    - (* NewProxy *)
      destruct (ctl_zin ctl (st_deadctl st) || (ctl <? 0)); [discriminate|].
      destruct (ctl_find_cfg name (st_cfgs st)); injection H as <- <-; exact Hinv.
    - (* CtlEnd *) destruct (ctl <? 0); [discriminate|]. injection H as <- <-. exact Hinv.
  Qed.

  Lemma ctl_run_inv evs : forall st, ctl_inv st -> ctl_inv (fst (ctl_run D auth st evs)).
  Proof.
    induction evs as [|e r IH]; intros st Hst; cbn; [exact Hst|].
    destruct (ctl_step D auth st e) as [[st' o]|] eqn:E.
    - specialize (IH st' (ctl_step_inv _ _ _ _ Hst E)). destruct (ctl_run D auth st' r). exact IH.
    - apply IH. exact Hst.
  Qed.

  (* the analysis step can always be taken: never a crash, whatever the two address lists are *)
  Lemma ctl_analyse_enabled st t s cm ctr :
    ctl_inv st -> ctl_find t (st_sess st) = Some s -> ss_pc s = PcAnalyse -> ss_client s = Some (cm, ctr) ->
    exists st' , ctl_step D auth st (EvAnalyse t) = Some (st', []).
  Proof.
    intros [_ [_ [_ Ha]]] Ef Ep Ec. cbn. rewrite Ef, Ep, Ec. unfold nh_analysis.
    destruct (nh_classify (cm_mapped cm) _) as [cf|ce]; [|eauto].
    destruct (nh_classify (vm_mapped (ss_vmsg s)) _) as [vf|ve]; [|eauto].
    destruct (nh_get_recommand_ok D OK (st_an st) (nh_analysis_key (ss_vmsg s) vf cm cf) cf vf Ha) as [a' [r [E [_ Hr]]]].
    rewrite E. destruct Hr as [_ [_ [_ [Htm _]]]]. unfold nh_timing_pair in Htm.
    destruct (nh_read_timeouts (nd_timing D) (rc_cbeh r) (rc_vbeh r)) as [[vrt crt]|]; [eauto|discriminate Htm].
  Qed.

  (* ---- quiescence ---- *)
  (* in a state where no HandleVisitor invocation can take a step, the session table is empty *)
  Lemma ctl_sessions_empty_at_quiescence st :
    ctl_inv st -> ctl_quiescent st = true -> ctl_table st = [].
  Proof.
    intros [_ [_ [H3 _]]] Hq. unfold ctl_table.
    destruct (filter ss_in_table (st_sess st)) as [|s r] eqn:E; [reflexivity|]. exfalso.
    assert (Hs : In s (filter ss_in_table (st_sess st))) by (rewrite E; now left).
    apply filter_In in Hs. destruct Hs as [Hin Ht].
    unfold ctl_quiescent in Hq. rewrite forallb_forall in Hq. specialize (Hq _ Hin).
    rewrite Forall_forall in H3. specialize (H3 _ Hin). unfold ctl_sess_ok in H3. rewrite Ht in H3.
    unfold ctl_sess_enabled in Hq. destruct (ss_pc s); cbn in *; discriminate.
  Qed.

  (* and as long as a session is in the table some step of its HandleVisitor invocation is enabled (no wedge) *)
  Lemma ctl_in_table_enabled st s :
    ctl_inv st -> In s (st_sess st) -> ss_in_table s = true -> ctl_sess_enabled st s = true.
  Proof.
    intros [_ [_ [H3 _]]] Hin Ht. rewrite Forall_forall in H3. specialize (H3 _ Hin). unfold ctl_sess_ok in H3.
    rewrite Ht in H3. unfold ctl_sess_enabled. destruct (ss_pc s); cbn in *; try reflexivity; discriminate.
  Qed.

  (* ---- the two responses of a session go to the visitor's control and to the control that sent the latest
          NatHoleClient for this sid; the step that sends one disables itself ---- *)
  Lemma ctl_response_destinations st e st' outs t role tr r :
    ctl_step D auth st e = Some (st', outs) -> In (OutResp t role tr r) outs ->
    exists s rv rc, ctl_find t (st_sess st) = Some s /\ ss_resps s = Some (rv, rc) /\ outs = [OutResp t role tr r] /\
      ((role = ToVisitor /\ e = EvSendV t /\ tr = ss_vtr s /\ r = rv /\ exists c, ss_pc s = PcSend false c) \/
       (role = ToClient /\ e = EvSendC t /\ r = rc /\ (exists cm, ss_client s = Some (cm, tr)) /\ exists v, ss_pc s = PcSend v false)).
  Proof.
    intros H Hin. destruct e; cbn in H;
      repeat match type of H with
             | match ?x with _ => _ end = _ => destruct x eqn:?; try discriminate
             | (if ?x then _ else _) = _ => destruct x eqn:?; try discriminate
             end; injection H as <- <-; cbn in Hin; try contradiction;
      try (destruct Hin as [Hin|[]]; discriminate Hin).
    - destruct Hin as [[= <- <- <- <-]|[]]. eexists _, _, _. repeat split; try eassumption. left. repeat split; eauto.
    - destruct Hin as [[= <- <- <- <-]|[]]. eexists _, _, _. repeat split; try eassumption. right. repeat split; eauto.
  Qed.

  Lemma ctl_find_update_same t f l :
    (forall x, ss_sid (f x) = ss_sid x) -> ctl_find t (ctl_update t f l) = option_map f (ctl_find t l).
  Proof.
    intros Hf. induction l as [|x r IH]; cbn; [reflexivity|]. destruct (ss_sid x =? t) eqn:E.
    - rewrite Hf, E. reflexivity.
    - rewrite E. exact IH.
  Qed.

  Lemma ctl_send_disables_itself st t st' outs :
    (ctl_step D auth st (EvSendV t) = Some (st', outs) -> ctl_step D auth st' (EvSendV t) = None) /\
    (ctl_step D auth st (EvSendC t) = Some (st', outs) -> ctl_step D auth st' (EvSendC t) = None).
  Proof.
    split; intros H; cbn in H.
    - destruct (ctl_find t (st_sess st)) as [s|] eqn:Ef; [|discriminate].
      destruct (ss_pc s) as [| | |[] cs| | |] eqn:Ep; try discriminate. destruct (ss_resps s) as [[rv rc]|]; [|discriminate].
      injection H as <- <-. cbn. rewrite ctl_find_update_same by reflexivity. rewrite Ef. cbn. destruct cs; reflexivity.
    - destruct (ctl_find t (st_sess st)) as [s|] eqn:Ef; [|discriminate].
      destruct (ss_pc s) as [| | |vs []| | |] eqn:Ep; try discriminate. destruct (ss_resps s) as [[rv rc]|]; [|discriminate].
      destruct (ss_client s) as [[cm ctr]|]; [|discriminate].
      injection H as <- <-. cbn. rewrite ctl_find_update_same by reflexivity. rewrite Ef. cbn. destruct vs; reflexivity.
  Qed.
  (* ---- whole schedules: how many responses of session t went out for each of the two parties ---- *)
  Definition ctl_sent (role : ctl_role) (pc : ctl_pc) : Z :=
    match pc with
    | PcSend v c => match role with ToVisitor => if v then 1 else 0 | ToClient => if c then 1 else 0 end
    | PcSleep | PcDoneComplete => 1
    | _ => 0
    end.
  Definition ctl_role_eqb (a b : ctl_role) : bool :=
    match a, b with ToVisitor, ToVisitor | ToClient, ToClient => true | _, _ => false end.
  Fixpoint ctl_cnt (role : ctl_role) (t : Z) (outs : list ctl_out) : Z :=
    match outs with
    | [] => 0
    | OutResp t' r' _ _ :: r => (if (t' =? t) && ctl_role_eqb r' role then 1 else 0) + ctl_cnt role t r
    | _ :: r => ctl_cnt role t r
    end.
  Definition ctl_sent_of (role : ctl_role) (t : Z) (st : ctl_state) : Z :=
    match ctl_find t (st_sess st) with Some s => ctl_sent role (ss_pc s) | None => 0 end.
  Definition ctl_counts_ok (st : ctl_state) (outs : list ctl_out) : Prop :=
    forall role t, ctl_cnt role t outs = ctl_sent_of role t st.

  Lemma ctl_sent_bounds role pc : 0 <= ctl_sent role pc <= 1.
  Proof. destruct pc as [| | |[] []| | |], role; cbn; lia. Qed.

  Lemma ctl_cnt_app role t a b : ctl_cnt role t (a ++ b) = ctl_cnt role t a + ctl_cnt role t b.
  Proof. induction a as [|[] r IH]; cbn; try assumption; lia. Qed.

  Lemma ctl_find_update t' t f l :
    (forall x, ss_sid (f x) = ss_sid x) ->
    ctl_find t' (ctl_update t f l) = if t' =? t then option_map f (ctl_find t l) else ctl_find t' l.
  Proof.
    intros Hf. unfold ctl_update. induction l as [|x r IH]; cbn; [destruct (t' =? t); reflexivity|].
    destruct (ss_sid x =? t) eqn:E.
    - rewrite Hf. destruct (t' =? t) eqn:E2.
      + assert (ss_sid x =? t' = true) as -> by lia. reflexivity.
      + assert (ss_sid x =? t' = false) as -> by lia. exact IH.
    - destruct (t' =? t) eqn:E2.
      + assert (ss_sid x =? t' = false) as -> by lia. exact IH.
      + destruct (ss_sid x =? t'); [reflexivity|]. exact IH.
  Qed.

  Lemma ctl_find_snoc t l s :
    ctl_find t (l ++ [s]) = match ctl_find t l with Some x => Some x | None => if ss_sid s =? t then Some s else None end.
  Proof. induction l as [|x r IH]; cbn; [reflexivity|]. destruct (ss_sid x =? t); [reflexivity|exact IH]. Qed.

  Lemma ctl_find_fresh n l t : Forall (fun s => ss_sid s < n) l -> n <= t -> ctl_find t l = None.
  Proof.
    induction 1 as [|x r Hx Hr IH]; intros Ht; cbn; [reflexivity|].
    destruct (ss_sid x =? t) eqn:E; [lia|]. now apply IH.
  Qed.

  Lemma ctl_counts_update st outs t s f o an :
    ctl_counts_ok st outs -> ctl_find t (st_sess st) = Some s -> (forall x, ss_sid (f x) = ss_sid x) ->
    (forall role, ctl_cnt role t o = ctl_sent role (ss_pc (f s)) - ctl_sent role (ss_pc s)) ->
    (forall role t', t' <> t -> ctl_cnt role t' o = 0) ->
    ctl_counts_ok {| st_cfgs := st_cfgs st; st_alive := st_alive st; st_busy := st_busy st; st_closedch := st_closedch st; st_deadctl := st_deadctl st; st_next_chan := st_next_chan st; st_next_sid := st_next_sid st;
                     st_sess := ctl_update t f (st_sess st); st_an := an |} (outs ++ o).
  Proof.
    intros Hc Ef Hf H1 H2 role t'. rewrite ctl_cnt_app. unfold ctl_sent_of; cbn. rewrite ctl_find_update by exact Hf.
    specialize (Hc role t'). unfold ctl_sent_of in Hc. destruct (t' =? t) eqn:E.
    - assert (t' = t) by lia. subst t'. rewrite Ef in *. cbn. rewrite H1. lia.
    - rewrite H2 by lia. lia.
  Qed.

  Lemma ctl_counts_same_sess st st' outs :
    ctl_counts_ok st outs -> st_sess st' = st_sess st -> ctl_counts_ok st' (outs ++ []).
  Proof. intros H E role t. rewrite app_nil_r. unfold ctl_sent_of. rewrite E. apply H. Qed.

  Lemma ctl_counts_ext st st' outs : st_sess st' = st_sess st -> ctl_counts_ok st outs -> ctl_counts_ok st' outs.
  Proof. intros E H role t. unfold ctl_sent_of. rewrite E. apply H. Qed.

  Lemma ctl_step_counts st e st' o outs :
    ctl_inv st -> ctl_counts_ok st outs -> ctl_step D auth st e = Some (st', o) -> ctl_counts_ok st' (outs ++ o).
  Proof.
    intros Hinv Hc H. pose proof Hinv as [H1 [H2 [H3 H4]]]. destruct e; cbn in H.
    - destruct (ctl_find_cfg name (st_cfgs st)); injection H as <- <-; intros role t; rewrite ctl_cnt_app; cbn; rewrite Z.add_0_r; apply Hc.
    - injection H as <- <-. (apply (ctl_counts_same_sess st); [assumption|reflexivity]).
    - injection H as <- <-. (apply (ctl_counts_same_sess st); [assumption|reflexivity]).
    - destruct (ctl_zin ch (st_busy st)); [|discriminate]. injection H as <- <-. (apply (ctl_counts_same_sess st); [assumption|reflexivity]).
    - destruct (ctl_zin ch (st_alive st) && ctl_zin ch (st_closedch st)); [|discriminate]. injection H as <- <-.
      (apply (ctl_counts_same_sess st); [assumption|reflexivity]).
    - (* Visitor *)
      destruct (ctl_session_only_if_signed_and_live st vm tr user st' o H)
        as [[E [e [-> _]]]|(cfg & s & _ & _ & _ & _ & _ & E & Hsid & _ & _ & _ & Ht & Hp & ->)].
      + intros role t. rewrite ctl_cnt_app. cbn. unfold ctl_sent_of. rewrite E, Z.add_0_r. apply Hc.
      + intros role t. rewrite app_nil_r. unfold ctl_sent_of. rewrite E, ctl_find_snoc.
        specialize (Hc role t). unfold ctl_sent_of in Hc.
        destruct (ctl_find t (st_sess st)) as [x|] eqn:Ef; [exact Hc|].
        destruct (ss_sid s =? t); [rewrite Hp; cbn; exact Hc|exact Hc].
    - (* Deliver *)
      destruct (ctl_find t (st_sess st)) as [s|] eqn:Ef; [|discriminate].
      destruct (ss_pc s) eqn:Ep; try discriminate. destruct (ctl_zin (ss_chan s) (st_alive st)); [|discriminate].
      injection H as <- <-.
      apply (ctl_counts_ext (ctl_with_sess st (ctl_update t (ctl_set_pc PcWait) (st_sess st)))); [reflexivity|].
      apply (ctl_counts_update st outs t s); try assumption; try reflexivity.
      intros role; cbn. rewrite Ep. destruct role; reflexivity.
    - (* GiveUp *)
      destruct (ctl_find t (st_sess st)) as [s|] eqn:Ef; [|discriminate].
      destruct (ss_pc s) eqn:Ep; try discriminate.
      injection H as <- <-. apply (ctl_counts_update st outs t s); try assumption; try reflexivity.
      intros role; cbn. rewrite Ep. destruct role; reflexivity.
    - (* Client *)
      destruct (ctl_parse_sid (cm_sid cm)) as [t|]; [|injection H as <- <-; (apply (ctl_counts_same_sess st); [assumption|reflexivity])].
      unfold ctl_lookup in H. destruct (ctl_find t (st_sess st)) as [s|] eqn:Ef; [|injection H as <- <-; (apply (ctl_counts_same_sess st); [assumption|reflexivity])].
      destruct (ss_in_table s); injection H as <- <-; [|(apply (ctl_counts_same_sess st); [assumption|reflexivity])].
      apply (ctl_counts_update st outs t s); try assumption; try reflexivity. intros role; cbn. lia.
    - (* Wake *)
      destruct (ctl_find t (st_sess st)) as [s|] eqn:Ef; [|discriminate].
      destruct (ss_pc s) eqn:Ep; try discriminate. destruct (ss_token s); [|discriminate].
      injection H as <- <-. apply (ctl_counts_update st outs t s); try assumption; try reflexivity.
      intros role; cbn. rewrite Ep. destruct role; reflexivity.
    - (* Timeout *)
      destruct (ctl_find t (st_sess st)) as [s|] eqn:Ef; [|discriminate].
      destruct (ss_pc s) eqn:Ep; try discriminate.
      injection H as <- <-. apply (ctl_counts_update st outs t s); try assumption; try reflexivity.
      intros role; cbn. rewrite Ep. destruct role; reflexivity.
    - (* Analyse *)
      destruct (ctl_find t (st_sess st)) as [s|] eqn:Ef; [|discriminate].
      destruct (ss_pc s) eqn:Ep; try discriminate. destruct (ss_client s) as [[cm ctr]|] eqn:Ec; [|discriminate].
      match type of H with match ?x with _ => _ end = _ => destruct x end; try discriminate; injection H as <- <-;
        apply (ctl_counts_update st outs t s); try assumption; try reflexivity;
        intros role; cbn; rewrite Ep; destruct role; reflexivity.
    - (* SendV *)
      destruct (ctl_find t (st_sess st)) as [s|] eqn:Ef; [|discriminate].
      destruct (ss_pc s) as [| | |[] cs| | |] eqn:Ep; try discriminate. destruct (ss_resps s) as [[rv rc]|]; [|discriminate].
      injection H as <- <-. apply (ctl_counts_update st outs t s); try assumption; try reflexivity.
      + intros role; cbn. rewrite Ep, Z.eqb_refl. destruct role, cs; reflexivity.
      + intros role t' Hne; cbn. assert (t =? t' = false) as -> by lia. reflexivity.
    - (* SendC *)
      destruct (ctl_find t (st_sess st)) as [s|] eqn:Ef; [|discriminate].
      destruct (ss_pc s) as [| | |vs []| | |] eqn:Ep; try discriminate. destruct (ss_resps s) as [[rv rc]|]; [|discriminate].
      destruct (ss_client s) as [[cm ctr]|]; [|discriminate].
      injection H as <- <-. apply (ctl_counts_update st outs t s); try assumption; try reflexivity.
      + intros role; cbn. rewrite Ep, Z.eqb_refl. destruct role, vs; reflexivity.
      + intros role t' Hne; cbn. assert (t =? t' = false) as -> by lia. reflexivity.
    - (* SleepDone *)
      destruct (ctl_find t (st_sess st)) as [s|] eqn:Ef; [|discriminate].
      destruct (ss_pc s) eqn:Ep; try discriminate.
      injection H as <- <-. apply (ctl_counts_update st outs t s); try assumption; try reflexivity.
      intros role; cbn. rewrite Ep. destruct role; reflexivity.
    - (* Report *)
      destruct (ctl_parse_sid sid) as [t|]; [|injection H as <- <-; (apply (ctl_counts_same_sess st); [assumption|reflexivity])].
      destruct (ctl_lookup t (st_sess st)) as [s|]; [|injection H as <- <-; (apply (ctl_counts_same_sess st); [assumption|reflexivity])].
      destruct success; [|injection H as <- <-; (apply (ctl_counts_same_sess st); [assumption|reflexivity])].
      destruct (ss_reco s) as [[[k m] i]|]; injection H as <- <-; (apply (ctl_counts_same_sess st); [assumption|reflexivity]).
    - destruct (ctl_zin ctl (st_deadctl st) || (ctl <? 0)); [discriminate|].
      destruct (ctl_find_cfg name (st_cfgs st)); injection H as <- <-; intros role t; rewrite ctl_cnt_app; cbn; rewrite Z.add_0_r; apply Hc.
    - destruct (ctl <? 0); [discriminate|]. injection H as <- <-. (apply (ctl_counts_same_sess st); [assumption|reflexivity]).
  Qed.

  Lemma ctl_run_counts evs : forall st acc,
    ctl_inv st -> ctl_counts_ok st acc ->
    ctl_counts_ok (fst (ctl_run D auth st evs)) (acc ++ snd (ctl_run D auth st evs)).
  Proof.
    induction evs as [|e r IH]; intros st acc Hst Hc; cbn; [now rewrite app_nil_r|].
    destruct (ctl_step D auth st e) as [[st' o]|] eqn:E.
    - specialize (IH st' (acc ++ o) (ctl_step_inv _ _ _ _ Hst E) (ctl_step_counts _ _ _ _ _ Hst Hc E)).
      destruct (ctl_run D auth st' r) as [st'' o']. cbn in *. now rewrite app_assoc.
    - apply IH; assumption.
  Qed.

  (* every schedule from the initial state: per session and per party, the number of responses sent is 0 or 1,
     it is 1 for both parties once the exchange completed and 0 for both after a timeout *)
  Lemma ctl_responses_per_session evs t role :
    let st := fst (ctl_run D auth ctl_init evs) in let outs := snd (ctl_run D auth ctl_init evs) in
    0 <= ctl_cnt role t outs <= 1 /\
    forall s, ctl_find t (st_sess st) = Some s ->
      (ss_pc s = PcSleep \/ ss_pc s = PcDoneComplete -> ctl_cnt role t outs = 1) /\
      (ss_pc s = PcDoneTimeout \/ ss_pc s = PcNotify \/ ss_pc s = PcWait \/ ss_pc s = PcAnalyse -> ctl_cnt role t outs = 0).
  Proof.
    cbn. pose proof (ctl_run_counts evs ctl_init [] ctl_inv_init (fun _ _ => eq_refl) role t) as H. cbn in H.
    rewrite H. unfold ctl_sent_of. destruct (ctl_find t (st_sess (fst (ctl_run D auth ctl_init evs)))) as [s|].
    - split; [apply ctl_sent_bounds|]. intros s' [= <-]. split.
      + intros [->| ->]; reflexivity.
      + intros [->|[->|[->| ->]]]; reflexivity.
    - split; [lia|discriminate].
  Qed.
  (* ---- XTCPProxy.Close removes the registration synchronously ---- *)
  Lemma ctl_find_cfg_remove name l : ctl_find_cfg name (ctl_remove_cfg name l) = None.
  Proof.
    induction l as [|c r IH]; cbn; [reflexivity|]. destruct (bytes_eqb name (cc_name c)) eqn:E; cbn; [exact IH|].
    rewrite E. exact IH.
  Qed.

  Lemma ctl_find_cfg_none_in name l c : ctl_find_cfg name l = None -> In c l -> cc_name c <> name.
  Proof.
    induction l as [|x r IH]; cbn; [contradiction|]. destruct (bytes_eqb name (cc_name x)) eqn:E; [discriminate|].
    intros H [->|Hin]; [|now apply IH]. intros Heq. rewrite Heq, nh_bytes_eqb_refl in E. discriminate.
  Qed.

  Lemma ctl_find_cfg_filter name (p : ctl_cfg -> bool) l : ctl_find_cfg name l = None -> ctl_find_cfg name (filter p l) = None.
  Proof.
    induction l as [|c r IH]; cbn; [reflexivity|]. destruct (bytes_eqb name (cc_name c)) eqn:E; [discriminate|].
    intros H. destruct (p c); cbn; [rewrite E|]; now apply IH.
  Qed.

  (* Close can be taken in EVERY state (whatever the hand-over goroutine is doing) and leaves the name unregistered *)
  Lemma ctl_proxy_close st name :
    exists st', ctl_step D auth st (EvProxyClose name) = Some (st', []) /\ ctl_find_cfg name (st_cfgs st') = None /\
                st_sess st' = st_sess st.
  Proof. eexists. cbn. split; [reflexivity|]. cbn. split; [apply ctl_find_cfg_remove|reflexivity]. Qed.

  (* what one step can do to the registrations and to the set of ended controls *)
  Definition ctl_cfg_change (st : ctl_state) (e : ctl_ev) (st' : ctl_state) : Prop :=
    (st_cfgs st' = st_cfgs st /\ st_deadctl st' = st_deadctl st) \/
    (exists p, st_cfgs st' = filter p (st_cfgs st) /\ st_deadctl st' = st_deadctl st) \/
    (exists c, st_cfgs st' = c :: st_cfgs st /\ st_deadctl st' = st_deadctl st /\
       ((cc_owner c = -1 /\ exists sk allow, e = EvListen (cc_name c) sk allow) \/
        (0 <= cc_owner c /\ ctl_zin (cc_owner c) (st_deadctl st) = false /\
         exists sk allow, e = EvNewProxy (cc_owner c) (cc_name c) sk allow))) \/
    (exists k, 0 <= k /\ e = EvCtlEnd k /\ st_cfgs st' = filter (fun c => negb (cc_owner c =? k)) (st_cfgs st) /\
       st_deadctl st' = k :: st_deadctl st).

  Lemma ctl_step_cfg_change st e st' o : ctl_step D auth st e = Some (st', o) -> ctl_cfg_change st e st'.
  Proof.
    intros H. unfold ctl_cfg_change. destruct e; cbn in H.
    - destruct (ctl_find_cfg name (st_cfgs st)); injection H as <- <-; [left; split; reflexivity|].
      right. right. left. eexists. cbn. split; [reflexivity|]. split; [reflexivity|]. left. split; [reflexivity|]. eauto.
    - injection H as <- <-. right. left. eexists. split; reflexivity.
    - injection H as <- <-. right. left. eexists. split; reflexivity.
    - destruct (ctl_zin ch (st_busy st)); [|discriminate]. injection H as <- <-. left. split; reflexivity.
    - destruct (ctl_zin ch (st_alive st) && ctl_zin ch (st_closedch st)); [|discriminate]. injection H as <- <-. left. split; reflexivity.
    - left. revert H. destruct (vm_precheck vm); repeat match goal with |- context [match ?x with _ => _ end] => destruct x end;
        intros [= <- _]; split; reflexivity.
    - left. repeat match type of H with
           | match ?x with _ => _ end = _ => destruct x eqn:?; try discriminate
           | (if ?x then _ else _) = _ => destruct x eqn:?; try discriminate
           end; injection H as <- <-; split; reflexivity.
    - left. repeat match type of H with
           | match ?x with _ => _ end = _ => destruct x eqn:?; try discriminate
           | (if ?x then _ else _) = _ => destruct x eqn:?; try discriminate
           end; injection H as <- <-; split; reflexivity.
    - left. repeat match type of H with
           | match ?x with _ => _ end = _ => destruct x eqn:?; try discriminate
           | (if ?x then _ else _) = _ => destruct x eqn:?; try discriminate
           end; injection H as <- <-; split; reflexivity.
    - left. repeat match type of H with
           | match ?x with _ => _ end = _ => destruct x eqn:?; try discriminate
           | (if ?x then _ else _) = _ => destruct x eqn:?; try discriminate
           end; injection H as <- <-; split; reflexivity.
    - left. repeat match type of H with
           | match ?x with _ => _ end = _ => destruct x eqn:?; try discriminate
           | (if ?x then _ else _) = _ => destruct x eqn:?; try discriminate
           end; injection H as <- <-; split; reflexivity.
    - left. repeat match type of H with
           | match ?x with _ => _ end = _ => destruct x eqn:?; try discriminate
           | (if ?x then _ else _) = _ => destruct x eqn:?; try discriminate
           end; injection H as <- <-; split; reflexivity.
    - left. repeat match type of H with
           | match ?x with _ => _ end = _ => destruct x eqn:?; try discriminate
           | (if ?x then _ else _) = _ => destruct x eqn:?; try discriminate
           end; injection H as <- <-; split; reflexivity.
    - left. repeat match type of H with
           | match ?x with _ => _ end = _ => destruct x eqn:?; try discriminate
           | (if ?x then _ else _) = _ => destruct x eqn:?; try discriminate
           end; injection H as <- <-; split; reflexivity.
    - left. repeat match type of H with
           | match ?x with _ => _ end = _ => destruct x eqn:?; try discriminate
           | (if ?x then _ else _) = _ => destruct x eqn:?; try discriminate
           end; injection H as <- <-; split; reflexivity.
    - left. repeat match type of H with
           | match ?x with _ => _ end = _ => destruct x eqn:?; try discriminate
           | (if ?x then _ else _) = _ => destruct x eqn:?; try discriminate
           end; injection H as <- <-; split; reflexivity.
    - (* NewProxy *)
      destruct (ctl_zin ctl (st_deadctl st)) eqn:Ed; [discriminate|]. destruct (ctl <? 0) eqn:En; [discriminate|]. apply Z.ltb_ge in En. cbn in H.
      destruct (ctl_find_cfg name (st_cfgs st)); injection H as <- <-; [left; split; reflexivity|].
      right. right. left. eexists. cbn. split; [reflexivity|]. split; [reflexivity|]. right. cbn. split; [lia|]. split; [exact Ed|]. eauto.
    - (* CtlEnd *)
      destruct (ctl <? 0) eqn:En; [discriminate|]. apply Z.ltb_ge in En. injection H as <- <-. right. right. right. exists ctl. cbn.
      split; [lia|]. split; [reflexivity|]. split; reflexivity.
  Qed.

  (* an event that registers [name] *)
  Definition ctl_registers (e : ctl_ev) (name : bytes) : Prop :=
    (exists sk allow, e = EvListen name sk allow) \/ (exists c sk allow, e = EvNewProxy c name sk allow).

  (* only a new registration of that name lists it again *)
  Lemma ctl_unregistered_stays st e st' o name :
    ctl_find_cfg name (st_cfgs st) = None -> ctl_step D auth st e = Some (st', o) ->
    ~ ctl_registers e name -> ctl_find_cfg name (st_cfgs st') = None.
  Proof.
    intros Hn H Hne. destruct (ctl_step_cfg_change _ _ _ _ H) as [[-> _]|[[p [-> _]]|[[c [-> [_ Hc]]]|[k [_ [_ [-> _]]]]]]].
    - exact Hn.
    - now apply ctl_find_cfg_filter.
    - cbn. destruct (bytes_eqb name (cc_name c)) eqn:E; [|exact Hn].
      apply nh_bytes_eqb_eq in E. exfalso. apply Hne. unfold ctl_registers. rewrite E.
      destruct Hc as [[_ [sk [allow ->]]]|[_ [_ [sk [allow ->]]]]]; [left|right]; eauto.
    - now apply ctl_find_cfg_filter.
  Qed.

  Lemma ctl_unregistered_run evs : forall st name,
    ctl_find_cfg name (st_cfgs st) = None -> Forall (fun e => ~ ctl_registers e name) evs ->
    ctl_find_cfg name (st_cfgs (fst (ctl_run D auth st evs))) = None.
  Proof.
    induction evs as [|e r IH]; intros st name Hn Hf; cbn; [exact Hn|]. inversion Hf as [|? ? He Hr]; subst.
    destruct (ctl_step D auth st e) as [[st' o]|] eqn:E.
    - specialize (IH st' name (ctl_unregistered_stays _ _ _ _ _ Hn E He) Hr). destruct (ctl_run D auth st' r). exact IH.
    - now apply IH.
  Qed.

  (* a request naming an unregistered proxy: "doesn't exist" to the requester, no session *)
  Lemma ctl_visitor_unregistered st vm tr user st' o :
    ctl_find_cfg (vm_proxy vm) (st_cfgs st) = None -> ctl_step D auth st (EvVisitor vm tr user) = Some (st', o) ->
    st' = st /\ o = [OutReply tr (nh_err_resp (vm_tid vm) NeNoProxy)].
  Proof. intros Hn H. cbn in H. rewrite Hn in H. destruct (vm_precheck vm); injection H as <- <-; split; reflexivity. Qed.

  (* all interleavings: once Close has returned, no later HandleVisitor creates a session for that proxy (until a new
     proxy of that name registers) -- whatever state the hand-over goroutine of the closed proxy is in *)
  Lemma ctl_no_session_for_closed_proxy st name st1 o1 evs vm tr user st3 o3 :
    ctl_step D auth st (EvProxyClose name) = Some (st1, o1) ->
    Forall (fun e => ~ ctl_registers e name) evs ->
    vm_proxy vm = name ->
    ctl_step D auth (fst (ctl_run D auth st1 evs)) (EvVisitor vm tr user) = Some (st3, o3) ->
    st3 = fst (ctl_run D auth st1 evs) /\ o3 = [OutReply tr (nh_err_resp (vm_tid vm) NeNoProxy)].
  Proof.
    intros Hc Hf Hv H. destruct (ctl_proxy_close st name) as [st1' [E [Hn _]]]. rewrite E in Hc. injection Hc as <- _.
    apply (ctl_visitor_unregistered _ vm tr user st3 o3); [|exact H]. rewrite Hv. now apply ctl_unregistered_run.
  Qed.

  (* ---- no registration outlives the control session that made it ---- *)
  Definition ctl_owner_inv (st : ctl_state) : Prop :=
    Forall (fun c => ctl_zin (cc_owner c) (st_deadctl st) = false) (st_cfgs st) /\ Forall (fun k => 0 <= k) (st_deadctl st).

  Lemma ctl_zin_neg l : Forall (fun k => 0 <= k) l -> ctl_zin (-1) l = false.
  Proof.
    unfold ctl_zin. induction 1 as [|k r Hk Hr IH]; cbn [existsb]; [reflexivity|]. rewrite IH.
    destruct (-1 =? k) eqn:E; [apply Z.eqb_eq in E; lia|reflexivity].
  Qed.

  Lemma ctl_owner_inv_init : ctl_owner_inv ctl_init.
  Proof. split; constructor. Qed.

  Lemma ctl_step_owner_inv st e st' o : ctl_owner_inv st -> ctl_step D auth st e = Some (st', o) -> ctl_owner_inv st'.
  Proof.
    intros [H1 H2] H. unfold ctl_owner_inv.
    destruct (ctl_step_cfg_change _ _ _ _ H) as [[-> ->]|[[p [-> ->]]|[[c [-> [-> Hc]]]|[k [Hk [_ [-> ->]]]]]]].
    - split; assumption.
    - split; [|assumption]. apply Forall_forall. intros c Hin. apply filter_In in Hin. rewrite Forall_forall in H1. now apply H1.
    - split; [|assumption]. constructor; [|assumption].
      destruct Hc as [[-> _]|[_ [Hd _]]]; [now apply ctl_zin_neg|exact Hd].
    - split; [|constructor; assumption]. apply Forall_forall. intros c Hin. apply filter_In in Hin. destruct Hin as [Hin Hne].
      rewrite Forall_forall in H1. specialize (H1 _ Hin). unfold ctl_zin in *. cbn [existsb]. rewrite H1.
      destruct (cc_owner c =? k); [cbn in Hne; discriminate Hne|reflexivity].
  Qed.

  Lemma ctl_run_owner_inv evs : forall st, ctl_owner_inv st -> ctl_owner_inv (fst (ctl_run D auth st evs)).
  Proof.
    induction evs as [|e r IH]; intros st Hst; cbn; [exact Hst|].
    destruct (ctl_step D auth st e) as [[st' o]|] eqn:E.
    - specialize (IH st' (ctl_step_owner_inv _ _ _ _ Hst E)). destruct (ctl_run D auth st' r). exact IH.
    - now apply IH.
  Qed.

  (* the registration of a control that has ended is never enabled: NewProxy is handled inside that control's read loop *)
  Lemma ctl_dead_control_cannot_register st k name sk allow :
    ctl_zin k (st_deadctl st) = true -> ctl_step D auth st (EvNewProxy k name sk allow) = None.
  Proof. intros H. cbn. rewrite H. reflexivity. Qed.

  (* every schedule: whatever the controller lists was registered by a control that has not ended (or directly); in
     particular after EvCtlEnd k nothing registered by k is listed, and a request naming such a proxy creates no session *)
  Lemma ctl_listed_implies_owner_alive evs c :
    let st := fst (ctl_run D auth ctl_init evs) in
    In c (st_cfgs st) -> ctl_zin (cc_owner c) (st_deadctl st) = false.
  Proof.
    cbn. intros Hin. destruct (ctl_run_owner_inv evs ctl_init ctl_owner_inv_init) as [H _].
    rewrite Forall_forall in H. now apply H.
  Qed.
End CtlProofs.
