package main

// Driver "visitors" (C08): (i) real visitor.Manager, (ii) real nathole.Controller,
// (iii) in-process frps with scripted sessions, (iv) byte transparency through real frpc peers.

import (
	"strings"

	"verifharness/hx"
)

func init() { drivers["visitors"] = runVisitors }

func childMain() bool { return false }

func runVisitors(cfg *hx.RunCfg) error {
	hx.Quiet()
	g := &gen{hx.NewGen(cfg.Seed)}
	dist := map[string]int{}
	var cases []string
	fails := []map[string]string{}
	seen := map[string]bool{}
	nontrivial := 0
	add := func(c string, f []map[string]string) {
		cases = append(cases, c)
		fails = append(fails, f...)
		if !seen[c] {
			seen[c] = true
			// non-trivial: at least one visitor request in the history
			if strings.Contains(c, "VmNewConn") || strings.Contains(c, "NhVisitor") || strings.Contains(c, "SVisitorConn") ||
				strings.Contains(c, "SNatHole") || strings.HasPrefix(c, "CE2E") {
				nontrivial++
			}
		}
	}
	nA := cfg.N * 45 / 100
	nB := cfg.N * 40 / 100
	for i := 0; i < nA; i++ {
		add(managerCase(g, dist))
	}
	for i := 0; i < nB; i++ {
		add(nhCase(g, dist))
	}
	nSys := cfg.N - nA - nB
	if err := systemCases(cfg, g, nSys, dist, add); err != nil {
		return err
	}
	cf := &hx.CaseFile{Imports: caseImports, Typ: "case", Cases: cases, Tail: caseTail}
	if err := cf.Write(cfg.Out); err != nil {
		return err
	}
	cfg.St["cases"] = len(cases)
	cfg.St["distinct_nontrivial"] = nontrivial
	samples := []string{}
	for i := 0; i < len(cases) && len(samples) < 4; i += 1 + len(cases)/4 {
		s := cases[i]
		if len(s) > 600 {
			s = s[:600] + "..."
		}
		samples = append(samples, s)
	}
	cfg.St["samples"] = samples
	cfg.St["distribution"] = dist
	cfg.St["impl_failures"] = fails
	return nil
}
