(* C14 — dead peers are detected and tunnels heal themselves.
   Statements only; proofs live in Proofs/{Heartbeat,Backoff,Relogin}Proofs.v.
   Time: heartbeat theorems in milliseconds (hb_sec = hb_period = 1000); back-off theorems in
   nanoseconds (Go's time.Duration; fb_second = 10^9).  Clock readings, the random source and the
   run time of callbacks are universally quantified oracles.
   What is NOT here (runtime residue, observed by the liveness driver with a tolerance): that the
   Go scheduler runs the 1 s watchdog on time, that closing the control connection releases
   listeners within a bounded real time, that a login attempt itself terminates in bounded time. *)
From Coq Require Import ZArith List Bool Lia.
From FRP Require Import Model.Heartbeat Model.Backoff Model.Relogin Model.CliDispatch Model.SrvTeardown Model.PingAuth
  Proofs.HeartbeatProofs Proofs.BackoffProofs Proofs.ReloginProofs
  gen.GenBackoffOpts Proofs.GenBackoffProofs Proofs.GenCliDispatch Proofs.CliDispatchProofs Proofs.SrvTeardownProofs Proofs.PingAuthProofs.
Import ListNotations.
Open Scope Z_scope.

(* ---- clause 1: a silent peer is torn down within timeout + one check period ---- *)
(* For EVERY history of watchdog runs, valid pings and invalid pings: if the watchdog runs are those
   of wait.Until (first run at [start], next run 1 s after the previous one returned, one run taking
   at most g), no valid heartbeat bears a time stamp later than t0, and the history extends past
   t0 + T, then some watchdog run in (t0+T, t0+T+1s+g] finds the session closed or closes it, and it
   stays closed. *)
Theorem C14_silent_peer_torn_down_within : forall T g t0 start execs s evs,
  T > 0 -> 0 <= g ->
  Forall (fun e => 0 <= e <= g) execs ->
  hb_tick_times evs = until_ticks hb_period start execs ->
  hs_last s <= t0 -> start <= t0 + T * hb_sec ->
  (forall t, In (HValidPing t) evs -> t <= t0) ->
  (exists t, In t (hb_tick_times evs) /\ t0 + T * hb_sec < t) ->
  exists e1 now e2,
    evs = e1 ++ HTick now :: e2 /\
    t0 + T * hb_sec < now <= t0 + T * hb_sec + hb_period + g /\
    hs_closed (hb_srv_run T s (e1 ++ [HTick now])) = true /\
    hs_closed (hb_srv_run T s evs) = true.
Proof. exact hb_srv_silent_within. Qed.
Print Assumptions C14_silent_peer_torn_down_within.

(* the core step without any assumption on the schedule: the FIRST watchdog run later than t0 + T
   closes the session, whatever else the history contains *)
Theorem C14_first_check_after_timeout_closes : forall T t0 s e1 now,
  T > 0 -> hs_last s <= t0 ->
  (forall t, In (HValidPing t) e1 -> t <= t0) ->
  t0 + T * hb_sec < now ->
  hs_closed (hb_srv_run T s (e1 ++ [HTick now])) = true.
Proof. exact hb_srv_silent_prefix. Qed.
Print Assumptions C14_first_check_after_timeout_closes.

Theorem C14_closed_is_final : forall T evs s,
  hs_closed s = true -> hs_closed (hb_srv_run T s evs) = true.
Proof. exact hb_srv_closed_absorbing. Qed.
Print Assumptions C14_closed_is_final.

(* ---- clause 2: a live peer is never torn down for liveness reasons ---- *)
(* every time-ordered history in which each watchdog run happens within T of the session start or of
   a preceding valid heartbeat leaves the session open — at the end and at every moment before *)
Theorem C14_live_peer_never_torn_down : forall T s a b,
  hs_closed s = false ->
  hb_sorted (hs_last s) (a ++ b) ->
  hb_covered T (hs_last s) (a ++ b) ->
  hs_closed (hb_srv_run T s a) = false.
Proof. exact hb_srv_live_never_closed_prefix. Qed.
Print Assumptions C14_live_peer_never_torn_down.

(* with the heartbeat switched off (timeout <= 0) the watchdog never closes anything *)
Theorem C14_disabled_never_closes : forall T evs s,
  T <= 0 -> hs_closed s = false -> hs_closed (hb_srv_run T s evs) = false.
Proof. exact hb_srv_disabled_never_closes. Qed.
Print Assumptions C14_disabled_never_closes.

(* which configurations switch it on: explicit positive value, or unset with tcpMux off (default 90);
   stated over the defaulting functions regenerated from Complete() by translator unit t14 *)
Theorem C14_server_heartbeat_enabled_iff : forall tcpmux t,
  gen_hb_server_default tcpmux t > 0 <-> (t > 0 \/ (t = 0 /\ tcpmux = false)).
Proof. exact gen_hb_server_enabled_iff. Qed.
Print Assumptions C14_server_heartbeat_enabled_iff.

Theorem C14_client_heartbeat_enabled_iff : forall tcpmux i t,
  (fst (gen_hb_client_default tcpmux i t) > 0 /\ snd (gen_hb_client_default tcpmux i t) > 0) <->
  ((i > 0 \/ (i = 0 /\ tcpmux = false)) /\ (t > 0 \/ (t = 0 /\ tcpmux = false))).
Proof. exact gen_hb_client_enabled_iff. Qed.
Print Assumptions C14_client_heartbeat_enabled_iff.

(* ---- "with all its resources released": no registration outlives the teardown ---- *)
(* Model/SrvTeardown.v: the server's read loop handles NewProxy in place (t14: gen_srv_async_newproxy = false) and
   doneCh is closed by that loop only, after the handler returned.  Hence, for EVERY sequence of NewProxy
   arrivals, every duration of the plugin chain / listener set-up and every instant at which the connection
   ends (peer gone, heartbeat watchdog), no registration lands after the teardown, and the teardown releases
   every registration that was started.  (So the names and ports are free when the client comes back:
   the premise of "re-registers all configured proxies".) *)
Theorem C14_no_registration_outlives_teardown : forall l free cut,
  (forall r, In r l -> 0 <= sr_dur r) ->
  st_leaked (st_run gen_srv_async_newproxy free cut l) = [].
Proof. exact st_today_never_leaks. Qed.
Print Assumptions C14_no_registration_outlives_teardown.

Theorem C14_teardown_releases_every_started_registration : forall l free cut regs free',
  (forall r, In r l -> 0 <= sr_dur r) ->
  st_loop gen_srv_async_newproxy free cut l = (regs, free') ->
  st_released (st_run gen_srv_async_newproxy free cut l) = map snd regs.
Proof. exact st_today_releases_all. Qed.
Print Assumptions C14_teardown_releases_every_started_registration.

Theorem C14_server_dispatcher_in_source :
  gen_srv_async_newproxy = false /\ gen_srv_async_closeproxy = false /\ gen_srv_async_ping = false /\
  gen_dispatcher_handlers_called_in_read_loop = true /\ gen_dispatcher_done_closed_by_read_loop_only = true.
Proof. repeat split; reflexivity. Qed.
Print Assumptions C14_server_dispatcher_in_source.

(* the model is sensitive to it: NewProxy at 1 s, plugin + listen 2.5 s, connection closed at 3 s *)
Theorem C14_async_newproxy_would_leak :
  st_leaked (st_run true 0 3000 [{| sr_at := 1000; sr_name := 1; sr_dur := 2500 |}]) = [1] /\
  st_leaked (st_run gen_srv_async_newproxy 0 3000 [{| sr_at := 1000; sr_name := 1; sr_dur := 2500 |}]) = [] /\
  st_released (st_run gen_srv_async_newproxy 0 3000 [{| sr_at := 1000; sr_name := 1; sr_dur := 2500 |}]) = [1].
Proof. exact st_async_would_leak. Qed.
Print Assumptions C14_async_newproxy_would_leak.

(* ---- which heartbeats are valid under auth.method = oidc with the HeartBeats scope ---- *)
(* The verifier is shared by all sessions (Model/PingAuth.v).  An identity that has logged in is remembered for
   good: every later (verified) ping of that identity is accepted, whatever other identities log in or ping
   in between, so by C14_live_peer_never_torn_down several clients with different identities never make
   each other's sessions flap.  t14: VerifyLogin only ever appends to subjectsFromLogin. *)
Theorem C14_oidc_logged_in_identity_always_accepted : forall evs subjects x,
  pa_mem x subjects = true ->
  forall v, In (x, v) (pa_run subjects evs) -> v = true.
Proof. exact pa_remembered_forever. Qed.
Print Assumptions C14_oidc_logged_in_identity_always_accepted.

Theorem C14_oidc_login_remembers_identity : forall subjects s, pa_mem s (pa_login subjects s) = true.
Proof. exact pa_login_adds. Qed.
Print Assumptions C14_oidc_login_remembers_identity.

Theorem C14_oidc_verifier_in_source : gen_oidc_login_only_appends_subject = true.
Proof. reflexivity. Qed.
Print Assumptions C14_oidc_verifier_in_source.

(* ---- invalid pings ---- *)
(* the state after any history equals the state after the same history with the invalid pings
   erased: for the watchdog an invalid ping is silence; and it is answered by an error Pong *)
Theorem C14_invalid_ping_does_not_refresh : forall T evs s,
  hb_srv_run T s evs = hb_srv_run T s (filter hb_not_invalid evs).
Proof. exact hb_srv_invalid_erasable. Qed.
Print Assumptions C14_invalid_ping_does_not_refresh.

Theorem C14_invalid_ping_answered_with_error : forall T s,
  fst (hb_srv_step T s HInvalidPing) = s /\
  (hs_closed s = false -> snd (hb_srv_step T s HInvalidPing) = HOPongErr).
Proof. exact hb_srv_invalid_step. Qed.
Print Assumptions C14_invalid_ping_answered_with_error.

(* ---- clause 3: the client applies the same rule to a silent server ---- *)
Theorem C14_client_same_rule_silent : forall I T g t0 start execs s evs,
  I > 0 -> T > 0 -> 0 <= g ->
  Forall (fun e => 0 <= e <= g) execs ->
  hc_tick_times evs = until_ticks hb_period start execs ->
  hc_last s <= t0 -> start <= t0 + T * hb_sec ->
  (forall t, In (CPong t) evs -> t <= t0) ->
  (exists t, In t (hc_tick_times evs) /\ t0 + T * hb_sec < t) ->
  exists e1 now e2,
    evs = e1 ++ CTick now :: e2 /\
    t0 + T * hb_sec < now <= t0 + T * hb_sec + hb_period + g /\
    hc_closed (hb_cli_run I T s (e1 ++ [CTick now])) = true /\
    hc_closed (hb_cli_run I T s evs) = true.
Proof. exact hb_cli_silent_within. Qed.
Print Assumptions C14_client_same_rule_silent.

Theorem C14_client_same_rule_live : forall I T s evs,
  hc_closed s = false ->
  ~ In CPongErr evs ->
  hc_sorted (hc_last s) evs ->
  hc_covered T (hc_last s) evs ->
  hc_closed (hb_cli_run I T s evs) = false.
Proof. exact hb_cli_live_never_closed. Qed.
Print Assumptions C14_client_same_rule_live.

(* a server that falls silent right after LoginResp — before its first Pong — is detected all the same:
   lastPong starts at the creation instant of the Control (hb_cli_init), so the bound counts from the login *)
Theorem C14_server_silent_from_start_detected : forall I T g start execs evs,
  I > 0 -> T > 0 -> 0 <= g ->
  Forall (fun e => 0 <= e <= g) execs ->
  hc_tick_times evs = until_ticks hb_period start execs ->
  (forall t, ~ In (CPong t) evs) ->
  (exists t, In t (hc_tick_times evs) /\ start + T * hb_sec < t) ->
  exists e1 now e2,
    evs = e1 ++ CTick now :: e2 /\
    start + T * hb_sec < now <= start + T * hb_sec + hb_period + g /\
    hc_closed (hb_cli_run I T (hb_cli_init start) (e1 ++ [CTick now])) = true /\
    hc_closed (hb_cli_run I T (hb_cli_init start) evs) = true.
Proof. exact hb_cli_silent_from_start. Qed.
Print Assumptions C14_server_silent_from_start_detected.

(* the same for a client that never sends a single valid Ping after its login *)
Theorem C14_client_silent_from_start_detected : forall T g start execs evs,
  T > 0 -> 0 <= g ->
  Forall (fun e => 0 <= e <= g) execs ->
  hb_tick_times evs = until_ticks hb_period start execs ->
  (forall t, ~ In (HValidPing t) evs) ->
  (exists t, In t (hb_tick_times evs) /\ start + T * hb_sec < t) ->
  exists e1 now e2,
    evs = e1 ++ HTick now :: e2 /\
    start + T * hb_sec < now <= start + T * hb_sec + hb_period + g /\
    hs_closed (hb_srv_run T (hb_srv_init start) (e1 ++ [HTick now])) = true /\
    hs_closed (hb_srv_run T (hb_srv_init start) evs) = true.
Proof. exact hb_srv_silent_from_start. Qed.
Print Assumptions C14_client_silent_from_start_detected.

(* the initial value and the shape of the test are read from the source by t14: both NewControl store
   time.Now() into lastPing / lastPong, and each 1 s watchdog callback consists of exactly the strict
   timeout test against that value followed by the close *)
Theorem C14_watchdog_init_and_test_in_source :
  gen_cli_lastpong_init_at_creation = true /\ gen_srv_lastping_init_at_creation = true /\
  gen_cli_watchdog_is_plain_timeout_test = true /\ gen_srv_watchdog_is_plain_timeout_test = true.
Proof. repeat split; reflexivity. Qed.
Print Assumptions C14_watchdog_init_and_test_in_source.

(* A healthy server is not declared dead because the client is busy: the Pongs the watchdog sees are
   stamped when their handler runs inside the dispatcher's single read loop (Model/CliDispatch.v).  With
   today's registration table (t14: gen_cli_async) every message is handled the instant it arrives, however
   long the dials of work connections hang (ca_block of ReqWorkConn is unconstrained, e.g. dialServerTimeout
   while new connections to frps are black-holed), provided the handlers that do run in the read loop return
   at once (t14: gen_cli_sync_handlers_nonblocking).  So C14_client_same_rule_live applies to the ARRIVAL
   instants of the Pongs. *)
Theorem C14_blocked_dials_do_not_starve_pongs : forall l free,
  cd_sorted free l ->
  (forall a, In a l -> ca_msg a <> MReqWorkConn -> ca_block a = 0) ->
  cd_process gen_cli_async free l = map (fun a => (ca_at a, ca_msg a)) l.
Proof. exact cd_pongs_stamped_on_arrival. Qed.
Print Assumptions C14_blocked_dials_do_not_starve_pongs.

Theorem C14_client_handlers_in_source :
  gen_cli_async_reqworkconn = true /\ gen_cli_sync_handlers_nonblocking = true.
Proof. split; reflexivity. Qed.
Print Assumptions C14_client_handlers_in_source.

(* the model is sensitive to it: with ReqWorkConn handled in the read loop, three dials hanging 2.5 s each
   make the client close a server that answers every Ping (interval 1 s, timeout 3 s) at the 4 s check;
   with today's table the same arrivals leave the session open *)
Theorem C14_sync_dials_would_starve_pongs :
  hb_cli_close_time 1 3 (hb_cli_init 0) (cd_history (fun _ => false) cd_demo_arrivals 9000) = Some 4000 /\
  hb_cli_close_time 1 3 (hb_cli_init 0) (cd_history gen_cli_async cd_demo_arrivals 9000) = None.
Proof. exact cd_demo_sync_starves_async_does_not. Qed.
Print Assumptions C14_sync_dials_would_starve_pongs.

Theorem C14_pong_error_closes_session : forall I T s e1 e2,
  hc_closed (hb_cli_run I T s (e1 ++ CPongErr :: e2)) = true.
Proof. exact hb_cli_pong_err_closes. Qed.
Print Assumptions C14_pong_error_closes_session.

(* ---- clause 4: bounded, positive, non-tight retry delays ---- *)
(* The option sets are the ones translator unit t14 reads from the wait.FastBackoffOptions literals in
   client/service.go and client/control.go on every run (coq/gen/GenBackoffOpts.v); today:
     gen_login_opts M : Duration 1 s, Factor 2, Jitter 0.1, MaxDuration M        (M = gen_first_login_max = 10 s, gen_relogin_max = 20 s)
     gen_keep_opts    : the same with MaxDuration 20 s, FastRetryCount 3, FastRetryDelay 200 ms,
                        FastRetryJitter 0.5, FastRetryWindow 1 min
     gen_ping_opts I  : Duration I s, InitDurationIfFail 1 s, Factor 2, Jitter 0.1, MaxDuration I s
   A changed literal either still meets the side conditions of the range theorem (re-checked by the
   generic scripts in Proofs/GenBackoffProofs.v) or breaks these obligations.
   Whatever the clock readings, the outcomes of the attempts and the random source, every delay
   BackoffUntil waits lies in the stated interval and the loop never reaches the
   NewTicker/Ticker.Reset panic on a non-positive duration. *)
Theorem C14_backoff_bounded_and_positive_login : forall M sliding now0 j0 l ds e,
  fb_second <= M -> bu_js_ok l ->
  bu_run sliding (gen_login_opts M) now0 j0 l = (ds, e) ->
  Forall (fun d => fb_second <= d <= M) ds /\ e <> BUPanic.
Proof. intros M sliding now0 j0 l ds e HM. exact (bu_run_range sliding _ _ _ now0 j0 l ds e (gen_login_wf M HM)). Qed.
Print Assumptions C14_backoff_bounded_and_positive_login.

Theorem C14_backoff_bounded_and_positive_keep : forall sliding now0 j0 l ds e,
  bu_js_ok l ->
  bu_run sliding gen_keep_opts now0 j0 l = (ds, e) ->
  Forall (fun d => 200 * fb_ns_ms <= d <= 20 * fb_second) ds /\ e <> BUPanic.
Proof. intros sliding now0 j0 l ds e. exact (bu_run_range sliding _ _ _ now0 j0 l ds e gen_keep_wf). Qed.
Print Assumptions C14_backoff_bounded_and_positive_keep.

(* the ping sender never waits longer than the configured interval (and never spins) *)
Theorem C14_ping_sender_period_bounded : forall I sliding now0 j0 l ds e,
  0 < I -> bu_js_ok l ->
  bu_run sliding (gen_ping_opts I) now0 j0 l = (ds, e) ->
  Forall (fun d => Z.min I 2 * fb_second <= d <= I * fb_second) ds /\ e <> BUPanic.
Proof. intros I sliding now0 j0 l ds e HI. exact (bu_run_range sliding _ _ _ now0 j0 l ds e (gen_ping_wf I HI)). Qed.
Print Assumptions C14_ping_sender_period_bounded.

(* the maxima the two call sites of loopLoginUntilSuccess pass are admissible (>= 1 s), and all three
   loops are run with sliding = true *)
Theorem C14_login_call_sites_admissible :
  fb_second <= gen_first_login_max /\ fb_second <= gen_relogin_max /\
  gen_login_sliding = true /\ gen_keep_sliding = true /\ gen_ping_sliding = true.
Proof. exact (conj (proj1 gen_login_maxima_ok) (conj (proj2 gen_login_maxima_ok) gen_all_sliding)). Qed.
Print Assumptions C14_login_call_sites_admissible.

(* the session-loop model's only "give up" step is loginFunc's `if firstLoginExit { svr.cancel }`:
   t14 checks that login() and keepControllerWorking contain no svr.cancel and loopLoginUntilSuccess
   exactly that one, that Run passes the LoginFailExit setting and keepControllerWorking the constant false *)
Theorem C14_relogin_never_cancels_in_source :
  gen_login_cancel_only_under_first_login_exit = true /\ gen_first_login_exit_from_cfg = true /\ gen_relogin_exit = false.
Proof. repeat split; reflexivity. Qed.
Print Assumptions C14_relogin_never_cancels_in_source.

(* no tight loop: for every option set and every history of calls, a stretch whose clock readings
   span at most FastRetryWindow contains at most 2 * FastRetryCount fast retries, ... *)
Theorem C14_fast_retries_bounded_per_window : forall o pre win tmin,
  0 <= fo_fast_count o ->
  (forall x, In x win -> tmin <= fc_now x <= tmin + fo_fast_window o) ->
  fb_count_fast (fb_calls o (fb_after_calls o fb_init pre) win) <= 2 * fo_fast_count o.
Proof. exact fb_fast_retries_per_window. Qed.
Print Assumptions C14_fast_retries_bounded_per_window.

(* (the stronger reading "at most FastRetryCount per window" is false for the code as written: the
   counter starts at 1 with a zero cut-off instant, so the first over-quota call resets it at once;
   witness: keepControllerWorking's options, an error every second -> 5 fast retries in 6 s;
   replayed on the real fastBackoffImpl by the backoff driver's fixed first case) *)
Theorem C14_fast_retries_single_quota_refuted :
  forallb (fun x => (0 <=? fc_now x) && (fc_now x <=? 0 + fo_fast_window gen_keep_opts)) fb_quota_witness_win = true /\
  fb_count_fast (fb_calls gen_keep_opts (fb_after_calls gen_keep_opts fb_init fb_quota_witness_pre) fb_quota_witness_win) = 5 /\
  fo_fast_count gen_keep_opts = 3.
Proof. exact gen_single_quota_refuted. Qed.
Print Assumptions C14_fast_retries_single_quota_refuted.

(* ... never more than FastRetryCount of them in a row, ... *)
Theorem C14_fast_retries_never_more_than_count_in_a_row : forall o pre run,
  0 <= fo_fast_count o ->
  fb_all_fast (fb_calls o (fb_after_calls o fb_init pre) run) = true ->
  Z.of_nat (length run) <= fo_fast_count o.
Proof. exact fb_fast_run_bounded. Qed.
Print Assumptions C14_fast_retries_never_more_than_count_in_a_row.

(* ... and every other retry after an error at least doubles the previous delay up to the cap *)
Theorem C14_slow_retry_doubles : forall cec prev j,
  0 < prev -> 0 <= j < fb_JS ->
  Z.min (2 * prev) (20 * fb_second) <= fb_slow gen_keep_opts cec prev j.
Proof. exact gen_slow_retry_doubles. Qed.
Print Assumptions C14_slow_retry_doubles.

(* ---- clause 5: a new session re-sends every configured registration; the loop never gives up ---- *)
(* [ef] = common.LoginFailExit (default true); the flag keepControllerWorking passes to its
   loopLoginUntilSuccess is the generated constant gen_relogin_exit *)
Theorem C14_relogin_resends_all : forall cfg ef evs,
  let st := rl_run (rl_init cfg ef gen_relogin_exit) evs in
  rl_phase_of st = PLogin ->
  let st' := rl_step st RLoginOk in
  rl_phase_of st' = PRunning /\
  exists m, rl_ctl st' = Some m /\ rl_history st' = m :: rl_history st /\
    (forall n c, In (n, c) m <-> rl_lookup n (rl_cfg st) = Some c) /\
    (forall n c, In (n, c) (rl_cfg st) -> exists c', In (n, c') m).
Proof. exact (fun cfg ef => rl_relogin_resends_all cfg ef gen_relogin_exit). Qed.
Print Assumptions C14_relogin_resends_all.

(* a reload that arrives while the client is retrying (session lost, logins failing) is what the next
   session registers: exactly the CURRENT configured set, not the one at the time the connection was lost;
   t14 checks that svr.proxyCfgs / visitorCfgs are read inside the retried login closure *)
Theorem C14_reload_while_retrying_is_honoured : forall cfg ef pre cfgs' fails,
  Forall (fun e => e = RLoginFail \/ e = RLoginRefused) fails ->
  let st := rl_run (rl_init cfg ef gen_relogin_exit) (pre ++ RReload cfgs' :: fails) in
  rl_phase_of st = PLogin ->
  exists m, rl_ctl (rl_step st RLoginOk) = Some m /\
            rl_history (rl_step st RLoginOk) = m :: rl_history st /\
            forall n c, In (n, c) m <-> rl_lookup n cfgs' = Some c.
Proof. exact (fun cfg ef => rl_reload_while_retrying cfg ef gen_relogin_exit). Qed.
Print Assumptions C14_reload_while_retrying_is_honoured.

Theorem C14_config_read_at_login_time_in_source : gen_cfg_read_inside_login_closure = true.
Proof. reflexivity. Qed.
Print Assumptions C14_config_read_at_login_time_in_source.

(* Whatever loginFailExit says: once one login has succeeded, no sequence of lost sessions, failed or
   REFUSED logins and reloads — as long as nobody stops the service — makes the loop halt: the client
   is either running a session or about to make a login attempt. *)
Theorem C14_client_never_gives_up_after_first_login : forall cfg ef pre post,
  let s0 := rl_run (rl_init cfg ef gen_relogin_exit) pre in
  rl_phase_of s0 = PLogin ->
  ~ In RStop post ->
  let st := rl_run (rl_step s0 RLoginOk) post in
  rl_phase_of st = PLogin \/ (rl_phase_of st = PRunning /\ exists m, rl_ctl st = Some m).
Proof. exact rl_never_gives_up_after_first_login. Qed.
Print Assumptions C14_client_never_gives_up_after_first_login.

(* with loginFailExit off the same holds from the very first attempt *)
Theorem C14_client_never_gives_up : forall cfg evs,
  ~ In RStop evs ->
  let st := rl_run (rl_init cfg false gen_relogin_exit) evs in
  rl_phase_of st = PLogin \/ (rl_phase_of st = PRunning /\ exists m, rl_ctl st = Some m).
Proof. exact rl_never_gives_up. Qed.
Print Assumptions C14_client_never_gives_up.

(* (by design, outside the property: with loginFailExit on, a failure of the FIRST login stops frpc) *)
Theorem C14_first_login_failure_exits_when_configured : forall cfg er,
  rl_phase_of (rl_step (rl_init cfg true er) RLoginFail) = PStopped /\
  rl_phase_of (rl_step (rl_init cfg true er) RLoginRefused) = PStopped.
Proof. exact rl_first_login_failure_exits. Qed.
Print Assumptions C14_first_login_failure_exits_when_configured.

Theorem C14_session_end_leads_to_login : forall cfg ef evs,
  let st := rl_run (rl_init cfg ef gen_relogin_exit) evs in
  rl_phase_of st = PRunning -> rl_phase_of (rl_step st RSessionEnd) = PLogin.
Proof. exact (fun cfg ef => rl_session_end_relogin cfg ef gen_relogin_exit). Qed.
Print Assumptions C14_session_end_leads_to_login.

(* ---- the hypotheses are satisfiable; the bounds are attained ---- *)
(* timeout 3 s, session created at 0, pings at 1 s and 2 s, then silence; watchdog every second:
   still open at the 5 s check (5000 - 2000 = 3000 is not > 3000), closed by the 6 s check *)
Example C14_ex_silent :
  let evs := [HTick 0; HTick 1000; HValidPing 1000; HTick 2000; HValidPing 2000; HTick 3000; HInvalidPing;
              HTick 4000; HTick 5000; HTick 6000; HTick 7000] in
  hb_srv_close_time 3 (hb_srv_init 0) evs = Some 6000 /\
  hs_closed (hb_srv_run 3 (hb_srv_init 0) (firstn 9 evs)) = false.
Proof. vm_compute. split; reflexivity. Qed.

Example C14_ex_live :
  let evs := [HTick 0; HTick 1000; HValidPing 1500; HTick 2000; HTick 3000; HTick 4000; HValidPing 4400; HTick 5000;
              HTick 6000; HTick 7000] in
  hb_sorted 0 evs /\ hs_closed (hb_srv_run 3 (hb_srv_init 0) evs) = false.
Proof. vm_compute. repeat split; discriminate. Qed.

(* keepControllerWorking with every attempt failing and the largest jitter: two fast retries, one
   slow retry that resets the window, three fast retries, then doubling up to the 20 s cap *)
Example C14_ex_keep_delays :
  let att := fun k => {| ba_out := BErr; ba_now := k * fb_second; ba_j := 0 |} in
  fst (bu_run gen_keep_sliding gen_keep_opts 0 0 (map att [1;2;3;4;5;6;7;8;9;10;11;12;13;14])) =
  map (fun ms => ms * fb_ns_ms) [200; 200; 400; 200; 200; 200; 400; 800; 1600; 3200; 6400; 12800; 20000; 20000].
Proof. vm_compute. reflexivity. Qed.

Example C14_ex_relogin :
  let st := rl_run (rl_init [(1, 10); (2, 20); (1, 11)] false gen_relogin_exit)
                  [RLoginFail; RLoginFail; RLoginOk; RSessionEnd; RLoginRefused; RLoginOk] in
  rl_history st = [[(1, 10); (2, 20)]; [(1, 10); (2, 20)]] /\ rl_attempts st = 5.
Proof. vm_compute. split; reflexivity. Qed.
