(* C02 — admission of a request to a backend connection by the vhost reverse proxy's http.Transport.
   The transport's "host" is the synthetic pool key of the route (Model/HttpRewrite.v hr_pool_key), so a
   per-host connection cap is a cap per route.

     ht_get_conn     net/http.Transport.getConn / queueForIdleConn / queueForDial, for one pool key:
                     an idle connection is taken if there is one; otherwise a new one is dialled unless
                     MaxConnsPerHost > 0 and connsPerHost[key] >= MaxConnsPerHost, in which case the
                     request WAITS inside the transport (no timeout of its own: ResponseHeaderTimeout
                     starts only once the request has been written)
     ht_fields       the fields of the `&http.Transport{...}` literal in NewHTTPReverseProxy, regenerated
                     from pkg/util/vhost/http.go on every run (translator unit t9tr -> gen/GenVhostTransport.v)

   The library's admission rule is standard library behaviour (observed by the harness: k concurrent open
   exchanges on one route, then a probe).  frp's part is the configuration of the transport.
   Model only: no proofs in this file.  Prefix ht_. *)
From FRP Require Export Model.Bytes.
Open Scope Z_scope.

Inductive ht_val := HtInt (z : Z) | HtExpr (s : string) | HtFunc.
Definition ht_fields := list (string * ht_val).

Fixpoint ht_lookup (name : string) (fs : ht_fields) : option ht_val :=
  match fs with
  | [] => None
  | (n, v) :: r => if String.eqb n name then Some v else ht_lookup name r
  end.

(* MaxConnsPerHost as the transport will see it: the zero value (field absent) means no limit;
   None = set by an expression the translator cannot evaluate *)
Definition ht_max_conns (fs : ht_fields) : option Z :=
  match ht_lookup "MaxConnsPerHost" fs with
  | None => Some 0
  | Some (HtInt z) => Some z
  | Some _ => None
  end.

Inductive ht_admit := HtReuseIdle | HtDial | HtQueued.

(* per pool key: connections counted against the cap (dialling, in flight, idle, upgraded), idle ones *)
Record ht_key := { ht_open : Z; ht_idle : Z }.

Definition ht_get_conn (max : Z) (s : ht_key) : ht_admit * ht_key :=
  if 0 <? ht_idle s then (HtReuseIdle, {| ht_open := ht_open s; ht_idle := ht_idle s - 1 |})
  else if (0 <? max) && (max <=? ht_open s) then (HtQueued, s)
  else (HtDial, {| ht_open := ht_open s + 1; ht_idle := ht_idle s |}).

(* histories over several keys *)
Inductive ht_op :=
| HtRequest (key : bytes)                 (* a request for this route arrives *)
| HtFinish (key : bytes) (keep : bool).   (* an exchange of this route ends; its connection goes idle or is closed *)

Definition ht_state := list (bytes * ht_key).

Fixpoint ht_find (k : bytes) (st : ht_state) : ht_key :=
  match st with
  | [] => {| ht_open := 0; ht_idle := 0 |}
  | (k', s) :: r => if bytes_eqb k' k then s else ht_find k r
  end.

Fixpoint ht_put (k : bytes) (s : ht_key) (st : ht_state) : ht_state :=
  match st with
  | [] => [(k, s)]
  | (k', s') :: r => if bytes_eqb k' k then (k, s) :: r else (k', s') :: ht_put k s r
  end.

Definition ht_step (max : Z) (st : ht_state) (op : ht_op) : ht_state * list ht_admit :=
  match op with
  | HtRequest k => let '(a, s) := ht_get_conn max (ht_find k st) in (ht_put k s st, [a])
  | HtFinish k keep =>
      let s := ht_find k st in
      (ht_put k (if keep then {| ht_open := ht_open s; ht_idle := ht_idle s + 1 |}
                 else {| ht_open := ht_open s - 1; ht_idle := ht_idle s |}) st, [])
  end.

Fixpoint ht_run (max : Z) (st : ht_state) (ops : list ht_op) : list ht_admit :=
  match ops with
  | [] => []
  | op :: r => let '(st', out) := ht_step max st op in out ++ ht_run max st' r
  end.

(* the literal as the reflective obligation accepts it: exactly one literal, only fields that have been
   looked at (none of them bounds the number of connections of a key), no later assignment to the transport *)
Definition ht_reviewed_fields : list string :=
  ["ResponseHeaderTimeout"; "IdleConnTimeout"; "MaxIdleConnsPerHost"; "MaxIdleConns"; "DialContext"; "Proxy"]%string.

Definition ht_str_mem (s : string) (l : list string) : bool := existsb (String.eqb s) l.

Definition ht_literal_ok (nlits : Z) (fs : ht_fields) (assigned : list string) : bool :=
  (nlits =? 1) && forallb (fun f => ht_str_mem (fst f) ht_reviewed_fields) fs &&
  match assigned with [] => true | _ => false end.

Definition ht_is_queued (a : ht_admit) : bool := match a with HtQueued => true | _ => false end.

(* ---------------------------------------------------------------------------------------- *)
(* Life time of the pooled compression resources of a tunnel stream (libio.WithCompressionFromPool):
   the statements of a function abstracted to events by translator unit t9rc (gen/GenRecycle.v).
   A snappy reader/writer pair that goes back to the sync.Pool while its stream is still being served is
   Reset onto the next compressed connection: two streams then share one decoder/encoder. *)
Inductive rc_ev :=
| RcAcquire                                  (* x, recycle = WithCompressionFromPool(x) *)
| RcDefer                                    (* defer recycle() *)
| RcRecycle                                  (* recycle() *)
| RcJoin                                     (* libio.Join(..): returns when the stream has ended *)
| RcClose                                    (* the work / user connection is closed: the stream has ended *)
| RcAsync                                    (* plugin.Handle(..): queues the stream for somebody else, returns at once *)
| RcUnknown (what : string)
| RcIf (body : list rc_ev) (returns : bool). (* an if block; returns: it ends with a return statement *)

(* all executions of a statement list as event sequences (a path ends where the function returns) *)
Fixpoint rc_seq (e : rc_ev) (cont : list (list rc_ev)) : list (list rc_ev) :=
  match e with
  | RcIf body returns =>
      cont ++ (fix go (l : list rc_ev) : list (list rc_ev) :=
                 match l with
                 | [] => if returns then [[]] else cont
                 | x :: r => rc_seq x (go r)
                 end) body
  | a => map (cons a) cont
  end.

Definition rc_paths (evs : list rc_ev) : list (list rc_ev) := fold_right rc_seq [[]] evs.

(* one execution: the resources are given back only when the stream they serve has ended.
   [alive]: resources acquired and their stream not yet ended; [deferred]: a deferred recycle is pending
   and fires when the function returns (end of the path) *)
Fixpoint rc_path_safe (p : list rc_ev) (alive deferred : bool) : bool :=
  match p with
  | [] => negb (deferred && alive)
  | RcAcquire :: r => rc_path_safe r true deferred
  | RcDefer :: r => rc_path_safe r alive true
  | RcRecycle :: r => negb alive && rc_path_safe r alive deferred
  | RcJoin :: r => rc_path_safe r false deferred
  | RcClose :: r => rc_path_safe r false deferred
  | RcAsync :: r => rc_path_safe r alive deferred
  | RcUnknown _ :: _ => false
  | RcIf _ _ :: _ => false
  end.

Definition rc_site_safe (evs : list rc_ev) : bool := forallb (fun p => rc_path_safe p false false) (rc_paths evs).
Definition rc_sites_safe (sites : list (string * string * list rc_ev)) : bool :=
  match sites with [] => false | _ => forallb (fun s => rc_site_safe (snd s)) sites end.

(* ---------------------------------------------------------------------------------------- *)
(* Deadlines on a user connection routed by vhost.Muxer.handle (https and tcpmux proxies): the statements
   of the function that touch a deadline, regenerated by translator unit t9dl (gen/GenMuxDeadline.v).
   net.Conn semantics: SetDeadline = both directions; the zero time clears; an armed deadline makes every
   Read / Write at or after that instant fail with a timeout (libio.Join then closes both sides). *)
Inductive mx_which := MxBoth | MxRead | MxWrite.
Inductive mx_op := MxArm (w : mx_which) | MxClear (w : mx_which) | MxHandoff | MxUnknownOp (what : string).

(* (read deadline armed, write deadline armed) *)
Definition mx_apply (st : bool * bool) (set : bool) (w : mx_which) : bool * bool :=
  match w with
  | MxBoth => (set, set)
  | MxRead => (set, snd st)
  | MxWrite => (fst st, set)
  end.

(* state of the connection at the moment it is handed to the proxy; None: never handed over / not understood *)
Fixpoint mx_at_handoff (ops : list mx_op) (st : bool * bool) : option (bool * bool) :=
  match ops with
  | [] => None
  | MxArm w :: r => mx_at_handoff r (mx_apply st true w)
  | MxClear w :: r => mx_at_handoff r (mx_apply st false w)
  | MxHandoff :: _ => Some st
  | MxUnknownOp _ :: _ => None
  end.

Definition mx_handoff_clean (ops : list mx_op) : bool :=
  match mx_at_handoff ops (false, false) with
  | Some (false, false) => true
  | _ => false
  end.

(* bytes written towards the user on the routed connection, each chunk at an age (ms since accept): what the
   user receives.  The first write at or after the deadline fails and ends the stream. *)
Fixpoint mx_deliver (wr_armed : bool) (timeout : Z) (chunks : list (Z * bytes)) : bytes :=
  match chunks with
  | [] => []
  | (age, d) :: r => if wr_armed && (timeout <=? age) then [] else d ++ mx_deliver wr_armed timeout r
  end.

(* requests read from the user on the routed connection, each arriving at an age: how many are read *)
Fixpoint mx_reads (rd_armed : bool) (timeout : Z) (ages : list Z) : Z :=
  match ages with
  | [] => 0
  | age :: r => if rd_armed && (timeout <=? age) then 0 else 1 + mx_reads rd_armed timeout r
  end.

Definition mx_deliver_after (ops : list mx_op) (timeout : Z) (chunks : list (Z * bytes)) : option bytes :=
  match mx_at_handoff ops (false, false) with
  | Some (_, wr) => Some (mx_deliver wr timeout chunks)
  | None => None
  end.

Definition mx_reads_after (ops : list mx_op) (timeout : Z) (ages : list Z) : option Z :=
  match mx_at_handoff ops (false, false) with
  | Some (rd, _) => Some (mx_reads rd timeout ages)
  | None => None
  end.

(* ---------------------------------------------------------------------------------------- *)
(* The http.Server literal that serves vhostHTTPPort (server/service.go), regenerated by unit t9tr.
   net/http reads a request head of at most MaxHeaderBytes + 4096 bytes (DefaultMaxHeaderBytes = 1 MiB when the
   field is zero) and answers 431 itself beyond that: the backend never sees the request. *)
Definition hsv_reviewed_fields : list string := ["Addr"; "Handler"; "ReadHeaderTimeout"]%string.

Definition hsv_literal_ok (nlits : Z) (fs : ht_fields) : bool :=
  (nlits =? 1) && forallb (fun f => ht_str_mem (fst f) hsv_reviewed_fields) fs.

Definition hsv_max_header_bytes (fs : ht_fields) : option Z :=
  match ht_lookup "MaxHeaderBytes" fs with
  | None => Some 1048576
  | Some (HtInt z) => Some (if z =? 0 then 1048576 else z)
  | Some _ => None
  end.

Definition hsv_head_admitted (fs : ht_fields) (head_bytes : Z) : option bool :=
  match hsv_max_header_bytes fs with
  | Some m => Some (head_bytes <=? m + 4096)
  | None => None
  end.

(* ---------------------------------------------------------------------------------------- *)
(* http load-balancing groups (server/group/http.go) behind one route of the vhost reverse proxy.
   The route of a group carries ChooseEndpointFn / CreateConnByEndpointFn / CreateConnFn of the group:
     hg_choose          HTTPGroup.chooseEndpoint: pxyNames[index mod len], "" (error) when the group is empty
     hg_by_endpoint     HTTPGroup.createConnByEndpoint: the member of that name, nothing for any other name
     hg_create_conn     HTTPGroup.createConn: round robin over the members (used by connectHandler through
                        HTTPReverseProxy.CreateConnection(info, false))
   A member is (name, backend id). *)
Definition hg_members := list (bytes * Z).

Definition hg_choose (ms : hg_members) (index : Z) : bytes :=
  match ms with
  | [] => []
  | _ => match nth_error ms (Z.to_nat (index mod Z.of_nat (length ms))) with
         | Some (n, _) => n
         | None => []
         end
  end.

Fixpoint hg_by_endpoint (ms : hg_members) (name : bytes) : option Z :=
  match ms with
  | [] => None
  | (n, b) :: r => if bytes_eqb n name then Some b else hg_by_endpoint r name
  end.

Definition hg_create_conn (ms : hg_members) (index : Z) : option Z :=
  match ms with
  | [] => None
  | _ => match nth_error ms (Z.to_nat (index mod Z.of_nat (length ms))) with
         | Some (_, b) => Some b
         | None => None
         end
  end.

(* the endpoint id of a member (HTTPGroup.Register, repair e71b6d4): proxy name + "#" + the number of this join,
   counted over all http groups; chooseEndpoint hands out the id, createConnByEndpoint resolves it.  [dec] is
   strconv.FormatUint (Model/HttpRewrite.v hr_dec). *)
Definition hg_endpoint_id (dec : Z -> bytes) (name : bytes) (join : Z) : bytes := name ++ [x23] ++ dec join.
Definition hg_endpoint_shape_ok (endpoint_expr choose_returns : string) : bool :=
  String.eqb endpoint_expr "proxyName + ""#"" + strconv.FormatUint(atomic.AddUint64(&httpGroupJoinSeq, 1), 10)" &&
  String.eqb choose_returns "g.endpoints[g.pxyNames[int(newIndex)%len(g.pxyNames)]]".

(* how the Rewrite closure binds the chosen endpoint (translator unit t9gr, gen/GenGroupGlue.v):
   the token of the statement that calls ChooseEndpointFn ("=" assigns the closure's `endpoint` variable,
   ":=" would declare a new one), whether that statement's first target is `endpoint`, whether the URL.Host
   expression and `reqRouteInfo.Endpoint = ...` read `endpoint`; and how connectHandler obtains its
   connection: callee and last argument *)
Record hg_glue := {
  hgl_choose_tok : string; hgl_choose_target : string;
  hgl_urlhost_reads_endpoint : bool; hgl_info_endpoint_from : string;
  hgl_connect_callee : string; hgl_connect_by_endpoint : string
}.

Definition hg_glue_ok (g : hg_glue) : bool :=
  String.eqb (hgl_choose_tok g) "=" && String.eqb (hgl_choose_target g) "endpoint" &&
  hgl_urlhost_reads_endpoint g && String.eqb (hgl_info_endpoint_from g) "endpoint" &&
  String.eqb (hgl_connect_callee g) "rp.CreateConnection" && String.eqb (hgl_connect_by_endpoint g) "false".

(* the endpoint that ends up in the pool key / in RequestRouteInfo.Endpoint, given the glue *)
Definition hg_key_endpoint (g : hg_glue) (chosen : bytes) : bytes :=
  if String.eqb (hgl_choose_tok g) "=" && String.eqb (hgl_choose_target g) "endpoint" && hgl_urlhost_reads_endpoint g
  then chosen else [].

(* the connection a CONNECT gets, given the glue: CreateConnection(info, false) -> createConn (round robin);
   anything that goes by endpoint finds info.Endpoint = "" (connectHandler never chooses one) *)
Definition hg_connect_conn (g : hg_glue) (ms : hg_members) (index : Z) : option Z :=
  if String.eqb (hgl_connect_callee g) "rp.CreateConnection" && String.eqb (hgl_connect_by_endpoint g) "false"
  then hg_create_conn ms index else hg_by_endpoint ms [].

(* ---------------------------------------------------------------------------------------- *)
(* The group's RWMutex and the dial of a member (createConnByEndpoint / createConn): event shapes from
   translator unit t9gr.  Go's RWMutex: a waiting writer blocks new readers. *)
Inductive lk_ev := LkRLock | LkRUnlock | LkDeferRUnlock | LkDial | LkOther (what : string).

(* is the read lock held when the member's CreateConnFn is called? *)
Fixpoint lk_held_at_dial (evs : list lk_ev) (held deferred : bool) : option bool :=
  match evs with
  | [] => None                                   (* no dial in the function *)
  | LkRLock :: r => lk_held_at_dial r true deferred
  | LkRUnlock :: r => lk_held_at_dial r false deferred
  | LkDeferRUnlock :: r => lk_held_at_dial r held true
  | LkDial :: _ => Some held
  | LkOther _ :: _ => Some true                   (* not understood: assume the worst *)
  end.

Definition lk_dial_unlocked (evs : list lk_ev) : bool :=
  match lk_held_at_dial evs false false with Some false => true | _ => false end.

(* threads of the scenario: D dials a member whose dial stalls ([d_locked]: it holds the read lock meanwhile),
   W changes the membership (write lock), R is another request (read lock, then its own dial).
   State of the mutex: readers, writer waiting, writer active.  A schedule is a list of thread ids; a step of a
   thread that cannot proceed leaves the state unchanged (it waits). *)
Inductive lk_tid := LkD | LkW | LkR.
Record lk_state := {
  ls_readers : Z; ls_wwait : bool; ls_wactive : bool;
  ls_d : Z;   (* 0 before RLock, 1 holding (stalled dial when d_locked), 2 dial stalled without lock *)
  ls_w : Z;   (* 0 before Lock, 1 waiting, 2 holding, 3 done *)
  ls_r : Z    (* 0 before RLock, 1 holding, 2 done (answered) *)
}.
Definition lk_init : lk_state := {| ls_readers := 0; ls_wwait := false; ls_wactive := false; ls_d := 0; ls_w := 0; ls_r := 0 |}.

Definition lk_step (d_locked : bool) (s : lk_state) (t : lk_tid) : lk_state :=
  let can_read := negb (ls_wwait s) && negb (ls_wactive s) in
  match t with
  | LkD =>
      if (ls_d s =? 0) && can_read then
        {| ls_readers := ls_readers s + 1; ls_wwait := ls_wwait s; ls_wactive := ls_wactive s; ls_d := 1; ls_w := ls_w s; ls_r := ls_r s |}
      else if (ls_d s =? 1) && negb d_locked then      (* RUnlock, then the dial (which stalls) *)
        {| ls_readers := ls_readers s - 1; ls_wwait := ls_wwait s; ls_wactive := ls_wactive s; ls_d := 2; ls_w := ls_w s; ls_r := ls_r s |}
      else s                                            (* d_locked: stays in the stalled dial holding the lock *)
  | LkW =>
      if ls_w s =? 0 then
        {| ls_readers := ls_readers s; ls_wwait := true; ls_wactive := ls_wactive s; ls_d := ls_d s; ls_w := 1; ls_r := ls_r s |}
      else if (ls_w s =? 1) && (ls_readers s =? 0) then
        {| ls_readers := 0; ls_wwait := false; ls_wactive := true; ls_d := ls_d s; ls_w := 2; ls_r := ls_r s |}
      else if ls_w s =? 2 then
        {| ls_readers := ls_readers s; ls_wwait := ls_wwait s; ls_wactive := false; ls_d := ls_d s; ls_w := 3; ls_r := ls_r s |}
      else s
  | LkR =>
      if (ls_r s =? 0) && can_read then
        {| ls_readers := ls_readers s + 1; ls_wwait := ls_wwait s; ls_wactive := ls_wactive s; ls_d := ls_d s; ls_w := ls_w s; ls_r := 1 |}
      else if ls_r s =? 1 then
        {| ls_readers := ls_readers s - 1; ls_wwait := ls_wwait s; ls_wactive := ls_wactive s; ls_d := ls_d s; ls_w := ls_w s; ls_r := 2 |}
      else s
  end.

Definition lk_run (d_locked : bool) (sched : list lk_tid) : lk_state := fold_left (lk_step d_locked) sched lk_init.

(* nobody waits for the stalled dial: in every state W or R can make a step unless it is finished *)
Definition lk_w_or_r_enabled (d_locked : bool) (s : lk_state) : bool :=
  ((ls_w s =? 3) || negb (ls_w (lk_step d_locked s LkW) =? ls_w s)) ||
  ((ls_r s =? 2) || negb (ls_r (lk_step d_locked s LkR) =? ls_r s)).

(* quic-go stream semantics as used by wrapQuicStream.Close (pkg/util/net/conn.go): Close = FIN after all
   written bytes have been delivered; CancelWrite = RESET_STREAM, bytes not yet delivered are dropped
   ([delivered_so_far] is an oracle: a prefix of what was written); CancelRead only stops the receiving side *)
Definition qs_graceful (calls : list string) : bool :=
  ht_str_mem "Close" calls && negb (ht_str_mem "CancelWrite" calls).
Definition qs_received (calls : list string) (written delivered_so_far : bytes) : bytes :=
  if qs_graceful calls then written else delivered_so_far.

(* finite exploration of the lock scenario *)
Definition lk_state_eqb (a b : lk_state) : bool :=
  (ls_readers a =? ls_readers b) && Bool.eqb (ls_wwait a) (ls_wwait b) && Bool.eqb (ls_wactive a) (ls_wactive b) &&
  (ls_d a =? ls_d b) && (ls_w a =? ls_w b) && (ls_r a =? ls_r b).
Definition lk_mem (s : lk_state) (l : list lk_state) : bool := existsb (lk_state_eqb s) l.
Definition lk_succ (d_locked : bool) (s : lk_state) : list lk_state :=
  [lk_step d_locked s LkD; lk_step d_locked s LkW; lk_step d_locked s LkR].
Fixpoint lk_explore (d_locked : bool) (fuel : nat) (seen frontier : list lk_state) : list lk_state :=
  match fuel with
  | O => seen
  | S f =>
      let new := filter (fun s => negb (lk_mem s seen)) (flat_map (lk_succ d_locked) frontier) in
      let new := fold_left (fun acc s => if lk_mem s acc then acc else acc ++ [s]) new [] in
      match new with
      | [] => seen
      | _ => lk_explore d_locked f (seen ++ new) new
      end
  end.
Definition lk_states (d_locked : bool) : list lk_state := lk_explore d_locked 40 [lk_init] [lk_init].
(* the reachable states of the scenario with the dial made outside the lock, computed once *)
Definition lk_states_unlocked : list lk_state := Eval vm_compute in lk_states false.
Definition lk_closed (d_locked : bool) (l : list lk_state) : bool :=
  lk_mem lk_init l && forallb (fun s => forallb (fun s' => lk_mem s' l) (lk_succ d_locked s)) l.
(* whatever happened so far, letting the writer and the other request run to completion succeeds *)
Definition lk_completion : list lk_tid := [LkD; LkD; LkR; LkR; LkW; LkW; LkW; LkD; LkD; LkR; LkR].
Definition lk_completes (d_locked : bool) (s : lk_state) : bool :=
  let e := fold_left (lk_step d_locked) lk_completion s in (ls_w e =? 3) && (ls_r e =? 2).
