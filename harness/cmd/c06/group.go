package main

// Driver "group" (C06): routes registered through server/group/http.go (HTTPGroupController) on the
// Routers shared with the HTTPReverseProxy; single-member groups joining and leaving between
// requests.  Same observables as router-http.

import (
	"fmt"
	"io"
	"net"
	"net/http"
	"strconv"
	"sync/atomic"
	"time"

	"verifharness/hx"

	"github.com/fatedier/frp/pkg/util/vhost"
	"github.com/fatedier/frp/server/group"
)

func init() { drivers["group"] = runGroup }

type groupWorld struct {
	rp      *vhost.HTTPReverseProxy
	ctl     *group.HTTPGroupController
	front   net.Listener
	srv     *http.Server
	backLn  map[int64]net.Listener
	backSrv []*http.Server
	dials   int64
	client  *http.Client
}

func newGroupWorld() (*groupWorld, error) {
	w := &groupWorld{backLn: map[int64]net.Listener{}}
	routers := vhost.NewRouters()
	w.rp = vhost.NewHTTPReverseProxy(vhost.HTTPReverseProxyOptions{ResponseHeaderTimeoutS: 20}, routers)
	w.ctl = group.NewHTTPGroupController(routers)
	ln, err := net.Listen("tcp", "127.0.6.4:0")
	if err != nil {
		return nil, err
	}
	w.front = ln
	w.srv = &http.Server{Handler: w.rp}
	go func() { _ = w.srv.Serve(ln) }()
	for o := int64(1); o <= nOwners; o++ {
		bl, err := net.Listen("tcp", "127.0.6.5:0")
		if err != nil {
			return nil, err
		}
		owner := o
		bs := &http.Server{Handler: http.HandlerFunc(func(rw http.ResponseWriter, r *http.Request) {
			rw.Header().Set("X-Backend", strconv.FormatInt(owner, 10))
			_, _ = io.WriteString(rw, "ok")
		})}
		w.backLn[o] = bl
		w.backSrv = append(w.backSrv, bs)
		go func() { _ = bs.Serve(bl) }()
	}
	w.client = &http.Client{Transport: &http.Transport{DisableKeepAlives: true}, Timeout: 10 * time.Second}
	return w, nil
}

func (w *groupWorld) close() {
	_ = w.srv.Close()
	for _, b := range w.backSrv {
		_ = b.Close()
	}
}

func (w *groupWorld) createConnFn(owner int64) vhost.CreateConnFunc {
	addr := w.backLn[owner].Addr().String()
	return func(string) (net.Conn, error) {
		atomic.AddInt64(&w.dials, 1)
		return net.Dial("tcp", addr)
	}
}

// get returns the backend that answered (0 = 404) and whether the proxy dialled
func (w *groupWorld) get(host, path string) (int64, bool, error) {
	before := atomic.LoadInt64(&w.dials)
	req, _ := http.NewRequest("GET", "http://"+w.front.Addr().String()+path, nil)
	req.Host = host
	resp, err := w.client.Do(req)
	if err != nil {
		return 0, false, err
	}
	_, _ = io.Copy(io.Discard, resp.Body)
	_ = resp.Body.Close()
	time.Sleep(3 * time.Millisecond)
	if resp.StatusCode == 404 {
		return 0, true, nil
	}
	if resp.StatusCode != 200 {
		return 0, false, fmt.Errorf("status %d", resp.StatusCode)
	}
	b, _ := strconv.ParseInt(resp.Header.Get("X-Backend"), 10, 64)
	return b, atomic.LoadInt64(&w.dials) > before, nil
}

type gOp struct {
	kind          string // join leave reg unreg get
	name, grp     string
	d, l, u       string
	owner         int64
	host, path    string
}

func (w *groupWorld) run(ops []gOp, dist map[string]int) ([]string, error) {
	var out []string
	rid := int64(0)
	members := map[string]string{} // group -> its only member (the model covers single-member groups)
	for _, o := range ops {
		switch o.kind {
		case "join":
			if _, ok := members[o.grp]; ok {
				continue
			}
			err := w.ctl.Register(o.name, o.grp, "k", vhost.RouteConfig{Domain: o.d, Location: o.l, RouteByHTTPUser: o.u, CreateConnFn: w.createConnFn(o.owner)})
			res := "HRegOk"
			if err != nil {
				res = "HRegConflict"
			} else {
				members[o.grp] = o.name
			}
			dist["group join "+res]++
			out = append(out, fmt.Sprintf("(HGroupJoin %s %s %s %s %d, %s)", hx.HxS(o.name), hx.HxS(o.d), hx.HxS(o.l), hx.HxS(o.u), o.owner, res))
		case "leave":
			if members[o.grp] != o.name {
				continue
			}
			delete(members, o.grp)
			w.ctl.UnRegister(o.name, o.grp, vhost.RouteConfig{Domain: o.d, Location: o.l, RouteByHTTPUser: o.u})
			dist["group leave"]++
			out = append(out, fmt.Sprintf("(HGroupLeave %s %s %s, HDone)", hx.HxS(o.d), hx.HxS(o.l), hx.HxS(o.u)))
		case "reg":
			err := w.rp.Register(vhost.RouteConfig{Domain: o.d, Location: o.l, RouteByHTTPUser: o.u, CreateConnFn: w.createConnFn(o.owner)})
			res := "HRegOk"
			if err != nil {
				res = "HRegConflict"
			}
			out = append(out, fmt.Sprintf("(HRegister %s %s %s %d, %s)", hx.HxS(o.d), hx.HxS(o.l), hx.HxS(o.u), o.owner, res))
		case "unreg":
			w.rp.UnRegister(vhost.RouteConfig{Domain: o.d, Location: o.l, RouteByHTTPUser: o.u})
			out = append(out, fmt.Sprintf("(HUnRegister %s %s %s, HDone)", hx.HxS(o.d), hx.HxS(o.l), hx.HxS(o.u)))
		case "get":
			rid++
			b, dialed, err := w.get(o.host, o.path)
			if err != nil {
				return nil, err
			}
			res := "HNotFound"
			if b != 0 {
				res = fmt.Sprintf("HReached %d", b)
			}
			dist["request"]++
			out = append(out, fmt.Sprintf("(HBegin %d 0 0 %s %s [] %s, %s)", rid, hx.HxS(o.host), hx.HxS(o.path), hx.Bool(dialed), res))
			out = append(out, fmt.Sprintf("(HEnd %d, HDone)", rid))
		}
	}
	return out, nil
}

// the witness: a single-member group leaves and a member of the same proxy name joins again on the
// same triple (a client that re-creates its proxy, or another client of the same user taking the name)
func groupWitness() []gOp {
	return []gOp{
		{kind: "join", name: "web", grp: "g", d: "h.test", owner: 1},
		{kind: "get", host: "h.test", path: "/"},
		{kind: "leave", name: "web", grp: "g", d: "h.test"},
		{kind: "join", name: "web", grp: "g", d: "h.test", owner: 2},
		{kind: "get", host: "h.test", path: "/"},
	}
}

func runGroup(cfg *hx.RunCfg) error {
	g := hx.NewGen(cfg.Seed)
	cf := &hx.CaseFile{
		Imports: "From FRP Require Import Corr.C06.\n",
		Typ:     "case",
		Tail: "Definition M := Eval vm_compute in mismatches check_case_model_only cases.\nPrint M.\n" +
			"Definition NGROUPVIOL := Eval vm_compute in count_if (fun c => negb (C06_holds c)) cases.\nPrint NGROUPVIOL.\n",
	}
	dist := map[string]int{}
	hists := [][]gOp{groupWitness()}
	names := []string{"web", "web", "api"}
	doms := []string{"h.test", "h.test", "*.test"}
	for len(hists) < cfg.N {
		var h []gOp
		type member struct{ name, d string }
		var live []member
		for i := 0; i < 6+g.Intn(14); i++ {
			if g.Chance(0.1) {
				// the only member leaves and a proxy of the same name joins again, traffic before and after
				d := g.Pick(doms)
				nm := g.Pick(names)
				host := "h.test"
				h = append(h, gOp{kind: "join", name: nm, grp: "g-" + d, d: d, owner: int64(1 + g.Intn(nOwners))},
					gOp{kind: "get", host: host, path: "/"},
					gOp{kind: "leave", name: nm, grp: "g-" + d, d: d},
					gOp{kind: "join", name: nm, grp: "g-" + d, d: d, owner: int64(1 + g.Intn(nOwners))},
					gOp{kind: "get", host: host, path: "/"})
				live = append(live, member{nm, d})
				continue
			}
			switch x := g.Intn(100); {
			case x < 25:
				m := member{g.Pick(names), g.Pick(doms)}
				h = append(h, gOp{kind: "join", name: m.name, grp: "g-" + m.d, d: m.d, owner: int64(1 + g.Intn(nOwners))})
				live = append(live, m)
			case x < 40:
				if len(live) == 0 {
					continue
				}
				j := g.Intn(len(live))
				h = append(h, gOp{kind: "leave", name: live[j].name, grp: "g-" + live[j].d, d: live[j].d})
				live = append(live[:j], live[j+1:]...)
			case x < 50:
				h = append(h, gOp{kind: "reg", d: g.Pick(doms), owner: int64(1 + g.Intn(nOwners))})
			case x < 58:
				h = append(h, gOp{kind: "unreg", d: g.Pick(doms)})
			default:
				h = append(h, gOp{kind: "get", host: g.Pick([]string{"h.test", "x.test", "h.test:80"}), path: "/"})
			}
		}
		hists = append(hists, h)
	}
	var samples []any
	viol := 0
	for i, h := range hists {
		w, err := newGroupWorld()
		if err != nil {
			return err
		}
		ops, err := w.run(h, dist)
		w.close()
		if err != nil {
			return fmt.Errorf("group history %d: %v", i, err)
		}
		c := "CHttp " + hx.List(ops)
		cf.Cases = append(cf.Cases, c)
		if i == 0 {
			samples = append(samples, c)
			cfg.St["witness_case"] = c
		}
	}
	_ = viol
	cfg.St["cases"] = len(cf.Cases)
	cfg.St["distinct_nontrivial"] = len(cf.Cases)
	cfg.St["samples"] = samples
	cfg.St["distribution"] = dist
	cfg.St["impl_failures"] = []any{}
	return cf.Write(cfg.Out)
}
