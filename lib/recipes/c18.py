import json

from vlib import Check

PID = "C18"

MANIFEST = dict(
    text="Machine-checked theorems (Coq 8.16.1) over an executable model of the proxy-configuration layer. The record types, the nine "
         "MarshalToMsg/UnmarshalFromMsg pairs, ProxyBaseConfig.Complete and the proxy type registry are regenerated from "
         "pkg/config/v1/*.go and pkg/msg/msg.go on every run (translator T3): for every registered proxy type and every loaded+completed "
         "client configuration the server's NewProxyConfigurerFromMsg(MarshalToMsg(c)) equals c on every field except the golden client-only "
         "ones (one generic proof script), every command-line flag writes the field whose file-format key the pinned table names "
         "(reflective over flags.go, translator unit T7F), templated documents render to the written-out document, no acted field lacks a marshal source / unmarshal destination (reflective), accepted "
         "configurations have ports in range, allowed enumerations and no custom domain under subDomainHost in any ASCII letter case, "
         "PortsRangeSlice / ParseRangeNumbers / number pairs / BandwidthQuantity literals round-trip. Tied to the code by T3 and by a "
         "differential run of the real MarshalToMsg, NewProxyConfigurerFromMsg, ValidateProxyConfigurerForClient, ValidatePort, "
         "PortsRangeSlice, ParseRangeNumbers, parseNumberRangePair (through RenderWithTemplate) and BandwidthQuantity against the model.",
    note="Observed, not proved (residue): agreement of the TOML / YAML / JSON loaders (go-toml, k8s yaml, encoding/json) and strict-mode "
         "rejection of unknown fields at every nesting level (client common, proxies, visitors, server), text/template execution, cobra/pflag parsing - third-party code, "
         "exercised by the harness on generated documents in both strict modes and compared structurally on the Go side. "
         "strconv.ParseFloat and float arithmetic are an oracle (Section-style argument) in the bandwidth theorems; strconv.Itoa/ParseInt "
         "are modelled with Coq's Decimal library and compared on every run. ValidateAnnotations (k8s IsQualifiedName) and client plugin "
         "option validation are oracles. Case folding is ASCII (Go's strings.ToLower agrees on ASCII; non-ASCII upper case is outside the model).",
    technique="Coq proof (generic script over translator-regenerated Gallina functions, reflection over regenerated tables) + differential correspondence via vm_compute",
    design="4/C18")


def q(tier, quick, thorough):
    return quick if tier == "quick" else thorough


def recipe(c: Check):
    c.build(["Properties/C18.vo", "Corr/C18.vo"], harness=["c18"], units=["t1", "t3"])
    c.obligations("C18")
    st = c.run_driver("config", q(c.tier, 1600, 30000), shards=q(c.tier, 8, 16))
    # sanity of the run itself: the branches the property names must have been reached
    cnt = c.cov.get("coq_counters", {}).get("config", {})
    if st is not None and cnt:
        for name, least in (("NROUNDOK", 100), ("NDOMAINBELONGS", 5), ("NDOMAINCASEONLY", 2), ("NINVALID", 50), ("NUNKNOWNTYPE", 5),
                            ("NTEMPLATEOK", 30), ("NTLSFLAGON", 6), ("NENVOK", 14), ("NENVEQ", 8), ("NSTRICTREJ", 100),
                            ("NSECTIONREJ", 80), ("NSECTIONACC", 80), ("NRENDERTRACE", 100)):
            if cnt.get(name, 0) < least:
                c.broken.append(dict(kind="coverage", name="counter %s = %s < %s: the generator no longer reaches a branch the property names"
                                     % (name, cnt.get(name, 0), least), detail=""))
    if st is not None:
        f = st.get("formats") or {}
        ini = f.get("ini") or {}
        for name, least in (("documents", 50), ("sections_proxy", 200), ("sections_visitor", 50), ("list_allow_users:absent", 20),
                            ("list_allow_users:empty", 20), ("list_allow_users:given", 20), ("list_custom_domains:absent", 20),
                            ("list_locations:absent", 5)):
            if ini.get(name, 0) < least:
                c.broken.append(dict(kind="coverage", name="ini counter %s = %s < %s" % (name, ini.get(name, 0), least), detail=""))
        lcs = f.get("legacy_common") or {}
        for name, least in (("keys_client", 45), ("keys_server", 50), ("loads", 190)):
            if lcs.get(name, 0) < least:
                c.broken.append(dict(kind="coverage", name="legacy common counter %s = %s < %s" % (name, lcs.get(name, 0), least), detail=""))
        lv = f.get("unknown_field_levels") or {}
        for name, least in (("client:top.proxies[].plugin(sweep)", 20), ("client:top.visitors[].plugin(sweep)", 20)):
            if lv.get(name, 0) < least:
                c.broken.append(dict(kind="coverage", name="strict sweep level %s = %s < %s" % (name, lv.get(name, 0), least), detail=""))
        fl = f.get("flags") or {}
        tp = f.get("templates") or {}
        for src, name, least in ((f, "documents_client", 50), (f, "documents_server", 20), (f, "strict_unknown_rejected", 100),
                                 (f, "file_loads", 50), (fl, "proxy_commands", 50), (fl, "visitor_commands", 20),
                                 (fl, "server_commands", 20), (tp, "documents", 50)):
            if src.get(name, 0) < least:
                c.broken.append(dict(kind="coverage", name="driver counter %s = %s < %s" % (name, src.get(name, 0), least), detail=""))
        # observations recorded, not alarms (reported in design/C18.md): kept visible in the evidence
        c.notes.append("flag/file default divergences observed: %s" % json.dumps(fl.get("default_divergences", {}), sort_keys=True))
        c.notes.append("--dashboard_tls_mode true: %s" % fl.get("dashboard_tls_mode_true"))
        c.notes.append("port fields not range-checked by validation accept out-of-range values: %s"
                       % json.dumps((st.get("ports") or {}).get("unchecked_fields_accepting_out_of_range", {}), sort_keys=True))
    return c.finish(
        rule="config driver: (a) generated client configurations over all eight proxy types (unicode names, nil vs empty maps/slices, boundary "
             "ports, mixed-case domains around several subDomainHost values, bandwidth literals, plugins) -> real Complete, MarshalToMsg, JSON "
             "wire, NewProxyConfigurerFromMsg, compared with the generated model (message, message after, result or error kind) and with the "
             "monitor 'server view = client view minus client-only fields'; arbitrary peer messages (unknown/empty types, junk bandwidth); "
             "(b) the same logical configuration rendered as TOML, YAML and JSON by the harness's emitters and loaded by the real LoadConfigure / "
             "LoadClientConfig in strict and non-strict mode, structures compared, unknown fields injected at every nesting level; (c) real "
             "ValidateProxyConfigurerForClient / ValidatePort vs Model/Validate.v; (d) PortsRangeSlice, ParseRangeNumbers, parseNumberRangePair via "
             "RenderWithTemplate, BandwidthQuantity, strconv vs Model/Literals.v; (e) the real cobra flag sets (frpc proxy and visitor sub-commands with the "
             "inherited client flags, frps) built in-process, ParseFlags + Complete, vs the same logical configuration loaded from a file; "
             "(f) generated template documents (text, .Envs, range over parseNumberRangePair / parseNumberRange) through RenderWithTemplate vs "
             "Model/Template.v, and templated configuration files vs the written-out ones; (g) the harness binary re-executed as a child with a "
             "chosen process environment (values with '=', trailing '==', '=' first, empty, unicode, long), the child renders / loads a templated "
             "file through LoadFileContentWithTemplate(path, GetValues()) and LoadClientConfig, compared with Model/Template.v env_build; (h) strict and non-strict LoadConfigure calls running concurrently from "
             "several goroutines on documents with an unknown key at the top / proxy / proxy.transport / proxy.plugin / visitor level, every answer "
             "compared with the verdict Proofs/StrictLoadProofs.v proves for every schedule; (i) every int field named *Port of the server, "
             "client-common, proxy and visitor structs (found by reflection) set to -65536..70000 on a valid configuration and run through the real "
             "ValidateServerConfig / ValidateClientCommonConfig / ValidateVisitorConfigurer / ValidateProxyConfigurerForClient vs Model/ValidateSections.v, "
             "plus generated whole sections with one invalid setting; (j) every proxy and visitor type as a legacy ini section (optional list settings "
             "absent / empty / given) vs its TOML form through LoadClientConfig; (k) every key of the legacy [common] sections of frpc.ini and "
             "frps.ini with two distinct values vs the same setting in TOML through LoadClientConfig / LoadServerConfig. distinct = distinct case text; "
             "non-trivial = every case (each carries a generated input)",
        assumptions=["strconv.ParseFloat / float product is an oracle: bandwidth theorems hold for any such function; the harness fills it with observed values",
                     "TOML/YAML/JSON parsers, text/template, cobra/pflag are third-party: their agreement is observed on generated documents, not proved",
                     "ValidateAnnotations and ValidateClientPluginOptions verdicts on non-empty input are oracles observed by the harness",
                     "ASCII case folding; non-ASCII upper-case letters in domains are outside the model"])
