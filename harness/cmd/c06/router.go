package main

// Driver "router" (C06): random Add/Del/Get histories on the real vhost.Routers and
// HTTPReverseProxy (Register / UnRegister / GetRouteConfig), and on real HTTPSMuxer and
// HTTPConnectTCPMuxer instances fed ClientHellos / CONNECT requests over loopback; plus
// httppkg.CanonicalHost on adversarial host strings.  Compared with Model/Router.v, and checked
// against the specification Model/RouteSpec.v, in Corr/C06.v.

import (
	"bufio"
	"context"
	"crypto/tls"
	"encoding/base64"
	"fmt"
	"net"
	"strconv"
	"strings"
	"time"

	"verifharness/hx"

	httppkg "github.com/fatedier/frp/pkg/util/http"
	"github.com/fatedier/frp/pkg/util/tcpmux"
	"github.com/fatedier/frp/pkg/util/vhost"
)

func init() { drivers["router"] = runRouter }

var regDomains = []string{
	"a.example.com", "A.Example.COM", "b.example.com", "x.a.example.com", "*.example.com", "*.a.example.com",
	"*.com", "*", "example.com", "*.Example.com", "sub.b.example.com", "*.b.example.com", "a.example.org", "*.example.org",
	"x.y.z.example.com", "*.z.example.com", "*.y.z.example.com", "localhost", "*.localhost", "10.0.0.1",
}

var reqHosts = []string{
	"a.example.com", "A.EXAMPLE.com", "b.example.com", "x.a.example.com", "y.a.example.com", "deep.x.a.example.com",
	"c.example.com", "example.com", "com", "other.org", "a.example.org", "q.example.org", "*", "*.example.com",
	"sub.b.example.com", "t.sub.b.example.com", "x.y.z.example.com", "w.y.z.example.com", "w.z.example.com",
	"v.w.z.example.com", ".example.com", "a..example.com", "localhost", "x.localhost", "10.0.0.1", "x.com", "x.y.com",
	"aexample.com", "xa.example.com", "",
	"a.b.c.d.e.f.g.example.com", "a.b.c.d.e.f.g.h.x.a.example.com", "1.2.3.4.5.6.7.8.9.10.example.org", "a.b.c.d.e.f.example.com",
	"p.q.r.s.t.u.v.w.com",
}

var regLocations = []string{"", "", "/", "/a", "/ab", "/a/b", "/A", "/a/", "/abc/d", "/b"}
var reqPaths = []string{"", "/", "/a", "/ab", "/abc", "/abc/d/e", "/a/b/c", "/a/", "/A/x", "/b", "a", "/B", "/a/bc"}
var users = []string{"", "", "u1", "u2"}
var reqUsers = []string{"", "", "u1", "u2", "u3"}

type triple struct{ d, l, u string }

func lowerASCII(s string) string { return strings.ToLower(s) }

// deepHost prefixes suffix with labels so that the host has 8 to 12 labels in all: the wildcard walk
// has to go through every one of them before it reaches a short pattern such as *.example.com
func deepHost(g *hx.Gen, suffix string) string {
	have := strings.Count(suffix, ".") + 1
	want := 8 + g.Intn(5)
	var ls []string
	for i := have; i < want; i++ {
		ls = append(ls, g.Pick([]string{"a", "b", "x", "k9", "w", "Q"}))
	}
	if len(ls) == 0 {
		return "z." + suffix
	}
	return strings.Join(ls, ".") + "." + suffix
}

// reqFor derives a request that is likely to hit (or narrowly miss) one of the live routes.
func reqFor(g *hx.Gen, live []triple, hosts []string) (h, p, u string) {
	h, p, u = g.Pick(hosts), g.Pick(reqPaths), g.Pick(reqUsers)
	if len(live) == 0 || g.Chance(0.3) {
		return
	}
	t := live[g.Intn(len(live))]
	switch {
	case t.d == "*":
	case strings.HasPrefix(t.d, "*."):
		h = g.Pick([]string{"r", "s.t", "a", "x", "W"}) + t.d[1:]
		if g.Chance(0.1) {
			h = t.d[2:]
		}
		if g.Chance(0.3) {
			h = deepHost(g, t.d[2:])
		}
	default:
		h = t.d
		if g.Chance(0.2) {
			h = "k." + h
		}
	}
	if g.Chance(0.7) {
		p = t.l + g.Pick([]string{"", "", "/", "x", "/b", "b/c"})
	}
	if g.Chance(0.6) {
		u = t.u
	}
	return
}

type rOp struct {
	coq  string
	kind string
}

func optZ(v int64, ok bool) string {
	if !ok {
		return "None"
	}
	return "(Some " + hx.Z(v) + ")"
}

// ---- kind 0: vhost.Routers shared with an HTTPReverseProxy ----
// pools returns the domains and users a history draws from: every other history is "dense" (two
// domains, one or two users, more Del) so that single (domain, user) slices grow to several locations
// and lose entries from the front and the middle.
func pools(g *hx.Gen) (doms, usrs []string, dense bool) {
	if g.Chance(0.5) {
		return regDomains, users, false
	}
	doms = []string{g.Pick(regDomains), g.Pick(regDomains)}
	usrs = []string{g.Pick(users)}
	if g.Chance(0.4) {
		usrs = append(usrs, g.Pick(users))
	}
	return doms, usrs, true
}

func historyRouters(g *hx.Gen, nops int, dist map[string]int) []string {
	doms, usrs, dense := pools(g)
	if dense {
		nops += 15
		dist["dense history"]++
	}
	routers := vhost.NewRouters()
	rp := vhost.NewHTTPReverseProxy(vhost.HTTPReverseProxyOptions{}, routers)
	var ops []string
	var live []triple
	label := int64(0)
	for i := 0; i < nops; i++ {
		switch x := g.Intn(100); {
		case x < 40:
			t := triple{g.Pick(doms), g.Pick(regLocations), g.Pick(usrs)}
			if g.Chance(0.15) && len(live) > 0 {
				t = live[g.Intn(len(live))] // provoke a conflict, possibly with other letter case
				if g.Chance(0.5) {
					t.d = strings.ToUpper(t.d)
				}
			}
			label++
			rc := vhost.RouteConfig{Domain: t.d, Location: t.l, RouteByHTTPUser: t.u, RewriteHost: "p" + strconv.FormatInt(label, 10)}
			var err error
			if g.Chance(0.5) {
				err = rp.Register(rc)
				dist["Register"]++
			} else {
				err = routers.Add(t.d, t.l, t.u, &rc)
				dist["Routers.Add"]++
			}
			if err == nil {
				live = append(live, t)
			} else {
				dist["conflict"]++
			}
			ops = append(ops, fmt.Sprintf("OAdd %s %s %s %d %s", hx.HxS(t.d), hx.HxS(t.l), hx.HxS(t.u), label, hx.Bool(err == nil)))
		case x < 55:
			t := triple{g.Pick(doms), g.Pick(regLocations), g.Pick(usrs)}
			if g.Chance(0.75) && len(live) > 0 {
				j := g.Intn(len(live))
				t = live[j]
				if g.Chance(0.3) {
					t.d = strings.ToUpper(t.d)
				}
			}
			if g.Chance(0.5) {
				rp.UnRegister(vhost.RouteConfig{Domain: t.d, Location: t.l, RouteByHTTPUser: t.u})
				dist["UnRegister"]++
			} else {
				routers.Del(t.d, t.l, t.u)
				dist["Routers.Del"]++
			}
			// forget it from the live list (same lower-cased triple)
			nl := live[:0]
			for _, y := range live {
				if !(lowerASCII(y.d) == lowerASCII(t.d) && y.l == t.l && y.u == t.u) {
					nl = append(nl, y)
				}
			}
			live = nl
			ops = append(ops, fmt.Sprintf("ODel %s %s %s", hx.HxS(t.d), hx.HxS(t.l), hx.HxS(t.u)))
		case x < 65:
			h, p, u := reqFor(g, live, append(reqHosts, regDomains...))
			if g.Chance(0.5) && len(live) > 0 {
				h = live[g.Intn(len(live))].d
			}
			vr, ok := routers.Get(h, p, u)
			var v int64
			if ok {
				v = labelOf(vhost.VerifRouterPayload(vr))
			}
			dist["Routers.Get"]++
			ops = append(ops, fmt.Sprintf("OGet %s %s %s %s", hx.HxS(h), hx.HxS(p), hx.HxS(u), optZ(v, ok)))
		default:
			h, p, u := reqFor(g, live, reqHosts)
			if g.Chance(0.2) {
				h = strings.ToUpper(h)
			}
			rc := rp.GetRouteConfig(h, p, u)
			var v int64
			if rc != nil {
				v = labelOf(rc)
			}
			dist["GetRouteConfig"]++
			ops = append(ops, fmt.Sprintf("OVhost false %s %s %s %s", hx.HxS(h), hx.HxS(p), hx.HxS(u), optZ(v, rc != nil)))
		}
	}
	return ops
}

func labelOf(p any) int64 {
	rc, ok := p.(*vhost.RouteConfig)
	if !ok || rc == nil {
		return -1
	}
	n, err := strconv.ParseInt(strings.TrimPrefix(rc.RewriteHost, "p"), 10, 64)
	if err != nil {
		return -1
	}
	return n
}

// ---- kinds 2, 3: real muxers on loopback ----
type muxHarness struct {
	kind   int // 2 https, 3 tcpmux http connect
	ln     net.Listener
	mux    *vhost.Muxer
	got    chan int64
	cancel context.CancelFunc
}

func newMuxHarness(kind int) (*muxHarness, error) {
	ln, err := net.Listen("tcp", "127.0.6.1:0")
	if err != nil {
		return nil, err
	}
	m := &muxHarness{kind: kind, ln: ln, got: make(chan int64, 16)}
	if kind == 2 {
		hm, err := vhost.NewHTTPSMuxer(ln, 2*time.Second)
		if err != nil {
			return nil, err
		}
		m.mux = hm.Muxer
	} else {
		tm, err := tcpmux.NewHTTPConnectTCPMuxer(ln, false, 2*time.Second)
		if err != nil {
			return nil, err
		}
		m.mux = tm.Muxer
	}
	return m, nil
}

func (m *muxHarness) listen(t triple, label int64) (*vhost.Listener, error) {
	l, err := m.mux.Listen(context.Background(), &vhost.RouteConfig{Domain: t.d, Location: t.l, RouteByHTTPUser: t.u})
	if err != nil {
		return nil, err
	}
	go func() {
		for {
			c, err := l.Accept()
			if err != nil {
				return
			}
			m.got <- label
			if m.kind == 3 {
				_, _ = c.Write([]byte("L" + strconv.FormatInt(label, 10) + "\n"))
			}
			_ = c.Close()
		}
	}()
	return l, nil
}

// request sends one ClientHello / CONNECT and reports which listener accepted it.
func (m *muxHarness) request(host, user string) (int64, bool, error) {
	c, err := net.DialTimeout("tcp", m.ln.Addr().String(), 2*time.Second)
	if err != nil {
		return 0, false, err
	}
	defer c.Close()
	_ = c.SetDeadline(time.Now().Add(3 * time.Second))
	if m.kind == 2 {
		tc := tls.Client(c, &tls.Config{ServerName: host, InsecureSkipVerify: true})
		_ = tc.Handshake() // fails in both cases: the accepting side closes, or the muxer alerts
		select {
		case l := <-m.got:
			return l, true, nil
		default:
			return 0, false, nil
		}
	}
	req := "CONNECT " + host + " HTTP/1.1\r\nHost: " + host + "\r\n"
	if user != "" {
		req += "Proxy-Authorization: Basic " + base64.StdEncoding.EncodeToString([]byte(user+":pw")) + "\r\n"
	}
	req += "\r\n"
	if _, err := c.Write([]byte(req)); err != nil {
		return 0, false, err
	}
	br := bufio.NewReader(c)
	status, err := br.ReadString('\n')
	if err != nil {
		return 0, false, fmt.Errorf("no status line for host %q: %v", host, err)
	}
	if strings.Contains(status, " 404 ") {
		return 0, false, nil
	}
	if !strings.Contains(status, " 200 ") {
		return 0, false, fmt.Errorf("unexpected status %q for host %q", status, host)
	}
	for {
		line, err := br.ReadString('\n')
		if err != nil {
			return 0, false, fmt.Errorf("after 200 for host %q: %v", host, err)
		}
		if strings.HasPrefix(line, "L") {
			n, _ := strconv.ParseInt(strings.TrimSpace(line[1:]), 10, 64)
			<-m.got
			return n, true, nil
		}
	}
}

// requestInFlight sends a CONNECT, waits for the success hook's "200", lets closeRouted close the listener the
// connection was routed to (nobody accepts on it), and reports which listener got the connection afterwards.
func (m *muxHarness) requestInFlight(host string, closeRouted func()) (int64, bool, error) {
	c, err := net.DialTimeout("tcp", m.ln.Addr().String(), 2*time.Second)
	if err != nil {
		return 0, false, err
	}
	defer c.Close()
	_ = c.SetDeadline(time.Now().Add(3 * time.Second))
	if _, err := c.Write([]byte("CONNECT " + host + " HTTP/1.1\r\nHost: " + host + "\r\n\r\n")); err != nil {
		return 0, false, err
	}
	br := bufio.NewReader(c)
	status, err := br.ReadString('\n')
	if err != nil || !strings.Contains(status, " 200 ") {
		return 0, false, fmt.Errorf("in-flight CONNECT %q: status %q %v", host, status, err)
	}
	time.Sleep(3 * time.Millisecond) // the muxer is now blocked handing the connection to the routed listener
	closeRouted()
	for {
		line, err := br.ReadString('\n')
		if err != nil {
			// closed without reaching any listener
			select {
			case l := <-m.got:
				return l, true, nil
			default:
				return 0, false, nil
			}
		}
		if strings.HasPrefix(line, "L") {
			n, _ := strconv.ParseInt(strings.TrimSpace(line[1:]), 10, 64)
			select {
			case <-m.got:
			default:
			}
			return n, true, nil
		}
	}
}

var connectHosts = []string{
	"a.example.com:443", "A.Example.COM:443", "a.example.com.:443", "b.example.com:80", "x.a.example.com:1",
	"y.a.example.com:443", "c.example.com:443", "example.com:443", "other.org:443", "a.example.com", "B.example.com.",
	"w.z.example.com:443", "x.y.z.example.com:8080", "deep.x.a.example.com:443", "x.com:443", "localhost:443", "x.localhost:443",
	"[::1]:443", "10.0.0.1:443", "a.example.org:443", "q.example.org.:443",
}

func historyMux(g *hx.Gen, kind, nops int, dist map[string]int) ([]string, error) {
	m, err := newMuxHarness(kind)
	if err != nil {
		return nil, err
	}
	defer m.mux.Close()
	type liveL struct {
		t triple
		l *vhost.Listener
	}
	var live []liveL
	var ops []string
	label := int64(0)
	defer func() {
		for _, x := range live {
			_ = x.l.Close()
		}
	}()
	for i := 0; i < nops; i++ {
		if kind == 3 && g.Chance(0.08) {
			// the listener a CONNECT was routed to closes between look-up and hand-over while a more
			// general route covers the host: the connection must be closed, not handed to that other route
			covered := false
			for _, x := range live {
				if x.t.l == "" && x.t.u == "" && (strings.EqualFold(x.t.d, "*.example.com") || x.t.d == "*") {
					covered = true
				}
			}
			if !covered {
				t := triple{"*.example.com", "", ""}
				label++
				l, err := m.listen(t, label)
				if err == nil {
					live = append(live, liveL{t, l})
				}
				ops = append(ops, fmt.Sprintf("OAdd %s [] [] %d %s", hx.HxS(t.d), label, hx.Bool(err == nil)))
			}
			label++
			dom := fmt.Sprintf("inflight%d.example.com", label)
			// registered WITHOUT an accepting goroutine: the muxer blocks in the hand-over
			lx, err := m.mux.Listen(context.Background(), &vhost.RouteConfig{Domain: dom})
			ops = append(ops, fmt.Sprintf("OAdd %s [] [] %d %s", hx.HxS(dom), label, hx.Bool(err == nil)))
			if err != nil {
				continue
			}
			host := dom + ":443"
			lbl, ok, err := m.requestInFlight(host, func() { _ = lx.Close() })
			if err != nil {
				return nil, err
			}
			dist["listener closed between look-up and hand-over"]++
			ops = append(ops, fmt.Sprintf("ODropped true %s [] [] %s", hx.HxS(host), optZ(lbl, ok)))
			continue
		}
		switch x := g.Intn(100); {
		case x < 40:
			// locations other than "" can be registered but never match: a muxed connection has the empty path
			loc := ""
			if g.Chance(0.15) {
				loc = g.Pick(regLocations)
			}
			t := triple{g.Pick(regDomains), loc, g.Pick(users)}
			if kind == 2 {
				t.u = ""
				if g.Chance(0.2) {
					t.u = "u1" // a TLS connection carries no user: such a route is never selected
				}
			}
			if g.Chance(0.15) && len(live) > 0 {
				t = live[g.Intn(len(live))].t
				if g.Chance(0.5) {
					t.d = strings.ToUpper(t.d)
				}
			}
			label++
			l, err := m.listen(t, label)
			if err == nil {
				live = append(live, liveL{t, l})
			} else {
				dist["conflict"]++
			}
			dist["Listen"]++
			ops = append(ops, fmt.Sprintf("OAdd %s %s %s %d %s", hx.HxS(t.d), hx.HxS(t.l), hx.HxS(t.u), label, hx.Bool(err == nil)))
		case x < 55:
			if len(live) == 0 {
				continue
			}
			j := g.Intn(len(live))
			t := live[j].t
			_ = live[j].l.Close()
			live = append(live[:j], live[j+1:]...)
			dist["Listener.Close"]++
			ops = append(ops, fmt.Sprintf("ODel %s %s %s", hx.HxS(t.d), hx.HxS(t.l), hx.HxS(t.u)))
		default:
			var host, user string
			canon := "false"
			var lt []triple
			for _, x := range live {
				lt = append(lt, x.t)
			}
			if kind == 2 {
				host, _, _ = reqFor(g, lt, reqHosts)
				for host == "" || strings.HasPrefix(host, ".") || strings.Contains(host, "..") || strings.Contains(host, "*") || host[0] >= '0' && host[0] <= '9' {
					host = g.Pick(reqHosts) // crypto/tls does not send such names as SNI
				}
				if g.Chance(0.2) {
					host = strings.ToUpper(host)
				}
				dist["ClientHello"]++
			} else {
				host = g.Pick(connectHosts)
				user = g.Pick(reqUsers)
				if g.Chance(0.6) {
					var hh string
					hh, _, user = reqFor(g, lt, reqHosts)
					if hh != "" && !strings.Contains(hh, "*") && !strings.HasPrefix(hh, ".") && !strings.Contains(hh, "..") {
						host = hh + g.Pick([]string{":443", ".:443", "", ":80", "."})
					}
				}
				canon = "true"
				dist["CONNECT"]++
			}
			lbl, ok, err := m.request(host, user)
			if err != nil {
				return nil, err
			}
			if !ok {
				dist["refused"]++
			}
			ops = append(ops, fmt.Sprintf("OVhost %s %s [] %s %s", canon, hx.HxS(host), hx.HxS(user), optZ(lbl, ok)))
		}
	}
	return ops, nil
}

var canonHosts = []string{
	"", "a", "a.", "a..", ".", "A.B", "a:80", "A.b.:80", "a:", ":80", ":", "a:b:c", "[::1]", "[::1]:80", "[::1]:", "[::1]x:80",
	"[a]:80", "[a:b]:80", "[[a]:80", "[a]]:80", "a]:80", "a[:80", "[a:80", "[]:80", "[a].:80", "x:[a]:80", "::", "a::80", "[::1]:80:90",
	"EXAMPLE.com.:8080", "example.com.", "example.com..", "example.com:http", "[FE80::1%eth0]:80", "a.b.c:65536", "[::1].:80",
}

func runRouter(cfg *hx.RunCfg) error {
	g := hx.NewGen(cfg.Seed)
	cf := &hx.CaseFile{
		Imports: "From FRP Require Import Corr.C06.\n",
		Typ:     "case",
		Tail: "Definition M := Eval vm_compute in mismatches check_case cases.\nPrint M.\n" +
			"Definition NCONFLICT := Eval vm_compute in sum_cases (router_counter 0) cases.\nPrint NCONFLICT.\n" +
			"Definition NREFUSED := Eval vm_compute in sum_cases (router_counter 1) cases.\nPrint NREFUSED.\n" +
			"Definition NEXACT := Eval vm_compute in sum_cases (router_counter 2) cases.\nPrint NEXACT.\n" +
			"Definition NWILDCARD := Eval vm_compute in sum_cases (router_counter 3) cases.\nPrint NWILDCARD.\n" +
			"Definition NCATCHALL := Eval vm_compute in sum_cases (router_counter 4) cases.\nPrint NCATCHALL.\n" +
			"Definition NUSERSPECIFIC := Eval vm_compute in sum_cases (router_counter 5) cases.\nPrint NUSERSPECIFIC.\n" +
			"Definition NUSERFALLBACK := Eval vm_compute in sum_cases (router_counter 6) cases.\nPrint NUSERFALLBACK.\n" +
			"Definition NLONGLOC := Eval vm_compute in sum_cases (router_counter 7) cases.\nPrint NLONGLOC.\n" +
			"Definition NDROPPED := Eval vm_compute in sum_cases (router_counter 9) cases.\nPrint NDROPPED.\n" +
			"Definition NDEEPWILD := Eval vm_compute in sum_cases (router_counter 8) cases.\nPrint NDEEPWILD.\n" +
			"Definition NVIOL := Eval vm_compute in count_if (fun c => negb (C06_holds c)) cases.\nPrint NVIOL.\n",
	}
	dist := map[string]int{}
	distinct := map[string]bool{}
	var samples []any
	nMux := cfg.N / 8 // histories on each kind of real muxer (slower: loopback connections)
	for i := 0; i < cfg.N; i++ {
		kind := 0
		if i < nMux {
			kind = 2
		} else if i < 2*nMux {
			kind = 3
		}
		nops := 8 + g.Intn(22)
		var ops []string
		var err error
		if kind == 0 {
			ops = historyRouters(g, nops, dist)
		} else {
			ops, err = historyMux(g, kind, nops, dist)
			if err != nil {
				return fmt.Errorf("mux history (kind %d): %v", kind, err)
			}
		}
		c := fmt.Sprintf("CRouter %d %s", kind, hx.List(ops))
		cf.Cases = append(cf.Cases, c)
		if len(ops) >= 3 {
			distinct[c] = true
		}
		dist[fmt.Sprintf("history kind=%d", kind)]++
		if len(samples) < 3 && kind != 0 || len(samples) == 0 {
			samples = append(samples, c)
		}
	}
	// CanonicalHost on the fixed adversarial list and on random compositions
	for _, h := range canonHosts {
		cf.Cases = append(cf.Cases, canonCase(h))
		distinct[canonCase(h)] = true
		dist["CanonicalHost"]++
	}
	pieces := []string{"a", "B", ".", ":", "[", "]", "80", "::1", "example.com", "%", "-"}
	for i := 0; i < cfg.N/2; i++ {
		var b strings.Builder
		for k := g.Intn(6); k >= 0; k-- {
			b.WriteString(g.Pick(pieces))
		}
		c := canonCase(b.String())
		cf.Cases = append(cf.Cases, c)
		distinct[c] = true
		dist["CanonicalHost"]++
	}
	cfg.St["cases"] = len(cf.Cases)
	cfg.St["distinct_nontrivial"] = len(distinct)
	cfg.St["samples"] = samples
	cfg.St["distribution"] = dist
	cfg.St["impl_failures"] = []any{}
	return cf.Write(cfg.Out)
}

func canonCase(h string) string {
	r, err := httppkg.CanonicalHost(h)
	if err != nil {
		return fmt.Sprintf("CCanon %s None", hx.HxS(h))
	}
	return fmt.Sprintf("CCanon %s (Some %s)", hx.HxS(h), hx.HxS(r))
}
