package main

// Generators and Coq printers shared by the three parts of driver "visitors" (C08).

import (
	"fmt"
	"sort"
	"strings"

	"github.com/fatedier/frp/pkg/util/util"
	"verifharness/hx"
)

var (
	namePool = []string{"p1", "p2", "secret", "x", "alice.svc"}
	skPool   = []string{"k1", "k2", "", "long key \xc3\xbc 0123456789", hx.DefaultToken}
	userPool = []string{"", "alice", "bob", "*", "al", "alice2", "ALICE", "*bob", "mallory"}
	allowPool = [][]string{
		nil, {}, {"*"}, {"alice"}, {"alice", "bob"}, {""}, {"*bob"}, {"bob", "*"}, {"al*"}, {"**"}, {"mallory", "alice2"},
		{"ALICE"}, {"*x", "bob"},
	}
	tsPool = []int64{0, 1, -5, 1700000000, 1700000001, 9223372036854775807, 1727500000}
)

type gen struct{ *hx.Gen }

func (g *gen) name() string {
	if g.Chance(0.12) {
		return "ghost"
	}
	return g.Pick(namePool)
}
// liveName: mostly a currently registered name (sorted for determinism), sometimes any name
func (g *gen) liveName(live map[string]string) string {
	if len(live) > 0 && g.Chance(0.8) {
		return g.Pick(hx.SortedKeys(live))
	}
	return g.name()
}

// userFor: half of the time a member of the allow list (when it has one), else any user
func (g *gen) userFor(allow []string) string {
	if len(allow) > 0 && g.Chance(0.45) {
		return allow[g.Intn(len(allow))]
	}
	return g.user()
}

func (g *gen) sk() string     { return g.Pick(skPool) }
func (g *gen) user() string   { return g.Pick(userPool) }
func (g *gen) allow() []string { return allowPool[g.Intn(len(allowPool))] }
func (g *gen) ts() int64      { return tsPool[g.Intn(len(tsPool))] }

// sign produces a signature for (realSk, ts): mostly right, otherwise one of the classic wrong ones.
// kind: "right", "wrongkey", "wrongts", "empty", "token", "upper", "trunc"
func (g *gen) sign(realSk string, ts int64, pRight float64) (string, string) {
	if g.Chance(pRight) {
		return util.GetAuthKey(realSk, ts), "right"
	}
	switch g.Intn(6) {
	case 0:
		other := g.sk()
		if other == realSk {
			other = realSk + "x"
		}
		return util.GetAuthKey(other, ts), "wrongkey"
	case 1:
		return util.GetAuthKey(realSk, ts+1), "wrongts"
	case 2:
		return "", "empty"
	case 3:
		if realSk == hx.DefaultToken {
			return util.GetAuthKey("k1", ts), "wrongkey"
		}
		return util.GetAuthKey(hx.DefaultToken, ts), "token"
	case 4:
		return strings.ToUpper(util.GetAuthKey(realSk, ts)), "upper"
	default:
		s := util.GetAuthKey(realSk, ts)
		return s[:len(s)-1], "trunc"
	}
}

// hash oracle table: every (sk, ts) pair that can meet in the case
type htable struct {
	sks map[string]bool
	tss map[int64]bool
}

func newHTable() *htable { return &htable{map[string]bool{}, map[int64]bool{}} }
func (h *htable) addSk(s string) { h.sks[s] = true }
func (h *htable) addTs(t int64)  { h.tss[t] = true }
func (h *htable) coq() string {
	sks := make([]string, 0, len(h.sks))
	for s := range h.sks {
		sks = append(sks, s)
	}
	sort.Strings(sks)
	tss := make([]int64, 0, len(h.tss))
	for t := range h.tss {
		tss = append(tss, t)
	}
	sort.Slice(tss, func(i, j int) bool { return tss[i] < tss[j] })
	items := []string{}
	for _, s := range sks {
		for _, t := range tss {
			items = append(items, fmt.Sprintf("(%s, %s, %s)", hx.HxS(s), hx.Z(t), hx.HxS(util.GetAuthKey(s, t))))
		}
	}
	return hx.List(items)
}

func coqStrs(xs []string) string {
	items := make([]string, len(xs))
	for i, x := range xs {
		items[i] = hx.HxS(x)
	}
	return hx.List(items)
}

func obsZ(z int64) string { return fmt.Sprintf("ObsZ %s", hx.Z(z)) }
func obsAccept(cid int64, ue, uc bool, key string, tr bool) string {
	return fmt.Sprintf("ObsAccept %s %s %s %s %s", hx.Z(cid), hx.Bool(ue), hx.Bool(uc), hx.HxS(key), hx.Bool(tr))
}
func obsNh(resp int64, notified bool, name, sid string, others, mid, fin int64) string {
	n := "None"
	if notified {
		n = fmt.Sprintf("(Some (%s, %s))", hx.HxS(name), hx.HxS(sid))
	}
	return fmt.Sprintf("ObsNh %s %s %s %s %s", hx.Z(resp), n, hx.Z(others), hx.Z(mid), hx.Z(fin))
}

// error text classes (projected observables)
func vmErrClass(err error) int64 {
	if err == nil {
		return 0
	}
	return vmErrTextClass(err.Error())
}

func vmErrTextClass(s string) int64 {
	switch {
	case s == "":
		return 0
	case strings.Contains(s, "doesn't exist"):
		return 2
	case strings.Contains(s, "auth failed"):
		return 3
	case strings.Contains(s, "not allowed"):
		return 4
	case strings.Contains(s, "create encryption connection failed"):
		return 5
	case strings.Contains(s, "listener is closed"):
		return 6
	case strings.Contains(s, "no client control found"):
		return 8
	}
	return 99
}

func nhErrClass(s string) int64 {
	switch {
	case s == "":
		return 0
	case strings.Contains(s, "doesn't exist"):
		return 1
	case strings.Contains(s, "not allowed"):
		return 2
	case strings.Contains(s, "auth failed"):
		return 3
	}
	return 99
}

const caseImports = "From FRP Require Import Corr.C08.\nOpen Scope Z_scope.\n"

const caseTail = "Definition M := Eval vm_compute in mismatches check_case cases.\nPrint M.\n" +
	"Definition NVM_QUEUED := Eval vm_compute in (n_vm_newconn 0 cases : Z).\nPrint NVM_QUEUED.\n" +
	"Definition NVM_DROPPED := Eval vm_compute in (n_vm_newconn 1 cases : Z).\nPrint NVM_DROPPED.\n" +
	"Definition NVM_NOLISTENER := Eval vm_compute in (n_vm_newconn 2 cases : Z).\nPrint NVM_NOLISTENER.\n" +
	"Definition NVM_AUTH := Eval vm_compute in (n_vm_newconn 3 cases : Z).\nPrint NVM_AUTH.\n" +
	"Definition NVM_USER := Eval vm_compute in (n_vm_newconn 4 cases : Z).\nPrint NVM_USER.\n" +
	"Definition NVM_CLOSED := Eval vm_compute in (n_vm_newconn 6 cases : Z).\nPrint NVM_CLOSED.\n" +
	"Definition NVM_ACCEPTED := Eval vm_compute in (n_vm_accepted cases : Z).\nPrint NVM_ACCEPTED.\n" +
	"Definition NNH_NOTIFIED := Eval vm_compute in (n_nh_notified cases : Z).\nPrint NNH_NOTIFIED.\n" +
	"Definition NNH_PRE_OK := Eval vm_compute in (n_nh_resp 0 true cases : Z).\nPrint NNH_PRE_OK.\n" +
	"Definition NNH_PRE_USER := Eval vm_compute in (n_nh_resp 2 true cases : Z).\nPrint NNH_PRE_USER.\n" +
	"Definition NNH_NOSERVER := Eval vm_compute in (n_nh_resp 1 true cases + n_nh_resp 1 false cases : Z).\nPrint NNH_NOSERVER.\n" +
	"Definition NNH_USER := Eval vm_compute in (n_nh_resp 2 false cases : Z).\nPrint NNH_USER.\n" +
	"Definition NNH_AUTH := Eval vm_compute in (n_nh_resp 3 false cases : Z).\nPrint NNH_AUTH.\n" +
	"Definition NNH_UNDELIVERED := Eval vm_compute in (n_nh_undelivered cases : Z).\nPrint NNH_UNDELIVERED.\n" +
	"Definition NSYS_QUEUED := Eval vm_compute in (n_sys_vis 0 cases : Z).\nPrint NSYS_QUEUED.\n" +
	"Definition NSYS_AUTH := Eval vm_compute in (n_sys_vis 3 cases : Z).\nPrint NSYS_AUTH.\n" +
	"Definition NSYS_USER := Eval vm_compute in (n_sys_vis 4 cases : Z).\nPrint NSYS_USER.\n" +
	"Definition NSYS_NOCONTROL := Eval vm_compute in (n_sys_vis 8 cases : Z).\nPrint NSYS_NOCONTROL.\n" +
	"Definition NSYS_BACKEND := Eval vm_compute in (n_sys_backend cases : Z).\nPrint NSYS_BACKEND.\n" +
	"Definition NSYS_NOTIFIED := Eval vm_compute in (n_sys_notified cases : Z).\nPrint NSYS_NOTIFIED.\n" +
	"Definition NSYS_NH_USER := Eval vm_compute in (n_sys_nh_resp 2 cases : Z).\nPrint NSYS_NH_USER.\n" +
	"Definition NSYS_NH_AUTH := Eval vm_compute in (n_sys_nh_resp 3 cases : Z).\nPrint NSYS_NH_AUTH.\n" +
	"Definition NE2E := Eval vm_compute in (n_e2e cases : Z).\nPrint NE2E.\n" +
	"Definition NCFG_TOML := Eval vm_compute in (n_cfg 0 cases : Z).\nPrint NCFG_TOML.\n" +
	"Definition NCFG_YAML := Eval vm_compute in (n_cfg 1 cases : Z).\nPrint NCFG_YAML.\n" +
	"Definition NCFG_JSON := Eval vm_compute in (n_cfg 2 cases : Z).\nPrint NCFG_JSON.\n" +
	"Definition NCFG_INI := Eval vm_compute in (n_cfg 3 cases : Z).\nPrint NCFG_INI.\n" +
	"Definition NCFG_FLAGS := Eval vm_compute in (n_cfg 4 cases : Z).\nPrint NCFG_FLAGS.\n" +
	"Definition NCFG_DEFAULT_REFUSED := Eval vm_compute in (n_cfg_default_refused cases : Z).\nPrint NCFG_DEFAULT_REFUSED.\n" +
	"Definition NXTCP_KCP := Eval vm_compute in (n_xtcp 0 cases : Z).\nPrint NXTCP_KCP.\n" +
	"Definition NXTCP_QUIC := Eval vm_compute in (n_xtcp 1 cases : Z).\nPrint NXTCP_QUIC.\n" +
	"Definition NXTCP_MISMATCHED := Eval vm_compute in (n_xtcp_mismatched cases : Z).\nPrint NXTCP_MISMATCHED.\n" +
	"Definition NXTCP_KCP_SILENT_FIRST_OK := Eval vm_compute in (n_xtcp_kcp_silent_first cases : Z).\nPrint NXTCP_KCP_SILENT_FIRST_OK.\n" +
	"Definition NXTCP_QUIC_SILENT_FIRST := Eval vm_compute in (n_xtcp_quic_silent_first cases : Z).\nPrint NXTCP_QUIC_SILENT_FIRST.\n" +
	"Definition NLONG := Eval vm_compute in (n_long cases : Z).\nPrint NLONG.\n" +
	"Definition NSYS_PLUGIN_REWRITE := Eval vm_compute in (n_sys_plugin_rewrite cases : Z).\nPrint NSYS_PLUGIN_REWRITE.\n" +
	"Definition NSYS_PLUGIN_REJECT := Eval vm_compute in (n_sys_plugin_reject cases : Z).\nPrint NSYS_PLUGIN_REJECT.\n" +
	"Definition NFIRST := Eval vm_compute in (n_first cases : Z).\nPrint NFIRST.\n" +
	"Definition NSYS_RACE_LOSER := Eval vm_compute in (n_sys_late cases : Z).\nPrint NSYS_RACE_LOSER.\n"
