(* C18 — the record the model calls NewProxy (T3, from msg.go) against the wire schema of the same
   struct extracted by T1 (gen/GenMsg.v), so that C17's codec theorems apply to the message C18
   reasons about.  Model only: no proofs here. *)
From FRP Require Export Model.GenTypes Model.CfgMsg.

Definition cw_kind_code (k : kind) : string :=
  match k with
  | KStr => "string" | KInt => "int" | KBool => "bool" | KMapSS => "mapss" | KStrs => "strs"
  | _ => "other"
  end%string.

Fixpoint cw_fields_match (a : list (string * string * string * bool)) (b : list field) : bool :=
  match a, b with
  | [], [] => true
  | (n, code, j, o) :: a', f :: b' =>
      String.eqb n (f_go f) && String.eqb j (f_json f) && String.eqb code (cw_kind_code (f_kind f)) &&
      Bool.eqb o (f_omit f) && cw_fields_match a' b'
  | _, _ => false
  end.

Definition newproxy_matches_schema (cfg : list (string * list (string * string * string * bool)))
           (wire : list (string * list field)) : bool :=
  match cm_assoc "NewProxy" cfg, cm_assoc "NewProxy" wire with
  | Some a, Some b => cw_fields_match a b
  | _, _ => false
  end.
