package main

// Driver "sshgw" (C10, implementation-level): the ssh tunnel gateway.  An ssh session makes frps start an
// in-process virtual client that logs in over the internal listener and registers one proxy; it is a session
// like any other and must leave nothing behind when it ends — also when the tunnel does not become ready
// within the gateway's wait (pkg/ssh/server.go TunnelServer.Run: every exit after the virtual client was
// started closes it).  Scenario: the remote port is squatted, the ssh command is refused and the gateway hangs
// up: no session, no name, no port may remain; the port is freed, the identical command on a new ssh session
// succeeds; after that session ends everything is released again.

import (
	"fmt"
	"io"
	"net"
	"os"
	"path/filepath"
	"strings"
	"sync"
	"time"

	"golang.org/x/crypto/ssh"

	"github.com/fatedier/frp/pkg/config/types"
	v1 "github.com/fatedier/frp/pkg/config/v1"

	"verifharness/hx"
)

func init() { drivers["sshgw"] = runSSHGW }

type sshRun struct {
	conn   *ssh.Client
	mu     sync.Mutex
	out    strings.Builder
	closed chan struct{}
}

func (r *sshRun) output() string {
	r.mu.Lock()
	defer r.mu.Unlock()
	return r.out.String()
}

// sshTunnel: what `ssh -R :80:127.0.0.1:8080 v0@frps <command>` does
func sshTunnel(addr, command string) (*sshRun, error) {
	conn, err := ssh.Dial("tcp", addr, &ssh.ClientConfig{User: "v0",
		HostKeyCallback: func(string, net.Addr, ssh.PublicKey) error { return nil }, Timeout: 3 * time.Second})
	if err != nil {
		return nil, err
	}
	if _, err := conn.Listen("tcp", "0.0.0.0:80"); err != nil {
		conn.Close()
		return nil, err
	}
	ch, reqs, err := conn.OpenChannel("session", []byte(""))
	if err != nil {
		conn.Close()
		return nil, err
	}
	go ssh.DiscardRequests(reqs)
	if _, err = ch.SendRequest("exec", false, ssh.Marshal(struct{ Cmd string }{Cmd: command})); err != nil {
		conn.Close()
		return nil, err
	}
	r := &sshRun{conn: conn, closed: make(chan struct{})}
	go func() {
		buf := make([]byte, 4096)
		for {
			n, err := ch.Read(buf)
			r.mu.Lock()
			r.out.Write(buf[:n])
			r.mu.Unlock()
			if err != nil {
				return
			}
		}
	}()
	go func() { _ = conn.Wait(); close(r.closed) }()
	return r, nil
}

func runSSHGW(cfg *hx.RunCfg) error {
	hx.Quiet()
	fails := []map[string]string{}
	fail := func(key, what string) {
		fails = append(fails, map[string]string{"key": key, "what": what,
			"case": "frps sshTunnelGateway.bindPort; ssh v0@frps 'tcp --proxy_name sshp --remote_port P' with P squatted; then P freed and the identical command"})
	}
	addr := loop(10)
	dir, _ := os.MkdirTemp("", "c10ssh")
	defer os.RemoveAll(dir)
	sshPort := hx.FreePort(addr)
	srv, err := hx.StartServer(addr, func(c *v1.ServerConfig) {
		c.SSHTunnelGateway.BindPort = sshPort
		c.SSHTunnelGateway.AutoGenPrivateKeyPath = filepath.Join(dir, "key")
		c.AllowPorts = []types.PortsRange{{Start: basePort + 60, End: basePort + 64}}
	})
	if err != nil {
		return err
	}
	defer srv.Close()
	sshAddr := net.JoinHostPort(addr, fmt.Sprint(sshPort))
	port := basePort + 61
	command := fmt.Sprintf("tcp --proxy_name sshp --remote_port %d --token %s", port, hx.DefaultToken)
	empty := func(within time.Duration) (int, int) {
		deadline := time.Now().Add(within)
		for {
			ns, nn := len(srv.Svc.VerifC10Sessions()), len(srv.Svc.VerifC10Names())
			if (ns == 0 && nn == 0) || time.Now().After(deadline) {
				return ns, nn
			}
			time.Sleep(20 * time.Millisecond)
		}
	}
	trials, okc := 0, 0
	n := cfg.N
	if n <= 0 || n > 5 {
		n = 1
	}
	for t := 0; t < n; t++ {
		trials++
		sq, err := net.Listen("tcp", net.JoinHostPort(addr, fmt.Sprint(port)))
		if err != nil {
			fail("sshgw-harness", "cannot squat the port: "+err.Error())
			break
		}
		r1, err := sshTunnel(sshAddr, command)
		if err != nil {
			sq.Close()
			fail("sshgw-harness", "ssh dial failed: "+err.Error())
			break
		}
		select {
		case <-r1.closed:
		case <-time.After(5 * time.Second):
			fail("sshgw-failed-tunnel-not-closed", "the gateway did not hang up on a tunnel that could not be established: "+r1.output())
		}
		r1.conn.Close()
		out1 := r1.output()
		// the failed tunnel must leave nothing behind
		if ns, nn := empty(2 * time.Second); ns != 0 || nn != 0 {
			fail("sshgw-failed-tunnel-leaves-session", fmt.Sprintf("2 s after the gateway refused the tunnel (%q) %d session(s) and %d name(s) are still registered", strings.TrimSpace(out1), ns, nn))
		}
		sq.Close()
		time.Sleep(50 * time.Millisecond)
		r2, err := sshTunnel(sshAddr, command)
		if err != nil {
			fail("sshgw-harness", "second ssh dial failed: "+err.Error())
			break
		}
		ok2 := false
		for i := 0; i < 150 && !ok2; i++ {
			ok2 = strings.Contains(r2.output(), "ProxyName: sshp")
			select {
			case <-r2.closed:
				i = 1000
			case <-time.After(20 * time.Millisecond):
			}
		}
		if !ok2 {
			fail("sshgw-identical-command-refused", "the identical ssh command on a new ssh session did not succeed: "+strings.TrimSpace(r2.output()))
		} else if !hx.TCPBound(addr, port) {
			fail("sshgw-tunnel-not-listening", "the gateway reported success but the remote port does not accept connections")
		}
		r2.conn.Close()
		if ns, nn := empty(3 * time.Second); ns != 0 || nn != 0 {
			fail("sshgw-ended-tunnel-leaves-session", fmt.Sprintf("3 s after the ssh session ended %d session(s) and %d name(s) are still registered", ns, nn))
		} else if !hx.TCPBindable(addr, port) {
			time.Sleep(100 * time.Millisecond)
			if !hx.TCPBindable(addr, port) {
				fail("sshgw-ended-tunnel-keeps-port", "the remote port of an ended ssh tunnel cannot be bound")
			}
		}
		if len(fails) == 0 {
			okc++
		}
	}
	_ = io.Discard
	cfg.St["cases"] = trials
	cfg.St["distinct_nontrivial"] = okc
	cfg.St["samples"] = []string{"ssh tunnel refused (port squatted) -> nothing left; port freed, identical command -> success; ssh session ends -> nothing left"}
	cfg.St["distribution"] = map[string]int{"trials": trials, "clean": okc}
	cfg.St["impl_failures"] = fails
	cf := &hx.CaseFile{Imports: coqImports, Typ: "case", Tail: caseTail()}
	return cf.Write(cfg.Out)
}
