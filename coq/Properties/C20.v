(* C20 -- NAT hole punching: authenticated, complementary instructions, bounded state.
   Statements only; proofs are in Proofs/NatHoleProofs.v, Proofs/NatHoleToday.v (and Proofs/NatHoleCtlProofs.v).
   [nh_today] is the table/guard data regenerated from pkg/nathole by translator unit T2 on every run. *)
From FRP Require Import Model.NatHoleToday Model.NatHoleCtl Model.NatHoleTr Model.NatHoleSid Proofs.NatHoleProofs Proofs.NatHoleToday
  Proofs.NatHoleCtlProofs Proofs.NatHoleTrProofs Proofs.NatHoleSidProofs.
Open Scope Z_scope.

(* Reflective obligation over today's source: the five mode tables, getBehaviorByMode, the swap guards of
   GetRecommandBehaviors resolve without Unknown nodes; every entry NewMakeHoleRecords can create (all 64
   combinations of NatType/RegularPortsChange/PublicNetwork of both sides) has an index inside its table and a
   (sender, receiver) or (receiver, sender) pair there; the role rule of modes 1, 2, 4 holds for every table row
   and every feature pair; the getRangePorts clamps and the port test of ClassifyNATFeature are as modelled. *)
Theorem C20_source_tables_check : nh_today_ok = true.
Proof. vm_compute. reflexivity. Qed.
Print Assumptions C20_source_tables_check.

(* ---- histories of recommendations and success reports on the Analyzer (any keys, any features) ---- *)

Theorem C20_history_never_panics :
  forall ops, exists a outs, nh_run_analyzer nh_today [] ops = Some (a, outs).
Proof. exact (nh_T_never_panics C20_source_tables_check). Qed.
Print Assumptions C20_history_never_panics.

(* the (mode, index) entries of every score list are, in order, those of a freshly initialised list: they never change *)
Theorem C20_entries_invariant :
  forall ops a outs, nh_run_analyzer nh_today [] ops = Some (a, outs) ->
  forall k l, nh_rec_get k a = Some l ->
  exists c v, map nh_entry l = map nh_entry (nh_init_scores nh_today c v).
Proof. exact (nh_T_entries_invariant C20_source_tables_check). Qed.
Print Assumptions C20_entries_invariant.

(* hence every recommendation is an entry of an initial list and its index is inside the table of its mode *)
Theorem C20_recommendation_is_entry :
  forall ops a outs k c v, nh_run_analyzer nh_today [] ops = Some (a, outs) ->
  exists a' r, nh_get_recommand nh_today a k c v = Some (a', r) /\
    (exists c0 v0, In (rc_mode r, rc_index r) (map nh_entry (nh_init_scores nh_today c0 v0))) /\
    0 <= rc_index r < nh_len (nh_table nh_today (rc_mode r)).
Proof. exact (nh_T_recommendation_is_entry C20_source_tables_check). Qed.
Print Assumptions C20_recommendation_is_entry.

(* for EVERY feature pair and EVERY history: exactly one sender and one receiver *)
Theorem C20_roles_complementary :
  forall ops a outs k c v, nh_run_analyzer nh_today [] ops = Some (a, outs) ->
  exists a' r, nh_get_recommand nh_today a k c v = Some (a', r) /\
    ((nb_role (rc_cbeh r) = NhSender /\ nb_role (rc_vbeh r) = NhReceiver) \/
     (nb_role (rc_cbeh r) = NhReceiver /\ nb_role (rc_vbeh r) = NhSender)).
Proof. exact (nh_T_roles_complementary C20_source_tables_check). Qed.
Print Assumptions C20_roles_complementary.

(* mode 1: the hard NAT sends; mode 2: the hard NAT listens; mode 4: the side with regular port changes sends --
   whatever was recommended and reported before ([nh_rule_prop] is spelled out in Proofs/NatHoleToday.v) *)
Theorem C20_role_rules :
  forall ops a outs k c v, nh_run_analyzer nh_today [] ops = Some (a, outs) ->
  exists a' r, nh_get_recommand nh_today a k c v = Some (a', r) /\
    nh_rule_prop (rc_mode r) c v (nb_role (rc_cbeh r)) (nb_role (rc_vbeh r)).
Proof. exact (nh_T_role_rules C20_source_tables_check). Qed.
Print Assumptions C20_role_rules.

(* a fresh record offers modes 1 and 2 only to a pair with a hard NAT, mode 4 only to a pair with a hard NAT whose ports change regularly *)
Theorem C20_fresh_modes_fit :
  forall c v m i, In (m, i) (map nh_entry (nh_init_scores nh_today c v)) ->
  (m = 1 \/ m = 2 -> nf_nat c = NhHard \/ nf_nat v = NhHard) /\
  (m = 4 -> (nf_nat c = NhHard /\ nf_regular c = true) \/ (nf_nat v = NhHard /\ nf_regular v = true)).
Proof. exact (nh_T_fresh_modes_fit C20_source_tables_check). Qed.
Print Assumptions C20_fresh_modes_fit.

(* ---- the two NatHoleResp built by Controller.analysis / HandleVisitor, in any reachable analyzer state ---- *)

Theorem C20_same_sid_and_mode :
  forall a sid vm cm, nh_reachable nh_today a ->
  exists a' rv rc, nh_responses nh_today a sid vm cm = Some (a', rv, rc) /\
    (r_err rv = NeNone \/ r_err rc = NeNone ->
     r_err rv = NeNone /\ r_err rc = NeNone /\ r_sid rv = sid /\ r_sid rc = sid /\ r_mode rv = r_mode rc /\
     r_tid rv = vm_tid vm /\ r_tid rc = cm_tid cm).
Proof. exact (nh_T_same_sid_and_mode C20_source_tables_check). Qed.
Print Assumptions C20_same_sid_and_mode.

Theorem C20_each_gets_the_others_candidates :
  forall a sid vm cm, nh_reachable nh_today a ->
  exists a' rv rc, nh_responses nh_today a sid vm cm = Some (a', rv, rc) /\
    (r_err rv = NeNone \/ r_err rc = NeNone ->
     r_cands rv = nh_compact (cm_mapped cm) /\ r_assisted rv = nh_compact (cm_assisted cm) /\
     r_cands rc = nh_compact (vm_mapped vm) /\ r_assisted rc = nh_compact (vm_assisted vm)).
Proof. exact (nh_T_each_gets_the_others_candidates C20_source_tables_check). Qed.
Print Assumptions C20_each_gets_the_others_candidates.

Theorem C20_response_roles :
  forall a sid vm cm, nh_reachable nh_today a ->
  exists a' rv rc, nh_responses nh_today a sid vm cm = Some (a', rv, rc) /\
    (r_err rv = NeNone \/ r_err rc = NeNone ->
     ((r_role rv = NhSender /\ r_role rc = NhReceiver) \/ (r_role rv = NhReceiver /\ r_role rc = NhSender)) /\
     exists cf vf, nh_classify (cm_mapped cm) (nh_parse_ips (cm_assisted cm)) = inl cf /\
                   nh_classify (vm_mapped vm) (nh_parse_ips (vm_assisted vm)) = inl vf /\
                   nh_rule_prop (r_mode rv) cf vf (r_role rc) (r_role rv)).
Proof. exact (nh_T_response_roles C20_source_tables_check). Qed.
Print Assumptions C20_response_roles.

(* "the receiver is still listening when the sender starts" -- for every pair of instructions in every reachable state:
   ReadTimeoutMs of the receiving side >= SendDelayMs of the sending side + the stagger HandleVisitor inserts before the
   sender's response + 3000 ms, and the sender waits >= 3000 ms for the answer.  The timeout expressions of
   Controller.analysis and the stagger of HandleVisitor are translated from today's source (T2) and evaluated over
   every row of today's tables inside C20_source_tables_check ([nh_resp_timing], [nh_margin]: Proofs/NatHoleProofs.v). *)
Theorem C20_receiver_still_listening :
  forall a sid vm cm, nh_reachable nh_today a ->
  exists a' rv rc, nh_responses nh_today a sid vm cm = Some (a', rv, rc) /\
    (r_err rv = NeNone \/ r_err rc = NeNone -> nh_resp_timing nh_today rv rc).
Proof. exact (nh_T_receiver_still_listening C20_source_tables_check). Qed.
Print Assumptions C20_receiver_still_listening.

Example C20_ex_stagger_today : (tm_stagger_v (nd_timing nh_today), tm_stagger_c (nd_timing nh_today), nh_margin) = (1000, 1000, 3000).
Proof. vm_compute. reflexivity. Qed.

(* every candidate port range of either response: 1 <= From <= To <= 65535 (full strength, repaired code) *)
Theorem C20_ranges_wellformed :
  forall a sid vm cm, nh_reachable nh_today a ->
  exists a' rv rc, nh_responses nh_today a sid vm cm = Some (a', rv, rc) /\
    forall from to, In (from, to) (r_ranges rv ++ r_ranges rc) -> 1 <= from /\ from <= to /\ to <= 65535.
Proof. exact (nh_T_ranges_wellformed C20_source_tables_check). Qed.
Print Assumptions C20_ranges_wellformed.

(* fewer than two mapped addresses, or any mapped address that does not parse or whose port is outside 1..65535:
   the same error response to both parties, no instruction, analyzer untouched, never a crash *)
Theorem C20_malformed_yields_error_to_both :
  forall a sid vm cm,
  (length (cm_mapped cm) <= 1)%nat \/ (length (vm_mapped vm) <= 1)%nat \/
  (exists x, In x (cm_mapped cm ++ vm_mapped vm) /\ nh_addr_ok x = false) ->
  exists e, e <> NeNone /\
    nh_responses nh_today a sid vm cm = Some (a, nh_err_resp (vm_tid vm) e, nh_err_resp (cm_tid cm) e).
Proof. exact (nh_T_malformed_yields_error_to_both C20_source_tables_check). Qed.
Print Assumptions C20_malformed_yields_error_to_both.

Theorem C20_instruction_only_if_wellformed :
  forall a sid vm cm, nh_reachable nh_today a ->
  exists a' rv rc, nh_responses nh_today a sid vm cm = Some (a', rv, rc) /\
    (r_err rv = NeNone \/ r_err rc = NeNone ->
     (2 <= length (cm_mapped cm))%nat /\ (2 <= length (vm_mapped vm))%nat /\
     forall x, In x (cm_mapped cm ++ vm_mapped vm) -> nh_addr_ok x = true).
Proof. exact (nh_T_instruction_only_if_wellformed C20_source_tables_check). Qed.
Print Assumptions C20_instruction_only_if_wellformed.

(* ---- the controller's session table: every state, every schedule of atomic steps; [auth] is util.GetAuthKey ---- *)

(* HandleVisitor either answers the requester alone and leaves the table as it is, or inserts ONE session -- and then
   the request is not a pre-check, names a registered (live) xtcp proxy, carries that proxy's signature over its
   timestamp, and comes from an allowed user *)
Theorem C20_session_only_if_signed_and_live :
  forall auth st vm tr user st' outs,
  ctl_step nh_today auth st (EvVisitor vm tr user) = Some (st', outs) ->
  (st_sess st' = st_sess st /\ exists e, outs = [OutReply tr (nh_err_resp (vm_tid vm) e)] /\
     (e = NeNone -> vm_precheck vm = true)) \/
  (exists cfg s, In cfg (st_cfgs st) /\ cc_name cfg = vm_proxy vm /\ vm_precheck vm = false /\
     vm_signkey vm = auth (cc_sk cfg) (vm_ts vm) /\ ctl_allowed cfg user = true /\
     st_sess st' = st_sess st ++ [s] /\ ss_sid s = st_next_sid st /\ ss_vmsg s = vm /\ ss_vtr s = tr /\
     ss_chan s = cc_chan cfg /\ ss_in_table s = true /\ ss_pc s = PcNotify /\ outs = []).
Proof. exact (ctl_session_only_if_signed_and_live nh_today). Qed.
Print Assumptions C20_session_only_if_signed_and_live.

Theorem C20_no_other_event_creates_a_session :
  forall auth st e st' outs, ctl_step nh_today auth st e = Some (st', outs) ->
  (forall vm tr user, e <> EvVisitor vm tr user) -> map ss_sid (st_sess st') = map ss_sid (st_sess st).
Proof. exact (ctl_other_events_add_no_session nh_today). Qed.
Print Assumptions C20_no_other_event_creates_a_session.

(* a response of session t is sent only by its own send steps: the visitor's copy to the transporter of the
   NatHoleVisitor, the owner's copy to the transporter of the latest NatHoleClient carrying this sid *)
Theorem C20_response_to_exactly_two :
  forall auth st e st' outs t role tr r,
  ctl_step nh_today auth st e = Some (st', outs) -> In (OutResp t role tr r) outs ->
  exists s rv rc, ctl_find t (st_sess st) = Some s /\ ss_resps s = Some (rv, rc) /\ outs = [OutResp t role tr r] /\
    ((role = ToVisitor /\ e = EvSendV t /\ tr = ss_vtr s /\ r = rv /\ exists c, ss_pc s = PcSend false c) \/
     (role = ToClient /\ e = EvSendC t /\ r = rc /\ (exists cm, ss_client s = Some (cm, tr)) /\ exists v, ss_pc s = PcSend v false)).
Proof. exact (ctl_response_destinations nh_today). Qed.
Print Assumptions C20_response_to_exactly_two.

(* and each of the two send steps disables itself *)
Theorem C20_response_sent_once :
  forall auth st t st' outs,
  (ctl_step nh_today auth st (EvSendV t) = Some (st', outs) -> ctl_step nh_today auth st' (EvSendV t) = None) /\
  (ctl_step nh_today auth st (EvSendC t) = Some (st', outs) -> ctl_step nh_today auth st' (EvSendC t) = None).
Proof. exact (ctl_send_disables_itself nh_today). Qed.
Print Assumptions C20_response_sent_once.

(* XTCPProxy.Close ([EvProxyClose]: BaseProxy.Close; CloseClient synchronously; close(closeCh) -- that this is what
   server/proxy/xtcp.go does today is part of C20_source_tables_check) can be taken in EVERY state, whatever the proxy's
   hand-over goroutine is doing (idle in its select, or up to 10 s inside GetWorkConnFromPool for an earlier visitor's sid),
   and when it returns the controller does not list the proxy any more and no session was touched *)
Theorem C20_close_unregisters_in_every_state :
  forall auth st name,
  exists st', ctl_step nh_today auth st (EvProxyClose name) = Some (st', []) /\
              ctl_find_cfg name (st_cfgs st') = None /\ st_sess st' = st_sess st.
Proof. exact (ctl_proxy_close nh_today). Qed.
Print Assumptions C20_close_unregisters_in_every_state.

(* all interleavings after Close has returned (any events of other sessions, of the closed proxy's still running goroutine,
   of other proxies -- anything but a new registration of that very name, [ctl_registers]: ListenClient directly or through a
   NewProxy of a live control): a HandleVisitor naming the closed proxy, signed or
   pre-check, gets "doesn't exist" and creates no session *)
Theorem C20_no_session_for_closed_proxy :
  forall auth st name st1 o1 evs vm tr user st3 o3,
  ctl_step nh_today auth st (EvProxyClose name) = Some (st1, o1) ->
  Forall (fun e => ~ ctl_registers e name) evs ->
  vm_proxy vm = name ->
  ctl_step nh_today auth (fst (ctl_run nh_today auth st1 evs)) (EvVisitor vm tr user) = Some (st3, o3) ->
  st3 = fst (ctl_run nh_today auth st1 evs) /\ o3 = [OutReply tr (nh_err_resp (vm_tid vm) NeNoProxy)].
Proof. exact (fun auth => ctl_no_session_for_closed_proxy nh_today auth (nh_T_ok C20_source_tables_check)). Qed.
Print Assumptions C20_no_session_for_closed_proxy.

(* ---- registrations made through a control session (NewProxy -> RegisterProxy -> XTCPProxy.Run -> ListenClient) ---- *)
(* NewProxy is handled inside the control's read loop, and Control.worker starts the teardown only after that loop has ended
   (translated facts, part of C20_source_tables_check): a control that has ended cannot register any more *)
Theorem C20_ended_control_cannot_register :
  forall auth st k name sk allow,
  ctl_zin k (st_deadctl st) = true -> ctl_step nh_today auth st (EvNewProxy k name sk allow) = None.
Proof. exact (ctl_dead_control_cannot_register nh_today). Qed.
Print Assumptions C20_ended_control_cannot_register.

(* every schedule: whatever the controller lists was registered directly or by a control whose read loop has NOT ended; so
   once the owner's control is gone (EvCtlEnd: its teardown closes every proxy it registered) none of its xtcp proxies is
   listed, a pre-check for one says "doesn't exist" and no session is created for it (C20_session_only_if_signed_and_live) *)
Theorem C20_listed_proxy_has_a_live_control :
  forall auth evs c, let st := fst (ctl_run nh_today auth ctl_init evs) in
  In c (st_cfgs st) -> ctl_zin (cc_owner c) (st_deadctl st) = false.
Proof. exact (fun auth evs c => ctl_listed_implies_owner_alive nh_today auth (nh_T_ok C20_source_tables_check) evs c). Qed.
Print Assumptions C20_listed_proxy_has_a_live_control.

(* ---- the detect messages between the two peers ---- *)
(* EncodeMessage / DecodeMessageInto are frame-then-encrypt / decrypt-then-unframe with the caller's key and no branch on the
   key (translated, part of C20_source_tables_check), so for EVERY key -- the empty key of an xtcp pair without secretKey
   included -- what one honest peer sends the other decodes (crypto and framing are oracles with their round-trip laws) *)
Theorem C20_sid_codec_symmetric_for_every_key :
  forall (M : Type) (frame : M -> bytes) (unframe : bytes -> option M) (enc dec : bytes -> bytes -> option bytes),
  (forall m, unframe (frame m) = Some m) ->
  (forall k s, exists c, enc k s = Some c) ->
  (forall k s c, enc k s = Some c -> dec k c = Some s) ->
  forall key m, exists d, sid_encode M frame enc key m = Some d /\ sid_decode M unframe dec key d = Some m.
Proof. exact sid_roundtrip. Qed.
Print Assumptions C20_sid_codec_symmetric_for_every_key.

(* ---- the transporter each NatHoleResp is handed to (every OutReply / OutResp above is one call of Send) ---- *)
(* Send on a control's bounded queue has exactly three outcomes: the message is in the queue; refused, and then the control's
   dispatcher has ended; or the caller stays parked, and then the queue is full and the dispatcher is still there.  There is
   no outcome "returned without enqueuing although the control is alive" -- a response is never silently dropped.  (That
   transporterImpl.Send is a send on sendCh, at most guarded by doneCh, with no default clause is part of
   C20_source_tables_check.) *)
Theorem C20_send_never_drops :
  forall st m o st', tr_step st (TrSend m) o = Some st' ->
  (o = TrEnqueued /\ tq st' = tq st ++ [m] /\ tparked st' = None) \/
  (o = TrClosed /\ tdone st = true /\ st' = st) \/
  (o = TrParked /\ tr_full st = true /\ tdone st = false /\ tq st' = tq st /\ tparked st' = Some m).
Proof. exact tr_send_outcomes. Qed.
Print Assumptions C20_send_never_drops.

(* every history of sends, drains and the dispatcher's end: a parked Send is released by the very next drain (its message is
   then in the queue) or by the end of the dispatcher (error) -- it is not left behind *)
Theorem C20_parked_send_is_released :
  forall cap l st p, tr_run (tr_init cap) l = Some st -> tparked st = Some p ->
  (forall m u st', tr_step st TrDrain (TrDrained m u) = Some st' -> u = true /\ In p (tq st') /\ tparked st' = None) /\
  (forall r st', tr_step st TrDone (TrDoneObs r) = Some st' -> r = true /\ tparked st' = None /\ tdone st' = true) /\
  (forall st', tr_step st TrDrain TrEmpty = Some st' -> tcap st = 0%nat).
Proof. exact (fun cap l st p H => tr_parked_released st p (tr_run_inv l _ _ (tr_inv_init cap) H)). Qed.
Print Assumptions C20_parked_send_is_released.

(* WHOLE SCHEDULES: over any schedule, for every session t and each of the two parties, the number of NatHoleResp sent on
   behalf of t ([ctl_cnt]: OutResp t role _ _ in the output trace) is 0 or 1; it is exactly 1 for the visitor's control AND
   exactly 1 for the owner's control once the exchange completed, and 0 for both when the session ended by a timeout or is
   still waiting.  With C20_response_to_exactly_two (where each copy goes) this is "a response to exactly the two controls". *)
Theorem C20_each_control_gets_exactly_one :
  forall auth evs t role,
  let st := fst (ctl_run nh_today auth ctl_init evs) in let outs := snd (ctl_run nh_today auth ctl_init evs) in
  0 <= ctl_cnt role t outs <= 1 /\
  forall s, ctl_find t (st_sess st) = Some s ->
    (ss_pc s = PcSleep \/ ss_pc s = PcDoneComplete -> ctl_cnt role t outs = 1) /\
    (ss_pc s = PcDoneTimeout \/ ss_pc s = PcNotify \/ ss_pc s = PcWait \/ ss_pc s = PcAnalyse -> ctl_cnt role t outs = 0).
Proof. exact (fun auth evs t role => ctl_responses_per_session nh_today auth (nh_T_ok C20_source_tables_check) evs t role). Qed.
Print Assumptions C20_each_control_gets_exactly_one.

(* all schedules: the invariant (unique sids; in the table exactly while HandleVisitor has not returned; analyzer records intact) *)
Theorem C20_schedule_invariant :
  forall auth evs, ctl_inv nh_today (fst (ctl_run nh_today auth ctl_init evs)).
Proof. exact (fun auth evs => ctl_run_inv nh_today auth (nh_T_ok C20_source_tables_check) evs ctl_init (ctl_inv_init nh_today)). Qed.
Print Assumptions C20_schedule_invariant.

(* the analysis step of a woken session can always be taken: no address list makes the controller crash *)
Theorem C20_analysis_never_crashes :
  forall auth evs t s cm ctr, let st := fst (ctl_run nh_today auth ctl_init evs) in
  ctl_find t (st_sess st) = Some s -> ss_pc s = PcAnalyse -> ss_client s = Some (cm, ctr) ->
  exists st', ctl_step nh_today auth st (EvAnalyse t) = Some (st', []).
Proof.
  exact (fun auth evs t s cm ctr => ctl_analyse_enabled nh_today auth (nh_T_ok C20_source_tables_check) _ t s cm ctr
           (ctl_run_inv nh_today auth (nh_T_ok C20_source_tables_check) evs ctl_init (ctl_inv_init nh_today))).
Qed.
Print Assumptions C20_analysis_never_crashes.

(* all schedules: at quiescence (no HandleVisitor invocation can take a step) the session table is empty (full strength,
   code with F-C20b repaired: the hand-over of the sid has a timeout branch) *)
Theorem C20_sessions_empty_at_quiescence :
  forall auth evs, let st := fst (ctl_run nh_today auth ctl_init evs) in
  ctl_quiescent st = true -> ctl_table st = [].
Proof.
  exact (fun auth evs => ctl_sessions_empty_at_quiescence nh_today _
           (ctl_run_inv nh_today auth (nh_T_ok C20_source_tables_check) evs ctl_init (ctl_inv_init nh_today))).
Qed.
Print Assumptions C20_sessions_empty_at_quiescence.

(* all schedules: a session in the table always has an enabled step of its own (it is never wedged) *)
Theorem C20_session_in_table_can_progress :
  forall auth evs s, let st := fst (ctl_run nh_today auth ctl_init evs) in
  In s (st_sess st) -> ss_in_table s = true -> ctl_sess_enabled st s = true.
Proof.
  exact (fun auth evs s => ctl_in_table_enabled nh_today _ s
           (ctl_run_inv nh_today auth (nh_T_ok C20_source_tables_check) evs ctl_init (ctl_inv_init nh_today))).
Qed.
Print Assumptions C20_session_in_table_can_progress.

(* regression witness for the repaired defect F-C20b: owner registers, a correctly signed visitor request is accepted,
   the owner closes before taking the sid.  Without the timeout branch of the hand-over nothing is enabled for the
   session (this was the leak); with it the session is given up and the table is empty. *)
Definition ex_vm0 : nh_vmsg :=
  {| vm_tid := [x74]; vm_proxy := [x70]; vm_precheck := false; vm_protocol := []; vm_signkey := []; vm_ts := 0;
     vm_mapped := []; vm_assisted := [] |}.
Theorem C20_handover_to_departed_owner_witness :
  let st := fst (ctl_run nh_today (fun _ _ => []) ctl_init [EvListen [x70] [] [ctl_star]; EvVisitor ex_vm0 0 []; EvClose [x70]]) in
  ctl_table st = [0] /\ forallb (ctl_sess_enabled_before_repair st) (st_sess st) = false /\
  ctl_step nh_today (fun _ _ => []) st (EvDeliver 0) = None /\
  match ctl_step nh_today (fun _ _ => []) st (EvGiveUp 0) with
  | Some (st', outs) => ctl_table st' = [] /\ ctl_quiescent st' = true /\ outs = []
  | None => False
  end.
Proof. vm_compute. repeat split; reflexivity. Qed.
Print Assumptions C20_handover_to_departed_owner_witness.

(* ---- the hypotheses are satisfiable, the branches are inhabited ---- *)
Definition ex_hard_regular : nh_feature := {| nf_nat := NhHard; nf_behav := NhPortChanged; nf_diff := 3; nf_regular := true; nf_public := false |}.
Definition ex_easy : nh_feature := {| nf_nat := NhEasy; nf_behav := NhNoChange; nf_diff := 0; nf_regular := false; nf_public := false |}.

Example C20_ex_history :
  match nh_run_analyzer nh_today [] [ARec [x61] ex_easy ex_hard_regular; ARep [x61] 1 0; ARec [x61] ex_easy ex_hard_regular; ARec [x61] ex_easy ex_hard_regular] with
  | Some (_, outs) => map (fun r => (rc_mode r, rc_index r, nb_role (rc_cbeh r), nb_role (rc_vbeh r))) outs
  | None => []
  end = [(1, 0, NhReceiver, NhSender); (1, 0, NhReceiver, NhSender); (1, 0, NhReceiver, NhSender)].
Proof. vm_compute. reflexivity. Qed.

Definition ex_addr (s : string) : bytes := list_byte_of_string s.
Definition ex_vm (mapped : list bytes) : nh_vmsg :=
  {| vm_tid := ex_addr "tv"; vm_proxy := ex_addr "p"; vm_precheck := false; vm_protocol := ex_addr "quic"; vm_signkey := [];
     vm_ts := 0; vm_mapped := mapped; vm_assisted := [ex_addr "10.0.0.2:7000"] |}.
Definition ex_cm (mapped : list bytes) : nh_cmsg :=
  {| cm_tid := ex_addr "tc"; cm_proxy := ex_addr "p"; cm_sid := ex_addr "s1"; cm_mapped := mapped; cm_assisted := [] |}.

(* a hard NAT with regular port changes at the top of the port space: the range is clamped to 65535 *)
Example C20_ex_instruction :
  match nh_responses nh_today [] (ex_addr "s1") (ex_vm [ex_addr "1.2.3.4:65533"; ex_addr "1.2.3.4:65535"]) (ex_cm [ex_addr "5.6.7.8:80"; ex_addr "5.6.7.8:80"]) with
  | Some (_, rv, rc) => Some (r_err rv, r_mode rv, r_role rv, r_role rc, r_ranges rv, r_ranges rc)
  | None => None
  end = Some (NeNone, 1, NhSender, NhReceiver, [], [(65528, 65535)]).
Proof. vm_compute. reflexivity. Qed.

(* the input of the repaired defect F-C20: port 70000 is an error to both, not a range with From > To *)
Example C20_ex_out_of_range :
  match nh_responses nh_today [] (ex_addr "s1") (ex_vm [ex_addr "1.2.3.4:70000"; ex_addr "1.2.3.4:70001"]) (ex_cm [ex_addr "5.6.7.8:80"; ex_addr "5.6.7.8:80"]) with
  | Some (_, rv, rc) => Some (r_err rv, r_err rc, r_role rv, r_sid rc)
  | None => None
  end = Some (NeClassifyVisitor CePort, NeClassifyVisitor CePort, NhNoRole, []).
Proof. vm_compute. reflexivity. Qed.

(* a complete session: hand-over, owner's answer, wake, analysis, both sends, sleep, delete -> table empty again *)
Example C20_ex_session :
  let evs := [EvListen [x70] [] [ctl_star]; EvVisitor (ex_vm [ex_addr "1.2.3.4:4000"; ex_addr "1.2.3.4:4003"]) 0 [];
              EvDeliver 0; EvClient (ex_cm [ex_addr "5.6.7.8:80"; ex_addr "5.6.7.8:80"]) 1; EvWake 0; EvAnalyse 0;
              EvSendC 0; EvSendV 0; EvSleepDone 0] in
  let '(st, outs) := ctl_run nh_today (fun _ _ => []) ctl_init
        (map (fun e => match e with
                       | EvVisitor vm tr u => EvVisitor {| vm_tid := vm_tid vm; vm_proxy := [x70]; vm_precheck := false; vm_protocol := vm_protocol vm;
                                                           vm_signkey := []; vm_ts := 0; vm_mapped := vm_mapped vm; vm_assisted := vm_assisted vm |} tr u
                       | EvClient cm tr => EvClient {| cm_tid := cm_tid cm; cm_proxy := cm_proxy cm; cm_sid := ctl_sid_bytes 0;
                                                       cm_mapped := cm_mapped cm; cm_assisted := cm_assisted cm |} tr
                       | e => e end) evs) in
  (ctl_table st, ctl_quiescent st, map (fun o => match o with OutResp t _ tr r => (t, tr, r_role r) | _ => (-1, -1, NhNoRole) end) outs)
  = ([], true, [(-1, -1, NhNoRole); (-1, -1, NhNoRole); (0, 1, NhReceiver); (0, 0, NhSender)]).
Proof. vm_compute. reflexivity. Qed.
