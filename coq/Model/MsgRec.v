(* C17, message level: typed views of the value vectors of Model/MsgObj.v.
   The records themselves (one per struct of pkg/msg/msg.go) are generated: gen/GenMsgRec.v.
   Here: the accessors the generated conversions are made of, and the whole-message codec
   (frame + JSON text oracle + object codec + conversion) they are plugged into.  No proofs. *)
From FRP Require Export Model.Frame Model.MsgObj.

Definition obind {A B} (o : option A) (f : A -> option B) : option B :=
  match o with Some a => f a | None => None end.

Definition gv_str (v : gv) : option bytes := match v with VStr s => Some s | _ => None end.
Definition gv_int (v : gv) : option Z := match v with VInt z => Some z | _ => None end.
Definition gv_bool (v : gv) : option bool := match v with VBool b => Some b | _ => None end.
Definition gv_map (v : gv) : option (list (bytes * bytes)) := match v with VMap m => Some m | _ => None end.
Definition gv_strs (v : gv) : option (list bytes) := match v with VStrs l => Some l | _ => None end.
Definition gv_struct {A} (f : list gv -> option A) (v : gv) : option A :=
  match v with VStruct vs => f vs | _ => None end.
Definition gv_structs {A} (f : list gv -> option A) (v : gv) : option (list A) :=
  match v with VStructs l => opt_all (map f l) | _ => None end.
(* a Go pointer: nil stays nil, a non-nil pointer stays non-nil even when it points to the zero value *)
Definition gv_ptr {A} (f : list gv -> option A) (v : gv) : option (option A) :=
  match v with
  | VPtr None => Some None
  | VPtr (Some vs) => match f vs with Some a => Some (Some a) | None => None end
  | _ => None
  end.

Fixpoint schema_lookup (n : string) (l : list (string * list field)) : option (list field) :=
  match l with [] => None | (k, v) :: r => if String.eqb n k then Some v else schema_lookup n r end.
(* used under Eval vm_compute by the generated file; an unknown name gives a schema that is not
   well formed (duplicate json names), so every obligation about it fails *)
Definition schema_of (structs : list (string * list field)) (n : string) : list field :=
  match schema_lookup n structs with
  | Some fs => fs
  | None => [("?"%string, "?"%string, KUnknown n, false); ("?"%string, "?"%string, KUnknown n, false)]
  end.

Section MsgLevel.
  (* the JSON text layer (encoding/json) is an oracle *)
  Variable render : list (bytes * jv) -> bytes.
  Variable parse : bytes -> option (list (bytes * jv)).
  Variable reg : byte -> bool.

  (* msg.WriteMsg: Pack = type byte, length, json.Marshal *)
  Definition encode_rec {A} (b : byte) (fs : list field) (to : A -> list gv) (m : A) : bytes :=
    encode_frame b (render (enc_obj fs (to m))).

  (* msg.ReadMsg followed by the type assertion of the caller *)
  Definition decode_rec {A} (b : byte) (fs : list field) (of : list gv -> option A) (s : bytes)
    : option (A * bytes) :=
    match decode_frame reg s with
    | DOk r _ _ =>
        if Byte.eqb (d_type r) b then
          match parse (d_body r) with
          | Some o =>
              match dec_obj fs o with
              | Some vs => match of vs with Some m => Some (m, d_rest r) | None => None end
              | None => None
              end
          | None => None
          end
        else None
    | DErr _ _ _ => None
    end.
End MsgLevel.
