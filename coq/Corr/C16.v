(* C16 correspondence: the reference allocation model against the number of advance requests the
   real server sends, and the survival monitor over barrage observations.  CBarrage cases whose kind
   starts with "client:" are observations of the frpc child (driver clientbarrage: a real frpc against a
   scripted fake frps); the others are observations of the frps child. *)
From FRP Require Export Corr.Common Model.Alloc.
Open Scope Z_scope.

Inductive case :=
| CAlloc (login_pool max_pool observed_req : Z) (crashed : bool)
| CBarrage (kind typ : string) (alive watchdog_ok : bool).

(* 0 = agrees.  1 the server died; 2 the number of ReqWorkConn differs from min(client, max) clamped at 0;
   3 the server refused a login only because of its PoolCount; 4 server dead after a barrage message;
   5 watchdog failed *)
Definition check_case (c : case) : Z :=
  match c with
  | CAlloc p m got crashed =>
      if crashed then 1
      else if got =? -2 then 3
      else if got =? al_pool_count p m then 0 else 2
  | CBarrage _ _ alive wd => if negb alive then 4 else if negb wd then 5 else 0
  end.

Definition clamped_low (c : case) : bool := match c with CAlloc p _ _ _ => p <? 0 | _ => false end.
Definition clamped_high (c : case) : bool := match c with CAlloc p m _ _ => m <? p | _ => false end.

(* observations of the client process (kind "client:...") and, among them, those taken right after a watchdog run *)
Definition client_case (c : case) : bool := match c with CBarrage k _ _ _ => String.prefix "client:" k | _ => false end.
Definition client_login_case (c : case) : bool := match c with CBarrage k _ _ _ => String.prefix "client:login" k | _ => false end.
