package main

// Part "limit": the bandwidth-limit dimension.  A udp / sudp tunnel with useEncryption and transport.bandwidthLimit = 2KB
// (client and server mode): a 1500-byte datagram makes a work-connection message of about 2060 bytes, more than the
// limiter's burst, so limit.Writer has to chunk it under the AES stream writer.  Several round trips in sequence must
// all complete with identical payloads (runs in the background of the other parts: the limiter makes each trip take seconds).

import (
	"fmt"
	"net"
	"sync"
	"time"

	"github.com/fatedier/frp/pkg/config/types"
	v1 "github.com/fatedier/frp/pkg/config/v1"
	"verifharness/hx"
)

func runLimit(cfg *hx.RunCfg, seed int64) ([]string, []failure) {
	type res struct {
		c  string
		fs []failure
	}
	specs := []struct {
		sudp bool
		mode string
	}{{false, "client"}, {false, "server"}, {true, "client"}}
	out := make([]res, len(specs))
	var wg sync.WaitGroup
	for i, sp := range specs {
		wg.Add(1)
		go func(i int, sudp bool, mode string) {
			defer wg.Done()
			c, fs := limitTunnel(i, sudp, mode, hx.NewGen(seed+int64(i)))
			out[i] = res{c, fs}
		}(i, sp.sudp, sp.mode)
	}
	wg.Wait()
	var cases []string
	var fs []failure
	for _, r := range out {
		if r.c != "" {
			cases = append(cases, r.c)
		}
		fs = append(fs, r.fs...)
	}
	return cases, fs
}

func limitTunnel(id int, sudp bool, mode string, g *hx.Gen) (string, []failure) {
	kind := "udp"
	if sudp {
		kind = "sudp"
	}
	desc := fmt.Sprintf("%s proxy, useEncryption, bandwidthLimit 2KB (%s mode)", kind, mode)
	setup := func(s string) (string, []failure) { return "", []failure{fail("limit:setup", desc+": "+s, "")} }
	srvIP := fmt.Sprintf("127.0.3.%d", 100+id)
	bkIP := fmt.Sprintf("127.0.3.%d", 110+id)
	s, err := hx.StartServer(srvIP, nil)
	if err != nil {
		if s != nil {
			s.Close()
		}
		return setup("frps: " + err.Error())
	}
	defer s.Close()
	w, err := newWorld(bkIP, 2)
	if err != nil {
		return setup(err.Error())
	}
	defer w.close()
	bw, err := types.NewBandwidthQuantity("2KB")
	if err != nil {
		return setup(err.Error())
	}
	name := fmt.Sprintf("c03lim%d", id)
	var proxies []v1.ProxyConfigurer
	var visitors []v1.VisitorConfigurer
	var target *net.UDPAddr
	if !sudp {
		pc := &v1.UDPProxyConfig{}
		pc.Name, pc.Type = name, "udp"
		pc.LocalIP, pc.LocalPort = bkIP, w.backendAddr().Port
		pc.RemotePort = hx.FreeUDPPort(srvIP)
		pc.Transport.UseEncryption = true
		pc.Transport.BandwidthLimit, pc.Transport.BandwidthLimitMode = bw, mode
		proxies = append(proxies, pc)
		target = &net.UDPAddr{IP: net.ParseIP(srvIP), Port: pc.RemotePort}
	} else {
		pc := &v1.SUDPProxyConfig{}
		pc.Name, pc.Type = name, "sudp"
		pc.Secretkey = "k3y"
		pc.LocalIP, pc.LocalPort = bkIP, w.backendAddr().Port
		pc.Transport.UseEncryption = true
		pc.Transport.BandwidthLimit, pc.Transport.BandwidthLimitMode = bw, mode
		proxies = append(proxies, pc)
		vc := &v1.SUDPVisitorConfig{}
		vc.Name, vc.Type = name+"-visitor", "sudp"
		vc.ServerName, vc.SecretKey = name, "k3y"
		vc.BindAddr = fmt.Sprintf("127.0.3.%d", 120+id)
		vc.BindPort = hx.FreeUDPPort(vc.BindAddr)
		vc.Transport.UseEncryption = true
		visitors = append(visitors, vc)
		target = &net.UDPAddr{IP: net.ParseIP(vc.BindAddr), Port: vc.BindPort}
	}
	c, err := s.StartClient(proxies, visitors, nil)
	if err != nil {
		return setup("frpc: " + err.Error())
	}
	defer c.Close()
	if !c.WaitProxyRunning(name, 5*time.Second) {
		return setup("proxy did not reach phase running")
	}
	var sends []send
	up := false
	for t0 := time.Now(); time.Since(t0) < 10*time.Second && !up; { // small recorded pings (phase 1)
		sends = append(sends, send{0, 1, mkPayload(g, 0, len(sends), 8+g.Intn(8))})
		idxs := w.sendBurst(sends, len(sends)-1, target)
		up = waitUntil(150*time.Millisecond, func() bool { return w.allDone(idxs) })
	}
	if !up {
		return "", []failure{fail("limit:not-established", desc+": no datagram got through within 10 s", "")}
	}
	time.Sleep(1200 * time.Millisecond) // let the limiter's bucket fill again
	missing := -1
	for i, n := range []int{bufSize, bufSize, 1490 + g.Intn(10), 16} {
		u := i % 2
		sends = append(sends, send{u, 2, mkPayload(g, u, len(sends), n)})
		idxs := w.sendBurst(sends, len(sends)-1, target)
		if !waitUntil(15*time.Second, func() bool { return w.allDone(idxs) }) && missing < 0 {
			missing = len(sends) - 1
		}
	}
	time.Sleep(30 * time.Millisecond)
	ov := w.observe(nil, nil)
	line := fmt.Sprintf("CSys %d 2 %s %s %s", 300+id, coqSends(sends), ov.backend, ov.urecv)
	var fs []failure
	if missing >= 0 {
		fs = append(fs, fail("limit:reply-not-delivered", fmt.Sprintf("%s: round trip %d (%d bytes; its work-connection message is larger than the limiter's burst) "+
			"was not completed within 15 s, one at a time, at light load", desc, missing, len(sends[missing].data)), clip(line, 1500)))
	}
	for _, f := range dedupe(w.monitor("limit", sends, false)) {
		if f.key == "limit:lost" && missing >= 0 {
			continue
		}
		fs = append(fs, fail(f.key, desc+": "+f.what, clip(line, 1500)))
	}
	return line, fs
}
