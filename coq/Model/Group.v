(* C13 — load-balancing groups (server/group/tcp.go, http.go, tcpmux.go) as an executable model.
   No proofs here.

   One model for the three controller kinds.  A join of the CURRENT code is one atomic step
   (lookup-or-create and the group's Listen/Register both under the controller lock, since the
   repair of finding F-C13); [stepg true] keeps the former two-step join for regression witnesses.
   What is mirrored, function by function:

     lookup      = the controller-lock section of TCPGroupCtl.Listen / HTTPGroupController.Register /
                   TCPMuxGroupCtl.Listen: find the group object under its name, or create a fresh one
                   and enter it in the table.
     mutate      = TCPGroup.Listen / HTTPGroup.Register / TCPMuxGroup.HTTPConnectListen, under the
                   group's own lock: "first member" branch (acquire port / add route, listen, set the
                   parameters, start the worker) or "later member" branch (the checks in the code's
                   order, each with its own error).
     leave_chan  = TCPGroup.CloseListener / TCPMuxGroup.CloseListener (reached through the listener's
                   pointer to its group object): remove the listener; if none is left close(acceptCh)
                   (a second close is a Go panic: [None]), close the real listener, release the port /
                   route, RemoveGroup(tg.group) — by NAME.
     leave_http  = HTTPGroupController.UnRegister: under the controller lock look the group up by name
                   (nothing happens if there is none), HTTPGroup.UnRegister, delete the table entry
                   if the group reports empty.
     conn_accept / conn_handoff = TCPGroup.worker / TCPMuxGroup.worker: Accept on the real listener,
                   then the unbuffered send on acceptCh inside PanicToError.
     http_pick   = HTTPGroup.chooseEndpoint + createConnByEndpoint (and createConn): counter + 1,
                   pxyNames[counter mod len], createFuncs[name].

   Go pointers are object ids (index into [s_heap]); a group object stays in the heap after it has
   been removed from the table — exactly like a Go object that is still referenced by a goroutine
   that looked it up earlier.  Names, keys, addresses, domains … are [Z] (0 = the empty string):
   the code only compares them for equality.  External behaviour is an oracle field of the request:
   the port the manager picked for "port 0", the OS probe, the result of net.Listen. *)
From FRP Require Export Model.Bytes.
Open Scope Z_scope.

Module Grp.

Inductive kind := KTcp | KHttp | KMux.

Inductive jerr :=
| EParams          (* ErrGroupParamsInvalid *)
| EDiffPort        (* ErrGroupDifferentPort *)
| EAuth            (* ErrGroupAuthFailed *)
| ERepeated        (* ErrProxyRepeated *)
| EPortUsed        (* ports.ErrPortAlreadyUsed *)
| EPortNotAllowed  (* ports.ErrPortNotAllowed *)
| EPortUnavail     (* ports.ErrPortUnAvailable *)
| ENoPort          (* ports.ErrNoAvailablePort *)
| EListenFail      (* net.Listen error *)
| ERouteConflict   (* vhost.ErrRouterConfigConflict *)
| EMux             (* unknown multiplexer *)
| EOracle.         (* the observed oracle value is not one the model allows *)

Inductive jres := JOk (real : Z) | JErr (e : jerr).

(* j_par: tcp [addr]; http [domain; location; routeByHTTPUser; username; password];
   tcpmux [domain; routeByHTTPUser; username; password] *)
Record jreq := { j_m : Z; j_group : Z; j_key : Z; j_par : list Z; j_port : Z;
                 j_pick : Z; j_os : bool; j_lis : bool; j_mux : bool }.

Record grp := { g_name : Z; g_key : Z; g_par : list Z; g_port : Z; g_real : Z;
                g_lns : list Z;      (* tcp/tcpmux: lns (listener identities, in order); http: pxyNames *)
                g_funcs : list Z;    (* http: keys of createFuncs *)
                g_idx : Z;           (* http: index *)
                g_closed : bool;     (* acceptCh has been closed *)
                g_ep : bool;         (* the real listener / route of this object is open *)
                g_wk : bool;         (* the worker started for the current real listener is alive *)
                g_gen : Z }.         (* number of real listeners this object has opened so far *)

Definition new_grp : grp :=
  {| g_name := 0; g_key := 0; g_par := []; g_port := 0; g_real := 0; g_lns := []; g_funcs := [];
     g_idx := 0; g_closed := false; g_ep := false; g_wk := false; g_gen := 0 |}.

Record st := { s_tab : list (Z * nat);      (* ctl.groups *)
               s_heap : list grp;           (* every group object ever created *)
               s_used : list (list Z);      (* ports.Manager.usedPorts / entries of the router *)
               s_env : list (list Z);       (* of those, the ones held by something that is not a group *)
               s_lo : Z; s_hi : Z }.        (* allowed port range *)

Definition init_st (lo hi : Z) : st :=
  {| s_tab := []; s_heap := []; s_used := []; s_env := []; s_lo := lo; s_hi := hi |}.

Fixpoint lz_eqb (a b : list Z) : bool :=
  match a, b with
  | [], [] => true
  | x :: a', y :: b' => (x =? y) && lz_eqb a' b'
  | _, _ => false
  end.

Definition zmem (x : Z) (l : list Z) : bool := existsb (Z.eqb x) l.
Definition rmem (r : list Z) (l : list (list Z)) : bool := existsb (lz_eqb r) l.
Definition rdel (r : list Z) (l : list (list Z)) : list (list Z) := filter (fun x => negb (lz_eqb r x)) l.
Definition is_nil {A} (l : list A) : bool := match l with [] => true | _ => false end.

Fixpoint remove_first (x : Z) (l : list Z) : list Z :=
  match l with
  | [] => []
  | y :: r => if x =? y then r else y :: remove_first x r
  end.

Fixpoint tab_get (t : list (Z * nat)) (n : Z) : option nat :=
  match t with
  | [] => None
  | (k, v) :: r => if k =? n then Some v else tab_get r n
  end.
Definition tab_del (t : list (Z * nat)) (n : Z) : list (Z * nat) :=
  filter (fun e => negb (fst e =? n)) t.

Fixpoint upd {A} (l : list A) (i : nat) (x : A) : list A :=
  match l, i with
  | [], _ => []
  | _ :: r, O => x :: r
  | y :: r, S i' => y :: upd r i' x
  end.

Definition set_heap (s : st) (h : list grp) : st :=
  {| s_tab := s_tab s; s_heap := h; s_used := s_used s; s_env := s_env s; s_lo := s_lo s; s_hi := s_hi s |}.
Definition set_used (s : st) (u : list (list Z)) : st :=
  {| s_tab := s_tab s; s_heap := s_heap s; s_used := u; s_env := s_env s; s_lo := s_lo s; s_hi := s_hi s |}.
Definition set_tab (s : st) (t : list (Z * nat)) : st :=
  {| s_tab := t; s_heap := s_heap s; s_used := s_used s; s_env := s_env s; s_lo := s_lo s; s_hi := s_hi s |}.
Definition set_env (s : st) (e : list (list Z)) : st :=
  {| s_tab := s_tab s; s_heap := s_heap s; s_used := s_used s; s_env := e; s_lo := s_lo s; s_hi := s_hi s |}.

(* the endpoint resource a group object owns: the acquired port / the route key *)
Definition res_of (k : kind) (par : list Z) (real : Z) : list Z :=
  match k with KTcp => [real] | KHttp => firstn 3 par | KMux => firstn 2 par end.
Definition g_res (k : kind) (g : grp) : list Z := res_of k (g_par g) (g_real g).

Definition members (k : kind) (g : grp) : list Z :=
  match k with KHttp => g_funcs g | _ => g_lns g end.

(* ---- step 1 of a join: the controller-lock section ---- *)
Definition lookup (s : st) (n : Z) : st * nat :=
  match tab_get (s_tab s) n with
  | Some gid => (s, gid)
  | None =>
      let gid := length (s_heap s) in
      (set_heap (set_tab s (s_tab s ++ [(n, gid)])) (s_heap s ++ [new_grp]), gid)
  end.

(* ports.Manager.Acquire as far as the group needs it *)
Definition allowed (s : st) (p : Z) : bool := (s_lo s <=? p) && (p <=? s_hi s).
(* is some allowed port neither used nor reserved by a group?  (evaluated only for small ranges) *)
Definition free_exists (s : st) : bool :=
  existsb (fun n => negb (rmem [s_lo s + Z.of_nat n] (s_used s))) (seq 0 (Z.to_nat (s_hi s - s_lo s + 1))).
Definition acquire (s : st) (j : jreq) : jres :=
  if j_port j =? 0 then
    if j_pick j =? 0 then
      (* ErrNoAvailablePort: legitimate when no allowed port is free, or the OS refused the ones tried
         (j_os = false); with a free port and a willing OS the manager finds one *)
      (if j_os j && free_exists s then JErr EOracle else JErr ENoPort)
    else if allowed s (j_pick j) && negb (rmem [j_pick j] (s_used s)) then JOk (j_pick j)
    else JErr EOracle
  else if allowed s (j_port j) && negb (rmem [j_port j] (s_used s)) then
    (if j_os j then JOk (j_port j) else JErr EPortUnavail)
  else if rmem [j_port j] (s_used s) then JErr EPortUsed
  else JErr EPortNotAllowed.

Definition set_first (g : grp) (j : jreq) (real : Z) (lid : Z) (worker : bool) : grp :=
  {| g_name := j_group j; g_key := j_key j; g_par := j_par j; g_port := j_port j; g_real := real;
     g_lns := g_lns g ++ [lid]; g_funcs := g_funcs g; g_idx := g_idx g;
     g_closed := g_closed g;        (* "if tg.acceptCh == nil { make }": a closed channel is not nil *)
     g_ep := true; g_wk := worker; g_gen := g_gen g + 1 |}.

Definition add_ln (g : grp) (lid : Z) : grp :=
  {| g_name := g_name g; g_key := g_key g; g_par := g_par g; g_port := g_port g; g_real := g_real g;
     g_lns := g_lns g ++ [lid]; g_funcs := g_funcs g; g_idx := g_idx g;
     g_closed := g_closed g; g_ep := g_ep g; g_wk := g_wk g; g_gen := g_gen g |}.

Definition add_func (g : grp) (m : Z) : grp :=
  {| g_name := g_name g; g_key := g_key g; g_par := g_par g; g_port := g_port g; g_real := g_real g;
     g_lns := g_lns g ++ [m]; g_funcs := m :: g_funcs g; g_idx := g_idx g;
     g_closed := g_closed g; g_ep := g_ep g; g_wk := g_wk g; g_gen := g_gen g |}.

Definition set_http_first (g : grp) (j : jreq) : grp :=
  {| g_name := j_group j; g_key := j_key j; g_par := j_par j; g_port := g_port g; g_real := g_real g;
     g_lns := g_lns g; g_funcs := g_funcs g; g_idx := g_idx g;
     g_closed := g_closed g; g_ep := true; g_wk := g_wk g; g_gen := g_gen g + 1 |}.

(* ---- step 2 of a join: under the group's lock.  [lid]: identity of the listener handed out ---- *)
Definition mutate (k : kind) (s : st) (gid : nat) (j : jreq) (lid : Z) : st * jres :=
  match nth_error (s_heap s) gid with
  | None => (s, JErr EOracle)
  | Some g =>
    match k with
    | KTcp =>
        if is_nil (g_lns g) then
          match acquire s j with
          | JErr e => (s, JErr e)
          | JOk real =>
              if negb (j_lis j) then (s, JErr EListenFail)      (* Acquire; Listen fails; Release *)
              else (set_used (set_heap s (upd (s_heap s) gid (set_first g j real lid true)))
                             ([real] :: s_used s), JOk real)
          end
        else if negb (g_name g =? j_group j) || negb (lz_eqb (g_par g) (j_par j)) then (s, JErr EParams)
        else if negb (g_port g =? j_port j) then (s, JErr EDiffPort)
        else if negb (g_key g =? j_key j) then (s, JErr EAuth)
        else (set_heap s (upd (s_heap s) gid (add_ln g lid)), JOk (g_real g))
    | KMux =>
        if negb (j_mux j) then (s, JErr EMux)
        else if is_nil (g_lns g) then
          if rmem (res_of KMux (j_par j) 0) (s_used s) then (s, JErr ERouteConflict)
          else (set_used (set_heap s (upd (s_heap s) gid (set_first g j 0 lid true)))
                         (res_of KMux (j_par j) 0 :: s_used s), JOk 0)
        else if negb (g_name g =? j_group j) || negb (lz_eqb (g_par g) (j_par j)) then (s, JErr EParams)
        else if negb (g_key g =? j_key j) then (s, JErr EAuth)
        else (set_heap s (upd (s_heap s) gid (add_ln g lid)), JOk 0)
    | KHttp =>
        if is_nil (g_funcs g) then
          if rmem (res_of KHttp (j_par j) 0) (s_used s) then (s, JErr ERouteConflict)
          else (* the repeated-name test cannot fire: createFuncs is empty *)
            (set_used (set_heap s (upd (s_heap s) gid (add_func (set_http_first g j) (j_m j))))
                      (res_of KHttp (j_par j) 0 :: s_used s), JOk 0)
        else if negb (g_name g =? j_group j) || negb (lz_eqb (g_par g) (j_par j)) then (s, JErr EParams)
        else if negb (g_key g =? j_key j) then (s, JErr EAuth)
        else if zmem (j_m j) (g_funcs g) then (s, JErr ERepeated)
        else (set_heap s (upd (s_heap s) gid (add_func g (j_m j))), JOk 0)
    end
  end.

(* ---- leaves ---- *)
Definition set_lns (g : grp) (l : list Z) : grp :=
  {| g_name := g_name g; g_key := g_key g; g_par := g_par g; g_port := g_port g; g_real := g_real g;
     g_lns := l; g_funcs := g_funcs g; g_idx := g_idx g;
     g_closed := g_closed g; g_ep := g_ep g; g_wk := g_wk g; g_gen := g_gen g |}.

Definition shut (g : grp) : grp :=
  {| g_name := g_name g; g_key := g_key g; g_par := g_par g; g_port := g_port g; g_real := g_real g;
     g_lns := []; g_funcs := g_funcs g; g_idx := g_idx g;
     g_closed := true; g_ep := false; g_wk := false; g_gen := g_gen g |}.

(* None = "panic: close of closed channel" on a goroutine nobody recovers *)
Definition leave_chan (k : kind) (s : st) (gid : nat) (lid : Z) : option st :=
  match nth_error (s_heap s) gid with
  | None => Some s
  | Some g =>
      let l := remove_first lid (g_lns g) in
      if is_nil l then
        if g_closed g then None
        else Some (set_tab (set_used (set_heap s (upd (s_heap s) gid (shut g)))
                                     (rdel (g_res k g) (s_used s)))
                           (tab_del (s_tab s) (g_name g)))
      else Some (set_heap s (upd (s_heap s) gid (set_lns g l)))
  end.

Definition set_http_members (g : grp) (l f : list Z) (ep : bool) : grp :=
  {| g_name := g_name g; g_key := g_key g; g_par := g_par g; g_port := g_port g; g_real := g_real g;
     g_lns := l; g_funcs := f; g_idx := g_idx g;
     g_closed := g_closed g; g_ep := ep; g_wk := g_wk g; g_gen := g_gen g |}.

Definition leave_http (s : st) (n : Z) (m : Z) : st :=
  match tab_get (s_tab s) n with
  | None => s
  | Some gid =>
      match nth_error (s_heap s) gid with
      | None => s
      | Some g =>
          let f := filter (fun x => negb (x =? m)) (g_funcs g) in
          let l := remove_first m (g_lns g) in
          if is_nil f then
            set_tab (set_used (set_heap s (upd (s_heap s) gid (set_http_members g l f false)))
                              (rdel (g_res KHttp g) (s_used s)))
                    (tab_del (s_tab s) n)
          else set_heap s (upd (s_heap s) gid (set_http_members g l f (g_ep g)))
      end
  end.

(* ---- connections ---- *)
(* the group object whose real listener / route answers on resource r *)
Fixpoint find_ep_from (k : kind) (h : list grp) (i : nat) (r : list Z) : option nat :=
  match h with
  | [] => None
  | g :: h' => if g_ep g && lz_eqb (g_res k g) r then Some i else find_ep_from k h' (S i) r
  end.
Definition find_ep (k : kind) (s : st) (r : list Z) : option nat := find_ep_from k (s_heap s) 0 r.

Inductive cres := CRefused | CTo (m : Z) | CStranded | CNoFunc.

Definition set_wk (g : grp) (b : bool) : grp :=
  {| g_name := g_name g; g_key := g_key g; g_par := g_par g; g_port := g_port g; g_real := g_real g;
     g_lns := g_lns g; g_funcs := g_funcs g; g_idx := g_idx g;
     g_closed := g_closed g; g_ep := g_ep g; g_wk := b; g_gen := g_gen g |}.
Definition set_idx (g : grp) (i : Z) : grp :=
  {| g_name := g_name g; g_key := g_key g; g_par := g_par g; g_port := g_port g; g_real := g_real g;
     g_lns := g_lns g; g_funcs := g_funcs g; g_idx := i;
     g_closed := g_closed g; g_ep := g_ep g; g_wk := g_wk g; g_gen := g_gen g |}.

(* http: chooseEndpoint then createConnByEndpoint (createConn computes the same) *)
Definition http_pick (g : grp) : grp * cres :=
  let i := g_idx g + 1 in
  let g' := set_idx g i in
  match g_lns g with
  | [] => (g', CNoFunc)
  | _ =>
      match nth_error (g_lns g) (Z.to_nat (i mod Z.of_nat (length (g_lns g)))) with
      | Some name => (g', if zmem name (g_funcs g) then CTo name else CNoFunc)
      | None => (g', CNoFunc)
      end
  end.

(* n consecutive requests on one group *)
Fixpoint picks (g : grp) (n : nat) : list cres :=
  match n with
  | O => []
  | S n' => let (g', o) := http_pick g in o :: picks g' n'
  end.
Definition is_to (x : Z) (o : cres) : bool := match o with CTo y => y =? x | _ => false end.

(* ---- threads and schedules ---- *)
Inductive req :=
| QJoin (j : jreq)
| QLeave (jt : nat)                    (* the holder of what join thread jt obtained closes it *)
| QConn (r : list Z) (who : Z)         (* a user connection / request on resource r; who = observed receiver *)
| QEnvTake (r : list Z)                (* a non-group proxy takes the port / route *)
| QEnvFree (r : list Z).

Inductive tst :=
| TInit
| TLooked (gid : nat)
| TMember (gid : nat) (real : Z)
| TRefused (e : jerr)
| TLeft
| TLeaving                             (* a leave thread of a tcp/tcpmux member between close(closeCh) and CloseListener *)
| THeld (gid : nat) (gen : Z)          (* accepted by the worker of generation gen, send pending *)
| TConn (c : cres)
| TDone.

Record cfg := { c_s : st; c_t : list tst;
                c_cl : list (nat * nat);   (* (join thread, group object): listeners whose closeCh has been closed *)
                c_dead : list nat;         (* join threads whose accept loop has seen closeCh and returned *)
                c_lost : bool }.       (* a connection was stranded although its group had a member *)
Inductive world := Run (c : cfg) | Crashed.

Definition set_t (c : cfg) (s : st) (i : nat) (t : tst) : cfg :=
  {| c_s := s; c_t := upd (c_t c) i t; c_cl := c_cl c; c_dead := c_dead c; c_lost := c_lost c |}.
Definition mark_lost (c : cfg) (b : bool) : cfg :=
  {| c_s := c_s c; c_t := c_t c; c_cl := c_cl c; c_dead := c_dead c; c_lost := c_lost c || b |}.
Definition add_cl (c : cfg) (jt gid : nat) : cfg :=
  {| c_s := c_s c; c_t := c_t c; c_cl := (jt, gid) :: c_cl c; c_dead := c_dead c; c_lost := c_lost c |}.
Definition add_dead (c : cfg) (jt : nat) : cfg :=
  {| c_s := c_s c; c_t := c_t c; c_cl := c_cl c; c_dead := jt :: c_dead c; c_lost := c_lost c |}.

Definition nmem (x : nat) (l : list nat) : bool := existsb (Nat.eqb x) l.
Definition closing (jt : nat) (cl : list (nat * nat)) : bool := existsb (fun e => Nat.eqb (fst e) jt) cl.
Definition closing_of (jt gid : nat) (cl : list (nat * nat)) : bool :=
  existsb (fun e => Nat.eqb (fst e) jt && Nat.eqb (snd e) gid) cl.

(* may the accept loop of join thread w take a connection from the hand-off channel of object gid?
   It must not have returned yet, and its listener must belong to gid: a current member, or a
   listener whose Close has begun (or even finished) but whose loop has not yet noticed closeCh —
   TCPGroupListener.Accept selects between closeCh and the channel and Go picks at random when both
   are ready. *)
Definition can_receive (c : cfg) (gid : nat) (who : Z) : bool :=
  (0 <=? who) &&
  let w := Z.to_nat who in
  negb (nmem w (c_dead c)) &&
  ((match nth_error (c_t c) w with Some (TMember g _) => Nat.eqb g gid | _ => false end)
   || closing_of w gid (c_cl c)).

Definition is_held (gid : nat) (gen : Z) (t : tst) : bool :=
  match t with THeld g n => Nat.eqb g gid && (n =? gen) | _ => false end.
Definition is_looked (gid : nat) (t : tst) : bool :=
  match t with TLooked g => Nat.eqb g gid | _ => false end.

Definition lid_of (k : kind) (j : jreq) (i : nat) : Z :=
  match k with KHttp => j_m j | _ => Z.of_nat i end.

(* [two = false]: the code as it is now — TCPGroupCtl.Listen / HTTPGroupController.Register /
   TCPMuxGroupCtl.Listen keep the controller lock from the lookup to the end of the group's
   Listen/Register, and CloseListener / UnRegister take the controller lock first: a join is ONE
   atomic step, a leave is one atomic step.
   [two = true]: the code before the repair of F-C13 (controller lock released between lookup and
   mutation): a join is TWO atomic steps.  Kept only to state the regression witnesses. *)
Definition stepg (two : bool) (k : kind) (reqs : list req) (i : nat) (c : cfg) : world :=
  let s := c_s c in
  match nth_error reqs i, nth_error (c_t c) i with
  | Some (QJoin j), Some TInit =>
      let (s', gid) := lookup s (j_group j) in
      if two then Run (set_t c s' i (TLooked gid))
      else
        let (s'', r) := mutate k s' gid j (lid_of k j i) in
        Run (set_t c s'' i (match r with JOk p => TMember gid p | JErr e => TRefused e end))
  | Some (QJoin j), Some (TLooked gid) =>
      if two then
        let (s', r) := mutate k s gid j (lid_of k j i) in
        Run (set_t c s' i (match r with JOk p => TMember gid p | JErr e => TRefused e end))
      else Run c                                       (* no such thread state in the current code *)
  | Some (QLeave jt), Some TInit =>
      match nth_error reqs jt, nth_error (c_t c) jt with
      | Some (QJoin j), Some (TMember gid _) =>
          match k with
          | KHttp => let s' := leave_http s (j_group j) (j_m j) in Run (set_t (set_t c s' jt TLeft) s' i TDone)
          | _ =>
              (* TCPGroupListener.Close, first statement: close(ln.closeCh) (no lock) *)
              if closing jt (c_cl c) then Run c             (* a listener is closed once *)
              else Run (set_t (add_cl c jt gid) s i TLeaving)
          end
      | _, _ => Run c                                  (* nothing to close yet: not enabled *)
      end
  | Some (QLeave jt), Some TLeaving =>
      match k, nth_error reqs jt, nth_error (c_t c) jt with
      | KHttp, _, _ => Run c                           (* no such state for http *)
      | _, Some (QJoin j), Some (TMember gid _) =>
          (* ... second statement: group.CloseListener(ln), controller lock then group lock *)
          match leave_chan k s gid (Z.of_nat jt) with
          | None => Crashed
          | Some s' => Run (set_t (set_t c s' jt TLeft) s' i TDone)
          end
      | _, _, _ => Run c
      end
  | Some (QJoin j), Some (TMember _ _) | Some (QJoin j), Some TLeft =>
      (* the member's accept loop passes through select, finds closeCh closed and returns *)
      if closing i (c_cl c) && negb (nmem i (c_dead c)) then Run (add_dead c i) else Run c
  | Some (QConn r who), Some TInit =>
      match find_ep k s r with
      | None => Run (set_t c s i (TConn CRefused))
      | Some gid =>
          match nth_error (s_heap s) gid with
          | None => Run c
          | Some g =>
              match k with
              | KHttp =>
                  let (g', o) := http_pick g in
                  Run (set_t c (set_heap s (upd (s_heap s) gid g')) i (TConn o))
              | _ =>
                  if g_wk g then
                    if existsb (is_held gid (g_gen g)) (c_t c) then Run c    (* the worker is busy *)
                    else Run (set_t c s i (THeld gid (g_gen g)))
                  else (* nobody accepts on the real listener any more: stays in the backlog *)
                    Run (mark_lost (set_t c s i (TConn CStranded)) (negb (is_nil (g_lns g))))
              end
          end
      end
  | Some (QConn r who), Some (THeld gid gen) =>
      match nth_error (s_heap s) gid with
      | None => Run c
      | Some g =>
          if g_closed g then
            (* send on closed channel: PanicToError, the worker returns, the connection is dropped *)
            let g' := if gen =? g_gen g then set_wk g false else g in
            Run (mark_lost (set_t c (set_heap s (upd (s_heap s) gid g')) i (TConn CStranded))
                           (negb (is_nil (g_lns g))))
          else if can_receive c gid who then Run (set_t c s i (TConn (CTo who)))
          else Run c                                   (* blocked in the send *)
      end
  | Some (QEnvTake r), Some TInit =>
      if rmem r (s_used s) then Run (set_t c s i TDone)
      else Run (set_t c (set_env (set_used s (r :: s_used s)) (r :: s_env s)) i TDone)
  | Some (QEnvFree r), Some TInit =>
      if rmem r (s_env s) then Run (set_t c (set_env (set_used s (rdel r (s_used s))) (rdel r (s_env s))) i TDone)
      else Run (set_t c s i TDone)
  | _, _ => Run c
  end.

Definition step := stepg false.
Definition step2 := stepg true.

Fixpoint rung (two : bool) (k : kind) (reqs : list req) (sched : list nat) (w : world) : world :=
  match sched, w with
  | [], _ => w
  | _, Crashed => Crashed
  | i :: r, Run c => rung two k reqs r (stepg two k reqs i c)
  end.
Definition run := rung false.
Definition run2 := rung true.

Definition init_cfg (lo hi : Z) (n : nat) : cfg :=
  {| c_s := init_st lo hi; c_t := repeat TInit n; c_cl := []; c_dead := []; c_lost := false |}.
Definition init (lo hi : Z) (reqs : list req) : world := Run (init_cfg lo hi (length reqs)).

(* every thread to completion, one after the other: a sequential history *)
Fixpoint seq_sched_from (i n : nat) : list nat :=
  match n with O => [] | S n' => i :: i :: seq_sched_from (S i) n' end.
Definition seq_sched (reqs : list req) : list nat := seq_sched_from 0 (length reqs).

(* ---- "no join overlaps a last leave", as an executable predicate on schedules of the OLD
   two-step model ---- *)
(* does step i of c take the last member out of a group object that some join thread has looked
   up but not yet joined? *)
Definition last_leave_gid (k : kind) (reqs : list req) (i : nat) (c : cfg) : option nat :=
  match nth_error reqs i, nth_error (c_t c) i with
  | Some (QLeave jt), Some t =>
      match nth_error reqs jt, nth_error (c_t c) jt with
      | Some (QJoin j), Some (TMember gid _) =>
          match nth_error (s_heap (c_s c)) gid with
          | Some g =>
              match k, t with
              | KHttp, TInit => if is_nil (filter (fun x => negb (x =? j_m j)) (g_funcs g)) then Some gid else None
              | KHttp, _ => None
              | _, TLeaving => if is_nil (remove_first (Z.of_nat jt) (g_lns g)) then Some gid else None
              | _, _ => None
              end
          | None => None
          end
      | _, _ => None
      end
  | _, _ => None
  end.

Definition overlaps (k : kind) (reqs : list req) (i : nat) (c : cfg) : bool :=
  match last_leave_gid k reqs i c with
  | Some gid => existsb (is_looked gid) (c_t c)
  | None => false
  end.

Fixpoint no_overlap (k : kind) (reqs : list req) (sched : list nat) (w : world) : bool :=
  match sched, w with
  | [], _ => true
  | _, Crashed => true
  | i :: r, Run c => negb (overlaps k reqs i c) && no_overlap k reqs r (step2 k reqs i c)
  end.

(* ---- the controller's view ---- *)
(* resource r is an open group endpoint *)
Definition ep_open (k : kind) (s : st) (r : list Z) : bool :=
  match find_ep k s r with Some _ => true | None => false end.
(* the controller knows a group with at least one member whose endpoint is r *)
Definition tab_has_live (k : kind) (s : st) (r : list Z) : bool :=
  existsb (fun e : Z * nat =>
             match nth_error (s_heap s) (snd e) with
             | Some g => negb (is_nil (members k g)) && lz_eqb (g_res k g) r
             | None => false
             end) (s_tab s).

Definition quiescent (c : cfg) : bool :=
  forallb (fun t => match t with TLooked _ | THeld _ _ => false | _ => true end) (c_t c).
Definition no_member (c : cfg) : bool :=
  forallb (fun t => match t with TMember _ _ => false | _ => true end) (c_t c).

(* a whole join, sequentially *)
Definition join_seq (k : kind) (s : st) (j : jreq) (lid : Z) : st * jres :=
  let (s', gid) := lookup s (j_group j) in mutate k s' gid j lid.

End Grp.
