(* Model/CliDispatch.v — how the client handles what arrives on the control connection.
     pkg/msg/handler.go   Dispatcher.readLoop: ONE goroutine reads a message and calls its handler; a
                          handler registered through msg.AsyncHandler only starts a goroutine and returns
     client/control.go    registerMsgHandlers (which handlers are async), handlePong (lastPong.Store(time.Now())
                          runs when the handler runs, not when the bytes arrived), handleReqWorkConn (dials frps)
   A message that arrived at [ca_at] is handled when the read loop is free again; a synchronous handler keeps
   the loop busy for [ca_block] (the time its body takes: for ReqWorkConn the dial of a work connection, up to
   transport.dialServerTimeout when new connections to frps hang).  Time in ms.  No proofs in this file. *)
From Coq Require Import ZArith List Bool.
From FRP Require Import Model.Heartbeat.
Import ListNotations.
Open Scope Z_scope.

Inductive cmsg := MPong (err : bool) | MReqWorkConn | MNewProxyResp | MNatHoleResp.

Record carrival := { ca_at : Z; ca_msg : cmsg; ca_block : Z }.

(* instants at which the handler of each message starts, in arrival order *)
Fixpoint cd_process (async : cmsg -> bool) (free_at : Z) (l : list carrival) : list (Z * cmsg) :=
  match l with
  | [] => []
  | a :: r =>
      let start := Z.max (ca_at a) free_at in
      let fin := if async (ca_msg a) then start else start + ca_block a in
      (start, ca_msg a) :: cd_process async fin r
  end.

(* what the watchdog model sees of it: a Pong counts from the instant its handler ran *)
Fixpoint cd_pong_events (l : list (Z * cmsg)) : list (Z * hc_ev) :=
  match l with
  | [] => []
  | (t, MPong false) :: r => (t, CPong t) :: cd_pong_events r
  | (t, MPong true) :: r => (t, CPongErr) :: cd_pong_events r
  | _ :: r => cd_pong_events r
  end.

Fixpoint cd_sorted (lo : Z) (l : list carrival) : Prop :=
  match l with
  | [] => True
  | a :: r => lo <= ca_at a /\ cd_sorted (ca_at a) r
  end.

(* merge the handled Pongs with the watchdog runs (1 s apart from [start]) into one history *)
Fixpoint cd_insert (t : Z) (e : hc_ev) (l : list (Z * hc_ev)) : list (Z * hc_ev) :=
  match l with
  | [] => [(t, e)]
  | (t', e') :: r => if t <? t' then (t, e) :: l else (t', e') :: cd_insert t e r
  end.

Fixpoint cd_ticks (fuel : nat) (t until : Z) : list (Z * hc_ev) :=
  match fuel with
  | O => []
  | S f => if t <=? until then (t, CTick t) :: cd_ticks f (t + hb_period) until else []
  end.

Definition cd_history (async : cmsg -> bool) (arrivals : list carrival) (until : Z) : list hc_ev :=
  map snd (fold_left (fun l p => cd_insert (fst p) (snd p) l)
                     (cd_pong_events (cd_process async 0 arrivals)) (cd_ticks 400 0 until)).
