// T8a: client-supplied sizes that reach an allocation.  Translates, from server/control.go
// NewControl, the straight-line integer code that computes the variable used as the capacity
// of the work-connection pool channel:
//
//	poolCount := loginMsg.PoolCount
//	if poolCount > int(serverCfg.Transport.MaxPoolCount) { poolCount = int(...) }
//	if poolCount < 0 { poolCount = 0 }
//	... make(chan net.Conn, poolCount+10) ...
//
// into Gallina over Z:
//
//	Definition gen_pool_count (login_pool_count max_pool_count : Z) : Z := let poolCount := ... in ...
//	Definition gen_chan_cap (poolCount : Z) : Z := poolCount + 10.
//	Definition gen_req_count (poolCount : Z) : Z := poolCount.       (upper bound of the ReqWorkConn loop in Start)
//
// Only these statement forms are recognised: `v := e`, `v = e`, `if c { v = e }` (no else), where
// e, c are built from the variable, the two inputs, integer literals, int(...) conversions,
// + - and the comparisons.  Any other statement that mentions the variable makes the unit emit
// `Definition gen_alloc_unknown : bool := true` with the offending source text, which the
// obligations in Proofs/AllocProofs.v refuse.
package main

import (
	"bytes"
	"fmt"
	"go/ast"
	"go/parser"
	"go/printer"
	"go/token"
	"path/filepath"
	"strings"

	"veriftranslator/tx"
)

func main() { tx.Main(tx.Unit{Name: "T8a", File: "GenAlloc.v", Fn: genAlloc}) }

var inputs = map[string]string{
	"loginMsg.PoolCount":               "login_pool_count",
	"serverCfg.Transport.MaxPoolCount": "max_pool_count",
}

func src(fset *token.FileSet, n ast.Node) string {
	var b bytes.Buffer
	_ = printer.Fprint(&b, fset, n)
	return b.String()
}

type tr struct {
	fset    *token.FileSet
	v       string
	unknown []string
}

func (t *tr) expr(e ast.Expr) string {
	switch x := e.(type) {
	case *ast.Ident:
		if x.Name == t.v {
			return t.v
		}
	case *ast.BasicLit:
		if x.Kind == token.INT {
			return "(" + x.Value + ")"
		}
	case *ast.ParenExpr:
		return t.expr(x.X)
	case *ast.SelectorExpr:
		if n, ok := inputs[src(t.fset, x)]; ok {
			return n
		}
	case *ast.CallExpr:
		if id, ok := x.Fun.(*ast.Ident); ok && (id.Name == "int" || id.Name == "int64") && len(x.Args) == 1 {
			return t.expr(x.Args[0])
		}
	case *ast.BinaryExpr:
		l, r := t.expr(x.X), t.expr(x.Y)
		switch x.Op {
		case token.ADD:
			return "(" + l + " + " + r + ")"
		case token.SUB:
			return "(" + l + " - " + r + ")"
		case token.GTR:
			return "(" + l + " >? " + r + ")"
		case token.LSS:
			return "(" + l + " <? " + r + ")"
		case token.GEQ:
			return "(" + l + " >=? " + r + ")"
		case token.LEQ:
			return "(" + l + " <=? " + r + ")"
		}
	}
	t.unknown = append(t.unknown, src(t.fset, e))
	return "0"
}

func mentions(n ast.Node, name string) bool {
	found := false
	ast.Inspect(n, func(x ast.Node) bool {
		if id, ok := x.(*ast.Ident); ok && id.Name == name {
			found = true
		}
		return !found
	})
	return found
}

func genAlloc() ([]byte, error) {
	fset := token.NewFileSet()
	f, err := parser.ParseFile(fset, filepath.Join(tx.Repo, "server/control.go"), nil, 0)
	if err != nil {
		return nil, err
	}
	var fn *ast.FuncDecl
	var start *ast.FuncDecl
	for _, d := range f.Decls {
		if fd, ok := d.(*ast.FuncDecl); ok {
			if fd.Name.Name == "NewControl" {
				fn = fd
			}
			if fd.Name.Name == "Start" && fd.Recv != nil {
				start = fd
			}
		}
	}
	if fn == nil {
		return nil, fmt.Errorf("NewControl not found")
	}
	// the capacity expression of the chan net.Conn and the variable it mentions
	var capExpr ast.Expr
	ast.Inspect(fn.Body, func(n ast.Node) bool {
		ce, ok := n.(*ast.CallExpr)
		if !ok {
			return true
		}
		if id, ok := ce.Fun.(*ast.Ident); ok && id.Name == "make" && len(ce.Args) == 2 {
			if ct, ok := ce.Args[0].(*ast.ChanType); ok && strings.Contains(src(fset, ct.Value), "net.Conn") {
				capExpr = ce.Args[1]
			}
		}
		return true
	})
	if capExpr == nil {
		return nil, fmt.Errorf("make(chan net.Conn, …) not found in NewControl")
	}
	v := ""
	ast.Inspect(capExpr, func(n ast.Node) bool {
		if id, ok := n.(*ast.Ident); ok && v == "" {
			v = id.Name
		}
		return true
	})
	t := &tr{fset: fset, v: v}
	var lets []string
	for _, s := range fn.Body.List {
		if !mentions(s, v) {
			continue
		}
		switch st := s.(type) {
		case *ast.AssignStmt:
			if len(st.Lhs) == 1 && len(st.Rhs) == 1 {
				if id, ok := st.Lhs[0].(*ast.Ident); ok && id.Name == v {
					lets = append(lets, fmt.Sprintf("let %s := %s in", v, t.expr(st.Rhs[0])))
					continue
				}
			}
			// the composite literal that consumes the variable ends the computation
			if mentions(st.Rhs[0], v) && containsNode(st.Rhs[0], capExpr) {
				continue
			}
			t.unknown = append(t.unknown, src(fset, st))
		case *ast.IfStmt:
			ok := st.Init == nil && st.Else == nil && len(st.Body.List) == 1
			if ok {
				as, isAs := st.Body.List[0].(*ast.AssignStmt)
				if isAs && len(as.Lhs) == 1 && len(as.Rhs) == 1 && as.Tok == token.ASSIGN {
					if id, isID := as.Lhs[0].(*ast.Ident); isID && id.Name == v {
						lets = append(lets, fmt.Sprintf("let %s := if %s then %s else %s in", v, t.expr(st.Cond), t.expr(as.Rhs[0]), v))
						continue
					}
				}
			}
			t.unknown = append(t.unknown, src(fset, st))
		default:
			t.unknown = append(t.unknown, src(fset, s))
		}
	}
	capS := t.expr(capExpr)
	// Start: for i := 0; i < ctl.poolCount; i++ { Send(ReqWorkConn) }
	reqBound := ""
	if start != nil {
		ast.Inspect(start.Body, func(n ast.Node) bool {
			fs, ok := n.(*ast.ForStmt)
			if !ok || fs.Cond == nil {
				return true
			}
			be, ok := fs.Cond.(*ast.BinaryExpr)
			if ok && be.Op == token.LSS && strings.Contains(src(fset, fs.Body), "ReqWorkConn") {
				reqBound = src(fset, be.Y)
			}
			return true
		})
	}
	var b bytes.Buffer
	b.WriteString("(* generated by translator unit T8a from server/control.go; do not edit *)\nFrom Coq Require Import ZArith.\nOpen Scope Z_scope.\n\n")
	b.WriteString("Definition T8a_translated : bool := true.\n")
	fmt.Fprintf(&b, "Definition gen_alloc_unknown : bool := %v.\n", len(t.unknown) > 0)
	for _, u := range t.unknown {
		fmt.Fprintf(&b, "(* not recognised: %s *)\n", tx.Sanitize(strings.ReplaceAll(u, "\n", " ")))
	}
	fmt.Fprintf(&b, "\nDefinition gen_pool_count (login_pool_count max_pool_count : Z) : Z :=\n")
	for _, l := range lets {
		fmt.Fprintf(&b, "  %s\n", l)
	}
	fmt.Fprintf(&b, "  %s.\n\n", v)
	fmt.Fprintf(&b, "Definition gen_chan_cap (%s : Z) : Z := %s.\n\n", v, capS)
	// the request loop must be bounded by the stored (clamped) pool count
	fmt.Fprintf(&b, "Definition gen_req_bound_is_pool_count : bool := %v.  (* loop bound in Start: %s *)\n", reqBound == "ctl.poolCount", tx.Sanitize(reqBound))
	// and the stored field must be the clamped variable
	stored := false
	ast.Inspect(fn.Body, func(n ast.Node) bool {
		kv, ok := n.(*ast.KeyValueExpr)
		if ok {
			if k, ok := kv.Key.(*ast.Ident); ok && k.Name == "poolCount" {
				if id, ok := kv.Value.(*ast.Ident); ok && id.Name == v {
					stored = true
				}
			}
		}
		return true
	})
	fmt.Fprintf(&b, "Definition gen_stored_pool_count_is_clamped : bool := %v.\n", stored)
	return b.Bytes(), nil
}

func containsNode(root ast.Node, target ast.Node) bool {
	found := false
	ast.Inspect(root, func(n ast.Node) bool {
		if n == target {
			found = true
		}
		return !found
	})
	return found
}
