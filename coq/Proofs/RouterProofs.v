(* C06 — proofs about Model/Router.v: byte-string order facts, the route-table invariant, the set
   semantics of Add/Del and the "first prefix hit in a descending slice is the longest prefix" lemma. *)
From FRP Require Import Model.Router.
From Coq Require Import Lia.
Open Scope Z_scope.

(* ---------- bytes ---------- *)
Lemma rp_beqb_refl b : Byte.eqb b b = true.
Proof. apply Byte.byte_dec_lb; reflexivity. Qed.

Lemma rp_beqb_eq a b : Byte.eqb a b = true <-> a = b.
Proof. split; [apply Byte.byte_dec_bl | apply Byte.byte_dec_lb]. Qed.

Lemma rp_beqb_sym a b : Byte.eqb a b = Byte.eqb b a.
Proof.
  destruct (Byte.eqb a b) eqn:E.
  - apply rp_beqb_eq in E; subst; symmetry; apply rp_beqb_refl.
  - destruct (Byte.eqb b a) eqn:E2; [|reflexivity].
    apply rp_beqb_eq in E2; subst. rewrite rp_beqb_refl in E; discriminate.
Qed.

Lemma rp_eqb_eq a : forall b, bytes_eqb a b = true <-> a = b.
Proof.
  induction a as [|x a IH]; intros [|y b]; simpl; split; intro H; try reflexivity; try discriminate.
  - apply andb_true_iff in H as [H1 H2]. apply rp_beqb_eq in H1. apply IH in H2. subst; reflexivity.
  - inversion H; subst. rewrite rp_beqb_refl. simpl. apply IH; reflexivity.
Qed.

Lemma rp_eqb_refl a : bytes_eqb a a = true.
Proof. apply rp_eqb_eq; reflexivity. Qed.

Lemma rp_eqb_neq a b : bytes_eqb a b = false <-> a <> b.
Proof.
  split; intro H.
  - intro E; subst; rewrite rp_eqb_refl in H; discriminate.
  - destruct (bytes_eqb a b) eqn:E; [|reflexivity]. apply rp_eqb_eq in E; contradiction.
Qed.

Lemma rp_eqb_sym a b : bytes_eqb a b = bytes_eqb b a.
Proof.
  destruct (bytes_eqb a b) eqn:E.
  - apply rp_eqb_eq in E; subst; symmetry; apply rp_eqb_refl.
  - symmetry; apply rp_eqb_neq; apply rp_eqb_neq in E; congruence.
Qed.

Lemma rp_Zb_inj a b : Z_of_byte a = Z_of_byte b -> a = b.
Proof.
  unfold Z_of_byte; intro H. apply N2Z.inj in H.
  assert (E : Byte.of_N (Byte.to_N a) = Byte.of_N (Byte.to_N b)) by (rewrite H; reflexivity).
  rewrite !Byte.of_to_N in E. congruence.
Qed.

Lemma rp_ltb_irrefl a : bytes_ltb a a = false.
Proof. induction a as [|x a IH]; simpl; [reflexivity|]. rewrite Z.ltb_irrefl. exact IH. Qed.

Lemma rp_ltb_trans a : forall b c, bytes_ltb a b = true -> bytes_ltb b c = true -> bytes_ltb a c = true.
Proof.
  induction a as [|x a IH]; intros [|y b] [|z c]; simpl; intros H1 H2; try discriminate; try reflexivity.
  destruct (Z_of_byte x <? Z_of_byte y) eqn:Exy; destruct (Z_of_byte y <? Z_of_byte z) eqn:Eyz;
    destruct (Z_of_byte y <? Z_of_byte x) eqn:Eyx; destruct (Z_of_byte z <? Z_of_byte y) eqn:Ezy;
    destruct (Z_of_byte x <? Z_of_byte z) eqn:Exz; destruct (Z_of_byte z <? Z_of_byte x) eqn:Ezx;
    try reflexivity; try discriminate; try lia.
  eapply IH; eassumption.
Qed.

Lemma rp_ltb_total a : forall b, bytes_ltb a b = false -> bytes_ltb b a = false -> a = b.
Proof.
  induction a as [|x a IH]; intros [|y b]; simpl; intros H1 H2; try discriminate; try reflexivity.
  destruct (Z_of_byte x <? Z_of_byte y) eqn:Exy; [discriminate|].
  destruct (Z_of_byte y <? Z_of_byte x) eqn:Eyx; [discriminate|].
  assert (x = y) by (apply rp_Zb_inj; lia). subst. f_equal. apply IH; assumption.
Qed.

Lemma rp_ltb_asym a b : bytes_ltb a b = true -> bytes_ltb b a = false.
Proof.
  intro H. destruct (bytes_ltb b a) eqn:E; [|reflexivity].
  pose proof (rp_ltb_trans _ _ _ H E) as T. rewrite rp_ltb_irrefl in T; discriminate.
Qed.

Lemma rp_ltb_neq a b : bytes_ltb a b = true -> a <> b.
Proof. intros H E; subst; rewrite rp_ltb_irrefl in H; discriminate. Qed.

Lemma rp_prefix_iff p : forall s, is_prefix p s = true <-> exists t, s = p ++ t.
Proof.
  induction p as [|x p IH]; intros s; simpl.
  - split; [intros _; exists s; reflexivity | reflexivity].
  - destruct s as [|y s].
    + split; [discriminate | intros [t H]; discriminate].
    + split.
      * intro H. apply andb_true_iff in H as [H1 H2]. apply rp_beqb_eq in H1; subst.
        apply IH in H2 as [t ->]. exists t; reflexivity.
      * intros [t H]. inversion H; subst. rewrite rp_beqb_refl; simpl. apply IH. exists t; reflexivity.
Qed.

Lemma rp_prefix_refl p : is_prefix p p = true.
Proof. apply rp_prefix_iff; exists []; rewrite app_nil_r; reflexivity. Qed.

(* two prefixes of the same string: the one that sorts later is strictly longer *)
Lemma rp_prefix_ltb_len p : forall a b,
  is_prefix a p = true -> is_prefix b p = true -> bytes_ltb b a = true -> (length b < length a)%nat.
Proof.
  induction p as [|z p IH]; intros [|x a] [|y b]; simpl; intros Ha Hb Hlt; try discriminate; try lia.
  apply andb_true_iff in Ha as [Hx Ha]. apply andb_true_iff in Hb as [Hy Hb].
  apply rp_beqb_eq in Hx, Hy; subst. rewrite Z.ltb_irrefl in Hlt.
  specialize (IH _ _ Ha Hb Hlt). lia.
Qed.

Lemma rp_prefix_same_len p : forall a b,
  is_prefix a p = true -> is_prefix b p = true -> length a = length b -> a = b.
Proof.
  induction p as [|z p IH]; intros [|x a] [|y b]; simpl; intros Ha Hb Hl; try discriminate; try reflexivity.
  apply andb_true_iff in Ha as [Hx Ha]. apply andb_true_iff in Hb as [Hy Hb].
  apply rp_beqb_eq in Hx, Hy; subst. f_equal. apply IH; auto.
Qed.

Lemma rp_lower_byte_idem b : lower_byte (lower_byte b) = lower_byte b.
Proof. destruct b; reflexivity. Qed.

Lemma rp_lower_idem s : lower (lower s) = lower s.
Proof. unfold lower. rewrite map_map. apply map_ext. apply rp_lower_byte_idem. Qed.

Lemma rp_lower_byte_dot b : Byte.eqb (lower_byte b) rt_dot = Byte.eqb b rt_dot.
Proof. destruct b; reflexivity. Qed.

(* ---------- association lists ---------- *)
Lemma rp_alookup_aset_same {V} k (v : V) m : rt_alookup k (rt_aset k v m) = Some v.
Proof.
  induction m as [|[k' v'] m IH]; simpl.
  - rewrite rp_eqb_refl; reflexivity.
  - destruct (bytes_eqb k k') eqn:E; simpl; rewrite ?rp_eqb_refl, ?E; auto.
Qed.

Lemma rp_alookup_aset_other {V} k k' (v : V) m : k <> k' -> rt_alookup k' (rt_aset k v m) = rt_alookup k' m.
Proof.
  intro Hne. induction m as [|[k2 v2] m IH]; simpl.
  - assert (bytes_eqb k' k = false) as -> by (apply rp_eqb_neq; congruence). reflexivity.
  - destruct (bytes_eqb k k2) eqn:E; simpl.
    + apply rp_eqb_eq in E; subst k2.
      assert (bytes_eqb k' k = false) as -> by (apply rp_eqb_neq; congruence). reflexivity.
    + rewrite IH; reflexivity.
Qed.

Lemma rp_alookup_in {V} k (v : V) m : rt_alookup k m = Some v -> In (k, v) m.
Proof.
  induction m as [|[k' v'] m IH]; simpl; [discriminate|].
  destruct (bytes_eqb k k') eqn:E.
  - intro H; inversion H; subst. apply rp_eqb_eq in E; subst. left; reflexivity.
  - intro H; right; auto.
Qed.

Lemma rp_in_alookup {V} k (v : V) m : NoDup (map fst m) -> In (k, v) m -> rt_alookup k m = Some v.
Proof.
  induction m as [|[k' v'] m IH]; simpl; [contradiction|].
  intros Hnd [H|H].
  - inversion H; subst. rewrite rp_eqb_refl; reflexivity.
  - inversion Hnd as [|? ? Hnot Hnd']; subst.
    destruct (bytes_eqb k k') eqn:E.
    + apply rp_eqb_eq in E; subst. exfalso; apply Hnot. apply (in_map fst) in H. exact H.
    + auto.
Qed.

Lemma rp_aset_keys {V} k (v : V) m x : In x (map fst (rt_aset k v m)) -> x = k \/ In x (map fst m).
Proof.
  induction m as [|[k' v'] m IH]; simpl.
  - intros [H|[]]; auto.
  - destruct (bytes_eqb k k') eqn:E; simpl.
    + intros [H|H]; auto.
    + intros [H|H]; auto. destruct (IH H); auto.
Qed.

Lemma rp_aset_nodup {V} k (v : V) m : NoDup (map fst m) -> NoDup (map fst (rt_aset k v m)).
Proof.
  induction m as [|[k' v'] m IH]; simpl; intro Hnd.
  - constructor; [intros []|constructor].
  - inversion Hnd as [|? ? Hnot Hnd']; subst.
    destruct (bytes_eqb k k') eqn:E; simpl.
    + apply rp_eqb_eq in E; subst. constructor; assumption.
    + constructor; [|auto]. intro Hin. apply rp_aset_keys in Hin as [Hin|Hin]; [|contradiction].
      subst. rewrite rp_eqb_refl in E; discriminate.
Qed.

(* ---------- descending slices ---------- *)
Section Slices.
  Context {P : Type}.
  Notation route := (route P).

  Fixpoint rp_desc (l : list route) : Prop :=
    match l with
    | [] => True
    | x :: l' => (forall y, In y l' -> bytes_ltb (rt_loc y) (rt_loc x) = true) /\ rp_desc l'
    end.

  Lemma rp_insert_in (r : route) l x : In x (rt_insert_desc r l) <-> x = r \/ In x l.
  Proof.
    induction l as [|y l IH]; simpl.
    - intuition.
    - destruct (bytes_ltb (rt_loc r) (rt_loc y)); simpl; rewrite ?IH; intuition.
  Qed.

  Lemma rp_sort_in l (x : route) : In x (rt_sort_desc l) <-> In x l.
  Proof.
    induction l as [|y l IH]; simpl; [tauto|]. rewrite rp_insert_in, IH. intuition.
  Qed.

  Lemma rp_insert_desc_ok (r : route) l :
    rp_desc l -> (forall y, In y l -> rt_loc y <> rt_loc r) -> rp_desc (rt_insert_desc r l).
  Proof.
    induction l as [|y l IH]; simpl; intros Hd Hne.
    - split; [intros ? []|exact I].
    - destruct Hd as [Hy Hd].
      destruct (bytes_ltb (rt_loc r) (rt_loc y)) eqn:E; simpl.
      + split.
        * intros z Hz. apply rp_insert_in in Hz as [->|Hz]; auto.
        * apply IH; auto.
      + assert (Hyr : bytes_ltb (rt_loc y) (rt_loc r) = true).
        { destruct (bytes_ltb (rt_loc y) (rt_loc r)) eqn:E2; [reflexivity|].
          exfalso. apply (Hne y); [left; reflexivity|]. apply rp_ltb_total; assumption. }
        split; [|split; assumption].
        intros z [<-|Hz]; [assumption|]. eapply rp_ltb_trans; [apply Hy; exact Hz|exact Hyr].
  Qed.

  Lemma rp_sort_desc_ok l : NoDup (map (@rt_loc P) l) -> rp_desc (rt_sort_desc l).
  Proof.
    induction l as [|x l IH]; simpl; intro Hnd; [exact I|].
    inversion Hnd as [|? ? Hnot Hnd']; subst.
    apply rp_insert_desc_ok; [auto|].
    intros y Hy E. apply (proj1 (rp_sort_in _ _)) in Hy. apply Hnot. rewrite <- E. apply in_map; exact Hy.
  Qed.

  Lemma rp_desc_nodup l : rp_desc l -> NoDup (map (@rt_loc P) l).
  Proof.
    induction l as [|x l IH]; simpl; intro Hd; [constructor|].
    destruct Hd as [Hx Hd]. constructor; [|auto].
    intro Hin. apply in_map_iff in Hin as [y [E Hy]]. specialize (Hx y Hy).
    rewrite E, rp_ltb_irrefl in Hx; discriminate.
  Qed.

  Lemma rp_desc_filter f l : rp_desc l -> rp_desc (filter f l).
  Proof.
    induction l as [|x l IH]; simpl; intro Hd; [exact I|].
    destruct Hd as [Hx Hd]. destruct (f x); simpl; [|auto].
    split; [|auto]. intros y Hy. apply filter_In in Hy as [Hy _]. auto.
  Qed.

  Lemma rp_desc_loc_inj l (a b : route) : rp_desc l -> In a l -> In b l -> rt_loc a = rt_loc b -> a = b.
  Proof.
    induction l as [|x l IH]; simpl; intros Hd Ha Hb E; [contradiction|].
    destruct Hd as [Hx Hd].
    destruct Ha as [<-|Ha], Hb as [<-|Hb]; auto.
    - specialize (Hx _ Hb). rewrite E, rp_ltb_irrefl in Hx; discriminate.
    - specialize (Hx _ Ha). rewrite E, rp_ltb_irrefl in Hx; discriminate.
  Qed.

  (* first_prefix_is_longest: in a strictly descending slice the first location that is a prefix of
     the path is the longest such location *)
  Lemma rp_first_prefix_is_longest l path (r : route) :
    rp_desc l -> find (fun r => is_prefix (rt_loc r) path) l = Some r ->
    In r l /\ is_prefix (rt_loc r) path = true /\
    forall r', In r' l -> is_prefix (rt_loc r') path = true ->
               r' = r \/ (length (rt_loc r') < length (rt_loc r))%nat.
  Proof.
    induction l as [|x l IH]; simpl; intros Hd Hf; [discriminate|].
    destruct Hd as [Hx Hd].
    destruct (is_prefix (rt_loc x) path) eqn:E.
    - inversion Hf; subst x. split; [left; reflexivity|]. split; [exact E|].
      intros r' [->|Hr'] Hp; [left; reflexivity|].
      right. eapply rp_prefix_ltb_len; eauto.
    - destruct (IH Hd Hf) as [Hin [Hp Hall]]. split; [right; exact Hin|]. split; [exact Hp|].
      intros r' [<-|Hr'] Hp'; [congruence|]. auto.
  Qed.

  Lemma rp_find_none l path :
    find (fun r : route => is_prefix (rt_loc r) path) l = None ->
    forall r', In r' l -> is_prefix (rt_loc r') path = false.
  Proof. intros H r' Hr'. apply (find_none _ _ H r' Hr'). Qed.
End Slices.

(* ---------- the route table: membership, invariant, set semantics of Add / Del ---------- *)
Section Table.
  Context {P : Type}.
  Notation route := (route P).
  Notation rstate := (rstate P).

  Definition rp_in (r : route) (s : rstate) : Prop :=
    exists ut vrs, rt_alookup (rt_dom r) s = Some ut /\ rt_alookup (rt_user r) ut = Some vrs /\ In r vrs.

  (* router_inv *)
  Definition rp_wf (s : rstate) : Prop :=
    NoDup (map fst s) /\
    forall d ut, rt_alookup d s = Some ut ->
      NoDup (map fst ut) /\ lower d = d /\
      forall u vrs, rt_alookup u ut = Some vrs ->
        rp_desc vrs /\ forall r, In r vrs -> rt_dom r = d /\ rt_user r = u.

  Lemma rp_wf_empty : rp_wf rt_empty.
  Proof. split; [constructor|]. intros d ut H; discriminate. Qed.

  Lemma rp_in_abs s r : rp_wf s -> (In r (rt_abs s) <-> rp_in r s).
  Proof.
    intros [Hnd Hwf]. unfold rt_abs. split.
    - intro H. apply in_flat_map in H as [[d ut] [Hd H]]. apply in_flat_map in H as [[u vrs] [Hu H]].
      simpl in *. pose proof (rp_in_alookup _ _ _ Hnd Hd) as Ld.
      destruct (Hwf _ _ Ld) as [Hnd2 [_ Hs]].
      pose proof (rp_in_alookup _ _ _ Hnd2 Hu) as Lu.
      destruct (Hs _ _ Lu) as [_ Hr]. destruct (Hr _ H) as [E1 E2].
      exists ut, vrs. rewrite E1, E2. auto.
    - intros [ut [vrs [Ld [Lu H]]]]. apply in_flat_map. exists (rt_dom r, ut). split; [apply rp_alookup_in; exact Ld|].
      apply in_flat_map. exists (rt_user r, vrs). split; [apply rp_alookup_in; exact Lu|exact H].
  Qed.

  Lemma rp_exist_iff s d l u : rp_wf s ->
    (rt_exist s d l u = true <-> exists r, rp_in r s /\ rt_dom r = d /\ rt_loc r = l /\ rt_user r = u).
  Proof.
    intros [Hnd Hwf]. unfold rt_exist. split.
    - destruct (rt_alookup d s) as [ut|] eqn:Ld; [|discriminate].
      destruct (rt_alookup u ut) as [vrs|] eqn:Lu; [|discriminate].
      intro H. apply existsb_exists in H as [r [Hr E]]. apply rp_eqb_eq in E.
      destruct (Hwf _ _ Ld) as [_ [_ Hs]]. destruct (Hs _ _ Lu) as [_ Hr2]. destruct (Hr2 _ Hr) as [E1 E2].
      exists r. split; [|auto]. exists ut, vrs. rewrite E1, E2; auto.
    - intros [r [[ut [vrs [Ld [Lu Hr]]]] [E1 [E2 E3]]]]. subst. rewrite Ld, Lu.
      apply existsb_exists. exists r. split; [exact Hr|apply rp_eqb_refl].
  Qed.

  (* Add, when accepted, keeps the invariant and adds exactly the new route *)
  Lemma rp_add_ok s d l u p s' : rp_wf s -> rt_add s d l u p = Some s' ->
    rp_wf s' /\ forall r, rp_in r s' <-> (r = mkRoute (lower d) l u p \/ rp_in r s).
  Proof.
    intros Hwf Hadd. unfold rt_add in Hadd.
    destruct (rt_exist s (lower d) l u) eqn:Hex; [discriminate|].
    inversion Hadd; subst s'; clear Hadd.
    set (dom := lower d) in *.
    set (ut := match rt_alookup dom s with Some ut => ut | None => [] end).
    set (vrs := match rt_alookup u ut with Some v => v | None => [] end).
    set (nr := mkRoute dom l u p).
    set (vrs' := rt_sort_desc (vrs ++ [nr])).
    destruct Hwf as [Hnd Hwf].
    assert (Hut : NoDup (map fst ut) /\ forall u0 v0, rt_alookup u0 ut = Some v0 ->
              rp_desc v0 /\ forall r, In r v0 -> rt_dom r = dom /\ rt_user r = u0).
    { unfold ut. destruct (rt_alookup dom s) as [ut0|] eqn:Ld.
      - destruct (Hwf _ _ Ld) as [A [_ B]]. split; assumption.
      - split; [constructor|]. intros ? ? H; discriminate. }
    destruct Hut as [Hutnd Huts].
    assert (Hvrs : rp_desc vrs /\ forall r, In r vrs -> rt_dom r = dom /\ rt_user r = u).
    { unfold vrs. destruct (rt_alookup u ut) as [v0|] eqn:Lu.
      - apply Huts; exact Lu.
      - split; [exact I|intros ? []]. }
    destruct Hvrs as [Hvd Hvr].
    assert (Hnew : forall y, In y vrs -> rt_loc y <> l).
    { intros y Hy E.
      assert (rt_exist s dom l u = true); [|congruence].
      unfold rt_exist. unfold vrs in Hy. unfold ut in Hy.
      destruct (rt_alookup dom s) as [ut0|] eqn:Ld; [|simpl in Hy; contradiction].
      destruct (rt_alookup u ut0) as [v0|] eqn:Lu; [|contradiction].
      apply existsb_exists. exists y. split; [exact Hy|]. rewrite E. apply rp_eqb_refl. }
    assert (Hvd' : rp_desc vrs').
    { apply rp_sort_desc_ok. rewrite map_app. simpl.
      apply NoDup_app_remove_r_inv || idtac.
      pose proof (rp_desc_nodup _ Hvd) as Hn.
      clear - Hn Hnew. induction vrs as [|x v IH]; simpl.
      - constructor; [intros []|constructor].
      - inversion Hn; subst. constructor.
        + rewrite in_app_iff. intros [H|[H|[]]]; [contradiction|]. apply (Hnew x); [left; reflexivity|auto].
        + apply IH; auto. intros y Hy. apply Hnew. right; exact Hy. }
    assert (Hin' : forall r, In r vrs' <-> r = nr \/ In r vrs).
    { intro r. unfold vrs'. rewrite rp_sort_in, in_app_iff. simpl. intuition. }
    assert (Hdl : lower dom = dom) by apply rp_lower_idem.
    split.
    - split; [apply rp_aset_nodup; exact Hnd|].
      intros d0 ut0 L0.
      destruct (bytes_eqb dom d0) eqn:Ed.
      + apply rp_eqb_eq in Ed; subst d0. rewrite rp_alookup_aset_same in L0. inversion L0; subst ut0; clear L0.
        split; [apply rp_aset_nodup; exact Hutnd|]. split; [exact Hdl|].
        intros u0 v0 L1.
        destruct (bytes_eqb u u0) eqn:Eu.
        * apply rp_eqb_eq in Eu; subst u0. rewrite rp_alookup_aset_same in L1. inversion L1; subst v0.
          split; [exact Hvd'|]. intros r Hr. apply Hin' in Hr as [->|Hr]; [split; reflexivity|auto].
        * apply rp_eqb_neq in Eu. rewrite rp_alookup_aset_other in L1 by exact Eu. apply Huts; exact L1.
      + apply rp_eqb_neq in Ed. rewrite rp_alookup_aset_other in L0 by exact Ed. apply Hwf; exact L0.
    - intro r. unfold rp_in. split.
      + intros [ut0 [v0 [L0 [L1 Hr]]]].
        destruct (bytes_eqb dom (rt_dom r)) eqn:Ed.
        * apply rp_eqb_eq in Ed. rewrite <- Ed, rp_alookup_aset_same in L0. inversion L0; subst ut0; clear L0.
          destruct (bytes_eqb u (rt_user r)) eqn:Eu.
          -- apply rp_eqb_eq in Eu. rewrite <- Eu, rp_alookup_aset_same in L1. inversion L1; subst v0; clear L1.
             apply Hin' in Hr as [->|Hr]; [left; reflexivity|]. right.
             unfold vrs in Hr. destruct (rt_alookup u ut) as [v1|] eqn:Lu; [|contradiction].
             unfold ut in Lu. destruct (rt_alookup dom s) as [ut1|] eqn:Ld; [|discriminate].
             exists ut1, v1. rewrite <- Ed, <- Eu. auto.
          -- apply rp_eqb_neq in Eu. rewrite rp_alookup_aset_other in L1 by exact Eu. right.
             unfold ut in L1. destruct (rt_alookup dom s) as [ut1|] eqn:Ld; [|discriminate].
             exists ut1, v0. rewrite <- Ed. auto.
        * apply rp_eqb_neq in Ed. rewrite rp_alookup_aset_other in L0 by exact Ed. right. exists ut0, v0. auto.
      + intros [->|[ut0 [v0 [L0 [L1 Hr]]]]].
        * simpl. exists (rt_aset u vrs' ut), vrs'. rewrite !rp_alookup_aset_same. split; [reflexivity|]. split; [reflexivity|].
          apply Hin'. left; reflexivity.
        * destruct (bytes_eqb dom (rt_dom r)) eqn:Ed.
          -- apply rp_eqb_eq in Ed. rewrite <- Ed in *. rewrite rp_alookup_aset_same.
             assert (ut = ut0) as <- by (unfold ut; rewrite L0; reflexivity).
             destruct (bytes_eqb u (rt_user r)) eqn:Eu.
             ++ apply rp_eqb_eq in Eu. rewrite <- Eu in *.
                assert (vrs = v0) as <- by (unfold vrs; rewrite L1; reflexivity).
                exists (rt_aset u vrs' ut), vrs'. rewrite rp_alookup_aset_same. split; [reflexivity|]. split; [reflexivity|].
                apply Hin'. right; exact Hr.
             ++ apply rp_eqb_neq in Eu. exists (rt_aset u vrs' ut), v0. rewrite rp_alookup_aset_other by exact Eu. auto.
          -- apply rp_eqb_neq in Ed. exists ut0, v0. rewrite rp_alookup_aset_other by exact Ed. auto.
  Qed.

  Lemma rp_add_none s d l u p : rp_wf s ->
    (rt_add s d l u p = None <-> exists r, rp_in r s /\ rt_dom r = lower d /\ rt_loc r = l /\ rt_user r = u).
  Proof.
    intro Hwf. unfold rt_add. rewrite <- (rp_exist_iff s (lower d) l u Hwf).
    destruct (rt_exist s (lower d) l u); split; intro H; try reflexivity; discriminate.
  Qed.

  (* Del keeps the invariant and removes exactly the routes of that triple *)
  Lemma rp_del_ok s d l u : rp_wf s ->
    rp_wf (rt_del s d l u) /\
    forall r, rp_in r (rt_del s d l u) <->
              (rp_in r s /\ ~ (rt_dom r = lower d /\ rt_loc r = l /\ rt_user r = u)).
  Proof.
    intros Hwf. unfold rt_del. set (dom := lower d).
    destruct (rt_alookup dom s) as [ut|] eqn:Ld.
    2:{ split; [exact Hwf|]. intro r. split; [|tauto]. intro Hr. split; [exact Hr|].
        intros [E _]. destruct Hr as [ut [vrs [L _]]]. rewrite E in L. fold dom in L. congruence. }
    destruct (rt_alookup u ut) as [vrs|] eqn:Lu.
    2:{ split; [exact Hwf|]. intro r. split; [|tauto]. intro Hr. split; [exact Hr|].
        intros [E1 [_ E3]]. destruct Hr as [ut0 [vrs [L0 [L1 _]]]]. rewrite E1 in L0. fold dom in L0.
        rewrite Ld in L0. inversion L0; subst ut0. rewrite E3 in L1. congruence. }
    set (f := fun r : route => negb (bytes_eqb (rt_loc r) l)).
    destruct Hwf as [Hnd Hwf].
    destruct (Hwf _ _ Ld) as [Hutnd [Hdl Huts]].
    destruct (Huts _ _ Lu) as [Hvd Hvr].
    split.
    - split; [apply rp_aset_nodup; exact Hnd|].
      intros d0 ut0 L0.
      destruct (bytes_eqb dom d0) eqn:Ed.
      + apply rp_eqb_eq in Ed; subst d0. rewrite rp_alookup_aset_same in L0. inversion L0; subst ut0; clear L0.
        split; [apply rp_aset_nodup; exact Hutnd|]. split; [exact Hdl|].
        intros u0 v0 L1.
        destruct (bytes_eqb u u0) eqn:Eu.
        * apply rp_eqb_eq in Eu; subst u0. rewrite rp_alookup_aset_same in L1. inversion L1; subst v0.
          split; [apply rp_desc_filter; exact Hvd|]. intros r Hr. apply filter_In in Hr as [Hr _]. auto.
        * apply rp_eqb_neq in Eu. rewrite rp_alookup_aset_other in L1 by exact Eu. apply Huts; exact L1.
      + apply rp_eqb_neq in Ed. rewrite rp_alookup_aset_other in L0 by exact Ed. apply Hwf; exact L0.
    - intro r. unfold rp_in. split.
      + intros [ut0 [v0 [L0 [L1 Hr]]]].
        destruct (bytes_eqb dom (rt_dom r)) eqn:Ed.
        * apply rp_eqb_eq in Ed. rewrite <- Ed, rp_alookup_aset_same in L0. inversion L0; subst ut0; clear L0.
          destruct (bytes_eqb u (rt_user r)) eqn:Eu.
          -- apply rp_eqb_eq in Eu. rewrite <- Eu, rp_alookup_aset_same in L1. inversion L1; subst v0; clear L1.
             apply filter_In in Hr as [Hr Hf]. split.
             ++ exists ut, vrs. rewrite <- Ed, <- Eu. auto.
             ++ intros [_ [E2 _]]. unfold f in Hf. rewrite E2, rp_eqb_refl in Hf. discriminate.
          -- apply rp_eqb_neq in Eu. rewrite rp_alookup_aset_other in L1 by exact Eu. split.
             ++ exists ut, v0. rewrite <- Ed. auto.
             ++ intros [_ [_ E3]]. congruence.
        * apply rp_eqb_neq in Ed. rewrite rp_alookup_aset_other in L0 by exact Ed. split.
          -- exists ut0, v0. auto.
          -- intros [E1 _]. congruence.
      + intros [[ut0 [v0 [L0 [L1 Hr]]]] Hnot].
        destruct (bytes_eqb dom (rt_dom r)) eqn:Ed.
        * apply rp_eqb_eq in Ed. rewrite <- Ed in *. rewrite Ld in L0. inversion L0; subst ut0; clear L0.
          rewrite rp_alookup_aset_same.
          destruct (bytes_eqb u (rt_user r)) eqn:Eu.
          -- apply rp_eqb_eq in Eu. rewrite <- Eu in *. rewrite Lu in L1. inversion L1; subst v0; clear L1.
             exists (rt_aset u (filter f vrs) ut), (filter f vrs). rewrite rp_alookup_aset_same.
             split; [reflexivity|]. split; [reflexivity|]. apply filter_In. split; [exact Hr|].
             unfold f. destruct (bytes_eqb (rt_loc r) l) eqn:El; [|reflexivity].
             apply rp_eqb_eq in El. exfalso. apply Hnot. auto.
          -- apply rp_eqb_neq in Eu. exists (rt_aset u (filter f vrs) ut), v0.
             rewrite rp_alookup_aset_other by exact Eu. auto.
        * apply rp_eqb_neq in Ed. exists ut0, v0. rewrite rp_alookup_aset_other by exact Ed. auto.
  Qed.

  Lemma rp_step_wf s o : rp_wf s -> rp_wf (rt_step s o).
  Proof.
    intro Hwf. destruct o as [d l u p|d l u]; simpl.
    - destruct (rt_add s d l u p) as [s'|] eqn:E; [|exact Hwf]. apply (rp_add_ok _ _ _ _ _ _ Hwf E).
    - apply rp_del_ok; exact Hwf.
  Qed.

  Lemma rp_fold_wf hist : forall s, rp_wf s -> rp_wf (fold_left rt_step hist s).
  Proof. induction hist as [|o h IH]; simpl; intros s H; [exact H|]. apply IH, rp_step_wf, H. Qed.

  (* router_inv: holds after every history *)
  Lemma rp_run_wf (hist : list (rt_op P)) : rp_wf (rt_run hist).
  Proof. apply rp_fold_wf, rp_wf_empty. Qed.

  (* (domain, location, user) triples are unique *)
  Lemma rp_triple_unique s (a b : route) : rp_wf s -> rp_in a s -> rp_in b s ->
    rt_dom a = rt_dom b -> rt_loc a = rt_loc b -> rt_user a = rt_user b -> a = b.
  Proof.
    intros [_ Hwf] [ut [vrs [L0 [L1 Ha]]]] [ut2 [vrs2 [L0' [L1' Hb]]]] E1 E2 E3.
    rewrite <- E1, L0 in L0'. inversion L0'; subst ut2. rewrite <- E3, L1 in L1'. inversion L1'; subst vrs2.
    destruct (Hwf _ _ L0) as [_ [_ Hs]]. destruct (Hs _ _ L1) as [Hd _].
    eapply rp_desc_loc_inj; eauto.
  Qed.

  (* Get: the longest-prefix route among those of exactly this (lower-cased) domain and this user *)
  Lemma rp_get_some s h p u r : rp_wf s -> rt_get s h p u = Some r ->
    rp_in r s /\ rt_dom r = lower h /\ rt_user r = u /\ is_prefix (rt_loc r) p = true /\
    forall r', rp_in r' s -> rt_dom r' = lower h -> rt_user r' = u -> is_prefix (rt_loc r') p = true ->
               r' = r \/ (length (rt_loc r') < length (rt_loc r))%nat.
  Proof.
    intros [_ Hwf] Hg. unfold rt_get in Hg.
    destruct (rt_alookup (lower h) s) as [ut|] eqn:Ld; [|discriminate].
    destruct (rt_alookup u ut) as [vrs|] eqn:Lu; [|discriminate].
    destruct (Hwf _ _ Ld) as [_ [_ Hs]]. destruct (Hs _ _ Lu) as [Hd Hr].
    destruct (rp_first_prefix_is_longest _ _ _ Hd Hg) as [Hin [Hp Hall]].
    destruct (Hr _ Hin) as [E1 E2].
    split; [exists ut, vrs; rewrite E1, E2; auto|]. split; [exact E1|]. split; [exact E2|]. split; [exact Hp|].
    intros r' [ut' [vrs' [L0 [L1 Hin']]]] D U Hp'.
    rewrite D, Ld in L0. inversion L0; subst ut'. rewrite U, Lu in L1. inversion L1; subst vrs'. auto.
  Qed.

  Lemma rp_get_none s h p u : rp_wf s -> rt_get s h p u = None ->
    forall r', rp_in r' s -> rt_dom r' = lower h -> rt_user r' = u -> is_prefix (rt_loc r') p = false.
  Proof.
    intros [_ Hwf] Hg r' [ut' [vrs' [L0 [L1 Hin']]]] D U. unfold rt_get in Hg.
    rewrite <- D, L0, <- U, L1 in Hg. eapply rp_find_none; eauto.
  Qed.

  Lemma rp_get_lower (s : rstate) h p u : rt_get s (lower h) p u = rt_get s h p u.
  Proof. unfold rt_get. rewrite rp_lower_idem. reflexivity. Qed.
End Table.
