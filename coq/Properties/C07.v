(* C07 — password-protected endpoints serve only requests carrying the exact credentials.
   Statements only; proofs live in Proofs/HttpAuthProofs.v, the model in Model/HttpAuth.v.
   [get] is Routers.Get (any route table, any implementation of the lookup), [canon] is httppkg.CanonicalHost:
   every theorem holds for all of them, for all requests, configurations and route tables.
   [ha_creds r]      what a vhost http route demands   (Username or Password non-empty, as CheckAuth defines it)
   [ha_mux_creds l]  what a tcpmux listener demands    (user name non-empty, as Muxer.handle defines it)
   [ha_cfg_creds c]  what a web server / plugin demands (user or password non-empty)
   [ha_presented rq] the pair carried by Authorization (the zero strings when absent or malformed)              *)
From FRP Require Import Model.HttpAuth Model.HttpAuthGroup Model.HttpAuthSites Model.HttpAuthMuxRace Proofs.HttpAuthProofs gen.GenRoutes gen.GenRouteSites.
Open Scope Z_scope.

(* ---- vhost HTTP reverse proxy: serveRouted ---------------------------------------------------------------- *)
Theorem C07_serve_http_forward_implies_credentials : forall get canon rq r,
  ha_serve_http get canon rq = OForward r ->
  ha_creds r = None \/ ha_creds r = Some (ha_presented rq).
Proof. exact ha_serve_http_forward_implies_credentials. Qed.
Print Assumptions C07_serve_http_forward_implies_credentials.

(* the route consulted by the credential check is the route whose backend connection is created *)
Theorem C07_serve_http_check_route_is_forward_route : forall get canon rq r,
  ha_serve_http get canon rq = OForward r -> ha_serve_http_checked get canon rq = Some r.
Proof. exact ha_serve_http_check_route_is_forward_route. Qed.
Print Assumptions C07_serve_http_check_route_is_forward_route.

(* wrong or missing credentials reach no backend: the answer is the 401 challenge *)
Theorem C07_serve_http_wrong_or_missing_credentials_reach_no_backend : forall get canon rq r c,
  ha_serve_http_checked get canon rq = Some r -> ha_creds r = Some c -> ha_presented rq <> c ->
  ha_serve_http get canon rq = OUnauthorized.
Proof. exact ha_serve_http_wrong_credentials. Qed.
Print Assumptions C07_serve_http_wrong_or_missing_credentials_reach_no_backend.

(* not vacuous: with the right credentials (or none demanded) the request is forwarded, to the consulted route *)
Theorem C07_serve_http_authorized_forwarded : forall get canon rq r,
  ha_serve_http_checked get canon rq = Some r -> rt_has_conn r = true ->
  (ha_creds r = None \/ ha_creds r = Some (ha_presented rq)) ->
  ~ (rq_form rq = FConnect /\ rq_proto rq = PH2Stream) ->
  ha_serve_http get canon rq = OForward r.
Proof. exact ha_serve_http_authorized_forwarded. Qed.
Print Assumptions C07_serve_http_authorized_forwarded.

(* a request that selects no route passes the check and is then not forwarded *)
Theorem C07_serve_http_no_route_reaches_no_backend : forall get canon rq,
  ha_serve_http_checked get canon rq = None ->
  ha_serve_http get canon rq = ONotFound \/ ha_serve_http get canon rq = ONoHijack.
Proof. exact ha_serve_http_no_route. Qed.
Print Assumptions C07_serve_http_no_route_reaches_no_backend.

(* every request of a connection, every stream of an h2c connection, of any length *)
Theorem C07_serve_conn_every_stream_checked : forall get canon rqs i r,
  nth_error (ha_serve_conn get canon rqs) i = Some (OForward r) ->
  exists rq, nth_error rqs i = Some rq /\ ha_serve_http_checked get canon rq = Some r /\
             (ha_creds r = None \/ ha_creds r = Some (ha_presented rq)).
Proof. exact ha_serve_conn_every_stream. Qed.
Print Assumptions C07_serve_conn_every_stream_checked.

Theorem C07_serve_conn_wrong_credentials_reach_no_backend : forall get canon rqs i rq r c,
  nth_error rqs i = Some rq -> ha_serve_http_checked get canon rq = Some r ->
  ha_creds r = Some c -> ha_presented rq <> c ->
  nth_error (ha_serve_conn get canon rqs) i = Some OUnauthorized.
Proof. exact ha_serve_conn_wrong_credentials. Qed.
Print Assumptions C07_serve_conn_wrong_credentials_reach_no_backend.

(* ---- tcpmux (HTTP CONNECT) muxer ---------------------------------------------------------------------------- *)
Theorem C07_mux_handle_forward_implies_credentials : forall get canon passthrough rq l s,
  ha_mux_handle get canon passthrough rq = MForward l s ->
  ha_mux_creds l = None \/ ha_mux_creds l = Some (ha_mux_presented rq).
Proof. exact ha_mux_forward_implies_credentials. Qed.
Print Assumptions C07_mux_handle_forward_implies_credentials.

Theorem C07_mux_handle_check_route_is_forward_route : forall get canon passthrough rq l s,
  ha_mux_handle get canon passthrough rq = MForward l s -> ha_mux_selected get canon rq = Some l.
Proof. exact ha_mux_check_route_is_forward_route. Qed.
Print Assumptions C07_mux_handle_check_route_is_forward_route.

(* refused (407) and closed; nothing is handed to a listener *)
Theorem C07_mux_handle_wrong_or_missing_credentials_reach_no_backend : forall get canon passthrough rq l c,
  rq_form rq = FConnect -> ha_mux_selected get canon rq = Some l -> ha_mux_creds l = Some c ->
  ha_mux_presented rq <> c ->
  ha_mux_handle get canon passthrough rq = MAuthFailed (negb passthrough).
Proof. exact ha_mux_wrong_credentials. Qed.
Print Assumptions C07_mux_handle_wrong_or_missing_credentials_reach_no_backend.

Theorem C07_mux_handle_not_connect_closed : forall get canon passthrough rq,
  rq_form rq <> FConnect -> ha_mux_handle get canon passthrough rq = MClose.
Proof. exact ha_mux_not_connect. Qed.
Print Assumptions C07_mux_handle_not_connect_closed.

(* ---- Muxer.handle under concurrent listener close / register / accept ------------------------------------------ *)
(* for every schedule (any interleaving of the muxer's handle, owners accepting, listeners closing, new listeners
   registering, of any length) from any table: the connection is delivered only to a listener that demands no credentials
   or exactly those the CONNECT presented — the listener checked is the listener delivered to *)
Theorem C07_mux_delivered_only_to_checked_listener : forall canon passthrough tbl rq (sched : list ha_mact) l,
  ms_conn (ha_mrace_run canon passthrough {| ms_tbl := tbl; ms_conn := MCNew rq |} sched) = MCDelivered l ->
  ha_mux_creds l = None \/ ha_mux_creds l = Some (ha_mux_presented rq).
Proof. exact ha_mrace_delivered_only_to_checked_listener. Qed.
Print Assumptions C07_mux_delivered_only_to_checked_listener.

(* the routed listener closes while the connection waits for it: the connection is closed, whatever covers the host now *)
Theorem C07_mux_closed_listener_closes_connection : forall canon passthrough tbl l ok (sched : list ha_mact),
  ms_conn (ha_mrace_run canon passthrough {| ms_tbl := tbl; ms_conn := MCHandover l ok |}
                        (MACloseListener (rt_id l) :: sched)) = MCClosed.
Proof. exact ha_mrace_closed_listener_closes_connection. Qed.
Print Assumptions C07_mux_closed_listener_closes_connection.

(* reflective over today's Muxer.handle (translator unit t7): one lookup; one send, on the accept channel of the
   listener found; one credential check, against that listener's user and password; a failed hand-over closes the
   connection and ends handle (no second lookup, no second send) — what the step model above mirrors *)
Theorem C07_muxer_handle_single_lookup_checked_listener :
  muxer_handle_facts = ha_muxer_facts_expected.
Proof. exact (ha_facts_eqb_eq muxer_handle_facts ha_muxer_facts_expected (eq_refl true)). Qed.
Print Assumptions C07_muxer_handle_single_lookup_checked_listener.

(* ---- tcpmux load-balancing groups (server/group/tcpmux.go) --------------------------------------------------- *)
(* for every history of joins and leaves, in every order, whichever member the scheduler lets accept: a member that
   receives a connection was configured without a user name, or the CONNECT presented exactly its user and password *)
Theorem C07_tcpmux_group_member_receives_only_with_credentials : forall canon ops passthrough rq chosen m,
  ha_grp_deliver canon (fst (ha_grp_run [] ops)) passthrough rq chosen = Some m ->
  ha_member_creds m = None \/ ha_member_creds m = Some (ha_mux_presented rq).
Proof. exact ha_grp_member_receives_only_with_credentials. Qed.
Print Assumptions C07_tcpmux_group_member_receives_only_with_credentials.

(* the mechanism behind it: a joiner whose credentials differ from the group's (those of its first member) is refused *)
Theorem C07_tcpmux_group_join_other_credentials_refused : forall g m,
  (gm_user m, gm_pass m) <> (rt_user (g_route g), rt_pass (g_route g)) ->
  ha_grp_join_existing g m = (g, 1).
Proof. exact ha_grp_join_other_credentials_refused. Qed.
Print Assumptions C07_tcpmux_group_join_other_credentials_refused.

(* ---- http load-balancing groups (server/group/http.go) --------------------------------------------------------- *)
(* the group's single route carries the credentials of its first member; since fix 76cc372 a joiner is compared with
   the group in Username / Password too ([ha_hgrp_* true]).  For every history of joins, whichever member serves: *)
Theorem C07_http_group_member_receives_only_with_credentials : forall canon ms rq chosen m,
  ha_hgrp_deliver canon (fst (ha_hgrp_run true [] ms)) rq chosen = Some m ->
  ha_hmember_creds m = None \/ ha_hmember_creds m = Some (ha_presented rq).
Proof. exact ha_hgrp_member_receives_only_with_credentials_when_compared. Qed.
Print Assumptions C07_http_group_member_receives_only_with_credentials.

(* reflective over today's source (translator unit t7): HTTPGroup.Register admits a joiner only after comparing these
   fields of its route config with the group's, in one plain disjunction the translator could read completely — this is
   what makes [true] the right instance above *)
Theorem C07_http_group_join_compares_credentials :
  In "Username"%string http_group_compared /\ In "Password"%string http_group_compared /\
  In "Domain"%string http_group_compared /\ In "RouteByHTTPUser"%string http_group_compared.
Proof. exact (ha_group_compares_credentials_sound http_group_compared (eq_refl true)). Qed.
Print Assumptions C07_http_group_join_compares_credentials.

(* ---- from a proxy's configuration to its routes (server/proxy/http.go, server/proxy/tcpmux.go) ------------------ *)
(* the model of Run: every route of a proxy — every custom domain, the sub-domain, every location — carries the
   proxy's user, password and routing user ... *)
Theorem C07_proxy_routes_carry_credentials : forall sdh p r,
  In r (ha_px_routes sdh p) ->
  rt_user r = px_user p /\ rt_pass r = px_pass p /\ rt_by_user r = px_by_user p /\ rt_id r = px_id p /\
  In (rt_domain r) (ha_px_hosts sdh p).
Proof. exact ha_px_routes_carry_credentials. Qed.
Print Assumptions C07_proxy_routes_carry_credentials.

Theorem C07_proxy_subdomain_route_carries_credentials : forall sdh p,
  px_subdomain p <> [] ->
  exists r, In r (ha_px_routes sdh p) /\ rt_domain r = (px_subdomain p ++ ha_dot :: sdh)%list /\
            rt_user r = px_user p /\ rt_pass r = px_pass p.
Proof. exact ha_px_subdomain_route_exists. Qed.
Print Assumptions C07_proxy_subdomain_route_carries_credentials.

(* ... and, reflective over today's sources (translator unit t7, gen/GenRouteSites.v): every vhost.RouteConfig value
   that reaches a registration call in HTTPProxy.Run / TCPMuxProxy.Run holds pxy.cfg.HTTPUser, pxy.cfg.HTTPPassword and
   pxy.cfg.RouteByHTTPUser, none escapes the analysis, and all eight kinds of site exist: {http, tcpmux} x
   {custom domain, sub-domain} x {grouped, not grouped} *)
Theorem C07_route_sites_carry_credentials :
  (forall x, In x (http_route_sites ++ tcpmux_route_sites) -> exists s, x = SSite s) /\
  (forall s, In s (ha_sites_of (http_route_sites ++ tcpmux_route_sites)) ->
     rs_user s = "pxy.cfg.HTTPUser"%string /\ rs_pass s = "pxy.cfg.HTTPPassword"%string /\
     rs_byuser s = "pxy.cfg.RouteByHTTPUser"%string /\ ha_dkind_known (rs_domain s) = true) /\
  (forall p d g, In p ["http"%string; "tcpmux"%string] -> In d [DCustom; DSubdomain] ->
     exists s, In s (ha_sites_of (http_route_sites ++ tcpmux_route_sites)) /\ rs_proxy s = p /\
               ha_dkind_eqb (rs_domain s) d = true /\ rs_grouped s = g).
Proof. exact (ha_sites_ok_sound (http_route_sites ++ tcpmux_route_sites) (eq_refl true)). Qed.
Print Assumptions C07_route_sites_carry_credentials.

(* reflective: the tcpmux group admits a joiner only after comparing these fields of its route config with the
   group's, in one plain disjunction the translator could read completely *)
Theorem C07_tcpmux_group_join_compares_credentials :
  In "Username"%string tcpmux_group_compared /\ In "Password"%string tcpmux_group_compared /\
  In "Domain"%string tcpmux_group_compared /\ In "RouteByHTTPUser"%string tcpmux_group_compared.
Proof. exact (ha_group_compares_credentials_sound tcpmux_group_compared (eq_refl true)). Qed.
Print Assumptions C07_tcpmux_group_join_compares_credentials.

(* ---- HTTPAuthMiddleware (dashboard, admin API, static_file) -------------------------------------------------- *)
Theorem C07_constant_time_compare_is_equality : forall a b, ha_ct_eq a b = true <-> a = b.
Proof. exact ha_ct_eq_iff. Qed.
Print Assumptions C07_constant_time_compare_is_equality.

Theorem C07_middleware_forward_implies_credentials : forall c rq,
  ha_middleware c rq = MwNext -> ha_cfg_creds c = None \/ ha_parse_basic (rq_auth rq) = ha_cfg_creds c.
Proof. exact ha_middleware_forward_implies_credentials. Qed.
Print Assumptions C07_middleware_forward_implies_credentials.

Theorem C07_middleware_wrong_or_missing_credentials_reach_no_backend : forall c rq x,
  ha_cfg_creds c = Some x -> ha_parse_basic (rq_auth rq) <> Some x -> ha_middleware c rq = MwUnauthorized.
Proof. exact ha_middleware_wrong_credentials. Qed.
Print Assumptions C07_middleware_wrong_or_missing_credentials_reach_no_backend.

(* ---- http_proxy plugin ----------------------------------------------------------------------------------------- *)
Theorem C07_http_proxy_auth_forward_implies_credentials : forall c rq,
  ha_http_proxy c rq = HpProxy -> ha_cfg_creds c = None \/ ha_http_proxy_presented rq = ha_cfg_creds c.
Proof. exact ha_http_proxy_forward_implies_credentials. Qed.
Print Assumptions C07_http_proxy_auth_forward_implies_credentials.

Theorem C07_http_proxy_wrong_or_missing_credentials_reach_no_backend : forall c rq x,
  ha_cfg_creds c = Some x -> ha_http_proxy_presented rq <> Some x ->
  ha_http_proxy c rq = HpChallenge (match rq_form rq with FConnect => true | _ => false end).
Proof. exact ha_http_proxy_wrong_credentials. Qed.
Print Assumptions C07_http_proxy_wrong_or_missing_credentials_reach_no_backend.

(* both entry points of the plugin (Handle's sniffed CONNECT, the http.Server's ServeHTTP), every request of a connection *)
Theorem C07_http_proxy_every_entry_forward_implies_credentials : forall e c rq,
  ha_http_proxy_via e c rq = HpProxy -> ha_cfg_creds c = None \/ ha_http_proxy_presented rq = ha_cfg_creds c.
Proof. exact ha_http_proxy_via_forward_implies_credentials. Qed.
Print Assumptions C07_http_proxy_every_entry_forward_implies_credentials.

Theorem C07_http_proxy_every_entry_wrong_credentials_reach_no_backend : forall e c rq x,
  ha_cfg_creds c = Some x -> ha_http_proxy_presented rq <> Some x ->
  exists close, ha_http_proxy_via e c rq = HpChallenge close.
Proof. exact ha_http_proxy_via_wrong_credentials. Qed.
Print Assumptions C07_http_proxy_every_entry_wrong_credentials_reach_no_backend.

Theorem C07_http_proxy_conn_every_request_checked : forall sniff c rqs i,
  nth_error (ha_http_proxy_conn sniff c rqs) i = Some HpProxy ->
  exists rq, nth_error rqs i = Some rq /\
             (ha_cfg_creds c = None \/ ha_http_proxy_presented rq = ha_cfg_creds c).
Proof. exact ha_http_proxy_conn_every_request. Qed.
Print Assumptions C07_http_proxy_conn_every_request_checked.

(* ---- socks5 plugin ---------------------------------------------------------------------------------------------- *)
Theorem C07_socks5_forward_implies_credentials : forall c rq m,
  ha_socks5 c rq = S5Granted m ->
  (ha_s5_creds c = None /\ m = 0) \/ (ha_s5_creds c = Some (s5_user rq, s5_pass rq) /\ m = 2).
Proof. exact ha_socks5_granted_inv. Qed.
Print Assumptions C07_socks5_forward_implies_credentials.

Theorem C07_socks5_wrong_or_missing_credentials_reach_no_backend : forall c rq x,
  ha_s5_creds c = Some x -> (s5_user rq, s5_pass rq) <> x ->
  ha_socks5 c rq = S5NoAcceptable \/ ha_socks5 c rq = S5BadVersion \/ ha_socks5 c rq = S5AuthFailed.
Proof. exact ha_socks5_wrong_credentials. Qed.
Print Assumptions C07_socks5_wrong_or_missing_credentials_reach_no_backend.

(* ---- static_file plugin ----------------------------------------------------------------------------------------- *)
Theorem C07_static_file_forward_implies_credentials : forall prefix en c rq p g,
  ha_web_serve en (ha_static_file_routes prefix) c rq = WServed p g ->
  ha_cfg_creds c = None \/ ha_parse_basic (rq_auth rq) = ha_cfg_creds c.
Proof. exact ha_static_file_served_implies_credentials. Qed.
Print Assumptions C07_static_file_forward_implies_credentials.

Theorem C07_static_file_wrong_or_missing_credentials_reach_no_backend : forall prefix en c rq x,
  ha_cfg_creds c = Some x -> ha_parse_basic (rq_auth rq) <> Some x ->
  forall p g, ha_web_serve en (ha_static_file_routes prefix) c rq <> WServed p g.
Proof. exact ha_static_file_wrong_credentials. Qed.
Print Assumptions C07_static_file_wrong_or_missing_credentials_reach_no_backend.

(* ---- dashboard and admin API: reflective over today's route registrations (translator unit t7) ------------------ *)
(* every route registered in server/dashboard_api.go, client/admin_api.go and pkg/util/http/server.go hangs off a
   router that uses the auth middleware, except the declared public one ([ha_declared_public]: exactly /healthz);
   this includes the /debug/pprof/ family of webServer.pprofEnable; no registration the translator could not read *)
Theorem C07_api_routes_guarded :
  (forall s, In s (dashboard_routes ++ admin_routes ++ webserver_routes) -> exists r, s = WRoute r) /\
  (forall r, In r (ha_routes_of (dashboard_routes ++ admin_routes ++ webserver_routes)) ->
             wr_mw r = true \/ ha_declared_public r = true) /\
  dashboard_routes <> [] /\ admin_routes <> [].
Proof. exact (ha_api_routes_guarded_sound dashboard_routes admin_routes webserver_routes (eq_refl true) (eq_refl true) (eq_refl true)). Qed.
Print Assumptions C07_api_routes_guarded.

(* hence, whatever flags are enabled: a handler of the dashboard / admin API runs only for a request that carries
   the configured user and password, or on a declared public route *)
Theorem C07_web_api_forward_implies_credentials : forall en c rq p g,
  ha_web_serve en (ha_routes_of (dashboard_routes ++ admin_routes ++ webserver_routes)) c rq = WServed p g ->
  (g = true /\ (ha_cfg_creds c = None \/ ha_parse_basic (rq_auth rq) = ha_cfg_creds c)) \/
  (g = false /\ exists r, In r (ha_routes_of (dashboard_routes ++ admin_routes ++ webserver_routes)) /\
                          wr_pat r = p /\ ha_declared_public r = true).
Proof.
  exact (fun en c rq p g => ha_web_served_implies_credentials (dashboard_routes ++ admin_routes ++ webserver_routes)
                               en c rq p g (eq_refl true)).
Qed.
Print Assumptions C07_web_api_forward_implies_credentials.

(* ---- the hypotheses are satisfiable ---------------------------------------------------------------------------- *)
Definition ex_alice : ha_route :=
  {| rt_id := 1; rt_domain := hx "682e74657374"; rt_location := hx "2f"; rt_by_user := hx "616c696365";
     rt_user := hx "616c696365"; rt_pass := hx "7077"; rt_has_conn := true |}.
Definition ex_hdr (cs : bytes) : ha_hdr :=
  Some {| hv_scheme := hx "4261736963"; hv_space := true; hv_decoded := Some cs |}.
Definition ex_rq (form : ha_form) (auth pauth : ha_hdr) : ha_req :=
  {| rq_form := form; rq_proto := PH11; rq_method := hx "474554";
     rq_url_host := match form with FOrigin => [] | _ => hx "682e74657374" end;
     rq_hdr_host := hx "682e74657374"; rq_path := hx "2f"; rq_auth := auth; rq_pauth := pauth; rq_casing := 0 |}.
Definition ex_get := ha_tbl_get [ex_alice].

(* alice:pw in Authorization reaches alice's backend ... *)
Example C07_ex_right : ha_serve_http ex_get ha_canon_or_self (ex_rq FOrigin (ex_hdr (hx "616c6963653a7077")) None)
                       = OForward ex_alice.
Proof. vm_compute. reflexivity. Qed.
(* ... the once-bypassing request (absolute form, only Proxy-Authorization: alice:WRONG) gets the challenge *)
Example C07_ex_fc07 : ha_serve_http ex_get ha_canon_or_self (ex_rq FAbsolute None (ex_hdr (hx "616c6963653a57524f4e47")))
                      = OUnauthorized.
Proof. vm_compute. reflexivity. Qed.
Example C07_ex_fc07_route : ha_serve_http_checked ex_get ha_canon_or_self
                              (ex_rq FAbsolute None (ex_hdr (hx "616c6963653a57524f4e47"))) = Some ex_alice.
Proof. vm_compute. reflexivity. Qed.
