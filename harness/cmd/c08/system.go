package main

// Parts (iii) and (iv) of driver "visitors": an in-process frps with scripted owner and visitor
// sessions, and byte transparency through a real frpc owner and a real frpc visitor.

import (
	"bytes"
	"context"
	"os"
	"path/filepath"
	"fmt"
	"io"
	"net"
	"strings"
	"sync"
	"time"

	v1 "github.com/fatedier/frp/pkg/config/v1"
	"github.com/fatedier/frp/client"
	"github.com/fatedier/frp/pkg/config"
	"github.com/fatedier/frp/pkg/msg"
	"github.com/fatedier/frp/pkg/nathole"
	"github.com/fatedier/frp/pkg/util/util"
	"github.com/fatedier/frp/pkg/util/verifhook"
	"verifharness/hx"
)

const (
	sysAddr  = "127.0.8.1"
	realAddr = "127.0.8.2"
	negWait  = 15 * time.Millisecond // how long "nothing arrives" is observed
	posWait  = 15 * time.Second // something that must arrive: generous, a starved machine must not look like a refusal
	respWait = 15 * time.Second
)

// started is a work connection on which the server wrote StartWorkConn: the moment a real frpc
// would dial its backend.
type started struct {
	s    *sess
	conn net.Conn
	m    msg.StartWorkConn
}

// sess is a scripted session whose control channel is read by a goroutine.
type sess struct {
	p        *hx.Peer
	idx      int
	user     string
	proxyRes chan *msg.NewProxyResp
	pong     chan struct{}
	nhResp   chan *msg.NatHoleResp
	startedC chan started
	mu       sync.Mutex
	reqs     int
	closed   bool
}

func newSess(p *hx.Peer, idx int, user string, startedC chan started) *sess {
	s := &sess{p: p, idx: idx, user: user, proxyRes: make(chan *msg.NewProxyResp, 8), pong: make(chan struct{}, 8),
		nhResp: make(chan *msg.NatHoleResp, 8), startedC: startedC}
	go s.loop()
	return s
}

func (s *sess) loop() {
	for {
		m, err := msg.ReadMsg(s.p.RW)
		if err != nil {
			return
		}
		switch v := m.(type) {
		case *msg.ReqWorkConn:
			s.mu.Lock()
			s.reqs++
			s.mu.Unlock()
			go s.offer()
		case *msg.NewProxyResp:
			s.proxyRes <- v
		case *msg.Pong:
			s.pong <- struct{}{}
		case *msg.NatHoleResp:
			s.nhResp <- v
		}
	}
}

func (s *sess) reqCount() int {
	s.mu.Lock()
	defer s.mu.Unlock()
	return s.reqs
}

// offer answers a ReqWorkConn the way frpc does and waits for StartWorkConn on the new connection.
func (s *sess) offer() {
	c, err := s.p.WorkConn(true)
	if err != nil {
		return
	}
	var sw msg.StartWorkConn
	if err := msg.ReadMsgInto(c, &sw); err != nil {
		c.Close()
		return
	}
	s.startedC <- started{s, c, sw}
}

// sync: a Ping/Pong round trip; control messages of one session are handled in order.
func (s *sess) sync() bool {
	if err := s.p.Ping(true); err != nil {
		return false
	}
	select {
	case <-s.pong:
		return true
	case <-time.After(respWait):
		return false
	}
}

// regGate holds the next RegisterProxy of the armed name between its Exist check and its Run
// (gate point "ctl.regproxy.after_exist"), so that another session can register the name in between.
type regGate struct {
	mu      sync.Mutex
	armed   string
	blocked chan struct{}
	release chan struct{}
}

func (gt *regGate) arm(name string) {
	gt.mu.Lock()
	gt.armed, gt.blocked, gt.release = name, make(chan struct{}), make(chan struct{})
	gt.mu.Unlock()
}

func (gt *regGate) hook(point, key string) {
	if point != "ctl.regproxy.after_exist" {
		return
	}
	gt.mu.Lock()
	if gt.armed == "" || gt.armed != key {
		gt.mu.Unlock()
		return
	}
	gt.armed = ""
	b, r := gt.blocked, gt.release
	gt.mu.Unlock()
	close(b)
	select {
	case <-r:
	case <-time.After(10 * time.Second):
	}
}

var sysCaseNo int

type sysReg struct {
	owner    *sess
	kind     string
	sk       string
	allow    []string
	pue, puc bool
}

func kindCoq(k string) string {
	switch k {
	case "stcp":
		return "KStcp"
	case "sudp":
		return "KSudp"
	}
	return "KXtcp"
}

func systemCase(g *gen, dist map[string]int) (string, []map[string]string, error) {
	nathole.NatHoleTimeout = nhTimeout
	srv, err := hx.StartServer(sysAddr, nil)
	if err != nil {
		return "", nil, err
	}
	defer srv.Close()
	startedC := make(chan started, 64)
	ht := newHTable()
	for _, s := range skPool {
		ht.addSk(s)
	}
	var ops, obs []string
	var fails []map[string]string
	fail := func(key, what, c string) {
		fails = append(fails, map[string]string{"key": key, "what": what, "case": c})
	}
	var sessions []*sess
	login := func(user string) (*sess, error) {
		p, resp, err := srv.Login(hx.LoginOpts{User: user})
		if err != nil {
			return nil, err
		}
		if p == nil {
			return nil, fmt.Errorf("login refused: %s", resp.Error)
		}
		s := newSess(p, len(sessions), user, startedC)
		sessions = append(sessions, s)
		ops = append(ops, fmt.Sprintf("SLogin %s %s", hx.HxS(p.RunID), hx.HxS(user)))
		obs = append(obs, obsZ(0))
		return s, nil
	}
	defer func() {
		for _, s := range sessions {
			s.p.Close()
		}
	}()
	sysUsers := []string{"", "alice", "bob", "alice", "mallory", "*"}
	nsess := 3 + g.Intn(2)
	for i := 0; i < nsess; i++ {
		u := sysUsers[g.Intn(len(sysUsers))]
		if i == 1 && g.Chance(0.5) {
			u = sessions[0].user // a second session of the same user is the normal visitor
		}
		if _, err := login(u); err != nil {
			return "", nil, err
		}
	}
	regs := map[string]*sysReg{}
	sysCaseNo++
	gate := &regGate{}
	verifhook.Install(gate.hook)
	defer verifhook.Install(nil)
	forceName := "" // the next visitor request goes to this name, correctly signed, from an allowed user's session
	regClass := func(e string) int64 {
		switch {
		case e == "":
			return 0
		case strings.Contains(e, "already exists"):
			return 1
		case strings.Contains(e, "repeated"):
			return 2
		case strings.Contains(e, "already in use"):
			return 3
		}
		return 99
	}
	liveSess := func() []*sess {
		var l []*sess
		for _, s := range sessions {
			if !s.closed {
				l = append(l, s)
			}
		}
		return l
	}
	pickSess := func() *sess { l := liveSess(); return l[g.Intn(len(l))] }
	drainStarted := func(d time.Duration) []started {
		var out []started
		deadline := time.After(d)
		for {
			select {
			case st := <-startedC:
				out = append(out, st)
			case <-deadline:
				return out
			}
		}
	}
	var cid int64
	n := 8 + g.Intn(10)
	for i := 0; i < n; i++ {
		r := g.Intn(100)
		if i < 2 {
			r = 0
		}
		race := i >= 2 && forceName == "" && ((sysCaseNo == 1 && i == 2) || g.Chance(0.05))
		if forceName != "" {
			r = 50
			if reg := regs[forceName]; reg != nil && reg.kind == "xtcp" {
				r = 90
			}
		}
		if race {
			r = 1000
		}
		switch {
		case r == 1000: // two sessions register the same free name at the same time
			var free []string
			for _, nme := range namePool {
				if _, taken := regs[nme]; !taken {
					free = append(free, nme)
				}
			}
			l := liveSess()
			if len(free) == 0 || len(l) < 2 {
				continue
			}
			name := free[g.Intn(len(free))]
			a := l[g.Intn(len(l))]
			b := a
			for b == a {
				b = l[g.Intn(len(l))]
			}
			kinds := []string{"stcp", "sudp", "xtcp"}
			ka := kinds[g.Intn(3)]
			kb := ka
			if g.Chance(0.3) {
				kb = kinds[g.Intn(3)]
			}
			ska, skb := g.sk(), g.sk()
			var allowA []string
			if g.Chance(0.5) {
				allowA = g.allow()
			}
			allowB := g.allow()
			pue, puc := g.Chance(0.5), g.Chance(0.5)
			// B passes its Exist check (the name is free) and is held before Run
			gate.arm(name)
			if err := b.p.Send(&msg.NewProxy{ProxyName: name, ProxyType: kb, Sk: skb, AllowUsers: allowB}); err != nil {
				return "", nil, err
			}
			select {
			case <-gate.blocked:
			case <-time.After(respWait):
				return "", nil, fmt.Errorf("race: the second registration did not reach the gate")
			}
			// A registers the name completely
			if err := a.p.Send(&msg.NewProxy{ProxyName: name, ProxyType: ka, Sk: ska, AllowUsers: allowA, UseEncryption: pue, UseCompression: puc}); err != nil {
				close(gate.release)
				return "", nil, err
			}
			var ra, rb *msg.NewProxyResp
			select {
			case ra = <-a.proxyRes:
			case <-time.After(respWait):
				close(gate.release)
				return "", nil, fmt.Errorf("race: no NewProxyResp for the first registration")
			}
			// now B runs: its Run (or its Add) meets the incumbent
			close(gate.release)
			select {
			case rb = <-b.proxyRes:
			case <-time.After(respWait):
				return "", nil, fmt.Errorf("race: no NewProxyResp for the held registration")
			}
			za, zb := regClass(ra.Error), regClass(rb.Error)
			if za == 0 {
				regs[name] = &sysReg{a, ka, ska, allowA, pue, puc}
				forceName = name
			}
			ops = append(ops, fmt.Sprintf("SRegister %s %s %s %s %s", hx.HxS(a.p.RunID), kindCoq(ka), hx.HxS(name), hx.HxS(ska), coqStrs(allowA)))
			obs = append(obs, obsZ(za))
			ops = append(ops, fmt.Sprintf("SRegisterLate %s %s %s %s %s", hx.HxS(b.p.RunID), kindCoq(kb), hx.HxS(name), hx.HxS(skb), coqStrs(allowB)))
			obs = append(obs, obsZ(zb))
			dist[fmt.Sprintf("sys-race:%s-vs-%s:%d:%d", ka, kb, za, zb)]++
		case r < 18: // register
			s := sessions[0]
			if g.Chance(0.3) {
				s = pickSess()
			}
			if s.closed {
				continue
			}
			kind := []string{"stcp", "stcp", "sudp", "sudp", "xtcp", "xtcp"}[g.Intn(6)]
			name, sk, allow := g.Pick(namePool), g.sk(), g.allow()
			if g.Chance(0.3) {
				allow = nil // the default: only the owner's user
			}
			pue, puc := g.Chance(0.5), g.Chance(0.5)
			if err := s.p.Send(&msg.NewProxy{ProxyName: name, ProxyType: kind, Sk: sk, AllowUsers: allow,
				UseEncryption: pue, UseCompression: puc}); err != nil {
				return "", nil, err
			}
			var resp *msg.NewProxyResp
			select {
			case resp = <-s.proxyRes:
			case <-time.After(respWait):
				return "", nil, fmt.Errorf("no NewProxyResp")
			}
			z := regClass(resp.Error)
			if z == 0 {
				regs[name] = &sysReg{s, kind, sk, allow, pue, puc}
			}
			ops = append(ops, fmt.Sprintf("SRegister %s %s %s %s %s", hx.HxS(s.p.RunID), kindCoq(kind), hx.HxS(name), hx.HxS(sk), coqStrs(allow)))
			obs = append(obs, obsZ(z))
			dist[fmt.Sprintf("sys-register:%s:%d", kind, z)]++
		case r < 25: // close proxy (by its owner mostly, sometimes by somebody else)
			name := g.liveName(regNames(regs))
			s := pickSess()
			if reg, ok := regs[name]; ok && g.Chance(0.7) {
				s = reg.owner
			}
			if s.closed {
				continue
			}
			_ = s.p.CloseProxy(name)
			if !s.sync() {
				return "", nil, fmt.Errorf("no pong after CloseProxy")
			}
			if reg, ok := regs[name]; ok && reg.owner == s {
				delete(regs, name)
			}
			ops = append(ops, fmt.Sprintf("SClose %s %s", hx.HxS(s.p.RunID), hx.HxS(name)))
			obs = append(obs, obsZ(0))
			dist["sys-close"]++
		case r < 29: // a session ends (not the last one)
			l := liveSess()
			if len(l) < 3 {
				continue
			}
			s := l[g.Intn(len(l))]
			s.closed = true
			s.p.Close()
			gone := false
			for k := 0; k < 400; k++ {
				if !srv.Svc.VerifC08HasSession(s.p.RunID) {
					gone = true
					break
				}
				time.Sleep(5 * time.Millisecond)
			}
			if !gone {
				return "", nil, fmt.Errorf("session did not end")
			}
			for nme, reg := range regs {
				if reg.owner == s {
					delete(regs, nme)
				}
			}
			ops = append(ops, fmt.Sprintf("SLogout %s", hx.HxS(s.p.RunID)))
			obs = append(obs, obsZ(0))
			dist["sys-logout"]++
		case r < 70: // stream visitor connection
			name := g.liveName(regNamesOf(regs, g.Chance(0.85), false))
			forced := forceName != ""
			if forced {
				name, forceName = forceName, ""
			}
			reg := regs[name]
			ts := g.ts()
			ht.addTs(ts)
			realSk := g.sk()
			var allow []string
			if reg != nil {
				realSk = reg.sk
				allow = reg.allow
				if len(allow) == 0 {
					allow = []string{reg.owner.user}
				}
			}
			sign, kind := g.sign(realSk, ts, 0.75)
			if forced {
				sign, kind = util.GetAuthKey(realSk, ts), "right"
			}
			// whose run id the message carries
			rid, ridKind := "", "empty"
			x := g.Intn(10)
			if forced {
				x = 9
			}
			switch {
			case x < 2:
			case x < 3:
				rid, ridKind = "no-such-run-id", "unknown"
			default:
				var cand []*sess
				for _, s := range liveSess() {
					if (!forced && g.Chance(0.5)) || contains(allow, s.user) || (forced && contains(allow, "*")) {
						cand = append(cand, s)
					}
				}
				if len(cand) == 0 {
					cand = liveSess()
				}
				rid, ridKind = cand[g.Intn(len(cand))].p.RunID, "session"
			}
			vue, vuc := g.Chance(0.5), g.Chance(0.5)
			cid++
			before := 0
			for _, s := range sessions {
				before += s.reqCount()
			}
			vc, err := srv.Dial()
			if err != nil {
				return "", nil, err
			}
			_ = msg.WriteMsg(vc, &msg.NewVisitorConn{RunID: rid, ProxyName: name, SignKey: sign, Timestamp: ts,
				UseEncryption: vue, UseCompression: vuc})
			var resp msg.NewVisitorConnResp
			_ = vc.SetReadDeadline(time.Now().Add(respWait))
			if err := msg.ReadMsgInto(vc, &resp); err != nil {
				vc.Close()
				return "", nil, fmt.Errorf("no NewVisitorConnResp: %v", err)
			}
			_ = vc.SetReadDeadline(time.Time{})
			z := vmErrTextClass(resp.Error)
			opText := fmt.Sprintf("SVisitorConn %s %s %s %s %s %s %s true", hx.HxS(rid), hx.HxS(name), hx.Z(ts), hx.HxS(sign),
				hx.Bool(vue), hx.Bool(vuc), hx.Z(cid))
			ops = append(ops, opText)
			obs = append(obs, obsZ(z))
			dist[fmt.Sprintf("sys-visitor:%d:rid=%s", z, ridKind)]++
			dist["sign:"+kind]++
			if forced && z == 2 { // "custom listener ... doesn't exist" although the name has just been registered
				fail("system:incumbent-unreachable-after-refused-duplicate",
					"after a second session's registration of the same name was refused (registration race), a correctly signed visitor of an allowed user is refused by the live proxy",
					fmt.Sprintf("%s resp=%q", opText, resp.Error))
			}
			// what do the owners see?
			wait := negWait
			if z == 0 {
				wait = posWait
			}
			var sts []started
			if z == 0 {
				select {
				case st := <-startedC:
					sts = append(sts, st)
					sts = append(sts, drainStarted(2*time.Millisecond)...)
				case <-time.After(wait):
				}
			} else {
				sts = drainStarted(wait)
			}
			after := 0
			for _, s := range sessions {
				after += s.reqCount()
			}
			acc := obsAccept(-1, false, false, "", true)
			if len(sts) > 0 {
				st := sts[0]
				ok := reg != nil && st.m.ProxyName == name && st.s == reg.owner && len(sts) == 1
				tr := false
				if ok {
					mv, e1 := mirror(vc, vue, vuc, reg.sk)
					mw, e2 := mirror(st.conn, reg.pue, reg.puc, hx.DefaultToken)
					if e1 == nil && e2 == nil {
						tr = transparent(mv, mw, func(t time.Time) { _ = vc.SetDeadline(t); _ = st.conn.SetDeadline(t) }, g.Bytes(1+g.Intn(4000)))
					}
					acc = obsAccept(cid, vue, vuc, reg.sk, tr)
				} else {
					acc = obsAccept(-2, vue, vuc, "", false)
				}
				if !ok || !tr || z != 0 {
					fail("system:stream-visitor-bridged-wrongly",
						"a visitor connection reached an owner's work connection although it was refused, or reached the wrong owner/proxy, or the bridged stream is not byte-transparent",
						fmt.Sprintf("%s resp=%q started=%d proxy=%q transparent=%v", opText, resp.Error, len(sts), st.m.ProxyName, tr))
				}
				for _, x := range sts {
					x.conn.Close()
				}
				dist["sys-backend-contacted"]++
			} else if z != 0 && after != before {
				fail("system:owner-notified-on-refusal",
					"an owner session received a work-connection request for a refused visitor connection",
					fmt.Sprintf("%s resp=%q", opText, resp.Error))
			}
			vc.Close()
			ops = append(ops, fmt.Sprintf("SAccept %s", hx.HxS(name)))
			obs = append(obs, acc)
		default: // NAT-hole visitor message on a session's control channel
			name := g.liveName(regNamesOf(regs, g.Chance(0.85), true))
			forced := forceName != ""
			if forced {
				name, forceName = forceName, ""
			}
			reg := regs[name]
			ts := g.ts()
			ht.addTs(ts)
			realSk := g.sk()
			var allow []string
			if reg != nil {
				realSk = reg.sk
				allow = reg.allow
				if len(allow) == 0 {
					allow = []string{reg.owner.user}
				}
			}
			sign, kind := g.sign(realSk, ts, 0.75)
			if forced {
				sign, kind = util.GetAuthKey(realSk, ts), "right"
			}
			var cand []*sess
			for _, s := range liveSess() {
				if (!forced && g.Chance(0.4)) || contains(allow, s.user) || (forced && contains(allow, "*")) {
					cand = append(cand, s)
				}
			}
			if len(cand) == 0 {
				cand = liveSess()
			}
			vs := cand[g.Intn(len(cand))]
			pre := g.Chance(0.35) && !forced
			before := 0
			for _, s := range sessions {
				before += s.reqCount()
			}
			if err := vs.p.Send(&msg.NatHoleVisitor{TransactionID: "tx", ProxyName: name, PreCheck: pre, Protocol: "quic",
				SignKey: sign, Timestamp: ts}); err != nil {
				return "", nil, err
			}
			resp := int64(9)
			var sts []started
			select {
			case r := <-vs.nhResp:
				resp = nhErrClass(r.Error)
				if r.Sid != "" {
					resp = 98
				}
				sts = drainStarted(negWait)
			case st := <-startedC:
				sts = append(sts, st)
				sts = append(sts, drainStarted(2*time.Millisecond)...)
				select {
				case r := <-vs.nhResp:
					resp = 90 + nhErrClass(r.Error)
				case <-time.After(negWait):
				}
			case <-time.After(posWait):
			}
			after := 0
			for _, s := range sessions {
				after += s.reqCount()
			}
			notified, ownerName, sid := false, "", ""
			others := int64(0)
			for k, st := range sts {
				var sm msg.NatHoleSid
				_ = st.conn.SetReadDeadline(time.Now().Add(respWait))
				e := msg.ReadMsgInto(st.conn, &sm)
				st.conn.Close()
				if k == 0 && e == nil && reg != nil && st.s == reg.owner {
					notified, ownerName, sid = true, st.m.ProxyName, sm.Sid
				} else {
					others++
				}
			}
			if !notified && after != before {
				others++
			}
			opText := fmt.Sprintf("SNatHole %s %s %s %s %s %s true", hx.HxS(vs.p.RunID), hx.HxS(name), hx.Z(ts), hx.HxS(sign), hx.Bool(pre), hx.HxS(sid))
			ops = append(ops, opText)
			obs = append(obs, obsNh(resp, notified, ownerName, sid, others, -1, -1))
			dist[fmt.Sprintf("sys-nathole:pre=%v:resp=%d:notified=%v", pre, resp, notified)]++
			dist["sign:"+kind]++
			if forced && !notified && resp == 1 { // "xtcp server ... doesn't exist"
				fail("system:incumbent-unreachable-after-refused-duplicate",
					"after a second session's registration of the same name was refused (registration race), a correctly signed NAT-hole request of an allowed user is refused by the live xtcp proxy",
					fmt.Sprintf("%s resp=%d", opText, resp))
			}
			if notified {
				ops = append(ops, fmt.Sprintf("SSessionEnd %s", hx.HxS(sid)))
				obs = append(obs, obsZ(0))
				if pre || kind != "right" || !(contains(allow, vs.user) || contains(allow, "*")) {
					fail("system:nathole-owner-notified-without-key-or-user",
						"the owner of an xtcp proxy received a sid for a pre-check, a wrongly signed request or a user outside allowUsers",
						fmt.Sprintf("%s visitor-user=%q allow=%q", opText, vs.user, allow))
				}
			} else if others > 0 {
				fail("system:nathole-owner-notified-on-refusal",
					"an owner session was contacted for a refused or pre-check NAT-hole request",
					fmt.Sprintf("%s resp=%d", opText, resp))
			}
		}
	}
	return fmt.Sprintf("CSys %s %s %s", ht.coq(), hx.List(ops), hx.List(obs)), fails, nil
}

func contains(l []string, x string) bool {
	for _, y := range l {
		if y == x {
			return true
		}
	}
	return false
}

// regNamesOf: the registered names, restricted (when filter is set) to xtcp proxies (hole) or stcp/sudp proxies
func regNamesOf(regs map[string]*sysReg, filter, hole bool) map[string]string {
	m := map[string]string{}
	for k, r := range regs {
		if !filter || (r.kind == "xtcp") == hole {
			m[k] = ""
		}
	}
	return m
}

func regNames(regs map[string]*sysReg) map[string]string {
	m := map[string]string{}
	for k := range regs {
		m[k] = ""
	}
	return m
}

// ---- (iv) real frpc owner + real frpc visitor ----

func boolsOf(i int) (bool, bool) { return i&2 != 0, i&1 != 0 }

// cliFile renders the configuration FILE of a real frpc (toml or legacy ini) and starts the client from it through
// the real loader, so that every value on the visitor path (secret key, flags, server name and user, tcpMux) comes
// out of the format under test.
type cliFile struct {
	format string
	body   strings.Builder
}

func newCliFile(format, user string, srv *hx.Server) *cliFile {
	c := &cliFile{format: format}
	mux := *srv.Cfg.Transport.TCPMux
	if format == "ini" {
		fmt.Fprintf(&c.body, "[common]\nserver_addr = %s\nserver_port = %d\ntoken = %s\nuser = %s\nlogin_fail_exit = false\ntcp_mux = %v\ntls_enable = false\n\n",
			srv.Addr, srv.Port, srv.Cfg.Auth.Token, user, mux)
	} else {
		fmt.Fprintf(&c.body, "serverAddr = %q\nserverPort = %d\nuser = %q\nloginFailExit = false\nauth.token = %q\ntransport.tcpMux = %v\ntransport.tls.enable = false\n\n",
			srv.Addr, srv.Port, user, srv.Cfg.Auth.Token, mux)
	}
	return c
}

func (c *cliFile) proxy(name, sk, ip string, port int, ue, uc bool) {
	if c.format == "ini" {
		fmt.Fprintf(&c.body, "[%s]\ntype = stcp\nsk = %s\nlocal_ip = %s\nlocal_port = %d\nuse_encryption = %v\nuse_compression = %v\n\n", name, sk, ip, port, ue, uc)
	} else {
		fmt.Fprintf(&c.body, "[[proxies]]\nname = %q\ntype = \"stcp\"\nsecretKey = %q\nlocalIP = %q\nlocalPort = %d\ntransport.useEncryption = %v\ntransport.useCompression = %v\n\n", name, sk, ip, port, ue, uc)
	}
}

func (c *cliFile) visitor(name, serverName, serverUser, sk, bindAddr string, bindPort int, ue, uc bool) {
	if c.format == "ini" {
		fmt.Fprintf(&c.body, "[%s]\ntype = stcp\nrole = visitor\nserver_name = %s\nserver_user = %s\nsk = %s\nbind_addr = %s\nbind_port = %d\nuse_encryption = %v\nuse_compression = %v\n\n",
			name, serverName, serverUser, sk, bindAddr, bindPort, ue, uc)
	} else {
		fmt.Fprintf(&c.body, "[[visitors]]\nname = %q\ntype = \"stcp\"\nserverName = %q\nserverUser = %q\nsecretKey = %q\nbindAddr = %q\nbindPort = %d\ntransport.useEncryption = %v\ntransport.useCompression = %v\n\n",
			name, serverName, serverUser, sk, bindAddr, bindPort, ue, uc)
	}
}

type loadedClient struct {
	svc    *client.Service
	cancel context.CancelFunc
}

func (l *loadedClient) Close() { l.cancel(); l.svc.Close() }

func (l *loadedClient) waitRunning(name string, d time.Duration) bool {
	deadline := time.Now().Add(d)
	for time.Now().Before(deadline) {
		if st, ok := l.svc.StatusExporter().GetProxyStatus(name); ok && st.Phase == "running" {
			return true
		}
		time.Sleep(10 * time.Millisecond)
	}
	return false
}

var c08WorkDir = os.TempDir()
var cliFileNo int

func (c *cliFile) start() (*loadedClient, error) {
	cliFileNo++
	ext := "toml"
	if c.format == "ini" {
		ext = "ini"
	}
	path := filepath.Join(c08WorkDir, fmt.Sprintf("c08_frpc_%d.%s", cliFileNo, ext))
	if err := os.WriteFile(path, []byte(c.body.String()), 0o644); err != nil {
		return nil, err
	}
	defer os.Remove(path)
	cc, pcs, vcs, _, err := config.LoadClientConfig(path, c.format != "ini")
	if err != nil {
		return nil, fmt.Errorf("load %s: %v", path, err)
	}
	svc, err := client.NewService(client.ServiceOptions{Common: cc, ProxyCfgs: pcs, VisitorCfgs: vcs})
	if err != nil {
		return nil, err
	}
	ctx, cancel := context.WithCancel(context.Background())
	go func() { _ = svc.Run(ctx) }()
	return &loadedClient{svc, cancel}, nil
}

// realTransparency: owner frpc and visitor frpcs are real clients started from configuration files of the given
// format; tcpMux as given (both values of the default-on switch are exercised over the two passes).
func realTransparency(g *gen, dist map[string]int, add func(string, []map[string]string), format string, mux bool) error {
	srv, err := hx.StartServer(realAddr, func(c *v1.ServerConfig) { m := mux; c.Transport.TCPMux = &m })
	if err != nil {
		return err
	}
	defer srv.Close()
	echo, err := hx.StartEcho(realAddr, "")
	if err != nil {
		return err
	}
	defer echo.Close()
	const sk = "e2e-secret"
	of := newCliFile(format, "own", srv)
	for p := 0; p < 4; p++ {
		ue, uc := boolsOf(p)
		of.proxy(fmt.Sprintf("e2e%d", p), sk, realAddr, echo.Port(), ue, uc)
	}
	owner, err := of.start()
	if err != nil {
		return err
	}
	defer owner.Close()
	for p := 0; p < 4; p++ {
		if !owner.waitRunning(fmt.Sprintf("own.e2e%d", p), respWait) {
			return fmt.Errorf("real owner proxy e2e%d (%s configuration) not running", p, format)
		}
	}
	type vis struct {
		port      int
		v, p      int
		wrongKey  bool
		otherUser bool
	}
	var vl []vis
	vf := newCliFile(format, "own", srv)
	mk := func(f *cliFile, name string, v, p int, key string) int {
		port := hx.FreePort(realAddr)
		ue, uc := boolsOf(v)
		f.visitor(name, fmt.Sprintf("e2e%d", p), "own", key, realAddr, port, ue, uc)
		return port
	}
	for v := 0; v < 4; v++ {
		for p := 0; p < 4; p++ {
			vl = append(vl, vis{port: mk(vf, fmt.Sprintf("v%d%d", v, p), v, p, sk), v: v, p: p})
		}
	}
	wv, wp := g.Intn(4), g.Intn(4)
	vl = append(vl, vis{port: mk(vf, "vwrong", wv, wp, sk+"x"), v: wv, p: wp, wrongKey: true})
	// same user as the owner: the default allowUsers admits it
	vcli, err := vf.start()
	if err != nil {
		return err
	}
	defer vcli.Close()
	// a visitor frpc of another user holding the right key: refused by the default allowUsers
	ov, op := g.Intn(4), g.Intn(4)
	mf := newCliFile(format, "mallory", srv)
	otherPort := mk(mf, "vother", ov, op, sk)
	ocli, err := mf.start()
	if err != nil {
		return err
	}
	defer ocli.Close()
	vl = append(vl, vis{port: otherPort, v: ov, p: op, otherUser: true})
	time.Sleep(150 * time.Millisecond) // visitors' local listeners
	for _, x := range vl {
		var c net.Conn
		before := echo.Count() // the tunnel (and the backend dial) is set up as soon as the user connects
		for k := 0; k < 50; k++ {
			c, err = net.DialTimeout("tcp", net.JoinHostPort(realAddr, fmt.Sprint(x.port)), time.Second)
			if err == nil {
				break
			}
			time.Sleep(20 * time.Millisecond)
		}
		if err != nil {
			return fmt.Errorf("visitor listener %d: %v", x.port, err)
		}
		payload := g.Bytes(1 + g.Intn(20000))
		if g.Chance(0.3) {
			payload = bytes.Repeat([]byte{byte(g.Intn(256))}, 1+g.Intn(70000)) // compressible, larger than one frame
		}
		go func() { _, _ = c.Write(payload) }()
		buf := make([]byte, len(payload))
		wait := respWait
		if x.wrongKey || x.otherUser {
			wait = 300 * time.Millisecond
		}
		_ = c.SetReadDeadline(time.Now().Add(wait))
		_, rerr := io.ReadFull(c, buf)
		ok := rerr == nil && bytes.Equal(buf, payload)
		c.Close()
		time.Sleep(5 * time.Millisecond)
		nconn := echo.Count() - before
		kind := 0
		if x.wrongKey {
			kind = 1
		} else if x.otherUser {
			kind = 2
		}
		vue, vuc := boolsOf(x.v)
		pue, puc := boolsOf(x.p)
		cs := fmt.Sprintf("CE2E %s %s %s %s %d %d %s %s %d", hx.Bool(vue), hx.Bool(vuc), hx.Bool(pue), hx.Bool(puc), kind, len(payload),
			hx.Bool(ok), hx.Bool(ok), nconn)
		var fails []map[string]string
		if kind == 0 && (!ok || nconn != 1) {
			fails = append(fails, map[string]string{"key": "e2e:admitted-stcp-stream-not-transparent",
				"what": "bytes sent through a real frpc stcp visitor and a real frpc owner did not come back unchanged from the echo backend (or the backend was not contacted exactly once)",
				"case": cs})
		}
		if kind != 0 && (ok || nconn != 0) {
			fails = append(fails, map[string]string{"key": "e2e:refused-visitor-reached-backend",
				"what": "a real frpc visitor with a wrong key or a user outside the default allowUsers reached the owner's backend",
				"case": cs})
		}
		dist[fmt.Sprintf("e2e:%s:mux=%v:kind=%d:ok=%v:backend=%d", format, mux, kind, ok, nconn)]++
		add(cs, fails)
	}
	return nil
}

func systemCases(cfg *hx.RunCfg, g *gen, n int, dist map[string]int, add func(string, []map[string]string)) error {
	_ = util.GetAuthKey
	for i := 0; i < n; i++ {
		c, f, err := systemCase(g, dist)
		if err != nil {
			return fmt.Errorf("system case %d: %v", i, err)
		}
		add(c, f)
	}
	{
		c, f, err := pluginCase(g, dist)
		if err != nil {
			return fmt.Errorf("login plugin case: %v", err)
		}
		add(c, f)
	}
	if err := realTransparency(g, dist, add, "toml", false); err != nil {
		return fmt.Errorf("real frpc (toml, tcpMux off): %v", err)
	}
	if err := realTransparency(g, dist, add, "ini", true); err != nil {
		return fmt.Errorf("real frpc (legacy ini, tcpMux on): %v", err)
	}
	if err := cfgCases(cfg, g, dist, add); err != nil {
		return fmt.Errorf("config cases: %v", err)
	}
	if err := xtcpCases(g, dist, add); err != nil {
		return fmt.Errorf("xtcp cases: %v", err)
	}
	if err := firstCases(dist, add); err != nil {
		return fmt.Errorf("speaks-first cases: %v", err)
	}
	return nil
}
