#!/usr/bin/env python3
"""Writes MANIFEST.json from the table below (kept in one place so it stays valid)."""
import json
import os
import subprocess

V = os.path.dirname(os.path.dirname(os.path.abspath(__file__)))

import sys
sys.path.insert(0, os.path.dirname(os.path.abspath(__file__)))
from props import MANIFESTS as _ALL  # noqa: E402
_claimed = {l.strip() for l in open(os.path.join(os.path.dirname(os.path.abspath(__file__)), 'claimed.txt')) if l.strip() and not l.startswith('#')}
CHECKS = {k: v for k, v in _ALL.items() if k in _claimed}
from notapplicable import NOT_APPLICABLE  # noqa: E402



def main():
    hooks_commits = []
    try:
        out = subprocess.run(["git", "-C", "/repo", "log", "--format=%H %s"], stdout=subprocess.PIPE).stdout.decode()
        for l in out.splitlines():
            h, s = l.split(" ", 1)
            if s.startswith("verif-hook:"):
                hooks_commits.append(h)
    except Exception:
        pass
    m = dict(
        version=1,
        setup_cmd="bin/setup",
        hooks=dict(guard="verif (Go build tag)", enable="go build -tags verif (bin/mkharness builds the harness against /repo with the tag on)",
                   baseline_off_cmd="cd /repo && GOFLAGS=-mod=mod GOPROXY=off GOSUMDB=off go test -vet=off -count=1 -timeout 25m ./...",
                   source_commits=hooks_commits, add_only=True),
        engines=[dict(name="coq-model", path="coq/", serves_properties=sorted(CHECKS), kind_free_text="Coq 8.16.1 models, proofs, reflective checkers, vm_compute case evaluation"),
                 dict(name="translator", path="translator/", serves_properties=sorted(CHECKS), kind_free_text="Go go/ast translator regenerating coq/gen/*.v from /repo on every run"),
                 dict(name="harness", path="harness/", serves_properties=sorted(CHECKS), kind_free_text="Go correspondence drivers running real frp code (build tag verif)")],
        checks=[],
        notes="All checks: bin/check <id> [--tier quick|thorough]; see DESIGN.md.",
        not_applicable=NOT_APPLICABLE,
    )
    for pid in sorted(CHECKS):
        c = CHECKS[pid]
        m["checks"].append(dict(
            property_id=pid,
            quick_cmd="bin/check %s --tier quick" % pid,
            thorough_cmd="bin/check %s --tier thorough" % pid,
            evidence_file="evidence/%s.json" % pid,
            replay_cmd_template="bin/check %s --replay {path}" % pid,
            engine="coq-model",
            level_claimed=dict(category="proof", text=c["text"], design_ref="DESIGN.md section " + c["design"]),
            level_note=c["note"],
            technique=c["technique"]))
    json.dump(m, open(os.path.join(V, "MANIFEST.json"), "w"), indent=1)


if __name__ == "__main__":
    main()
