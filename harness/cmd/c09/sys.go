package main

// Driver "portsys" (C09): an in-process frps (server.NewService) on 127.0.9.2 with allowPorts and
// maxPortsPerClient set, and scripted clients speaking pkg/msg: register / close tcp, udp, grouped and
// port-less (stcp) proxies from several sessions, duplicate names, over-quota and refused
// registrations, session ends, the late second Close of a udp proxy, a squatter.  Observables:
// NewProxyResp.RemoteAddr / Error, both port managers' tables, the group table, bind scans.

import (
	"fmt"
	"sort"
	"strings"
	"time"

	"github.com/fatedier/frp/pkg/config/types"
	v1 "github.com/fatedier/frp/pkg/config/v1"
	"github.com/fatedier/frp/pkg/msg"
	"github.com/fatedier/frp/server/controller"

	"verifharness/hx"
)

func init() { drivers["portsys"] = runSys }


func respCode(r *msg.NewProxyResp) int {
	e := r.Error
	switch {
	case e == "":
		if r.RemoteAddr == "" {
			return 0
		}
		return remotePort(r.RemoteAddr)
	case strings.Contains(e, "listen tcp"), strings.Contains(e, "listen udp"):
		return -5
	case strings.Contains(e, "exceed the max_ports_per_client"):
		return -10
	case strings.Contains(e, "already exists"), strings.Contains(e, "already in use"):
		return -11
	case strings.Contains(e, "port already used"):
		return -1
	case strings.Contains(e, "port not allowed"):
		return -2
	case strings.Contains(e, "port unavailable"):
		return -3
	case strings.Contains(e, "no available port"):
		return -4
	case strings.Contains(e, "group params invalid"):
		return -6
	case strings.Contains(e, "group should have same remote port"):
		return -7
	case strings.Contains(e, "group auth failed"):
		return -8
	}
	return -98
}

type sysProxy struct {
	name, kind string
	port       int
	sid        int
	closer     interface{ Close() }
	regIdx     int
}

type sysWorld struct {
	s     *hx.Server
	rc    *controller.ResourceController
	pw    *pxyWorld // reuses observe(): managers, squatters, allowed ports
	peers map[int]*hx.Peer
	live  map[int]map[string]*sysProxy // session -> name -> proxy
	regs  []*sysProxy                  // successful registrations in order
}

func (w *sysWorld) sync(p *hx.Peer) error {
	if err := p.Ping(true); err != nil {
		return err
	}
	_, err := p.RecvUntil(3*time.Second, func(m msg.Message) bool { _, ok := m.(*msg.Pong); return ok })
	return err
}

func (w *sysWorld) usedHas(kind string, port int) bool {
	m := w.rc.TCPPortManager
	if kind == "udp" {
		m = w.rc.UDPPortManager
	}
	_, u, _ := m.VerifSnapshot()
	_, ok := u[port]
	return ok
}

func runSys(cfg *hx.RunCfg) error {
	hx.Quiet()
	g := hx.NewGen(cfg.Seed*15485863 + 9)
	cf := &hx.CaseFile{Imports: coqImports, Typ: "case"}
	dist := map[string]int{}
	failures := []map[string]string{}
	seen := map[string]bool{}
	nontrivial := 0
	samples := []string{}
	names := []string{"pa", "pb", "pc", "pd", "pe", "pf"}

	for ci := 0; ci < cfg.N; ci++ {
		k := 3 + g.Intn(5)
		ranges := []types.PortsRange{{Start: basePort + 20, End: basePort + 20 + k}}
		maxp := []int{0, 1, 2, 2, 3}[g.Intn(5)]
		if ci == 0 {
			maxp = 0
		} else if ci == 1 {
			maxp = 2
		}
		srv, err := hx.StartServer(loopB, func(c *v1.ServerConfig) {
			c.AllowPorts = ranges
			c.MaxPortsPerClient = int64(maxp)
		})
		if err != nil {
			return err
		}
		rc := srv.Svc.VerifResourceController()
		w := &sysWorld{s: srv, rc: rc, peers: map[int]*hx.Peer{}, live: map[int]map[string]*sysProxy{}}
		w.pw = &pxyWorld{rc: rc, tcpSq: newSquatter("tcp", loopB), udpSq: newSquatter("udp", loopB)}
		w.pw.allow = takeSnap(rc.TCPPortManager).allPorts()
		observe := func(res int) string { return w.pw.observeOn(loopB, res) }
		steps := []string{}
		oks := 0
		nextSid := 1
		login := func() bool {
			p, resp, err := srv.Login(hx.LoginOpts{RunID: fmt.Sprintf("c09-%d-%d", ci, nextSid)})
			if err != nil || p == nil {
				failures = append(failures, map[string]string{"key": "sys-login-failed", "what": "scripted login failed", "case": fmt.Sprint(err, resp)})
				return false
			}
			w.peers[nextSid] = p
			w.live[nextSid] = map[string]*sysProxy{}
			steps = append(steps, fmt.Sprintf("(SLogin %d, %s)", nextSid, observe(-100)))
			nextSid++
			return true
		}
		login()
		login()
		lastGranted := map[string]int{} // "kind/name" -> port of the name's last successful registration
		abort := false
		doNew := func(sid int, q pxyReq) {
			p := w.peers[sid]
			np := &msg.NewProxy{ProxyName: q.name, ProxyType: q.kind, RemotePort: q.port, Group: q.group, GroupKey: q.gkey}
			if q.kind == "stcp" {
				np.Sk = "sk"
			}
			// "gets its previous port back when that port is still free": what the client may expect
			expect := -1
			if (q.kind == "tcp" || q.kind == "udp") && q.port == 0 && q.group == "" {
				if lp, ok := lastGranted[q.kind+"/"+q.name]; ok {
					m, sq := rc.TCPPortManager, w.pw.tcpSq
					if q.kind == "udp" {
						m, sq = rc.UDPPortManager, w.pw.udpSq
					}
					free := false
					for _, f := range takeSnap(m).free {
						if f == lp {
							free = true
						}
					}
					if _, held := sq.held[lp]; free && !held && len(osBusy(q.kind, loopB, []int{lp})) == 0 {
						expect = lp
					}
				}
			}
			joining := false
			if q.group != "" {
				if gs, ok := rc.TCPGroupCtl.VerifSnapshot()[q.group]; ok && gs.Members > 0 {
					joining = true
				}
			}
			resp, err := p.NewProxy(np)
			if err != nil {
				failures = append(failures, map[string]string{"key": "sys-no-response", "what": "no NewProxyResp", "case": fmt.Sprint(err)})
				abort = true
				return
			}
			res := respCode(resp)
			choice := "None"
			if res > 0 {
				choice = fmt.Sprintf("(Some %d)", res)
			}
			if res == -98 {
				failures = append(failures, map[string]string{"key": "sys-unknown-error", "what": "NewProxyResp.Error not classified", "case": resp.Error})
			}
			if res >= 0 {
				oks++
				sp := &sysProxy{name: q.name, kind: q.kind, port: res, sid: sid, regIdx: len(w.regs)}
				if c, ok := srv.Svc.VerifProxyCloser(q.name); ok {
					sp.closer = c
				}
				w.regs = append(w.regs, sp)
				w.live[sid][q.name] = sp
				dist["new:"+q.kind+":ok"]++
				if q.kind != "stcp" && !joining {
					lastGranted[q.kind+"/"+q.name] = res
				}
				if expect > 0 {
					dist["same-port-back-expected"]++
					if res != expect {
						failures = append(failures, map[string]string{"key": "previous-port-not-returned",
							"what": "a proxy asking for a server-chosen port did not get its previous port back although that port was free and bindable",
							"case": fmt.Sprintf("name=%s previous=%d got=%d steps=%s", q.name, expect, res, strings.Join(steps, "; "))})
					}
				}
				// quota as the client can count it: distinct public ports the session holds
				held := map[string]bool{}
				n := 0
				for _, lp := range w.live[sid] {
					if lp.kind != "stcp" {
						n++
						held[fmt.Sprintf("%s/%d", lp.kind, lp.port)] = true
					}
				}
				if maxp > 0 && len(held) > maxp {
					failures = append(failures, map[string]string{"key": "quota-exceeded", "what": "a session holds more distinct public ports than maxPortsPerClient",
						"case": fmt.Sprintf("max=%d distinct ports held=%d (proxies %d) steps=%s", maxp, len(held), n, strings.Join(steps, "; "))})
				}
			} else {
				dist[fmt.Sprintf("new:%s:%d", q.kind, res)]++
			}
			steps = append(steps, fmt.Sprintf("(SNew %d %s, %s)", sid, coqReq(q, choice, true), observe(res)))
		}
		doClose := func(sid int, name string) {
			p := w.peers[sid]
			if err := p.CloseProxy(name); err != nil || w.sync(p) != nil {
				failures = append(failures, map[string]string{"key": "sys-close-failed", "what": "CloseProxy/Ping round trip failed", "case": name})
				abort = true
				return
			}
			if _, ok := w.live[sid][name]; ok {
				dist["close:own"]++
			} else {
				dist["close:unknown"]++
			}
			delete(w.live[sid], name)
			steps = append(steps, fmt.Sprintf("(SClose %d %s, %s)", sid, hx.Str(name), observe(-100)))
		}
		// scripted histories the property text singles out, replayed first in every run
		if ci == 0 {
			// server-chosen port, a refused duplicate of the same name (same and other session), close, same port back
			doNew(1, pxyReq{kind: "tcp", name: "web", port: 0})
			doNew(2, pxyReq{kind: "tcp", name: "web", port: 0})
			doNew(1, pxyReq{kind: "tcp", name: "web", port: basePort + 22})
			doNew(1, pxyReq{kind: "udp", name: "dns", port: 0})
			doNew(2, pxyReq{kind: "udp", name: "dns", port: 0})
			doClose(1, "web")
			doClose(1, "dns")
			doNew(1, pxyReq{kind: "tcp", name: "web", port: 0})
			doNew(2, pxyReq{kind: "udp", name: "dns", port: 0})
		} else if ci == 1 {
			// quota 2: grouped tcp proxies in distinct groups are charged like any other proxy
			doNew(1, pxyReq{kind: "tcp", name: "g-a", port: 0, group: "ga", gkey: "k"})
			doNew(1, pxyReq{kind: "tcp", name: "g-b", port: 0, group: "gb", gkey: "k"})
			doNew(1, pxyReq{kind: "tcp", name: "g-c", port: 0, group: "gc", gkey: "k"})
			doNew(1, pxyReq{kind: "tcp", name: "g-d", port: 0, group: "ga", gkey: "k"})
			doClose(1, "g-a")
			doNew(1, pxyReq{kind: "tcp", name: "g-c", port: 0, group: "gc", gkey: "k"})
			doNew(1, pxyReq{kind: "tcp", name: "g-e", port: 0, group: "ge", gkey: "k"})
		}
		nops := 10 + g.Intn(18)
		for oi := 0; oi < nops && len(w.peers) > 0 && !abort; oi++ {
			sids := []int{}
			for s := range w.peers {
				sids = append(sids, s)
			}
			sort.Ints(sids)
			sid := sids[g.Intn(len(sids))]
			p := w.peers[sid]
			x := g.Intn(100)
			switch {
			case x < 55:
				ts := takeSnap(rc.TCPPortManager)
				us := takeSnap(rc.UDPPortManager)
				usedT, usedU := []int{}, []int{}
				for q := range ts.used {
					usedT = append(usedT, q)
				}
				for q := range us.used {
					usedU = append(usedU, q)
				}
				sort.Ints(usedT)
				sort.Ints(usedU)
				q := genReq(g, w.pw.allow, usedT, usedU)
				q.bad = false
				q.name = names[g.Intn(len(names))]
				if g.Chance(0.12) {
					q.kind, q.group, q.gkey, q.port = "stcp", "", "", 0
				}
				doNew(sid, q)
			case x < 75:
				var name string
				if len(w.live[sid]) > 0 && g.Chance(0.8) {
					ns := []string{}
					for n := range w.live[sid] {
						ns = append(ns, n)
					}
					sort.Strings(ns)
					name = ns[g.Intn(len(ns))]
				} else {
					name = names[g.Intn(len(names))]
				}
				doClose(sid, name)
			case x < 82:
				p.Close()
				// wait for the teardown loop of Control.worker: it closes each proxy and then removes its
				// name from the proxy manager, so "no name of the session is registered" means it is done
				for i := 0; i < 600; i++ {
					left := false
					for n := range w.live[sid] {
						if _, ok := srv.Svc.VerifProxyCloser(n); ok {
							left = true
						}
					}
					if !left {
						break
					}
					time.Sleep(5 * time.Millisecond)
				}
				time.Sleep(2 * time.Millisecond)
				delete(w.peers, sid)
				delete(w.live, sid)
				dist["session-end"]++
				steps = append(steps, fmt.Sprintf("(SEnd %d, %s)", sid, observe(-100)))
				if g.Chance(0.7) {
					login()
				}
			case x < 90:
				// late second Close of a udp proxy that was registered earlier (closed or not)
				cands := []*sysProxy{}
				for _, r := range w.regs {
					if r.kind == "udp" && r.closer != nil {
						cands = append(cands, r)
					}
				}
				if len(cands) == 0 {
					continue
				}
				r := cands[g.Intn(len(cands))]
				r.closer.Close()
				dist["late-close"]++
				steps = append(steps, fmt.Sprintf("(SLate %d, %s)", r.regIdx, observe(-100)))
			case x < 96:
				proto := g.Intn(2)
				port := w.pw.allow[g.Intn(len(w.pw.allow))]
				sq := w.pw.tcpSq
				if proto == 1 {
					sq = w.pw.udpSq
				}
				if !sq.squat(port) {
					continue
				}
				dist["squat"]++
				steps = append(steps, fmt.Sprintf("(SSquat %d %d, %s)", proto, port, observe(-100)))
			default:
				proto := g.Intn(2)
				port := w.pw.allow[g.Intn(len(w.pw.allow))]
				sq := w.pw.tcpSq
				if proto == 1 {
					sq = w.pw.udpSq
				}
				sq.unsquat(port)
				steps = append(steps, fmt.Sprintf("(SUnsquat %d %d, %s)", proto, port, observe(-100)))
			}
		}
		for _, p := range w.peers {
			p.Close()
		}
		w.pw.tcpSq.closeAll()
		w.pw.udpSq.closeAll()
		srv.Close()
		// everything must be gone before the next history reuses the range
		for i := 0; i < 200; i++ {
			if len(osBusy("tcp", loopB, w.pw.allow)) == 0 && len(osBusy("udp", loopB, w.pw.allow)) == 0 {
				break
			}
			time.Sleep(5 * time.Millisecond)
		}
		if b := append(osBusy("tcp", loopB, w.pw.allow), osBusy("udp", loopB, w.pw.allow)...); len(b) > 0 {
			failures = append(failures, map[string]string{"key": "sys-leak-after-shutdown", "what": "ports still bound after every session ended", "case": fmt.Sprint(b)})
		}
		c := fmt.Sprintf("CSys %s %d %s", coqRanges(ranges), maxp, hx.List(steps))
		cf.Cases = append(cf.Cases, c)
		if !seen[c] {
			seen[c] = true
			if oks > 0 {
				nontrivial++
			}
		}
		if len(samples) < 2 {
			samples = append(samples, c)
		}
	}
	cf.Tail = coqTail(map[string]int{"NY_QUOTA_REFUSED": 51, "NY_EXISTS_REFUSED": 52, "NY_REGISTERED": 53, "NY_RUN_REFUSED": 54,
		"NY_CLOSE_OWN": 55, "NY_CLOSE_UNKNOWN": 56, "NY_SESSION_END": 57, "NY_LATE_CLOSE": 58})
	cfg.St["cases"] = len(cf.Cases)
	cfg.St["distinct_nontrivial"] = nontrivial
	cfg.St["samples"] = samples
	cfg.St["distribution"] = dist
	cfg.St["impl_failures"] = failures
	return cf.Write(cfg.Out)
}
