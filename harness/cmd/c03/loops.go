package main

// Parts "replyloop", "alphabet" and "heartbeat":
//   replyloop  the reply goroutine of the real udp.ForwardUserConn must survive a WriteToUDP that the OS refuses
//              (a reply addressed to UDP port 0, a reply with a nil address) — Model/UdpLoops.v rl_run
//   alphabet   a scripted frpc: what the real frps writes on a udp work connection after it was sent a Ping and
//              user datagrams arrived must be UDPPackets only — Model/UdpLoops.v cli_blind_read
//   heartbeat  real frps + real frpc, udp proxy, the work connection lives across frpc's 30 s heartbeat (runs in the
//              background of the other parts): everything the backend receives was sent by a user

import (
	"fmt"
	"net"
	"os"
	"os/exec"
	"strings"
	"time"

	v1 "github.com/fatedier/frp/pkg/config/v1"
	"github.com/fatedier/frp/pkg/msg"
	"github.com/fatedier/frp/pkg/proto/udp"
	"verifharness/hx"
)

func runReplyLoop(cfg *hx.RunCfg, g *hx.Gen, dist map[string]int, fails *[]failure) []string {
	w, err := newWorld(backendIP, 3)
	if err != nil {
		addFail(fails, fail("replyloop:setup", err.Error(), ""))
		return nil
	}
	defer w.close()
	r, err := newRig(w.backendAddr())
	if err != nil {
		addFail(fails, fail("replyloop:setup", err.Error(), ""))
		return nil
	}
	defer r.close()

	type rep struct {
		user int
		ok   bool
		idx  int // send index of the round trip (ok) or -1
	}
	var reps []rep
	var sends []send
	roundTrip := func(u int) {
		s := send{u, 0, mkPayload(g, u, len(sends), 8+g.Intn(60))}
		sends = append(sends, s)
		idxs := w.sendBurst(sends, len(sends)-1, r.pubAddr())
		waitUntil(2*time.Second, func() bool { return w.allDone(idxs) })
		reps = append(reps, rep{u, true, len(sends) - 1})
	}
	inject := func(u int, addr *net.UDPAddr, why string) {
		// what the work-connection reader would push for a reply to a user whose address the OS refuses
		r.srvReadCh <- udp.NewUDPPacket(xf(mkPayload(g, u, 9999, 12)), nil, addr)
		reps = append(reps, rep{u, false, -1})
		hx.CountBy(dist, "replyloop refused destination: "+why)
		time.Sleep(20 * time.Millisecond)
	}
	roundTrip(0)
	roundTrip(1)
	inject(2, &net.UDPAddr{IP: net.ParseIP(userIP(2)), Port: 0}, "udp port 0")
	roundTrip(1)
	roundTrip(0)
	inject(2, nil, "nil address")
	roundTrip(0)
	inject(2, &net.UDPAddr{IP: net.ParseIP("255.255.255.255"), Port: 9}, "broadcast without SO_BROADCAST")
	roundTrip(1)
	roundTrip(2)

	var coqReps, reached []string
	w.mu.Lock()
	stopped := -1
	for i, rp := range reps {
		got := rp.ok && w.rpSeen[rp.idx] > 0
		coqReps = append(coqReps, fmt.Sprintf("(%d, %s)", rp.user, hx.Bool(rp.ok)))
		reached = append(reached, hx.Bool(got))
		if rp.ok && !got && stopped < 0 {
			stopped = i
		}
	}
	w.mu.Unlock()
	line := fmt.Sprintf("CReplyLoop %s %s", hx.List(coqReps), hx.List(reached))
	if stopped >= 0 {
		addFail(fails, fail("replyloop:stopped", fmt.Sprintf("ForwardUserConn: reply %d (user %d, ordinary address) was never delivered after an earlier reply "+
			"could not be written to its destination: the reply goroutine does not survive a WriteToUDP error", stopped, reps[stopped].user), line))
	}
	return []string{line}
}

// driver "replybig" (run in a child process: the implementation may crash): a reply whose Content decodes to more
// bytes than the udpPacketSize of the receiving side (the two sides configure it independently; the frame is far
// below the 10 KiB bound) must be written to its user and must not disturb the next reply.
func init() { drivers["replybig"] = runReplyBigChild }

func runReplyBigChild(cfg *hx.RunCfg) error {
	hx.Quiet()
	g := hx.NewGen(cfg.Seed)
	w, err := newWorld(backendIP, 2)
	if err != nil {
		return err
	}
	defer w.close()
	r, err := newRig(w.backendAddr())
	if err != nil {
		return err
	}
	defer r.close()
	u0 := w.users[0].LocalAddr().(*net.UDPAddr)
	big := xf(mkPayload(g, 0, 0, bufSize+500+g.Intn(1000)))
	r.srvReadCh <- udp.NewUDPPacket(big, nil, u0)
	small := xf(mkPayload(g, 0, 1, 16))
	r.srvReadCh <- udp.NewUDPPacket(small, nil, u0)
	ok := waitUntil(2*time.Second, func() bool { return w.recvCounts()[0] >= 2 })
	w.mu.Lock()
	n, first := len(w.urecv[0]), 0
	if n > 0 {
		first = len(w.urecv[0][0])
	}
	w.mu.Unlock()
	fmt.Printf("REPLYBIG ok=%v received=%d first_len=%d want_len=%d\n", ok, n, first, len(big))
	return nil
}

func runReplyBig(cfg *hx.RunCfg, dist map[string]int, fails *[]failure) []string {
	cmd := exec.Command(os.Args[0], "replybig", "-seed", fmt.Sprint(cfg.Seed))
	out, err := cmd.CombinedOutput()
	s := string(out)
	var ok bool
	var n, first, want int
	if i := strings.Index(s, "REPLYBIG "); i >= 0 {
		_, _ = fmt.Sscanf(s[i:], "REPLYBIG ok=%t received=%d first_len=%d want_len=%d", &ok, &n, &first, &want)
	}
	hx.CountBy(dist, fmt.Sprintf("replybig ok=%v", ok && err == nil))
	line := fmt.Sprintf("CReplyLoop [(0, true); (0, true)] [%s; %s]", hx.Bool(n >= 1 && first == want), hx.Bool(n >= 2))
	if err != nil || !ok || first != want {
		tail := s
		if len(tail) > 600 {
			tail = tail[len(tail)-600:]
		}
		what := "ForwardUserConn: a reply longer than the local udpPacketSize (a valid frame, the peer's packet size is configured independently) "
		if strings.Contains(s, "panic:") || strings.Contains(s, "fatal error:") {
			what += "crashes the process in the reply goroutine"
		} else {
			what += "is not written to its user with its payload, or stops the next reply"
		}
		addFail(fails, fail("replyloop:long-reply", what, line+" (* child output: "+strings.ReplaceAll(tail, "*)", "* )")+" *)"))
	}
	return []string{line}
}

func typeByte(m msg.Message) int {
	switch m.(type) {
	case *msg.UDPPacket:
		return 'u'
	case *msg.Pong:
		return '4'
	case *msg.Ping:
		return 'h'
	}
	return '?'
}

func runAlphabet(cfg *hx.RunCfg, g *hx.Gen, dist map[string]int, fails *[]failure) []string {
	srvIP := "127.0.3.91"
	s, err := hx.StartServer(srvIP, nil)
	if err != nil {
		if s != nil {
			s.Close()
		}
		addFail(fails, fail("alphabet:setup", "frps: "+err.Error(), ""))
		return nil
	}
	defer s.Close()
	p, resp, err := s.Login(hx.LoginOpts{PoolCount: 0})
	if err != nil || p == nil {
		addFail(fails, fail("alphabet:setup", fmt.Sprintf("login: %v %v", err, resp), ""))
		return nil
	}
	defer p.Close()
	port := hx.FreeUDPPort(srvIP)
	npr, err := p.NewProxy(&msg.NewProxy{ProxyName: "c03alpha", ProxyType: "udp", RemotePort: port})
	if err != nil || npr.Error != "" {
		addFail(fails, fail("alphabet:setup", fmt.Sprintf("new proxy: %v %v", err, npr), ""))
		return nil
	}
	// the udp proxy asks for a work connection 500 ms after it started
	if _, err := p.RecvUntil(5*time.Second, func(m msg.Message) bool { _, ok := m.(*msg.ReqWorkConn); return ok }); err != nil {
		addFail(fails, fail("alphabet:setup", "no ReqWorkConn: "+err.Error(), ""))
		return nil
	}
	wc, err := p.WorkConn(true)
	if err != nil {
		addFail(fails, fail("alphabet:setup", "work conn: "+err.Error(), ""))
		return nil
	}
	defer wc.Close()
	var sw msg.StartWorkConn
	_ = wc.SetReadDeadline(time.Now().Add(3 * time.Second))
	if err := msg.ReadMsgInto(wc, &sw); err != nil {
		addFail(fails, fail("alphabet:setup", "no StartWorkConn: "+err.Error(), ""))
		return nil
	}
	// heartbeat, then user datagrams, then another heartbeat
	user, err := net.ListenUDP("udp", &net.UDPAddr{IP: net.ParseIP(userIP(0))})
	if err != nil {
		addFail(fails, fail("alphabet:setup", err.Error(), ""))
		return nil
	}
	defer user.Close()
	to := &net.UDPAddr{IP: net.ParseIP(srvIP), Port: port}
	n := 2 + g.Intn(3)
	_ = msg.WriteMsg(wc, &msg.Ping{})
	time.Sleep(30 * time.Millisecond)
	for i := 0; i < n; i++ {
		_, _ = user.WriteToUDP(mkPayload(g, 0, i, 8+g.Intn(20)), to)
		time.Sleep(5 * time.Millisecond)
	}
	_ = msg.WriteMsg(wc, &msg.Ping{})
	var types []string
	bad := ""
	for {
		_ = wc.SetReadDeadline(time.Now().Add(400 * time.Millisecond))
		m, err := msg.ReadMsg(wc)
		if err != nil {
			break
		}
		t := typeByte(m)
		types = append(types, fmt.Sprint(t))
		if t != 'u' && bad == "" {
			bad = fmt.Sprintf("%T", m)
		}
	}
	line := fmt.Sprintf("CAlphabet %d %s", n, hx.List(types))
	hx.CountBy(dist, fmt.Sprintf("alphabet datagrams=%d messages=%d", n, len(types)))
	if bad != "" {
		addFail(fails, fail("alphabet:non-packet-on-workconn", "frps wrote a "+bad+" on a udp work connection: frpc's reader (ReadMsgInto) decodes every message as "+
			"a UDPPacket, so the backend is handed an empty datagram nobody sent", line))
	}
	return []string{line}
}

// runHeartbeat: a udp tunnel whose work connection lives across frpc's 30 s heartbeat.
func runHeartbeat(cfg *hx.RunCfg, g *hx.Gen) ([]string, []failure) {
	var fs []failure
	srvIP := "127.0.3.92"
	s, err := hx.StartServer(srvIP, nil)
	if err != nil {
		if s != nil {
			s.Close()
		}
		return nil, []failure{fail("heartbeat:setup", "frps: "+err.Error(), "")}
	}
	defer s.Close()
	w, err := newWorld("127.0.3.4", 2)
	if err != nil {
		return nil, []failure{fail("heartbeat:setup", err.Error(), "")}
	}
	defer w.close()
	pc := &v1.UDPProxyConfig{}
	pc.Name, pc.Type = "c03hb", "udp"
	pc.LocalIP, pc.LocalPort = "127.0.3.4", w.backendAddr().Port
	pc.RemotePort = hx.FreeUDPPort(srvIP)
	c, err := s.StartClient([]v1.ProxyConfigurer{pc}, nil, nil)
	if err != nil {
		return nil, []failure{fail("heartbeat:setup", "frpc: "+err.Error(), "")}
	}
	defer c.Close()
	if !c.WaitProxyRunning("c03hb", 5*time.Second) {
		return nil, []failure{fail("heartbeat:setup", "proxy did not reach phase running", "")}
	}
	target := &net.UDPAddr{IP: net.ParseIP(srvIP), Port: pc.RemotePort}
	var sends []send
	up := false
	for t0 := time.Now(); time.Since(t0) < 10*time.Second && !up; { // recorded warm-up (phase 1)
		sends = append(sends, send{0, 1, mkPayload(g, 0, len(sends), 8+g.Intn(16))})
		idxs := w.sendBurst(sends, len(sends)-1, target)
		up = waitUntil(100*time.Millisecond, func() bool { return w.allDone(idxs) })
	}
	if !up {
		return nil, []failure{fail("heartbeat:not-established", "no datagram got through within 10 s", "")}
	}
	tUp := time.Now()
	time.Sleep(150 * time.Millisecond)
	trip := func(u int) {
		sends = append(sends, send{u, 2, mkPayload(g, u, len(sends), 8+g.Intn(40))})
		idxs := w.sendBurst(sends, len(sends)-1, target)
		waitUntil(arriveWait, func() bool { return w.allDone(idxs) })
	}
	trip(0)
	trip(1)
	// the work connection was handed to frpc before tUp: its first heartbeat is written before tUp + 30 s
	time.Sleep(time.Until(tUp.Add(31 * time.Second)))
	trip(1)
	trip(0)
	time.Sleep(50 * time.Millisecond)
	ov := w.observe(nil, nil)
	line := fmt.Sprintf("CSys 100 2 %s %s %s", coqSends(sends), ov.backend, ov.urecv)
	for _, f := range dedupe(w.monitor("heartbeat", sends, false)) {
		what := f.what
		if f.key == "heartbeat:corrupt" {
			what += " (the work connection of the udp proxy lived across one 30 s heartbeat of frpc)"
		}
		fs = append(fs, fail(f.key, what, clip(line, 1500)))
	}
	return []string{line}, fs
}
