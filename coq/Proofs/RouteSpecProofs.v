(* C06 — the refinement: the route walk of getVhost/getListener over the sorted-slice table returns
   exactly the most specific matching route of the specification (Model/RouteSpec.v), after every
   history of Add/Del.  Plus the clause-by-clause corollaries. *)
From FRP Require Import Model.Router Model.RouteSpec Proofs.RouterProofs.
From Coq Require Import Lia.
Open Scope Z_scope.

(* ---------- strings.Split / strings.Join ---------- *)
Lemma rq_split1_app X S :
  rt_split1 (X ++ rt_dot :: S) = (fst (rt_split1 X), snd (rt_split1 X) ++ rt_split S).
Proof.
  induction X as [|c X IH]; simpl.
  - unfold rt_split. destruct (rt_split1 S) as [l ls]. rewrite ?rp_beqb_refl. reflexivity.
  - rewrite IH. destruct (rt_split1 X) as [l ls]. simpl. destruct (Byte.eqb c rt_dot); reflexivity.
Qed.

Lemma rq_split_app X S : rt_split (X ++ rt_dot :: S) = rt_split X ++ rt_split S.
Proof. unfold rt_split at 1 2. rewrite rq_split1_app. destruct (rt_split1 X) as [l ls]. reflexivity. Qed.

Lemma rq_split_len s : (1 <= length (rt_split s))%nat.
Proof. unfold rt_split. destruct (rt_split1 s); simpl; lia. Qed.

Lemma rq_join_split s : rt_join (rt_split s) = s.
Proof.
  unfold rt_split. induction s as [|c s IH]; [reflexivity|].
  simpl. destruct (rt_split1 s) as [l ls].
  destruct (Byte.eqb c rt_dot) eqn:E.
  - apply rp_beqb_eq in E; subst c. simpl in *. rewrite IH. reflexivity.
  - simpl in *. destruct ls; simpl in *; rewrite <- IH; reflexivity.
Qed.

Lemma rq_has_split c s : rt_has c s = true -> exists A B, s = A ++ c :: B.
Proof.
  unfold rt_has. intro H. apply existsb_exists in H as [x [Hin E]]. apply rp_beqb_eq in E; subst x.
  apply in_split in Hin. exact Hin.
Qed.

Lemma rq_has_app c a b : rt_has c (a ++ b) = rt_has c a || rt_has c b.
Proof. unfold rt_has. apply existsb_app. Qed.

Lemma rq_has_dot_split S : rt_has rt_dot S = true -> (2 <= length (rt_split S))%nat.
Proof.
  intro H. apply rq_has_split in H as [A [B ->]]. rewrite rq_split_app, app_length.
  pose proof (rq_split_len A). pose proof (rq_split_len B). lia.
Qed.

Lemma rq_join_cons l rest : rest <> [] -> rt_join (l :: rest) = l ++ rt_dot :: rt_join rest.
Proof. destruct rest; [congruence|reflexivity]. Qed.

(* lower-casing commutes with Split and Join: '.' and '*' are not letters *)
Lemma rq_lower_app a b : lower (a ++ b) = lower a ++ lower b.
Proof. apply map_app. Qed.

Lemma rq_split1_lower s :
  rt_split1 (lower s) = (lower (fst (rt_split1 s)), map lower (snd (rt_split1 s))).
Proof.
  induction s as [|c s IH]; [reflexivity|].
  simpl. rewrite IH. destruct (rt_split1 s) as [l ls]. simpl.
  rewrite rp_lower_byte_dot. destruct (Byte.eqb c rt_dot); reflexivity.
Qed.

Lemma rq_split_lower s : rt_split (lower s) = map lower (rt_split s).
Proof. unfold rt_split. rewrite rq_split1_lower. destruct (rt_split1 s); reflexivity. Qed.

Lemma rq_join_lower ls : rt_join (map lower ls) = lower (rt_join ls).
Proof.
  induction ls as [|l rest IH]; [reflexivity|].
  destruct rest as [|l2 rest]; [reflexivity|].
  change (map lower (l :: l2 :: rest)) with (lower l :: map lower (l2 :: rest)).
  rewrite !rq_join_cons by (simpl; congruence). rewrite IH, rq_lower_app. reflexivity.
Qed.

(* ---------- the candidate patterns of the wildcard loop ---------- *)
Fixpoint rq_wpats (labels : list bytes) : list bytes :=
  match labels with
  | [] => []
  | _ :: rest => if Z.of_nat (length labels) <? 3 then [] else rt_join (rt_star :: rest) :: rq_wpats rest
  end.

Fixpoint rq_first_some {A B} (f : A -> option B) (l : list A) : option B :=
  match l with
  | [] => None
  | x :: l' => match f x with Some y => Some y | None => rq_first_some f l' end
  end.

Lemma rq_first_some_app {A B} (f : A -> option B) l1 l2 :
  rq_first_some f (l1 ++ l2) = match rq_first_some f l1 with Some y => Some y | None => rq_first_some f l2 end.
Proof. induction l1 as [|x l1 IH]; simpl; [reflexivity|]. destruct (f x); auto. Qed.

Lemma rq_first_some_map {A B C} (f : A -> option B) (g : C -> A) l :
  rq_first_some f (map g l) = rq_first_some (fun x => f (g x)) l.
Proof. induction l as [|x l IH]; simpl; [reflexivity|]. destruct (f (g x)); auto. Qed.

Lemma rq_first_some_ext {A B} (f g : A -> option B) l :
  (forall x, f x = g x) -> rq_first_some f l = rq_first_some g l.
Proof. intro H. induction l as [|x l IH]; simpl; [reflexivity|]. rewrite H, IH. reflexivity. Qed.

Lemma rq_wpats_lower ls : rq_wpats (map lower ls) = map lower (rq_wpats ls).
Proof.
  induction ls as [|l rest IH]; [reflexivity|].
  cbn [map rq_wpats length]. rewrite map_length.
  destruct (Z.of_nat (S (length rest)) <? 3); [reflexivity|].
  cbn [map]. rewrite IH. f_equal.
  change (rt_star :: map lower rest) with (map lower (rt_star :: rest)).
  apply rq_join_lower.
Qed.

(* every candidate is "*." ++ S where ".S" is a proper tail of the host and S has a dot *)
Lemma rq_wpats_sound ls pat : In pat (rq_wpats ls) ->
  exists X S, rt_join ls = X ++ rt_dot :: S /\ pat = "*"%byte :: rt_dot :: S /\ rt_has rt_dot S = true.
Proof.
  induction ls as [|l0 rest IH]; [simpl; contradiction|].
  cbn [rq_wpats].
  destruct rest as [|l1 [|l2 rest']]; [simpl; contradiction|simpl; contradiction|].
  replace (Z.of_nat (length (l0 :: l1 :: l2 :: rest')) <? 3) with false
    by (symmetry; apply Z.ltb_ge; cbn [length]; lia).
  intros [H|H].
  - exists l0, (rt_join (l1 :: l2 :: rest')). split; [apply rq_join_cons; congruence|].
    split; [subst pat; rewrite rq_join_cons by congruence; reflexivity|].
    rewrite rq_join_cons by congruence. rewrite rq_has_app. cbn [rt_has existsb]. rewrite rp_beqb_refl.
    cbn [orb]. apply orb_true_r.
  - destruct (IH H) as [X [S [E1 [E2 E3]]]]. exists (l0 ++ rt_dot :: X), S.
    split; [|auto]. rewrite rq_join_cons by congruence. rewrite E1, <- app_assoc. reflexivity.
Qed.

Lemma rq_wpats_complete xs : forall ss, xs <> [] -> (2 <= length ss)%nat ->
  In ("*"%byte :: rt_dot :: rt_join ss) (rq_wpats (xs ++ ss)).
Proof.
  induction xs as [|x xs IH]; intros ss Hne Hlen; [congruence|].
  assert (Hss : ss <> []) by (destruct ss; simpl in Hlen; [lia|congruence]).
  change ((x :: xs) ++ ss) with (x :: (xs ++ ss)).
  cbn [rq_wpats].
  replace (Z.of_nat (length (x :: xs ++ ss)) <? 3) with false
    by (symmetry; apply Z.ltb_ge; cbn [length]; rewrite app_length; lia).
  destruct xs as [|x' xs'].
  - left. simpl app. rewrite rq_join_cons by exact Hss. reflexivity.
  - right. apply IH; [congruence|exact Hlen].
Qed.

Fixpoint rq_declen (l : list bytes) : Prop :=
  match l with
  | [] => True
  | c :: l' => (forall c', In c' l' -> blen c' < blen c) /\ rq_declen l'
  end.

Lemma rq_blen_app a b : blen (a ++ b) = blen a + blen b.
Proof. unfold blen. rewrite app_length. lia. Qed.
Lemma rq_blen_cons a b : blen (a :: b) = 1 + blen b.
Proof. unfold blen. simpl length. lia. Qed.
Lemma rq_blen_nonneg a : 0 <= blen a.
Proof. unfold blen. lia. Qed.

Lemma rq_wpats_len ls pat : In pat (rq_wpats ls) -> 3 <= blen pat <= blen (rt_join ls) + 1.
Proof.
  intro H. destruct (rq_wpats_sound _ _ H) as [X [S [E1 [E2 E3]]]]. rewrite E1, E2.
  rewrite rq_blen_app, !rq_blen_cons. pose proof (rq_blen_nonneg X).
  apply rq_has_split in E3 as [A [B ->]]. rewrite rq_blen_app, rq_blen_cons.
  pose proof (rq_blen_nonneg A). pose proof (rq_blen_nonneg B). lia.
Qed.

Lemma rq_wpats_declen ls : rq_declen (rq_wpats ls).
Proof.
  induction ls as [|l0 rest IH]; [exact I|].
  cbn [rq_wpats].
  destruct (Z.of_nat (length (l0 :: rest)) <? 3) eqn:E; [exact I|].
  cbn [rq_declen]. split; [|exact IH]. intros c' Hc'. apply rq_wpats_len in Hc'.
  destruct rest as [|l1 rest']; [simpl in E; discriminate|].
  rewrite rq_join_cons by congruence. rewrite rq_blen_app, rq_blen_cons. change (blen rt_star) with 1. lia.
Qed.

Lemma rq_declen_app_star l : (forall c, In c l -> 3 <= blen c) -> rq_declen l -> rq_declen (l ++ [rt_star]).
Proof.
  induction l as [|c l IH]; simpl; intros Hlen Hd.
  - split; [intros ? []|exact I].
  - destruct Hd as [Hc Hd]. split.
    + intros c' Hc'. apply in_app_iff in Hc' as [Hc'|[<-|[]]]; [auto|].
      specialize (Hlen c (or_introl eq_refl)). unfold rt_star, blen. simpl. unfold blen in Hlen. lia.
    + apply IH; auto.
Qed.

(* the candidate list W(h) = wildcard patterns of h, then "*" *)
Definition rq_W (h : bytes) : list bytes := rq_wpats (rt_split h) ++ [rt_star].

Lemma rq_W_declen h : rq_declen (rq_W h).
Proof.
  apply rq_declen_app_star; [|apply rq_wpats_declen].
  intros c Hc. apply rq_wpats_len in Hc. lia.
Qed.

Lemma rq_W_len h c : In c (rq_W h) -> 1 <= blen c <= blen h + 1.
Proof.
  unfold rq_W. intro H. apply in_app_iff in H as [H|[<-|[]]].
  - apply rq_wpats_len in H. rewrite rq_join_split in H. lia.
  - pose proof (rq_blen_nonneg h). unfold rt_star, blen in *. simpl. lia.
Qed.

Lemma rq_suffix_iff t s : rs_is_suffix t s = true <-> exists x, s = x ++ t.
Proof.
  unfold rs_is_suffix. rewrite rp_prefix_iff. split.
  - intros [y H]. exists (rev y). apply (f_equal (@rev byte)) in H. rewrite rev_involutive, rev_app_distr, rev_involutive in H. exact H.
  - intros [x ->]. exists (rev x). apply rev_app_distr.
Qed.

(* sound: every candidate matches the host in the sense of the specification *)
Lemma rq_W_sound h c : In c (rq_W h) -> rs_dom_matches c h = true.
Proof.
  unfold rq_W, rs_dom_matches. intro H. apply in_app_iff in H as [H|[<-|[]]].
  - destruct (rq_wpats_sound _ _ H) as [X [S [E1 [E2 E3]]]]. rewrite rq_join_split in E1. subst c.
    assert (rs_wild_matches ("*"%byte :: rt_dot :: S) h = true); [|rewrite H0; apply orb_true_r].
    unfold rs_wild_matches. rewrite !rp_beqb_refl, E3. simpl. apply rq_suffix_iff. exists X. exact E1.
  - rewrite rp_eqb_refl. rewrite orb_true_r. reflexivity.
Qed.

(* complete: every pattern that matches the host is the host itself or one of the candidates *)
Lemma rq_W_complete h c : rs_dom_matches c h = true -> c = h \/ In c (rq_W h).
Proof.
  unfold rs_dom_matches, rq_W. intro H. apply orb_true_iff in H as [H|H]; [apply orb_true_iff in H as [H|H]|].
  - left. apply rp_eqb_eq; exact H.
  - right. apply rp_eqb_eq in H; subst. apply in_app_iff. right. left. reflexivity.
  - right. apply in_app_iff. left. unfold rs_wild_matches in H.
    destruct c as [|st [|d S]]; try discriminate; [rewrite andb_false_r in H; discriminate|].
    apply andb_true_iff in H as [H1 H]. apply andb_true_iff in H as [H H3]. apply andb_true_iff in H as [H2 H4].
    apply rp_beqb_eq in H1, H2. subst st d. apply rq_suffix_iff in H3 as [X ->].
    rewrite rq_split_app. rewrite <- (rq_join_split S) at 1.
    apply rq_wpats_complete; [|apply rq_has_dot_split; exact H4].
    pose proof (rq_split_len X). destruct (rt_split X); simpl in *; [lia|congruence].
Qed.

(* ---------- the walk as "first candidate that yields a route" ---------- *)
Section Walk.
  Context {P : Type}.
  Notation route := (route P).
  Notation rstate := (rstate P).

  Lemma rq_walk_first_some (s : rstate) labels p u :
    rt_walk s labels p u = rq_first_some (fun d => rt_find_router s d p u) (rq_wpats labels).
  Proof.
    induction labels as [|l rest IH]; [reflexivity|].
    cbn [rt_walk rq_wpats]. destruct (Z.of_nat (length (l :: rest)) <? 3); [reflexivity|].
    cbn [rq_first_some]. rewrite IH. reflexivity.
  Qed.

  Lemma rq_find_router_lower (s : rstate) d p u : rt_find_router s (lower d) p u = rt_find_router s d p u.
  Proof. unfold rt_find_router. rewrite !rp_get_lower. reflexivity. Qed.

  Lemma rq_get_vhost_candidates (s : rstate) h p u :
    rt_get_vhost s h p u =
    rq_first_some (fun d => rt_find_router s d p u) (lower h :: rq_W (lower h)).
  Proof.
    unfold rt_get_vhost. rewrite rq_walk_first_some.
    cbn [rq_first_some]. rewrite rq_find_router_lower.
    destruct (rt_find_router s h p u); [reflexivity|].
    unfold rq_W. rewrite rq_first_some_app. rewrite rq_split_lower, rq_wpats_lower, rq_first_some_map.
    rewrite (rq_first_some_ext (fun x => rt_find_router s (lower x) p u) (fun d => rt_find_router s d p u)) by (intro; apply rq_find_router_lower).
    destruct (rq_first_some _ (rq_wpats (rt_split h))); [reflexivity|].
    cbn [rq_first_some]. destruct (rt_find_router s rt_star p u); reflexivity.
  Qed.

  (* host_case_insensitive *)
  Lemma rq_get_vhost_lower (s : rstate) h p u : rt_get_vhost s (lower h) p u = rt_get_vhost s h p u.
  Proof. rewrite !rq_get_vhost_candidates, rp_lower_idem. reflexivity. Qed.

  Lemma rq_W_lowered h c : In c (rq_W (lower h)) -> lower c = c.
  Proof.
    unfold rq_W. rewrite rq_split_lower, rq_wpats_lower. intro H.
    apply in_app_iff in H as [H|[<-|[]]]; [|reflexivity].
    apply in_map_iff in H as [x [<- _]]. apply rp_lower_idem.
  Qed.

  (* findRouter: user-specific first, then unrestricted; within each, longest location *)
  Definition rq_lt2 (r' r : route) (u : bytes) : Prop :=
    rs_user_score (rt_user r') u < rs_user_score (rt_user r) u \/
    (rs_user_score (rt_user r') u = rs_user_score (rt_user r) u /\ blen (rt_loc r') < blen (rt_loc r)).

  Lemma rq_find_router_some (s : rstate) d p u r : rp_wf s -> rt_find_router s d p u = Some r ->
    rp_in r s /\ rt_dom r = lower d /\ rs_user_matches (rt_user r) u = true /\ is_prefix (rt_loc r) p = true /\
    forall r', rp_in r' s -> rt_dom r' = lower d -> rs_user_matches (rt_user r') u = true ->
               is_prefix (rt_loc r') p = true -> r' = r \/ rq_lt2 r' r u.
  Proof.
    intros Hwf Hf. unfold rt_find_router in Hf.
    destruct (rt_get s d p u) as [r0|] eqn:G1.
    - inversion Hf; subst r0; clear Hf.
      destruct (rp_get_some _ _ _ _ _ Hwf G1) as [Hin [D [U [Hp Hall]]]].
      split; [exact Hin|]. split; [exact D|].
      split; [unfold rs_user_matches; rewrite U, rp_eqb_refl; reflexivity|]. split; [exact Hp|].
      intros r' Hin' D' U' Hp'. unfold rq_lt2, rs_user_score. rewrite U, rp_eqb_refl.
      destruct (bytes_eqb (rt_user r') u) eqn:E.
      + apply rp_eqb_eq in E. destruct (Hall _ Hin' D' E Hp') as [->|Hl]; [left; reflexivity|].
        right. right. split; [reflexivity|]. unfold blen. lia.
      + right. left. lia.
    - destruct (rp_get_some _ _ _ _ _ Hwf Hf) as [Hin [D [U [Hp Hall]]]].
      assert (Hu : bytes_eqb [] u = false).
      { destruct (bytes_eqb [] u) eqn:E; [|reflexivity]. apply rp_eqb_eq in E; subst u. congruence. }
      split; [exact Hin|]. split; [exact D|].
      split; [unfold rs_user_matches; rewrite U; simpl; apply orb_true_r|]. split; [exact Hp|].
      intros r' Hin' D' U' Hp'. unfold rq_lt2, rs_user_score. rewrite U, Hu.
      destruct (bytes_eqb (rt_user r') u) eqn:E.
      + apply rp_eqb_eq in E. pose proof (rp_get_none _ _ _ _ Hwf G1 _ Hin' D' E). congruence.
      + unfold rs_user_matches in U'. rewrite E in U'. simpl in U'. apply rp_eqb_eq in U'.
        destruct (Hall _ Hin' D' U' Hp') as [->|Hl]; [left; reflexivity|].
        right. right. split; [reflexivity|]. unfold blen. lia.
  Qed.

  Lemma rq_find_router_none (s : rstate) d p u : rp_wf s -> rt_find_router s d p u = None ->
    forall r', rp_in r' s -> rt_dom r' = lower d -> rs_user_matches (rt_user r') u = true ->
               is_prefix (rt_loc r') p = false.
  Proof.
    intros Hwf Hf r' Hin D U. unfold rt_find_router in Hf.
    destruct (rt_get s d p u) eqn:G1; [discriminate|].
    unfold rs_user_matches in U. apply orb_true_iff in U as [U|U]; apply rp_eqb_eq in U.
    - exact (rp_get_none _ _ _ _ Hwf G1 _ Hin D U).
    - exact (rp_get_none _ _ _ _ Hwf Hf _ Hin D U).
  Qed.

  Lemma rq_first_some_declen (f : bytes -> option route) W r : rq_declen W -> rq_first_some f W = Some r ->
    exists c, In c W /\ f c = Some r /\ forall c', In c' W -> c' = c \/ blen c' < blen c \/ f c' = None.
  Proof.
    induction W as [|c W IH]; simpl; intros Hd Hf; [discriminate|].
    destruct Hd as [Hc Hd]. destruct (f c) eqn:E.
    - inversion Hf; subst. exists c. split; [left; reflexivity|]. split; [exact E|].
      intros c' [<-|Hc']; [left; reflexivity|]. right. left. auto.
    - destruct (IH Hd Hf) as [c0 [Hin [Hf0 Hall]]]. exists c0. split; [right; exact Hin|]. split; [exact Hf0|].
      intros c' [<-|Hc']; [right; right; exact E|auto].
  Qed.

  Lemma rq_first_some_none {A B} (f : A -> option B) W : rq_first_some f W = None -> forall c, In c W -> f c = None.
  Proof.
    induction W as [|c W IH]; simpl; intros Hf c' Hc'; [contradiction|].
    destruct (f c) eqn:E; [discriminate|]. destruct Hc' as [<-|Hc']; auto.
  Qed.

  (* ---------- the relational specification: r is THE most specific matching route ---------- *)
  Definition rq_is_best (mem : route -> Prop) (r : route) (h p u : bytes) : Prop :=
    mem r /\ rs_matches r h p u = true /\
    forall r', mem r' -> rs_matches r' h p u = true ->
               r' = r \/ rs_lt3 (rs_score r' h p u) (rs_score r h p u) = true.

  Lemma rq_lt3_dom (a1 a2 a3 b1 b2 b3 : Z) : a1 < b1 -> rs_lt3 (a1, a2, a3) (b1, b2, b3) = true.
  Proof. intro H. unfold rs_lt3. apply Z.ltb_lt in H. rewrite H. reflexivity. Qed.

  Lemma rq_lt3_rest (a1 a2 a3 b1 b2 b3 : Z) : a1 = b1 -> (a2 < b2 \/ (a2 = b2 /\ a3 < b3)) ->
    rs_lt3 (a1, a2, a3) (b1, b2, b3) = true.
  Proof.
    intros -> H. unfold rs_lt3. rewrite Z.eqb_refl. simpl.
    destruct H as [H|[-> H]].
    - apply Z.ltb_lt in H. rewrite H. simpl. apply orb_true_r.
    - rewrite Z.eqb_refl. apply Z.ltb_lt in H. rewrite H. simpl. rewrite !orb_true_r. reflexivity.
  Qed.

  Lemma rq_matches_parts (r : route) h p u : rs_matches r h p u = true ->
    rs_dom_matches (rt_dom r) (lower h) = true /\ rs_user_matches (rt_user r) u = true /\ is_prefix (rt_loc r) p = true.
  Proof.
    unfold rs_matches. intro H. apply andb_true_iff in H as [H H3]. apply andb_true_iff in H as [H1 H2]. auto.
  Qed.

  Theorem rq_get_vhost_best (s : rstate) h p u r : rp_wf s -> rt_get_vhost s h p u = Some r ->
    rq_is_best (fun x => rp_in x s) r h p u.
  Proof.
    intros Hwf Hg. rewrite rq_get_vhost_candidates in Hg. cbn [rq_first_some] in Hg.
    set (h' := lower h) in *.
    assert (Hh' : lower h' = h') by apply rp_lower_idem.
    destruct (rt_find_router s h' p u) as [r0|] eqn:F0.
    - (* found under the exact host *)
      inversion Hg; subst r0; clear Hg.
      destruct (rq_find_router_some _ _ _ _ _ Hwf F0) as [Hin [D [U [Hp Hall]]]]. rewrite Hh' in D, Hall.
      split; [exact Hin|]. split.
      { unfold rs_matches. fold h'. rewrite U, Hp, D. unfold rs_dom_matches. rewrite rp_eqb_refl. reflexivity. }
      intros r' Hin' Hm. apply rq_matches_parts in Hm as [M1 [M2 M3]]. fold h' in M1.
      unfold rs_score. fold h'. rewrite D. unfold rs_dom_score at 2. rewrite rp_eqb_refl.
      destruct (bytes_eqb (rt_dom r') h') eqn:E.
      + apply rp_eqb_eq in E. destruct (Hall _ Hin' E M2 M3) as [->|Hlt]; [left; reflexivity|]. right.
        apply rq_lt3_rest; [unfold rs_dom_score; rewrite E, rp_eqb_refl; reflexivity|exact Hlt].
      + right. apply rq_lt3_dom. unfold rs_dom_score. rewrite E.
        destruct (rq_W_complete _ _ M1) as [E2|Hc]; [rewrite E2, rp_eqb_refl in E; discriminate|].
        apply rq_W_len in Hc. lia.
    - (* found under a wildcard candidate or the catch-all *)
      destruct (rq_first_some_declen _ _ _ (rq_W_declen h') Hg) as [c [Hc [Fc Hcs]]].
      pose proof (rq_W_lowered h c Hc) as Hlc.
      destruct (rq_find_router_some _ _ _ _ _ Hwf Fc) as [Hin [D [U [Hp Hall]]]]. rewrite Hlc in D, Hall.
      assert (Hne : bytes_eqb c h' = false).
      { apply rp_eqb_neq. intro E. rewrite E in D.
        pose proof (rq_find_router_none _ _ _ _ Hwf F0 r Hin) as X. rewrite Hh' in X. specialize (X D U). congruence. }
      split; [exact Hin|]. split.
      { unfold rs_matches. fold h'. rewrite U, Hp, D, (rq_W_sound _ _ Hc). reflexivity. }
      intros r' Hin' Hm. apply rq_matches_parts in Hm as [M1 [M2 M3]]. fold h' in M1.
      unfold rs_score. fold h'. rewrite D. unfold rs_dom_score at 2. rewrite Hne.
      destruct (rq_W_complete _ _ M1) as [E|Hc'].
      + exfalso. pose proof (rq_find_router_none _ _ _ _ Hwf F0 r' Hin') as X. rewrite Hh' in X. specialize (X E M2). congruence.
      + assert (Hne' : bytes_eqb (rt_dom r') h' = false).
        { apply rp_eqb_neq. intro E.
          pose proof (rq_find_router_none _ _ _ _ Hwf F0 r' Hin') as X. rewrite Hh' in X. specialize (X E M2). congruence. }
        unfold rs_dom_score. rewrite Hne'.
        destruct (Hcs _ Hc') as [E|[Hl|Fn]].
        * destruct (Hall _ Hin' E M2 M3) as [->|Hlt]; [left; reflexivity|]. right.
          apply rq_lt3_rest; [rewrite E; reflexivity|exact Hlt].
        * right. apply rq_lt3_dom. exact Hl.
        * exfalso. pose proof (rq_find_router_none _ _ _ _ Hwf Fn r' Hin') as X.
          rewrite (rq_W_lowered h _ Hc') in X. specialize (X eq_refl M2). congruence.
  Qed.

  Theorem rq_get_vhost_none (s : rstate) h p u : rp_wf s -> rt_get_vhost s h p u = None ->
    forall r', rp_in r' s -> rs_matches r' h p u = false.
  Proof.
    intros Hwf Hg r' Hin'. rewrite rq_get_vhost_candidates in Hg.
    destruct (rs_matches r' h p u) eqn:Hm; [|reflexivity]. exfalso.
    apply rq_matches_parts in Hm as [M1 [M2 M3]].
    set (h' := lower h) in *.
    assert (Hc : In (rt_dom r') (h' :: rq_W h')).
    { destruct (rq_W_complete _ _ M1); [left; congruence|right; assumption]. }
    pose proof (rq_first_some_none _ _ Hg _ Hc) as Fn.
    assert (Hl : lower (rt_dom r') = rt_dom r').
    { destruct Hc as [<-|Hc]; [apply rp_lower_idem|apply (rq_W_lowered h); exact Hc]. }
    pose proof (rq_find_router_none _ _ _ _ Hwf Fn r' Hin') as X. rewrite Hl in X. specialize (X eq_refl M2). congruence.
  Qed.

  (* ---------- the executable specification agrees with the relational one ---------- *)
  Lemma rq_lt3_irrefl a : rs_lt3 a a = false.
  Proof. destruct a as [[a1 a2] a3]. unfold rs_lt3. rewrite !Z.ltb_irrefl, !Z.eqb_refl. reflexivity. Qed.

  Lemma rq_lt3_asym a b : rs_lt3 a b = true -> rs_lt3 b a = false.
  Proof.
    destruct a as [[a1 a2] a3], b as [[b1 b2] b3]. unfold rs_lt3. intro H.
    destruct (a1 <? b1) eqn:E1, (a1 =? b1) eqn:E2, (a2 <? b2) eqn:E3, (a2 =? b2) eqn:E4, (a3 <? b3) eqn:E5;
    destruct (b1 <? a1) eqn:F1, (b1 =? a1) eqn:F2, (b2 <? a2) eqn:F3, (b2 =? a2) eqn:F4, (b3 <? a3) eqn:F5;
    simpl in *; try reflexivity; try discriminate; lia.
  Qed.

  Lemma rq_best_match_fold (L : list route) h p u r : forall cur,
    (forall r', In r' L -> rs_matches r' h p u = true ->
                r' = r \/ rs_lt3 (rs_score r' h p u) (rs_score r h p u) = true) ->
    rs_matches r h p u = true ->
    (cur = None \/ cur = Some r \/ exists c, cur = Some c /\ rs_lt3 (rs_score c h p u) (rs_score r h p u) = true) ->
    (In r L \/ cur = Some r) ->
    fold_left (rs_better h p u) L cur = Some r.
  Proof.
    induction L as [|x L IH]; intros cur Hall Hm Hcur Hr; simpl.
    - destruct Hr as [[]|Hr]; exact Hr.
    - assert (Hall' : forall r', In r' L -> rs_matches r' h p u = true ->
                r' = r \/ rs_lt3 (rs_score r' h p u) (rs_score r h p u) = true)
        by (intros; apply Hall; [right|]; assumption).
      unfold rs_better at 2.
      destruct (rs_matches x h p u) eqn:Mx.
      + destruct (Hall x (or_introl eq_refl) Mx) as [->|Hlt].
        * (* x = r *)
          destruct Hcur as [->|[->|[c [-> Hc]]]].
          -- apply IH; auto.
          -- rewrite rq_lt3_irrefl. apply IH; auto.
          -- rewrite Hc. apply IH; auto.
        * (* x strictly below r *)
          assert (Hx : x <> r) by (intro E; subst; rewrite rq_lt3_irrefl in Hlt; discriminate).
          assert (HrL : In r L \/ cur = Some r).
          { destruct Hr as [[E|Hr]|Hr]; [exfalso; apply Hx; exact E|left; exact Hr|right; exact Hr]. }
          destruct Hcur as [->|[->|[c [-> Hc]]]].
          -- apply IH; auto.
             ++ right; right; exists x; auto.
             ++ destruct HrL as [HrL|HrL]; [left; exact HrL|discriminate].
          -- rewrite (rq_lt3_asym _ _ Hlt). apply IH; auto.
          -- assert (HrL' : In r L).
             { destruct HrL as [HrL|HrL]; [exact HrL|]. inversion HrL; subst. rewrite rq_lt3_irrefl in Hc; discriminate. }
             destruct (rs_lt3 (rs_score c h p u) (rs_score x h p u)).
             ++ apply IH; auto. right; right; exists x; auto.
             ++ apply IH; auto. right; right; exists c; auto.
      + apply IH; auto. destruct Hr as [[E|Hr]|Hr]; [subst; congruence|left; exact Hr|right; exact Hr].
  Qed.

  Lemma rq_best_match_some (L : list route) h p u r :
    rq_is_best (fun x => In x L) r h p u -> rs_best_match L h p u = Some r.
  Proof. intros [Hin [Hm Hall]]. apply rq_best_match_fold; auto. Qed.

  Lemma rq_best_match_none (L : list route) h p u :
    (forall r', In r' L -> rs_matches r' h p u = false) -> rs_best_match L h p u = None.
  Proof.
    unfold rs_best_match. induction L as [|x L IH]; intro H; [reflexivity|].
    simpl. unfold rs_better at 2. rewrite (H x (or_introl eq_refl)). apply IH. intros; apply H; right; assumption.
  Qed.

  Lemma rq_is_best_abs (s : rstate) r h p u : rp_wf s ->
    rq_is_best (fun x => rp_in x s) r h p u -> rq_is_best (fun x => In x (rt_abs s)) r h p u.
  Proof.
    intros Hwf [A [B C]]. split; [apply rp_in_abs; assumption|]. split; [exact B|].
    intros r' Hr'. apply C. apply rp_in_abs; assumption.
  Qed.

  (* get_vhost_refines_best_match, on every well-formed table ... *)
  Theorem rq_refines (s : rstate) h p u : rp_wf s ->
    rt_get_vhost s h p u = rs_best_match (rt_abs s) h p u.
  Proof.
    intro Hwf. destruct (rt_get_vhost s h p u) as [r|] eqn:G.
    - symmetry. apply rq_best_match_some. apply rq_is_best_abs; [exact Hwf|]. apply rq_get_vhost_best; assumption.
    - symmetry. apply rq_best_match_none. intros r' Hr'. apply (rq_get_vhost_none s h p u Hwf G). apply rp_in_abs; assumption.
  Qed.

  (* ... hence after every history of Add / Del *)
  Theorem rq_get_vhost_refines_best_match (hist : list (rt_op P)) h p u :
    rt_get_vhost (rt_run hist) h p u = rs_best_match (rt_abs (rt_run hist)) h p u.
  Proof. apply rq_refines, rp_run_wf. Qed.
End Walk.
