(* Proofs about Model/CliDispatch.v over TODAY's handler registration table (translator unit t14). *)
From Coq Require Import ZArith List Bool Lia.
From FRP Require Import Model.Heartbeat Model.CliDispatch gen.GenBackoffOpts Proofs.GenCliDispatch.
Import ListNotations.
Open Scope Z_scope.

(* If every handler that runs inside the read loop returns at once, each message is handled the
   moment it arrives — however long asynchronous handlers take. *)
Lemma cd_no_delay : forall async l free,
  cd_sorted free l ->
  (forall a, In a l -> async (ca_msg a) = false -> ca_block a = 0) ->
  map fst (cd_process async free l) = map ca_at l.
Proof.
  intros async. induction l as [|a r IH]; intros free Hs Hb; simpl; auto.
  destruct Hs as [Hlo Hs].
  assert (Hm : Z.max (ca_at a) free = ca_at a) by lia. rewrite Hm. f_equal.
  apply IH.
  - destruct (async (ca_msg a)) eqn:E; [exact Hs|].
    rewrite (Hb a (or_introl eq_refl) E). replace (ca_at a + 0) with (ca_at a) by lia. exact Hs.
  - intros x Hx. apply Hb. right. exact Hx.
Qed.

(* with today's table: work-connection dials may take ANY time (ca_block unconstrained for
   ReqWorkConn); the other handlers do no blocking I/O (t14: gen_cli_sync_handlers_nonblocking) *)
Theorem cd_blocked_dials_do_not_delay : forall l free,
  cd_sorted free l ->
  (forall a, In a l -> ca_msg a <> MReqWorkConn -> ca_block a = 0) ->
  map fst (cd_process gen_cli_async free l) = map ca_at l.
Proof.
  intros l free Hs Hb. apply cd_no_delay; auto.
  intros a Ha E. apply Hb; auto. intro Hm. rewrite Hm in E. discriminate E.
Qed.

Lemma cd_process_msgs : forall async l free, map snd (cd_process async free l) = map ca_msg l.
Proof. intros async. induction l as [|a r IH]; intros free; simpl; auto. f_equal. apply IH. Qed.

(* hence the Pongs the watchdog sees are stamped with their arrival instants *)
Theorem cd_pongs_stamped_on_arrival : forall l free,
  cd_sorted free l ->
  (forall a, In a l -> ca_msg a <> MReqWorkConn -> ca_block a = 0) ->
  cd_process gen_cli_async free l = map (fun a => (ca_at a, ca_msg a)) l.
Proof.
  intros l free Hs Hb.
  pose proof (cd_blocked_dials_do_not_delay l free Hs Hb) as H1.
  pose proof (cd_process_msgs gen_cli_async l free) as H2.
  revert H1 H2. generalize (cd_process gen_cli_async free l). clear.
  induction l as [|a r IH]; intros p H1 H2; destruct p as [|[t m] p]; simpl in *; try discriminate; auto.
  inversion H1; inversion H2; subst. f_equal. apply IH; auto.
Qed.

(* sensitivity of the model: were ReqWorkConn handled inside the read loop, three dials that hang
   for 2.5 s each would make the client close a server that answers every Ping (interval 1 s,
   timeout 3 s) — the history of the demo of seeded/C14-client-sync-reqworkconn-starves-pong *)
Definition cd_demo_arrivals : list carrival :=
  [ {| ca_at := 10; ca_msg := MPong false; ca_block := 0 |};
    {| ca_at := 1000; ca_msg := MReqWorkConn; ca_block := 2500 |};
    {| ca_at := 1001; ca_msg := MReqWorkConn; ca_block := 2500 |};
    {| ca_at := 1002; ca_msg := MReqWorkConn; ca_block := 2500 |};
    {| ca_at := 1010; ca_msg := MPong false; ca_block := 0 |};
    {| ca_at := 2010; ca_msg := MPong false; ca_block := 0 |};
    {| ca_at := 3010; ca_msg := MPong false; ca_block := 0 |};
    {| ca_at := 4010; ca_msg := MPong false; ca_block := 0 |};
    {| ca_at := 5010; ca_msg := MPong false; ca_block := 0 |};
    {| ca_at := 6010; ca_msg := MPong false; ca_block := 0 |};
    {| ca_at := 7010; ca_msg := MPong false; ca_block := 0 |};
    {| ca_at := 8010; ca_msg := MPong false; ca_block := 0 |} ].

Theorem cd_demo_sync_starves_async_does_not :
  hb_cli_close_time 1 3 (hb_cli_init 0) (cd_history (fun _ => false) cd_demo_arrivals 9000) = Some 4000 /\
  hb_cli_close_time 1 3 (hb_cli_init 0) (cd_history gen_cli_async cd_demo_arrivals 9000) = None.
Proof. vm_compute. split; reflexivity. Qed.
