package main

// Driver "drain" (C01): tcpMux on with a 1 s tcpMuxKeepaliveInterval; one side writes 600 000 bytes and closes at
// once while the other side drains through a 128 KB/s bandwidth limit (needs ~3.7 s).  With yamux's own
// StreamCloseTimeout (5 min, see C01_yamux_close_config) the reader must get everything, then a clean EOF.
// Upload with a client-side limit and download with a server-side limit, in parallel.

import (
	"fmt"
	"sync"
	"time"

	"verifharness/hx"
)

func init() { drivers["drain"] = runDrain }

func runDrain(cfg *hx.RunCfg) error {
	hx.Quiet()
	type spec struct {
		dir  string
		addr string
		n    int
	}
	specs := []spec{{"up", "127.0.1.6", 600000}, {"down", "127.0.1.7", 600000}}
	if cfg.Tier == "thorough" {
		specs = append(specs, spec{"up", "127.0.1.5", 1500000}, spec{"down", "127.0.1.4", 1500000})
	}
	cases := make([]string, len(specs))
	errs := make([]error, len(specs))
	var wg sync.WaitGroup
	for i, sp := range specs {
		wg.Add(1)
		go func(i int, sp spec) {
			defer wg.Done()
			// the limit is configured as a FRACTION of the unit: 0.125MB = 128 KiB/s
			got, same, eof, took, err := slowDrainOnce(sp.addr, "0.125MB", sp.n, 1, sp.dir, 40*time.Second)
			errs[i] = err
			d := 0
			if sp.dir == "down" {
				d = 1
			}
			cases[i] = fmt.Sprintf("CDrain %d %s %d %d %s %s %d", d, hx.HxS("0.125MB"), sp.n, got, hx.Bool(same), hx.Bool(eof), took.Milliseconds())
		}(i, sp)
	}
	// stcp visitor behind a batching relay, backend speaks first, stream idle beyond the handshake deadline
	var vcases [][]string
	var verrs []error
	var vmu sync.Mutex
	for k, v := range []struct{ enc, comp bool }{{false, false}, {true, true}} {
		wg.Add(1)
		go func(k int, enc, comp bool) {
			defer wg.Done()
			cs, err := visitorOnce(fmt.Sprintf("127.0.1.%d", 2+k), enc, comp, 10500*time.Millisecond, cfg.Seed*10+int64(k))
			vmu.Lock()
			vcases = append(vcases, cs)
			verrs = append(verrs, err)
			vmu.Unlock()
		}(k, v.enc, v.comp)
	}
	wg.Wait()
	var out []string
	var fails []map[string]string
	for i, cs := range vcases {
		if verrs[i] != nil {
			fails = append(fails, map[string]string{"key": "visitor-setup", "what": "stcp visitor scenario could not be set up: " + verrs[i].Error(), "case": "visitorOnce"})
		}
		out = append(out, cs...)
	}
	for i, c := range cases {
		if errs[i] != nil {
			fails = append(fails, map[string]string{"key": "drain-setup:" + specs[i].dir, "what": "write-and-close over tcpMux with a slow receiver: " + errs[i].Error(), "case": c})
			continue
		}
		out = append(out, c)
	}
	cf := &hx.CaseFile{Imports: imports, Typ: "case", Cases: out,
		Tail: "Definition M := Eval vm_compute in mismatches check_case cases.\nPrint M.\n" +
			"Definition NDRAIN := Eval vm_compute in count_if is_drain cases.\nPrint NDRAIN.\n" +
			"Definition NVISITOR := Eval vm_compute in count_if is_visitor cases.\nPrint NVISITOR.\n" +
			"Definition YAMUXCFGOK := Eval vm_compute in (if yamux_cfg_today_ok then 1 else 0 : Z).\nPrint YAMUXCFGOK.\n" +
			"Definition YAMUXSAFERATE := Eval vm_compute in yamux_safe_rate.\nPrint YAMUXSAFERATE.\n" +
			"Definition YAMUXTIMEOUTMS := Eval vm_compute in yamux_default_close_timeout_ms.\nPrint YAMUXTIMEOUTMS.\n" +
			"Definition YAMUXWINDOW := Eval vm_compute in yamux_window.\nPrint YAMUXWINDOW.\n" +
			"Definition SLOWWITNESS := Eval vm_compute in (if slow_receiver_witness_truncates then 1 else 0 : Z).\nPrint SLOWWITNESS.\n"}
	if err := cf.Write(cfg.Out); err != nil {
		return err
	}
	cfg.St["cases"] = len(out)
	cfg.St["distinct_nontrivial"] = len(out)
	cfg.St["samples"] = out
	cfg.St["impl_failures"] = fails
	return nil
}
