package main

// Visitor scenario of the "drain" driver (C01): stcp proxy whose backend SPEAKS FIRST, reached through an stcp
// visitor whose frpc talks to frps through a relay that batches frps -> visitor traffic (everything frps sent
// within 40 ms is delivered by one write): the NewVisitorConnResp frame and the first tunnel bytes arrive in ONE
// read on the visitor side (a lost-and-retransmitted segment, a batching middle box, a late goroutine).  The user
// must read exactly the backend's banner.  Then the stream idles for longer than the visitor's 10 s handshake
// read deadline and the backend sends a second banner, which must arrive as well.

import (
	"fmt"
	"io"
	"net"
	"sync"
	"time"

	v1 "github.com/fatedier/frp/pkg/config/v1"
	"verifharness/hx"
)

// batchRelay forwards addr:port <-> target; the direction target -> client is delivered in 40 ms batches.
func batchRelay(addr, target string) (net.Listener, error) {
	l, err := net.Listen("tcp", net.JoinHostPort(addr, "0"))
	if err != nil {
		return nil, err
	}
	go func() {
		for {
			c, err := l.Accept()
			if err != nil {
				return
			}
			go func(c net.Conn) {
				t, err := net.DialTimeout("tcp", target, 3*time.Second)
				if err != nil {
					c.Close()
					return
				}
				go func() { _, _ = io.Copy(t, c); t.Close(); c.Close() }()
				var mu sync.Mutex
				var pending []byte
				done := false
				go func() {
					buf := make([]byte, 64*1024)
					for {
						n, err := t.Read(buf)
						mu.Lock()
						pending = append(pending, buf[:n]...)
						if err != nil {
							done = true
						}
						mu.Unlock()
						if err != nil {
							return
						}
					}
				}()
				for {
					time.Sleep(40 * time.Millisecond)
					mu.Lock()
					p, d := pending, done
					pending = nil
					mu.Unlock()
					if len(p) > 0 {
						if _, err := c.Write(p); err != nil {
							t.Close()
							c.Close()
							return
						}
					}
					if d {
						c.Close()
						t.Close()
						return
					}
				}
			}(c)
		}
	}()
	return l, nil
}

func visitorOnce(addr string, enc, comp bool, idle time.Duration, seed int64) ([]string, error) {
	s, err := hx.StartServer(addr, nil) // tcpMux off
	if err != nil {
		return nil, err
	}
	defer s.Close()
	banner1 := genPayload(0, seed, 1, 302)
	banner2 := genPayload(0, seed, 2, 100)
	bl, err := net.Listen("tcp", net.JoinHostPort(addr, "0"))
	if err != nil {
		return nil, err
	}
	defer bl.Close()
	go func() {
		for {
			c, err := bl.Accept()
			if err != nil {
				return
			}
			go func(c net.Conn) {
				defer c.Close()
				_, _ = c.Write(banner1) // speaks first
				go func() {             // every connection still open after the idle period gets the second banner
					time.Sleep(idle)
					_, _ = c.Write(banner2)
				}()
				_ = c.SetReadDeadline(time.Now().Add(idle + 20*time.Second))
				_, _ = io.Copy(io.Discard, c)
			}(c)
		}
	}()
	pc := &v1.STCPProxyConfig{}
	pc.Name, pc.Type = "secret", "stcp"
	pc.LocalIP, pc.LocalPort = addr, bl.Addr().(*net.TCPAddr).Port
	pc.Secretkey, pc.AllowUsers = "sk-visitor", []string{"*"}
	pc.Transport.UseEncryption, pc.Transport.UseCompression = enc, comp
	owner, err := s.StartClient([]v1.ProxyConfigurer{pc}, nil, nil)
	if err != nil {
		return nil, err
	}
	defer owner.Close()
	if !owner.WaitProxyRunning("secret", 8*time.Second) {
		return nil, fmt.Errorf("stcp proxy did not start")
	}
	relay, err := batchRelay(addr, net.JoinHostPort(s.Addr, fmt.Sprint(s.Port)))
	if err != nil {
		return nil, err
	}
	defer relay.Close()
	vc := &v1.STCPVisitorConfig{}
	vc.Name, vc.Type = "secret_visitor", "stcp"
	vc.ServerName, vc.SecretKey = "secret", "sk-visitor"
	vc.BindAddr, vc.BindPort = addr, freePort(addr)
	vc.Transport.UseEncryption, vc.Transport.UseCompression = enc, comp
	vis, err := s.StartClient(nil, []v1.VisitorConfigurer{vc}, func(cc *v1.ClientCommonConfig) {
		cc.ServerAddr = addr
		cc.ServerPort = relay.Addr().(*net.TCPAddr).Port
	})
	if err != nil {
		return nil, err
	}
	defer vis.Close()
	for i := 0; i < 300 && !hx.TCPBound(addr, vc.BindPort); i++ {
		time.Sleep(10 * time.Millisecond)
	}
	readN := func(c net.Conn, n int, d time.Duration) []byte {
		buf := make([]byte, n)
		_ = c.SetReadDeadline(time.Now().Add(d))
		m, _ := io.ReadFull(c, buf)
		return buf[:m]
	}
	var out []string
	dial := func() (net.Conn, error) {
		return net.DialTimeout("tcp", net.JoinHostPort(addr, fmt.Sprint(vc.BindPort)), 3*time.Second)
	}
	emit := func(got1 []byte, idleMs int64, b2, got2 []byte) {
		out = append(out, fmt.Sprintf("CVisitor %s %s %s %s %d %s %s", hx.Bool(enc), hx.Bool(comp), hx.Hx(banner1), hx.Hx(got1), idleMs, hx.Hx(b2), hx.Hx(got2)))
	}
	// first connection: banner, then idle beyond the handshake deadline, then the second banner
	u0, err := dial()
	if err != nil {
		return nil, fmt.Errorf("dial visitor: %v", err)
	}
	defer u0.Close()
	got1 := readN(u0, len(banner1), 5*time.Second)
	// second connection (only after the first one is established, so the backend's numbering is certain)
	if u1, err := dial(); err == nil {
		emit(readN(u1, len(banner1), 5*time.Second), 0, nil, nil)
		u1.Close()
	}
	if len(got1) == len(banner1) {
		emit(got1, idle.Milliseconds(), banner2, readN(u0, len(banner2), idle+5*time.Second))
	} else {
		emit(got1, 0, nil, nil)
	}
	return out, nil
}
