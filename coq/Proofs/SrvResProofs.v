(* C10 — proofs about Model/SrvRes.v. *)
From Coq Require Import Lia ZifyBool ZifyNat.
From FRP Require Import Model.SrvRes Proofs.PortsProofs Proofs.SrvResBase.
Open Scope Z_scope.

Local Notation rget_ := (al_get slot_eqb).
Local Notation rdel_ := (al_del slot_eqb).

(* ---------- setters ---------- *)
Ltac csplit := repeat match goal with |- _ /\ _ => split end.
Ltac fin := try solve [ assumption | reflexivity | constructor; [simpl; tauto|constructor] | intros ? [<-|[]]; assumption
                        | intros; discriminate | intros; congruence | intros; auto | tauto ].
Ltac unsr := unfold set_pm, get_pm, set_tcp, set_udp, set_squat, set_res, set_grp, set_names, set_sess, res_rm in *; cbn [sr_tcp sr_udp sr_squat sr_res sr_grp sr_names sr_sess] in *.

(* ---------- the keyed table ---------- *)
Definition claim (n : string) (ks : list slot) : list (slot * owner) := map (fun k => (k, OPxy n)) ks.

Lemma res_get_app_claim_notin : forall n ks k r, ~ In k ks -> rget_ k (claim n ks ++ r) = rget_ k r.
Proof.
  induction ks as [|a ks IH]; simpl; intros k r H; [reflexivity|].
  destruct (slot_eqb_spec k a) as [->|N]; [tauto|]. apply IH. tauto.
Qed.

Lemma res_get_app_claim_in : forall n ks k r, In k ks -> rget_ k (claim n ks ++ r) = Some (OPxy n).
Proof.
  induction ks as [|a ks IH]; simpl; intros k r H; [contradiction|].
  destruct (slot_eqb_spec k a) as [->|N]; [reflexivity|]. apply IH. destruct H; [congruence|assumption].
Qed.

(* deleting keys that were claimed on top of a table in which they were absent gives the table back *)
Lemma res_del_claim : forall n ks k r, rget_ k r = None -> In k ks -> NoDup ks ->
  rdel_ k (claim n ks ++ r) = claim n (filter (fun x => negb (slot_eqb k x)) ks) ++ r.
Proof.
  induction ks as [|a ks IH]; simpl; intros k r A I ND; [contradiction|].
  inversion ND as [|? ? Hn Hr]; subst.
  destruct (slot_eqb_spec k a) as [->|N]; simpl.
  - assert (E : filter (fun x => negb (slot_eqb a x)) ks = ks).
    { clear -Hn. induction ks as [|b ks IH]; simpl; [reflexivity|].
      destruct (slot_eqb_spec a b) as [->|N]; simpl; [exfalso; apply Hn; simpl; auto|].
      f_equal. apply IH. intros H. apply Hn. simpl. auto. }
    rewrite E. apply (al_del_absent slot_eqb_spec). rewrite res_get_app_claim_notin by assumption. exact A.
  - f_equal. apply IH; [assumption|destruct I; [congruence|assumption]|assumption].
Qed.

Lemma filter_remove_notin : forall (k : slot) ks, ~ In k ks -> filter (fun x => negb (slot_eqb k x)) ks = ks.
Proof.
  induction ks as [|b ks IH]; simpl; intros H; [reflexivity|].
  destruct (slot_eqb_spec k b) as [->|N]; simpl; [tauto|]. f_equal. apply IH. tauto.
Qed.

(* deleting every claimed key, in any order that covers them, restores the table *)
Lemma res_del_all_claim : forall n r ds ks,
  (forall k, In k ks -> rget_ k r = None) -> NoDup ks -> (forall k, In k ds -> In k ks \/ rget_ k r = None) ->
  (forall k, In k ks -> In k ds) ->
  fold_left (fun acc k => rdel_ k acc) ds (claim n ks ++ r) = r.
Proof.
  intros n r ds. induction ds as [|d ds IH]; simpl; intros ks A ND Hd Hc.
  - destruct ks as [|k ks]; [reflexivity|]. exfalso. apply (Hc k). simpl. auto.
  - destruct (in_dec (fun a b => match slot_eqb_spec a b with ReflectT _ e => left e | ReflectF _ e => right e end) d ks) as [I|NI].
    + rewrite res_del_claim by (auto).
      apply IH.
      * intros k Hk. apply filter_In in Hk. apply A. tauto.
      * apply NoDup_filter. assumption.
      * intros k Hk. destruct (Hd k (or_intror Hk)) as [H|H]; [|auto].
        destruct (slot_eqb_spec d k) as [->|N]; [right; apply A; assumption|].
        left. apply filter_In. split; [assumption|]. destruct (slot_eqb_spec d k); [contradiction|reflexivity].
      * intros k Hk. apply filter_In in Hk. destruct Hk as [Hk Hne].
        destruct (Hc k Hk) as [E|H]; [|assumption]. subst. destruct (slot_eqb_spec k k); [discriminate|congruence].
    + assert (E : rdel_ d (claim n ks ++ r) = claim n ks ++ r).
      { apply (al_del_absent slot_eqb_spec). rewrite res_get_app_claim_notin by assumption.
        destruct (Hd d (or_introl eq_refl)); [contradiction|assumption]. }
      rewrite E. apply IH; try assumption.
      * intros k Hk. apply Hd. auto.
      * intros k Hk. destruct (Hc k Hk) as [E'|H]; [subst; contradiction|assumption].
Qed.

(* ---------- sockets and the probe ---------- *)
Lemma sock_ports_get : forall proto p r, ~ In p (sock_ports proto r) -> rget_ (SSock proto p) r = None.
Proof.
  induction r as [|[k o] r IH]; simpl; intros H; [reflexivity|].
  destruct k as [x y|kk rr|m|m]; simpl; try (apply IH; exact H).
  destruct (Z.eqb_spec proto x) as [->|N].
  - rewrite Z.eqb_refl in H. simpl in H.
    destruct (Z.eqb_spec p y) as [->|N']; [tauto|]. simpl. apply IH. tauto.
  - simpl. apply IH. destruct (Z.eqb_spec x proto); [congruence|assumption].
Qed.

Lemma get_sock_ports : forall proto p r, rget_ (SSock proto p) r <> None -> In p (sock_ports proto r).
Proof.
  intros proto p r H. destruct (in_dec Z.eq_dec p (sock_ports proto r)) as [I|N]; [assumption|].
  exfalso. apply H. apply sock_ports_get. assumption.
Qed.

Lemma probe_free_sock : forall s proto p, sr_probe s proto p = true -> rget_ (SSock proto p) (sr_res s) = None.
Proof.
  intros s proto p H. unfold sr_probe, probe_of in H.
  apply andb_prop in H. destruct H as [_ H]. apply negb_true_iff in H. apply zmem_false in H.
  apply sock_ports_get. intros I. apply H. apply in_or_app. auto.
Qed.

Lemma probe_free_squat : forall s proto p, sr_probe s proto p = true -> ~ In (proto, p) (sr_squat s).
Proof.
  intros s proto p H I. unfold sr_probe, probe_of in H.
  apply andb_prop in H. destruct H as [_ H]. apply negb_true_iff in H. apply zmem_false in H.
  apply H. apply in_or_app. right. unfold squat_ports. apply in_map_iff. exists (proto, p). split; [reflexivity|].
  apply filter_In. split; [assumption|]. simpl. apply Z.eqb_refl.
Qed.

(* ---------- port managers up to what Release cannot restore (order of the free table, reserved memory) ---------- *)
Definition pm_eqv (a b : pm) : Prop :=
  pm_used a = pm_used b /\ (forall p, In p (pm_free a) <-> In p (pm_free b)).

Lemma pm_eqv_refl : forall a, pm_eqv a a.
Proof. intros a. split; [reflexivity|tauto]. Qed.

Lemma pm_eqv_trans : forall a b c, pm_eqv a b -> pm_eqv b c -> pm_eqv a c.
Proof. intros a b c [U1 F1] [U2 F2]. split; [congruence|]. intros p. rewrite F1. apply F2. Qed.

Lemma pm_eqv_sym : forall a b, pm_eqv a b -> pm_eqv b a.
Proof. intros a b [U F]. split; [congruence|]. intros p. symmetry. apply F. Qed.

Lemma udel_absent : forall p u, uget p u = None -> udel p u = u.
Proof.
  induction u as [|[q n] r IH]; simpl; intros H; [reflexivity|].
  destruct (Z.eqb_spec p q); [discriminate|]. f_equal. auto.
Qed.

Lemma take_release_eqv : forall A m n p, PInv A m -> In p (pm_free m) -> pm_eqv m (pm_release (pm_take m n p) p).
Proof.
  intros A m n p HI Hf. unfold pm_release. cbn [pm_used pm_take]. rewrite uget_uset_eq.
  split; cbn [pm_used pm_free pm_take].
  - unfold uset. simpl. rewrite Z.eqb_refl.
    assert (E : uget p (pm_used m) = None) by (apply (pi_disj _ _ HI); assumption).
    rewrite udel_absent; [symmetry; apply udel_absent; assumption|].
    rewrite udel_absent by assumption. assumption.
  - intros q. rewrite zadd_In. rewrite zrem_In. destruct (Z.eq_dec q p) as [->|N]; tauto.
Qed.

Lemma pinv_eqv_no0 : forall A m, PInv A m -> ~ In 0 A -> ~ In 0 (pm_free m).
Proof. intros. eapply pinv_no0; eauto. Qed.

(* ---------- Acquire + Listen ---------- *)
Definition same_but_res_pm (s s1 : sr) : Prop :=
  sr_squat s1 = sr_squat s /\ sr_grp s1 = sr_grp s /\ sr_names s1 = sr_names s /\ sr_sess s1 = sr_sess s.

Lemma acquire_listen_spec : forall A proto s name port ch lok o s1 r,
  (proto = 0 \/ proto = 1) ->
  PInv A (get_pm proto s) -> ~ In 0 A ->
  acquire_listen proto s name port ch lok o = Some (s1, r) ->
  same_but_res_pm s s1 /\ PInv A (get_pm proto s1) /\ get_pm (1 - proto) s1 = get_pm (1 - proto) s /\
  match r with
  | inl rp => rget_ (SSock proto rp) (sr_res s) = None /\ sr_res s1 = (SSock proto rp, o) :: sr_res s /\
              get_pm proto s1 = pm_take (get_pm proto s) name rp /\ In rp (pm_free (get_pm proto s)) /\
              ~ In (proto, rp) (sr_squat s) /\ lok = true /\ (port <> 0 -> rp = port)
  | inr e => sr_res s1 = sr_res s /\ pm_eqv (get_pm proto s) (get_pm proto s1)
  end.
Proof.
  intros A proto s name port ch lok o s1 r Hp HI H0 H. unfold acquire_listen in H. unfold same_but_res_pm.
  destruct (pm_acquire (sr_probe s proto) ch (get_pm proto s) name port) as [[m' [rp|e]]|] eqn:E; [| |discriminate].
  - destruct (acquire_sound _ _ _ _ _ _ _ _ HI E) as [HA [Hf [Hnu [Hpr [Hport [Hm' _]]]]]].
    pose proof (probe_free_sock _ _ _ Hpr) as Hs.
    destruct lok.
    + unfold res_add in H.
      assert (Hs' : res_get (SSock proto rp) (sr_res (set_pm proto m' s)) = None).
      { destruct Hp as [-> | ->]; unfold set_pm, get_pm in *; cbn in *; exact Hs. }
      rewrite Hs' in H. inversion H; subst; clear H.
      destruct Hp as [-> | ->]; unfold set_pm, get_pm in *; cbn in *; (csplit; auto; try (apply pinv_take; assumption));
        try (apply (probe_free_squat _ _ _ Hpr)).
    + inversion H; subst; clear H.
      assert (PInv A (pm_take (get_pm proto s) name rp)) by (apply pinv_take; assumption).
      destruct Hp as [-> | ->]; unfold set_pm, get_pm in *; cbn in *; (csplit; auto; try (apply pinv_release; assumption);
        try (apply (take_release_eqv A); assumption)).
  - inversion H; subst; clear H.
    assert (m' = get_pm proto s).
    { eapply acquire_error_unchanged_no0; [|eassumption]. eapply pinv_no0; eauto. }
    subst m'. destruct Hp as [-> | ->]; unfold set_pm, get_pm in *; cbn in *; destruct s; cbn in *; (csplit; auto; try apply pm_eqv_refl).
Qed.

(* ---------- the registration loop of the vhost-type proxies, no group ---------- *)
Lemma NoDup_snoc : forall (A : Type) (l : list A) a, NoDup l -> ~ In a l -> NoDup (l ++ [a]).
Proof.
  induction l as [|b l IH]; simpl; intros a ND H; [constructor; [tauto|constructor]|].
  inversion ND as [|? ? Hn Hr]; subst. constructor.
  - rewrite in_app_iff. simpl. intros [I|[E|[]]]; [tauto|subst; tauto].
  - apply IH; tauto.
Qed.

Lemma routes_run_free : forall t q, q_group q = ""%string ->
  forall ks done s r0 s1 r,
  sr_res s = claim (q_name q) (rev done) ++ r0 -> NoDup done -> (forall k, In k done -> rget_ k r0 = None) ->
  routes_run t q ks done s = (s1, r) ->
  match r with
  | inl all => s1 = set_res (claim (q_name q) (rev all) ++ r0) s /\ NoDup all /\ (forall k, In k all -> rget_ k r0 = None) /\
               all = done ++ map (SRoute (rkind_of t)) ks
  | inr e => s1 = set_res r0 s /\ e = EConflict
  end.
Proof.
  intros t q G ks. induction ks as [|rk ks IH]; intros done s r0 s1 r Hres ND Habs H.
  - simpl in H. injection H as <- <-. split; [|split; [assumption|split; [assumption|]]].
    + rewrite <- Hres. destruct s; reflexivity.
    + rewrite app_nil_r. reflexivity.
  - cbn [routes_run] in H. rewrite G in H. cbn [String.eqb] in H.
    set (k := SRoute (rkind_of t) rk) in *.
    unfold res_add in H. destruct (res_get k (sr_res s)) as [ow|] eqn:E.
    + (* conflict: release what was registered *)
      inversion H; subst; clear H. split; [|reflexivity].
      assert (F : forall l st, fold_left (fun acc k' => route_release t ""%string (q_name q) k' acc) l st
                               = set_res (fold_left (fun acc k' => rdel_ k' acc) l (sr_res st)) st).
      { induction l as [|a l IHl]; intros st; simpl; [destruct st; reflexivity|].
        rewrite IHl. unfold route_release. cbn [String.eqb]. unsr. reflexivity. }
      rewrite F. rewrite Hres. f_equal.
      apply res_del_all_claim.
      * intros x Hx. apply Habs. apply in_rev. assumption.
      * apply NoDup_rev. assumption.
      * intros x Hx. left. apply -> in_rev. assumption.
      * intros x Hx. apply in_rev. assumption.
    + assert (Hk : ~ In k done).
      { intros I. unfold res_get in E. rewrite Hres in E. rewrite res_get_app_claim_in in E; [discriminate|]. apply -> in_rev. assumption. }
      assert (Hk0 : rget_ k r0 = None).
      { unfold res_get in E. rewrite Hres in E. rewrite res_get_app_claim_notin in E; [assumption|]. intros I. apply Hk. apply in_rev. assumption. }
      specialize (IH (done ++ [k]) (set_res ((k, OPxy (q_name q)) :: sr_res s) s) r0 s1 r).
      assert (R1 : sr_res (set_res ((k, OPxy (q_name q)) :: sr_res s) s) = claim (q_name q) (rev (done ++ [k])) ++ r0).
      { unsr. rewrite rev_app_distr. simpl. rewrite Hres. reflexivity. }
      assert (ND1 : NoDup (done ++ [k])) by (apply NoDup_snoc; assumption).
      assert (A1 : forall x, In x (done ++ [k]) -> rget_ x r0 = None).
      { intros x Hx. apply in_app_iff in Hx. destruct Hx as [Hx|[<-|[]]]; auto. }
      specialize (IH R1 ND1 A1 H). destruct r as [all|e].
      * destruct IH as [I1 [I2 [I3 I4]]]. split; [|split; [assumption|split; [assumption|]]].
        -- rewrite I1. destruct s; reflexivity.
        -- rewrite I4. rewrite <- app_assoc. reflexivity.
      * destruct IH as [I1 I2]. split; [|assumption]. rewrite I1. destruct s; reflexivity.
Qed.

(* ---------- proxy objects ---------- *)
Definition slots_kind (o : pobj) : Prop :=
  match po_type o with
  | TTcp => po_slots o = [SSock 0 (po_real o)]
  | TUdp => po_slots o = [SSock 1 (po_real o)]
  | TStcp | TSudp => po_slots o = [SVis (po_name o)]
  | TXtcp => po_slots o = [SNat (po_name o)]
  | THttp | THttps | TTcpmux => forall k, In k (po_slots o) -> exists r, k = SRoute (rkind_of (po_type o)) r
  end.

Definition obj_ok (n : string) (o : pobj) : Prop :=
  po_name o = n /\ po_group o = ""%string /\ po_w o = weight (po_type o) /\ slots_kind o.

Definition pm_effect (s s1 : sr) (n : string) (o : pobj) : Prop :=
  match po_type o with
  | TTcp => sr_tcp s1 = pm_take (sr_tcp s) n (po_real o) /\ In (po_real o) (pm_free (sr_tcp s)) /\ sr_udp s1 = sr_udp s /\
            ~ In (0, po_real o) (sr_squat s)
  | TUdp => sr_udp s1 = pm_take (sr_udp s) n (po_real o) /\ In (po_real o) (pm_free (sr_udp s)) /\ sr_tcp s1 = sr_tcp s /\
            ~ In (1, po_real o) (sr_squat s)
  | _ => sr_tcp s1 = sr_tcp s /\ sr_udp s1 = sr_udp s
  end.

Lemma px_run_spec : forall A s q s1 r,
  q_group q = ""%string -> PInv A (sr_tcp s) -> PInv A (sr_udp s) -> ~ In 0 A ->
  px_run s q = Some (s1, r) ->
  same_but_res_pm s s1 /\ PInv A (sr_tcp s1) /\ PInv A (sr_udp s1) /\
  match r with
  | inl o => obj_ok (q_name q) o /\ po_type o = q_type q /\ NoDup (po_slots o) /\
             (forall k, In k (po_slots o) -> rget_ k (sr_res s) = None) /\
             sr_res s1 = claim (q_name q) (rev (po_slots o)) ++ sr_res s /\ pm_effect s s1 (q_name q) o /\
             (q_lok q = true \/ weight (q_type q) = 0) /\ (q_port q <> 0 -> weight (q_type q) = 1 -> po_real o = q_port q)
  | inr e => sr_res s1 = sr_res s /\ pm_eqv (sr_tcp s) (sr_tcp s1) /\ pm_eqv (sr_udp s) (sr_udp s1)
  end.
Proof.
  intros A s q s1 r G Ht Hu H0 H. unfold px_run in H.
  assert (VH : forall t, (t = THttp \/ t = THttps \/ t = TTcpmux) -> forall q' ks s1 r, q_group q' = ""%string -> q_name q' = q_name q ->
            routes_run t q' ks [] s = (s1, r) ->
            same_but_res_pm s s1 /\ PInv A (sr_tcp s1) /\ PInv A (sr_udp s1) /\
            match r with
            | inl all => NoDup all /\ (forall k, In k all -> rget_ k (sr_res s) = None) /\
                         sr_res s1 = claim (q_name q) (rev all) ++ sr_res s /\ sr_tcp s1 = sr_tcp s /\ sr_udp s1 = sr_udp s /\
                         (forall k, In k all -> exists rr, k = SRoute (rkind_of t) rr)
            | inr e => sr_res s1 = sr_res s /\ pm_eqv (sr_tcp s) (sr_tcp s1) /\ pm_eqv (sr_udp s) (sr_udp s1)
            end).
  { intros t Ht' q' ks s1' r' G' N' R.
    pose proof (routes_run_free t q' G' ks [] s (sr_res s) s1' r') as P. simpl in P.
    specialize (P eq_refl (NoDup_nil _) (fun k F => match F with end) R).
    destruct r' as [all|e].
    - destruct P as [P1 [P2 [P3 P4]]]. subst s1'. unfold same_but_res_pm. unsr. rewrite N'.
      csplit; auto. intros k Hk. rewrite P4 in Hk. simpl in Hk. apply in_map_iff in Hk. destruct Hk as [rr [<- _]]. eauto.
    - destruct P as [P1 P2]. subst s1'. unfold same_but_res_pm. unsr. csplit; auto; apply pm_eqv_refl. }
  destruct (q_type q) eqn:T.
  - (* tcp *)
    rewrite G in H. cbn [String.eqb] in H.
    destruct (acquire_listen 0 s (q_name q) (q_port q) (q_choice q) (q_lok q) (OPxy (q_name q))) as [[s' [rp|e]]|] eqn:E; [| |discriminate];
      injection H as <- <-;
      destruct (acquire_listen_spec A 0 s _ _ _ _ _ _ _ (or_introl eq_refl) Ht H0 E) as [S [P1 [P2 P3]]];
      unfold get_pm in *; cbn in P1, P2, P3.
    + destruct P3 as [Q1 [Q2 [Q3 [Q4 [Q5 [Q6 Q7]]]]]].
      unfold obj_ok, slots_kind, pm_effect, mk_obj; cbn; rewrite ?T; cbn; csplit; auto; try (rewrite P2; assumption); fin.
    + destruct P3 as [Q1 Q2]. csplit; auto; try (rewrite P2; assumption). rewrite P2. apply pm_eqv_refl.
  - (* udp *)
    destruct (acquire_listen 1 s (q_name q) (q_port q) (q_choice q) (q_lok q) (OPxy (q_name q))) as [[s' [rp|e]]|] eqn:E; [| |discriminate];
      injection H as <- <-;
      destruct (acquire_listen_spec A 1 s _ _ _ _ _ _ _ (or_intror eq_refl) Hu H0 E) as [S [P1 [P2 P3]]];
      unfold get_pm in *; cbn in P1, P2, P3.
    + destruct P3 as [Q1 [Q2 [Q3 [Q4 [Q5 [Q6 Q7]]]]]].
      unfold obj_ok, slots_kind, pm_effect, mk_obj; cbn; rewrite ?T; cbn; csplit; auto; try (rewrite P2; assumption); fin.
    + destruct P3 as [Q1 Q2]. csplit; auto; try (rewrite P2; assumption). rewrite P2. apply pm_eqv_refl.
  - (* http *)
    destruct (routes_run THttp q (http_rkeys q) [] s) as [s' [all|e]] eqn:E; injection H as <- <-;
      destruct (VH THttp (or_introl eq_refl) q _ _ _ G eq_refl E) as [S [P1 [P2 P3]]].
    + destruct P3 as [Q1 [Q2 [Q3 [Q4 [Q5 Q6]]]]].
      unfold obj_ok, slots_kind, pm_effect, mk_obj; cbn; rewrite ?T; cbn; csplit; auto; fin.
    + destruct P3 as [Q1 [Q2 Q3]]; csplit; auto.
  - (* https *)
    match type of H with context [routes_run THttps ?q' _ _ _] => set (qq := q') in * end.
    destruct (routes_run THttps qq (https_rkeys q) [] s) as [s' [all|e]] eqn:E; injection H as <- <-;
      destruct (VH THttps (or_intror (or_introl eq_refl)) qq _ _ _ eq_refl eq_refl E) as [S [P1 [P2 P3]]].
    + destruct P3 as [Q1 [Q2 [Q3 [Q4 [Q5 Q6]]]]].
      unfold obj_ok, slots_kind, pm_effect, mk_obj; cbn; rewrite ?T; cbn; csplit; auto; fin.
    + destruct P3 as [Q1 [Q2 Q3]]; csplit; auto.
  - (* tcpmux *)
    destruct (routes_run TTcpmux q (mux_rkeys q) [] s) as [s' [all|e]] eqn:E; injection H as <- <-;
      destruct (VH TTcpmux (or_intror (or_intror eq_refl)) q _ _ _ G eq_refl E) as [S [P1 [P2 P3]]].
    + destruct P3 as [Q1 [Q2 [Q3 [Q4 [Q5 Q6]]]]].
      unfold obj_ok, slots_kind, pm_effect, mk_obj; cbn; rewrite ?T; cbn; csplit; auto; fin.
    + destruct P3 as [Q1 [Q2 Q3]]; csplit; auto.
  - (* stcp *)
    unfold res_add in H. destruct (res_get (SVis (q_name q)) (sr_res s)) eqn:E; injection H as <- <-.
    + unfold same_but_res_pm. csplit; auto; apply pm_eqv_refl.
    + unfold same_but_res_pm, obj_ok, slots_kind, pm_effect. unsr. cbn. csplit; auto; fin.
  - (* sudp *)
    unfold res_add in H. destruct (res_get (SVis (q_name q)) (sr_res s)) eqn:E; injection H as <- <-.
    + unfold same_but_res_pm. csplit; auto; apply pm_eqv_refl.
    + unfold same_but_res_pm, obj_ok, slots_kind, pm_effect. unsr. cbn. csplit; auto; fin.
  - (* xtcp *)
    unfold res_add in H. destruct (res_get (SNat (q_name q)) (sr_res s)) eqn:E; injection H as <- <-.
    + unfold same_but_res_pm. csplit; auto; apply pm_eqv_refl.
    + unfold same_but_res_pm, obj_ok, slots_kind, pm_effect. unsr. cbn. csplit; auto; fin.
Qed.

Lemma fold_route_release_free : forall t n l st,
  fold_left (fun acc k' => route_release t ""%string n k' acc) l st
  = set_res (fold_left (fun acc k' => rdel_ k' acc) l (sr_res st)) st.
Proof.
  induction l as [|a l IHl]; intros st; simpl; [destruct st; reflexivity|].
  rewrite IHl. unfold route_release. cbn [String.eqb]. unsr. reflexivity.
Qed.

Definition is_tcp (t : ptype) : bool := match t with TTcp => true | _ => false end.
Definition is_udp (t : ptype) : bool := match t with TUdp => true | _ => false end.

Lemma px_close_spec : forall s n o, obj_ok n o ->
  sr_res (px_close s o) = fold_left (fun acc k => rdel_ k acc) (po_slots o) (sr_res s) /\
  same_but_res_pm s (px_close s o) /\
  sr_tcp (px_close s o) = (if is_tcp (po_type o) then pm_release (sr_tcp s) (po_real o) else sr_tcp s) /\
  sr_udp (px_close s o) = (if is_udp (po_type o) then pm_release (sr_udp s) (po_real o) else sr_udp s).
Proof.
  intros s n o [N [G [W K]]]. unfold px_close, slots_kind, same_but_res_pm in *.
  destruct (po_type o) eqn:T; cbn [is_tcp is_udp]; rewrite ?G; cbn [String.eqb];
    try (rewrite fold_route_release_free; unsr; csplit; reflexivity);
    try (rewrite K; unfold close_release, res_rm, set_pm, get_pm; cbn; csplit; reflexivity).
Qed.

(* ---------- deleting a list of keys ---------- *)
Definition rdel_all (ds : list slot) (r : list (slot * owner)) := fold_left (fun acc k => rdel_ k acc) ds r.

Lemma rdel_all_in : forall ds r k ow, In (k, ow) (rdel_all ds r) <-> In (k, ow) r /\ ~ In k ds.
Proof.
  unfold rdel_all. induction ds as [|d ds IH]; intros r k ow; simpl; [tauto|].
  rewrite IH. rewrite (al_in_del slot_eqb_spec). split; [intros [[H1 H2] H3]|intros [H1 H2]]; repeat split; auto.
  - intros [E|I]; [congruence|tauto].
Qed.

Lemma rdel_all_get : forall ds r k, ~ In k ds -> rget_ k (rdel_all ds r) = rget_ k r.
Proof.
  unfold rdel_all. induction ds as [|d ds IH]; intros r k H; simpl; [reflexivity|].
  rewrite IH by (simpl in H; tauto). apply (al_get_del_neq slot_eqb_spec). simpl in H. intros E. apply H. auto.
Qed.

Lemma rdel_all_get_none : forall ds r k, rget_ k r = None -> rget_ k (rdel_all ds r) = None.
Proof.
  unfold rdel_all. induction ds as [|d ds IH]; intros r k H; simpl; [assumption|].
  apply IH. destruct (slot_eqb_spec k d) as [->|N]; [apply (al_get_del_eq slot_eqb_spec)|].
  rewrite (al_get_del_neq slot_eqb_spec) by assumption. assumption.
Qed.

Lemma rdel_all_get_in : forall ds r k, In k ds -> rget_ k (rdel_all ds r) = None.
Proof.
  unfold rdel_all. induction ds as [|d ds IH]; intros r k H; simpl; [contradiction|].
  destruct (slot_eqb_spec k d) as [->|N].
  - apply rdel_all_get_none. apply (al_get_del_eq slot_eqb_spec).
  - apply IH. destruct H; [congruence|assumption].
Qed.

Lemma rdel_all_nodup : forall ds r, NoDup (map fst r) -> NoDup (map fst (rdel_all ds r)).
Proof.
  unfold rdel_all. induction ds as [|d ds IH]; intros r H; simpl; [assumption|].
  apply IH. apply (al_del_nodup slot_eqb_spec). assumption.
Qed.

Lemma claim_keys : forall n ks, map fst (claim n ks) = ks.
Proof. induction ks as [|a ks IH]; simpl; [reflexivity|f_equal; assumption]. Qed.

Lemma claim_nodup : forall n ks r, NoDup ks -> (forall k, In k ks -> rget_ k r = None) -> NoDup (map fst r) ->
  NoDup (map fst (claim n ks ++ r)).
Proof.
  induction ks as [|a ks IH]; simpl; intros r ND A Hr; [assumption|].
  inversion ND as [|? ? Hn Hd]; subst. constructor.
  - rewrite map_app, claim_keys. rewrite in_app_iff. intros [I|I]; [tauto|].
    apply (al_get_none_notin slot_eqb_spec) in I; [assumption|]. apply A. auto.
  - apply IH; auto.
Qed.

Lemma in_claim : forall n ks k ow, In (k, ow) (claim n ks) <-> ow = OPxy n /\ In k ks.
Proof.
  induction ks as [|a ks IH]; simpl; intros k ow; [tauto|].
  rewrite IH. split; [intros [E|[H1 H2]]; [inversion E; subst; auto|auto]|intros [-> [->|H]]; auto].
Qed.

(* ---------- the invariant (histories without load-balancing groups) ---------- *)
Definition live (s : sr) (n : string) (o : pobj) : Prop :=
  exists c ct, ss_get c (sr_sess s) = Some ct /\ nm_get n (ss_pxys ct) = Some o.

Record WF (A : list Z) (s : sr) : Prop := {
  wf_nogrp : sr_grp s = [];
  wf_tcp : PInv A (sr_tcp s);
  wf_udp : PInv A (sr_udp s);
  wf_keys : NoDup (map fst (sr_res s));
  wf_held : forall k ow, In (k, ow) (sr_res s) -> exists n o, ow = OPxy n /\ live s n o /\ In k (po_slots o);
  wf_pres : forall n o k, live s n o -> In k (po_slots o) -> rget_ k (sr_res s) = Some (OPxy n);
  wf_obj : forall n o, live s n o -> obj_ok n o;
  wf_n1 : forall c ct n o, ss_get c (sr_sess s) = Some ct -> nm_get n (ss_pxys ct) = Some o -> nm_get n (sr_names s) = Some c;
  wf_n2 : forall n c, nm_get n (sr_names s) = Some c -> exists ct o, ss_get c (sr_sess s) = Some ct /\ nm_get n (ss_pxys ct) = Some o;
  wf_pk : forall c ct, ss_get c (sr_sess s) = Some ct -> NoDup (map fst (ss_pxys ct));
  wf_ptag : forall proto p n, (proto = 0 \/ proto = 1) -> uget p (pm_used (get_pm proto s)) = Some n ->
            rget_ (SSock proto p) (sr_res s) = Some (OPxy n);
  wf_squat : forall proto p, In (proto, p) (sr_squat s) -> rget_ (SSock proto p) (sr_res s) = None
}.

Lemma wf_new : forall ranges, WF (pm_allowed ranges) (sr_new ranges).
Proof.
  intros ranges. constructor; cbn.
  - reflexivity.
  - apply pinv_new.
  - apply pinv_new.
  - constructor.
  - intros ? ? [].
  - intros ? ? ? [c [ct [HH _]]]. discriminate.
  - intros ? ? [c [ct [HH _]]]. discriminate.
  - intros; discriminate.
  - intros; discriminate.
  - intros; discriminate.
  - intros proto p ? [-> | ->]; cbn; discriminate.
  - intros ? ? [].
Qed.

Lemma live_fun : forall A s n o1 o2, WF A s -> live s n o1 -> live s n o2 -> o1 = o2.
Proof.
  intros A s n o1 o2 W [c1 [ct1 [S1 P1]]] [c2 [ct2 [S2 P2]]].
  pose proof (wf_n1 _ _ W _ _ _ _ S1 P1) as N1. pose proof (wf_n1 _ _ W _ _ _ _ S2 P2) as N2.
  assert (c1 = c2) by congruence. subst. assert (ct1 = ct2) by congruence. subst. congruence.
Qed.

Lemma live_named : forall A s n o, WF A s -> live s n o -> nm_get n (sr_names s) <> None.
Proof. intros A s n o W [c [ct [S P]]]. rewrite (wf_n1 _ _ W _ _ _ _ S P). discriminate. Qed.

(* no resource entry without a live holder: the keyed tables, the sockets and both port tables *)
Lemma wf_port_holder : forall A s proto p n, WF A s -> (proto = 0 \/ proto = 1) ->
  uget p (pm_used (get_pm proto s)) = Some n ->
  exists o, live s n o /\ In (SSock proto p) (po_slots o).
Proof.
  intros A s proto p n W Hp U.
  pose proof (wf_ptag _ _ W _ _ _ Hp U) as R. apply (al_get_in slot_eqb_spec) in R.
  destruct (wf_held _ _ W _ _ R) as [n' [o [E [L I]]]]. inversion E; subst. eauto.
Qed.

Local Notation sget_ := (al_get Z.eqb).
Local Notation nget_ := (al_get String.eqb).

Lemma ss_get_set_eq : forall V c (v : V) l, ss_get c (ss_set c v l) = Some v.
Proof. intros. apply (al_get_set_eq Z.eqb_spec). Qed.
Lemma ss_get_set_neq : forall V c c' (v : V) l, c' <> c -> ss_get c' (ss_set c v l) = ss_get c' l.
Proof. intros. apply (al_get_set_neq Z.eqb_spec). assumption. Qed.
Lemma nm_get_del_eq : forall V n (l : list (string * V)), nm_get n (nm_del n l) = None.
Proof. intros. apply (al_get_del_eq String.eqb_spec). Qed.
Lemma nm_get_del_neq : forall V n n' (l : list (string * V)), n' <> n -> nm_get n' (nm_del n l) = nm_get n' l.
Proof. intros. apply (al_get_del_neq String.eqb_spec). assumption. Qed.
Lemma nm_get_set_eq : forall V n (v : V) l, nm_get n (nm_set n v l) = Some v.
Proof. intros. apply (al_get_set_eq String.eqb_spec). Qed.
Lemma nm_get_set_neq : forall V n n' (v : V) l, n' <> n -> nm_get n' (nm_set n v l) = nm_get n' l.
Proof. intros. apply (al_get_set_neq String.eqb_spec). assumption. Qed.

(* ---------- CloseProxy ---------- *)
Lemma wf_close_core : forall A s c ct name o u s',
  WF A s -> ss_get c (sr_sess s) = Some ct -> nm_get name (ss_pxys ct) = Some o ->
  sr_grp s' = [] ->
  sr_tcp s' = (if is_tcp (po_type o) then pm_release (sr_tcp s) (po_real o) else sr_tcp s) ->
  sr_udp s' = (if is_udp (po_type o) then pm_release (sr_udp s) (po_real o) else sr_udp s) ->
  sr_squat s' = sr_squat s ->
  sr_res s' = rdel_all (po_slots o) (sr_res s) ->
  sr_names s' = nm_del name (sr_names s) ->
  sr_sess s' = ss_set c (sess_with ct (nm_del name (ss_pxys ct)) u) (sr_sess s) ->
  WF A s'.
Proof.
  intros A s c ct name o u s' W SC PC Eg Et Eu Eq Er En Es.
  assert (L0 : live s name o) by (exists c, ct; auto).
  pose proof (wf_obj _ _ W _ _ L0) as [ON [OG [OW OK]]].
  pose proof (wf_n1 _ _ W _ _ _ _ SC PC) as NC.
  assert (LL : forall n' o', live s' n' o' <-> live s n' o' /\ n' <> name).
  { intros n' o'. unfold live. rewrite Es. split.
    - intros [c' [ct' [S' P']]]. destruct (Z.eq_dec c' c) as [->|Nc].
      + rewrite ss_get_set_eq in S'. injection S' as <-. cbn [ss_pxys sess_with] in P'.
        destruct (String.eqb_spec n' name) as [->|Nn]; [rewrite nm_get_del_eq in P'; discriminate|].
        rewrite nm_get_del_neq in P' by assumption. split; [exists c, ct; auto|assumption].
      + rewrite ss_get_set_neq in S' by assumption. split; [exists c', ct'; auto|].
        intros ->. pose proof (wf_n1 _ _ W _ _ _ _ S' P'). congruence.
    - intros [[c' [ct' [S' P']]] Nn]. destruct (Z.eq_dec c' c) as [->|Nc].
      + assert (ct' = ct) by congruence. subst ct'. exists c. eexists. rewrite ss_get_set_eq. split; [reflexivity|].
        cbn [ss_pxys sess_with]. rewrite nm_get_del_neq by assumption. assumption.
      + exists c', ct'. rewrite ss_get_set_neq by assumption. auto. }
  assert (SK : forall k, In k (po_slots o) -> forall proto p, k = SSock proto p -> (proto = 0 /\ is_tcp (po_type o) = true /\ p = po_real o) \/ (proto = 1 /\ is_udp (po_type o) = true /\ p = po_real o)).
  { intros k Hk proto p ->. unfold slots_kind in OK. destruct (po_type o) eqn:T; cbn.
    all: try (rewrite OK in Hk; destruct Hk as [E|[]]; try discriminate E; injection E as <- <-; auto).
    all: try (destruct (OK _ Hk) as [rr E]; discriminate E). }
  constructor.
  - assumption.
  - rewrite Et. destruct (is_tcp (po_type o)); [apply pinv_release|]; apply (wf_tcp _ _ W).
  - rewrite Eu. destruct (is_udp (po_type o)); [apply pinv_release|]; apply (wf_udp _ _ W).
  - rewrite Er. apply rdel_all_nodup. apply (wf_keys _ _ W).
  - intros k ow H. rewrite Er in H. apply rdel_all_in in H. destruct H as [H Hn].
    destruct (wf_held _ _ W _ _ H) as [n' [o' [E [L I]]]]. exists n', o'. split; [assumption|]. split; [|assumption].
    apply LL. split; [assumption|]. intros ->. rewrite (live_fun _ _ _ _ _ W L L0) in I. contradiction.
  - intros n' o' k L I. apply LL in L. destruct L as [L Nn]. rewrite Er.
    rewrite rdel_all_get; [apply (wf_pres _ _ W _ _ _ L I)|].
    intros I0. pose proof (wf_pres _ _ W _ _ _ L I) as R1. pose proof (wf_pres _ _ W _ _ _ L0 I0) as R2. congruence.
  - intros n' o' L. apply LL in L. apply (wf_obj _ _ W). tauto.
  - intros c' ct' n' o' S' P'. rewrite En.
    assert (L : live s' n' o') by (exists c', ct'; auto). apply LL in L. destruct L as [[c2 [ct2 [S2 P2]]] Nn].
    rewrite nm_get_del_neq by assumption.
    rewrite Es in S'. destruct (Z.eq_dec c' c) as [->|Nc].
    + rewrite ss_get_set_eq in S'. injection S' as <-. cbn [ss_pxys sess_with] in P'.
      rewrite nm_get_del_neq in P' by assumption. apply (wf_n1 _ _ W _ _ _ _ SC P').
    + rewrite ss_get_set_neq in S' by assumption. apply (wf_n1 _ _ W _ _ _ _ S' P').
  - intros n' c' H. rewrite En in H.
    destruct (String.eqb_spec n' name) as [->|Nn]; [rewrite nm_get_del_eq in H; discriminate|].
    rewrite nm_get_del_neq in H by assumption.
    destruct (wf_n2 _ _ W _ _ H) as [ct' [o' [S' P']]]. rewrite Es.
    destruct (Z.eq_dec c' c) as [->|Nc].
    + assert (ct' = ct) by congruence. subst ct'. eexists. exists o'. rewrite ss_get_set_eq. split; [reflexivity|].
      cbn [ss_pxys sess_with]. rewrite nm_get_del_neq by assumption. assumption.
    + exists ct', o'. rewrite ss_get_set_neq by assumption. auto.
  - intros c' ct' S'. rewrite Es in S'. destruct (Z.eq_dec c' c) as [->|Nc].
    + rewrite ss_get_set_eq in S'. injection S' as <-. cbn [ss_pxys sess_with].
      apply (al_del_nodup String.eqb_spec). apply (wf_pk _ _ W _ _ SC).
    + rewrite ss_get_set_neq in S' by assumption. apply (wf_pk _ _ W _ _ S').
  - intros proto p n' Hp U. rewrite Er.
    assert (U0 : uget p (pm_used (get_pm proto s)) = Some n' /\ ~ (In (SSock proto p) (po_slots o))).
    { destruct Hp as [-> | ->]; unfold get_pm in *; cbn [Z.eqb] in *.
      - rewrite Et in U. destruct (is_tcp (po_type o)) eqn:IT.
        + unfold pm_release in U. destruct (uget (po_real o) (pm_used (sr_tcp s))) eqn:UR.
          * cbn [pm_used] in U. destruct (Z.eq_dec p (po_real o)) as [->|Np]; [rewrite uget_udel_eq in U; discriminate|].
            rewrite uget_udel_neq in U by assumption. split; [assumption|]. intros I.
            destruct (SK _ I 0 p eq_refl) as [[_ [_ E]]|[E _]]; [contradiction|discriminate].
          * split; [assumption|]. intros I. destruct (SK _ I 0 p eq_refl) as [[_ [_ E]]|[E _]]; [|discriminate]. congruence.
        + split; [assumption|]. intros I. destruct (SK _ I 0 p eq_refl) as [[_ [E _]]|[E _]]; [congruence|discriminate].
      - rewrite Eu in U. destruct (is_udp (po_type o)) eqn:IT.
        + unfold pm_release in U. destruct (uget (po_real o) (pm_used (sr_udp s))) eqn:UR.
          * cbn [pm_used] in U. destruct (Z.eq_dec p (po_real o)) as [->|Np]; [rewrite uget_udel_eq in U; discriminate|].
            rewrite uget_udel_neq in U by assumption. split; [assumption|]. intros I.
            destruct (SK _ I 1 p eq_refl) as [[E _]|[_ [_ E]]]; [discriminate|contradiction].
          * split; [assumption|]. intros I. destruct (SK _ I 1 p eq_refl) as [[E _]|[_ [_ E]]]; [discriminate|]. congruence.
        + split; [assumption|]. intros I. destruct (SK _ I 1 p eq_refl) as [[E _]|[_ [E _]]]; [discriminate|congruence]. }
    destruct U0 as [U0 NI]. rewrite rdel_all_get by assumption. apply (wf_ptag _ _ W _ _ _ Hp U0).
  - intros proto p H. rewrite Eq in H. rewrite Er. apply rdel_all_get_none. apply (wf_squat _ _ W _ _ H).
Qed.

Lemma y_close_wf : forall A maxp s c name s', WF A s -> y_close maxp s c name = Some s' -> WF A s'.
Proof.
  intros A maxp s c name s' W H. unfold y_close in H.
  destruct (ss_get c (sr_sess s)) as [ct|] eqn:SC; [|discriminate].
  destruct (nm_get name (ss_pxys ct)) as [o|] eqn:PC; [|injection H as <-; assumption].
  injection H as <-.
  assert (L0 : live s name o) by (exists c, ct; auto).
  pose proof (wf_obj _ _ W _ _ L0) as OK. pose proof OK as [ON _].
  destruct (px_close_spec s name o OK) as [R [[S1 [S2 [S3 S4]]] [T U]]].
  eapply (wf_close_core A s c ct name o); try eassumption; unsr.
  - rewrite S2. apply (wf_nogrp _ _ W).
  - rewrite S3, ON. reflexivity.
  - rewrite S4. reflexivity.
Qed.

(* ---------- changes of the session table that keep every proxy table ---------- *)
Lemma wf_change_sess : forall A s sess',
  WF A s ->
  (forall c ct', ss_get c sess' = Some ct' -> ss_pxys ct' = [] \/ exists ct, ss_get c (sr_sess s) = Some ct /\ ss_pxys ct' = ss_pxys ct) ->
  (forall c ct, ss_get c (sr_sess s) = Some ct -> ss_pxys ct <> [] -> exists ct', ss_get c sess' = Some ct' /\ ss_pxys ct' = ss_pxys ct) ->
  WF A (set_sess sess' s).
Proof.
  intros A s sess' W F B.
  assert (LL : forall n o, live (set_sess sess' s) n o <-> live s n o).
  { intros n o. unfold live. unsr. split.
    - intros [c [ct' [S P]]]. destruct (F _ _ S) as [E|[ct [S0 E]]]; [rewrite E in P; discriminate|].
      exists c, ct. rewrite <- E. auto.
    - intros [c [ct [S P]]]. destruct (B _ _ S) as [ct' [S' E]]; [intros E; rewrite E in P; discriminate|].
      exists c, ct'. rewrite E. auto. }
  constructor; unsr.
  - apply (wf_nogrp _ _ W).
  - apply (wf_tcp _ _ W).
  - apply (wf_udp _ _ W).
  - apply (wf_keys _ _ W).
  - intros k ow H. destruct (wf_held _ _ W _ _ H) as [n [o [E [L I]]]]. exists n, o. rewrite LL. auto.
  - intros n o k L I. apply LL in L. apply (wf_pres _ _ W _ _ _ L I).
  - intros n o L. apply LL in L. apply (wf_obj _ _ W _ _ L).
  - intros c ct' n o S P. destruct (F _ _ S) as [E|[ct [S0 E]]]; [rewrite E in P; discriminate|].
    rewrite E in P. apply (wf_n1 _ _ W _ _ _ _ S0 P).
  - intros n c H. destruct (wf_n2 _ _ W _ _ H) as [ct [o [S P]]].
    destruct (B _ _ S) as [ct' [S' E]]; [intros E; rewrite E in P; discriminate|].
    exists ct', o. rewrite E. auto.
  - intros c ct' S. destruct (F _ _ S) as [E|[ct [S0 E]]]; [rewrite E; constructor|].
    rewrite E. apply (wf_pk _ _ W _ _ S0).
  - intros proto p n Hp U. apply (wf_ptag _ _ W proto p n Hp). unfold get_pm in *. destruct (proto =? 0); exact U.
  - apply (wf_squat _ _ W).
Qed.

Lemma wf_set_one : forall A s c ct ct', WF A s -> ss_get c (sr_sess s) = Some ct -> ss_pxys ct' = ss_pxys ct ->
  WF A (set_sess (ss_set c ct' (sr_sess s)) s).
Proof.
  intros A s c ct ct' W S E. apply wf_change_sess; [assumption| |].
  - intros c0 ct0 H. destruct (Z.eq_dec c0 c) as [->|N].
    + rewrite ss_get_set_eq in H. injection H as <-. right. exists ct. auto.
    + rewrite ss_get_set_neq in H by assumption. right. exists ct0. auto.
  - intros c0 ct0 H _. destruct (Z.eq_dec c0 c) as [->|N].
    + exists ct'. rewrite ss_get_set_eq. split; [reflexivity|]. congruence.
    + exists ct0. rewrite ss_get_set_neq by assumption. auto.
Qed.

Lemma wf_login : forall A s c ct', WF A s -> ss_get c (sr_sess s) = None -> ss_pxys ct' = [] ->
  WF A (set_sess (ss_set c ct' (sr_sess s)) s).
Proof.
  intros A s c ct' W S E. apply wf_change_sess; [assumption| |].
  - intros c0 ct0 H. destruct (Z.eq_dec c0 c) as [->|N].
    + rewrite ss_get_set_eq in H. injection H as <-. left. assumption.
    + rewrite ss_get_set_neq in H by assumption. right. exists ct0. auto.
  - intros c0 ct0 H _. destruct (Z.eq_dec c0 c) as [->|N]; [congruence|].
    exists ct0. rewrite ss_get_set_neq by assumption. auto.
Qed.

Lemma wf_drop_empty : forall A s c ct, WF A s -> ss_get c (sr_sess s) = Some ct -> ss_pxys ct = [] ->
  WF A (set_sess (ss_del c (sr_sess s)) s).
Proof.
  intros A s c ct W S E. apply wf_change_sess; [assumption| |].
  - intros c0 ct0 H. destruct (Z.eq_dec c0 c) as [->|N].
    + unfold ss_get, ss_del in H. rewrite (al_get_del_eq Z.eqb_spec) in H. discriminate.
    + unfold ss_get, ss_del in H. rewrite (al_get_del_neq Z.eqb_spec) in H by assumption. right. exists ct0. auto.
  - intros c0 ct0 H Hne. destruct (Z.eq_dec c0 c) as [->|N]; [congruence|].
    exists ct0. unfold ss_get, ss_del. rewrite (al_get_del_neq Z.eqb_spec) by assumption. auto.
Qed.

(* ---------- the port managers may change up to pm_eqv ---------- *)
Lemma wf_pm_eqv : forall A s t u, WF A s -> PInv A t -> PInv A u ->
  pm_used t = pm_used (sr_tcp s) -> pm_used u = pm_used (sr_udp s) ->
  WF A (set_udp u (set_tcp t s)).
Proof.
  intros A s t u W Pt Pu Et Eu.
  assert (LL : forall n o, live (set_udp u (set_tcp t s)) n o <-> live s n o) by (intros; unfold live; unsr; tauto).
  constructor; unsr.
  - apply (wf_nogrp _ _ W).
  - assumption.
  - assumption.
  - apply (wf_keys _ _ W).
  - intros k ow H. destruct (wf_held _ _ W _ _ H) as [n [o [E [L I]]]]. exists n, o. rewrite LL. auto.
  - intros n o k L I. apply LL in L. apply (wf_pres _ _ W _ _ _ L I).
  - intros n o L. apply LL in L. apply (wf_obj _ _ W _ _ L).
  - apply (wf_n1 _ _ W).
  - apply (wf_n2 _ _ W).
  - apply (wf_pk _ _ W).
  - intros proto p n Hp U. apply (wf_ptag _ _ W proto p n Hp). unfold get_pm in *. cbn in U.
    destruct (proto =? 0); [rewrite <- Et|rewrite <- Eu]; exact U.
  - apply (wf_squat _ _ W).
Qed.

(* ---------- a successful registration ---------- *)
Lemma wf_install_core : forall A s c ct n o u s',
  WF A s -> ss_get c (sr_sess s) = Some ct -> nm_get n (sr_names s) = None ->
  obj_ok n o -> NoDup (po_slots o) -> (forall k, In k (po_slots o) -> rget_ k (sr_res s) = None) ->
  sr_grp s' = [] -> PInv A (sr_tcp s') -> PInv A (sr_udp s') -> sr_squat s' = sr_squat s ->
  sr_res s' = claim n (rev (po_slots o)) ++ sr_res s ->
  sr_names s' = nm_set n c (sr_names s) ->
  sr_sess s' = ss_set c (sess_with ct (nm_set n o (ss_pxys ct)) u) (sr_sess s) ->
  (forall proto p n', (proto = 0 \/ proto = 1) -> uget p (pm_used (get_pm proto s')) = Some n' ->
     uget p (pm_used (get_pm proto s)) = Some n' \/ (n' = n /\ In (SSock proto p) (po_slots o))) ->
  (forall proto p, In (proto, p) (sr_squat s) -> ~ In (SSock proto p) (po_slots o)) ->
  WF A s'.
Proof.
  intros A s c ct n o u s' W SC NN OK ND AB Eg Pt Pu Eq Er En Es PT SQ.
  assert (NL : forall o', ~ live s n o').
  { intros o' [c' [ct' [S' P']]]. pose proof (wf_n1 _ _ W _ _ _ _ S' P'). congruence. }
  assert (LL : forall n' o', live s' n' o' <-> (n' = n /\ o' = o) \/ (n' <> n /\ live s n' o')).
  { intros n' o'. unfold live. rewrite Es. split.
    - intros [c' [ct' [S' P']]]. destruct (Z.eq_dec c' c) as [->|Nc].
      + rewrite ss_get_set_eq in S'. injection S' as <-. cbn [ss_pxys sess_with] in P'.
        destruct (String.eqb_spec n' n) as [->|Nn].
        * rewrite nm_get_set_eq in P'. left. split; congruence.
        * rewrite nm_get_set_neq in P' by assumption. right. split; [assumption|exists c, ct; auto].
      + rewrite ss_get_set_neq in S' by assumption. right. split; [|exists c', ct'; auto].
        intros ->. apply (NL o'). exists c', ct'. auto.
    - intros [[-> ->]|[Nn [c' [ct' [S' P']]]]].
      + exists c. eexists. rewrite ss_get_set_eq. split; [reflexivity|]. cbn [ss_pxys sess_with]. apply nm_get_set_eq.
      + destruct (Z.eq_dec c' c) as [->|Nc].
        * assert (ct' = ct) by congruence. subst ct'. exists c. eexists. rewrite ss_get_set_eq. split; [reflexivity|].
          cbn [ss_pxys sess_with]. rewrite nm_get_set_neq by assumption. assumption.
        * exists c', ct'. rewrite ss_get_set_neq by assumption. auto. }
  assert (NI : forall k, rget_ k (sr_res s) <> None -> ~ In k (rev (po_slots o))).
  { intros k H I. apply H. apply AB. apply in_rev. assumption. }
  constructor.
  - assumption.
  - assumption.
  - assumption.
  - rewrite Er. apply claim_nodup; [apply NoDup_rev; assumption| |apply (wf_keys _ _ W)].
    intros k Hk. apply AB. apply in_rev. assumption.
  - intros k ow H. rewrite Er in H. apply in_app_iff in H. destruct H as [H|H].
    + apply in_claim in H. destruct H as [-> H]. exists n, o. split; [reflexivity|]. split; [apply LL; auto|apply in_rev; assumption].
    + destruct (wf_held _ _ W _ _ H) as [n' [o' [E [L I]]]]. exists n', o'. split; [assumption|]. split; [|assumption].
      apply LL. right. split; [|assumption]. intros ->. apply (NL _ L).
  - intros n' o' k L I. apply LL in L. rewrite Er. destruct L as [[-> ->]|[Nn L]].
    + apply res_get_app_claim_in. apply -> in_rev. assumption.
    + pose proof (wf_pres _ _ W _ _ _ L I) as R. rewrite res_get_app_claim_notin; [assumption|].
      apply NI. rewrite R. discriminate.
  - intros n' o' L. apply LL in L. destruct L as [[-> ->]|[Nn L]]; [assumption|apply (wf_obj _ _ W _ _ L)].
  - intros c' ct' n' o' S' P'. rewrite En.
    assert (L : live s' n' o') by (exists c', ct'; auto). rewrite Es in S'.
    destruct (Z.eq_dec c' c) as [->|Nc].
    + rewrite ss_get_set_eq in S'. injection S' as <-. cbn [ss_pxys sess_with] in P'.
      destruct (String.eqb_spec n' n) as [->|Nn]; [apply nm_get_set_eq|].
      rewrite nm_get_set_neq in P' by assumption. rewrite nm_get_set_neq by assumption. apply (wf_n1 _ _ W _ _ _ _ SC P').
    + rewrite ss_get_set_neq in S' by assumption.
      assert (n' <> n). { intros ->. apply (NL o'). exists c', ct'. auto. }
      rewrite nm_get_set_neq by assumption. apply (wf_n1 _ _ W _ _ _ _ S' P').
  - intros n' c' H. rewrite En in H. rewrite Es. destruct (String.eqb_spec n' n) as [->|Nn].
    + rewrite nm_get_set_eq in H. injection H as <-. eexists. exists o. rewrite ss_get_set_eq. split; [reflexivity|].
      cbn [ss_pxys sess_with]. apply nm_get_set_eq.
    + rewrite nm_get_set_neq in H by assumption. destruct (wf_n2 _ _ W _ _ H) as [ct' [o' [S' P']]].
      destruct (Z.eq_dec c' c) as [->|Nc].
      * assert (ct' = ct) by congruence. subst ct'. eexists. exists o'. rewrite ss_get_set_eq. split; [reflexivity|].
        cbn [ss_pxys sess_with]. rewrite nm_get_set_neq by assumption. assumption.
      * exists ct', o'. rewrite ss_get_set_neq by assumption. auto.
  - intros c' ct' S'. rewrite Es in S'. destruct (Z.eq_dec c' c) as [->|Nc].
    + rewrite ss_get_set_eq in S'. injection S' as <-. cbn [ss_pxys sess_with]. unfold nm_set, al_set. simpl. constructor.
      * intros I. apply (al_get_none_notin String.eqb_spec) in I; [assumption|]. apply (al_get_del_eq String.eqb_spec).
      * apply (al_del_nodup String.eqb_spec). apply (wf_pk _ _ W _ _ SC).
    + rewrite ss_get_set_neq in S' by assumption. apply (wf_pk _ _ W _ _ S').
  - intros proto p n' Hp U. rewrite Er. destruct (PT _ _ _ Hp U) as [U0|[-> I]].
    + pose proof (wf_ptag _ _ W _ _ _ Hp U0) as R. rewrite res_get_app_claim_notin; [assumption|].
      apply NI. rewrite R. discriminate.
    + apply res_get_app_claim_in. apply -> in_rev. assumption.
  - intros proto p H. rewrite Eq in H. rewrite Er. rewrite res_get_app_claim_notin; [apply (wf_squat _ _ W _ _ H)|].
    intros I. apply (SQ _ _ H). apply in_rev. assumption.
Qed.

Lemma sr_ext : forall a b : sr,
  sr_tcp a = sr_tcp b -> sr_udp a = sr_udp b -> sr_squat a = sr_squat b -> sr_res a = sr_res b ->
  sr_grp a = sr_grp b -> sr_names a = sr_names b -> sr_sess a = sr_sess b -> a = b.
Proof. intros [] []; cbn; intros; subst; reflexivity. Qed.

Lemma wf_same_core : forall A s s1, WF A s -> same_but_res_pm s s1 -> sr_res s1 = sr_res s ->
  PInv A (sr_tcp s1) -> PInv A (sr_udp s1) -> pm_used (sr_tcp s1) = pm_used (sr_tcp s) -> pm_used (sr_udp s1) = pm_used (sr_udp s) ->
  WF A s1.
Proof.
  intros A s s1 W [S1 [S2 [S3 S4]]] R Pt Pu Et Eu.
  assert (E : s1 = set_udp (sr_udp s1) (set_tcp (sr_tcp s1) s)) by (apply sr_ext; unsr; auto).
  rewrite E. apply wf_pm_eqv; assumption.
Qed.

Definition group_free_req (q : req) : Prop := q_group q = ""%string.

Lemma y_register_wf : forall A maxp s c q s' r,
  WF A s -> ~ In 0 A -> group_free_req q -> y_register maxp s c q = Some (s', r) -> WF A s'.
Proof.
  intros A maxp s c q s' r W H0 G H. unfold y_register in H.
  destruct (ss_get c (sr_sess s)) as [ct|] eqn:SC; [|discriminate].
  destruct ((0 <? maxp) && (maxp <? ss_used ct + weight (q_type q))); [injection H as <- <-; assumption|].
  destruct (nm_get (q_name q) (sr_names s)) as [c0|] eqn:NN.
  { injection H as <- <-. apply (wf_set_one A _ c ct); [assumption|exact SC|reflexivity]. }
  destruct (px_run s q) as [[s1 [o|e]]|] eqn:R; [| |discriminate].
  - destruct (px_run_spec A s q s1 _ G (wf_tcp _ _ W) (wf_udp _ _ W) H0 R) as [[S1 [S2 [S3 S4]]] [Pt [Pu [OK [OT [ND [AB [ER [PE _]]]]]]]]].
    destruct (q_addok q).
    + injection H as <- <-.
      pose proof OK as [ON [OG [OW SK]]].
      eapply (wf_install_core A s c ct (q_name q) o); try eassumption; unsr; try assumption.
      * rewrite S2. apply (wf_nogrp _ _ W).
      * rewrite S3. reflexivity.
      * rewrite S4. reflexivity.
      * intros proto p n' Hp U. unfold pm_effect, slots_kind in *. unfold get_pm in *.
        destruct (po_type o) eqn:T; destruct Hp as [-> | ->]; cbn [Z.eqb] in *;
          try (destruct PE as [E1 E2]; rewrite ?E1, ?E2 in U; left; exact U);
          try (destruct PE as [E1 [E2 [E3 E4]]]; rewrite ?E1, ?E3 in U; try (left; exact U));
          cbn [pm_used pm_take] in U;
          (destruct (Z.eq_dec p (po_real o)) as [->|Np];
            [rewrite uget_uset_eq in U; injection U as <-; right; split; [reflexivity|rewrite SK; simpl; auto]
            |rewrite uget_uset_neq in U by assumption; left; exact U]).
      * intros proto p Hq I. unfold pm_effect, slots_kind in *.
        destruct (po_type o) eqn:T;
          try (destruct (SK _ I) as [rr E]; discriminate E);
          try (rewrite SK in I; destruct I as [E|[]]; try discriminate E; injection E as <- <-;
               destruct PE as [E1 [E2 [E3 E4]]]; contradiction).
    + injection H as <- <-.
      destruct (px_close_spec s1 (q_name q) o OK) as [CR [[C1 [C2 [C3 C4]]] [CT CU]]].
      assert (W2 : WF A (px_close s1 o)).
      { apply (wf_same_core A s); [assumption| | | | | |].
        - unfold same_but_res_pm. csplit; congruence.
        - rewrite CR, ER. apply res_del_all_claim.
          + intros k Hk. apply AB. apply in_rev. assumption.
          + apply NoDup_rev. assumption.
          + intros k Hk. left. apply -> in_rev. assumption.
          + intros k Hk. apply in_rev. assumption.
        - rewrite CT. destruct (is_tcp (po_type o)); [apply pinv_release|]; assumption.
        - rewrite CU. destruct (is_udp (po_type o)); [apply pinv_release|]; assumption.
        - rewrite CT. unfold pm_effect in PE. destruct (po_type o); cbn [is_tcp];
            try (destruct PE as [E1 E2]; rewrite E1; reflexivity);
            try (destruct PE as [E1 [E2 [E3 E4]]]; rewrite ?E3; try reflexivity).
          rewrite E1. symmetry. apply (take_release_eqv A); [apply (wf_tcp _ _ W)|assumption].
        - rewrite CU. unfold pm_effect in PE. destruct (po_type o); cbn [is_udp];
            try (destruct PE as [E1 E2]; rewrite E2; reflexivity);
            try (destruct PE as [E1 [E2 [E3 E4]]]; rewrite ?E3; try reflexivity).
          rewrite E1. symmetry. apply (take_release_eqv A); [apply (wf_udp _ _ W)|assumption]. }
      apply (wf_set_one A _ c ct); [exact W2|rewrite C4, S4; exact SC|reflexivity].
  - destruct (px_run_spec A s q s1 _ G (wf_tcp _ _ W) (wf_udp _ _ W) H0 R) as [SS [Pt [Pu [ER [[Et _] [Eu _]]]]]].
    injection H as <- <-.
    assert (W1 : WF A s1) by (apply (wf_same_core A s); auto).
    destruct SS as [S1 [S2 [S3 S4]]].
    apply (wf_set_one A _ c ct); [exact W1|rewrite S4; exact SC|reflexivity].
Qed.

(* ---------- session teardown ---------- *)
Definition agree (a b : sr) : Prop :=
  sr_tcp a = sr_tcp b /\ sr_udp a = sr_udp b /\ sr_squat a = sr_squat b /\ sr_res a = sr_res b /\
  sr_grp a = sr_grp b /\ sr_names a = sr_names b.

Lemma al_del_idem_Z : forall V c (l : list (Z * V)), ss_del c (ss_del c l) = ss_del c l.
Proof. intros. apply (al_del_absent Z.eqb_spec). apply (al_get_del_eq Z.eqb_spec). Qed.

Lemma close_all_spec : forall A c l sa sb ct,
  WF A sb -> agree sa sb -> ss_get c (sr_sess sb) = Some ct -> ss_pxys ct = l ->
  exists s2 ct2, WF A s2 /\ ss_get c (sr_sess s2) = Some ct2 /\ ss_pxys ct2 = [] /\ ss_pool ct2 = ss_pool ct /\
                 agree (close_all sa l) s2 /\ ss_del c (sr_sess s2) = ss_del c (sr_sess sb) /\
                 sr_sess (close_all sa l) = sr_sess sa.
Proof.
  intros A c l. induction l as [|[n o] t IH]; intros sa sb ct W AG SC PL.
  - exists sb, ct. cbn. csplit; auto.
  - cbn [close_all].
    assert (PC : nm_get n (ss_pxys ct) = Some o).
    { rewrite PL. unfold nm_get. simpl. rewrite String.eqb_refl. reflexivity. }
    assert (L0 : live sb n o) by (exists c, ct; auto).
    pose proof (wf_obj _ _ W _ _ L0) as OK. pose proof OK as [ON _].
    destruct (px_close_spec sa n o OK) as [RA [[A1 [A2 [A3 A4]]] [TA UA]]].
    destruct (px_close_spec sb n o OK) as [RB [[B1 [B2 [B3 B4]]] [TB UB]]].
    destruct AG as [G1 [G2 [G3 [G4 [G5 G6]]]]].
    destruct (y_close 0 sb c n) as [sb'|] eqn:YC; [|unfold y_close in YC; rewrite SC, PC in YC; discriminate].
    pose proof (y_close_wf _ _ _ _ _ _ W YC) as W'.
    unfold y_close in YC. rewrite SC, PC in YC. injection YC as YC.
    assert (ND : NoDup (map fst (ss_pxys ct))) by (apply (wf_pk _ _ W _ _ SC)).
    assert (DT : nm_del n (ss_pxys ct) = t).
    { rewrite PL in *. unfold nm_del. simpl. rewrite String.eqb_refl. apply (al_del_absent String.eqb_spec).
      apply (al_notin_get_none String.eqb_spec). simpl in ND. inversion ND; assumption. }
    rewrite DT in YC.
    set (ct' := sess_with ct t (if 0 <? 0 then ss_used ct - po_w o else ss_used ct)) in *.
    assert (SC' : ss_get c (sr_sess sb') = Some ct') by (rewrite <- YC; unsr; apply ss_get_set_eq).
    assert (AG' : agree (set_names (nm_del (po_name o) (sr_names (px_close sa o))) (px_close sa o)) sb').
    { rewrite <- YC. unfold agree. unsr. rewrite TA, TB, UA, UB, A1, B1, RA, RB, A2, B2, A3, B3, G1, G2, G3, G4, G5, G6. csplit; reflexivity. }
    destruct (IH _ sb' ct' W' AG' SC' eq_refl) as [s2 [ct2 [W2 [S2 [P2 [PO [AG2 [D2 SS]]]]]]]].
    exists s2, ct2. csplit; auto.
    + rewrite D2. rewrite <- YC. unsr. rewrite B4. unfold ss_set, al_set. simpl. rewrite Z.eqb_refl. apply al_del_idem_Z.
    + rewrite SS. unsr. exact A4.
Qed.

Lemma y_end_wf : forall A s c s' k, WF A s -> y_end s c = Some (s', k) -> WF A s'.
Proof.
  intros A s c s' k W H. unfold y_end in H.
  destruct (ss_get c (sr_sess s)) as [ct|] eqn:SC; [|discriminate]. injection H as <- <-.
  assert (AG : agree s s) by (unfold agree; csplit; reflexivity).
  destruct (close_all_spec A c (ss_pxys ct) s s ct W AG SC eq_refl) as [s2 [ct2 [W2 [S2 [P2 [PO [[G1 [G2 [G3 [G4 [G5 G6]]]]] [D2 SS]]]]]]]].
  assert (E : set_sess (ss_del c (sr_sess (close_all s (ss_pxys ct)))) (close_all s (ss_pxys ct))
              = set_sess (ss_del c (sr_sess s2)) s2).
  { apply sr_ext; unsr; auto. rewrite SS, D2. reflexivity. }
  rewrite E. apply (wf_drop_empty A s2 c ct2); assumption.
Qed.

(* ---------- every history ---------- *)
Definition group_free_op (o : sop) : Prop :=
  match o with SNewProxy _ q => group_free_req q | _ => True end.

Lemma sr_step_wf : forall A maxp maxpool s o s' out,
  WF A s -> ~ In 0 A -> group_free_op o -> sr_step maxp maxpool s o = Some (s', out) -> WF A s'.
Proof.
  intros A maxp maxpool s o s' out W H0 G H. destruct o as [c pool|c q|c n|c why|c|proto port|proto port]; cbn [sr_step] in H.
  - destruct (ss_get c (sr_sess s)) eqn:SC; [discriminate|]. injection H as <- <-. apply wf_login; auto.
  - destruct (y_register maxp s c q) as [[s1 r]|] eqn:R; [|discriminate]. injection H as <- <-.
    eapply y_register_wf; eauto.
  - destruct (y_close maxp s c n) as [s1|] eqn:R; [|discriminate]. injection H as <- <-. eapply y_close_wf; eauto.
  - destruct (y_end s c) as [[s1 k]|] eqn:R; [|discriminate]. injection H as <- <-. eapply y_end_wf; eauto.
  - destruct (ss_get c (sr_sess s)) as [ct|] eqn:SC; [|discriminate].
    destruct (ss_pool ct <? ss_cap ct); injection H as <- <-; [|assumption].
    apply (wf_set_one A s c ct); auto.
  - destruct ((1 <=? port) && sr_probe s proto port) eqn:E; [|discriminate]. injection H as <- <-.
    apply andb_prop in E. destruct E as [_ E].
    constructor; unsr; try apply W.
    intros p0 p1 [E1|I]; [injection E1 as <- <-; apply (probe_free_sock _ _ _ E)|apply (wf_squat _ _ W _ _ I)].
  - injection H as <- <-.
    constructor; unsr; try apply W.
    intros p0 p1 I. apply filter_In in I. apply (wf_squat _ _ W _ _ (proj1 I)).
Qed.

Lemma sr_run_wf : forall A maxp maxpool ops s s',
  WF A s -> ~ In 0 A -> Forall group_free_op ops -> sr_run maxp maxpool ops s = Some s' -> WF A s'.
Proof.
  intros A maxp maxpool ops. induction ops as [|o t IH]; intros s s' W H0 G H; simpl in H.
  - injection H as <-. assumption.
  - destruct (sr_step maxp maxpool s o) as [[s1 out]|] eqn:E; [|discriminate].
    inversion G; subst. eapply IH; [|assumption|assumption|exact H]. eapply sr_step_wf; eauto.
Qed.

Theorem reachable_wf : forall ranges maxp maxpool ops s,
  Forall group_free_op ops -> sr_run maxp maxpool ops (sr_new ranges) = Some s -> WF (pm_allowed ranges) s.
Proof.
  intros. eapply sr_run_wf; [apply wf_new|apply allowed_no0|eassumption|eassumption].
Qed.

(* ====================== consequences ====================== *)

Lemma filter_nil : forall (T : Type) (f : T -> bool) l, (forall x, In x l -> f x = false) -> filter f l = [].
Proof.
  induction l as [|a l IH]; simpl; intros H; [reflexivity|].
  rewrite (H a (or_introl eq_refl)). apply IH. intros x Hx. apply H. auto.
Qed.

(* a name that is not registered holds nothing *)
Lemma fp_empty_of_unregistered : forall A s n, WF A s -> nm_get n (sr_names s) = None -> fp s n = [].
Proof.
  intros A s n W NN.
  assert (NL : forall o, ~ live s n o).
  { intros o [c [ct [S P]]]. pose proof (wf_n1 _ _ W _ _ _ _ S P). congruence. }
  unfold fp.
  assert (E1 : fp_res s n = []).
  { unfold fp_res. rewrite filter_nil; [reflexivity|]. intros [k ow] H. simpl.
    destruct (wf_held _ _ W _ _ H) as [n' [o [-> [L _]]]]. simpl.
    destruct (String.eqb_spec n n') as [->|]; [exfalso; apply (NL _ L)|reflexivity]. }
  assert (E2 : fp_grp s n = []) by (unfold fp_grp; rewrite (wf_nogrp _ _ W); reflexivity).
  assert (E3 : forall proto, (proto = 0 \/ proto = 1) -> fp_ports s proto n = []).
  { intros proto Hp. unfold fp_ports. rewrite filter_nil; [reflexivity|]. intros [p m] H. simpl.
    destruct (uget p (pm_used (get_pm proto s))) as [m'|] eqn:U; [|reflexivity].
    destruct (String.eqb_spec n m') as [<-|]; [|reflexivity]. exfalso.
    destruct (wf_port_holder _ _ _ _ _ W Hp U) as [o [L I]]. apply (NL _ L). }
  assert (E4 : fp_name s n = []) by (unfold fp_name; rewrite NN; reflexivity).
  assert (E5 : fp_owned s n = []).
  { unfold fp_owned. assert (G : forall l, flat_map (fun e : Z * sess => match ss_get (fst e) (sr_sess s) with
                     | Some ct => match nm_get n (ss_pxys ct) with Some _ => [AOwned (fst e)] | None => [] end
                     | None => [] end) l = []).
    { induction l as [|[c ct] r IH]; simpl; [reflexivity|]. rewrite IH.
      destruct (ss_get c (sr_sess s)) as [ct1|] eqn:S1; [|reflexivity].
      destruct (nm_get n (ss_pxys ct1)) as [o1|] eqn:P1; [|reflexivity].
      exfalso. apply (NL o1). exists c, ct1. auto. }
    apply G. }
  rewrite E1, E2, (E3 0), (E3 1), E4, E5; auto.
Qed.
