package main

// literal cases of driver "config": ValidatePort, PortsRangeSlice, ParseRangeNumbers,
// parseNumberRangePair (through the real template engine), BandwidthQuantity, strconv.

import (
	"fmt"
	"math"
	"strconv"
	"strings"

	"github.com/fatedier/frp/pkg/config"
	"github.com/fatedier/frp/pkg/config/types"
	"github.com/fatedier/frp/pkg/config/v1/validation"
	"github.com/fatedier/frp/pkg/util/util"

	"verifharness/hx"
)

var intTexts = []string{
	"0", "-0", "+5", "007", "", "-", "+", "1_000", "9223372036854775807", "9223372036854775808", "-9223372036854775808",
	"-9223372036854775809", " 1", "1 ", "0x10", "１２", "1e3", "99999999999999999999999", "65535", "-1", "+-1", "1-", "12a", "٣",
}

var intValues = []int64{0, 1, -1, 9, 10, 99, 100, 65535, 65536, 1000000, math.MaxInt32, math.MinInt32, math.MaxInt64, math.MinInt64,
	math.MaxInt64 - 1, math.MinInt64 + 1, 1234567890123}

func coqPorts(p []types.PortsRange) string {
	items := []string{}
	for _, r := range p {
		items = append(items, fmt.Sprintf("(mk_ports_range %s %s %s)", hx.Z(int64(r.Start)), hx.Z(int64(r.End)), hx.Z(int64(r.Single))))
	}
	return hx.List(items)
}

func coqOptPorts(p []types.PortsRange, err error) string {
	if err != nil {
		return "None"
	}
	return "(Some " + coqPorts(p) + ")"
}

func coqZs(l []int64) string {
	items := []string{}
	for _, x := range l {
		items = append(items, hx.Z(x))
	}
	return hx.List(items)
}

// one comma-separated range text; sizes of the ranges stay small so that expansion is cheap
func (g *gen) rangeText(junk bool) (string, bool) {
	n := 1 + g.intn(4)
	parts := []string{}
	noReturn := false
	for i := 0; i < n; i++ {
		sp := func() string { return g.pick([]string{"", "", "", " ", "\t"}) }
		lo := g.pickInt([]int64{0, 1, 80, 1000, 6000, 65530, 65535, 70000, int64(g.intn(70000))})
		switch g.intn(10) {
		case 0, 1, 2, 3:
			parts = append(parts, sp()+strconv.FormatInt(lo, 10)+sp())
		case 4, 5, 6, 7:
			hi := lo + int64(g.intn(12))
			if g.chance(0.1) {
				hi = lo + 300 + int64(g.intn(700))
			}
			if g.chance(0.06) {
				hi = lo - 1 - int64(g.intn(3)) // max < min
			}
			if g.chance(0.1) {
				hi = lo // upper bound equal to lower bound
			}
			parts = append(parts, sp()+strconv.FormatInt(lo, 10)+sp()+"-"+sp()+strconv.FormatInt(hi, 10)+sp())
		case 8:
			if junk {
				parts = append(parts, g.pick([]string{"", " ", "a", "1-2-3", "-5", "5-", "1--2", "1.5", "+7", "1_0", "0x1f", "9223372036854775808", "3-a"}))
			} else {
				parts = append(parts, strconv.FormatInt(lo, 10))
			}
		case 9:
			if junk && g.chance(0.15) {
				// the loop `for i := min; i <= max; i++` cannot terminate for max = MaxInt64: never executed by the harness
				parts = append(parts, "9223372036854775800-9223372036854775807")
				noReturn = true
			} else {
				parts = append(parts, "9223372036854775800-9223372036854775806")
			}
		}
	}
	return g.pick([]string{"", "", " ", "\n"}) + strings.Join(parts, ",") + g.pick([]string{"", "", " "}), noReturn
}

// would the real ParseRangeNumbers reach the non-terminating range before failing?  (prefix elements all valid)
func reachesNoReturn(text string) bool {
	for _, el := range strings.Split(strings.TrimSpace(text), ",") {
		if el == "9223372036854775800-9223372036854775807" {
			return true
		}
		if _, err := util.ParseRangeNumbers(el); err != nil {
			return false
		}
	}
	return false
}

func (d *drv) literalCase(g *gen) caseOut {
	switch g.intn(9) {
	case 0:
		p := g.pickInt(append(portValues, 65534, 2, -2, int64(g.intn(70000))))
		ok := validation.ValidatePort(int(p), "x") == nil
		if ok != (p >= 0 && p <= 65535) {
			d.fail("validate-port", "ValidatePort disagrees with the documented range 0..65535", fmt.Sprint(p))
		}
		return caseOut{fmt.Sprintf("CPort %s %s", hx.Z(p), hx.Bool(ok)), "port"}
	case 1:
		var p []types.PortsRange
		wf := true
		for i := 0; i < g.intn(5); i++ {
			switch g.intn(8) {
			case 0, 1, 2:
				p = append(p, types.PortsRange{Single: 1 + g.intn(65535)})
			case 3, 4, 5:
				lo := g.intn(65000)
				p = append(p, types.PortsRange{Start: lo, End: lo + g.intn(500)})
			case 6:
				p = append(p, types.PortsRange{Start: 0, End: 0})
			default:
				wf = false
				p = append(p, types.PortsRange{Start: g.intn(10) - 5, End: g.intn(10) - 5, Single: g.intn(3) - 1})
			}
		}
		text := types.PortsRangeSlice(p).String()
		back, err := types.NewPortsRangeSliceFromString(text)
		if wf && len(p) > 0 {
			if err != nil || coqPorts(back) != coqPorts(p) {
				d.fail("ports-range-roundtrip", "a well-formed PortsRangeSlice does not survive String / NewPortsRangeSliceFromString", coqPorts(p)+" "+text)
			}
		}
		return caseOut{fmt.Sprintf("CPortsString %s %s %s", coqPorts(p), hx.HxS(text), coqOptPorts(back, err)), "ports-string"}
	case 2:
		text, nr := g.rangeText(true)
		if nr {
			text = strings.ReplaceAll(text, "9223372036854775807", "9223372036854775806")
		}
		res, err := types.NewPortsRangeSliceFromString(text)
		text2 := ""
		if err == nil {
			text2 = types.PortsRangeSlice(res).String()
		}
		return caseOut{fmt.Sprintf("CPortsParse %s %s %s", hx.HxS(text), coqOptPorts(res, err), hx.HxS(text2)), "ports-parse"}
	case 3, 4:
		text, nr := g.rangeText(true)
		if nr && reachesNoReturn(text) {
			return caseOut{fmt.Sprintf("CRangeNumbers %s RNNoReturn", hx.HxS(text)), "range-numbers-noreturn(not executed)"}
		}
		if nr {
			text = strings.ReplaceAll(text, "9223372036854775807", "9223372036854775806")
		}
		nums, err := util.ParseRangeNumbers(text)
		if err != nil {
			return caseOut{fmt.Sprintf("CRangeNumbers %s RNErr", hx.HxS(text)), "range-numbers-err"}
		}
		return caseOut{fmt.Sprintf("CRangeNumbers %s (RNOk %s)", hx.HxS(text), coqZs(nums)), "range-numbers-ok"}
	case 5:
		a, nra := g.rangeText(g.chance(0.3))
		b, nrb := g.rangeText(g.chance(0.3))
		if g.chance(0.5) {
			// aligned on purpose: the same shape shifted
			b = a
		}
		if nra || nrb {
			a = strings.ReplaceAll(a, "9223372036854775807", "9223372036854775806")
			b = strings.ReplaceAll(b, "9223372036854775807", "9223372036854775806")
		}
		tpl := fmt.Sprintf(`{{ range $i, $v := parseNumberRangePair %q %q }}{{ $v.First }}:{{ $v.Second }};{{ end }}`, a, b)
		out, err := config.RenderWithTemplate([]byte(tpl), &config.Values{Envs: map[string]string{}})
		if err != nil {
			kind := "PairsErrLen"
			if !strings.Contains(err.Error(), "not in pairs") {
				if _, e1 := util.ParseRangeNumbers(a); e1 != nil {
					kind = "PairsErrFirst"
				} else {
					kind = "PairsErrSecond"
				}
			}
			return caseOut{fmt.Sprintf("CPairs %s %s %s", hx.HxS(a), hx.HxS(b), kind), "pairs-" + kind}
		}
		items := []string{}
		for _, it := range strings.Split(strings.TrimSuffix(string(out), ";"), ";") {
			if it == "" {
				continue
			}
			xy := strings.SplitN(it, ":", 2)
			x, _ := strconv.ParseInt(xy[0], 10, 64)
			y, _ := strconv.ParseInt(xy[1], 10, 64)
			items = append(items, "("+hx.Z(x)+", "+hx.Z(y)+")")
		}
		return caseOut{fmt.Sprintf("CPairs %s %s (PairsOk %s)", hx.HxS(a), hx.HxS(b), hx.List(items)), "pairs-ok"}
	case 6:
		text := g.pick(bwLiterals)
		if g.chance(0.4) {
			text = g.pick(bwJunk)
		}
		var q types.BandwidthQuantity
		err := q.UnmarshalString(text)
		ek := func(err error) string {
			switch {
			case err == nil:
				return "BwOk"
			case strings.Contains(err.Error(), "unit not support"):
				return "BwErrUnit"
			}
			return "BwErrFloat"
		}
		q2, err2 := types.NewBandwidthQuantity(q.String())
		if err == nil && (err2 != nil || q2.String() != q.String() || q2.Bytes() != q.Bytes() || q.String() != strings.TrimSpace(text)) {
			d.fail("bandwidth-text-roundtrip", "BandwidthQuantity does not survive its textual form", strconv.Quote(text))
		}
		return caseOut{fmt.Sprintf("CBandwidth %s %s %s %s %s %s", hx.HxS(text), fbEntries(text, q.String()), coqOfAny(&q), ek(err), coqOfAny(&q2), ek(err2)), "bandwidth-" + ek(err)}
	case 7:
		n := g.pickInt(intValues)
		if g.chance(0.5) {
			n = int64(g.R.Uint64())
		}
		return caseOut{fmt.Sprintf("CItoa %s %s", hx.Z(n), hx.HxS(strconv.Itoa(int(n)))), "itoa"}
	default:
		text := g.pick(intTexts)
		if g.chance(0.3) {
			text = strconv.FormatInt(int64(g.R.Uint64()), 10)
		}
		v, err := strconv.ParseInt(text, 10, 64)
		if err != nil {
			return caseOut{fmt.Sprintf("CParseInt %s None", hx.HxS(text)), "parseint-err"}
		}
		return caseOut{fmt.Sprintf("CParseInt %s (Some %s)", hx.HxS(text), hx.Z(v)), "parseint-ok"}
	}
}
